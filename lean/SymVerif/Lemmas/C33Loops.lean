import SymVerif.Lemmas.C33State
/-! Specifications of the loops of `Sieve::_extend`: slice assignment, marking, collecting. -/
namespace SymVerif.C33
open SymVerif.Sieve

theorem set_false_true (a : Array Bool) (i j : Nat) :
    (a.set! i false)[j]? = some true ↔ a[j]? = some true ∧ j ≠ i := by
  simp only [Array.set!_eq_setIfInBounds, Array.getElem?_setIfInBounds]
  split
  · rename_i h; subst h
    split <;> simp
  · rename_i h
    constructor
    · intro h'; exact ⟨h', fun e => h e.symm⟩
    · intro h'; exact h'.1

/-- `is_prime[slice(first,count,stride)] = false` stays in bounds when its last index does, and
then clears exactly the indices `first + t*stride`, `t < count`. -/
theorem markSlice_spec (a : Array Bool) (first count stride : Nat)
    (h : ∀ t, t < count → first + t * stride < a.size) :
    ∃ a', markSlice a first count stride = .ok a' ∧ a'.size = a.size ∧
      ∀ j, (a'[j]? = some true ↔ a[j]? = some true ∧ ∀ t, t < count → j ≠ first + t * stride) := by
  induction count generalizing a first with
  | zero => exact ⟨a, rfl, rfl, by simp⟩
  | succ k ih =>
    have h0 : first < a.size := by simpa using h 0 (by omega)
    obtain ⟨a', e, hs, hj⟩ := ih (a.set! first false) (first + stride) (by
      intro t ht
      have := h (t + 1) (by omega)
      rw [Nat.succ_mul] at this
      simp only [Array.set!_eq_setIfInBounds, Array.size_setIfInBounds]
      omega)
    refine ⟨a', by rw [markSlice, if_pos h0, e], by simpa using hs, ?_⟩
    intro j
    rw [hj, set_false_true]
    constructor
    · rintro ⟨⟨h1, h2⟩, h3⟩
      refine ⟨h1, ?_⟩
      intro t ht
      cases t with
      | zero => simpa using h2
      | succ t =>
        have := h3 t (by omega)
        rw [Nat.succ_mul]; omega
    · rintro ⟨h1, h2⟩
      refine ⟨⟨h1, by simpa using h2 0 (by omega)⟩, ?_⟩
      intro t ht
      have := h2 (t + 1) (by omega)
      rw [Nat.succ_mul] at this; omega

/-- If some index of the slice is outside the array, the assignment is an out-of-bounds access. -/
theorem markSlice_oob (a : Array Bool) (first count stride : Nat)
    (h : ∃ t, t < count ∧ a.size ≤ first + t * stride) :
    markSlice a first count stride = .error .oob := by
  induction count generalizing a first with
  | zero => obtain ⟨t, ht, _⟩ := h; omega
  | succ k ih =>
    obtain ⟨t, ht, hge⟩ := h
    unfold markSlice
    split
    · rename_i hlt
      apply ih
      cases t with
      | zero => simp at hge; omega
      | succ t =>
        refine ⟨t, by omega, ?_⟩
        rw [Nat.succ_mul] at hge
        simp only [Array.set!_eq_setIfInBounds, Array.size_setIfInBounds]
        omega
    · rfl
theorem markLoop_spec (s : State) (start finish : Nat)
    (hs : start % 2 = 0)
    (hodd : ∀ i, 1 ≤ i → i < s.size → s.get i % 2 = 1)
    (hmono : ∀ i j, i ≤ j → j < s.size → s.get i ≤ s.get j)
    (fuel index : Nat) (a : Array Bool) (hidx : 1 ≤ index) (hfuel : s.size ≤ index + fuel)
    (hfin : finish < start + 2 * a.size) :
    ∃ a', markLoop s start finish fuel index a = .ok a' ∧ a'.size = a.size ∧
      ∀ j, start + 2 * j + 1 ≤ finish →
        (a'[j]? = some true ↔ a[j]? = some true ∧
          ∀ i, index ≤ i → i < s.size → s.get i * s.get i ≤ finish →
            ¬ s.get i ∣ start + 2 * j + 1) := by
  induction fuel generalizing index a with
  | zero =>
    refine ⟨a, rfl, rfl, fun j _ => ?_⟩
    constructor
    · intro h; exact ⟨h, fun i h1 h2 => by omega⟩
    · intro h; exact h.1
  | succ fuel ih =>
    unfold markLoop
    simp only [Bool.and_eq_true, decide_eq_true_eq]
    by_cases hc : index < s.size ∧ s.get index * s.get index ≤ finish
    · rw [if_pos hc]
      obtain ⟨hlt, hsq⟩ := hc
      have hn := hodd index hidx hlt
      obtain ⟨f1, f2, f3, f4⟩ := fom_props (start := start) hn
      have hleast : ∀ m, m % 2 = 1 → s.get index ∣ m → start < m →
          ∃ t, m = firstOddMultiple start (s.get index) + 2 * (t * s.get index) :=
        fun m h1 h2 h3 => fom_least hn h1 h2 h3
      -- splitting the quantifier over `i ≥ index`
      have split : ∀ (P : Nat → Prop), (∀ i, index ≤ i → i < s.size → s.get i * s.get i ≤ finish → P i) ↔
          (P index ∧ ∀ i, index + 1 ≤ i → i < s.size → s.get i * s.get i ≤ finish → P i) := by
        intro P
        constructor
        · intro h; exact ⟨h index (le_refl _) hlt hsq, fun i hi => h i (by omega)⟩
        · rintro ⟨h0, h1⟩ i hi h2 h3
          rcases Nat.eq_or_lt_of_le hi with e | l
          · subst e; exact h0
          · exact h1 i l h2 h3
      by_cases hgt : firstOddMultiple start (s.get index) > finish
      · rw [if_pos hgt]
        obtain ⟨a', e, hsz, hj⟩ := ih (index + 1) a (by omega) (by omega) hfin
        refine ⟨a', e, hsz, fun j hjf => ?_⟩
        rw [hj j hjf, split]
        constructor
        · rintro ⟨h1, h2⟩
          refine ⟨h1, ?_, h2⟩
          intro hd
          obtain ⟨t, ht⟩ := hleast _ (by omega) hd (by omega)
          omega
        · rintro ⟨h1, _, h2⟩; exact ⟨h1, h2⟩
      · rw [if_neg hgt]
        have hle : firstOddMultiple start (s.get index) ≤ finish := by omega
        generalize firstOddMultiple start (s.get index) = F at *
        generalize hnn : s.get index = n at *
        have hnpos : 0 < 2 * n := by omega
        have hbound : ∀ t, t < 1 + (finish - F) / (2 * n) → F + 2 * (t * n) ≤ finish := by
          intro t ht
          have : t ≤ (finish - F) / (2 * n) := by omega
          have := (Nat.le_div_iff_mul_le hnpos).1 this
          have e : t * (2 * n) = 2 * (t * n) := by ring
          omega
        obtain ⟨a1, e1, hs1, hj1⟩ := markSlice_spec a ((F - start) / 2) (1 + (finish - F) / (2 * n)) n
          (by intro t ht; have := hbound t ht; omega)
        rw [e1]
        simp only []
        obtain ⟨a', e, hsz, hj⟩ := ih (index + 1) a1 (by omega) (by omega) (by omega)
        refine ⟨a', e, by omega, fun j hjf => ?_⟩
        rw [hj j hjf, hj1, split, hnn]
        constructor
        · rintro ⟨⟨h1, h2⟩, h3⟩
          refine ⟨h1, ?_, h3⟩
          intro hd
          obtain ⟨t, ht⟩ := hleast _ (by omega) hd (by omega)
          refine h2 t ?_ (by omega)
          have e : t * (2 * n) = 2 * (t * n) := by ring
          have : t * (2 * n) ≤ finish - F := by omega
          have := (Nat.le_div_iff_mul_le hnpos).2 this
          omega
        · rintro ⟨h1, h2, h3⟩
          refine ⟨⟨h1, ?_⟩, h3⟩
          intro t ht hjt
          apply h2
          have := hbound t ht
          have : start + 2 * j + 1 = F + (t * n) * 2 := by omega
          rw [this]
          exact Dvd.dvd.add f1 (Dvd.dvd.mul_right (Dvd.intro_left _ rfl) _)
    · rw [if_neg hc]
      refine ⟨a, rfl, rfl, fun j _ => ?_⟩
      constructor
      · intro h
        refine ⟨h, fun i h1 h2 h3 => ?_⟩
        exfalso
        apply hc
        refine ⟨by omega, ?_⟩
        have := hmono index i h1 h2
        exact le_trans (Nat.mul_le_mul this this) h3
      · intro h; exact h.1

theorem cnt_tail {n finish : Nat} (hn : n % 2 = 1) (h4 : 4 ≤ n) (h1 : finish + 1 ≤ n)
    (h2 : n ≤ finish + 2) : cnt n = cnt (finish + 1) := by
  rcases Nat.eq_or_lt_of_le h1 with e | l
  · rw [e]
  · have e : n = (finish + 1) + 1 := by omega
    rw [e, cnt_succ_not_prime (not_prime_even (by omega) (by omega))]

theorem collectLoop_spec (a : Array Bool) (start finish : Nat) (hs : start % 2 = 0) (hs4 : 4 ≤ start)
    (hfin : finish < start + 2 * a.size)
    (hbits : ∀ j, start + 2 * j + 1 ≤ finish → (a[j]? = some true ↔ (start + 2 * j + 1).Prime))
    (fuel n : Nat) (s : State) (hinv : Inv s) (hn : n % 2 = 1) (hsn : start < n)
    (hnf : n ≤ finish + 2) (hfuel : finish + 1 ≤ n + fuel) (hc : s.size = cnt n) :
    ∃ s', collectLoop a start finish fuel n s = .ok s' ∧ Inv s' ∧ s'.size = cnt (finish + 1) ∧
      s'.sieveBits = s.sieveBits ∧ s'.clearFlag = s.clearFlag ∧ s.buf.size ≤ s'.buf.size := by
  induction fuel generalizing n s with
  | zero =>
    exact ⟨s, rfl, hinv, by rw [hc]; exact cnt_tail hn (by omega) (by omega) hnf, rfl, rfl, le_refl _⟩
  | succ fuel ih =>
    unfold collectLoop
    by_cases hle : n ≤ finish
    · rw [if_pos hle]
      have hi : (n - start) / 2 < a.size := by omega
      simp only [dif_pos hi]
      have hb := hbits ((n - start) / 2) (by omega)
      have hnn : start + 2 * ((n - start) / 2) + 1 = n := by omega
      rw [hnn, Array.getElem?_eq_getElem hi] at hb
      have hnp1 : ¬ (n + 1).Prime := not_prime_even (by omega) (by omega)
      by_cases hp : n.Prime
      · have hb' : a[(n - start) / 2] = true := by simpa using hb.2 hp
        rw [hb', if_pos rfl]
        obtain ⟨p1, p2, p3, p4, p5⟩ := inv_push hinv hp hc
        obtain ⟨s', e, q1, q2, q3, q4, q5⟩ := ih (n + 2) (s.push n) p1 (by omega) (by omega) (by omega)
          (by omega) (by rw [p2, show n + 2 = (n + 1) + 1 from rfl, cnt_succ_not_prime hnp1])
        exact ⟨s', e, q1, q2, by rw [q3, p3], by rw [q4, p4], le_trans p5 q5⟩
      · have hb' : ¬ a[(n - start) / 2] = true := by
          intro h; exact hp (hb.1 (by simpa using h))
        rw [if_neg hb']
        exact ih (n + 2) s hinv (by omega) (by omega) (by omega) (by omega)
          (by rw [hc, show n + 2 = (n + 1) + 1 from rfl, cnt_succ_not_prime hnp1,
                cnt_succ_not_prime hp])
    · rw [if_neg hle]
      exact ⟨s, rfl, hinv, by rw [hc]; exact cnt_tail hn (by omega) (by omega) hnf, rfl, rfl, le_refl _⟩

/-- What one pass of the segment loop body establishes. -/
theorem segment_spec (s : State) (hinv : Inv s) (start finish segment : Nat)
    (hs : start % 2 = 0) (hs4 : 4 ≤ start) (hsf : start ≤ finish)
    (hfin : finish < start + 2 * segment)
    (hc : s.size = cnt start)
    (hq : ∀ q, q.Prime → q * q ≤ finish → q < start) :
    ∃ a', markLoop s start finish (s.size + 1) 1 (Array.replicate segment true) = .ok a' ∧
      a'.size = segment ∧
      (∀ j, start + 2 * j + 1 ≤ finish → (a'[j]? = some true ↔ (start + 2 * j + 1).Prime)) ∧
    ∃ s', collectLoop a' start finish (finish + 1) (start + 1) s = .ok s' ∧ Inv s' ∧
      s'.size = cnt (finish + 1) ∧
      s'.sieveBits = s.sieveBits ∧ s'.clearFlag = s.clearFlag ∧ s.buf.size ≤ s'.buf.size := by
  have hget : ∀ i, i < s.size → s.get i = np i := fun i hi =>
    hinv.get (lt_of_lt_of_le hi hinv.size_le)
  obtain ⟨a', e, hsz, hj⟩ := markLoop_spec s start finish hs
    (fun i h1 h2 => by rw [hget i h2]; exact np_odd h1)
    (fun i j h1 h2 => by rw [hget i (by omega), hget j h2]; exact np_le_np h1)
    (s.size + 1) 1 (Array.replicate segment true) (le_refl _) (by omega) (by simpa using hfin)
  have hsz' : a'.size = segment := by simpa using hsz
  have hbits : ∀ j, start + 2 * j + 1 ≤ finish →
      (a'[j]? = some true ↔ (start + 2 * j + 1).Prime) := by
    intro j hjf
    rw [hj j hjf, ← sieve_core (start := start) (finish := finish) (by omega) hq (by omega)
      (by omega) hjf]
    have hjs : j < segment := by omega
    constructor
    · rintro ⟨_, h⟩ i h1 h2 h3
      rw [← hc] at h2
      have := h i h1 h2
      rw [hget i h2] at this
      exact this h3
    · intro h
      refine ⟨by simp [hjs], fun i h1 h2 => ?_⟩
      rw [hget i h2]
      exact h i h1 (by rw [← hc]; exact h2)
  refine ⟨a', e, hsz', hbits, ?_⟩
  exact collectLoop_spec a' start finish hs hs4 (by omega) hbits (finish + 1) (start + 1) s hinv
    (by omega) (by omega) (by omega) (by omega)
    (by rw [hc, cnt_succ_not_prime (not_prime_even hs (by omega))])

theorem segLoop_spec (segment limit : Nat) (hseg : 0 < segment)
    (fuel start : Nat) (s : State) (hinv : Inv s)
    (hs : start % 2 = 0) (hs4 : 4 ≤ start)
    (hc : s.size = cnt (min start (limit + 1)))
    (hq : ∀ q, q.Prime → q * q ≤ limit → q < start)
    (hfuel : limit < start + fuel) :
    ∃ s', segLoop finishFixed segment limit fuel start s = .ok s' ∧ Inv s' ∧
      s'.size = cnt (limit + 1) ∧
      s'.sieveBits = s.sieveBits ∧ s'.clearFlag = s.clearFlag ∧ s.buf.size ≤ s'.buf.size := by
  induction fuel generalizing start s with
  | zero =>
    exact ⟨s, rfl, hinv, by rw [hc, Nat.min_eq_right (by omega)], rfl, rfl, le_refl _⟩
  | succ fuel ih =>
    unfold segLoop
    by_cases hle : start ≤ limit
    · rw [if_pos hle]
      simp only [finishFixed]
      have hfle : min (start + 2 * segment - 1) limit ≤ limit := Nat.min_le_right _ _
      obtain ⟨a', e1, _, _, s1, e2, p1, p2, p3, p4, p5⟩ :=
        segment_spec s hinv start (min (start + 2 * segment - 1) limit) segment hs hs4
          (by omega) (by omega) (by rw [hc, Nat.min_eq_left (by omega)])
          (fun q h1 h2 => hq q h1 (le_trans h2 hfle))
      rw [e1]; simp only []
      rw [e2]; simp only []
      obtain ⟨s', e, q1, q2, q3, q4, q5⟩ := ih (start + 2 * segment) s1 p1 (by omega) (by omega)
        (by rw [p2]; congr 1; omega)
        (fun q h1 h2 => by have := hq q h1 h2; omega) (by omega)
      exact ⟨s', e, q1, q2, by rw [q3, p3], by rw [q4, p4], le_trans p5 q5⟩
    · rw [if_neg hle]
      exact ⟨s, rfl, hinv, by rw [hc, Nat.min_eq_right (by omega)], rfl, rfl, le_refl _⟩

theorem extendWith_spec (fuel : Nat) (s : State) (limit : Nat) (hinv : Inv s)
    (hlim : limit < 2 ^ (2 ^ fuel)) :
    ∃ s', extendWith finishFixed (fuel + 1) s limit = .ok s' ∧ Inv s' ∧
      s'.size = max s.size (cnt (limit + 1)) ∧
      s'.sieveBits = s.sieveBits ∧ s'.clearFlag = s.clearFlag ∧ s.buf.size ≤ s'.buf.size := by
  induction fuel generalizing s limit with
  | zero =>
    have hb := hinv.back_ge
    have hl : limit < 2 := by simpa using hlim
    unfold extendWith
    simp only []
    rw [if_pos (by omega)]
    refine ⟨s, rfl, hinv, ?_, rfl, rfl, le_refl _⟩
    rw [Nat.max_eq_left]
    rw [hinv.size_eq_cnt]; exact cnt_mono (by omega)
  | succ fuel ih =>
    have hb := hinv.back_ge
    have hodd := hinv.back_odd
    have hsz := hinv.size_eq_cnt
    unfold extendWith
    simp only []
    by_cases hle : limit ≤ s.back + 1
    · rw [if_pos hle]
      refine ⟨s, rfl, hinv, ?_, rfl, rfl, le_refl _⟩
      rw [Nat.max_eq_left]
      rw [hsz]
      calc cnt (limit + 1) ≤ cnt (s.back + 1 + 1) := cnt_mono (by omega)
        _ = cnt (s.back + 1) := cnt_succ_not_prime (not_prime_even (by omega) (by omega))
    · rw [if_neg hle]
      -- the recursive call on `sqrt limit`
      have hrec : ∃ s1, (if Nat.sqrt limit ≥ s.back + 1 then extendWith finishFixed (fuel + 1) s (Nat.sqrt limit)
            else .ok s) = .ok s1 ∧ Inv s1 ∧ s1.size = max s.size (cnt (Nat.sqrt limit + 1)) ∧
          s1.sieveBits = s.sieveBits ∧ s1.clearFlag = s.clearFlag ∧ s.buf.size ≤ s1.buf.size := by
        by_cases hr : Nat.sqrt limit ≥ s.back + 1
        · rw [if_pos hr]
          apply ih s _ hinv
          rw [Nat.sqrt_lt']
          calc limit < 2 ^ 2 ^ (fuel + 1) := hlim
            _ = (2 ^ 2 ^ fuel) ^ 2 := by rw [← pow_mul, pow_succ]
        · rw [if_neg hr]
          refine ⟨s, rfl, hinv, ?_, rfl, rfl, le_refl _⟩
          rw [Nat.max_eq_left]
          rw [hsz]; exact cnt_mono (by omega)
      obtain ⟨s1, e1, inv1, sz1, b1, c1, g1⟩ := hrec
      rw [e1]
      simp only []
      have hbits : (s.sieveBits == 0) = false := by
        have := hinv.bits
        simp; omega
      rw [hbits]
      simp only [Bool.false_eq_true, if_false]
      have hsz1 := inv1.size_eq_cnt
      have hsl : Nat.sqrt limit ≤ limit := Nat.sqrt_le_self _
      -- the new start does not exceed limit + 1
      have hstart1 : s1.back + 1 ≤ limit + 1 := by
        have h1 : cnt (s1.back + 1) ≤ cnt (limit + 1) := by
          rw [← hsz1, sz1]
          apply max_le
          · rw [hsz]; exact cnt_mono (by omega)
          · exact cnt_mono (by omega)
        have hp : (s1.back).Prime := by rw [inv1.back]; exact prime_np _
        have := prime_lt_of_cnt_lt hp (lt_of_lt_of_le (by rw [cnt_succ_prime hp]; omega) h1)
        omega
      obtain ⟨s', e, q1, q2, q3, q4, q5⟩ := segLoop_spec s1.sieveBits limit inv1.bits (limit + 1)
        (s1.back + 1) s1 inv1 (by have := inv1.back_odd; omega) (by have := inv1.back_ge; omega)
        (by rw [Nat.min_eq_left hstart1]; exact hsz1)
        (by
          intro q hq hqq
          have hqs : q ≤ Nat.sqrt limit := Nat.le_sqrt.2 hqq
          apply prime_lt_of_cnt_lt hq
          rw [← hsz1, sz1]
          apply lt_of_lt_of_le _ (le_max_right _ _)
          exact cnt_lt_of_prime_lt hq (by omega))
        (by omega)
      refine ⟨s', e, q1, ?_, by rw [q3, b1], by rw [q4, c1], le_trans g1 q5⟩
      rw [q2, Nat.max_eq_right]
      rw [hsz]; exact cnt_mono (by omega)

end SymVerif.C33
