/-
Lemmas for C13: what a successful `LambdaD.init` leaves in the state, and what `LambdaD.call`
then computes, for an arbitrary prior state.
-/
import SymVerif.Model.LambdaD

namespace SymVerif.LambdaD
open SymVerif.EvalG

variable {α : Type}

/-! ### specification-side environments -/

/-- the environment a closure sees, stated on values: `named` are the replacement symbols
evaluated so far (latest first), `ins`/`xs` the inputs.  Precedence as in `bvisit(const Symbol&)`. -/
def extEnv (cseFirst : Bool) (ins : List String) (xs : List α) (named : List (String × α)) : String → Option α :=
  fun n =>
    if cseFirst then
      match named.lookup n with
      | some v => some v
      | none => (indexOf? ins n).bind (xs[·]?)
    else
      match indexOf? ins n with
      | some k => xs[k]?
      | none => named.lookup n

/-- inputs only -/
def bindEnv (ins : List String) (xs : List α) : String → Option α :=
  fun n => (indexOf? ins n).bind (xs[·]?)

theorem extEnv_nil (cseFirst : Bool) (ins : List String) (xs : List α) :
    extEnv cseFirst ins xs [] = bindEnv ins xs := by
  funext n
  cases cseFirst <;> simp [extEnv, bindEnv]
  cases indexOf? ins n <;> simp

def evalAll (C : Ctx α) : List Expr → Except Err (List α)
  | [] => .ok []
  | e :: rest => do
    let v ← evalG C e
    let vs ← evalAll C rest
    pure (v :: vs)

/-- the replacements evaluated in order, each seeing the earlier ones -/
def slotSem (cfg : Cfg α) (ins : List String) (xs : List α) :
    List (String × α) → List (String × Expr) → Except Err (List (String × α))
  | named, [] => .ok named
  | named, (n, e) :: rest => do
    let v ← evalG ⟨cfg.O, cfg.defs, extEnv cfg.cseFirst ins xs named⟩ e
    slotSem cfg ins xs ((n, v) :: named) rest

/-! ### what the init loops build -/

/-- closures pushed by the replacement loop, starting with map `m` at slot index `j` -/
def closuresFrom (ins : List String) : List (String × Nat) → Nat → List (String × Expr) → List Closure
  | _, _, [] => []
  | m, j, (n, e) :: rest => ⟨e, ins, m⟩ :: closuresFrom ins (mapSet m n j) (j + 1) rest

def mapAfter : List (String × Nat) → Nat → List (String × Expr) → List (String × Nat)
  | m, _, [] => m
  | m, j, (n, _) :: rest => mapAfter (mapSet m n j) (j + 1) rest

theorem compile_ok {cfg : Cfg α} {S : State α} {e : Expr} {c : Closure}
    (h : compile cfg S e = .ok c) : c = ⟨e, S.symbols, S.cseMap⟩ := by
  unfold compile at h
  cases hw : walk cfg.defs (resolve cfg.cseFirst S.symbols S.cseMap) e with
  | error err => simp [hw, bind, Except.bind] at h
  | ok u =>
    simp [hw, bind, Except.bind, pure, Except.pure] at h
    exact h.symm

theorem pushResults_ok (cfg : Cfg α) :
    ∀ (outs : List Expr) (S S' : State α), pushResults cfg S outs = (S', none) →
      S'.results = S.results ++ outs.map (fun e => ⟨e, S.symbols, S.cseMap⟩)
      ∧ S'.cseFns = S.cseFns ∧ S'.cseResults = S.cseResults ∧ S'.cseMap = S.cseMap ∧ S'.symbols = S.symbols := by
  intro outs
  induction outs with
  | nil =>
    intro S S' h
    simp [pushResults] at h
    subst h
    simp
  | cons e rest ih =>
    intro S S' h
    unfold pushResults at h
    cases hc : compile cfg S e with
    | error err => simp [hc] at h
    | ok c =>
      simp only [hc] at h
      have hcc := compile_ok hc
      obtain ⟨h1, h2, h3, h4, h5⟩ := ih _ _ h
      simp only at h1 h2 h3 h4 h5
      refine ⟨?_, h2, h3, h4, h5⟩
      rw [h1, hcc]
      simp

theorem pushRepl_ok (cfg : Cfg α) :
    ∀ (repl : List (String × Expr)) (S S' : State α), pushRepl cfg S repl = (S', none) →
      S'.cseFns = S.cseFns ++ closuresFrom S.symbols S.cseMap S.cseFns.length repl
      ∧ S'.cseMap = mapAfter S.cseMap S.cseFns.length repl
      ∧ S'.results = S.results ∧ S'.cseResults = S.cseResults ∧ S'.symbols = S.symbols := by
  intro repl
  induction repl with
  | nil =>
    intro S S' h
    simp [pushRepl] at h
    subst h
    simp [closuresFrom, mapAfter]
  | cons p rest ih =>
    intro S S' h
    obtain ⟨n, e⟩ := p
    unfold pushRepl at h
    cases hc : compile cfg S e with
    | error err => simp [hc] at h
    | ok c =>
      simp only [hc] at h
      have hcc := compile_ok hc
      obtain ⟨h1, h2, h3, h4, h5⟩ := ih _ _ h
      simp only [List.length_append, List.length_cons, List.length_nil] at h1 h2 h3 h4 h5
      refine ⟨?_, ?_, h3, h4, h5⟩
      · rw [h1, hcc]
        simp [closuresFrom]
      · rw [h2]
        simp [mapAfter]

/-! ### the slot discipline -/

/-- Link between a closure's snapshot map `m`, the buffer, and the values `named`:
every mapped name points below `j` to a filled buffer cell holding the named value. -/
def Inv (m : List (String × Nat)) (named : List (String × α)) (buf : List α) (j : Nat) : Prop :=
  ∀ n, (∀ k, m.lookup n = some k → k < j ∧ ∃ v, buf[k]? = some v ∧ named.lookup n = some v)
       ∧ (m.lookup n = none → named.lookup n = none)

theorem lookup_filter_ne (m : List (String × Nat)) (n n' : String) (h : (n' == n) = false) :
    (m.filter (fun p => p.1 != n)).lookup n' = m.lookup n' := by
  induction m with
  | nil => rfl
  | cons p rest ih =>
    obtain ⟨a, b⟩ := p
    by_cases ha : a = n
    · subst ha
      have : (n' == a) = false := h
      simp [List.filter, List.lookup, this, ih]
    · have hne : (a != n) = true := by simp [bne, ha]
      simp only [List.filter, hne, List.lookup]
      cases (n' == a) <;> simp [ih]

theorem Inv_step {m : List (String × Nat)} {named : List (String × α)} {buf : List α} {j : Nat}
    (h : Inv m named buf j) (hj : j < buf.length) (n : String) (v : α) :
    Inv (mapSet m n j) ((n, v) :: named) (buf.set j v) (j + 1) := by
  intro n'
  by_cases hn : (n' == n) = true
  · constructor
    · intro k hk
      simp [mapSet, List.lookup, hn] at hk
      subst hk
      refine ⟨Nat.lt_succ_self _, v, ?_, ?_⟩
      · simp [hj]
      · simp [List.lookup, hn]
    · intro hnone
      simp [mapSet, List.lookup, hn] at hnone
  · have hn' : (n' == n) = false := by simpa using hn
    have hl : (mapSet m n j).lookup n' = m.lookup n' := by
      simp only [mapSet, List.lookup, hn']
      exact lookup_filter_ne m n n' hn'
    constructor
    · intro k hk
      rw [hl] at hk
      obtain ⟨hlt, w, hw, hnamed⟩ := (h n').1 k hk
      refine ⟨Nat.lt_succ_of_lt hlt, w, ?_, ?_⟩
      · rw [List.getElem?_set_ne (Nat.ne_of_gt hlt)]
        exact hw
      · simp only [List.lookup, hn']
        exact hnamed
    · intro hnone
      rw [hl] at hnone
      simp only [List.lookup, hn']
      exact (h n').2 hnone

/-- under `Inv`, the closure's run-time environment is the value-level environment -/
theorem envOf_eq_extEnv {cseFirst : Bool} {e : Expr} {ins : List String} {m : List (String × Nat)}
    {named : List (String × α)} {buf xs : List α} {j : Nat} (h : Inv m named buf j) :
    envOf cseFirst ⟨e, ins, m⟩ xs buf = extEnv cseFirst ins xs named := by
  funext n
  obtain ⟨h1, h2⟩ := h n
  cases hm : m.lookup n with
  | none =>
    have hn := h2 hm
    cases cseFirst <;> cases hi : indexOf? ins n <;>
      simp [envOf, resolve, extEnv, hm, hn, hi]
  | some k =>
    obtain ⟨_, v, hv, hn⟩ := h1 k hm
    cases cseFirst <;> cases hi : indexOf? ins n <;>
      simp [envOf, resolve, extEnv, hm, hn, hi, hv]

/-- the slot-filling loop of `call`, characterised on values; the buffer it leaves satisfies `Inv`
for the final map.  `bufAfter` is the buffer (a passive by-product). -/
def slotSemBuf (cfg : Cfg α) (ins : List String) (xs : List α) :
    List (String × α) → Nat → List (String × Expr) → List α → Except Err (List (String × α) × List α)
  | named, _, [], buf => .ok (named, buf)
  | named, j, (n, e) :: rest, buf => do
    let v ← evalG ⟨cfg.O, cfg.defs, extEnv cfg.cseFirst ins xs named⟩ e
    slotSemBuf cfg ins xs ((n, v) :: named) (j + 1) rest (buf.set j v)

theorem slotSemBuf_fst (cfg : Cfg α) (ins : List String) (xs : List α) :
    ∀ (repl : List (String × Expr)) (named : List (String × α)) (j : Nat) (buf : List α),
      (slotSemBuf cfg ins xs named j repl buf).map Prod.fst = slotSem cfg ins xs named repl := by
  intro repl
  induction repl with
  | nil => intro named j buf; rfl
  | cons p rest ih =>
    intro named j buf
    obtain ⟨n, e⟩ := p
    simp only [slotSemBuf, slotSem]
    cases hv : evalG ⟨cfg.O, cfg.defs, extEnv cfg.cseFirst ins xs named⟩ e with
    | error err => rfl
    | ok v =>
      simp only [bind, Except.bind]
      exact ih _ _ _

theorem fillSlots_eq (cfg : Cfg α) (ins : List String) (xs : List α) :
    ∀ (repl : List (String × Expr)) (m : List (String × Nat)) (named : List (String × α)) (j : Nat) (buf : List α),
      Inv m named buf j → j + repl.length ≤ buf.length →
      fillSlots cfg xs j (closuresFrom ins m j repl) buf
        = (slotSemBuf cfg ins xs named j repl buf).map Prod.snd := by
  intro repl
  induction repl with
  | nil => intro m named j buf _ _; rfl
  | cons p rest ih =>
    intro m named j buf hinv hlen
    obtain ⟨n, e⟩ := p
    simp only [closuresFrom, fillSlots, slotSemBuf, run]
    rw [envOf_eq_extEnv hinv]
    cases hv : evalG ⟨cfg.O, cfg.defs, extEnv cfg.cseFirst ins xs named⟩ e with
    | error err => rfl
    | ok v =>
      simp only [bind, Except.bind]
      have hj : j < buf.length := by simp only [List.length_cons] at hlen; omega
      apply ih
      · exact Inv_step hinv hj n v
      · simp only [List.length_cons] at hlen
        simp only [List.length_set]
        omega

/-- and the final buffer / map / named values are linked by `Inv` -/
theorem slotSemBuf_inv (cfg : Cfg α) (ins : List String) (xs : List α) :
    ∀ (repl : List (String × Expr)) (m : List (String × Nat)) (named : List (String × α)) (j : Nat) (buf : List α)
      (named' : List (String × α)) (buf' : List α),
      Inv m named buf j → j + repl.length ≤ buf.length →
      slotSemBuf cfg ins xs named j repl buf = .ok (named', buf') →
      Inv (mapAfter m j repl) named' buf' (j + repl.length) := by
  intro repl
  induction repl with
  | nil =>
    intro m named j buf named' buf' hinv _ h
    simp [slotSemBuf] at h
    obtain ⟨rfl, rfl⟩ := h
    simpa [mapAfter] using hinv
  | cons p rest ih =>
    intro m named j buf named' buf' hinv hlen h
    obtain ⟨n, e⟩ := p
    simp only [slotSemBuf] at h
    cases hv : evalG ⟨cfg.O, cfg.defs, extEnv cfg.cseFirst ins xs named⟩ e with
    | error err => simp [hv, bind, Except.bind] at h
    | ok v =>
      simp only [hv, bind, Except.bind] at h
      have hj : j < buf.length := by simp only [List.length_cons] at hlen; omega
      have := ih (mapSet m n j) ((n, v) :: named) (j + 1) (buf.set j v) named' buf'
        (Inv_step hinv hj n v) (by simp only [List.length_cons] at hlen; simp only [List.length_set]; omega) h
      simpa [mapAfter, Nat.add_assoc, Nat.add_comm 1] using this

theorem runAll_eq (cfg : Cfg α) (ins : List String) (m : List (String × Nat)) (named : List (String × α))
    (xs buf : List α) (j : Nat) (hinv : Inv m named buf j) :
    ∀ es : List Expr, runAll cfg xs buf (es.map (fun e => ⟨e, ins, m⟩))
      = evalAll ⟨cfg.O, cfg.defs, extEnv cfg.cseFirst ins xs named⟩ es := by
  intro es
  induction es with
  | nil => rfl
  | cons e rest ih =>
    simp only [List.map, runAll, evalAll, run]
    rw [envOf_eq_extEnv hinv, ih]

theorem resize_length (z : α) (l : List α) (n : Nat) : (resize z l n).length = n := by
  simp [resize]
  omega

theorem Inv_nil (named_buf : List α) : Inv ([] : List (String × Nat)) ([] : List (String × α)) named_buf 0 := by
  intro n
  simp [List.lookup]

/-- every slot index a replacement closure can read is below its own index -/
theorem closuresFrom_slots_lt (ins : List String) :
    ∀ (repl : List (String × Expr)) (m : List (String × Nat)) (j : Nat),
      (∀ p ∈ m, p.2 < j) →
      ∀ (k : Nat) (c : Closure), (closuresFrom ins m j repl)[k]? = some c → ∀ p ∈ c.slots, p.2 < j + k := by
  intro repl
  induction repl with
  | nil => intro m j _ k c h; simp [closuresFrom] at h
  | cons q rest ih =>
    intro m j hm k c h
    obtain ⟨n, e⟩ := q
    cases k with
    | zero =>
      simp [closuresFrom] at h
      subst h
      simpa using hm
    | succ k =>
      simp only [closuresFrom, List.getElem?_cons_succ] at h
      have hm' : ∀ p ∈ mapSet m n j, p.2 < j + 1 := by
        intro p hp
        simp only [mapSet, List.mem_cons, List.mem_filter] at hp
        rcases hp with rfl | ⟨hp, _⟩
        · exact Nat.lt_succ_self _
        · exact Nat.lt_succ_of_lt (hm p hp)
      have := ih (mapSet m n j) (j + 1) hm' k c h
      intro p hp
      have := this p hp
      omega

end SymVerif.LambdaD
