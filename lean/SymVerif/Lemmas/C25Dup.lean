import SymVerif.Lemmas.C25Sort
/-!
C25 — `csr_sum_duplicates`: the in-place compaction.  On rows whose column indices are sorted
(non-strictly) it produces strictly sorted rows with the same per-column sums.
-/
namespace SymVerif.C25
open SymVerif.CSR Finset

theorem dupRun_spec (j : Array Nat) (x : Array Q) (rowEnd c : Nat) (hj : rowEnd ≤ j.size)
    (hx : rowEnd ≤ x.size) :
    ∀ f jj acc, rowEnd - jj ≤ f → jj ≤ rowEnd →
      ∃ jj' acc', dupRun j x rowEnd c f jj acc = .ok (jj', acc') ∧ jj ≤ jj' ∧ jj' ≤ rowEnd ∧
        (∀ k, jj ≤ k → k < jj' → j[k]! = c) ∧ (jj' < rowEnd → j[jj']! ≠ c) ∧
        acc' = acc + ∑ k ∈ Ico jj jj', x[k]! := by
  intro f
  induction f with
  | zero =>
    intro jj acc h1 h2
    exact ⟨jj, acc, rfl, Nat.le_refl _, h2, fun k a b => by omega, fun a => by omega, by simp⟩
  | succ f ih =>
    intro jj acc h1 h2
    unfold dupRun
    by_cases hlt : jj < rowEnd
    · have a1 : jj < j.size := by omega
      have a2 : jj < x.size := by omega
      simp only [hlt, if_true, rd_lt a1, ok_bind]
      by_cases hc : j[jj]! = c
      · simp only [hc, if_true, rd_lt a2, ok_bind]
        obtain ⟨jj', acc', e, g1, g2, g3, g4, g5⟩ := ih (jj + 1) (acc + x[jj]!) (by omega) (by omega)
        refine ⟨jj', acc', e, by omega, g2, ?_, g4, ?_⟩
        · intro k hk1 hk2
          by_cases hk : k = jj
          · subst hk; exact hc
          · exact g3 k (by omega) hk2
        · rw [g5, Finset.sum_eq_sum_Ico_succ_bot (by omega : jj < jj')]
          ring
      · simp only [hc, if_false, pure_ok]
        exact ⟨jj, acc, rfl, Nat.le_refl _, h2, fun k a b => by omega, fun _ => hc, by simp⟩
    · simp only [hlt, if_false, pure_ok]
      exact ⟨jj, acc, rfl, Nat.le_refl _, h2, fun k a b => by omega, fun a => by omega, by simp⟩

/-- compaction of one row segment `[jj, rowEnd)` to the positions starting at `nnz`; `j0, x0` are
the arrays before the call of `csr_sum_duplicates` (ghost), `s0` the output start of this row -/
theorem dupRow_spec (j0 : Array Nat) (x0 : Array Q) (rowEnd s0 : Nat) :
    ∀ f jj nnz (j : Array Nat) (x : Array Q), rowEnd - jj ≤ f → s0 ≤ nnz → nnz ≤ jj → jj ≤ rowEnd →
      rowEnd ≤ j.size → rowEnd ≤ x.size →
      (∀ k, jj ≤ k → j[k]! = j0[k]! ∧ x[k]! = x0[k]!) →
      SortedLeOn j0 jj rowEnd → SortedOn j s0 nnz →
      (∀ a b, s0 ≤ a → a < nnz → jj ≤ b → b < rowEnd → j[a]! < j0[b]!) →
      ∃ nnz' j' x', dupRow rowEnd f jj nnz j x = .ok (nnz', j', x') ∧ nnz ≤ nnz' ∧ nnz' ≤ rowEnd ∧
        j'.size = j.size ∧ x'.size = x.size ∧
        (∀ k, k < nnz → j'[k]! = j[k]! ∧ x'[k]! = x[k]!) ∧
        (∀ k, rowEnd ≤ k → j'[k]! = j[k]! ∧ x'[k]! = x[k]!) ∧
        SortedOn j' s0 nnz' ∧
        (∀ k, nnz ≤ k → k < nnz' → ∃ b, jj ≤ b ∧ b < rowEnd ∧ j'[k]! = j0[b]!) ∧
        ∀ c, ∑ k ∈ Ico s0 nnz', cellOf j' x' c k
           = ∑ k ∈ Ico s0 nnz, cellOf j x c k + ∑ k ∈ Ico jj rowEnd, cellOf j0 x0 c k := by
  intro f
  induction f with
  | zero =>
    intro jj nnz j x h1 h2 h3 h4 h5 h6 _ _ hs _
    have : jj = rowEnd := by omega
    subst this
    refine ⟨nnz, j, x, rfl, Nat.le_refl _, h3, rfl, rfl, fun _ _ => ⟨rfl, rfl⟩,
      fun _ _ => ⟨rfl, rfl⟩, hs, fun k a b => by omega, fun c => by simp⟩
  | succ f ih =>
    intro jj nnz j x h1 h2 h3 h4 h5 h6 hsame hle hs hcross
    unfold dupRow
    by_cases hlt : jj < rowEnd
    · have a1 : jj < j.size := by omega
      have a2 : jj < x.size := by omega
      simp only [hlt, if_true, rd_lt a1, rd_lt a2, ok_bind]
      obtain ⟨jj', acc, e, g1, g2, g3, g4, g5⟩ :=
        dupRun_spec j x rowEnd j[jj]! h5 h6 (rowEnd - (jj + 1)) (jj + 1) x[jj]! (Nat.le_refl _)
          (by omega)
      have b1 : nnz < j.size := by omega
      have b2 : nnz < x.size := by omega
      simp only [e, ok_bind, wr_lt _ b1, wr_lt _ b2]
      have hcj : j[jj]! = j0[jj]! := (hsame jj (Nat.le_refl _)).1
      -- all of the group carries the column index `j0[jj]`
      have hgrp : ∀ k, jj ≤ k → k < jj' → j0[k]! = j[jj]! := by
        intro k hk1 hk2
        by_cases hk : k = jj
        · subst hk; exact hcj.symm
        · rw [← (hsame k hk1).1]; exact g3 k (by omega) hk2
      -- everything after the group has a larger column index
      have hafter : ∀ b, jj' ≤ b → b < rowEnd → j[jj]! < j0[b]! := by
        intro b hb1 hb2
        have hne : j0[jj']! ≠ j[jj]! := by
          rw [← (hsame jj' (by omega)).1]; exact g4 (by omega)
        have l1 := hle jj jj' (Nat.le_refl _) (by omega) (by omega)
        by_cases hb : b = jj'
        · subst hb; omega
        · have l2 := hle jj' b (by omega) (by omega) hb2; omega
      obtain ⟨nnz', j', x', e2, r1, r2, r3, r4, r5, r6, r7, r8, r9⟩ :=
        ih jj' (nnz + 1) (j.set nnz j[jj]! b1) (x.set nnz acc b2) (by omega) (by omega) (by omega) g2
          (by simpa using h5) (by simpa using h6)
          (fun k hk => by
            rw [set_get!, set_get!]
            have : ¬ k = nnz := by omega
            rw [if_neg this, if_neg this]
            exact hsame k (by omega))
          (fun a b ha hab hb => hle a b (by omega) hab hb)
          (fun a b ha hab hb => by
            rw [set_get!, set_get!]
            have na : ¬ a = nnz := by omega
            rw [if_neg na]
            by_cases hbn : b = nnz
            · rw [if_pos hbn, hcj]
              exact hcross a jj ha (by omega) (Nat.le_refl _) hlt
            · rw [if_neg hbn]
              exact hs a b ha hab (by omega))
          (fun a b ha1 ha2 hb1 hb2 => by
            rw [set_get!]
            by_cases han : a = nnz
            · rw [if_pos han]; exact hafter b hb1 hb2
            · rw [if_neg han]; exact hcross a b ha1 (by omega) (by omega) hb2)
      refine ⟨nnz', j', x', e2, by omega, r2, by simpa using r3, by simpa using r4, ?_, ?_, r7, ?_, ?_⟩
      · intro k hk
        obtain ⟨c1, c2⟩ := r5 k (by omega)
        rw [c1, c2, set_get!, set_get!]
        have : ¬ k = nnz := by omega
        rw [if_neg this, if_neg this]
        exact ⟨rfl, rfl⟩
      · intro k hk
        obtain ⟨c1, c2⟩ := r6 k hk
        rw [c1, c2, set_get!, set_get!]
        have : ¬ k = nnz := by omega
        rw [if_neg this, if_neg this]
        exact ⟨rfl, rfl⟩
      · intro k hk1 hk2
        by_cases hk : k = nnz
        · subst hk
          refine ⟨jj, Nat.le_refl _, hlt, ?_⟩
          rw [(r5 k (by omega)).1, set_get!, if_pos rfl, hcj]
        · obtain ⟨b, hb1, hb2, hb3⟩ := r8 k (by omega) hk2
          exact ⟨b, by omega, hb2, hb3⟩
      · intro c
        rw [r9 c, Finset.sum_Ico_succ_top h2, cellOf_set2, if_pos rfl]
        have e3 : ∑ k ∈ Ico s0 nnz, cellOf (j.set nnz j[jj]! b1) (x.set nnz acc b2) c k
            = ∑ k ∈ Ico s0 nnz, cellOf j x c k := by
          apply sum_Ico_congr
          intro k _ hk
          rw [cellOf_set2]
          have : ¬ k = nnz := by omega
          rw [if_neg this]
        have e4 : ∑ k ∈ Ico jj jj', cellOf j0 x0 c k = if j[jj]! = c then acc else 0 := by
          by_cases hcc : j[jj]! = c
          · rw [if_pos hcc, g5]
            have : ∑ k ∈ Ico jj jj', cellOf j0 x0 c k = ∑ k ∈ Ico jj jj', x0[k]! := by
              apply sum_Ico_congr
              intro k hk1 hk2
              unfold cellOf
              rw [hgrp k hk1 hk2, if_pos hcc]
            rw [this, Finset.sum_eq_sum_Ico_succ_bot (by omega : jj < jj'), (hsame jj (Nat.le_refl _)).2]
            congr 1
            apply sum_Ico_congr
            intro k hk1 hk2
            exact (hsame k (by omega)).2.symm
          · rw [if_neg hcc]
            apply sum_cell_miss
            intro k hk1 hk2
            rw [hgrp k hk1 hk2]; exact hcc
        rw [e3, sum_Ico_split jj' (by omega) g2 (lo := jj) (hi := rowEnd), e4]
        ring
    · have : jj = rowEnd := by omega
      subst this
      simp only [hlt, if_false, pure_ok]
      refine ⟨nnz, j, x, rfl, Nat.le_refl _, h3, rfl, rfl, fun _ _ => ⟨rfl, rfl⟩,
        fun _ _ => ⟨rfl, rfl⟩, hs, fun k a b => by omega, fun c => by simp⟩

/-- the row loop of `csr_sum_duplicates`; `p0, j0, x0` are the arrays before the call (ghost) -/
theorem dupRows_spec (p0 j0 : Array Nat) (x0 : Array Q) (row col : Nat)
    (hmono : ∀ a b, a ≤ b → b ≤ row → p0[a]! ≤ p0[b]!)
    (hsl : ∀ r, r < row → SortedLeOn j0 p0[r]! p0[r + 1]!)
    (hcol : ∀ k, k < p0[row]! → j0[k]! < col) :
    ∀ n i rowEnd nnz (p j : Array Nat) (x : Array Q), i + n = row → rowEnd = p0[i]! →
      nnz ≤ rowEnd → p.size = row + 1 → p0[row]! ≤ j.size → p0[row]! ≤ x.size →
      (∀ k, rowEnd ≤ k → j[k]! = j0[k]! ∧ x[k]! = x0[k]!) →
      (∀ r, i < r → r ≤ row → p[r]! = p0[r]!) → p[i]! = nnz →
      ∃ nnz' p' j' x', dupRows n i rowEnd nnz p j x = .ok (nnz', p', j', x') ∧ p'.size = row + 1 ∧
        j'.size = j.size ∧ x'.size = x.size ∧
        (∀ r, r ≤ i → p'[r]! = p[r]!) ∧
        (∀ k, k < nnz → j'[k]! = j[k]! ∧ x'[k]! = x[k]!) ∧
        p'[row]! = nnz' ∧ nnz' ≤ p0[row]! ∧
        (∀ a b, i ≤ a → a ≤ b → b ≤ row → p'[a]! ≤ p'[b]!) ∧
        (∀ k, nnz ≤ k → k < nnz' → j'[k]! < col) ∧
        ∀ r, i ≤ r → r < row → SortedOn j' p'[r]! p'[r + 1]! ∧
          ∀ c, ∑ k ∈ Ico p'[r]! p'[r + 1]!, cellOf j' x' c k
             = ∑ k ∈ Ico p0[r]! p0[r + 1]!, cellOf j0 x0 c k := by
  intro n
  induction n with
  | zero =>
    intro i rowEnd nnz p j x hin hre hnz hps _ _ _ _ hpi
    have : i = row := by omega
    subst this
    refine ⟨nnz, p, j, x, rfl, hps, rfl, rfl, fun _ _ => rfl, fun _ _ => ⟨rfl, rfl⟩, hpi, by omega,
      fun a b h1 h2 h3 => by
        have : a = b := by omega
        subst this; exact Nat.le_refl _,
      fun k a b => by omega, fun r a b => by omega⟩
  | succ n ih =>
    intro i rowEnd nnz p j x hin hre hnz hps hjs hxs hsame hprest hpi
    have hi : i < row := by omega
    have hi1 : i + 1 < p.size := by omega
    have hpe : p[i + 1]! = p0[i + 1]! := hprest (i + 1) (by omega) (by omega)
    have hm1 := hmono i (i + 1) (by omega) (by omega)
    have hm2 := hmono (i + 1) row (by omega) (Nat.le_refl _)
    unfold dupRows
    simp only [rd_lt hi1, ok_bind, hpe]
    obtain ⟨nnz1, j1, x1, e1, r1, r2, r3, r4, r5, r6, r7, r8, r9⟩ :=
      dupRow_spec j0 x0 p0[i + 1]! nnz (p0[i + 1]! - rowEnd) rowEnd nnz j x (Nat.le_refl _)
        (Nat.le_refl _) hnz (by omega) (by omega) (by omega) hsame
        (by rw [hre]; exact hsl i hi) (fun a b h1 h2 h3 => by omega)
        (fun a b h1 h2 => by omega)
    simp only [e1, ok_bind, wr_lt _ hi1]
    obtain ⟨nnz', p', j', x', e2, t1, t2, t3, t4, t5, t6, t7, t8, t9, t10⟩ :=
      ih (i + 1) p0[i + 1]! nnz1 (p.set (i + 1) nnz1 hi1) j1 x1 (by omega) rfl r2
        (by simpa using hps) (by omega) (by omega)
        (fun k hk => by
          obtain ⟨c1, c2⟩ := r6 k hk
          obtain ⟨d1, d2⟩ := hsame k (by omega)
          exact ⟨c1.trans d1, c2.trans d2⟩)
        (fun r hr1 hr2 => by
          rw [set_get!]
          have : ¬ r = i + 1 := by omega
          rw [if_neg this]
          exact hprest r (by omega) hr2)
        (by rw [set_get!, if_pos rfl])
    have hpi' : p'[i]! = nnz := by
      rw [t4 i (by omega), set_get!]
      have : ¬ i = i + 1 := by omega
      rw [if_neg this, hpi]
    have hpi1' : p'[i + 1]! = nnz1 := by
      rw [t4 (i + 1) (Nat.le_refl _), set_get!, if_pos rfl]
    refine ⟨nnz', p', j', x', e2, t1, by omega, by omega, ?_, ?_, t6, t7, ?_, ?_, ?_⟩
    · intro r hr
      rw [t4 r (by omega), set_get!]
      have : ¬ r = i + 1 := by omega
      rw [if_neg this]
    · intro k hk
      obtain ⟨c1, c2⟩ := t5 k (by omega)
      obtain ⟨d1, d2⟩ := r5 k hk
      exact ⟨c1.trans d1, c2.trans d2⟩
    · intro a b ha hab hb
      by_cases hai : a = i
      · subst hai
        by_cases hba : b = a
        · subst hba; exact Nat.le_refl _
        · have := t8 (a + 1) b (Nat.le_refl _) (by omega) hb
          omega
      · exact t8 a b (by omega) hab hb
    · intro k hk1 hk2
      by_cases hk : k < nnz1
      · rw [(t5 k hk).1]
        obtain ⟨b, hb1, hb2, hb3⟩ := r8 k hk1 hk
        rw [hb3]
        exact hcol b (by omega)
      · exact t9 k (by omega) hk2
    · intro r hr1 hr2
      by_cases hri : r = i
      · subst hri
        rw [hpi', hpi1']
        refine ⟨?_, fun c => ?_⟩
        · intro a b ha hab hb
          rw [(t5 a (by omega)).1, (t5 b hb).1]
          exact r7 a b ha hab hb
        · have : ∑ k ∈ Ico nnz nnz1, cellOf j' x' c k = ∑ k ∈ Ico nnz nnz1, cellOf j1 x1 c k := by
            apply sum_Ico_congr
            intro k _ hk
            unfold cellOf
            rw [(t5 k hk).1, (t5 k hk).2]
          rw [this, r9 c, hre]
          simp
      · exact t10 r (by omega) hr2

theorem extract_get! {α : Type} [Inhabited α] (a : Array α) (n k : Nat) (hn : n ≤ a.size)
    (hk : k < n) : (a.extract 0 n)[k]! = a[k]! := by
  have h1 : k < (a.extract 0 n).size := by simp; omega
  have h2 : k < a.size := by omega
  rw [getElem!_pos (a.extract 0 n) k h1, getElem!_pos a k h2]
  simp

/-- `csr_sum_duplicates` on rows with (non-strictly) sorted column indices gives a canonical
matrix with the same dense meaning -/
theorem sumDuplicates_spec (p j : Array Nat) (x : Array Q) (row col : Nat)
    (hps : p.size = row + 1) (hp0 : p[0]! = 0)
    (hmono : ∀ a b, a ≤ b → b ≤ row → p[a]! ≤ p[b]!)
    (hjs : p[row]! ≤ j.size) (hxs : p[row]! ≤ x.size)
    (hsl : ∀ r, r < row → SortedLeOn j p[r]! p[r + 1]!)
    (hcol : ∀ k, k < p[row]! → j[k]! < col) :
    ∃ p' j' x', sumDuplicates p j x row = .ok (p', j', x') ∧
      CanonCSR { row := row, col := col, p := p', j := j', x := x' } ∧
      ∀ r c, r < row → denseA p' j' x' r c = denseA p j x r c := by
  obtain ⟨nnz', p', j', x', e, t1, t2, t3, t4, _, t6, t7, t8, t9, t10⟩ :=
    dupRows_spec p j x row col hmono hsl hcol row 0 0 0 p j x (by omega) hp0.symm (Nat.le_refl _)
      hps hjs hxs (fun _ _ => ⟨rfl, rfl⟩) (fun _ _ _ => rfl) hp0
  unfold sumDuplicates
  simp only [e, ok_bind, pure_ok]
  have hn1 : nnz' ≤ j'.size := by omega
  have hn2 : nnz' ≤ x'.size := by omega
  refine ⟨_, _, _, rfl, ?_, ?_⟩
  · refine { psize := t1, xsize := by simp; omega, p0 := ?_, plast := ?_, pmono := ?_, sorted := ?_,
             jlt := ?_ }
    · show p'[0]! = 0
      rw [t4 0 (Nat.le_refl _), hp0]
    · show p'[row]! = (j'.extract 0 nnz').size
      rw [t6]; simp; omega
    · intro a b hab hb
      exact t8 a b (Nat.zero_le _) hab hb
    · intro r hr a b ha hab hb
      have hr' : r < row := hr
      have hb' : b < p'[r + 1]! := hb
      have := t8 (r + 1) row (by omega) (by omega) (Nat.le_refl _)
      show (j'.extract 0 nnz')[a]! < (j'.extract 0 nnz')[b]!
      rw [extract_get! j' nnz' a hn1 (by omega), extract_get! j' nnz' b hn1 (by omega)]
      exact (t10 r (Nat.zero_le _) hr').1 a b ha hab hb'
    · intro k hk
      have hk' : k < nnz' := by
        have : k < (j'.extract 0 nnz').size := hk
        simp at this; omega
      show (j'.extract 0 nnz')[k]! < col
      rw [extract_get! j' nnz' k hn1 hk']
      exact t9 k (Nat.zero_le _) hk'
  · intro r c hr
    unfold denseA
    rw [← (t10 r (Nat.zero_le _) hr).2 c]
    have := t8 (r + 1) row (by omega) (by omega) (Nat.le_refl _)
    apply sum_Ico_congr
    intro k hk1 hk2
    unfold cellOf
    rw [extract_get! j' nnz' k hn1 (by omega), extract_get! x' nnz' k hn2 (by omega)]

end SymVerif.C25
