/-
C03: induction step for `pow`, and the induction itself.
-/
import SymVerif.Lemmas.C03MulE

namespace SymVerif.Arith

variable {n : Nat}

theorem pow_leaf {a b : Expr} (ha : inv a = true) (hb : inv b = true) (hob : okBase a = true)
    (hbz : isNumZero b = false) (hb1 : isIntLit b 1 = false) (ha0 : isIntLit a 0 = false)
    (ha1 : isIntLit a 1 = false)
    (c1 : (a.isNum && isInteger b) = false)
    (c2 : ((isInteger a || isRational a) && isRational b) = false)
    (c3 : (isMul a && b.isNum) = false) (c4 : (isPow a && isInteger b) = false) :
    inv (.pow a b) = true := by
  have hf : factorOK a b = true := by
    unfold factorOK
    cases a <;> simp_all [okBase, isIntLit, Expr.isNum, isInteger, isRational, isMul, isPow]
    all_goals (cases b <;> simp_all [isInteger, isRational, ratIn01, Expr.isNum])
  exact inv_pow_iff.mpr ⟨ha, hb, factorOK_powCanonTop hf hb1, hf⟩

theorem numPow_ok' {a e r : Expr} (ha : canon a = true) (h : numPow a e = .ok r) : NumOK r := by
  by_cases hx : isExactNum a = true
  · exact numPow_ok ⟨hx, ha⟩ h
  · unfold numPow at h
    split at h
    · unfold numPowInt at h
      split at h
      · simp at h
      · cases a <;> simp_all [isExactNum] <;> (split at h <;> simp at h)
    · simp at h

theorem okBase_of_factor {k v : Expr} (h : factorOK k v = true) : okBase k = true := by
  unfold factorOK at h
  cases k <;> simp_all [okBase]

theorem inv_infty0 : inv (.infty 0) = true := NumOK.inv ⟨rfl, by rw [canon_infty]; simp⟩

/-- the last part of `pow`: nested powers are folded, everything else becomes a `Pow` -/
theorem step_powGeneric (ih : Spec n) : ∀ rv a b r, inv a = true → inv b = true → okBase a = true →
    isNumZero b = false → isIntLit b 1 = false → isIntLit a 0 = false → isIntLit a 1 = false →
    (a.isNum && isInteger b) = false → ((isInteger a || isRational a) && isRational b) = false →
    (isMul a && b.isNum) = false → powGeneric (n + 1) rv a b = .ok r → inv r = true := by
  intro rv a b r ha hb hob hbz hb1 ha0 ha1 c1 c2 c3 h
  simp only [powGeneric, bind, Except.bind] at h
  split at h
  · rename_i ab ae
    obtain ⟨hab, hae, _, hfac⟩ := inv_pow_iff.mp ha
    split at h
    · cases hm : mulF n rv ae b with
      | error e => simp [hm] at h
      | ok v =>
        simp only [hm] at h
        exact ih.powF rv ab v r hab (ih.mulF rv ae b v hae hb hm) (okBase_of_factor hfac) h
    · rename_i hi
      split at h
      · cases hm : mulF n rv minusOne b with
        | error e => simp [hm] at h
        | ok v =>
          simp only [hm] at h
          exact ih.powF rv ab v r hab (ih.mulF rv minusOne b v numOK_minusOne.inv hb hm)
            (okBase_of_factor hfac) h
      · simp at h; subst h
        exact pow_leaf ha hb hob hbz hb1 ha0 ha1 c1 c2 c3 (by simpa [isPow] using hi)
  · rename_i hnp
    simp at h; subst h
    refine pow_leaf ha hb hob hbz hb1 ha0 ha1 c1 c2 c3 ?_
    cases a <;> simp_all [isPow]

set_option maxHeartbeats 2000000 in
theorem step_powF (ih : Spec n) : ∀ rv a b r, inv a = true → inv b = true → okBase a = true →
    powF (n + 1) rv a b = .ok r → inv r = true := by
  intro rv a b r ha hb hob h
  simp only [powF, bind, Except.bind, pure, Except.pure] at h
  split at h
  · rename_i hbz
    simp only [isNumZero, Bool.and_eq_true] at hbz
    exact (numAdd_ok numOK_one ⟨hbz.1, inv_canon hb⟩ h).inv
  · rename_i hbz
    have hbz : isNumZero b = false := by simpa using hbz
    split at h
    · simp at h; subst h; exact ha
    · rename_i hb1
      have hb1 : isIntLit b 1 = false := by simpa using hb1
      split at h
      · -- 0 ** b
        rename_i ha0
        split at h
        · simp at h; subst h; exact numOK_zero.inv
        · split at h
          · simp at h; subst h; exact inv_infty0
          · rename_i hnp hnn
            split at h
            · split at h
              · simp at h; subst h; exact numOK_zero.inv
              · split at h
                · simp at h; subst h; exact inv_infty0
                · simp at h; subst h; exact numOK_nan.inv
            · split at h
              · simp at h; subst h; exact numOK_nan.inv
              · rename_i hbn
                simp at h; subst h
                have hbn : b.isNum = false := by simpa using hbn
                have hf : factorOK a b = true := by
                  cases a <;> simp_all [isIntLit, factorOK]
                exact inv_pow_iff.mpr ⟨ha, hb, factorOK_powCanonTop hf hb1, hf⟩
      · rename_i ha0
        have ha0 : isIntLit a 0 = false := by simpa using ha0
        split at h
        · simp at h; subst h; exact numOK_one.inv
        · rename_i h1c
          split at h
          · -- (-1) ** b
            rename_i rr hm1
            simp at h; subst h
            split at hm1
            · split at hm1
              · simp at hm1; subst hm1
                split
                · exact numOK_one.inv
                · exact numOK_minusOne.inv
              · simp at hm1; subst hm1; exact numOK_imagUnit.inv
              · simp at hm1
            · simp at hm1
          · rename_i hm1n
            split at h
            · rename_i hbn
              split at h
              · rename_i han
                split at h
                · exact (numPow_ok' (inv_canon ha) h).inv
                · rename_i hbi
                  split at h
                  · rename_i hbr
                    split at h
                    · rename_i hari
                      refine ih.powNumRat rv a b r (exOK_of_intOrRat ha ?_) (exOK_of_rat hb hbr) h
                      simpa [Bool.or_comm] using hari
                    · rename_i hari
                      split at h
                      · rename_i hac
                        simp at h; subst h
                        refine pow_leaf ha hb hob hbz hb1 ha0 ?_ ?_ ?_ ?_ ?_
                        · cases a <;> simp_all [isComplex, isIntLit]
                        · simp_all
                        · cases a <;> simp_all [isComplex, isInteger, isRational]
                        · cases a <;> simp_all [isComplex, isMul]
                        · cases a <;> simp_all [isComplex, isPow]
                      · simp at h
                  · rename_i hbr
                    split at h
                    · rename_i hbc
                      split at h
                      · rename_i hae
                        simp at h; subst h
                        refine pow_leaf ha hb hob hbz hb1 ha0 ?_ ?_ ?_ ?_ ?_
                        · simpa [hbc] using h1c
                        · simp_all
                        · simp_all
                        · cases a <;> simp_all [isExactNum, isMul]
                        · cases a <;> simp_all [isExactNum, isPow]
                      · simp at h
                    · simp at h
              · rename_i han
                have han : a.isNum = false := by simpa using han
                split at h
                · rename_i ac ad _ _
                  cases hp : powerNum n rv ac ad one [] b with
                  | error e => simp [hp] at h
                  | ok cd =>
                    simp [hp] at h; subst h
                    have hex : isExactNum ac = true := by simpa [okBase] using hob
                    have := ih.powerNum rv ac ad one [] b cd.1 cd.2 ha hex
                      ⟨numOK_one, MulDictOK.nil⟩ ⟨hbn, inv_canon hb⟩ hp
                    exact mulFromDict_inv this.1 this.2
                · rename_i hnm
                  refine ih.powGeneric rv a b r ha hb hob hbz hb1 ha0 ?_ ?_ ?_ ?_ h
                  · cases a <;> simp_all [isIntLit, Expr.isNum]
                  · simp [han]
                  · cases a <;> simp_all [isInteger, isRational, Expr.isNum]
                  · cases a <;> simp_all [isMul]
            · rename_i hbn
              have hbn : b.isNum = false := by simpa using hbn
              refine ih.powGeneric rv a b r ha hb hob hbz hb1 ha0 ?_ ?_ ?_ ?_ h
              · simpa [hbn] using h1c
              · cases b <;> simp_all [isInteger, Expr.isNum]
              · cases b <;> simp_all [isRational, Expr.isNum]
              · simp [hbn]

end SymVerif.Arith
