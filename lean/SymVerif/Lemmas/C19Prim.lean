/-
Lemmas about the portable-binary primitives of Model/Codec.lean (C19/C20).
-/
import SymVerif.Model.Codec

namespace SymVerif.Codec

theorem leN_length (k n : Nat) : (leN k n).length = k := by
  induction k generalizing n with
  | zero => rfl
  | succ k ih => simp [leN, ih]

theorem ofLE_leN (k n : Nat) : ofLE (leN k n) = n % 256 ^ k := by
  induction k generalizing n with
  | zero => simp [leN, ofLE, Nat.mod_one]
  | succ k ih =>
    simp only [leN, ofLE, ih]
    have h : (UInt8.ofNat (n % 256)).toNat = n % 256 := by
      simp [UInt8.toNat_ofNat']
    rw [h, Nat.pow_succ, Nat.mul_comm (256 ^ k) 256, Nat.mod_mul]

theorem rdNat_leN (w n : Nat) (rest : Bytes) (h : n < 256 ^ w) :
    rdNat false w (leN w n ++ rest) = .ok (n, rest) := by
  unfold rdNat
  have hl := leN_length w n
  have h1 : w ≤ (leN w n ++ rest).length := by simp [hl]
  simp only [h1, if_true]
  have h2 : List.take w (leN w n ++ rest) = leN w n := by
    rw [List.take_append_of_le_length (by omega)]
    rw [List.take_of_length_le (by omega)]
  have h3 : List.drop w (leN w n ++ rest) = rest := by
    rw [List.drop_append_of_le_length (by omega)]
    rw [List.drop_of_length_le (by omega)]
    simp
  simp [h2, h3, ofLE_leN, Nat.mod_eq_of_lt h]

theorem rdNat_le64 (a : UInt64) (rest : Bytes) :
    rdNat false 8 (le64 a ++ rest) = .ok (a.toNat, rest) := by
  unfold le64
  apply rdNat_leN
  have := a.toNat_lt
  simpa using this

theorem rdNat_byte (b : UInt8) (rest : Bytes) :
    rdNat false 1 (b :: rest) = .ok (b.toNat, rest) := by
  simp [rdNat, ofLE]

theorem rdStr_encStr (cap : Nat) (s rest : Bytes) (h1 : s.length < 2 ^ 62)
    (h2 : s.length ≤ 15 ∨ s.length + 1 ≤ cap) :
    rdStr ⟨false, cap⟩ (encStr s ++ rest) = .ok (s, rest) := by
  unfold rdStr encStr
  rw [List.append_assoc, rdNat_leN 8 s.length _ (by omega)]
  simp only
  have : ¬ (s.length ≥ 2 ^ 62) := by omega
  simp only [this, if_false]
  have : ¬ (s.length > 15 ∧ s.length + 1 > cap) := by omega
  simp only [this, if_false]
  simp

end SymVerif.Codec
