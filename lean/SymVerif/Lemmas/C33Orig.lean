import SymVerif.Lemmas.C33Ops
/-! The pre-fix code (`finish = start + 2*segment + 1`): out-of-bounds access (defect D15). -/
namespace SymVerif.C33
open SymVerif.Sieve

theorem markSlice_cases (a : Array Bool) (first count stride : Nat) :
    (∃ a', markSlice a first count stride = .ok a' ∧ a'.size = a.size) ∨
    markSlice a first count stride = .error .oob := by
  induction count generalizing a first with
  | zero => left; exact ⟨a, rfl, rfl⟩
  | succ k ih =>
    unfold markSlice
    split
    · rcases ih (a.set! first false) (first + stride) with ⟨a', e, h⟩ | e
      · left; exact ⟨a', e, by simpa using h⟩
      · right; exact e
    · right; rfl

theorem markLoop_cases (s : State) (start finish fuel index : Nat) (a : Array Bool) :
    (∃ a', markLoop s start finish fuel index a = .ok a' ∧ a'.size = a.size) ∨
    markLoop s start finish fuel index a = .error .oob := by
  induction fuel generalizing index a with
  | zero => left; exact ⟨a, rfl, rfl⟩
  | succ fuel ih =>
    unfold markLoop
    split
    · simp only []
      split
      · exact ih _ _
      · rcases markSlice_cases a ((firstOddMultiple start (s.get index) - start) / 2)
          (1 + (finish - firstOddMultiple start (s.get index)) / (2 * s.get index)) (s.get index) with
          ⟨a1, e, h⟩ | e
        · rw [e]; simp only []
          rcases ih (index + 1) a1 with ⟨a', e', h'⟩ | e'
          · left; exact ⟨a', e', by omega⟩
          · right; exact e'
        · rw [e]; right; rfl
    · left; exact ⟨a, rfl, rfl⟩

/-- the collecting loop of the original code reaches index `segment` -/
theorem collectLoop_oob (a : Array Bool) (start finish : Nat) (hfin : start + 2 * a.size + 1 ≤ finish)
    (fuel k : Nat) (s : State) (hk : k ≤ a.size) (hfuel : a.size - k < fuel) :
    collectLoop a start finish fuel (start + 2 * k + 1) s = .error .oob := by
  induction fuel generalizing k s with
  | zero => omega
  | succ fuel ih =>
    unfold collectLoop
    rw [if_pos (by omega)]
    have hi : (start + 2 * k + 1 - start) / 2 = k := by omega
    simp only [hi]
    by_cases hlt : k < a.size
    · rw [dif_pos hlt]
      exact ih (k + 1) _ (by omega) (by omega)
    · rw [dif_neg hlt]

theorem segLoop_orig_oob (segment limit fuel start : Nat) (s : State)
    (hlim : start + 2 * segment + 1 ≤ limit) :
    segLoop finishOrig segment limit (fuel + 1) start s = .error .oob := by
  unfold segLoop
  rw [if_pos (by omega)]
  simp only [finishOrig]
  rw [Nat.min_eq_left hlim]
  rcases markLoop_cases s start (start + 2 * segment + 1) (s.size + 1) 1
      (Array.replicate segment true) with ⟨a', e, h⟩ | e
  · rw [e]; simp only []
    have hsz : a'.size = segment := by simpa using h
    have := collectLoop_oob a' start (start + 2 * segment + 1) (by omega)
      (start + 2 * segment + 1 + 1) 0 s (by omega) (by omega)
    rw [show start + 2 * 0 + 1 = start + 1 from rfl] at this
    rw [this]
  · rw [e]

theorem segLoop_done (f : Nat → Nat → Nat) (segment limit fuel start : Nat) (s : State)
    (h : limit < start) : segLoop f segment limit fuel start s = .ok s := by
  cases fuel with
  | zero => rfl
  | succ fuel => unfold segLoop; rw [if_neg (by omega)]

/-- within the first segment the original and the repaired code coincide -/
theorem segLoop_orig_eq (segment limit fuel start : Nat) (s : State) (hseg : 0 < segment)
    (h : limit ≤ start + 2 * segment - 1) :
    segLoop finishOrig segment limit fuel start s = segLoop finishFixed segment limit fuel start s := by
  cases fuel with
  | zero => rfl
  | succ fuel =>
    unfold segLoop
    by_cases hle : start ≤ limit
    · rw [if_pos hle, if_pos hle]
      simp only [finishOrig, finishFixed]
      rw [Nat.min_eq_right (by omega), Nat.min_eq_right h]
      cases markLoop s start limit (s.size + 1) 1 (Array.replicate segment true) with
      | error e => rfl
      | ok a' =>
        simp only []
        cases collectLoop a' start limit (limit + 1) (start + 1) s with
        | error e => rfl
        | ok s' =>
          simp only []
          rw [segLoop_done _ _ _ _ _ _ (by omega), segLoop_done _ _ _ _ _ _ (by omega)]
    · rw [if_neg hle, if_neg hle]

theorem back_mono {s s1 : State} (h : Inv s) (h1 : Inv s1) (hsz : s.size ≤ s1.size) :
    s.back ≤ s1.back := by
  rw [h.back, h1.back]; exact np_le_np (by omega)

theorem extendWith_orig_eq (fuel : Nat) (s : State) (limit : Nat) (hinv : Inv s)
    (hlim : limit < 2 ^ (2 ^ fuel)) (h : limit ≤ s.back + 2 * s.sieveBits) :
    extendWith finishOrig (fuel + 1) s limit = extendWith finishFixed (fuel + 1) s limit := by
  induction fuel generalizing s limit with
  | zero =>
    have hb := hinv.back_ge
    have hl : limit < 2 := by simpa using hlim
    unfold extendWith
    simp only []
    rw [if_pos (by omega), if_pos (by omega)]
  | succ fuel ih =>
    have hsl : Nat.sqrt limit ≤ limit := Nat.sqrt_le_self _
    have hsq : Nat.sqrt limit < 2 ^ 2 ^ fuel := by
      rw [Nat.sqrt_lt']
      calc limit < 2 ^ 2 ^ (fuel + 1) := hlim
        _ = (2 ^ 2 ^ fuel) ^ 2 := by rw [← pow_mul, pow_succ]
    rw [extendWith, extendWith.eq_def finishFixed]
    simp only []
    by_cases hle : limit ≤ s.back + 1
    · rw [if_pos hle, if_pos hle]
    · rw [if_neg hle, if_neg hle]
      by_cases hr : Nat.sqrt limit ≥ s.back + 1
      · rw [if_pos hr, if_pos hr, ih s _ hinv hsq (by omega)]
        obtain ⟨s1, e, i1, sz, b, _, _⟩ := extendWith_spec fuel s (Nat.sqrt limit) hinv hsq
        rw [e]; simp only []
        have := back_mono hinv i1 (by rw [sz]; exact le_max_left _ _)
        rw [segLoop_orig_eq _ _ _ _ _ i1.bits (by rw [b]; omega)]
      · rw [if_neg hr, if_neg hr]
        simp only []
        rw [segLoop_orig_eq _ _ _ _ _ hinv.bits (by omega)]

/-- **The defect D15, in general.** With the original segment end `start + 2*segment + 1`,
`_extend(limit)` performs an out-of-bounds access to `is_prime` whenever `limit` lies beyond the
first segment (and `sqrt limit` within it, so that the recursive call is harmless). -/
theorem extendWith_orig_oob (fuel : Nat) (s : State) (limit : Nat) (hinv : Inv s)
    (hlim : limit < 2 ^ (2 ^ fuel))
    (h1 : Nat.sqrt limit ≤ s.back + 2 * s.sieveBits)
    (h2 : max (s.back + 1) (Nat.sqrt limit + 1) + 2 * s.sieveBits + 1 ≤ limit) :
    extendWith finishOrig (fuel + 1) s limit = .error .oob := by
  have hb := hinv.back_ge
  cases fuel with
  | zero =>
    have hl : limit < 2 := by simpa using hlim
    have := le_max_left (s.back + 1) (Nat.sqrt limit + 1)
    omega
  | succ fuel =>
    have hsq : Nat.sqrt limit < 2 ^ 2 ^ fuel := by
      rw [Nat.sqrt_lt']
      calc limit < 2 ^ 2 ^ (fuel + 1) := hlim
        _ = (2 ^ 2 ^ fuel) ^ 2 := by rw [← pow_mul, pow_succ]
    have hm1 := le_max_left (s.back + 1) (Nat.sqrt limit + 1)
    have hm2 := le_max_right (s.back + 1) (Nat.sqrt limit + 1)
    have hbits : (s.sieveBits == 0) = false := by
      have := hinv.bits
      simp; omega
    rw [extendWith]
    simp only []
    rw [if_neg (by omega)]
    by_cases hr : Nat.sqrt limit ≥ s.back + 1
    · rw [if_pos hr, extendWith_orig_eq fuel s _ hinv hsq h1]
      obtain ⟨s1, e, i1, sz, b, _, _⟩ := extendWith_spec fuel s (Nat.sqrt limit) hinv hsq
      rw [e]; simp only []
      rw [hbits]; simp only [Bool.false_eq_true, if_false]
      apply segLoop_orig_oob
      have hp : (s1.back).Prime := by rw [i1.back]; exact prime_np _
      have hlt : s1.back < max (s.back + 1) (Nat.sqrt limit + 1) := by
        apply prime_lt_of_cnt_lt hp
        have h3 : cnt (s1.back + 1) = max (cnt (s.back + 1)) (cnt (Nat.sqrt limit + 1)) := by
          rw [← i1.size_eq_cnt, sz, hinv.size_eq_cnt]
        have h4 : max (cnt (s.back + 1)) (cnt (Nat.sqrt limit + 1)) ≤
            cnt (max (s.back + 1) (Nat.sqrt limit + 1)) :=
          max_le (cnt_mono hm1) (cnt_mono hm2)
        have := cnt_succ_prime hp
        omega
      rw [b]; omega
    · rw [if_neg hr]
      simp only []
      rw [hbits]; simp only [Bool.false_eq_true, if_false]
      apply segLoop_orig_oob
      omega

end SymVerif.C33
