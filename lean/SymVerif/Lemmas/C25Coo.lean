import SymVerif.Lemmas.C25Canon
/-!
C25 — `CSRMatrix::from_coo`, part 1: the counting sort by row (count, cumulative sum, scatter,
shift).  The dense meaning of a coordinate list is `cooSum`: duplicates are summed.
-/
namespace SymVerif.C25
open SymVerif.CSR Finset

/-- what a coordinate list denotes at `(i, c)`: the sum of all triples there -/
def cooSum : List Triple → Nat → Nat → Q
  | [], _, _ => 0
  | t :: ts, i, c => (if t.1 = i ∧ t.2.1 = c then t.2.2 else 0) + cooSum ts i c

/-- number of triples in row `r` -/
def cnt : List Triple → Nat → Nat
  | [], _ => 0
  | t :: ts, r => (if t.1 = r then 1 else 0) + cnt ts r

/-- start of row `r` after the counting sort -/
def base (ts : List Triple) (r : Nat) : Nat := ∑ r' ∈ Ico 0 r, cnt ts r'

/-- dense meaning of raw arrays (also for non-canonical intermediate states) -/
def denseA (p j : Array Nat) (x : Array Q) (i c : Nat) : Q :=
  ∑ k ∈ Ico p[i]! p[i + 1]!, cellOf j x c k

theorem dense_eq_denseA (m : Mat) (i c : Nat) : dense m i c = denseA m.p m.j m.x i c := rfl

theorem base_zero (ts : List Triple) : base ts 0 = 0 := by simp [base]

theorem base_succ (ts : List Triple) (r : Nat) : base ts (r + 1) = base ts r + cnt ts r := by
  unfold base
  rw [Finset.sum_Ico_succ_top (Nat.zero_le r)]

theorem base_mono (ts : List Triple) : ∀ a b, a ≤ b → base ts a ≤ base ts b := by
  intro a b hab
  induction b with
  | zero => have : a = 0 := by omega
            subst this; exact Nat.le_refl _
  | succ b ih =>
    by_cases h : a = b + 1
    · subst h; exact Nat.le_refl _
    · have := ih (by omega)
      rw [base_succ]; omega

theorem base_row (ts : List Triple) (row : Nat) (h : ∀ t ∈ ts, t.1 < row) :
    base ts row = ts.length := by
  induction ts with
  | nil => simp [base, cnt]
  | cons t ts ih =>
    have ht : t.1 < row := h t (List.mem_cons_self)
    have := ih (fun t' ht' => h t' (List.mem_cons_of_mem _ ht'))
    unfold base at this ⊢
    simp only [cnt, Finset.sum_add_distrib, this, List.length_cons]
    rw [Finset.sum_ite_eq (Ico 0 row) t.1 (fun _ => 1)]
    simp [ht]; omega

/-! ### count -/

theorem cooCount_spec :
    ∀ (ts : List Triple) (p : Array Nat), (∀ t ∈ ts, t.1 < p.size) →
      ∃ p', cooCount ts p = .ok p' ∧ p'.size = p.size ∧ ∀ r, r < p.size → p'[r]! = p[r]! + cnt ts r := by
  intro ts
  induction ts with
  | nil => intro p _; exact ⟨p, rfl, rfl, fun r _ => by simp [cnt]⟩
  | cons t ts ih =>
    intro p h
    obtain ⟨i, c, v⟩ := t
    have hi : i < p.size := h (i, c, v) (List.mem_cons_self)
    unfold cooCount
    simp only [rd_lt hi, ok_bind, wr_lt _ hi]
    obtain ⟨p', e, s, g⟩ := ih (p.set i (p[i]! + 1) hi) (fun t' ht' => by
      simpa using h t' (List.mem_cons_of_mem _ ht'))
    refine ⟨p', e, by simpa using s, fun r hr => ?_⟩
    rw [g r (by simpa using hr), set_get!]
    simp only [cnt]
    by_cases hri : r = i
    · subst hri; simp; omega
    · have : ¬ i = r := fun h => hri h.symm
      simp [hri, this]

/-! ### cumulative sum -/

theorem cumsumLoop_spec :
    ∀ n i cs (p : Array Nat), i + n ≤ p.size →
      ∃ p', cumsumLoop n i cs p = .ok p' ∧ p'.size = p.size ∧
        ∀ r, p'[r]! = if i ≤ r ∧ r < i + n then cs + ∑ r' ∈ Ico i r, p[r']! else p[r]! := by
  intro n
  induction n with
  | zero =>
    intro i cs p _
    refine ⟨p, rfl, rfl, fun r => ?_⟩
    have : ¬ (i ≤ r ∧ r < i + 0) := by omega
    rw [if_neg this]
  | succ n ih =>
    intro i cs p hsz
    have hi : i < p.size := by omega
    unfold cumsumLoop
    simp only [rd_lt hi, ok_bind, wr_lt _ hi]
    obtain ⟨p', e, s, g⟩ := ih (i + 1) (cs + p[i]!) (p.set i cs hi) (by simp; omega)
    refine ⟨p', e, by simpa using s, fun r => ?_⟩
    rw [g r]
    by_cases hri : r = i
    · subst hri
      have n1 : ¬ (r + 1 ≤ r ∧ r < r + 1 + n) := by omega
      have n2 : r ≤ r ∧ r < r + (n + 1) := by omega
      rw [if_neg n1, if_pos n2, set_get!, if_pos rfl]
      simp
    · by_cases hc : i + 1 ≤ r ∧ r < i + 1 + n
      · have n2 : i ≤ r ∧ r < i + (n + 1) := by omega
        rw [if_pos hc, if_pos n2, Finset.sum_eq_sum_Ico_succ_bot (by omega : i < r)]
        have : ∑ r' ∈ Ico (i + 1) r, (p.set i cs hi)[r']! = ∑ r' ∈ Ico (i + 1) r, p[r']! := by
          apply Finset.sum_congr rfl
          intro r' hr'
          rw [Finset.mem_Ico] at hr'
          rw [set_get!]
          have : ¬ r' = i := by omega
          rw [if_neg this]
        rw [this]; omega
      · have n2 : ¬ (i ≤ r ∧ r < i + (n + 1)) := by omega
        rw [if_neg hc, if_neg n2, set_get!, if_neg hri]

/-! ### shift -/

theorem shiftLoop_spec :
    ∀ n i last (p : Array Nat), i + n ≤ p.size →
      ∃ p', shiftLoop n i last p = .ok p' ∧ p'.size = p.size ∧
        ∀ r, p'[r]! = if i ≤ r ∧ r < i + n then (if r = i then last else p[r - 1]!) else p[r]! := by
  intro n
  induction n with
  | zero =>
    intro i last p _
    refine ⟨p, rfl, rfl, fun r => ?_⟩
    have : ¬ (i ≤ r ∧ r < i + 0) := by omega
    rw [if_neg this]
  | succ n ih =>
    intro i last p hsz
    have hi : i < p.size := by omega
    unfold shiftLoop
    simp only [rd_lt hi, ok_bind, wr_lt _ hi]
    obtain ⟨p', e, s, g⟩ := ih (i + 1) p[i]! (p.set i last hi) (by simp; omega)
    refine ⟨p', e, by simpa using s, fun r => ?_⟩
    rw [g r]
    by_cases hri : r = i
    · subst hri
      have n1 : ¬ (r + 1 ≤ r ∧ r < r + 1 + n) := by omega
      have n2 : r ≤ r ∧ r < r + (n + 1) := by omega
      rw [if_neg n1, if_pos n2, set_get!, if_pos rfl, if_pos rfl]
    · by_cases hc : i + 1 ≤ r ∧ r < i + 1 + n
      · have n2 : i ≤ r ∧ r < i + (n + 1) := by omega
        rw [if_pos hc, if_pos n2, if_neg hri]
        by_cases hr1 : r = i + 1
        · subst hr1; rw [if_pos rfl]; simp
        · rw [if_neg hr1, set_get!]
          have : ¬ r - 1 = i := by omega
          rw [if_neg this]
      · have n2 : ¬ (i ≤ r ∧ r < i + (n + 1)) := by omega
        rw [if_neg hc, if_neg n2, set_get!, if_neg hri]

/-! ### scatter -/

theorem cellOf_set2 (j : Array Nat) (x : Array Q) (d c0 : Nat) (v : Q) (hj : d < j.size)
    (hx : d < x.size) (c k : Nat) :
    cellOf (j.set d c0 hj) (x.set d v hx) c k =
      if k = d then (if c0 = c then v else 0) else cellOf j x c k := by
  unfold cellOf
  rw [set_get!, set_get!]
  by_cases hk : k = d
  · simp [hk]
  · simp [hk]

theorem scatter_spec (row col N : Nat) (bs : Nat → Nat)
    (hbm : ∀ a b, a ≤ b → b ≤ row → bs a ≤ bs b) (hbN : bs row ≤ N) :
    ∀ (rest : List Triple) (p j : Array Nat) (x : Array Q),
      p.size = row + 1 → j.size = N → x.size = N →
      (∀ t ∈ rest, t.1 < row ∧ t.2.1 < col) →
      (∀ r, r < row → bs r ≤ p[r]! ∧ p[r]! + cnt rest r = bs (r + 1)) →
      (∀ k, k < N → j[k]! < col) →
      ∃ p' j' x', scatter rest p j x = .ok (p', j', x') ∧ p'.size = row + 1 ∧ j'.size = N ∧
        x'.size = N ∧ (∀ r, r < row → p'[r]! = bs (r + 1)) ∧ p'[row]! = p[row]! ∧
        (∀ k, k < N → j'[k]! < col) ∧
        ∀ r c, r < row → ∑ k ∈ Ico (bs r) (bs (r + 1)), cellOf j' x' c k
                          = ∑ k ∈ Ico (bs r) p[r]!, cellOf j x c k + cooSum rest r c := by
  intro rest
  induction rest with
  | nil =>
    intro p j x hp hj hx _ hinv hcol
    refine ⟨p, j, x, rfl, hp, hj, hx, fun r hr => ?_, rfl, hcol, fun r c hr => ?_⟩
    · have := (hinv r hr).2; simp [cnt] at this; exact this
    · have := (hinv r hr).2; simp [cnt] at this
      rw [this]; simp [cooSum]
  | cons t rest ih =>
    intro p j x hp hj hx hts hinv hcol
    obtain ⟨i, c0, v⟩ := t
    obtain ⟨hi, hc0⟩ := hts (i, c0, v) (List.mem_cons_self)
    have hi' : i < row := hi
    have hc0' : c0 < col := hc0
    obtain ⟨hb1, hb2⟩ := hinv i hi'
    simp only [cnt, if_true] at hb2
    have hbi := hbm (i + 1) row (by omega) (Nat.le_refl _)
    have hip : i < p.size := by omega
    have hdj : p[i]! < j.size := by omega
    have hdx : p[i]! < x.size := by omega
    unfold scatter
    simp only [rd_lt hip, ok_bind, wr_lt _ hdj, wr_lt _ hdx, wr_lt _ hip]
    obtain ⟨p', j', x', e, s1, s2, s3, g1, g2, g3, g4⟩ :=
      ih (p.set i (p[i]! + 1) hip) (j.set p[i]! c0 hdj) (x.set p[i]! v hdx)
        (by simpa using hp) (by simpa using hj) (by simpa using hx)
        (fun t' ht' => hts t' (List.mem_cons_of_mem _ ht'))
        (fun r hr => by
          rw [set_get!]
          obtain ⟨a1, a2⟩ := hinv r hr
          simp only [cnt] at a2
          by_cases hri : r = i
          · subst hri; simp only [if_true] at a2 ⊢; omega
          · have : ¬ i = r := fun h => hri h.symm
            simp only [hri, this, if_false] at a2 ⊢; omega)
        (fun k hk => by
          rw [set_get!]
          by_cases hkd : k = p[i]!
          · rw [if_pos hkd]; exact hc0'
          · rw [if_neg hkd]; exact hcol k hk)
    refine ⟨p', j', x', e, s1, s2, s3, g1, ?_, g3, fun r c hr => ?_⟩
    · rw [g2, set_get!]
      have : ¬ row = i := by omega
      rw [if_neg this]
    · rw [g4 r c hr, set_get!]
      by_cases hri : r = i
      · subst hri
        simp only [if_true, cooSum, true_and]
        rw [Finset.sum_Ico_succ_top hb1, cellOf_set2, if_pos rfl]
        have : ∑ k ∈ Ico (bs r) p[r]!, cellOf (j.set p[r]! c0 hdj) (x.set p[r]! v hdx) c k
            = ∑ k ∈ Ico (bs r) p[r]!, cellOf j x c k := by
          apply sum_Ico_congr
          intro k _ hk2
          rw [cellOf_set2]
          have : ¬ k = p[r]! := by omega
          rw [if_neg this]
        rw [this]; ring
      · rw [if_neg hri]
        have hne : ¬ (i = r ∧ c0 = c) := fun h => hri h.1.symm
        simp only [cooSum, hne, if_false, zero_add]
        congr 1
        apply sum_Ico_congr
        intro k hk1 hk2
        rw [cellOf_set2]
        obtain ⟨a1, a2⟩ := hinv r hr
        have : ¬ k = p[i]! := by
          rcases Nat.lt_or_gt_of_ne hri with hlt | hgt
          · have := hbm (r + 1) i (by omega) (by omega); omega
          · have := hbm (i + 1) r (by omega) (by omega); omega
        rw [if_neg this]

end SymVerif.C25
