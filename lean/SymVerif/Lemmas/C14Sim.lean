/-
C14, simulation lemmas: executing the instructions the builder appends computes the reference
value of the operator (`evalOp`) / operator tree (`evalT`), and every operand refers to an earlier
instruction.  Everything is generic in the number structure.
-/
import SymVerif.Model.LLVMD

namespace SymVerif.LLVMD
open SymVerif.EvalG

variable {α : Type}

/-! ### register files only grow -/

theorem exec_append (L : LOps α) (xs : List α) (regs : List (RV α)) (A B : Prog α) :
    exec L xs regs (A ++ B) = exec L xs (exec L xs regs A) B := by
  induction A generalizing regs with
  | nil => rfl
  | cons i rest ih => simp [exec, ih]

theorem exec_length (L : LOps α) (xs : List α) (regs : List (RV α)) (A : Prog α) :
    (exec L xs regs A).length = regs.length + A.length := by
  induction A generalizing regs with
  | nil => simp [exec]
  | cons i rest ih => simp [exec, ih]; omega

theorem exec_prefix (L : LOps α) (xs : List α) (regs : List (RV α)) (A : Prog α) :
    ∃ m, exec L xs regs A = regs ++ m := by
  induction A generalizing regs with
  | nil => exact ⟨[], by simp [exec]⟩
  | cons i rest ih =>
    obtain ⟨m, hm⟩ := ih (regs ++ [stepVal L xs regs i])
    exact ⟨stepVal L xs regs i :: m, by simp [exec, hm]⟩

/-- operand refers to a register below `n` (constants always do) -/
def Val.lt (n : Nat) : Val α → Prop
  | .reg k => k < n
  | _ => True

theorem Val.lt_mono {n m : Nat} (h : n ≤ m) (v : Val α) (hv : v.lt n) : v.lt m := by
  cases v <;> simp_all [Val.lt]; omega

/-- pointwise relation of two lists -/
inductive All2 {β γ : Type} (R : β → γ → Prop) : List β → List γ → Prop where
  | nil : All2 R [] []
  | cons {a : β} {b : γ} {as : List β} {bs : List γ} : R a b → All2 R as bs → All2 R (a :: as) (b :: bs)

/-- `v` denotes `r` in the register file `regs` -/
def Holds (regs : List (RV α)) (v : Val α) (r : RV α) : Prop :=
  v.lt regs.length ∧ valOf regs v = r

theorem valOf_append (regs m : List (RV α)) (v : Val α) (hv : v.lt regs.length) :
    valOf (regs ++ m) v = valOf regs v := by
  cases v with
  | cf x => rfl
  | cb x => rfl
  | reg k =>
    simp only [Val.lt] at hv
    simp [valOf, List.getElem?_append_left hv]

theorem Holds.mono {regs : List (RV α)} {v : Val α} {r : RV α} (h : Holds regs v r) (m : List (RV α)) :
    Holds (regs ++ m) v r := by
  refine ⟨Val.lt_mono (by simp) v h.1, ?_⟩
  rw [valOf_append _ _ _ h.1]; exact h.2

theorem Holds.exec {regs : List (RV α)} {v : Val α} {r : RV α} (h : Holds regs v r)
    (L : LOps α) (xs : List α) (A : Prog α) : Holds (exec L xs regs A) v r := by
  obtain ⟨m, hm⟩ := exec_prefix L xs regs A
  rw [hm]; exact h.mono m

theorem Holds.cf (regs : List (RV α)) (x : α) : Holds regs (.cf x) (.f x) := ⟨trivial, rfl⟩
theorem Holds.cb (regs : List (RV α)) (x : Bool) : Holds regs (.cb x) (.b x) := ⟨trivial, rfl⟩

/-- appending one instruction defines the next register -/
theorem Holds.emit (L : LOps α) (xs : List α) (regs : List (RV α)) (P : Prog α) (i : Instr α)
    (hlen : regs.length = P.length) :
    Holds (LLVMD.exec L xs regs [i]) (LLVMD.emit P i).1 (stepVal L xs regs i) := by
  simp only [LLVMD.emit, LLVMD.exec]
  refine ⟨by simp [Val.lt, hlen], ?_⟩
  simp [valOf, ← hlen]

/-! ### one builder call -/

/-- correctness statement of a builder step started at program `P`: it appends `ext`, and in every
register file of the right length in which the operands denote `rs`, the result denotes `spec rs` -/
def StepOK (L : LOps α) (xs : List α) (P : Prog α) (res : Val α × Prog α)
    (ops : List (Val α)) (spec : List (RV α) → RV α) : Prop :=
  ∃ ext, res.2 = P ++ ext ∧
    ∀ regs rs, regs.length = P.length → All2 (Holds regs) ops rs →
      Holds (exec L xs regs ext) res.1 (spec rs)

theorem holds_inv {regs : List (RV α)} {v : Val α} {r : RV α} (h : Holds regs v r) : valOf regs v = r := h.2

theorem mkFBin_ok (L : LOps α) (xs : List α) (isAdd : Bool) (a b : Val α) (P : Prog α) :
    StepOK L xs P (mkFBin L isAdd a b P) [a, b]
      (fun rs => match rs with
        | [ra, rb] => fbin (if isAdd then L.O.add else L.O.mul) ra rb
        | _ => .err .badArg) := by
  unfold mkFBin
  split
  · rename_i x y
    refine ⟨[], by simp, ?_⟩
    intro regs rs _ hf
    cases hf with
    | cons ha hf' =>
      cases hf' with
      | cons hb hn =>
        cases hn
        have h1 := ha.2; have h2 := hb.2
        simp only [valOf] at h1 h2
        subst h1; subst h2
        simp only [exec]
        refine ⟨trivial, ?_⟩
        cases isAdd <;> simp [valOf, fbin, asF]
  · refine ⟨[if isAdd then .fadd a b else .fmul a b], rfl, ?_⟩
    intro regs rs hlen hf
    cases hf with
    | cons ha hf' =>
      cases hf' with
      | cons hb hn =>
        cases hn
        have h := Holds.emit L xs regs P (if isAdd then .fadd a b else .fmul a b) hlen
        refine ⟨h.1, ?_⟩
        rw [h.2]
        cases isAdd <;> simp [stepVal, ha.2, hb.2]

theorem mkFCmp_ok (L : LOps α) (xs : List α) (p : FPred) (a b : Val α) (P : Prog α) :
    StepOK L xs P (mkFCmp L p a b P) [a, b]
      (fun rs => match rs with
        | [ra, rb] => rvFCmp L p ra rb
        | _ => .err .badArg) := by
  unfold mkFCmp
  split
  · rename_i x y
    refine ⟨[], by simp, ?_⟩
    intro regs rs _ hf
    cases hf with
    | cons ha hf' =>
      cases hf' with
      | cons hb hn =>
        cases hn
        have h1 := ha.2; have h2 := hb.2
        simp only [valOf] at h1 h2
        subst h1; subst h2
        simp only [exec]
        exact ⟨trivial, by simp [valOf, rvFCmp, asF]⟩
  · refine ⟨[.fcmp p a b], rfl, ?_⟩
    intro regs rs hlen hf
    cases hf with
    | cons ha hf' =>
      cases hf' with
      | cons hb hn =>
        cases hn
        have h := Holds.emit L xs regs P (.fcmp p a b) hlen
        refine ⟨h.1, ?_⟩
        rw [h.2]
        simp [stepVal, ha.2, hb.2]

theorem mkBop_ok (L : LOps α) (xs : List α) (o : BOp) (a b : Val α) (P : Prog α) :
    StepOK L xs P (mkBop o a b P) [a, b]
      (fun rs => match rs with
        | [ra, rb] => rvBop o ra rb
        | _ => .err .badArg) := by
  unfold mkBop
  split
  · rename_i x y
    refine ⟨[], by simp, ?_⟩
    intro regs rs _ hf
    cases hf with
    | cons ha hf' =>
      cases hf' with
      | cons hb hn =>
        cases hn
        have h1 := ha.2; have h2 := hb.2
        simp only [valOf] at h1 h2
        subst h1; subst h2
        simp only [exec]
        exact ⟨trivial, by simp [valOf, rvBop, asB]⟩
  · refine ⟨[.bop o a b], rfl, ?_⟩
    intro regs rs hlen hf
    cases hf with
    | cons ha hf' =>
      cases hf' with
      | cons hb hn =>
        cases hn
        have h := Holds.emit L xs regs P (.bop o a b) hlen
        refine ⟨h.1, ?_⟩
        rw [h.2]
        simp [stepVal, ha.2, hb.2]

theorem mkNot_ok (L : LOps α) (xs : List α) (a : Val α) (P : Prog α) :
    StepOK L xs P (mkNot a P) [a]
      (fun rs => match rs with
        | [ra] => rvNot ra
        | _ => .err .badArg) := by
  unfold mkNot
  split
  · rename_i x
    refine ⟨[], by simp, ?_⟩
    intro regs rs _ hf
    cases hf with
    | cons ha hn =>
      cases hn
      have h1 := ha.2
      simp only [valOf] at h1
      subst h1
      simp only [exec]
      exact ⟨trivial, by simp [valOf, rvNot, asB]⟩
  · refine ⟨[.bnot a], rfl, ?_⟩
    intro regs rs hlen hf
    cases hf with
    | cons ha hn =>
      cases hn
      have h := Holds.emit L xs regs P (.bnot a) hlen
      refine ⟨h.1, ?_⟩
      rw [h.2]
      simp [stepVal, ha.2]

theorem mkUIToFP_ok (L : LOps α) (xs : List α) (a : Val α) (P : Prog α) :
    StepOK L xs P (mkUIToFP L a P) [a]
      (fun rs => match rs with
        | [ra] => rvUIToFP L ra
        | _ => .err .badArg) := by
  unfold mkUIToFP
  split
  · rename_i x
    refine ⟨[], by simp, ?_⟩
    intro regs rs _ hf
    cases hf with
    | cons ha hn =>
      cases hn
      have h1 := ha.2
      simp only [valOf] at h1
      subst h1
      simp only [exec]
      exact ⟨trivial, by simp [valOf, rvUIToFP, asB]⟩
  · refine ⟨[.uitofp a], rfl, ?_⟩
    intro regs rs hlen hf
    cases hf with
    | cons ha hn =>
      cases hn
      have h := Holds.emit L xs regs P (.uitofp a) hlen
      refine ⟨h.1, ?_⟩
      rw [h.2]
      simp [stepVal, ha.2]

theorem valsOf_holds (regs : List (RV α)) (vs : List (Val α)) (rs : List (RV α))
    (h : All2 (Holds regs) vs rs) : valsOf regs vs = rs := by
  induction h with
  | nil => rfl
  | cons ha _ ih => simp [valsOf, ha.2, ih]

/-- chaining: a step whose operands are results of earlier steps -/
theorem forall2_exec {regs : List (RV α)} {vs : List (Val α)} {rs : List (RV α)}
    (h : All2 (Holds regs) vs rs) (L : LOps α) (xs : List α) (A : Prog α) :
    All2 (Holds (exec L xs regs A)) vs rs := by
  induction h with
  | nil => exact .nil
  | cons ha _ ih => exact .cons (ha.exec L xs A) ih

/-! ### one operator -/

macro "bad_shape" : tactic => `(tactic| (intro h; simp [emitOp] at h))

theorem emitOp_ok (L : LOps α) (xs : List α) (k : OpK) (vs : List (Val α)) (P : Prog α) (res : Val α × Prog α)
    (h : emitOp L k vs P = .ok res) :
    StepOK L xs P res vs (evalOp L k) := by
  revert h
  cases k with
  | fadd =>
    match vs with
    | [a, b] =>
      intro h; simp only [emitOp] at h; cases h
      obtain ⟨ext, he, hs⟩ := mkFBin_ok L xs true a b P
      exact ⟨ext, he, fun regs rs hl hf => by
        have := hs regs rs hl hf
        cases hf with
        | cons _ t => cases t with
          | cons _ t2 => cases t2; simpa [evalOp] using this⟩
    | [] => bad_shape
    | [_] => bad_shape
    | _ :: _ :: _ :: _ => bad_shape
  | fmul =>
    match vs with
    | [a, b] =>
      intro h; simp only [emitOp] at h; cases h
      obtain ⟨ext, he, hs⟩ := mkFBin_ok L xs false a b P
      exact ⟨ext, he, fun regs rs hl hf => by
        have := hs regs rs hl hf
        cases hf with
        | cons _ t => cases t with
          | cons _ t2 => cases t2; simpa [evalOp] using this⟩
    | [] => bad_shape
    | [_] => bad_shape
    | _ :: _ :: _ :: _ => bad_shape
  | square =>
    match vs with
    | [a] =>
      intro h; simp only [emitOp] at h; cases h
      obtain ⟨ext, he, hs⟩ := mkFBin_ok L xs false a a P
      exact ⟨ext, he, fun regs rs hl hf => by
        cases hf with
        | cons ha t =>
          cases t
          have := hs regs [_, _] hl (.cons ha (.cons ha .nil))
          simpa [evalOp] using this⟩
    | [] => bad_shape
    | _ :: _ :: _ => bad_shape
  | call intr name =>
    intro h; simp only [emitOp] at h; cases h
    refine ⟨[.call intr name vs], rfl, ?_⟩
    intro regs rs hlen hf
    have h := Holds.emit L xs regs P (.call intr name vs) hlen
    refine ⟨h.1, ?_⟩
    rw [h.2]
    simp [stepVal, valsOf_holds regs _ _ hf, evalOp]
  | powi n =>
    match vs with
    | [a] =>
      intro h; simp only [emitOp] at h; cases h
      refine ⟨[.powi a n], rfl, ?_⟩
      intro regs rs hlen hf
      cases hf with
      | cons ha t =>
        cases t
        have h := Holds.emit L xs regs P (.powi a n) hlen
        refine ⟨h.1, ?_⟩
        rw [h.2]
        simp [stepVal, ha.2, evalOp]
    | [] => bad_shape
    | _ :: _ :: _ => bad_shape
  | cmpU p =>
    match vs with
    | [a, b] =>
      intro h; simp only [emitOp] at h; cases h
      obtain ⟨e1, he1, hs1⟩ := mkFCmp_ok L xs p a b P
      obtain ⟨e2, he2, hs2⟩ := mkUIToFP_ok L xs (mkFCmp L p a b P).1 (mkFCmp L p a b P).2
      refine ⟨e1 ++ e2, by rw [he2, he1, List.append_assoc], ?_⟩
      intro regs rs hlen hf
      cases hf with
      | cons ha t => cases t with
        | cons hb t2 =>
          cases t2
          have h1 := hs1 regs [_, _] hlen (.cons ha (.cons hb .nil))
          have hl1 : (exec L xs regs e1).length = (mkFCmp L p a b P).2.length := by
            rw [exec_length, he1, hlen, List.length_append]
          have h2 := hs2 (exec L xs regs e1) [_] hl1 (.cons h1 .nil)
          rw [exec_append]
          simpa [evalOp] using h2
    | [] => bad_shape
    | [_] => bad_shape
    | _ :: _ :: _ :: _ => bad_shape
  | truth =>
    match vs with
    | [a] =>
      intro h; simp only [emitOp] at h; cases h
      obtain ⟨ext, he, hs⟩ := mkFCmp_ok L xs .one a (.cf (zeroF L)) P
      exact ⟨ext, he, fun regs rs hl hf => by
        cases hf with
        | cons ha t =>
          cases t
          have := hs regs [_, _] hl (.cons ha (.cons (Holds.cf regs _) .nil))
          simpa [evalOp] using this⟩
    | [] => bad_shape
    | _ :: _ :: _ => bad_shape
  | bop o =>
    match vs with
    | [a, b] =>
      intro h; simp only [emitOp] at h; cases h
      obtain ⟨ext, he, hs⟩ := mkBop_ok L xs o a b P
      exact ⟨ext, he, fun regs rs hl hf => by
        have := hs regs rs hl hf
        cases hf with
        | cons _ t => cases t with
          | cons _ t2 => cases t2; simpa [evalOp] using this⟩
    | [] => bad_shape
    | [_] => bad_shape
    | _ :: _ :: _ :: _ => bad_shape
  | notU =>
    match vs with
    | [a] =>
      intro h; simp only [emitOp] at h; cases h
      obtain ⟨e1, he1, hs1⟩ := mkNot_ok L xs a P
      obtain ⟨e2, he2, hs2⟩ := mkUIToFP_ok L xs (mkNot a P).1 (mkNot a P).2
      refine ⟨e1 ++ e2, by rw [he2, he1, List.append_assoc], ?_⟩
      intro regs rs hlen hf
      cases hf with
      | cons ha t =>
        cases t
        have h1 := hs1 regs [_] hlen (.cons ha .nil)
        have hl1 : (exec L xs regs e1).length = (mkNot a P).2.length := by
          rw [exec_length, he1, hlen, List.length_append]
        have h2 := hs2 (exec L xs regs e1) [_] hl1 (.cons h1 .nil)
        rw [exec_append]
        simpa [evalOp] using h2
    | [] => bad_shape
    | _ :: _ :: _ => bad_shape
  | toFP =>
    match vs with
    | [a] =>
      intro h; simp only [emitOp] at h; cases h
      obtain ⟨ext, he, hs⟩ := mkUIToFP_ok L xs a P
      exact ⟨ext, he, fun regs rs hl hf => by
        have := hs regs rs hl hf
        cases hf with
        | cons _ t => cases t; simpa [evalOp] using this⟩
    | [] => bad_shape
    | _ :: _ :: _ => bad_shape
  | contains lo ro =>
    match vs with
    | [x, s, e] =>
      intro h; simp only [emitOp] at h; cases h
      generalize hp1 : (if lo then FPred.olt else FPred.ole) = p1
      generalize hp2 : (if ro then FPred.olt else FPred.ole) = p2
      obtain ⟨e1, he1, hs1⟩ := mkFCmp_ok L xs p1 s x P
      obtain ⟨e2, he2, hs2⟩ := mkFCmp_ok L xs p2 x e (mkFCmp L p1 s x P).2
      obtain ⟨e3, he3, hs3⟩ := mkBop_ok L xs .and (mkFCmp L p1 s x P).1 (mkFCmp L p2 x e (mkFCmp L p1 s x P).2).1
        (mkFCmp L p2 x e (mkFCmp L p1 s x P).2).2
      obtain ⟨e4, he4, hs4⟩ := mkUIToFP_ok L xs
        (mkBop .and (mkFCmp L p1 s x P).1 (mkFCmp L p2 x e (mkFCmp L p1 s x P).2).1 (mkFCmp L p2 x e (mkFCmp L p1 s x P).2).2).1
        (mkBop .and (mkFCmp L p1 s x P).1 (mkFCmp L p2 x e (mkFCmp L p1 s x P).2).1 (mkFCmp L p2 x e (mkFCmp L p1 s x P).2).2).2
      refine ⟨e1 ++ (e2 ++ (e3 ++ e4)), by rw [he4, he3, he2, he1]; simp [List.append_assoc], ?_⟩
      intro regs rs hlen hf
      cases hf with
      | cons hx t => cases t with
        | cons hs' t2 => cases t2 with
          | cons he' t3 =>
            cases t3
            have h1 := hs1 regs [_, _] hlen (.cons hs' (.cons hx .nil))
            have hl1 : (exec L xs regs e1).length = (mkFCmp L p1 s x P).2.length := by
              rw [exec_length, he1, hlen, List.length_append]
            have h2 := hs2 (exec L xs regs e1) [_, _] hl1 (.cons (hx.exec L xs e1) (.cons (he'.exec L xs e1) .nil))
            have hl2 : (exec L xs (exec L xs regs e1) e2).length = (mkFCmp L p2 x e (mkFCmp L p1 s x P).2).2.length := by
              rw [exec_length, he2, hl1, List.length_append]
            have h3 := hs3 _ [_, _] hl2 (.cons (h1.exec L xs e2) (.cons h2 .nil))
            have hl3 : (exec L xs (exec L xs (exec L xs regs e1) e2) e3).length
                = (mkBop .and (mkFCmp L p1 s x P).1 (mkFCmp L p2 x e (mkFCmp L p1 s x P).2).1 (mkFCmp L p2 x e (mkFCmp L p1 s x P).2).2).2.length := by
              rw [exec_length, he3, hl2, List.length_append]
            have h4 := hs4 _ [_] hl3 (.cons h3 .nil)
            rw [exec_append, exec_append, exec_append]
            simpa [evalOp, hp1, hp2] using h4
    | [] => bad_shape
    | [_] => bad_shape
    | [_, _] => bad_shape
    | _ :: _ :: _ :: _ :: _ => bad_shape

end SymVerif.LLVMD
