/-
C04, logical and / or: `and_or` (Model/Logic.lean, the model of property C28) only depends on the
*set* of its arguments.  The first loop (`collect`) returns `none` iff an absorbing constant occurs,
and otherwise the sorted list whose members are the contributions of the arguments; both are
invariant under permutation (`sorted_ext` of Lemmas/C28Order.lean).
-/
import SymVerif.Lemmas.C28Truth
import SymVerif.Lemmas.C28Order

namespace SymVerif.C04L
open SymVerif.Logic SymVerif.Logic.B SymVerif.C28

/-- one iteration of the first loop of `and_or` -/
def step (isOr : Bool) (a : B) (args : List B) : Option (List B) :=
  match a with
  | .tt => if isOr then none else some args
  | .ff => if isOr then some args else none
  | .and l => if isOr then some (ins a args) else some (insAll l args)
  | .or l => if isOr then some (insAll l args) else some (ins a args)
  | _ => some (ins a args)

theorem collect_cons (isOr : Bool) (a : B) (s args : List B) :
    collect isOr (a :: s) args = (match step isOr a args with
      | none => none
      | some args' => collect isOr s args') := by
  cases a <;> cases isOr <;> simp [collect, step]

/-- the absorbing constant of the connective -/
def absorbing (isOr : Bool) (a : B) : Prop := (a = .tt ∧ isOr = true) ∨ (a = .ff ∧ isOr = false)

/-- `x` is an argument contributed by `a` (one level of flattening of the same connective) -/
def contrib (isOr : Bool) (a x : B) : Prop :=
  match a with
  | .tt => False
  | .ff => False
  | .and l => if isOr then x = a else x ∈ l
  | .or l => if isOr then x ∈ l else x = a
  | _ => x = a

theorem step_none (isOr : Bool) (a : B) (args : List B) : step isOr a args = none ↔ absorbing isOr a := by
  cases a <;> cases isOr <;> simp [step, absorbing]

theorem step_some (isOr : Bool) (a : B) (args args' : List B) (h : step isOr a args = some args')
    (hs : Sorted args) : Sorted args' ∧ ∀ x, x ∈ args' ↔ x ∈ args ∨ contrib isOr a x := by
  cases a <;> cases isOr <;> simp [step] at h <;> subst h <;>
    first
      | exact ⟨hs, fun x => by simp [contrib]⟩
      | exact ⟨sorted_ins _ _ hs, fun x => by simp [contrib, mem_ins, or_comm]⟩
      | exact ⟨sorted_insAll _ _ hs, fun x => by simp [contrib, mem_insAll, or_comm]⟩

theorem collect_none_iff (isOr : Bool) : ∀ (s args : List B),
    collect isOr s args = none ↔ ∃ a ∈ s, absorbing isOr a
  | [], args => by simp [collect]
  | a :: s, args => by
    rw [collect_cons]
    cases hst : step isOr a args with
    | none =>
      have := (step_none isOr a args).mp hst
      simp only [true_iff]
      exact ⟨a, List.mem_cons_self, this⟩
    | some args' =>
      have hna : ¬ absorbing isOr a := fun h => by
        rw [(step_none isOr a args).mpr h] at hst; cases hst
      simp only [collect_none_iff isOr s args', List.mem_cons, exists_eq_or_imp, hna, false_or]

theorem collect_some (isOr : Bool) : ∀ (s args r : List B), collect isOr s args = some r → Sorted args →
    Sorted r ∧ ∀ x, x ∈ r ↔ x ∈ args ∨ ∃ a ∈ s, contrib isOr a x
  | [], args, r, h, hs => by
    simp [collect] at h
    subst h
    exact ⟨hs, fun x => by simp⟩
  | a :: s, args, r, h, hs => by
    rw [collect_cons] at h
    cases hst : step isOr a args with
    | none => rw [hst] at h; cases h
    | some args' =>
      rw [hst] at h
      obtain ⟨hs', hm'⟩ := step_some isOr a args args' hst hs
      obtain ⟨hr, hm⟩ := collect_some isOr s args' r h hs'
      refine ⟨hr, fun x => ?_⟩
      rw [hm x, hm' x]
      simp only [List.mem_cons, exists_eq_or_imp]
      tauto

/-- the first loop of `and_or` only depends on the multiset (in fact the set) of the arguments -/
theorem collect_perm (isOr : Bool) {s₁ s₂ : List B} (hp : s₁.Perm s₂) :
    collect isOr s₁ [] = collect isOr s₂ [] := by
  cases h1 : collect isOr s₁ [] with
  | none =>
    obtain ⟨a, ha, hab⟩ := (collect_none_iff isOr s₁ []).mp h1
    exact ((collect_none_iff isOr s₂ []).mpr ⟨a, hp.mem_iff.mp ha, hab⟩).symm
  | some r₁ =>
    cases h2 : collect isOr s₂ [] with
    | none =>
      obtain ⟨a, ha, hab⟩ := (collect_none_iff isOr s₂ []).mp h2
      rw [(collect_none_iff isOr s₁ []).mpr ⟨a, hp.mem_iff.mpr ha, hab⟩] at h1
      cases h1
    | some r₂ =>
      obtain ⟨hs1, hm1⟩ := collect_some isOr s₁ [] r₁ h1 sorted_nil
      obtain ⟨hs2, hm2⟩ := collect_some isOr s₂ [] r₂ h2 sorted_nil
      congr 1
      apply sorted_ext r₁ r₂ hs1 hs2
      intro x
      rw [hm1 x, hm2 x]
      constructor
      · rintro (h | ⟨a, ha, hc⟩)
        · exact Or.inl h
        · exact Or.inr ⟨a, hp.mem_iff.mp ha, hc⟩
      · rintro (h | ⟨a, ha, hc⟩)
        · exact Or.inl h
        · exact Or.inr ⟨a, hp.mem_iff.mpr ha, hc⟩

/-- `logical_and` / `logical_or` (without the FiniteSet-domain rule) are invariant under permutation
of the arguments -/
theorem andOr_perm_aux (isOr : Bool) {s₁ s₂ : List B} (hp : s₁.Perm s₂) : andOr isOr s₁ = andOr isOr s₂ := by
  unfold andOr
  rw [collect_perm isOr hp]

end SymVerif.C04L
