/-
C04, logical and / or: `and_or` (Model/Logic.lean, the model of property C28) only depends on the
*set* of its arguments.  The first loop (`collect`) returns `none` iff an absorbing constant occurs,
and otherwise the sorted list whose members are the contributions of the arguments; both are
invariant under permutation (`sorted_ext` of Lemmas/C28Order.lean).
-/
import SymVerif.Lemmas.C28Canon2

namespace SymVerif.C04L
open SymVerif.Logic SymVerif.Logic.B SymVerif.C28

/-- one iteration of the first loop of `and_or` -/
def step (isOr : Bool) (a : B) (args : List B) : Option (List B) :=
  match a with
  | .tt => if isOr then none else some args
  | .ff => if isOr then some args else none
  | .and l => if isOr then some (ins a args) else some (insAll l args)
  | .or l => if isOr then some (insAll l args) else some (ins a args)
  | _ => some (ins a args)

theorem collect_cons (isOr : Bool) (a : B) (s args : List B) :
    collect isOr (a :: s) args = (match step isOr a args with
      | none => none
      | some args' => collect isOr s args') := by
  cases a <;> cases isOr <;> simp [collect, step]

/-- the absorbing constant of the connective -/
def absorbing (isOr : Bool) (a : B) : Prop := (a = .tt ∧ isOr = true) ∨ (a = .ff ∧ isOr = false)

/-- `x` is an argument contributed by `a` (one level of flattening of the same connective) -/
def contrib (isOr : Bool) (a x : B) : Prop :=
  match a with
  | .tt => False
  | .ff => False
  | .and l => if isOr then x = a else x ∈ l
  | .or l => if isOr then x ∈ l else x = a
  | _ => x = a

theorem step_none (isOr : Bool) (a : B) (args : List B) : step isOr a args = none ↔ absorbing isOr a := by
  cases a <;> cases isOr <;> simp [step, absorbing]

theorem step_some (isOr : Bool) (a : B) (args args' : List B) (h : step isOr a args = some args')
    (hs : Sorted args) : Sorted args' ∧ ∀ x, x ∈ args' ↔ x ∈ args ∨ contrib isOr a x := by
  cases a <;> cases isOr <;> simp [step] at h <;> subst h <;>
    first
      | exact ⟨hs, fun x => by simp [contrib]⟩
      | exact ⟨sorted_ins _ _ hs, fun x => by simp [contrib, mem_ins, or_comm]⟩
      | exact ⟨sorted_insAll _ _ hs, fun x => by simp [contrib, mem_insAll, or_comm]⟩

theorem collect_none_iff (isOr : Bool) : ∀ (s args : List B),
    collect isOr s args = none ↔ ∃ a ∈ s, absorbing isOr a
  | [], args => by simp [collect]
  | a :: s, args => by
    rw [collect_cons]
    cases hst : step isOr a args with
    | none =>
      have := (step_none isOr a args).mp hst
      simp only [true_iff]
      exact ⟨a, List.mem_cons_self, this⟩
    | some args' =>
      have hna : ¬ absorbing isOr a := fun h => by
        rw [(step_none isOr a args).mpr h] at hst; cases hst
      simp only [collect_none_iff isOr s args', List.mem_cons, exists_eq_or_imp, hna, false_or]

theorem collect_some (isOr : Bool) : ∀ (s args r : List B), collect isOr s args = some r → Sorted args →
    Sorted r ∧ ∀ x, x ∈ r ↔ x ∈ args ∨ ∃ a ∈ s, contrib isOr a x
  | [], args, r, h, hs => by
    simp [collect] at h
    subst h
    exact ⟨hs, fun x => by simp⟩
  | a :: s, args, r, h, hs => by
    rw [collect_cons] at h
    cases hst : step isOr a args with
    | none => rw [hst] at h; cases h
    | some args' =>
      rw [hst] at h
      obtain ⟨hs', hm'⟩ := step_some isOr a args args' hst hs
      obtain ⟨hr, hm⟩ := collect_some isOr s args' r h hs'
      refine ⟨hr, fun x => ?_⟩
      rw [hm x, hm' x]
      simp only [List.mem_cons, exists_eq_or_imp]
      tauto

/-- the first loop of `and_or` only depends on the multiset (in fact the set) of the arguments -/
theorem collect_perm (isOr : Bool) {s₁ s₂ : List B} (hp : s₁.Perm s₂) :
    collect isOr s₁ [] = collect isOr s₂ [] := by
  cases h1 : collect isOr s₁ [] with
  | none =>
    obtain ⟨a, ha, hab⟩ := (collect_none_iff isOr s₁ []).mp h1
    exact ((collect_none_iff isOr s₂ []).mpr ⟨a, hp.mem_iff.mp ha, hab⟩).symm
  | some r₁ =>
    cases h2 : collect isOr s₂ [] with
    | none =>
      obtain ⟨a, ha, hab⟩ := (collect_none_iff isOr s₂ []).mp h2
      rw [(collect_none_iff isOr s₁ []).mpr ⟨a, hp.mem_iff.mpr ha, hab⟩] at h1
      cases h1
    | some r₂ =>
      obtain ⟨hs1, hm1⟩ := collect_some isOr s₁ [] r₁ h1 sorted_nil
      obtain ⟨hs2, hm2⟩ := collect_some isOr s₂ [] r₂ h2 sorted_nil
      congr 1
      apply sorted_ext r₁ r₂ hs1 hs2
      intro x
      rw [hm1 x, hm2 x]
      constructor
      · rintro (h | ⟨a, ha, hc⟩)
        · exact Or.inl h
        · exact Or.inr ⟨a, hp.mem_iff.mp ha, hc⟩
      · rintro (h | ⟨a, ha, hc⟩)
        · exact Or.inl h
        · exact Or.inr ⟨a, hp.mem_iff.mpr ha, hc⟩

/-- `logical_and` / `logical_or` (without the FiniteSet-domain rule) are invariant under permutation
of the arguments -/
theorem andOr_perm_aux (isOr : Bool) {s₁ s₂ : List B} (hp : s₁.Perm s₂) : andOr isOr s₁ = andOr isOr s₂ := by
  unfold andOr
  rw [collect_perm isOr hp]

/-! ### grouping: a nested call of the same connective is flattened -/

theorem collect_append (isOr : Bool) : ∀ (s₁ s₂ args : List B),
    collect isOr (s₁ ++ s₂) args = (match collect isOr s₁ args with
      | none => none
      | some a => collect isOr s₂ a)
  | [], s₂, args => by simp [collect]
  | a :: s₁, s₂, args => by
    rw [List.cons_append, collect_cons, collect_cons]
    cases step isOr a args with
    | none => rfl
    | some args' => exact collect_append isOr s₁ s₂ args'

theorem insAll_sorted {l : List B} (h : Sorted l) : insAll l [] = l := by
  apply sorted_ext _ _ (sorted_insAll l [] sorted_nil) h
  intro x
  simp [mem_insAll]

theorem collect_mono (isOr : Bool) {s args r : List B} (h : collect isOr s args = some r)
    (hs : Sorted args) : ∀ x ∈ args, x ∈ r := fun x hx =>
  ((collect_some isOr s args r h hs).2 x).mpr (Or.inl hx)

theorem hasCompl_mono {l r : List B} (h : ∀ x ∈ l, x ∈ r) (hc : hasCompl l = true) : hasCompl r = true := by
  simp only [hasCompl, List.any_eq_true, decide_eq_true_eq] at hc ⊢
  obtain ⟨a, ha, hn⟩ := hc
  exact ⟨a, h a ha, h _ hn⟩

/-- the 0 / 1 / n result of `and_or` -/
def finishAO (o : Bool) (args : List B) : B :=
  match args with
  | [] => const (!o)
  | [a] => a
  | _ => if o then .or args else .and args

/-- `and_or` after its first loop -/
def tailAO (o : Bool) (c : Option (List B)) : B :=
  match c with
  | none => const o
  | some args => if hasCompl args then const o else finishAO o args

theorem andOr_eq_tail (o : Bool) (s : List B) : andOr o s = tailAO o (collect o s []) := by
  unfold andOr tailAO finishAO
  cases collect o s [] with
  | none => rfl
  | some args =>
    simp only []
    split
    · rfl
    · match args with
      | [] => rfl
      | [a] => rfl
      | a :: b :: t => rfl

/-- `and(and(s₁), s₂…) = and(s₁ ++ s₂)`, same for `or`: the result of a nested call of the same
connective contributes exactly the arguments the flat call collects from `s₁` -/
theorem andOr_flatten_aux (o : Bool) (s₁ s₂ : List B) (h₁ : ∀ a ∈ s₁, wf a = true) :
    andOr o (andOr o s₁ :: s₂) = andOr o (s₁ ++ s₂) := by
  rw [andOr_eq_tail o (andOr o s₁ :: s₂), andOr_eq_tail o (s₁ ++ s₂), collect_cons, collect_append,
    andOr_eq_tail o s₁]
  have habs : step o (const o) [] = none := by cases o <;> simp [step, const]
  cases hc1 : collect o s₁ [] with
  | none =>
    simp only [tailAO, habs]
  | some a₁ =>
    have hinv := collect_inv o s₁ [] h₁ ⟨sorted_nil, by simp⟩ a₁ hc1
    by_cases hcomp : hasCompl a₁ = true
    · simp only [tailAO, hcomp, if_true, habs]
      cases hc2 : collect o s₂ a₁ with
      | none => rfl
      | some a₂ =>
        simp only []
        rw [if_pos (hasCompl_mono (collect_mono o hc2 hinv.1) hcomp)]
    · have hcomp' : hasCompl a₁ = false := by simpa using hcomp
      have hstep : step o (finishAO o a₁) [] = some a₁ := by
        match a₁, hinv with
        | [], _ => cases o <;> simp [finishAO, step, const]
        | [a], hinv =>
          have ha := hinv.2 a List.mem_cons_self
          have hk : sameKind o a = false := ha.2.2
          have hcst : C28.isConst a = false := ha.2.1
          cases a <;> cases o <;>
            simp_all [finishAO, step, sameKind, C28.isConst, C28.isOr, C28.isAnd, ins, insSorted]
        | a :: b :: t, hinv =>
          have := insAll_sorted hinv.1
          cases o <;> simp [finishAO, step, this]
      simp only [tailAO, hcomp', Bool.false_eq_true, if_false, hstep]

theorem andOr_flatten2_aux (o : Bool) (a b c : B) (ha : wf a = true) (hb : wf b = true) :
    andOr o [andOr o [a, b], c] = andOr o [a, b, c] := by
  have := andOr_flatten_aux o [a, b] [c] (by intro x hx; simp at hx; rcases hx with rfl | rfl <;> assumption)
  simpa using this

end SymVerif.C04L
