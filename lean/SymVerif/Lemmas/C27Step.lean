import SymVerif.Lemmas.C27Fs2
import SymVerif.Lemmas.C27Ints

/-! Soundness of one unfolding of the mutually recursive set methods. -/
namespace SymVerif.Sets

/-- what it means for the recursive entry points to be right (partial correctness) -/
structure Sound (r : Ops) : Prop where
  mu : ∀ a b s, WF a → WF b → r.mu a b = .ok s → WF s ∧ ∀ q, mem s q ↔ (mem a q ∨ mem b q)
  mi : ∀ a b s, WF a → WF b → r.mi a b = .ok s → WF s ∧ ∀ q, mem s q ↔ (mem a q ∧ mem b q)
  mc : ∀ a b s, WF a → WF b → r.mc a b = .ok s → WF s ∧ ∀ q, mem s q ↔ (mem b q ∧ ¬ mem a q)
  nu : ∀ l s, WFL l → r.nu l = .ok s → WF s ∧ ∀ q, mem s q ↔ memAny l q
  ni : ∀ l s, WFL l → r.ni l = .ok s → WF s ∧ ∀ q, mem s q ↔ memAll l q

theorem sound_bottom : Sound Ops.bottom := by
  constructor <;> intros <;> simp_all [Ops.bottom]

/-! ### small helpers -/

theorem WFL_mkSS (l : List SetE) : WFL (mkSS l) ↔ WFL l := by
  simp only [WFL_iff, mem_mkSS]

theorem memAny_mkSS (l : List SetE) (q : ℚ) : memAny (mkSS l) q ↔ memAny l q := by
  simp only [memAny_iff, mem_mkSS]

theorem memAll_mkSS (l : List SetE) (q : ℚ) : memAll (mkSS l) q ↔ memAll l q := by
  simp only [memAll_iff, mem_mkSS]

theorem pairUnion_ok {a b s : SetE} (h : makeUnion (mkSS [a, b]) = .ok s) (ha : WF a) (hb : WF b) :
    WF s ∧ ∀ q, mem s q ↔ (mem a q ∨ mem b q) := by
  have hu := makeUnion_ok h
  refine ⟨hu.2 ((WFL_mkSS _).2 ⟨ha, hb, trivial⟩), fun q => ?_⟩
  rw [hu.1 q, memAny_mkSS]; simp [memAny]

theorem pairInter_ok {a b s : SetE} (h : makeInter (mkSS [a, b]) = .ok s) (ha : WF a) (hb : WF b) :
    WF s ∧ ∀ q, mem s q ↔ (mem a q ∧ mem b q) := by
  have hu := makeInter_ok h
  refine ⟨hu.2 ((WFL_mkSS _).2 ⟨ha, hb, trivial⟩), fun q => ?_⟩
  rw [hu.1 q, memAll_mkSS]; simp [memAll]

theorem swap_mu {r : Ops} (hr : Sound r) {a b s : SetE} (h : r.mu b a = .ok s) (ha : WF a) (hb : WF b) :
    WF s ∧ ∀ q, mem s q ↔ (mem a q ∨ mem b q) := by
  have := hr.mu b a s hb ha h
  exact ⟨this.1, fun q => by rw [this.2 q]; exact or_comm⟩

theorem swap_mi {r : Ops} (hr : Sound r) {a b s : SetE} (h : r.mi b a = .ok s) (ha : WF a) (hb : WF b) :
    WF s ∧ ∀ q, mem s q ↔ (mem a q ∧ mem b q) := by
  have := hr.mi b a s hb ha h
  exact ⟨this.1, fun q => by rw [this.2 q]; exact and_comm⟩

theorem ok_inj {s t : SetE} (h : (Except.ok s : Except Err SetE) = .ok t) : s = t := by
  injection h

/-- `mapE` succeeded: the outputs are the images, one by one -/
theorem mapE_ok {α β : Type} {f : α → Except Err β} : ∀ {l : List α} {ys : List β}, mapE f l = .ok ys →
    List.Forall₂ (fun x y => f x = .ok y) l ys
  | [], ys, h => by simp [mapE] at h; subst h; exact List.Forall₂.nil
  | x :: t, ys, h => by
    simp only [mapE, bind, Except.bind] at h
    split at h
    · simp at h
    · rename_i y hy
      split at h
      · simp at h
      · rename_i ys' hys
        simp only [pure, Except.pure, Except.ok.injEq] at h
        subst h
        exact List.Forall₂.cons hy (mapE_ok hys)

theorem forall₂_right {α β : Type} {R : α → β → Prop} {l : List α} {ys : List β} (h : List.Forall₂ R l ys) :
    ∀ y ∈ ys, ∃ x ∈ l, R x y := by
  induction h with
  | nil => simp
  | cons hxy _ ih =>
    intro y hy
    rcases List.mem_cons.1 hy with rfl | hy
    · exact ⟨_, List.mem_cons_self, hxy⟩
    · obtain ⟨x, hx, hr⟩ := ih y hy
      exact ⟨x, List.mem_cons_of_mem _ hx, hr⟩

theorem forall₂_left {α β : Type} {R : α → β → Prop} {l : List α} {ys : List β} (h : List.Forall₂ R l ys) :
    ∀ x ∈ l, ∃ y ∈ ys, R x y := by
  induction h with
  | nil => simp
  | cons hxy _ ih =>
    intro x hx
    rcases List.mem_cons.1 hx with rfl | hx
    · exact ⟨_, List.mem_cons_self, hxy⟩
    · obtain ⟨y, hy, hr⟩ := ih x hx
      exact ⟨y, List.mem_cons_of_mem _ hy, hr⟩

/-- a successful `mapE` of a sound binary method over the members of a container -/
theorem mapE_sem {f : SetE → Except Err SetE} {P : SetE → ℚ → Prop} {l ys : List SetE} (hwl : WFL l)
    (hf : ∀ x y, x ∈ l → WF x → f x = .ok y → WF y ∧ ∀ q, mem y q ↔ P x q) (h : mapE f l = .ok ys) :
    WFL ys ∧ (∀ q, memAny ys q ↔ ∃ x ∈ l, P x q) ∧ (∀ q, memAll ys q ↔ ∀ x ∈ l, P x q) := by
  have h2 := mapE_ok h
  have hr := forall₂_right h2
  have hl := forall₂_left h2
  rw [WFL_iff] at hwl
  refine ⟨?_, fun q => ?_, fun q => ?_⟩
  · rw [WFL_iff]
    intro y hy
    obtain ⟨x, hx, hxy⟩ := hr y hy
    exact (hf x y hx (hwl x hx) hxy).1
  · rw [memAny_iff]
    constructor
    · rintro ⟨y, hy, hq⟩
      obtain ⟨x, hx, hxy⟩ := hr y hy
      exact ⟨x, hx, ((hf x y hx (hwl x hx) hxy).2 q).1 hq⟩
    · rintro ⟨x, hx, hq⟩
      obtain ⟨y, hy, hxy⟩ := hl x hx
      exact ⟨y, hy, ((hf x y hx (hwl x hx) hxy).2 q).2 hq⟩
  · rw [memAll_iff]
    constructor
    · intro hall x hx
      obtain ⟨y, hy, hxy⟩ := hl x hx
      exact ((hf x y hx (hwl x hx) hxy).2 q).1 (hall y hy)
    · intro hall y hy
      obtain ⟨x, hx, hxy⟩ := hr y hy
      exact ((hf x y hx (hwl x hx) hxy).2 q).2 (hall x hx)

/-- a successful left fold with a sound union -/
theorem foldE_mu {r : Ops} (hr : Sound r) : ∀ (l : List SetE) (init s : SetE), WF init → WFL l →
    foldE (fun acc it => r.mu acc it) init l = .ok s → WF s ∧ ∀ q, mem s q ↔ (mem init q ∨ memAny l q)
  | [], init, s, hi, _, h => by
    simp only [foldE, Except.ok.injEq] at h; subst h
    exact ⟨hi, fun q => by simp [memAny]⟩
  | x :: t, init, s, hi, hl, h => by
    simp only [foldE, bind, Except.bind] at h
    split at h
    · simp at h
    · rename_i b hb
      have h1 := hr.mu init x b hi hl.1 hb
      have h2 := foldE_mu hr t b s h1.1 hl.2 h
      refine ⟨h2.1, fun q => ?_⟩
      rw [h2.2 q, h1.2 q]; simp only [memAny]; tauto

/-- a successful left fold with a sound intersection -/
theorem foldE_mi {r : Ops} (hr : Sound r) : ∀ (l : List SetE) (init s : SetE), WF init → WFL l →
    foldE (fun acc it => r.mi acc it) init l = .ok s → WF s ∧ ∀ q, mem s q ↔ (mem init q ∧ memAll l q)
  | [], init, s, hi, _, h => by
    simp only [foldE, Except.ok.injEq] at h; subst h
    exact ⟨hi, fun q => by simp [memAll]⟩
  | x :: t, init, s, hi, hl, h => by
    simp only [foldE, bind, Except.bind] at h
    split at h
    · simp at h
    · rename_i b hb
      have h1 := hr.mi init x b hi hl.1 hb
      have h2 := foldE_mi hr t b s h1.1 hl.2 h
      refine ⟨h2.1, fun q => ?_⟩
      rw [h2.2 q, h1.2 q]; simp only [memAll]; tauto

theorem inNumSet_iff (kind : Nat) (q : ℚ) : inNumSet kind (.fin q) = true ↔ mem (numSet kind) q := by
  unfold inNumSet numSet
  by_cases h0 : kind = 0
  · simp [h0, mem, ENum.isInteger]
  · by_cases h1 : kind = 1
    · simp [h1, mem, ENum.isPosInteger]
    · simp [h0, h1, mem, ENum.isNonnegInteger]

/-- `FiniteSet::set_union(o)` for `o` a number set of integers -/
theorem fsUnionNum_ok (l : List ENum) (kind : Nat) {s : SetE}
    (h : (if (l.filter (fun a => !inNumSet kind a)).isEmpty then (Except.ok (numSet kind) : Except Err SetE)
          else makeUnion (mkSS [numSet kind, finiteset (l.filter (fun a => !inNumSet kind a))])) = .ok s) :
    WF s ∧ ∀ q, mem s q ↔ (ENum.fin q ∈ l ∨ mem (numSet kind) q) := by
  have hwn : WF (numSet kind) := by unfold numSet; split <;> (try split) <;> simp [WF]
  split at h
  · rename_i hemp
    simp only [Except.ok.injEq] at h; subst h
    refine ⟨hwn, fun q => ?_⟩
    constructor
    · exact Or.inr
    · rintro (hq | hq)
      · by_contra hc
        have : ENum.fin q ∈ l.filter (fun a => !inNumSet kind a) := by
          rw [List.mem_filter]
          refine ⟨hq, ?_⟩
          simp only [Bool.not_eq_true']
          cases hin : inNumSet kind (ENum.fin q)
          · rfl
          · exact absurd ((inNumSet_iff kind q).1 hin) hc
        rw [List.isEmpty_iff] at hemp
        rw [hemp] at this
        simp at this
      · exact hq
  · have hu := pairUnion_ok h hwn (WF_finiteset _)
    refine ⟨hu.1, fun q => ?_⟩
    rw [hu.2 q, mem_finiteset, List.mem_filter]
    constructor
    · rintro (hq | hq)
      · exact Or.inr hq
      · exact Or.inl hq.1
    · rintro (hq | hq)
      · by_cases hc : mem (numSet kind) q
        · exact Or.inl hc
        · right
          refine ⟨hq, ?_⟩
          simp only [Bool.not_eq_true']
          cases hin : inNumSet kind (ENum.fin q)
          · rfl
          · exact absurd ((inNumSet_iff kind q).1 hin) hc
      · exact Or.inl hq

/-! ### `Union::set_union`, `Intersection::set_intersection` member loops -/

theorem memAny_erase_insert {temp it o : SetE} {container : List SetE} (hit : it ∈ container) (q : ℚ)
    (ht : mem temp q ↔ (mem o q ∨ mem it q)) :
    memAny (insertK SetE.hash temp (eraseK it container)) q ↔ (mem o q ∨ memAny container q) := by
  simp only [memAny_iff, mem_insertK soundBEq_SetE, exists_eq_or_imp, ht]
  constructor
  · rintro ((h | h) | ⟨x, hx, hq⟩)
    · exact Or.inl h
    · exact Or.inr ⟨it, hit, h⟩
    · exact Or.inr ⟨x, mem_eraseK_imp _ _ _ hx, hq⟩
  · rintro (h | ⟨x, hx, hq⟩)
    · exact Or.inl (Or.inl h)
    · rcases mem_of_eraseK soundBEq_SetE it x container hx with rfl | hx'
      · exact Or.inl (Or.inr hq)
      · exact Or.inr ⟨x, hx', hq⟩

theorem memAll_erase_insert {temp it o : SetE} {container : List SetE} (hit : it ∈ container) (q : ℚ)
    (ht : mem temp q ↔ (mem o q ∧ mem it q)) :
    memAll (insertK SetE.hash temp (eraseK it container)) q ↔ (mem o q ∧ memAll container q) := by
  simp only [memAll_iff, mem_insertK soundBEq_SetE, forall_eq_or_imp, ht]
  constructor
  · rintro ⟨⟨h1, h2⟩, h3⟩
    refine ⟨h1, fun x hx => ?_⟩
    rcases mem_of_eraseK soundBEq_SetE it x container hx with rfl | hx'
    · exact h2
    · exact h3 x hx'
  · rintro ⟨h1, h2⟩
    exact ⟨⟨h1, h2 it hit⟩, fun x hx => h2 x (mem_eraseK_imp _ _ _ hx)⟩

theorem WFL_erase_insert {temp it : SetE} {container : List SetE} (hc : WFL container) (ht : WF temp) :
    WFL (insertK SetE.hash temp (eraseK it container)) := by
  rw [WFL_iff] at hc ⊢
  intro x hx
  rcases (mem_insertK soundBEq_SetE _ _ _ _).1 hx with rfl | hx
  · exact ht
  · exact hc x (mem_eraseK_imp _ _ _ hx)

theorem WFL_insertK {o : SetE} {container : List SetE} (hc : WFL container) (ho : WF o) :
    WFL (insertK SetE.hash o container) := by
  rw [WFL_iff] at hc ⊢
  intro x hx
  rcases (mem_insertK soundBEq_SetE _ _ _ _).1 hx with rfl | hx
  · exact ho
  · exact hc x hx

theorem unionLoop_ok {r : Ops} (hr : Sound r) (o : SetE) (container : List SetE) (ho : WF o)
    (hc : WFL container) : ∀ (rest : List SetE) (s : SetE), (∀ x ∈ rest, x ∈ container) →
    unionLoop r o container rest = .ok s → WF s ∧ ∀ q, mem s q ↔ (mem o q ∨ memAny container q)
  | [], s, _, h => by
    simp only [unionLoop] at h
    have hu := makeUnion_ok h
    refine ⟨hu.2 (WFL_insertK hc ho), fun q => ?_⟩
    rw [hu.1 q]
    simp only [memAny_iff, mem_insertK soundBEq_SetE, exists_eq_or_imp]
  | it :: rest, s, hsub, h => by
    simp only [unionLoop, bind, Except.bind] at h
    split at h
    · simp at h
    · rename_i temp htemp
      have hit : it ∈ container := hsub it List.mem_cons_self
      have hwit : WF it := (WFL_iff container).1 hc it hit
      have ht := hr.mu o it temp ho hwit htemp
      split at h
      · have hn := hr.nu _ s (WFL_erase_insert hc ht.1) h
        refine ⟨hn.1, fun q => ?_⟩
        rw [hn.2 q]
        exact memAny_erase_insert hit q (ht.2 q)
      · exact unionLoop_ok hr o container ho hc rest s (fun x hx => hsub x (List.mem_cons_of_mem _ hx)) h

theorem interLoop_ok {r : Ops} (hr : Sound r) (o : SetE) (container : List SetE) (ho : WF o)
    (hc : WFL container) : ∀ (rest : List SetE) (s : SetE), (∀ x ∈ rest, x ∈ container) →
    interLoop r o container rest = .ok s → WF s ∧ ∀ q, mem s q ↔ (mem o q ∧ memAll container q)
  | [], s, _, h => by
    simp only [interLoop] at h
    have hu := makeInter_ok h
    refine ⟨hu.2 (WFL_insertK hc ho), fun q => ?_⟩
    rw [hu.1 q]
    simp only [memAll_iff, mem_insertK soundBEq_SetE, forall_eq_or_imp]
  | it :: rest, s, hsub, h => by
    simp only [interLoop, bind, Except.bind] at h
    split at h
    · simp at h
    · rename_i temp htemp
      have hit : it ∈ container := hsub it List.mem_cons_self
      have hwit : WF it := (WFL_iff container).1 hc it hit
      have ht := hr.mi o it temp ho hwit htemp
      split at h
      · simp at h
      · split at h
        · have hn := hr.ni _ s (WFL_erase_insert hc ht.1) h
          refine ⟨hn.1, fun q => ?_⟩
          rw [hn.2 q]
          exact memAll_erase_insert hit q (ht.2 q)
        · exact interLoop_ok hr o container ho hc rest s (fun x hx => hsub x (List.mem_cons_of_mem _ hx)) h

/-! ### `set_union` -/

set_option hygiene false in
/-- closes the routine branches of `muStep_sound` -/
macro "fin_mu" : tactic => `(tactic| first
  | exact pairUnion_ok h ha hb
  | exact swap_mu hr h ha hb
  | (cases ok_inj h
     exact ⟨by first | exact ha | exact hb | simp [WF], fun q => by simp only [mem]; grind⟩))

theorem muStep_sound {r : Ops} (hr : Sound r) (a b s : SetE) (ha : WF a) (hb : WF b)
    (h : muStep r a b = .ok s) : WF s ∧ ∀ q, mem s q ↔ (mem a q ∨ mem b q) := by
  cases a with
  | empty => cases b <;> simp only [muStep] at h <;> fin_mu
  | univ => cases b <;> simp only [muStep] at h <;> fin_mu
  | reals => cases b <;> simp only [muStep] at h <;> fin_mu
  | rats => cases b <;> simp only [muStep] at h <;> fin_mu
  | ints => cases b <;> simp only [muStep] at h <;> fin_mu
  | nats => cases b <;> simp only [muStep] at h <;> fin_mu
  | nats0 => cases b <;> simp only [muStep] at h <;> fin_mu
  | iv s1 e1 lo1 ro1 =>
    cases b with
    | iv s2 e2 lo2 ro2 =>
      simp only [muStep] at h
      have := ivUnionIv_ok s1 e1 lo1 ro1 s2 e2 lo2 ro2 (by simpa [WF] using ha) (by simpa [WF] using hb) h
      simpa only [mem] using this
    | _ => simp only [muStep] at h <;> fin_mu
  | fs l =>
    cases b with
    | fs l2 =>
      simp only [muStep] at h
      cases ok_inj h
      exact ⟨WF_finiteset _, fun q => by simp only [mem_finiteset, mem_insertAllSB, mem]⟩
    | iv s2 e2 lo2 ro2 =>
      simp only [muStep] at h
      have := fsUnionIv_ok l s2 e2 lo2 ro2 (by simpa [WF] using hb) h
      simpa only [mem] using this
    | ints =>
      simp only [muStep] at h
      have := fsUnionNum_ok l 0 h
      have hk : numSet 0 = .ints := rfl
      rw [hk] at this
      simpa only [mem] using this
    | nats =>
      simp only [muStep] at h
      have := fsUnionNum_ok l 1 h
      have hk : numSet 1 = .nats := rfl
      rw [hk] at this
      simpa only [mem] using this
    | nats0 =>
      simp only [muStep] at h
      have := fsUnionNum_ok l 2 h
      have hk : numSet 2 = .nats0 := rfl
      rw [hk] at this
      simpa only [mem] using this
    | _ => simp only [muStep] at h <;> fin_mu
  | un c =>
    simp only [muStep] at h
    have := unionLoop_ok hr b c hb (by simp only [WF] at ha; exact ha.2) c s (fun x hx => hx) h
    exact ⟨this.1, fun q => by rw [this.2 q]; simp only [mem]; exact or_comm⟩
  | inter c =>
    simp only [muStep, bind, Except.bind] at h
    split at h
    · simp at h
    · rename_i parts hparts
      have hm := mapE_sem (P := fun x q => mem x q ∨ mem b q) (by simpa [WF] using ha)
        (fun x y _ hx hxy => hr.mu x b y hx hb hxy) hparts
      have hn := hr.ni _ s ((WFL_mkSS _).2 hm.1) h
      refine ⟨hn.1, fun q => ?_⟩
      rw [hn.2 q, memAll_mkSS, hm.2.2 q]
      simp only [mem, memAll_iff]
      constructor
      · intro hall
        by_cases hbq : mem b q
        · exact Or.inr hbq
        · exact Or.inl (fun x hx => (hall x hx).resolve_right hbq)
      · rintro (hall | hbq) x hx
        · exact Or.inl (hall x hx)
        · exact Or.inr hbq
  | co u c => simp [muStep] at h

end SymVerif.Sets
