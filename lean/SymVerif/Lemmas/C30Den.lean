import Mathlib.Algebra.Order.Ring.Int
import SymVerif.Lemmas.C30Alg
/-!
C30 — denotation of returned expression trees in a field with a root function, and soundness of the
evaluator `toRP` (Model/SolveCert.lean):  `toRP e = some p → den e = ev p`.

`rt d x` is *any* function with `rt d x ^ d = x` (e.g. the principal `d`-th root in ℂ); an expression
`b ^ (n/d)` denotes `(rt d b) ^ n`, `b ^ n` denotes the integer power, the imaginary unit is `rt 2 (-1)`.
-/
namespace SymVerif.C30
open SymVerif SymVerif.Solve SymVerif.Solve.RP

variable {K : Type*} [Field K] [CharZero K]

/-- `x ^ e` for an exponent expression -/
def powDen (rt : ℕ → K → K) (x : K) : Expr → K
  | .int n => x ^ n
  | .rat n d => (rt d x) ^ n
  | _ => 0

mutual
  /-- the number denoted by an expression tree (0 outside the arithmetic fragment) -/
  def den (rt : ℕ → K → K) : Expr → K
    | .int n => (n : K)
    | .rat n d => ((mkRat n d : ℚ) : K)
    | .cplx re im => ((qToRat re : ℚ) : K) + ((qToRat im : ℚ) : K) * rt 2 (-1)
    | .add c ts => den rt c + denSum rt ts
    | .mul c fs => den rt c * denProd rt fs
    | .pow b e => powDen rt (den rt b) e
    | _ => 0
  def denSum (rt : ℕ → K → K) : List (Expr × Expr) → K
    | [] => 0
    | (k, v) :: t => den rt k * den rt v + denSum rt t
  def denProd (rt : ℕ → K → K) : List (Expr × Expr) → K
    | [] => 1
    | (b, e) :: t => powDen rt (den rt b) e * denProd rt t
end

/-- the square-root function on rationals induced by `rt` -/
def sqOf (rt : ℕ → K → K) : ℚ → K := fun r => rt 2 (r : K)

variable (rt : ℕ → K → K) (hrt : ∀ (d : ℕ) (x : K), d ≠ 0 → rt d x ^ d = x)

include hrt in
theorem sqOf_mul_self (r : ℚ) : sqOf rt r * sqOf rt r = (r : K) := by
  have := hrt 2 (r : K) (by norm_num)
  simpa [sqOf, pow_two] using this

theorem ratLit_sound (b : Expr) (r : ℚ) (h : ratLit b = some r) : den rt b = (r : K) := by
  cases b <;> simp [ratLit] at h
  · subst h; simp [den]
  · subst h; simp [den]

include hrt in
theorem powVal_sound (x : K) (pb : Option RP) (lit : Option ℚ) (e : Expr) (q : RP)
    (hpb : ∀ p, pb = some p → x = ev (sqOf rt) p)
    (hlit : ∀ r, lit = some r → x = (r : K))
    (h : powVal pb lit e = some q) : powDen rt x e = ev (sqOf rt) q := by
  have hsq := sqOf_mul_self rt hrt
  cases e with
  | int n =>
    simp only [powVal] at h
    split at h
    · rename_i hn
      cases pb with
      | none => simp at h
      | some p =>
        simp only [Option.map_some, Option.some.injEq] at h
        subst h
        rw [ev_pow _ hsq, ← hpb p rfl]
        simp only [powDen]
        conv_lhs => rw [← Int.toNat_of_nonneg hn]
        exact zpow_natCast x _
    · rename_i hn
      cases pb with
      | none => simp at h
      | some p =>
        cases hi : inv? p with
        | none => simp [hi] at h
        | some i =>
          simp only [hi, Option.bind_eq_bind, Option.bind_some, Option.pure_def, Option.some.injEq] at h
          subst h
          have hinv := invQ_sound _ hsq p i hi
          rw [← hpb p rfl] at hinv
          rw [ev_pow _ hsq]
          have hi' : ev (sqOf rt) i = x⁻¹ := (eq_inv_of_mul_eq_one_right hinv)
          rw [hi']
          simp only [powDen]
          have hneg : n = -(((-n).toNat : ℕ) : ℤ) := by
            have : 0 ≤ -n := by omega
            rw [Int.toNat_of_nonneg this]; ring
          conv_lhs => rw [hneg]
          rw [zpow_neg, zpow_natCast, inv_pow]
  | rat n d =>
    cases lit with
    | none => simp [powVal] at h
    | some r =>
      by_cases hc : d ≠ 2 ∨ r = 0 ∨ n % 2 ≠ 1
      · simp only [powVal, if_pos hc] at h
        exact absurd h (by simp)
      · simp only [powVal, if_neg hc, Option.some.injEq] at h
        subst h
        push_neg at hc
        obtain ⟨hd, hr0, hodd⟩ := hc
        subst hd
        have hx := hlit r rfl
        rw [ev_mul _ hsq, ev_atom, ev_ofRat]
        simp only [powDen]
        have hr0' : (r : K) ≠ 0 := by exact_mod_cast hr0
        have hsq2 : sqOf rt r ^ 2 = (r : K) := by rw [pow_two]; exact hsq r
        have hs0 : sqOf rt r ≠ 0 := by
          intro h0
          rw [h0] at hsq2
          exact hr0' (by rw [← hsq2]; simp)
        have hk : n = 2 * ((n - 1) / 2) + 1 := by omega
        have hpow : sqOf rt r ^ n = sqOf rt r * (r : K) ^ ((n - 1) / 2) := by
          conv_lhs => rw [hk]
          rw [zpow_add₀ hs0, zpow_one, zpow_mul, zpow_ofNat, hsq2, mul_comm]
        rw [hx]
        change sqOf rt r ^ n = _
        rw [hpow]
        congr 1
        split_ifs with hk0
        · push_cast
          rw [← zpow_natCast, Int.toNat_of_nonneg hk0]
          exact (Rat.cast_zpow r _).symm
        · push_cast
          have h0 : 0 ≤ -((n - 1) / 2) := by omega
          rw [one_div, inv_pow, ← zpow_natCast, Int.toNat_of_nonneg h0, ← zpow_neg, neg_neg]
          exact (Rat.cast_zpow r _).symm
  | _ => simp [powVal] at h

include hrt in
mutual
  theorem toRP_sound : ∀ (e : Expr) (p : RP), toRP e = some p → den rt e = ev (sqOf rt) p
    | .int n, p, h => by
      simp only [toRP, Option.some.injEq] at h; subst h; simp [den]
    | .rat n d, p, h => by
      simp only [toRP, Option.some.injEq] at h; subst h; simp [den]
    | .cplx re im, p, h => by
      simp only [toRP, Option.some.injEq] at h; subst h
      rw [ev_add, ev_mul _ (sqOf_mul_self rt hrt), ev_ofRat, ev_ofRat, ev_atom]
      simp [den, sqOf]
    | .add c ts, p, h => by
      simp only [toRP] at h
      cases hc : toRP c with
      | none => simp [hc] at h
      | some pc =>
        cases hs : sumTerms ts with
        | none => simp [hc, hs] at h
        | some ps =>
          simp only [hc, hs, Option.bind_eq_bind, Option.bind_some, Option.pure_def, Option.some.injEq] at h
          subst h
          rw [ev_add, ← toRP_sound c pc hc, ← sumTerms_sound ts ps hs]
          simp [den]
    | .mul c fs, p, h => by
      simp only [toRP] at h
      cases hc : toRP c with
      | none => simp [hc] at h
      | some pc =>
        cases hs : prodFacs fs with
        | none => simp [hc, hs] at h
        | some ps =>
          simp only [hc, hs, Option.bind_eq_bind, Option.bind_some, Option.pure_def, Option.some.injEq] at h
          subst h
          rw [ev_mul _ (sqOf_mul_self rt hrt), ← toRP_sound c pc hc, ← prodFacs_sound fs ps hs]
          simp [den]
    | .pow b e, p, h => by
      simp only [toRP] at h
      simp only [den]
      exact powVal_sound rt hrt (den rt b) (toRP b) (ratLit b) e p
        (fun p' hp' => toRP_sound b p' hp') (fun r hr => ratLit_sound rt b r hr) h
    | .dbl _, _, h | .cdbl _ _, _, h | .infty _, _, h | .nan, _, h | .sym _, _, h | .dummy _ _, _, h
    | .const _, _, h | .fsym _ _, _, h | .app _ _, _, h | .bool _, _, h => by simp [toRP] at h
  theorem sumTerms_sound : ∀ (ts : List (Expr × Expr)) (p : RP), sumTerms ts = some p →
      denSum rt ts = ev (sqOf rt) p
    | [], p, h => by
      simp only [sumTerms, Option.some.injEq] at h; subst h; simp [denSum]
    | (k, v) :: t, p, h => by
      simp only [sumTerms] at h
      cases hk : toRP k with
      | none => simp [hk] at h
      | some pk =>
        cases hv : toRP v with
        | none => simp [hk, hv] at h
        | some pv =>
          cases ht : sumTerms t with
          | none => simp [hk, hv, ht] at h
          | some pt =>
            simp only [hk, hv, ht, Option.bind_eq_bind, Option.bind_some, Option.pure_def,
              Option.some.injEq] at h
            subst h
            rw [ev_add, ev_mul _ (sqOf_mul_self rt hrt), ← toRP_sound k pk hk, ← toRP_sound v pv hv,
              ← sumTerms_sound t pt ht]
            simp [denSum]
  theorem prodFacs_sound : ∀ (fs : List (Expr × Expr)) (p : RP), prodFacs fs = some p →
      denProd rt fs = ev (sqOf rt) p
    | [], p, h => by
      simp only [prodFacs, Option.some.injEq] at h; subst h; simp [denProd]
    | (b, e) :: t, p, h => by
      simp only [prodFacs] at h
      cases hx : powVal (toRP b) (ratLit b) e with
      | none => simp [hx] at h
      | some px =>
        cases ht : prodFacs t with
        | none => simp [hx, ht] at h
        | some pt =>
          simp only [hx, ht, Option.bind_eq_bind, Option.bind_some, Option.pure_def, Option.some.injEq] at h
          subst h
          rw [ev_mul _ (sqOf_mul_self rt hrt), ← prodFacs_sound t pt ht]
          simp only [denProd]
          congr 1
          exact powVal_sound rt hrt (den rt b) (toRP b) (ratLit b) e px
            (fun p' hp' => toRP_sound b p' hp') (fun r hr => ratLit_sound rt b r hr) hx
end

end SymVerif.C30
