import SymVerif.Lemmas.C33Nat
/-! State invariant of the sieve model and the effect of `push`, `clear`, `markSlice`. -/
namespace SymVerif.C33
open SymVerif.Sieve

/-- The invariant of the process-global sieve state: the whole storage `buf` — including the
stale region `[size, buf.size)` left behind by `clear` — is a prefix of the increasing
enumeration of the primes, the logical size is between 10 and the storage size, and the
segment size is positive. -/
structure Inv (s : State) : Prop where
  size_le : s.size ≤ s.buf.size
  ten_le : 10 ≤ s.size
  nth : ∀ i, i < s.buf.size → s.buf[i]? = some (np i)
  bits : 0 < s.sieveBits

theorem Inv.get {s : State} (h : Inv s) {i : Nat} (hi : i < s.buf.size) : s.get i = np i := by
  simp [State.get, h.nth i hi]

theorem Inv.back {s : State} (h : Inv s) : s.back = np (s.size - 1) := by
  have := h.size_le; have := h.ten_le
  simp [State.back, h.nth (s.size - 1) (by omega)]

theorem Inv.size_eq_cnt {s : State} (h : Inv s) : s.size = cnt (s.back + 1) := by
  have := h.ten_le
  rw [h.back, cnt_np_succ]; omega

theorem Inv.back_ge {s : State} (h : Inv s) : 29 ≤ s.back := by
  have := h.ten_le
  rw [h.back]
  have h9 : np 9 = 29 := by simpa using np_table 9 (by omega)
  have := np_le_np (show 9 ≤ s.size - 1 by omega)
  omega

theorem Inv.back_odd {s : State} (h : Inv s) : s.back % 2 = 1 := by
  have := h.ten_le
  rw [h.back]; exact np_odd (by omega)

theorem inv_init : Inv init := by
  refine ⟨by decide, by decide, ?_, by decide⟩
  intro i hi
  have hi' : i < 10 := hi
  rw [np_table i hi']
  have : i = 0 ∨ i = 1 ∨ i = 2 ∨ i = 3 ∨ i = 4 ∨ i = 5 ∨ i = 6 ∨ i = 7 ∨ i = 8 ∨ i = 9 := by omega
  rcases this with rfl | rfl | rfl | rfl | rfl | rfl | rfl | rfl | rfl | rfl <;> rfl

theorem inv_clear {s : State} (h : Inv s) : Inv s.clear := by
  have := h.size_le; have := h.ten_le
  refine ⟨?_, ?_, h.nth, h.bits⟩
  · show min s.size 10 ≤ s.buf.size; omega
  · show 10 ≤ min s.size 10; omega

/-- `push_back` of the next prime: the storage stays a prefix of the prime enumeration (a stale
slot is overwritten with the value it already holds). -/
theorem inv_push {s : State} (h : Inv s) {n : Nat} (hp : n.Prime) (hc : s.size = cnt n) :
    Inv (s.push n) ∧ (s.push n).size = cnt (n + 1) ∧ (s.push n).sieveBits = s.sieveBits ∧
    (s.push n).clearFlag = s.clearFlag ∧ s.buf.size ≤ (s.push n).buf.size := by
  have hle := h.size_le
  have hn : np s.size = n := by rw [hc, np_cnt hp]
  unfold State.push
  split
  · rename_i hlt
    refine ⟨⟨?_, ?_, ?_, h.bits⟩, ?_, rfl, rfl, ?_⟩
    · simp; omega
    · have := h.ten_le; simp; omega
    · intro i hi
      simp only [Array.set!_eq_setIfInBounds, Array.size_setIfInBounds] at hi
      simp only [Array.set!_eq_setIfInBounds, Array.getElem?_setIfInBounds]
      split
      · rename_i he; subst he; simp [hlt, hn]
      · exact h.nth i hi
    · simp [cnt_succ_prime hp, hc]
    · simp
  · rename_i hlt
    have heq : s.size = s.buf.size := by omega
    refine ⟨⟨?_, ?_, ?_, h.bits⟩, ?_, rfl, rfl, ?_⟩
    · simp; omega
    · have := h.ten_le; simp; omega
    · intro i hi
      simp only [Array.size_push] at hi
      rw [Array.getElem?_push]
      split
      · rename_i he; subst he; rw [← heq, hn]
      · exact h.nth i (by omega)
    · simp [cnt_succ_prime hp, hc]
    · simp

end SymVerif.C33
