import SymVerif.Model.Logic
import Mathlib.Data.List.Lex
/-!
The container order of the model (`B.lt`, through the prefix code `enc`) is a strict total order, hence the
sorted duplicate-free argument lists are canonical representatives of finite sets (what `std::set` with
`RCPBasicKeyLess` provides in the C++).
-/
namespace SymVerif.C28
open SymVerif.Logic SymVerif.Logic.B

theorem encInt_inj {a b : Int} (h : encInt a = encInt b) : a = b := by
  unfold encInt at h
  split at h <;> split at h <;> omega

theorem encInts_inj_aux : ∀ (l m : List Int) (r1 r2 : List Nat), encInts l ++ r1 = encInts m ++ r2 → l = m ∧ r1 = r2
  | [], m, r1, r2 => by cases m <;> simp [encInts]
  | a :: l, m, r1, r2 => by
    cases m with
    | nil => simp [encInts]
    | cons b m =>
      simp only [encInts, List.cons_append, List.cons.injEq, true_and]
      rintro ⟨h1, h2⟩
      obtain ⟨h3, h4⟩ := encInts_inj_aux l m _ _ h2
      exact ⟨⟨encInt_inj h1, h3⟩, h4⟩

mutual
theorem enc_inj_aux : ∀ (a b : B) (r1 r2 : List Nat), enc a ++ r1 = enc b ++ r2 → a = b ∧ r1 = r2
  | .tt, b, r1, r2 => by cases b <;> simp [enc]
  | .ff, b, r1, r2 => by cases b <;> simp [enc]
  | .rel i n, b, r1, r2 => by
    cases b <;> simp [enc]
    rename_i j m
    intro h1 h2 h3
    refine ⟨⟨h1, ?_⟩, h3⟩
    cases n <;> cases m <;> simp_all
  | .mem i, b, r1, r2 => by cases b <;> simp [enc]
  | .fs l, b, r1, r2 => by
    cases b <;> simp [enc]
    exact encInts_inj_aux l _ r1 r2
  | .and l, b, r1, r2 => by
    cases b <;> simp [enc]
    exact encL_inj_aux l _ r1 r2
  | .or l, b, r1, r2 => by
    cases b <;> simp [enc]
    exact encL_inj_aux l _ r1 r2
  | .xor l, b, r1, r2 => by
    cases b <;> simp [enc]
    exact encL_inj_aux l _ r1 r2
  | .not a, b, r1, r2 => by
    cases b <;> simp [enc]
    exact enc_inj_aux a _ r1 r2
theorem encL_inj_aux : ∀ (l m : List B) (r1 r2 : List Nat), encL l ++ r1 = encL m ++ r2 → l = m ∧ r1 = r2
  | [], m, r1, r2 => by cases m <;> simp [encL]
  | a :: l, m, r1, r2 => by
    cases m with
    | nil => simp [encL]
    | cons b m =>
      simp only [encL, List.cons_append, List.append_assoc, List.cons.injEq, true_and]
      intro h
      obtain ⟨h1, h2⟩ := enc_inj_aux a b _ _ h
      obtain ⟨h3, h4⟩ := encL_inj_aux l m _ _ h2
      exact ⟨⟨h1, h3⟩, h4⟩
end

theorem enc_inj {a b : B} (h : enc a = enc b) : a = b := by
  have := enc_inj_aux a b [] [] (by simpa using h)
  exact this.1

theorem lt_iff (a b : B) : B.lt a b = true ↔ enc a < enc b := by simp [B.lt]

theorem lt_irrefl' (a : B) : B.lt a a = false := by
  cases h : B.lt a a
  · rfl
  · exact absurd ((lt_iff a a).1 h) (lt_irrefl _)

theorem lt_trans' {a b c : B} (h1 : B.lt a b = true) (h2 : B.lt b c = true) : B.lt a c = true :=
  (lt_iff a c).2 (lt_trans ((lt_iff a b).1 h1) ((lt_iff b c).1 h2))

theorem lt_total' {a b : B} (hne : a ≠ b) (h : ¬ B.lt a b = true) : B.lt b a = true := by
  rcases lt_trichotomy (enc a) (enc b) with h1 | h1 | h1
  · exact absurd ((lt_iff a b).2 h1) h
  · exact absurd (enc_inj h1) hne
  · exact (lt_iff b a).2 h1

theorem lt_ne {a b : B} (h : B.lt a b = true) : a ≠ b := by
  rintro rfl
  rw [lt_irrefl'] at h
  cases h

/-- strictly sorted (= a `std::set` in iteration order) -/
def Sorted (l : List B) : Prop := l.Pairwise (fun a b => B.lt a b = true)

theorem sorted_nil : Sorted [] := List.Pairwise.nil

theorem sorted_insSorted (a : B) : ∀ l, Sorted l → a ∉ l → Sorted (insSorted a l)
  | [], _, _ => by simp [insSorted, Sorted]
  | b :: t, hs, hn => by
    unfold Sorted at hs
    rw [List.pairwise_cons] at hs
    unfold insSorted
    split
    · rename_i hab
      unfold Sorted
      rw [List.pairwise_cons]
      refine ⟨?_, List.pairwise_cons.2 hs⟩
      intro x hx
      rcases List.mem_cons.1 hx with rfl | hx
      · exact hab
      · exact lt_trans' hab (hs.1 x hx)
    · rename_i hab
      have hne : a ≠ b := fun h => hn (h ▸ List.mem_cons_self)
      have hnt : a ∉ t := fun h => hn (List.mem_cons_of_mem _ h)
      unfold Sorted
      rw [List.pairwise_cons]
      refine ⟨?_, sorted_insSorted a t hs.2 hnt⟩
      intro x hx
      have : x = a ∨ x ∈ t := by
        clear hs hn hnt
        induction t with
        | nil => simpa [insSorted] using hx
        | cons c t ih =>
          unfold insSorted at hx
          split at hx
          · simpa using hx
          · rcases List.mem_cons.1 hx with rfl | hx
            · exact Or.inr List.mem_cons_self
            · rcases ih hx with h | h
              · exact Or.inl h
              · exact Or.inr (List.mem_cons_of_mem _ h)
      rcases this with rfl | hx
      · exact lt_total' hne hab
      · exact hs.1 x hx

theorem sorted_ins (a : B) (l : List B) (hs : Sorted l) : Sorted (ins a l) := by
  unfold ins
  split
  · exact hs
  · rename_i h
    exact sorted_insSorted a l hs h

theorem sorted_insAll : ∀ (s acc : List B), Sorted acc → Sorted (insAll s acc)
  | [], acc, h => by simpa [insAll] using h
  | a :: s, acc, h => by
    simp only [insAll]
    exact sorted_insAll s _ (sorted_ins a acc h)

theorem sorted_erase (a : B) (l : List B) (hs : Sorted l) : Sorted (l.erase a) :=
  List.Pairwise.sublist List.erase_sublist hs

theorem sorted_ext : ∀ (l r : List B), Sorted l → Sorted r → (∀ x, x ∈ l ↔ x ∈ r) → l = r
  | [], [], _, _, _ => rfl
  | [], b :: r, _, _, h => by have := (h b).2 List.mem_cons_self; simp at this
  | a :: l, [], _, _, h => by have := (h a).1 List.mem_cons_self; simp at this
  | a :: l, b :: r, hl, hr, h => by
    unfold Sorted at hl hr
    rw [List.pairwise_cons] at hl hr
    have hab : a = b := by
      by_contra hne
      have h1 : a ∈ r := by
        rcases List.mem_cons.1 ((h a).1 List.mem_cons_self) with h1 | h1
        · exact absurd h1 hne
        · exact h1
      have h2 : b ∈ l := by
        rcases List.mem_cons.1 ((h b).2 List.mem_cons_self) with h2 | h2
        · exact absurd h2.symm hne
        · exact h2
      have := lt_trans' (hl.1 b h2) (hr.1 a h1)
      rw [lt_irrefl'] at this
      cases this
    subst hab
    have : l = r := by
      apply sorted_ext l r hl.2 hr.2
      intro x
      constructor
      · intro hx
        rcases List.mem_cons.1 ((h x).1 (List.mem_cons_of_mem _ hx)) with h1 | h1
        · exact absurd h1 (lt_ne (hl.1 x hx)).symm
        · exact h1
      · intro hx
        rcases List.mem_cons.1 ((h x).2 (List.mem_cons_of_mem _ hx)) with h1 | h1
        · exact absurd h1 (lt_ne (hr.1 x hx)).symm
        · exact h1
    rw [this]

end SymVerif.C28
