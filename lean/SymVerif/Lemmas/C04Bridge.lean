/-
C04: the natural operand predicate implies the one used by the Add theorems:
an exact expression that satisfies the C03 invariant (`inv`, i.e. what the library's constructors
produce) and is a safe summand (`addOperandSafe`) has a normal representation from which
`Add::from_dict` rebuilds it (`addOperandOK`).
-/
import SymVerif.Lemmas.C03Add
import SymVerif.Lemmas.C04Add

namespace SymVerif.AC
open SymVerif SymVerif.Arith

theorem exactPairs_iff : ∀ l : List (Expr × Expr),
    exactPairs l = true ↔ ∀ p ∈ l, exact p.1 = true ∧ exact p.2 = true
  | [] => by simp [exactPairs]
  | (k, v) :: t => by simp [exactPairs, exactPairs_iff t, and_assoc]

theorem exOK_of_numOK_exact {v : Expr} (h : NumOK v) (hx : exact v = true) : ExOK v := by
  refine ⟨?_, h.2⟩
  have := h.1
  cases v <;> simp_all [Expr.isNum, exact, isExactNum]

theorem gq_ne_of_nz {v : Expr} (h : ExOK v) (hz : numIsZero v = false) : gq v ≠ 0 := by
  intro h0
  rw [(numIsZero_iff h).mpr h0] at hz
  cases hz

/-- a key of an invariant Add dictionary is a legal term, once exact and not itself a sum -/
theorem termOK_of_key {t : Expr} (hk : AddKeyOK t) (hx : exact t = true) (hna : isAdd t = false) :
    termOK t = true := by
  have hn := hk.notNum
  unfold termOK
  simp only [hx, hn, hna, Bool.not_false, Bool.and_self, Bool.true_and]
  cases t with
  | mul c fs =>
    obtain ⟨h1, _, h3, _, _⟩ := inv_mul_iff.mp hk.inv
    have hone : numIsOne c = true := hk.mulOne c fs rfl
    have hc : c = .int 1 := numIsOne_canon (inv_canon h1) hone
    subst hc
    unfold mulCanonTop at h3
    simp only [Bool.and_eq_true, Bool.or_eq_true, bne_iff_ne, ne_eq, Bool.not_eq_true'] at h3
    obtain ⟨⟨⟨_, h0⟩, h1'⟩, _⟩ := h3
    have : fs.length ≠ 1 := by
      rcases h1' with h | h
      · exact h
      · simp [numIsOne] at h
    simp [isIntLit]
    omega
  | pow b e =>
    obtain ⟨_, _, h3, _⟩ := inv_pow_iff.mp hk.inv
    unfold powCanonTop at h3
    split at h3
    · have : e.isNum = false := by simpa using h3
      cases e <;> simp_all [isIntLit, Expr.isNum]
    · simp only [Bool.and_eq_true, Bool.not_eq_true'] at h3
      simp [h3.1.1.1.1.1.2]
  | _ => rfl

/-- an invariant, exact, safe sum -/
theorem AOK_add {c : Expr} {ts : Dict} (hi : inv (.add c ts) = true) (hx : exact (.add c ts) = true)
    (hs : addOperandSafe (.add c ts) = true) : AOK (.add c ts) := by
  obtain ⟨hc, hd, hno⟩ := inv_add_dict hi
  simp only [exact, Bool.and_eq_true] at hx
  have hxp := (exactPairs_iff ts).mp hx.2
  simp only [addOperandSafe, List.all_eq_true, Bool.not_eq_true'] at hs
  have hcx := exOK_of_numOK_exact hc hx.1
  refine ⟨⟨hcx, ⟨hd.sorted, ?_⟩, ?_⟩, ?_⟩
  · intro p hp
    have he := hd.ent p hp
    have hv := exOK_of_numOK_exact he.num (hxp p hp).2
    exact ⟨hv, gq_ne_of_nz hv he.nz⟩
  · intro p hp
    have he := hd.ent p hp
    rcases he.key with e | hk
    · exact absurd e (hno p hp)
    · exact termOK_of_key hk (hxp p hp).1 (hs p hp)
  · show addFromDict c ts = .ok (.add c ts)
    obtain ⟨_, _, h3, _⟩ := inv_add_iff.mp hi
    unfold addCanonTop at h3
    simp only [Bool.and_eq_true, Bool.or_eq_true, bne_iff_ne, ne_eq, Bool.not_eq_true'] at h3
    obtain ⟨⟨⟨_, h0⟩, h1⟩, _⟩ := h3
    match ts, h0, h1 with
    | [], h0, _ => simp at h0
    | [(k, v)], _, h1 =>
      have : numIsZero c = false := by
        rcases h1 with h | h
        · simp at h
        · exact h
      simp [addFromDict, this]
    | _ :: _ :: _, _, _ => rfl

theorem mulFromDict_nz_many {c : Expr} (p q : Expr × Expr) (r : Dict) (hz : numIsZero c = false) :
    mulFromDict c (p :: q :: r) = .mul c (p :: q :: r) := by
  simp [mulFromDict, hz]

theorem addFromDict_atom {k v : Expr} (hvn : v.isNum = true) (hv0 : isIntLit v 0 = false)
    (hv1 : isIntLit v 1 = false) (hm : ∀ c fs, k ≠ .mul c fs) (hp : ∀ b e, k ≠ .pow b e) :
    addFromDict zero [(k, v)] = .ok (.mul v [(k, one)]) := by
  have hz0 : numIsZero zero = true := rfl
  unfold addFromDict
  simp only [hz0, hvn, hv0, hv1, if_true, Bool.not_true, Bool.false_eq_true, if_false]
  all_goals
    split
    · rename_i c fs; exact absurd rfl (hm c fs)
    · rename_i b e; exact absurd rfl (hp b e)
    · rfl

/-- every exact invariant safe summand satisfies the hypothesis of the Add theorems -/
theorem AOK_of_inv {a : Expr} (hi : inv a = true) (hx : exact a = true) (hs : addOperandSafe a = true) :
    AOK a := by
  by_cases haa : isAdd a = true
  · obtain ⟨c, ts, rfl⟩ : ∃ c ts, a = .add c ts := by cases a <;> simp_all [isAdd]
    exact AOK_add hi hx hs
  have haa' : isAdd a = false := by simpa using haa
  by_cases hn : a.isNum = true
  · have hr : repr a = (a, []) := by cases a <;> simp_all [repr, Expr.isNum]
    have hex : ExOK a := exOK_of_numOK_exact ⟨hn, inv_canon hi⟩ hx
    refine ⟨?_, ?_⟩
    · rw [hr]; exact ⟨hex, DOK.nil, by simp⟩
    · rw [hr]; rfl
  have hn' : a.isNum = false := by simpa using hn
  obtain ⟨c, t, hct⟩ := SymVerif.AC.asCoefTerm_ok haa'
  obtain ⟨hcnum, hcase⟩ := SymVerif.Arith.asCoefTerm_ok hi hct
  rcases hcase with ⟨h, _, _⟩ | ⟨_, hkey, hcz⟩
  · rw [hn'] at h; cases h
  have hr : repr a = (zero, [(t, c)]) := by
    cases a <;> simp_all [repr, isAdd, Expr.isNum]
  -- exactness of the coefficient and of the term, the term is not a sum, and from_dict rebuilds `a`
  have main : exact c = true ∧ exact t = true ∧ isAdd t = false ∧ addFromDict zero [(t, c)] = .ok a := by
    have hz0 : numIsZero zero = true := rfl
    have one_case : asCoefTerm a = .ok (one, a) → (c = one ∧ t = a) := by
      intro h; rw [hct] at h; cases h; exact ⟨rfl, rfl⟩
    by_cases hm : isMul a = true
    · obtain ⟨mc, fs, rfl⟩ : ∃ mc fs, a = .mul mc fs := by cases a <;> simp_all [isMul]
      obtain ⟨h1, hent, h3, _, hfac⟩ := inv_mul_iff.mp hi
      simp only [exact, Bool.and_eq_true] at hx
      by_cases hc1 : isIntLit mc 1 = true
      · have : asCoefTerm (.mul mc fs) = .ok (one, .mul mc fs) := by simp [asCoefTerm, hc1]
        obtain ⟨rfl, rfl⟩ := one_case this
        refine ⟨rfl, by simp [exact, hx], rfl, ?_⟩
        simp [addFromDict, hz0, one, isIntLit, Expr.isNum]
      · have hc1' : isIntLit mc 1 = false := by simpa using hc1
        have hct' : asCoefTerm (.mul mc fs) = .ok (mc, mulFromDict one fs) := by simp [asCoefTerm, hc1']
        rw [hct] at hct'
        have hcm : c = mc := by injection hct' with h; exact (Prod.mk.inj h).1
        have htm : t = mulFromDict one fs := by injection hct' with h; exact (Prod.mk.inj h).2
        subst hcm
        subst htm
        have hmcn : c.isNum = true := hcnum.1
        have hmc0 : isIntLit c 0 = false := by
          cases h : isIntLit c 0 with
          | false => rfl
          | true => have := isIntLit_eq h; subst this; simp [numIsZero] at hcz
        unfold mulCanonTop at h3
        simp only [Bool.and_eq_true, bne_iff_ne, ne_eq] at h3
        have hlen : fs.length ≠ 0 := h3.1.1.2
        match fs, hlen, hx, hfac, hs with
        | [], hlen, _, _, _ => simp at hlen
        | [(k, e)], _, hx, hfac, hs =>
          have hf := hfac (k, e) List.mem_cons_self
          simp only [exactPairs, Bool.and_eq_true] at hx
          simp only [addOperandSafe, Bool.not_eq_true', Bool.and_eq_false_iff] at hs
          rw [mulFromDict_one_single]
          by_cases he1 : isIntLit e 1 = true
          · have hee := isIntLit_eq he1
            subst hee
            have hka : isAdd k = false := by
              rcases hs with h | h
              · exact h
              · simp [isIntLit] at h
            simp only [isIntLit, beq_self_eq_true, if_true]
            refine ⟨hx.1, hx.2.1.1, hka, ?_⟩
            -- `k` is neither a Mul nor a Pow (factorOK with an Integer exponent)
            have hkm : ∀ c' fs', k ≠ .mul c' fs' := by
              intro c' fs' e; subst e
              simp [factorOK, isInteger, isNumZero, Expr.isNum, numIsZero] at hf
            have hkp : ∀ b' e', k ≠ .pow b' e' := by
              intro b' e' e; subst e
              simp [factorOK, isInteger, isNumZero, Expr.isNum, numIsZero] at hf
            exact addFromDict_atom hmcn hmc0 hc1' hkm hkp
          · have he1' : isIntLit e 1 = false := by simpa using he1
            simp only [he1', Bool.false_eq_true, if_false]
            refine ⟨hx.1, by simp [exact, hx.2.1.1, hx.2.1.2], rfl, ?_⟩
            simp [addFromDict, hz0, hmcn, hmc0, hc1']
        | p :: q :: r, _, hx, _, _ =>
          rw [mulFromDict_one_many]
          refine ⟨hx.1, by simp [exact, one, hx.2], rfl, ?_⟩
          simp [addFromDict, hz0, hmcn, hmc0, hc1', mulFromDict, hcz]
    · have hm' : isMul a = false := by simpa using hm
      have : asCoefTerm a = .ok (one, a) := by
        cases a <;> simp_all [asCoefTerm, isMul, isAdd, Expr.isNum]
      obtain ⟨rfl, rfl⟩ := one_case this
      refine ⟨rfl, hx, haa', ?_⟩
      simp [addFromDict, hz0, one, isIntLit, Expr.isNum]
  obtain ⟨hcx, htx, hta, hfd⟩ := main
  have hcex := exOK_of_numOK_exact hcnum hcx
  refine ⟨?_, ?_⟩
  · rw [hr]
    refine ⟨exOK_int 0, ⟨by simp [Sorted], ?_⟩, ?_⟩
    · intro p hp
      simp at hp
      subst hp
      exact ⟨hcex, gq_ne_of_nz hcex hcz⟩
    · intro p hp
      simp at hp
      subst hp
      exact termOK_of_key hkey htx hta
  · rw [hr]
    exact hfd

end SymVerif.AC
