import Mathlib.Tactic.Ring
import Mathlib.Tactic.Linarith
import Mathlib.Algebra.Ring.Parity
import SymVerif.Model.MpSpec
import SymVerif.Model.MpBoost
/-! C43, integer roots: the Newton iteration `positive_root` of mp_boost.cpp and the bisection of the
specification both return the floor of the real `n`-th root. -/
namespace SymVerif.C43
open SymVerif

/-- `r x^(m+1) + x r^(m+1) ≤ r^(m+2) + x^(m+2)`  (i.e. `(r-x)(r^(m+1)-x^(m+1)) ≥ 0`) -/
theorem rearrangement (r x m : Nat) :
    r * x ^ (m + 1) + x * r ^ (m + 1) ≤ r ^ (m + 2) + x ^ (m + 2) := by
  have e1 : r ^ (m + 2) = r * r ^ (m + 1) := by ring
  have e2 : x ^ (m + 2) = x * x ^ (m + 1) := by ring
  rw [e1, e2]
  rcases Nat.le_total x r with h | h
  · obtain ⟨d, rfl⟩ := Nat.exists_eq_add_of_le h
    obtain ⟨D, hD⟩ := Nat.exists_eq_add_of_le (Nat.pow_le_pow_left h (m + 1))
    rw [hD]
    nlinarith [Nat.zero_le (d * D)]
  · obtain ⟨d, rfl⟩ := Nat.exists_eq_add_of_le h
    obtain ⟨D, hD⟩ := Nat.exists_eq_add_of_le (Nat.pow_le_pow_left h (m + 1))
    rw [hD]
    nlinarith [Nat.zero_le (d * D)]

/-- weighted AM–GM for integers: `(m+1) r x^m ≤ r^(m+1) + m x^(m+1)` -/
theorem amgm (r x m : Nat) : (m + 1) * r * x ^ m ≤ r ^ (m + 1) + m * x ^ (m + 1) := by
  induction m with
  | zero => simp
  | succ m ih =>
    have h1 := rearrangement r x m
    have e : (m + 1 + 1) * r * x ^ (m + 1) = r * x ^ (m + 1) + x * ((m + 1) * r * x ^ m) := by ring
    have e3 : (m + 1) * x ^ (m + 1 + 1) = x ^ (m + 2) + x * (m * x ^ (m + 1)) := by ring
    have h2 : x * ((m + 1) * r * x ^ m) ≤ x * (r ^ (m + 1) + m * x ^ (m + 1)) := Nat.mul_le_mul_left x ih
    rw [e, e3]
    have : r ^ (m + 1 + 1) = r ^ (m + 2) := rfl
    rw [this]
    nlinarith

/-- one Newton step never goes below the integer root: if `r^n ≤ i` then `r ≤ step n i x` -/
theorem step_ge (n i x r : Nat) (hn : 1 ≤ n) (hx : 1 ≤ x) (hr : r ^ n ≤ i) : r ≤ MpBoost.step n i x := by
  obtain ⟨m, rfl⟩ : ∃ m, n = m + 1 := ⟨n - 1, by omega⟩
  unfold MpBoost.step
  simp only [Nat.add_sub_cancel]
  have hP : 0 < x ^ m := Nat.pow_pos hx
  rw [Nat.le_div_iff_mul_le (by omega)]
  -- (m+1) r x^m ≤ r^(m+1) + m x^(m+1) ≤ i + m x x^m  and  i < (i / x^m + 1) x^m
  have h1 := amgm r x m
  have h2 : i < (i / x ^ m + 1) * x ^ m := by
    have := Nat.lt_mul_div_succ i hP
    rw [Nat.mul_comm] at this
    exact this
  have e : x ^ (m + 1) = x * x ^ m := by ring
  rw [e] at h1
  have h3 : (m + 1) * r * x ^ m < (i / x ^ m + 1 + m * x) * x ^ m := by nlinarith
  have h4 : (m + 1) * r < i / x ^ m + 1 + m * x := by
    by_contra hc
    have : (i / x ^ m + 1 + m * x) * x ^ m ≤ (m + 1) * r * x ^ m := Nat.mul_le_mul_right _ (by omega)
    omega
  nlinarith


/-- the exit test of the `do … while (y < x)` loop: if the step does not decrease then `x^n ≤ i` -/
theorem step_stop (n i x : Nat) (hn : 1 ≤ n) (hx : 1 ≤ x) (h : ¬ MpBoost.step n i x < x) : x ^ n ≤ i := by
  obtain ⟨m, rfl⟩ : ∃ m, n = m + 1 := ⟨n - 1, by omega⟩
  unfold MpBoost.step at h
  simp only [Nat.add_sub_cancel] at h
  have hP : 0 < x ^ m := Nat.pow_pos hx
  have h1 : x ≤ (m * x + i / x ^ m) / (m + 1) := by omega
  rw [Nat.le_div_iff_mul_le (by omega)] at h1
  have h2 : x ≤ i / x ^ m := by nlinarith
  rw [Nat.le_div_iff_mul_le hP] at h2
  calc x ^ (m + 1) = x * x ^ m := by ring
    _ ≤ i := h2

/-- `IsRoot n i r`: `r` is the floor of the real `n`-th root of `i` -/
def IsRoot (n i r : Nat) : Prop := r ^ n ≤ i ∧ i < (r + 1) ^ n

theorem isRoot_unique {n i r s : Nat} (hn : 1 ≤ n) (h1 : IsRoot n i r) (h2 : IsRoot n i s) : r = s := by
  have hn0 : n ≠ 0 := by omega
  rcases Nat.lt_trichotomy r s with h | h | h
  · have : (r + 1) ^ n ≤ s ^ n := Nat.pow_le_pow_left h n
    have := h1.2; have := h2.1; omega
  · exact h
  · have : (s + 1) ^ n ≤ r ^ n := Nat.pow_le_pow_left h n
    have := h2.2; have := h1.1; omega

/-- Newton loop invariant ⇒ result: started at any value that is not below the root, the loop stops
at the floor root. -/
theorem newtonLoop_spec (n i : Nat) (hn : 2 ≤ n) (hi : 1 ≤ i) (x : Nat)
    (hx : ∀ r, r ^ n ≤ i → r ≤ x) : IsRoot n i (MpBoost.newtonLoop n i x) := by
  fun_induction MpBoost.newtonLoop n i x with
  | case1 x hlt ih =>
    apply ih
    intro r hr
    have hx1 : 1 ≤ x := hx 1 (by simpa using hi)
    exact step_ge n i x r (by omega) hx1 hr
  | case2 x hge =>
    have hx1 : 1 ≤ x := hx 1 (by simpa using hi)
    refine ⟨step_stop n i x (by omega) hx1 hge, ?_⟩
    by_contra hc
    have := hx (x + 1) (by omega)
    omega

/-- **Newton root (mp_boost.cpp `positive_root`)**: for every starting guess `x0 ≥ 1`, every `i ≥ 1` and
`n ≥ 2` the loop terminates (by construction of the model: well-founded on `x`) with the floor of the
`n`-th root, and the flag tells whether the root is exact. -/
theorem positiveRootFrom_spec (x0 i n : Nat) (hn : 2 ≤ n) (hi : 1 ≤ i) (hx0 : 1 ≤ x0) :
    IsRoot n i (MpBoost.positiveRootFrom x0 i n).1 ∧
    ((MpBoost.positiveRootFrom x0 i n).2 = true ↔ (MpBoost.positiveRootFrom x0 i n).1 ^ n = i) := by
  unfold MpBoost.positiveRootFrom
  refine ⟨?_, by simp⟩
  apply newtonLoop_spec n i hn hi
  intro r hr
  exact step_ge n i x0 r (by omega) hx0 hr

/-- the repair of the starting guess (D8) does not change any result: the original loop started at `1`
and the repaired one started at `2^(⌊log2 i⌋/n + 1)` return the same root and flag -/
theorem positiveRoot_orig_eq (i n : Nat) (hn : 2 ≤ n) (hi : 1 ≤ i) :
    MpBoost.Orig.positiveRoot i n = MpBoost.positiveRoot i n := by
  have h1 := positiveRootFrom_spec 1 i n hn hi (by omega)
  have h2 := positiveRootFrom_spec (2 ^ (i.log2 / n + 1)) i n hn hi (Nat.one_le_two_pow)
  unfold MpBoost.Orig.positiveRoot MpBoost.positiveRoot
  have e : (MpBoost.positiveRootFrom 1 i n).1 = (MpBoost.positiveRootFrom (2 ^ (i.log2 / n + 1)) i n).1 :=
    isRoot_unique (by omega) h1.1 h2.1
  apply Prod.ext e
  have b1 := h1.2; have b2 := h2.2
  rw [e] at b1
  cases hb : (MpBoost.positiveRootFrom 1 i n).2 <;> cases hb2 : (MpBoost.positiveRootFrom (2 ^ (i.log2 / n + 1)) i n).2 <;> simp_all

/-! ### the specification's bisection -/

theorem irootAux_spec (x n : Nat) (hn : 1 ≤ n) (lo hi : Nat) (h1 : lo ^ n ≤ x) (h2 : x < hi ^ n) :
    IsRoot n x (MpSpec.irootAux x n lo hi) := by
  fun_induction MpSpec.irootAux x n lo hi with
  | case1 lo hi h =>
    refine ⟨h1, ?_⟩
    have hlt : lo < hi := by
      by_contra hc
      have : hi ^ n ≤ lo ^ n := Nat.pow_le_pow_left (by omega) n
      omega
    have : hi = lo + 1 := by omega
    rw [← this]; exact h2
  | case2 lo hi h mid hm ih => exact ih hm h2
  | case3 lo hi h mid hm ih => exact ih h1 (by omega)

theorem iroot_spec (x n : Nat) (hn : 1 ≤ n) : IsRoot n x (MpSpec.iroot x n) := by
  unfold MpSpec.iroot
  apply irootAux_spec x n hn
  · have : n ≠ 0 := by omega
    simp [this]
  · -- x < 2^(log2 x + 1) ≤ (2^(log2 x / n + 1))^n
    have h1 : x < 2 ^ (x.log2 + 1) := Nat.lt_log2_self
    have h2 : x.log2 + 1 ≤ (x.log2 / n + 1) * n := by
      have := Nat.lt_mul_div_succ x.log2 (show 0 < n by omega)
      rw [Nat.mul_comm]; omega
    calc x < 2 ^ (x.log2 + 1) := h1
      _ ≤ 2 ^ ((x.log2 / n + 1) * n) := Nat.pow_le_pow_right (by omega) h2
      _ = (2 ^ (x.log2 / n + 1)) ^ n := by rw [Nat.pow_mul]


theorem iroot_one (x : Nat) : MpSpec.iroot x 1 = x := by
  have h := iroot_spec x 1 (by omega)
  unfold IsRoot at h
  simp only [Nat.pow_one] at h
  omega

theorem positiveRoot_eq_iroot (x n : Nat) (hn : 2 ≤ n) (hx : 1 ≤ x) :
    (MpBoost.positiveRoot x n).1 = MpSpec.iroot x n := by
  have h2 := positiveRootFrom_spec (2 ^ (x.log2 / n + 1)) x n hn hx (Nat.one_le_two_pow)
  exact isRoot_unique (by omega) h2.1 (iroot_spec x n (by omega))

theorem positiveRoot_flag (x n : Nat) : (MpBoost.positiveRoot x n).2 = ((MpBoost.positiveRoot x n).1 ^ n == x) := rfl

/-- **`mp_root` (mp_boost.cpp) = specification** for every integer `i` and every `n` (both are undefined
— exception / `none` — for `n = 0` and for an even root of a negative number): truncated root with the
sign of `i`, and the exactness flag. -/
theorem boost_root_spec (i : Int) (n : Nat) : MpBoost.root i n = MpSpec.root i n := by
  unfold MpBoost.root MpSpec.root
  by_cases h0 : n = 0
  · simp [h0]
  simp only [h0, if_false]
  by_cases h1 : n = 1
  · subst h1
    have : ¬ (i < 0 ∧ 1 % 2 = 0) := by omega
    simp only [this, if_false, iroot_one, Int.sign_mul_natAbs]
    simp
  simp only [h1, if_false]
  have hn : 2 ≤ n := by omega
  by_cases hz : i = 0
  · subst hz
    have : (0 : Int) ^ n = 0 := zero_pow h0
    simp [this]
  simp only [hz, if_false]
  by_cases hpos : i > 0
  · have hlt : ¬ i < 0 := by omega
    simp only [hpos, if_true, hlt, false_and, if_false]
    have hx : 1 ≤ i.toNat := by omega
    have e := positiveRoot_eq_iroot i.toNat n hn hx
    have hnat : i.natAbs = i.toNat := by omega
    have hs : i.sign = 1 := Int.sign_eq_one_of_pos hpos
    rw [positiveRoot_flag, e, hnat, hs, Int.one_mul]
    congr 1
    congr 1
    -- flags: Nat equality vs Int equality
    have hi : (i.toNat : Int) = i := Int.toNat_of_nonneg (by omega)
    rw [Bool.eq_iff_iff]
    simp only [beq_iff_eq]
    constructor
    · intro h
      rw [← hi]; exact_mod_cast h
    · intro h
      rw [← hi] at h; exact_mod_cast h
  · have hneg : i < 0 := by omega
    simp only [hpos, if_false, hneg, true_and]
    by_cases hev : n % 2 = 0
    · simp [hev]
    · simp only [hev, if_false]
      have hx : 1 ≤ (-i).toNat := by omega
      have e := positiveRoot_eq_iroot (-i).toNat n hn hx
      have hnat : i.natAbs = (-i).toNat := by omega
      have hs : i.sign = -1 := Int.sign_eq_neg_one_of_neg hneg
      rw [positiveRoot_flag, e, hnat, hs]
      have hodd : n % 2 = 1 := by omega
      have hpow : ∀ r : Int, (-1 * r) ^ n = -(r ^ n) := by
        intro r
        have : (-1 * r) = -r := by ring
        rw [this]
        exact Odd.neg_pow (Nat.odd_iff.mpr hodd) r
      congr 1
      refine Prod.ext (by simp) ?_
      simp only
      have hi : ((-i).toNat : Int) = -i := Int.toNat_of_nonneg (by omega)
      rw [Bool.eq_iff_iff]
      simp only [beq_iff_eq, hpow]
      constructor
      · intro h
        have : ((MpSpec.iroot (-i).toNat n : Nat) : Int) ^ n = -i := by rw [← hi]; exact_mod_cast h
        omega
      · intro h
        have : ((MpSpec.iroot (-i).toNat n : Nat) : Int) ^ n = ((-i).toNat : Int) := by rw [hi]; omega
        exact_mod_cast this


theorem iroot_zero (n : Nat) (hn : 1 ≤ n) : MpSpec.iroot 0 n = 0 := by
  have h := (iroot_spec 0 n hn).1
  by_contra hc
  have : 1 ≤ MpSpec.iroot 0 n := by omega
  have : 1 ^ n ≤ (MpSpec.iroot 0 n) ^ n := Nat.pow_le_pow_left this n
  simp at this
  omega

/-- `mp_sqrt` (implemented through `mp_root`) = `⌊√i⌋`; both undefined for `i < 0` -/
theorem boost_sqrt_spec (i : Int) : MpBoost.sqrt i = MpSpec.sqrt i := by
  unfold MpBoost.sqrt MpSpec.sqrt
  rw [boost_root_spec]
  unfold MpSpec.root
  by_cases hneg : i < 0
  · simp [hneg]
  · simp only [hneg, false_and, if_false]
    by_cases hz : i = 0
    · subst hz; simp [iroot_zero]
    · have hpos : 0 < i := by omega
      have hs : i.sign = 1 := Int.sign_eq_one_of_pos hpos
      have hnat : i.natAbs = i.toNat := by omega
      simp [hs, hnat]

theorem boost_rootrem_spec (i : Int) (n : Nat) : MpBoost.rootrem i n = MpSpec.rootrem i n := by
  unfold MpBoost.rootrem MpSpec.rootrem
  rw [boost_root_spec]
  cases MpSpec.root i n <;> simp

theorem boost_sqrtrem_spec (i : Int) : MpBoost.sqrtrem i = MpSpec.sqrtrem i := by
  unfold MpBoost.sqrtrem MpSpec.sqrtrem
  rw [boost_sqrt_spec]
  cases MpSpec.sqrt i with
  | none => simp
  | some r => simp; ring

/-- `mp_perfect_square_p` -/
theorem boost_perfectSquare_spec (i : Int) : MpBoost.perfectSquare i = MpSpec.perfectSquare i := by
  unfold MpBoost.perfectSquare MpSpec.perfectSquare
  rw [boost_root_spec]
  unfold MpSpec.root
  by_cases hneg : i < 0
  · have : ¬ i ≥ 0 := by omega
    simp [hneg, this]
  · have hge : i ≥ 0 := by omega
    simp only [hneg, if_false, false_and, hge, decide_true, Bool.true_and]
    simp only [show (2 : Nat) ≠ 0 by omega, if_false, Option.map_some, Option.getD_some]
    have hi : (i.toNat : Int) = i := Int.toNat_of_nonneg hge
    by_cases hz : i = 0
    · subst hz; simp [iroot_zero]
    · have hpos : 0 < i := by omega
      have hs : i.sign = 1 := Int.sign_eq_one_of_pos hpos
      have hnat : i.natAbs = i.toNat := by omega
      rw [hs, hnat, Int.one_mul, Bool.eq_iff_iff]
      simp only [beq_iff_eq]
      constructor
      · intro h
        have : ((MpSpec.iroot i.toNat 2 : Nat) : Int) ^ 2 = (i.toNat : Int) := by rw [hi]; exact h
        exact_mod_cast this
      · intro h
        rw [← hi]; exact_mod_cast h

end SymVerif.C43
