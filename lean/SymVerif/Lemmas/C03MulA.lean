/-
C03: the Mul / Pow side (mul.cpp, pow.cpp, rational.cpp) — contracts of the mutually recursive
constructors and the helper lemmas about the dictionary of a Mul under construction.
-/
import SymVerif.Lemmas.C03Add

namespace SymVerif.Arith

/-! ### dictionary invariant under insert / erase / set -/

theorem MulDictOK.insert {d : Dict} {t e : Expr} (hd : MulDictOK d) (ht : inv t = true)
    (he : inv e = true) (hf : factorOK t e = true) : MulDictOK (dinsert d t e) := by
  refine ⟨sorted_dinsert hd.sorted, ?_, ?_⟩
  · intro p hp
    rcases mem_dinsert hp with rfl | hp
    · exact ⟨ht, he⟩
    · exact hd.ent p hp
  · intro p hp
    rcases mem_dinsert hp with rfl | hp
    · exact hf
    · exact hd.fac p hp

theorem MulDictOK.erase {d : Dict} {t : Expr} (hd : MulDictOK d) : MulDictOK (derase d t) :=
  ⟨sorted_derase hd.sorted, fun p hp => hd.ent p (mem_derase hp), fun p hp => hd.fac p (mem_derase hp)⟩

theorem mem_derase_dset {d : Dict} {t v : Expr} {p : Expr × Expr} (hs : Sorted d)
    (hp : p ∈ derase (dset d t v) t) : p ∈ d := by
  have h1 := not_mem_derase (sorted_dset (t := t) (v := v) hs) p hp
  rcases mem_dset (mem_derase hp) with rfl | h
  · exact absurd rfl h1
  · exact h

theorem MulDictOK.set_erase {d : Dict} {t v : Expr} (hd : MulDictOK d) :
    MulDictOK (derase (dset d t v) t) :=
  ⟨sorted_derase (sorted_dset hd.sorted), fun p hp => hd.ent p (mem_derase_dset hd.sorted hp),
    fun p hp => hd.fac p (mem_derase_dset hd.sorted hp)⟩

theorem MulDictOK.set {d : Dict} {t old v : Expr} (hd : MulDictOK d) (hm : (t, old) ∈ d)
    (hv : inv v = true) (hf : factorOK t v = true) : MulDictOK (dset d t v) := by
  refine ⟨sorted_dset hd.sorted, ?_, ?_⟩
  · intro p hp
    rcases mem_dset hp with rfl | hp
    · exact ⟨(hd.ent _ hm).1, hv⟩
    · exact hd.ent p hp
  · intro p hp
    rcases mem_dset hp with rfl | hp
    · exact hf
    · exact hd.fac p hp

/-! ### the precondition of `Mul::dict_add_term_new(coef, d, exp, t)` -/

/-- what the callers of `dict_add_term_new` guarantee about the factor `t ** exp` they pass
("the dict should be of standard form before this is called"): weaker than `factorOK` — a Number
base may come with any exponent, a Pow base with an Integer exponent -/
def preOK (t exp : Expr) : Bool :=
  match t with
  | .int n => n != 1 && (n != 0 || isInteger exp || isRational exp || !exp.isNum)
  | .mul c _ =>
    isExactNum c
    && !isInteger exp
    && !(exp.isNum && !isIntLit c 1 && !isIntLit c (-1) && (numIsPositive c || numIsNegative c))
  | .dbl _ | .cdbl _ _ | .infty _ | .nan => false
  | _ => true

/-- a legal base of `pow`: not an inexact / infinite Number, a Mul only with an exact coefficient -/
def okBase (a : Expr) : Bool :=
  match a with
  | .dbl _ | .cdbl _ _ | .infty _ | .nan => false
  | .mul c _ => isExactNum c
  | _ => true

structure Pre (t exp : Expr) : Prop where
  invT : inv t = true
  invE : inv exp = true
  nz : isNumZero exp = false
  ok : preOK t exp = true

theorem pre_of_factor {k v : Expr} (hk : inv k = true) (hv : inv v = true)
    (hf : factorOK k v = true) : Pre k v := by
  refine ⟨hk, hv, ?_, ?_⟩
  · unfold factorOK at hf
    simp only [Bool.and_eq_true, Bool.not_eq_true'] at hf
    exact hf.1
  · unfold factorOK at hf
    unfold preOK
    cases k <;> simp_all
    rename_i n
    by_cases h0 : n = 0 <;> simp_all

theorem numIsZero_isInteger {v : Expr} (hc : canon v = true) (hz : numIsZero v = true) :
    isInteger v = true := by
  cases v <;> simp [numIsZero] at hz <;> simp [isInteger]
  rename_i n d
  rw [canon_rat] at hc
  simp [ratCanon, hz] at hc
  omega

/-- not-found branch, Number base, `insert(d, t, exp)` -/
theorem factor_of_pre_num3 {t exp : Expr} (hp : Pre t exp)
    (h3 : (isInteger t || isRational t || isComplex t) = true)
    (h1 : isInteger exp = false) (h2 : (isRational exp && !isComplex t) = false) :
    factorOK t exp = true := by
  have hz := hp.nz
  have hok := hp.ok
  unfold preOK at hok
  unfold factorOK
  cases t with
  | int n =>
    by_cases h0 : n = 0
    · cases exp <;> simp_all [isInteger, isRational, isComplex, Expr.isNum]
    · cases exp <;> simp_all [isInteger, isRational, isComplex, ratIn01]
  | rat n d => cases exp <;> simp_all [isInteger, isRational, isComplex, ratIn01]
  | cplx re im => simp_all [isInteger, isRational, isComplex]
  | _ => simp_all [isInteger, isRational, isComplex]

/-- not-found branch, other base, `insert(d, t, exp)` -/
theorem factor_of_pre_other {t exp : Expr} (hp : Pre t exp)
    (h3 : (isInteger t || isRational t || isComplex t) = false)
    (h1 : (isPow t && isInteger exp) = false) : factorOK t exp = true := by
  have hz := hp.nz
  have hok := hp.ok
  unfold preOK at hok
  unfold factorOK
  cases t <;> simp_all [isInteger, isRational, isComplex, isPow]

/-- found branch: the merged exponent is not a Number, the entry stays -/
theorem factor_stay_nonnum {t old v : Expr} (hf : factorOK t old = true) (hv : v.isNum = false) :
    factorOK t v = true := by
  unfold factorOK at hf ⊢
  have h1 : isNumZero v = false := by simp [isNumZero, hv]
  have h2 : isInteger v = false := by cases v <;> simp_all [isInteger, Expr.isNum]
  have h3 : ratIn01 v = true := by cases v <;> simp_all [ratIn01, Expr.isNum]
  have h4 : isRational v = false := by cases v <;> simp_all [isRational, Expr.isNum]
  cases t <;> simp_all
  cases v <;> simp_all [isRational]

/-- found branch: the merged exponent is a Number and the entry stays -/
theorem factor_stay_num {t old v : Expr} (hf : factorOK t old = true) (hvn : v.isNum = true)
    (hvz : numIsZero v = false)
    (h1 : isInteger v = true →
      (isInteger t || isRational t || isComplex t) = false ∧ isPow t = false ∧ isMul t = false)
    (h2 : isRational v = true → (isInteger t || isRational t) = false)
    (h3 : isIntLit t 0 = false)
    (h4 : ∀ mc mfs, t = .mul mc mfs → (!isIntLit mc 1 && !isIntLit mc (-1)) = false) :
    factorOK t v = true := by
  have hz : isNumZero v = false := by simp [isNumZero, hvz]
  unfold factorOK at hf ⊢
  cases t with
  | mul mc mfs =>
    have h4' := h4 mc mfs rfl
    have hi : isInteger v = false := by
      cases hiv : isInteger v with
      | false => rfl
      | true => have := (h1 hiv).2.2; simp [isMul] at this
    cases hA : isIntLit mc 1 <;> cases hB : isIntLit mc (-1) <;> simp_all
  | int n =>
    simp_all [isInteger, isRational, isComplex, isPow, isMul, isIntLit]
    cases v <;> simp_all [isInteger, isRational, ratIn01]
  | rat n d =>
    cases v <;> simp_all [isInteger, isRational, isComplex, isPow, isMul, isIntLit]
  | cplx re im =>
    cases v <;> simp_all [isInteger, isRational, isComplex, isPow, isMul, isIntLit]
  | pow b e =>
    cases v <;> simp_all [isInteger, isRational, isComplex, isPow, isMul, isIntLit]
  | _ => simp_all [isInteger, isRational, isComplex, isPow, isMul, isIntLit]

/-! ### contracts -/

/-- `pow`-results of Number ** Rational are Numbers, Muls or Pows (used for the two "else" arms
of the patched N6 code, which the C++ reaches only with a Pow) -/
def RadShape : Prop :=
  ∀ fuel rv t e r, powNumRat fuel rv t e = .ok r → r.isNum = true ∨ isMul r = true ∨ isPow r = true

/-- the new exponent `v * n` that `power_num` computes for the factor `k ** v` is not zero, and where
it is handed to `dict_add_term_new` (`k` not a Mul, or the exponent not an Integer) it is a legal
exponent for `k` -/
def PowerExpOK : Prop :=
  ∀ fuel rv k v n r, inv k = true → inv v = true → factorOK k v = true → n ≠ 0 →
    mulF fuel rv v (.int n) = .ok r →
    isNumZero r = false ∧ ((isMul k = false ∨ isInteger r = false) → preOK k r = true)

/-- state of the accumulator `(coef, d)` of a Mul under construction -/
def St (coef : Expr) (d : Dict) : Prop := NumOK coef ∧ MulDictOK d

structure Spec (n : Nat) : Prop where
  mulF : ∀ rv a b r, inv a = true → inv b = true → mulF n rv a b = .ok r → inv r = true
  mulOnto : ∀ rv coef d b r, St coef d → inv b = true → mulOnto n rv coef d b = .ok r → inv r = true
  mulStep : ∀ rv coef d b c' d', St coef d → inv b = true →
    mulStep n rv coef d b = .ok (c', d') → St c' d'
  datLoop : ∀ rv coef d l c' d', St coef d → (∀ p ∈ l, Pre p.1 p.2) →
    datLoop n rv coef d l = .ok (c', d') → St c' d'
  absorb : ∀ rv coef d res c' d', St coef d → inv res = true →
    absorb n rv coef d res = .ok (some (c', d')) → St c' d'
  mulInto : ∀ rv coef d r c' d', St coef d → inv r = true →
    mulInto n rv coef d r = .ok (c', d') → St c' d'
  datNew : ∀ rv coef d exp t c' d', St coef d → Pre t exp →
    datNew n rv coef d exp t = .ok (c', d') → St c' d'
  datFound : ∀ rv coef d0 t old v c' d', St coef d0 → (t, old) ∈ d0 → inv v = true →
    datFound n rv coef (dset d0 t v) t v = .ok (c', d') → St c' d'
  powNumRat : ∀ rv t e r, ExOK t → ExOK e → powNumRat n rv t e = .ok r → inv r = true
  powrat : ∀ rv p q nn d r, ratCanon p q = true → ratCanon nn d = true →
    powrat n rv p q nn d = .ok r → inv r = true
  rpowrat : ∀ rv nn d other r, ratCanon nn d = true → rpowrat n rv nn d other = .ok r → inv r = true
  powerNum : ∀ rv sc sd coef d exp c' d', inv (.mul sc sd) = true → isExactNum sc = true →
    St coef d → NumOK exp →
    powerNum n rv sc sd coef d exp = .ok (c', d') → St c' d'
  powerNumLoop : ∀ rv l m coef d c' d', (∀ p ∈ l, inv p.1 = true ∧ inv p.2 = true ∧ factorOK p.1 p.2 = true) →
    m ≠ 0 → St coef d → powerNumLoop n rv l (.int m) coef d = .ok (c', d') → St c' d'
  powF : ∀ rv a b r, inv a = true → inv b = true → okBase a = true →
    powF n rv a b = .ok r → inv r = true
  powGeneric : ∀ rv a b r, inv a = true → inv b = true → okBase a = true →
    isNumZero b = false → isIntLit b 1 = false → isIntLit a 0 = false → isIntLit a 1 = false →
    (a.isNum && isInteger b) = false → ((isInteger a || isRational a) && isRational b) = false →
    (isMul a && b.isNum) = false → powGeneric n rv a b = .ok r → inv r = true

theorem spec_zero : Spec 0 := by
  constructor <;> intros <;> simp_all [mulF, mulOnto, mulStep, datLoop, absorb, mulInto, datNew,
    datFound, powNumRat, powrat, rpowrat, powerNum, powerNumLoop, powF, powGeneric]

end SymVerif.Arith
