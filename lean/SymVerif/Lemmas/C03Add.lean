/-
C03: the Add side (add.cpp) re-establishes the invariant.
Loop invariant of `Add::dict_add_term`: the dictionary is sorted (duplicate free), every key is a
valid Add key (not a Number, a Mul only with coefficient one) — or the transient key `1` that
`add(a, b)` uses for the numeric part — and every coefficient is a canonical non-zero Number.
-/
import SymVerif.Lemmas.C03Inv

namespace SymVerif.Arith

/-- `t` may be a key of an Add dictionary -/
structure AddKeyOK (t : Expr) : Prop where
  inv : inv t = true
  notNum : t.isNum = false
  mulOne : ∀ c fs, t = .mul c fs → numIsOne c = true

structure AddEntOK (p : Expr × Expr) : Prop where
  key : p.1 = one ∨ AddKeyOK p.1
  num : NumOK p.2
  nz : numIsZero p.2 = false

structure AddDictOK (d : Dict) : Prop where
  sorted : Sorted d
  ent : ∀ p ∈ d, AddEntOK p

def NoOneKey (d : Dict) : Prop := ∀ p ∈ d, p.1 ≠ one

theorem AddDictOK.nil : AddDictOK [] := ⟨by simp [Sorted], by simp⟩

theorem addEntryCanon_of {p : Expr × Expr} (h : AddEntOK p) (h1 : p.1 ≠ one) :
    addEntryCanon p = true := by
  rcases h.key with e | hk
  · exact absurd e h1
  · unfold addEntryCanon
    have := hk.notNum
    have := h.num.1
    have := h.nz
    have hm := hk.mulOne
    cases hp : p.1 <;> simp_all

theorem inv_add_dict {c : Expr} {ts : Dict} (h : inv (.add c ts) = true) :
    NumOK c ∧ AddDictOK ts ∧ NoOneKey ts := by
  obtain ⟨h1, h2, h3, h4⟩ := inv_add_iff.mp h
  unfold addCanonTop at h3
  simp only [Bool.and_eq_true, List.all_eq_true] at h3
  obtain ⟨⟨⟨hn, _⟩, _⟩, hall⟩ := h3
  refine ⟨⟨hn, inv_canon h1⟩, ⟨h4, ?_⟩, ?_⟩
  · intro p hp
    have := hall p hp
    unfold addEntryCanon at this
    simp only [Bool.and_eq_true, Bool.not_eq_true'] at this
    obtain ⟨⟨⟨a1, a2⟩, a3⟩, a4⟩ := this
    refine ⟨Or.inr ⟨(h2 p hp).1, a1, ?_⟩, ⟨a2, inv_canon (h2 p hp).2⟩, a3⟩
    intro c fs e
    rw [e] at a4
    simpa using a4
  · intro p hp e
    have := hall p hp
    unfold addEntryCanon at this
    simp [e, one, Expr.isNum] at this

/-- `Add::from_dict` -/
theorem addFromDict_inv {coef r : Expr} {d : Dict} (hc : NumOK coef) (hd : AddDictOK d)
    (h1 : NoOneKey d) (h : addFromDict coef d = .ok r) : inv r = true := by
  unfold addFromDict at h
  split at h
  · simp at h; subst h; exact hc.inv
  · rename_i k v
    have he := hd.ent (k, v) (by simp)
    have hk : AddKeyOK k := by
      rcases he.key with e | hk
      · exact absurd e (h1 (k, v) (by simp))
      · exact hk
    split at h
    · split at h
      · simp at h
      · split at h
        · simp at h; subst h; exact he.num.inv
        · split at h
          · simp at h; subst h; exact hk.inv
          · rename_i hv0 hv1
            have hnotone : numIsOne v = false := by
              cases hone : numIsOne v with
              | false => rfl
              | true =>
                have := numIsOne_canon he.num.2 hone
                subst this
                simp [isIntLit] at hv1
            split at h
            · rename_i c mfs
              simp at h; subst h
              exact mulFromDict_inv he.num (inv_mul_dict hk.inv)
            · rename_i b e
              simp at h; subst h
              obtain ⟨hb, hee, _, hf⟩ := inv_pow_iff.mp hk.inv
              have hfac : FacOK [(b, e)] := by intro p hp; simp at hp; subst hp; exact hf
              have hent : EntInv [(b, e)] := by intro p hp; simp at hp; subst hp; exact ⟨hb, hee⟩
              exact inv_mul_iff.mpr ⟨he.num.inv, hent,
                mulCanonTop_of he.num he.nz (by simp) (Or.inr hnotone) hfac,
                by simp [Sorted], hfac⟩
            · rename_i hnm hnp
              simp at h; subst h
              have hf : factorOK k one = true := by
                have := hk.notNum
                unfold factorOK
                cases k <;> simp_all [one, isNumZero, Expr.isNum, numIsZero]
              have hfac : FacOK [(k, one)] := by intro p hp; simp at hp; subst hp; exact hf
              have hent : EntInv [(k, one)] := by
                intro p hp; simp at hp; subst hp; exact ⟨hk.inv, numOK_one.inv⟩
              exact inv_mul_iff.mpr ⟨he.num.inv, hent,
                mulCanonTop_of he.num he.nz (by simp) (Or.inr hnotone) hfac,
                by simp [Sorted], hfac⟩
    · rename_i hz
      simp at h; subst h
      refine inv_add_iff.mpr ⟨hc.inv, ?_, ?_, hd.sorted⟩
      · intro p hp; simp at hp; subst hp; exact ⟨hk.inv, he.num.inv⟩
      · unfold addCanonTop
        simp only [Bool.and_eq_true, List.all_eq_true]
        refine ⟨⟨⟨hc.1, by simp⟩, by simpa using hz⟩, ?_⟩
        intro p hp
        exact addEntryCanon_of (hd.ent p hp) (h1 p hp)
  · rename_i hne1 hne2
    simp at h; subst h
    refine inv_add_iff.mpr ⟨hc.inv, ?_, ?_, hd.sorted⟩
    · intro p hp
      have he := hd.ent p hp
      rcases he.key with e | hk
      · exact absurd e (h1 p hp)
      · exact ⟨hk.inv, he.num.inv⟩
    · unfold addCanonTop
      simp only [Bool.and_eq_true, List.all_eq_true]
      refine ⟨⟨⟨hc.1, ?_⟩, ?_⟩, ?_⟩
      · cases d with
        | nil => exact absurd rfl hne1
        | cons p r => simp
      · have : d.length ≠ 1 := by
          intro hl
          match d, hl with
          | [(b, e)], _ => exact hne2 b e rfl
        simp [this]
      · intro p hp
        exact addEntryCanon_of (hd.ent p hp) (h1 p hp)

/-- loop invariant of `Add::dict_add_term` -/
theorem addDictAddTerm_ok {d d' : Dict} {coef t : Expr} (hd : AddDictOK d) (hc : NumOK coef)
    (ht : t = one ∨ AddKeyOK t) (h : addDictAddTerm d coef t = .ok d') : AddDictOK d' := by
  unfold addDictAddTerm at h
  split at h
  · simp at h; subst h
    split
    · rename_i hz
      refine ⟨sorted_dinsert hd.sorted, ?_⟩
      intro p hp
      rcases mem_dinsert hp with rfl | hp
      · exact ⟨ht, hc, by simpa using hz⟩
      · exact hd.ent p hp
    · exact hd
  · rename_i v hf
    have hmem := dfind_some hf
    have he := hd.ent _ hmem
    cases hv : numAdd v coef with
    | error e => simp [hv, bind, Except.bind] at h
    | ok v' =>
      simp [hv, bind, Except.bind, pure, Except.pure] at h
      subst h
      have hv' := numAdd_ok he.num hc hv
      split
      · exact ⟨sorted_derase hd.sorted, fun p hp => hd.ent p (mem_derase hp)⟩
      · rename_i hz
        refine ⟨sorted_dset hd.sorted, ?_⟩
        intro p hp
        rcases mem_dset hp with rfl | hp
        · exact ⟨he.key, hv', by simpa using hz⟩
        · exact hd.ent p hp

/-- keys other than `t` are untouched by `dict_add_term` -/
theorem addDictAddTerm_noOne {d d' : Dict} {coef t : Expr} (hd : NoOneKey d) (ht : t ≠ one)
    (h : addDictAddTerm d coef t = .ok d') : NoOneKey d' := by
  unfold addDictAddTerm at h
  split at h
  · simp at h; subst h
    split
    · intro p hp
      rcases mem_dinsert hp with rfl | hp
      · exact ht
      · exact hd p hp
    · exact hd
  · rename_i v hf
    cases hv : numAdd v coef with
    | error e => simp [hv, bind, Except.bind] at h
    | ok v' =>
      simp [hv, bind, Except.bind, pure, Except.pure] at h
      subst h
      split
      · exact fun p hp => hd p (mem_derase hp)
      · intro p hp
        rcases mem_dset hp with rfl | hp
        · exact ht
        · exact hd p hp

theorem AddKeyOK.ne_one {t : Expr} (h : AddKeyOK t) : t ≠ one := by
  intro e; have := h.notNum; simp [e, one, Expr.isNum] at this

theorem mulFromDict_one_single (b e : Expr) :
    mulFromDict one [(b, e)] = if isIntLit e 1 = true then b else .pow b e := by
  simp [mulFromDict, one, numIsZero, numIsOne]

theorem mulFromDict_one_many (p q : Expr × Expr) (r : Dict) :
    mulFromDict one (p :: q :: r) = .mul one (p :: q :: r) := by
  simp [mulFromDict, one, numIsZero]

/-- `Add::as_coef_term` -/
theorem asCoefTerm_ok {self c t : Expr} (hs : inv self = true) (h : asCoefTerm self = .ok (c, t)) :
    NumOK c ∧ ((self.isNum = true ∧ t = one ∧ c = self) ∨ (self.isNum = false ∧ AddKeyOK t ∧ numIsZero c = false)) := by
  unfold asCoefTerm at h
  split at h
  · rename_i mc fs
    obtain ⟨h1, h2, h3, h4, h5⟩ := inv_mul_iff.mp hs
    have hmd : MulDictOK fs := ⟨h4, h2, h5⟩
    unfold mulCanonTop at h3
    simp only [Bool.and_eq_true, List.all_eq_true] at h3
    obtain ⟨⟨⟨⟨n1, n2⟩, n3⟩, n4⟩, _⟩ := h3
    split at h
    · rename_i hne
      simp at h
      obtain ⟨rfl, rfl⟩ := h
      refine ⟨⟨n1, inv_canon h1⟩, Or.inr ⟨rfl, ?_, by simpa using n2⟩⟩
      refine ⟨mulFromDict_inv numOK_one hmd, ?_, ?_⟩
      · -- the term is not a Number
        match fs, n3, h5 with
        | [], n3, _ => simp at n3
        | [(b, e)], _, h5 =>
          have hf := h5 (b, e) (by simp)
          rw [mulFromDict_one_single]
          split
          · rename_i he
            unfold factorOK at hf
            cases b <;> cases e <;> simp_all [isIntLit, Expr.isNum, isInteger, isNumZero, numIsZero]
          · rfl
        | _ :: _ :: _, _, _ => rw [mulFromDict_one_many]; rfl
      · intro c' fs' e
        match fs, n3, h5, e with
        | [], n3, _, _ => simp at n3
        | [(b, ex)], _, h5, e =>
          have hf := h5 (b, ex) (by simp)
          rw [mulFromDict_one_single] at e
          split at e
          · rename_i he
            subst e
            unfold factorOK at hf
            cases ex <;> simp_all [isIntLit, isInteger]
          · simp at e
        | _ :: _ :: _, _, _, e =>
          rw [mulFromDict_one_many] at e
          simp at e
          rw [← e.1]; rfl
    · rename_i heq
      simp at h
      obtain ⟨rfl, rfl⟩ := h
      refine ⟨numOK_one, Or.inr ⟨rfl, ⟨hs, rfl, ?_⟩, rfl⟩⟩
      intro c' fs' e
      simp at e
      rw [← e.1]
      simp at heq
      cases mc <;> simp_all [isIntLit, numIsOne]
  · simp at h
  · rename_i hnm hna
    split at h
    · rename_i hn
      simp at h
      obtain ⟨rfl, rfl⟩ := h
      exact ⟨⟨hn, inv_canon hs⟩, Or.inl ⟨hn, rfl, rfl⟩⟩
    · rename_i hn
      simp at h
      obtain ⟨rfl, rfl⟩ := h
      refine ⟨numOK_one, Or.inr ⟨by simpa using hn, ⟨hs, by simpa using hn, ?_⟩, rfl⟩⟩
      intro c' fs' e
      exact absurd e (hnm c' fs')

/-- `for (p : b.dict) Add::dict_add_term(d, p.second, p.first)` -/
theorem addMergeLoop_ok : ∀ {l d d' : Dict}, AddDictOK d → NoOneKey d →
    (∀ p ∈ l, AddKeyOK p.1 ∧ NumOK p.2) → addMergeLoop d l = .ok d' → AddDictOK d' ∧ NoOneKey d'
  | [], d, d', hd, h1, _, h => by
    simp [addMergeLoop] at h; subst h; exact ⟨hd, h1⟩
  | (k, v) :: r, d, d', hd, h1, hl, h => by
    simp only [addMergeLoop] at h
    cases hs : addDictAddTerm d v k with
    | error e => simp [hs, bind, Except.bind] at h
    | ok d1 =>
      simp [hs, bind, Except.bind] at h
      have hk := hl (k, v) (by simp)
      exact addMergeLoop_ok (addDictAddTerm_ok hd hk.2 (Or.inr hk.1) hs)
        (addDictAddTerm_noOne h1 hk.1.ne_one hs) (fun p hp => hl p (by simp [hp])) h

theorem addDict_entries {d : Dict} (hd : AddDictOK d) (h1 : NoOneKey d) :
    ∀ p ∈ d, AddKeyOK p.1 ∧ NumOK p.2 := by
  intro p hp
  have he := hd.ent p hp
  rcases he.key with e | hk
  · exact absurd e (h1 p hp)
  · exact ⟨hk, he.num⟩

/-- one arm of `add(a, b)`: an Add `(coef, d)` plus `b` -/
theorem addOntoAdd_inv {coef b r : Expr} {d : Dict} (hc : NumOK coef) (hd : AddDictOK d)
    (h1 : NoOneKey d) (hb : inv b = true) (h : addOntoAdd coef d b = .ok r) : inv r = true := by
  unfold addOntoAdd at h
  split at h
  · rename_i hbn
    have hbN : NumOK b := ⟨hbn, inv_canon hb⟩
    split at h
    · cases hs : numAdd coef b with
      | error e => simp [hs, bind, Except.bind] at h
      | ok c' =>
        simp [hs, bind, Except.bind] at h
        exact addFromDict_inv (numAdd_ok hc hbN hs) hd h1 h
    · simp [bind, Except.bind, pure, Except.pure] at h
      exact addFromDict_inv hc hd h1 h
  · rename_i hbn
    cases hs : asCoefTerm b with
    | error e => simp [hs, bind, Except.bind] at h
    | ok ct =>
      obtain ⟨c2, t⟩ := ct
      simp [hs, bind, Except.bind] at h
      obtain ⟨hc2, hcase⟩ := asCoefTerm_ok hb hs
      rcases hcase with ⟨hn, _, _⟩ | ⟨_, hk, _⟩
      · simp [hn] at hbn
      · cases hs2 : addDictAddTerm d c2 t with
        | error e => simp [hs2] at h
        | ok d' =>
          simp [hs2] at h
          exact addFromDict_inv hc (addDictAddTerm_ok hd hc2 (Or.inr hk) hs2)
            (addDictAddTerm_noOne h1 hk.ne_one hs2) h

/-- `add(a, b)` re-establishes the invariant -/
theorem addCore_inv {a b r : Expr} (ha : inv a = true) (hb : inv b = true)
    (h : addCore a b = .ok r) : inv r = true := by
  unfold addCore at h
  split at h
  · rename_i ac ad bc bd
    obtain ⟨hac, had, ha1⟩ := inv_add_dict ha
    obtain ⟨hbc, hbd, hb1⟩ := inv_add_dict hb
    cases hs : addMergeLoop ad bd with
    | error e => simp [hs, bind, Except.bind] at h
    | ok d =>
      simp [hs, bind, Except.bind] at h
      obtain ⟨hd, hd1⟩ := addMergeLoop_ok had ha1 (addDict_entries hbd hb1) hs
      cases hs2 : numAdd ac bc with
      | error e => simp [hs2] at h
      | ok c =>
        simp [hs2] at h
        exact addFromDict_inv (numAdd_ok hac hbc hs2) hd hd1 h
  · rename_i ac ad _
    obtain ⟨hac, had, ha1⟩ := inv_add_dict ha
    exact addOntoAdd_inv hac had ha1 hb h
  · rename_i bc bd _
    obtain ⟨hbc, hbd, hb1⟩ := inv_add_dict hb
    exact addOntoAdd_inv hbc hbd hb1 ha h
  · rename_i hna hnb
    cases hs1 : asCoefTerm a with
    | error e => simp [hs1, bind, Except.bind] at h
    | ok ct1 =>
      obtain ⟨c1, t1⟩ := ct1
      simp [hs1, bind, Except.bind] at h
      obtain ⟨hc1, hcase1⟩ := asCoefTerm_ok ha hs1
      have ht1 : t1 = one ∨ AddKeyOK t1 := by
        rcases hcase1 with ⟨_, e, _⟩ | ⟨_, hk, _⟩
        · exact Or.inl e
        · exact Or.inr hk
      cases hs2 : addDictAddTerm [] c1 t1 with
      | error e => simp [hs2] at h
      | ok d1 =>
        simp [hs2] at h
        have hd1 := addDictAddTerm_ok AddDictOK.nil hc1 ht1 hs2
        cases hs3 : asCoefTerm b with
        | error e => simp [hs3] at h
        | ok ct2 =>
          obtain ⟨c2, t2⟩ := ct2
          simp [hs3] at h
          obtain ⟨hc2, hcase2⟩ := asCoefTerm_ok hb hs3
          have ht2 : t2 = one ∨ AddKeyOK t2 := by
            rcases hcase2 with ⟨_, e, _⟩ | ⟨_, hk, _⟩
            · exact Or.inl e
            · exact Or.inr hk
          cases hs4 : addDictAddTerm d1 c2 t2 with
          | error e => simp [hs4] at h
          | ok d2 =>
            simp [hs4] at h
            have hd2 := addDictAddTerm_ok hd1 hc2 ht2 hs4
            split at h
            · rename_i hf
              exact addFromDict_inv numOK_zero hd2 (dfind_none hf) h
            · rename_i v hf
              have hv := (hd2.ent _ (dfind_some hf)).num
              exact addFromDict_inv hv
                ⟨sorted_derase hd2.sorted, fun p hp => hd2.ent p (mem_derase hp)⟩
                (not_mem_derase hd2.sorted) h

/-- `Add::coef_dict_add_term` with `c = 1` (the only use, in `add(vec_basic)`) -/
theorem coefDictAddTerm_ok {coef coef' term : Expr} {d d' : Dict} (hc : NumOK coef)
    (hd : AddDictOK d) (h1 : NoOneKey d) (ht : inv term = true)
    (h : coefDictAddTerm coef d one term = .ok (coef', d')) :
    NumOK coef' ∧ AddDictOK d' ∧ NoOneKey d' := by
  unfold coefDictAddTerm at h
  split at h
  · rename_i hn
    have htN : NumOK term := ⟨hn, inv_canon ht⟩
    cases hs : numMul one term with
    | error e => simp [hs, bind, Except.bind] at h
    | ok m =>
      simp [hs, bind, Except.bind] at h
      cases hs2 : numAdd coef m with
      | error e => simp [hs2] at h
      | ok c2 =>
        simp [hs2, pure, Except.pure] at h
        obtain ⟨rfl, rfl⟩ := h
        exact ⟨numAdd_ok hc (numMul_ok numOK_one htN hs) hs2, hd, h1⟩
  · rename_i hn
    split at h
    · rename_i tc td
      obtain ⟨htc, htd, ht1⟩ := inv_add_dict ht
      simp only [one, numIsOne] at h
      simp at h
      cases hs : addMergeLoop d td with
      | error e => simp [hs, bind, Except.bind] at h
      | ok d1 =>
        simp [hs, bind, Except.bind] at h
        obtain ⟨hd1, hd11⟩ := addMergeLoop_ok hd h1 (addDict_entries htd ht1) hs
        cases hs2 : numAdd coef tc with
        | error e => simp [hs2, Functor.map, Except.map] at h
        | ok c2 =>
          simp [hs2, pure, Except.pure, Functor.map, Except.map] at h
          obtain ⟨rfl, rfl⟩ := h
          exact ⟨numAdd_ok hc htc hs2, hd1, hd11⟩
    · rename_i hna
      cases hs : asCoefTerm term with
      | error e => simp [hs, bind, Except.bind] at h
      | ok ct =>
        obtain ⟨c2, t⟩ := ct
        simp [hs, bind, Except.bind] at h
        obtain ⟨hc2, hcase⟩ := asCoefTerm_ok ht hs
        rcases hcase with ⟨hnn, _, _⟩ | ⟨_, hk, _⟩
        · simp [hnn] at hn
        · cases hs2 : numMul one c2 with
          | error e => simp [hs2] at h
          | ok m =>
            simp [hs2] at h
            cases hs3 : addDictAddTerm d m t with
            | error e => simp [hs3] at h
            | ok d1 =>
              simp [hs3, pure, Except.pure] at h
              obtain ⟨rfl, rfl⟩ := h
              exact ⟨hc, addDictAddTerm_ok hd (numMul_ok numOK_one hc2 hs2) (Or.inr hk) hs3,
                addDictAddTerm_noOne h1 hk.ne_one hs3⟩

theorem addNLoop_ok : ∀ {l : List Expr} {coef coef' : Expr} {d d' : Dict}, NumOK coef →
    AddDictOK d → NoOneKey d → (∀ a ∈ l, inv a = true) →
    addNLoop coef d l = .ok (coef', d') → NumOK coef' ∧ AddDictOK d' ∧ NoOneKey d'
  | [], coef, coef', d, d', hc, hd, h1, _, h => by
    simp [addNLoop] at h
    obtain ⟨rfl, rfl⟩ := h
    exact ⟨hc, hd, h1⟩
  | a :: r, coef, coef', d, d', hc, hd, h1, hl, h => by
    simp only [addNLoop] at h
    cases hs : coefDictAddTerm coef d one a with
    | error e => simp [hs, bind, Except.bind] at h
    | ok cd =>
      obtain ⟨c1, d1⟩ := cd
      simp [hs, bind, Except.bind] at h
      obtain ⟨hc1, hd1, hd11⟩ := coefDictAddTerm_ok hc hd h1 (hl a (by simp)) hs
      exact addNLoop_ok hc1 hd1 hd11 (fun x hx => hl x (by simp [hx])) h

end SymVerif.Arith
