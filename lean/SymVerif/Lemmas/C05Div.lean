import SymVerif.Lemmas.C05Num
import Mathlib.Tactic.NormNum
/-! Value lemmas for the division formulas of `Complex::divcomp / rdivcomp`, `Rational::divrat`, `Integer::divint`. -/
namespace SymVerif.C05
open SymVerif.Num

set_option linter.unusedSimpArgs false
set_option linter.unusedVariables false

theorem gv_ne_zero_of_re {re im : Q} (h : re.toRat ≠ 0) : gv re im ≠ 0 := by
  intro e; have := congrArg Complex.re e
  simp only [gv, Complex.zero_re] at this
  exact h (by exact_mod_cast this)

theorem gv_ne_zero_of_im {re im : Q} (h : im.toRat ≠ 0) : gv re im ≠ 0 := by
  intro e; have := congrArg Complex.im e
  simp only [gv, Complex.zero_im] at this
  exact h (by exact_mod_cast this)

theorem toRat_ne_zero {a : Q} (ha : 0 < a.den) (hn : a.num ≠ 0) : a.toRat ≠ 0 :=
  fun e => hn ((Q.toRat_eq_zero_iff ha).mp e)

/-- Lemma A: componentwise division by a real number -/
theorem gv_div_real {re im p : Q} (hre : 0 < re.den) (him : 0 < im.den) (hp : 0 < p.den)
    (hn : p.num ≠ 0) : gv (re.div p) (im.div p) = gv re im / gv p (.ofInt 0) := by
  have hp0 : p.toRat ≠ 0 := toRat_ne_zero hp hn
  have hpr : ((p.toRat : ℚ) : ℝ) ≠ 0 := by exact_mod_cast hp0
  rw [eq_div_iff (gv_ne_zero_of_re hp0)]
  apply Complex.ext <;>
    simp only [gv, Complex.mul_re, Complex.mul_im, Q.toRat_div hre hp hn, Q.toRat_div him hp hn,
      Q.toRat_ofInt] <;> push_cast <;> field_simp <;> ring

/-- Lemma D: real quotient -/
theorem gv_div_rat {q p : Q} (hq : 0 < q.den) (hp : 0 < p.den) (hn : p.num ≠ 0) :
    gv (q.div p) (.ofInt 0) = gv q (.ofInt 0) / gv p (.ofInt 0) := by
  have hp0 : p.toRat ≠ 0 := toRat_ne_zero hp hn
  have hpr : ((p.toRat : ℚ) : ℝ) ≠ 0 := by exact_mod_cast hp0
  rw [eq_div_iff (gv_ne_zero_of_re hp0)]
  apply Complex.ext <;>
    simp only [gv, Complex.mul_re, Complex.mul_im, Q.toRat_div hq hp hn, Q.toRat_ofInt] <;>
    push_cast <;> field_simp <;> ring

/-- Lemma E: `Integer::divint` -/
theorem gv_make (n : Int) {m : Int} (hm : m ≠ 0) :
    gv (Q.make n m) (.ofInt 0) = gv (.ofInt n) (.ofInt 0) / gv (.ofInt m) (.ofInt 0) := by
  have hmq : (m : ℚ) ≠ 0 := by exact_mod_cast hm
  have hmr : (m : ℝ) ≠ 0 := by exact_mod_cast hm
  rw [eq_div_iff (gv_ne_zero_of_re (by simpa using hmq))]
  apply Complex.ext <;>
    simp only [gv, Complex.mul_re, Complex.mul_im, Q.toRat_make n hm, Q.toRat_ofInt] <;>
    push_cast <;> field_simp <;> ring

theorem modSq_real_ne_zero {re im : Q} (hre : 0 < re.den) (him : 0 < im.den) (h : im.num ≠ 0) :
    ((re.toRat : ℚ) : ℝ) ^ 2 + ((im.toRat : ℚ) : ℝ) ^ 2 ≠ 0 := by
  have h0 : (modSq re im).toRat ≠ 0 :=
    toRat_ne_zero (modSq_den_pos hre him) (modSq_num_ne_zero hre him h)
  rw [toRat_modSq hre him] at h0
  have h1 : re.toRat ^ 2 + im.toRat ^ 2 ≠ 0 := by rwa [pow_two, pow_two]
  exact_mod_cast h1

/-- Lemma B: `Complex::divcomp(const Complex&)` -/
theorem gv_div_cplx {re im re' im' : Q} (hre : 0 < re.den) (him : 0 < im.den) (hre' : 0 < re'.den)
    (him' : 0 < im'.den) (h : im'.num ≠ 0) :
    gv (((re.mul re').add (im.mul im')).div (modSq re' im'))
       (((re.neg.mul im').add (im.mul re')).div (modSq re' im')) = gv re im / gv re' im' := by
  have hm := modSq_num_ne_zero hre' him' h
  have hmp := modSq_den_pos hre' him'
  have hr := modSq_real_ne_zero hre' him' h
  have hn : 0 < re.neg.den := hre
  rw [eq_div_iff (gv_ne_zero_of_im (toRat_ne_zero him' h))]
  apply Complex.ext <;>
    simp only [gv, Complex.mul_re, Complex.mul_im,
      Q.toRat_div (Q.add_den_pos (Q.mul_den_pos hre hre') (Q.mul_den_pos him him')) hmp hm,
      Q.toRat_div (Q.add_den_pos (Q.mul_den_pos hn him') (Q.mul_den_pos him hre')) hmp hm,
      Q.toRat_add (Q.mul_den_pos hre hre') (Q.mul_den_pos him him'),
      Q.toRat_add (Q.mul_den_pos hn him') (Q.mul_den_pos him hre'),
      Q.toRat_mul hre hre', Q.toRat_mul him him', Q.toRat_mul hn him', Q.toRat_mul him hre',
      Q.toRat_neg, toRat_modSq hre' him'] <;>
    push_cast <;> field_simp <;> ring

/-- Lemma C: `Complex::rdivcomp` (a real dividend `p` over a Complex) -/
theorem gv_rdiv_cplx {re im p : Q} (hre : 0 < re.den) (him : 0 < im.den) (hp : 0 < p.den)
    (h : im.num ≠ 0) :
    gv ((re.mul p).div (modSq re im)) ((im.mul p.neg).div (modSq re im))
      = gv p (.ofInt 0) / gv re im := by
  have hm := modSq_num_ne_zero hre him h
  have hmp := modSq_den_pos hre him
  have hr := modSq_real_ne_zero hre him h
  have hn : 0 < p.neg.den := hp
  rw [eq_div_iff (gv_ne_zero_of_im (toRat_ne_zero him h))]
  apply Complex.ext <;>
    simp only [gv, Complex.mul_re, Complex.mul_im,
      Q.toRat_div (Q.mul_den_pos hre hp) hmp hm, Q.toRat_div (Q.mul_den_pos him hn) hmp hm,
      Q.toRat_mul hre hp, Q.toRat_mul him hn, Q.toRat_neg, toRat_modSq hre him, Q.toRat_ofInt] <;>
    push_cast <;> field_simp <;> ring

end SymVerif.C05
