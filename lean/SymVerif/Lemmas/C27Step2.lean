import SymVerif.Lemmas.C27Step

/-! Soundness of `set_intersection`, `set_complement`, and of the free functions, one unfolding. -/
namespace SymVerif.Sets

theorem ni_pair {r : Ops} (hr : Sound r) {a b s : SetE} (h : r.ni (mkSS [a, b]) = .ok s) (ha : WF a) (hb : WF b) :
    WF s ∧ ∀ q, mem s q ↔ (mem a q ∧ mem b q) := by
  have := hr.ni (mkSS [a, b]) s ((WFL_mkSS [a, b]).2 ⟨ha, hb, trivial⟩) h
  refine ⟨this.1, fun q => ?_⟩
  rw [this.2 q, memAll_mkSS]; simp [memAll]

theorem nu_pair {r : Ops} (hr : Sound r) {a b s : SetE} (h : r.nu (mkSS [a, b]) = .ok s) (ha : WF a) (hb : WF b) :
    WF s ∧ ∀ q, mem s q ↔ (mem a q ∨ mem b q) := by
  have := hr.nu (mkSS [a, b]) s ((WFL_mkSS [a, b]).2 ⟨ha, hb, trivial⟩) h
  refine ⟨this.1, fun q => ?_⟩
  rw [this.2 q, memAny_mkSS]; simp [memAny]

theorem ivInterInts_WF (s e : ℚ) (lo ro : Bool) (kind : Nat) : WF (ivInterInts s e lo ro kind) := by
  unfold ivInterInts
  dsimp only
  split_ifs <;> first | exact WF_finiteset _ | simp [WF]

/-! ### `set_intersection` -/

set_option hygiene false in
/-- closes the routine branches of `miStep_sound` -/
macro "fin_mi" : tactic => `(tactic| first
  | exact pairInter_ok h ha hb
  | exact swap_mi hr h ha hb
  | exact ni_pair hr h ha hb
  | (cases ok_inj h
     exact ⟨by first | exact ha | exact hb | simp [WF], fun q => by simp only [mem]; grind⟩))

theorem fsInterNum_ok (l : List ENum) (kind : Nat) (q : ℚ) :
    mem (finiteset (l.filter (inNumSet kind))) q ↔ (ENum.fin q ∈ l ∧ mem (numSet kind) q) := by
  rw [mem_finiteset, List.mem_filter, inNumSet_iff]

theorem miStep_sound {r : Ops} (hr : Sound r) (a b s : SetE) (ha : WF a) (hb : WF b)
    (h : miStep r a b = .ok s) : WF s ∧ ∀ q, mem s q ↔ (mem a q ∧ mem b q) := by
  cases a with
  | empty => cases b <;> simp only [miStep] at h <;> fin_mi
  | univ => cases b <;> simp only [miStep] at h <;> fin_mi
  | reals => cases b <;> simp only [miStep] at h <;> fin_mi
  | rats => cases b <;> simp only [miStep] at h <;> fin_mi
  | ints => cases b <;> simp only [miStep] at h <;> fin_mi
  | nats => cases b <;> simp only [miStep] at h <;> fin_mi
  | nats0 => cases b <;> simp only [miStep] at h <;> fin_mi
  | iv s1 e1 lo1 ro1 =>
    have ha' : s1 < e1 := by simpa [WF] using ha
    cases b with
    | iv s2 e2 lo2 ro2 =>
      simp only [miStep] at h
      cases ok_inj h
      exact ⟨ivInterIv_WF _ _ _ _ _ _ _ _, fun q => by
        simpa only [mem] using ivInterIv_mem s1 e1 lo1 ro1 s2 e2 lo2 ro2 ha' (by simpa [WF] using hb) q⟩
    | ints =>
      cases s1 <;> cases e1 <;> simp only [miStep] at h
      all_goals first
        | exact pairInter_ok h ha hb
        | (cases ok_inj h
           rename_i s e
           refine ⟨ivInterInts_WF _ _ _ _ _, fun q => ?_⟩
           have := ivInterInts_mem s e lo1 ro1 0 (by omega) q
           have hk : numSet 0 = .ints := rfl
           rw [hk] at this
           simpa only [mem] using this)
    | nats =>
      cases s1 <;> cases e1 <;> simp only [miStep] at h
      all_goals first
        | exact pairInter_ok h ha hb
        | (cases ok_inj h
           rename_i s e
           refine ⟨ivInterInts_WF _ _ _ _ _, fun q => ?_⟩
           have := ivInterInts_mem s e lo1 ro1 1 (by omega) q
           have hk : numSet 1 = .nats := rfl
           rw [hk] at this
           simpa only [mem] using this)
    | nats0 =>
      cases s1 <;> cases e1 <;> simp only [miStep] at h
      all_goals first
        | exact pairInter_ok h ha hb
        | (cases ok_inj h
           rename_i s e
           refine ⟨ivInterInts_WF _ _ _ _ _, fun q => ?_⟩
           have := ivInterInts_mem s e lo1 ro1 2 (by omega) q
           have hk : numSet 2 = .nats0 := rfl
           rw [hk] at this
           simpa only [mem] using this)
    | _ => simp only [miStep] at h <;> fin_mi
  | fs l =>
    cases b with
    | iv s2 e2 lo2 ro2 =>
      simp only [miStep] at h
      cases ok_inj h
      refine ⟨WF_finiteset _, fun q => ?_⟩
      rw [mem_finiteset, List.mem_filter, ivContains_iff s2 e2 lo2 ro2 q (by simpa [WF] using hb)]
      simp only [mem]
    | reals =>
      simp only [miStep] at h
      cases ok_inj h
      exact ⟨WF_finiteset _, fun q => by rw [mem_finiteset]; simp only [mem, and_true]⟩
    | rats =>
      simp only [miStep] at h
      cases ok_inj h
      exact ⟨WF_finiteset _, fun q => by
        rw [mem_finiteset, List.mem_filter]; simp only [mem, and_true, ENum.isExact]⟩
    | ints =>
      simp only [miStep] at h
      cases ok_inj h
      exact ⟨WF_finiteset _, fun q => by
        have := fsInterNum_ok l 0 q
        have hk : numSet 0 = .ints := rfl
        rw [hk] at this
        simpa only [mem] using this⟩
    | nats =>
      simp only [miStep] at h
      cases ok_inj h
      exact ⟨WF_finiteset _, fun q => by
        have := fsInterNum_ok l 1 q
        have hk : numSet 1 = .nats := rfl
        rw [hk] at this
        simpa only [mem] using this⟩
    | nats0 =>
      simp only [miStep] at h
      cases ok_inj h
      exact ⟨WF_finiteset _, fun q => by
        have := fsInterNum_ok l 2 q
        have hk : numSet 2 = .nats0 := rfl
        rw [hk] at this
        simpa only [mem] using this⟩
    | _ => simp only [miStep] at h <;> fin_mi
  | un c =>
    simp only [miStep, bind, Except.bind] at h
    split at h
    · simp at h
    · rename_i parts hparts
      have hm := mapE_sem (P := fun x q => mem x q ∧ mem b q) (by simp only [WF] at ha; exact ha.2)
        (fun x y _ hx hxy => hr.mi x b y hx hb hxy) hparts
      have hn := hr.nu _ s ((WFL_mkSS _).2 hm.1) h
      refine ⟨hn.1, fun q => ?_⟩
      rw [hn.2 q, memAny_mkSS, hm.2.1 q]
      simp only [mem, memAny_iff]
      constructor
      · rintro ⟨x, hx, h1, h2⟩
        exact ⟨⟨x, hx, h1⟩, h2⟩
      · rintro ⟨⟨x, hx, h1⟩, h2⟩
        exact ⟨x, hx, h1, h2⟩
  | inter c =>
    simp only [miStep] at h
    have := interLoop_ok hr b c hb (by simpa [WF] using ha) c s (fun x hx => hx) h
    exact ⟨this.1, fun q => by rw [this.2 q]; simp only [mem]; exact and_comm⟩
  | co u c =>
    simp only [miStep] at h
    exact ni_pair hr h ha hb

/-! ### `set_complement` -/

theorem complHelper_ok {r : Ops} (hr : Sound r) (container uni s : SetE) (hc : WF container) (hu : WF uni)
    (h : complHelper r container uni = .ok s) : WF s ∧ ∀ q, mem s q ↔ (mem uni q ∧ ¬ mem container q) := by
  cases uni with
  | un l =>
    simp only [complHelper, bind, Except.bind] at h
    split at h
    · simp at h
    · rename_i parts hparts
      have hm := mapE_sem (P := fun x q => mem x q ∧ ¬ mem container q) (by simp only [WF] at hu; exact hu.2)
        (fun x y _ hx hxy => hr.mc container x y hc hx hxy) hparts
      have hn := hr.nu _ s ((WFL_mkSS _).2 hm.1) h
      refine ⟨hn.1, fun q => ?_⟩
      rw [hn.2 q, memAny_mkSS, hm.2.1 q]
      simp only [mem, memAny_iff]
      constructor
      · rintro ⟨x, hx, h1, h2⟩
        exact ⟨⟨x, hx, h1⟩, h2⟩
      · rintro ⟨⟨x, hx, h1⟩, h2⟩
        exact ⟨x, hx, h1, h2⟩
  | fs l =>
    simp only [complHelper] at h
    cases ok_inj h
    refine ⟨WF_finiteset _, fun q => ?_⟩
    rw [mem_finiteset, List.mem_filter]
    simp only [mem, Bool.not_eq_true', ← contains_iff container q hc]
    cases contains container (ENum.fin q) <;> simp
  | _ =>
    simp only [complHelper] at h
    cases ok_inj h
    first
      | exact ⟨by simp [WF], fun q => by simp only [mem]; tauto⟩
      | exact ⟨by simp only [WF]; exact ⟨hu, hc⟩, fun q => by simp only [mem]⟩

set_option hygiene false in
/-- closes the routine branches of `mcStep_sound` -/
macro "fin_mc" : tactic => `(tactic| first
  | exact complHelper_ok hr _ _ _ ha hb h
  | (cases ok_inj h
     exact ⟨by first | exact hb | simp [WF] | (simp only [WF]; exact ⟨hb, ha⟩), fun q => by simp only [mem]; grind⟩))

theorem mcStep_sound {r : Ops} (hr : Sound r) (a b s : SetE) (ha : WF a) (hb : WF b)
    (h : mcStep r a b = .ok s) : WF s ∧ ∀ q, mem s q ↔ (mem b q ∧ ¬ mem a q) := by
  cases a with
  | empty => cases b <;> simp only [mcStep] at h <;> fin_mc
  | univ => cases b <;> simp only [mcStep] at h <;> fin_mc
  | reals => cases b <;> simp only [mcStep] at h <;> fin_mc
  | rats => cases b <;> simp only [mcStep] at h <;> fin_mc
  | ints => cases b <;> simp only [mcStep] at h <;> fin_mc
  | nats => cases b <;> simp only [mcStep] at h <;> fin_mc
  | nats0 => cases b <;> simp only [mcStep] at h <;> fin_mc
  | iv s1 e1 lo1 ro1 =>
    have ha' : s1 < e1 := by simpa [WF] using ha
    cases b with
    | iv s2 e2 lo2 ro2 =>
      have hb' : s2 < e2 := by simpa [WF] using hb
      simp only [mcStep] at h
      have hsem := ivInterIv_mem s1 e1 lo1 ro1 s2 e2 lo2 ro2 ha' hb'
      split at h
      · rename_i hemp
        cases ok_inj h
        refine ⟨hb, fun q => ?_⟩
        have := hsem q
        rw [hemp] at this
        simp only [mem] at this ⊢
        tauto
      · rename_i hne
        have hmeet := ivInterIv_ne_empty s1 e1 lo1 ro1 s2 e2 lo2 ro2 ha' hb' (fun he => hne he)
        have hn := hr.nu _ s (ivComplPieces_WFL _ _ _ _ _ _ _ _) h
        refine ⟨hn.1, fun q => ?_⟩
        rw [hn.2 q, ivComplPieces_mem s1 e1 lo1 ro1 s2 e2 lo2 ro2 ha' hb' q hmeet]
        simp only [mem]
    | _ => simp only [mcStep] at h <;> fin_mc
  | fs l =>
    cases b with
    | fs l2 =>
      simp only [mcStep] at h
      cases ok_inj h
      refine ⟨WF_finiteset _, fun q => ?_⟩
      rw [mem_finiteset, List.mem_filter]
      simp [mem]
    | iv s2 e2 lo2 ro2 =>
      simp only [mcStep] at h
      have := fsComplIv_ok l s2 e2 lo2 ro2 (by simpa [WF] using hb) h
      simpa only [mem] using this
    | _ => simp only [mcStep] at h <;> fin_mc
  | un c =>
    simp only [mcStep, bind, Except.bind] at h
    split at h
    · simp at h
    · rename_i parts hparts
      have hm := mapE_sem (P := fun x q => mem b q ∧ ¬ mem x q) (by simp only [WF] at ha; exact ha.2)
        (fun x y _ hx hxy => hr.mc x b y hx hb hxy) hparts
      have hn := hr.ni _ s ((WFL_mkSS _).2 hm.1) h
      refine ⟨hn.1, fun q => ?_⟩
      rw [hn.2 q, memAll_mkSS, hm.2.2 q]
      simp only [mem, memAny_iff]
      constructor
      · intro hall
        by_cases hbq : mem b q
        · exact ⟨hbq, fun ⟨x, hx, hq⟩ => (hall x hx).2 hq⟩
        · exfalso
          -- a Union has members
          simp only [WF] at ha
          cases c with
          | nil => exact ha.1 rfl
          | cons x t => exact hbq (hall x List.mem_cons_self).1
      · rintro ⟨hbq, hno⟩ x hx
        exact ⟨hbq, fun hq => hno ⟨x, hx, hq⟩⟩
  | inter c => simp [mcStep] at h
  | co u c => simp [mcStep] at h

end SymVerif.Sets
