import SymVerif.Lemmas.C30Cert
/-!
C30 — the exact (rational-root) branches of `solve_poly_cubic`: constant term 0, and discriminant 0
(double root + simple root, triple root).
-/
namespace SymVerif.C30

set_option linter.unusedSectionVars false
variable {K : Type*} [Field K] [CharZero K]

/-- Δ = 0, Δ₀ = 0 (then Δ₁ = 0): the triple root -b/3 -/
theorem cubic_triple_root (b c d x : K) (h0 : b ^ 2 - 3 * c = 0)
    (h1 : 2 * b ^ 3 - 9 * b * c + 27 * d = 0) :
    x ^ 3 + b * x ^ 2 + c * x + d = 0 ↔ x = -b / 3 := by
  have hid : x ^ 3 + b * x ^ 2 + c * x + d = (x + b / 3) ^ 3 := by
    linear_combination (-(x / 3) - b / 9) * h0 + (1 / 27 : K) * h1
  rw [hid, pow_eq_zero_iff (by norm_num)]
  constructor
  · intro h; linear_combination h
  · intro h; rw [h]; ring

/-- Δ = 0, Δ₀ ≠ 0: the double root (9d - bc)/(2Δ₀) and the simple root (4bc - 9d - b³)/Δ₀ -/
theorem cubic_double_root (b c d x : K) (hD0 : b ^ 2 - 3 * c ≠ 0)
    (hR : 4 * (b ^ 2 - 3 * c) ^ 3 - (2 * b ^ 3 - 9 * b * c + 27 * d) ^ 2 = 0) :
    x ^ 3 + b * x ^ 2 + c * x + d = 0 ↔
      x = (9 * d - b * c) / (2 * (b ^ 2 - 3 * c)) ∨ x = (4 * b * c - (d * 9 + b ^ 3)) / (b ^ 2 - 3 * c) := by
  set r := (9 * d - b * c) / (2 * (b ^ 2 - 3 * c)) with hr
  have h2 : (2 : K) * (b ^ 2 - 3 * c) ≠ 0 := mul_ne_zero (by norm_num) hD0
  have hrd : r * (2 * (b ^ 2 - 3 * c)) = 9 * d - b * c := by rw [hr, div_mul_cancel₀ _ h2]
  -- p'(r) = 0
  have hp' : 3 * r ^ 2 + 2 * b * r + c = 0 := by
    have : (2 * (b ^ 2 - 3 * c)) ^ 2 * (3 * r ^ 2 + 2 * b * r + c) = 0 := by
      linear_combination (3 * (r * (2 * (b ^ 2 - 3 * c))) + 3 * (9 * d - b * c)
        + 4 * b * (b ^ 2 - 3 * c)) * hrd + (-1 / 3 : K) * hR
    rcases mul_eq_zero.mp this with h | h
    · exact absurd (pow_eq_zero_iff (by norm_num) |>.mp h) h2
    · exact h
  -- p(r) = 0
  have hp : r ^ 3 + b * r ^ 2 + c * r + d = 0 := by
    have : (2 * (b ^ 2 - 3 * c)) ^ 3 * (r ^ 3 + b * r ^ 2 + c * r + d) = 0 := by
      linear_combination ((r * (2 * (b ^ 2 - 3 * c))) ^ 2 + (r * (2 * (b ^ 2 - 3 * c))) * (9 * d - b * c)
        + (9 * d - b * c) ^ 2 + 2 * b * (b ^ 2 - 3 * c) * ((r * (2 * (b ^ 2 - 3 * c))) + (9 * d - b * c))
        + 4 * c * (b ^ 2 - 3 * c) ^ 2) * hrd + (-(2 * b ^ 3 - 9 * b * c + 27 * d) / 27) * hR
    rcases mul_eq_zero.mp this with h | h
    · exact absurd (pow_eq_zero_iff (by norm_num) |>.mp h) h2
    · exact h
  have hs : (4 * b * c - (d * 9 + b ^ 3)) / (b ^ 2 - 3 * c) = -b - 2 * r := by
    rw [div_eq_iff hD0]; linear_combination hrd
  rw [hs]
  have hid : x ^ 3 + b * x ^ 2 + c * x + d = (x - r) * ((x - r) * (x - (-b - 2 * r))) := by
    linear_combination (x - r) * hp' + hp
  rw [hid, mul_eq_zero, mul_eq_zero, sub_eq_zero, sub_eq_zero]
  tauto

end SymVerif.C30
