/-
Soundness of ZeroVisitor, NegativeVisitor, NonNegativeVisitor, NonPositiveVisitor and PositiveVisitor
(fuel versions; the headline statements are in Props/C34.lean).
-/
import SymVerif.Lemmas.C34Args

namespace SymVerif.C34
open SymVerif SymVerif.Queries

theorem factsSat_empty (ρ : String → ℝ) : FactsSat ρ Assumptions.empty where
  rat := by intro s hs; simp [Assumptions.empty] at hs
  int := by intro s hs; simp [Assumptions.empty] at hs
  maps := by intro id s b h; cases id <;> simp [Assumptions.empty, Assumptions.getMap] at h

/-! ## appSem on the heads the visitors look through -/

theorem appSem_single {h : String} {x v : ℝ} (hh : h = "Abs" ∨ h = "Conjugate" ∨ h = "Sign")
    (hv : appSem h (some [x]) = some v) : (v = 0 ↔ x = 0) := by
  rcases hh with rfl | rfl | rfl
  · simp [appSem] at hv; subst hv; exact abs_eq_zero
  · simp [appSem] at hv; subst hv; exact Iff.rfl
  · simp [appSem] at hv; subst hv; exact Real.sign_eq_zero_iff

/-- evaluation of a one-argument application -/
theorem evalR_app_single {ρ : String → ℝ} {h : String} {a : Expr} {v : ℝ}
    (hv : evalR ρ (.app h [a]) = some v) : ∃ x, evalR ρ a = some x ∧ appSem h (some [x]) = some v := by
  simp only [evalR, evalArgs] at hv
  cases ha : evalR ρ a with
  | none => simp [ha, appSem] at hv
  | some x => exact ⟨x, rfl, by simpa [ha] using hv⟩

/-! ## ZeroVisitor -/

theorem isZeroF_sound {ρ : String → ℝ} {A : Assumptions} (hA : FactsSat ρ A) :
    ∀ (fuel : Nat) (e : Expr) (v : ℝ), evalR ρ e = some v →
      (isZeroF A fuel e = .t → v = 0) ∧ (isZeroF A fuel e = .f → v ≠ 0) := by
  intro fuel
  induction fuel with
  | zero => intro e v _; simp [isZeroF]
  | succ n ih =>
    intro e v hv
    have hnum : ∀ e' : Expr, e'.isNum = true → evalR ρ e' = some v →
        (Tri.ofBool (numIsZero e') = .t → v = 0) ∧ (Tri.ofBool (numIsZero e') = .f → v ≠ 0) := by
      intro e' hn hv'
      have := numIsZero_iff hn hv'
      cases hz : numIsZero e' <;> simp [Tri.ofBool, hz] at this ⊢ <;> exact this
    cases e with
    | sym s =>
      simp only [isZeroF]
      simp [evalR] at hv; subst hv
      exact ⟨fun h => hA.map_t (id := .zero) h, fun h => hA.map_f (id := .zero) h⟩
    | const c =>
      simp only [isZeroF]
      simp only [evalR] at hv
      exact ⟨by simp, fun _ => ne_of_gt (constVal_pos hv)⟩
    | int k => simpa [isZeroF, Expr.isNum] using hnum (.int k) rfl hv
    | rat k d => simpa [isZeroF, Expr.isNum] using hnum (.rat k d) rfl hv
    | app h args =>
      match args with
      | [a] =>
        simp only [isZeroF]
        split
        · rename_i hc
          have hh : h = "Abs" ∨ h = "Conjugate" ∨ h = "Sign" := by simpa [zeroArgHeads] using hc
          obtain ⟨x, hx, hs⟩ := evalR_app_single hv
          have hiff := appSem_single hh hs
          have := ih a x hx
          exact ⟨fun h => hiff.mpr (this.1 h), fun h hv0 => this.2 h (hiff.mp hv0)⟩
        · simp
      | [] => simp [isZeroF, Expr.isNum]
      | _ :: _ :: _ => simp [isZeroF, Expr.isNum]
    | _ => first | (simp [evalR] at hv; done) | simp [isZeroF, Expr.isNum]

/-! ## NegativeVisitor, NonNegativeVisitor, NonPositiveVisitor -/

theorem isNegative_sound {ρ : String → ℝ} {A : Assumptions} (hA : FactsSat ρ A) {e : Expr} {v : ℝ}
    (hv : evalR ρ e = some v) : (isNegative A e = .t → v < 0) ∧ (isNegative A e = .f → ¬ v < 0) := by
  cases e with
  | sym s =>
    simp only [isNegative]
    simp [evalR] at hv; subst hv
    exact ⟨fun h => hA.map_t (id := .neg) h, fun h => hA.map_f (id := .neg) h⟩
  | const c =>
    simp only [isNegative, evalR] at hv ⊢
    exact ⟨by simp, fun _ => not_lt.mpr (le_of_lt (constVal_pos hv))⟩
  | int k =>
    have h1 := @numIsNeg_sound ρ (.int k) v
    have h2 := @numIsNeg_complete ρ (.int k) v rfl hv
    cases hz : numIsNeg (.int k) <;> simp [isNegative, Expr.isNum, numIsComplexCls, Tri.ofBool, hz] at h1 h2 ⊢
    · exact h2
    · exact h1 hv
  | rat k d =>
    have h1 := @numIsNeg_sound ρ (.rat k d) v
    have h2 := @numIsNeg_complete ρ (.rat k d) v rfl hv
    cases hz : numIsNeg (.rat k d) <;> simp [isNegative, Expr.isNum, numIsComplexCls, Tri.ofBool, hz] at h1 h2 ⊢
    · exact h2
    · exact h1 hv
  | _ => first | (simp [evalR] at hv; done) | simp [isNegative, Expr.isNum]

theorem isNonnegative_sound {ρ : String → ℝ} {A : Assumptions} (hA : FactsSat ρ A) {e : Expr} {v : ℝ}
    (hv : evalR ρ e = some v) : (isNonnegative A e = .t → 0 ≤ v) ∧ (isNonnegative A e = .f → ¬ 0 ≤ v) := by
  cases e with
  | sym s =>
    simp only [isNonnegative]
    simp [evalR] at hv; subst hv
    exact ⟨fun h => hA.map_t (id := .nonneg) h, fun h => hA.map_f (id := .nonneg) h⟩
  | const c =>
    simp only [isNonnegative, evalR] at hv ⊢
    exact ⟨fun _ => le_of_lt (constVal_pos hv), by simp⟩
  | int k =>
    have h1 := @numIsNeg_sound ρ (.int k) v
    have h2 := @numIsNeg_complete ρ (.int k) v rfl hv
    cases hz : numIsNeg (.int k) <;> simp [isNonnegative, Expr.isNum, numIsComplexCls, Tri.ofBool, hz] at h1 h2 ⊢
    · exact h2
    · exact h1 hv
  | rat k d =>
    have h1 := @numIsNeg_sound ρ (.rat k d) v
    have h2 := @numIsNeg_complete ρ (.rat k d) v rfl hv
    cases hz : numIsNeg (.rat k d) <;> simp [isNonnegative, Expr.isNum, numIsComplexCls, Tri.ofBool, hz] at h1 h2 ⊢
    · exact h2
    · exact h1 hv
  | _ => first | (simp [evalR] at hv; done) | simp [isNonnegative, Expr.isNum]

theorem isNonpositive_sound {ρ : String → ℝ} {A : Assumptions} (hA : FactsSat ρ A) {e : Expr} {v : ℝ}
    (hv : evalR ρ e = some v) : (isNonpositive A e = .t → v ≤ 0) ∧ (isNonpositive A e = .f → ¬ v ≤ 0) := by
  cases e with
  | sym s =>
    simp only [isNonpositive]
    simp [evalR] at hv; subst hv
    exact ⟨fun h => hA.map_t (id := .nonpos) h, fun h => hA.map_f (id := .nonpos) h⟩
  | const c =>
    simp only [isNonpositive, evalR] at hv ⊢
    exact ⟨by simp, fun _ => not_le.mpr (constVal_pos hv)⟩
  | int k =>
    have h1 := @numIsPos_sound ρ (.int k) v
    have h2 := @numIsPos_complete ρ (.int k) v rfl hv
    cases hz : numIsPos (.int k) <;> simp [isNonpositive, Expr.isNum, numIsComplexCls, Tri.ofBool, hz] at h1 h2 ⊢
    · exact h2
    · exact h1 hv
  | rat k d =>
    have h1 := @numIsPos_sound ρ (.rat k d) v
    have h2 := @numIsPos_complete ρ (.rat k d) v rfl hv
    cases hz : numIsPos (.rat k d) <;> simp [isNonpositive, Expr.isNum, numIsComplexCls, Tri.ofBool, hz] at h1 h2 ⊢
    · exact h2
    · exact h1 hv
  | _ => first | (simp [evalR] at hv; done) | simp [isNonpositive, Expr.isNum]

/-! ## PositiveVisitor -/

theorem posStep_fst {vpos vneg : Bool} {pk nk : Tri} {st : Bool × Bool}
    (h : (posStep vpos vneg pk nk st).1 = true) :
    st.1 = true ∧ ((vpos = true ∧ pk = .t) ∨ (vneg = true ∧ nk = .t)) := by
  unfold posStep at h
  split at h
  · rename_i hc
    refine ⟨h, ?_⟩
    simpa using hc
  · split at h <;> simp at h

theorem posStep_snd {vpos vneg : Bool} {pk nk : Tri} {st : Bool × Bool}
    (h : (posStep vpos vneg pk nk st).2 = true) :
    st.2 = true ∧ ((vneg = true ∧ pk = .t) ∨ (vpos = true ∧ nk = .t)) := by
  unfold posStep at h
  split at h
  · simp at h
  · split at h
    · rename_i hc
      refine ⟨h, ?_⟩
      simpa using hc
    · simp at h

/-- invariant of the loop of `PositiveVisitor::bvisit(const Add &)` -/
theorem posFold_sound {ρ : String → ℝ} {pk nk : Expr → Tri} :
    ∀ (ts : List (Expr × Expr)) (st : Bool × Bool) (vs : ℝ),
      (∀ p ∈ ts, ∀ vk, evalR ρ p.1 = some vk → (pk p.1 = .t → 0 < vk) ∧ (nk p.1 = .t → vk < 0)) →
      evalTerms ρ ts = some vs →
      ((posFold pk nk ts st).1 = true → st.1 = true ∧ 0 ≤ vs ∧ (ts ≠ [] → 0 < vs)) ∧
      ((posFold pk nk ts st).2 = true → st.2 = true ∧ vs ≤ 0 ∧ (ts ≠ [] → vs < 0)) := by
  intro ts
  induction ts with
  | nil =>
    intro st vs _ h
    simp [evalTerms] at h; subst h
    simp [posFold]
  | cons p t ih =>
    obtain ⟨k, v⟩ := p
    intro st vs hkeys h
    simp only [evalTerms] at h
    cases hk : evalR ρ k with
    | none => simp [hk] at h
    | some vk =>
      cases hvv : evalR ρ v with
      | none => simp [hk, hvv] at h
      | some vv =>
        cases ht : evalTerms ρ t with
        | none => simp [hk, hvv, ht] at h
        | some vt =>
          simp [hk, hvv, ht] at h
          subst h
          simp only [posFold]
          have hkk := hkeys (k, v) (by simp) vk hk
          have := ih (posStep (numIsPos v) (numIsNeg v) (pk k) (nk k) st) vt
            (fun p hp => hkeys p (List.mem_cons_of_mem _ hp)) ht
          constructor
          · intro h1
            obtain ⟨hs, hvt, _⟩ := this.1 h1
            obtain ⟨hst, hor⟩ := posStep_fst hs
            have hterm : 0 < vk * vv := by
              rcases hor with ⟨hp, hpk'⟩ | ⟨hn, hnk'⟩
              · exact mul_pos (hkk.1 hpk') (numIsPos_sound hp hvv)
              · exact mul_pos_of_neg_of_neg (hkk.2 hnk') (numIsNeg_sound hn hvv)
            exact ⟨hst, by linarith, fun _ => by linarith⟩
          · intro h1
            obtain ⟨hs, hvt, _⟩ := this.2 h1
            obtain ⟨hst, hor⟩ := posStep_snd hs
            have hterm : vk * vv < 0 := by
              rcases hor with ⟨hn, hpk'⟩ | ⟨hp, hnk'⟩
              · exact mul_neg_of_pos_of_neg (hkk.1 hpk') (numIsNeg_sound hn hvv)
              · exact mul_neg_of_neg_of_pos (hkk.2 hnk') (numIsPos_sound hp hvv)
            exact ⟨hst, by linarith, fun _ => by linarith⟩

theorem wfTerms_key : ∀ {ts : List (Expr × Expr)}, wfTerms ts = true → ∀ p ∈ ts, wf p.1 = true := by
  intro ts
  induction ts with
  | nil => intro _ p hp; cases hp
  | cons q t ih =>
    obtain ⟨k, v⟩ := q
    intro hw p hp
    simp only [wfTerms, Bool.and_eq_true] at hw
    rcases List.mem_cons.mp hp with rfl | hp
    · exact hw.1.1.1.1.1
    · exact ih hw.2 p hp

theorem isPositiveF_sound {ρ : String → ℝ} {A : Assumptions} (hA : FactsSat ρ A) :
    ∀ (fuel : Nat) (e : Expr) (v : ℝ), wf e = true → evalR ρ e = some v →
      (isPositiveF A fuel e = .t → 0 < v) ∧ (isPositiveF A fuel e = .f → ¬ 0 < v) := by
  intro fuel
  induction fuel with
  | zero => intro e v _ _; simp [isPositiveF]
  | succ n ih =>
    intro e v hw hv
    cases e with
    | sym s =>
      simp only [isPositiveF]
      simp [evalR] at hv; subst hv
      exact ⟨fun h => hA.map_t (id := .pos) h, fun h => hA.map_f (id := .pos) h⟩
    | const c =>
      simp only [isPositiveF, evalR] at hv ⊢
      exact ⟨fun _ => constVal_pos hv, by simp⟩
    | int k =>
      have h1 := @numIsPos_sound ρ (.int k) v
      have h2 := @numIsPos_complete ρ (.int k) v rfl hv
      cases hz : numIsPos (.int k) <;> simp [isPositiveF, Expr.isNum, numIsComplexCls, Tri.ofBool, hz] at h1 h2 ⊢
      · exact h2
      · exact h1 hv
    | rat k d =>
      have h1 := @numIsPos_sound ρ (.rat k d) v
      have h2 := @numIsPos_complete ρ (.rat k d) v rfl hv
      cases hz : numIsPos (.rat k d) <;> simp [isPositiveF, Expr.isNum, numIsComplexCls, Tri.ofBool, hz] at h1 h2 ⊢
      · exact h2
      · exact h1 hv
    | add c ts =>
      simp only [isPositiveF]
      simp only [wf, Bool.and_eq_true] at hw
      obtain ⟨⟨⟨⟨hwc, hnum⟩, _⟩, hne⟩, hts⟩ := hw
      have hne' : ts ≠ [] := by
        intro h0; subst h0; simp at hne
      simp only [evalR] at hv
      cases hc : evalR ρ c with
      | none => simp [hc] at hv
      | some vc =>
        cases hs : evalTerms ρ ts with
        | none => simp [hc, hs] at hv
        | some vs =>
          simp [hc, hs] at hv
          subst hv
          have hfold := posFold_sound (ρ := ρ) (pk := isPositiveF A n) (nk := isNegative A) ts
            (!numIsNeg c, !numIsPos c) vs
            (fun p hp vk hk => ⟨(ih p.1 vk (wfTerms_key hts p hp) hk).1, (isNegative_sound hA hk).1⟩) hs
          constructor
          · intro hr
            have h1 : (posFold (isPositiveF A n) (isNegative A) ts (!numIsNeg c, !numIsPos c)).1 = true := by
              unfold posResult at hr
              split at hr
              · assumption
              · split at hr <;> cases hr
            obtain ⟨hc1, _, hpos⟩ := hfold.1 h1
            have hvc : 0 ≤ vc := by
              by_contra hlt
              have := numIsNeg_complete hnum hc (not_le.mp hlt)
              simp [this] at hc1
            linarith [hpos hne']
          · intro hr
            have h2 : (posFold (isPositiveF A n) (isNegative A) ts (!numIsNeg c, !numIsPos c)).2 = true := by
              unfold posResult at hr
              split at hr
              · cases hr
              · split at hr
                · assumption
                · cases hr
            obtain ⟨hc2, _, hneg⟩ := hfold.2 h2
            have hvc : vc ≤ 0 := by
              by_contra hlt
              have := numIsPos_complete hnum hc (not_le.mp hlt)
              simp [this] at hc2
            linarith [hneg hne']
    | _ => first | (simp [evalR] at hv; done) | simp [isPositiveF, Expr.isNum]

end SymVerif.C34
