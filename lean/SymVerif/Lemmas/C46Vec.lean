import SymVerif.Model.LDE
import Mathlib.Algebra.BigOperators.Group.Finset.Basic
import Mathlib.Algebra.Order.BigOperators.Group.Finset
import Mathlib.Algebra.BigOperators.Ring.Finset
import Mathlib.Tactic.Ring
import Mathlib.Tactic.Linarith
/-!
Vector facts for C46 (homogeneous linear Diophantine systems): components, the dominance order
computed by `order`, solutions, minimal solutions, and the Contejean–Devie descent argument
`A t ≠ 0, t ≤ m, A m = 0  ⟹  ∃ i, t_i < m_i ∧ ⟨A t, A e_i⟩ < 0`.
-/
namespace SymVerif.C46
open SymVerif.LDE

/-- component `i` of a row vector (0 beyond the end) -/
def cmp (v : Vec) (i : ℕ) : ℤ := v.getD i 0

@[simp] theorem cmp_nil (i : ℕ) : cmp [] i = 0 := by simp [cmp]
@[simp] theorem cmp_cons_zero (a : ℤ) (v : Vec) : cmp (a :: v) 0 = a := by simp [cmp]
@[simp] theorem cmp_cons_succ (a : ℤ) (v : Vec) (i : ℕ) : cmp (a :: v) (i + 1) = cmp v i := by
  simp [cmp]

theorem cmp_of_le_length {v : Vec} {i : ℕ} (h : v.length ≤ i) : cmp v i = 0 := by
  simp [cmp, List.getD_eq_getElem?_getD, List.getElem?_eq_none h]

/-- equal lengths and equal components: equal vectors -/
theorem vec_ext : ∀ {u v : Vec}, u.length = v.length → (∀ i, cmp u i = cmp v i) → u = v
  | [], [], _, _ => rfl
  | [], _ :: _, h, _ => by simp at h
  | _ :: _, [], h, _ => by simp at h
  | a :: u, b :: v, h, hc => by
    have h0 := hc 0
    simp only [cmp_cons_zero] at h0
    have := vec_ext (u := u) (v := v) (by simpa using h) (fun i => by simpa using hc (i + 1))
    rw [h0, this]

theorem cmp_incAt (v : Vec) (j : ℕ) (d : ℤ) (i : ℕ) :
    cmp (incAt v j d) i = if i = j ∧ j < v.length then cmp v i + d else cmp v i := by
  unfold cmp incAt
  rw [List.getD_eq_getElem?_getD, List.getD_eq_getElem?_getD, List.getElem?_modify]
  by_cases hij : i = j
  · subst hij
    by_cases hl : i < v.length
    · simp [hl]
    · simp [hl]
  · have : ¬ (j = i) := fun h => hij h.symm
    simp [hij, this]

@[simp] theorem length_incAt (v : Vec) (j : ℕ) (d : ℤ) : (incAt v j d).length = v.length := by
  simp [incAt]

/-- the C++ keeps one `T` and moves the unit: `T[i] += 1; T[i-1] -= 1` -/
theorem incAt_move (t : Vec) (j : ℕ) :
    incAt (incAt (incAt t j 1) (j + 1) 1) j (-1) = incAt t (j + 1) 1 := by
  apply vec_ext (by simp)
  intro i
  simp only [cmp_incAt, length_incAt]
  by_cases h1 : i = j
  · subst h1
    by_cases h2 : i < t.length
    · simp [h2]
    · simp [h2]
  · have h3 : ¬ (i = j ∧ j < t.length) := by omega
    simp [h3]

theorem isZero_iff (v : Vec) : isZero v = true ↔ ∀ i, cmp v i = 0 := by
  induction v with
  | nil => simp [isZero]
  | cons a v ih =>
    unfold isZero at ih ⊢
    rw [List.all_cons, Bool.and_eq_true, ih]
    constructor
    · rintro ⟨h1, h2⟩ i
      cases i with
      | zero => simpa using h1
      | succ i => simpa using h2 i
    · intro h
      exact ⟨by simpa using h 0, fun i => by simpa using h (i + 1)⟩

theorem cmp_replicate_zero (q i : ℕ) : cmp (List.replicate q 0) i = 0 := by
  unfold cmp
  rw [List.getD_eq_getElem?_getD]
  by_cases h : i < q
  · simp [h]
  · simp [Nat.le_of_not_lt h]

/-! ### the dominance order computed by `order` -/

theorem orderGo_spec : ∀ (t b : Vec) (eq : Bool), t.length = b.length →
    (orderGo t b eq = true ↔ (∀ i, cmp b i ≤ cmp t i) ∧ (eq = false ∨ t ≠ b))
  | [], [], eq, _ => by cases eq <;> simp [orderGo]
  | [], _ :: _, _, h => by simp at h
  | _ :: _, [], _, h => by simp at h
  | tj :: ts, bj :: bs, eq, h => by
    have hl : ts.length = bs.length := by simpa using h
    unfold orderGo
    by_cases h1 : tj < bj
    · simp only [h1, if_true]
      constructor
      · intro hf; exact absurd hf (by simp)
      · rintro ⟨hle, _⟩
        have := hle 0
        simp only [cmp_cons_zero] at this
        omega
    · simp only [h1, if_false]
      rw [orderGo_spec ts bs _ hl]
      constructor
      · rintro ⟨hle, hne⟩
        refine ⟨?_, ?_⟩
        · intro i
          cases i with
          | zero => simp; omega
          | succ i => simpa using hle i
        · by_cases h2 : tj > bj
          · right; intro he; injection he with he1 _; omega
          · simp only [h2, if_false] at hne
            rcases hne with hne | hne
            · left; exact hne
            · right; intro he; injection he with _ he2; exact hne he2
      · rintro ⟨hle, hne⟩
        refine ⟨fun i => by simpa using hle (i + 1), ?_⟩
        by_cases h2 : tj > bj
        · simp [h2]
        · simp only [h2, if_false]
          rcases hne with hne | hne
          · left; exact hne
          · right
            intro he
            apply hne
            have : tj = bj := by omega
            rw [this, he]

theorem order_spec {t b : Vec} (h : t.length = b.length) :
    order t b = true ↔ (∀ i, cmp b i ≤ cmp t i) ∧ t ≠ b := by
  unfold order
  rw [orderGo_spec t b true h]
  simp

theorem isMinimum_spec (t : Vec) (basis : List Vec) :
    isMinimum t basis = true ↔ ∀ b ∈ basis, order t b = false := by
  induction basis with
  | nil => simp [isMinimum]
  | cons b rest ih =>
    unfold isMinimum
    rw [Bool.and_eq_true, ih]
    simp

/-! ### sums of components -/

theorem sum_lt_of_le_ne : ∀ (u v : Vec), u.length = v.length → (∀ i, cmp u i ≤ cmp v i) → u ≠ v →
    u.sum < v.sum
  | [], [], _, _, hne => absurd rfl hne
  | [], _ :: _, h, _, _ => by simp at h
  | _ :: _, [], h, _, _ => by simp at h
  | a :: u, b :: v, h, hle, hne => by
    have hl : u.length = v.length := by simpa using h
    have h0 := hle 0
    simp only [cmp_cons_zero] at h0
    have hle' : ∀ i, cmp u i ≤ cmp v i := fun i => by simpa using hle (i + 1)
    simp only [List.sum_cons]
    by_cases huv : u = v
    · subst huv
      have : a ≠ b := fun hab => hne (by rw [hab])
      omega
    · have := sum_lt_of_le_ne u v hl hle' huv
      omega

theorem sum_nonneg_of_nonneg : ∀ (v : Vec), (∀ i, 0 ≤ cmp v i) → 0 ≤ v.sum
  | [], _ => by simp
  | a :: v, h => by
    have h0 := h 0
    simp only [cmp_cons_zero] at h0
    have := sum_nonneg_of_nonneg v (fun i => by simpa using h (i + 1))
    simp only [List.sum_cons]
    omega

/-! ### linear algebra on lists -/

theorem dot_eq_sum : ∀ (r v : Vec) (q : ℕ), r.length = q → v.length = q →
    dot r v = ∑ i ∈ Finset.range q, cmp r i * cmp v i
  | [], [], q, h, _ => by subst h; simp [dot]
  | [], _ :: _, q, h, h' => by subst h; simp at h'
  | _ :: _, [], q, h, h' => by subst h'; simp at h
  | a :: r, b :: v, q, h, h' => by
    obtain ⟨q', rfl⟩ : ∃ q', q = q' + 1 := ⟨r.length, by simpa using h.symm⟩
    rw [Finset.sum_range_succ', dot, dot_eq_sum r v q' (by simpa using h) (by simpa using h')]
    simp only [cmp_cons_succ, cmp_cons_zero]
    ring

theorem dot_zero_right : ∀ (u z : Vec), (∀ i, cmp z i = 0) → dot u z = 0
  | [], _, _ => by simp [dot]
  | _ :: _, [], _ => by simp [dot]
  | a :: u, b :: z, h => by
    have h0 := h 0
    simp only [cmp_cons_zero] at h0
    rw [dot, dot_zero_right u z (fun i => by simpa using h (i + 1)), h0]
    ring

theorem dot_self_pos : ∀ (u : Vec), isZero u = false → 0 < dot u u
  | [], h => by simp [isZero] at h
  | a :: u, h => by
    rw [dot]
    by_cases ha : a = 0
    · subst ha
      have : isZero u = false := by
        simpa [isZero] using h
      have := dot_self_pos u this
      linarith
    · have h1 : 0 < a * a := mul_self_pos.mpr ha
      have h2 : 0 ≤ dot u u := by
        by_cases hz : isZero u = true
        · rw [dot_zero_right u u ((isZero_iff u).mp hz)]
        · exact le_of_lt (dot_self_pos u (by simpa using hz))
      linarith

/-- `Σ_i (m_i - t_i) ⟨A t, A e_i⟩ = ⟨A t, A m⟩ - ⟨A t, A t⟩` -/
theorem sum_colDot (q : ℕ) (m t : Vec) (hm : m.length = q) (ht : t.length = q) :
    ∀ (A : List Vec), (∀ r ∈ A, r.length = q) →
    ∑ i ∈ Finset.range q, (cmp m i - cmp t i) * colDot A (mulVec A t) i
      = dot (mulVec A t) (mulVec A m) - dot (mulVec A t) (mulVec A t)
  | [], _ => by simp [mulVec, colDot, dot]
  | r :: A, h => by
    have hr : r.length = q := h r (by simp)
    have ih := sum_colDot q m t hm ht A (fun r' hr' => h r' (by simp [hr']))
    simp only [mulVec, List.map_cons, colDot, dot] at ih ⊢
    have h1 : ∀ i, (cmp m i - cmp t i) * (dot r t * r.getD i 0 + colDot A (List.map (fun row => dot row t) A) i)
        = dot r t * (cmp r i * cmp m i) - dot r t * (cmp r i * cmp t i)
          + (cmp m i - cmp t i) * colDot A (List.map (fun row => dot row t) A) i := by
      intro i; unfold cmp; ring
    simp only [h1, Finset.sum_add_distrib, Finset.sum_sub_distrib, ← Finset.mul_sum]
    rw [ih, ← dot_eq_sum r m q hr hm, ← dot_eq_sum r t q hr ht]
    ring

/-- the Contejean–Devie step: below a solution `m`, a non-solution `t` has an admissible direction -/
theorem exists_descent (q : ℕ) (A : List Vec) (hA : ∀ r ∈ A, r.length = q) (m t : Vec)
    (hm : m.length = q) (ht : t.length = q) (hle : ∀ i, cmp t i ≤ cmp m i)
    (hAm : isZero (mulVec A m) = true) (hAt : isZero (mulVec A t) = false) :
    ∃ i, i < q ∧ cmp t i < cmp m i ∧ colDot A (mulVec A t) i < 0 := by
  by_contra hcon
  push Not at hcon
  have hsum := sum_colDot q m t hm ht A hA
  rw [dot_zero_right _ _ ((isZero_iff _).mp hAm)] at hsum
  have hpos := dot_self_pos _ hAt
  have hnn : 0 ≤ ∑ i ∈ Finset.range q, (cmp m i - cmp t i) * colDot A (mulVec A t) i := by
    apply Finset.sum_nonneg
    intro i hi
    have hi' : i < q := Finset.mem_range.mp hi
    by_cases hlt : cmp t i < cmp m i
    · exact mul_nonneg (by linarith) (hcon i hi' hlt)
    · have : cmp m i - cmp t i = 0 := by have := hle i; omega
      rw [this]; simp
  linarith

end SymVerif.C46
