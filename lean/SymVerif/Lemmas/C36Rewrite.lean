/-
C36 — the value of the rewrite models (`rewriteWith` with sound rules) and inversion lemmas for
the raw tree constructors of Model/Rewrite.lean.
-/
import SymVerif.Lemmas.C37Tree
import SymVerif.Model.Rewrite

namespace SymVerif
namespace Rewrite

open NF CSE
open Classical

set_option linter.unusedSectionVars false

section
variable {K : Type} [Field K] [CharZero K] {M : Interp K}

/-! ### evaluation of the raw constructors -/

theorem evalS_iE : evalS M iE = some M.I := by
  simp [iE, evalS]

theorem evalS_app1 (h : String) (a : Expr) :
    evalS M (.app h [a]) = (evalS M a).map (fun v => M.app h [v]) := by
  simp only [evalS, evalSList]
  cases evalS M a <;> simp [consO]

theorem evalS_fn1 (h : String) (a : Expr) :
    evalS M (fn1 h a) = (evalS M a).map (fun v => M.app h [v]) := evalS_app1 h a

theorem evalS_mkMulC {c a : Expr} {vc va : K} (hc : evalS M c = some vc) (ha : evalS M a = some va) :
    evalS M (mkMulC c a) = some (vc * va) := by
  simp [mkMulC, evalS, evalSFacs, intLit?, hc, ha, powVal, mul2]

theorem evalS_mkNeg {a : Expr} {va : K} (ha : evalS M a = some va) :
    evalS M (mkNeg a) = some (-va) := by
  unfold mkNeg
  split
  · simp only [evalS, Option.some.injEq] at ha ⊢; rw [← ha]; push_cast; ring
  · rename_i n d
    simp only [evalS] at ha ⊢
    split at ha
    · cases ha
    · rename_i hd
      simp only [Option.some.injEq] at ha
      simp only [hd, if_false, Option.some.injEq]
      rw [← ha]; push_cast; ring
  · simp [evalS, evalSFacs, intLit?, ha, powVal, mul2]

theorem evalS_mkAdd2 {a b : Expr} {va vb : K} (ha : evalS M a = some va) (hb : evalS M b = some vb) :
    evalS M (mkAdd2 a b) = some (va + vb) := by
  simp [mkAdd2, evalS, evalSTerms, ha, hb, add2, mul2]

theorem evalS_mkSub {a b : Expr} {va vb : K} (ha : evalS M a = some va) (hb : evalS M b = some vb) :
    evalS M (mkSub a b) = some (va - vb) := by
  simp [mkSub, evalS, evalSTerms, ha, hb, add2, mul2]
  ring

theorem evalS_mkMul2 {a b : Expr} {va vb : K} (ha : evalS M a = some va) (hb : evalS M b = some vb) :
    evalS M (mkMul2 a b) = some (va * vb) := by
  simp [mkMul2, evalS, evalSFacs, intLit?, ha, hb, powVal, mul2]

theorem evalS_mkDiv {a b : Expr} {va vb : K} (ha : evalS M a = some va) (hb : evalS M b = some vb)
    (hne : vb ≠ 0) : evalS M (mkDiv a b) = some (va / vb) := by
  simp [mkDiv, evalS, evalSFacs, intLit?, ha, hb, powVal, hne, mul2, div_eq_mul_inv]

/-- subterm definedness: if `mkDiv a b` is defined then so are `a`, `b`, and `b ≠ 0` -/
theorem evalS_mkDiv_inv {a b : Expr} {w : K} (h : evalS M (mkDiv a b) = some w) :
    ∃ va vb, evalS M a = some va ∧ evalS M b = some vb ∧ vb ≠ 0 ∧ w = va / vb := by
  simp only [mkDiv, evalS, evalSFacs, intLit?] at h
  obtain ⟨c, r, hc, hr, rfl⟩ := mul2_some h
  obtain ⟨x, r2, hx, hr2, rfl⟩ := mul2_some hr
  obtain ⟨y, one, hy, hone, rfl⟩ := mul2_some hr2
  obtain ⟨va, hva, _, rfl⟩ := bind_powVal_some hx
  obtain ⟨vb, hvb, hz, rfl⟩ := bind_powVal_some hy
  simp only [Option.some.injEq] at hc hone
  subst hc; subst hone
  refine ⟨va, vb, hva, hvb, hz (by decide), ?_⟩
  simp [div_eq_mul_inv]

theorem evalS_mkAdd2_inv {a b : Expr} {w : K} (h : evalS M (mkAdd2 a b) = some w) :
    ∃ va vb, evalS M a = some va ∧ evalS M b = some vb ∧ w = va + vb := by
  simp only [mkAdd2, evalS, evalSTerms] at h
  obtain ⟨c, r, hc, hr, rfl⟩ := add2_some h
  obtain ⟨x, r2, hx, hr2, rfl⟩ := add2_some hr
  obtain ⟨y, z, hy, hz, rfl⟩ := add2_some hr2
  obtain ⟨va, o1, hva, ho1, rfl⟩ := mul2_some hx
  obtain ⟨vb, o2, hvb, ho2, rfl⟩ := mul2_some hy
  simp only [Option.some.injEq] at hc hz ho1 ho2
  subst hc; subst hz; subst ho1; subst ho2
  exact ⟨va, vb, hva, hvb, by push_cast; ring⟩

theorem evalS_mkSub_inv {a b : Expr} {w : K} (h : evalS M (mkSub a b) = some w) :
    ∃ va vb, evalS M a = some va ∧ evalS M b = some vb ∧ w = va - vb := by
  simp only [mkSub, evalS, evalSTerms] at h
  obtain ⟨c, r, hc, hr, rfl⟩ := add2_some h
  obtain ⟨x, r2, hx, hr2, rfl⟩ := add2_some hr
  obtain ⟨y, z, hy, hz, rfl⟩ := add2_some hr2
  obtain ⟨va, o1, hva, ho1, rfl⟩ := mul2_some hx
  obtain ⟨vb, o2, hvb, ho2, rfl⟩ := mul2_some hy
  simp only [Option.some.injEq] at hc hz ho1 ho2
  subst hc; subst hz; subst ho1; subst ho2
  exact ⟨va, vb, hva, hvb, by push_cast; ring⟩

theorem evalS_mkMul2_inv {a b : Expr} {w : K} (h : evalS M (mkMul2 a b) = some w) :
    ∃ va vb, evalS M a = some va ∧ evalS M b = some vb ∧ w = va * vb := by
  simp only [mkMul2, evalS, evalSFacs, intLit?] at h
  obtain ⟨c, r, hc, hr, rfl⟩ := mul2_some h
  obtain ⟨x, r2, hx, hr2, rfl⟩ := mul2_some hr
  obtain ⟨y, one, hy, hone, rfl⟩ := mul2_some hr2
  obtain ⟨va, hva, _, rfl⟩ := bind_powVal_some hx
  obtain ⟨vb, hvb, _, rfl⟩ := bind_powVal_some hy
  simp only [Option.some.injEq] at hc hone
  subst hc; subst hone
  exact ⟨va, vb, hva, hvb, by simp⟩

theorem evalS_mkMulC_inv {c a : Expr} {w : K} (h : evalS M (mkMulC c a) = some w) :
    ∃ vc va, evalS M c = some vc ∧ evalS M a = some va ∧ w = vc * va := by
  simp only [mkMulC, evalS, evalSFacs, intLit?] at h
  obtain ⟨vc, r, hc, hr, rfl⟩ := mul2_some h
  obtain ⟨x, one, hx, hone, rfl⟩ := mul2_some hr
  obtain ⟨va, hva, _, rfl⟩ := bind_powVal_some hx
  simp only [Option.some.injEq] at hone
  subst hone
  exact ⟨vc, va, hc, hva, by simp⟩

theorem evalS_fn1_inv {h : String} {a : Expr} {w : K} (hw : evalS M (fn1 h a) = some w) :
    ∃ va, evalS M a = some va ∧ w = M.app h [va] := by
  rw [evalS_fn1] at hw
  cases ha : evalS M a with
  | none => simp [ha] at hw
  | some va => simp only [ha, Option.map_some, Option.some.injEq] at hw; exact ⟨va, rfl, hw.symm⟩

theorem pw_intCast (hM : Lawful M) (b : K) (n : ℤ) (hb : b ≠ 0) : M.pw b (n : K) = b ^ n := by
  have h0 : M.pw b 0 = 1 := by
    have := hM.pw_mul_int b 0 0 hb
    simpa using this.symm
  have := hM.pw_add_int b 0 n hb
  simpa [h0] using this

/-! ### the generic rewrite theorem -/

/-- a rule is sound when, wherever its result is defined, the (rewritten) argument is defined and the
result has the value of the function application -/
def RuleSound (M : Interp K) (rule : String → Expr → Option Expr) : Prop :=
  ∀ h a r w, rule h a = some r → evalS M r = some w →
    ∃ va, evalS M a = some va ∧ w = M.app h [va]

theorem rewriteList_length (rule : String → Expr → Option Expr) :
    ∀ l : List Expr, (rewriteList rule l).length = l.length
  | [] => rfl
  | a :: t => by simp [rewriteList, rewriteList_length rule t]

/-- the `Pow` node / `Mul` entry `(b, e)`, given the statement for `b` and `e` -/
theorem facVal_rewrite_of (hM : Lawful M) {rule : String → Expr → Option Expr} (b e : Expr)
    (hbI : ∀ v w : K, evalS M b = some v → evalS M (rewriteWith rule b) = some w → w = v)
    (heI : ∀ v w : K, evalS M e = some v → evalS M (rewriteWith rule e) = some w → w = v)
    (v w : K) (hv : facVal M b e = some v)
    (hw : facVal M (rewriteWith rule b) (rewriteWith rule e) = some w) : w = v := by
  cases he : intLit? e with
  | some n =>
    have he' : rewriteWith rule e = e := by
      cases e <;> simp [intLit?] at he
      rfl
    rw [he'] at hw
    simp only [facVal, he] at hv hw
    obtain ⟨a, ha, _, rfl⟩ := bind_powVal_some hv
    obtain ⟨a', ha', _, rfl⟩ := bind_powVal_some hw
    rw [hbI a a' ha ha']
  | none =>
    simp only [facVal, he] at hv
    obtain ⟨vb, ve, hvb, hve, hne, rfl⟩ := pwVal_some hv
    cases he2 : intLit? (rewriteWith rule e) with
    | none =>
      simp only [facVal, he2] at hw
      obtain ⟨vb', ve', hvb', hve', hne', rfl⟩ := pwVal_some hw
      rw [hbI vb vb' hvb hvb', heI ve ve' hve hve']
    | some n =>
      simp only [facVal, he2] at hw
      obtain ⟨vb', hvb', hz, rfl⟩ := bind_powVal_some hw
      have hb := hbI vb vb' hvb hvb'
      have hlit : evalS M (rewriteWith rule e) = some (n : K) := by
        cases hr : rewriteWith rule e <;> simp [hr, intLit?] at he2
        subst he2
        simp [evalS]
      have hve' := heI ve (n : K) hve hlit
      subst hb
      rw [← hve']
      exact (pw_intCast hM vb' n hne).symm

mutual
  theorem rewriteWith_value (hM : Lawful M) {rule : String → Expr → Option Expr} (hR : RuleSound M rule) :
      ∀ (e : Expr) (v w : K), evalS M e = some v → evalS M (rewriteWith rule e) = some w → w = v
    | .add c ts, v, w, hv, hw => by
      simp only [rewriteWith, evalS] at hv hw
      obtain ⟨a, b, ha, hb, rfl⟩ := add2_some hv
      obtain ⟨a', b', ha', hb', rfl⟩ := add2_some hw
      rw [ha] at ha'; cases ha'
      rw [rewriteTerms_value hM hR ts b b' hb hb']
    | .mul c fs, v, w, hv, hw => by
      simp only [rewriteWith, evalS] at hv hw
      obtain ⟨a, b, ha, hb, rfl⟩ := mul2_some hv
      obtain ⟨a', b', ha', hb', rfl⟩ := mul2_some hw
      rw [ha] at ha'; cases ha'
      rw [rewriteFacs_value hM hR fs b b' hb hb']
    | .pow b e, v, w, hv, hw => by
      simp only [rewriteWith] at hw
      rw [evalS_pow_eq] at hv hw
      exact facVal_rewrite_of hM b e (rewriteWith_value hM hR b) (rewriteWith_value hM hR e) v w hv hw
    | .fsym n args, v, w, hv, hw => by
      simp only [rewriteWith, evalS] at hv hw
      cases h1 : evalSList M args with
      | none => simp [h1] at hv
      | some xs =>
        cases h2 : evalSList M (rewriteList rule args) with
        | none => simp [h2] at hw
        | some ys =>
          simp only [h1, h2, Option.map_some, Option.some.injEq] at hv hw
          rw [← hv, ← hw, rewriteList_value hM hR args xs ys h1 h2]
    | .app hd args, v, w, hv, hw => by
      simp only [rewriteWith] at hw
      simp only [evalS] at hv
      cases h1 : evalSList M args with
      | none => simp [h1] at hv
      | some xs =>
        simp only [h1, Option.map_some, Option.some.injEq] at hv
        split at hw
        · rename_i a' hl
          -- one argument
          have hlen := rewriteList_length rule args
          rw [hl] at hlen
          match args, hl, h1, hlen with
          | [a], hl, h1, _ =>
            simp only [rewriteList, List.cons.injEq, and_true] at hl
            simp only [evalSList] at h1
            cases ha : evalS M a with
            | none => simp [ha, consO] at h1
            | some va =>
              simp only [ha, consO, Option.some.injEq] at h1
              subst h1
              split at hw
              · rename_i r hr
                obtain ⟨va', hva', rfl⟩ := hR hd a' r w hr hw
                rw [← hl] at hva'
                rw [rewriteWith_value hM hR a va va' ha hva', ← hv]
              · rw [evalS_app1] at hw
                cases ha' : evalS M a' with
                | none => simp [ha'] at hw
                | some va' =>
                  simp only [ha', Option.map_some, Option.some.injEq] at hw
                  rw [← hl] at ha'
                  rw [← hw, rewriteWith_value hM hR a va va' ha ha', ← hv]
        · simp only [evalS] at hw
          cases h2 : evalSList M (rewriteList rule args) with
          | none => simp [h2] at hw
          | some ys =>
            simp only [h2, Option.map_some, Option.some.injEq] at hw
            rw [← hv, ← hw, rewriteList_value hM hR args xs ys h1 h2]
    | .int _, v, w, hv, hw => by simp only [rewriteWith] at hw; rw [hv] at hw; exact (Option.some.inj hw).symm
    | .rat _ _, v, w, hv, hw => by simp only [rewriteWith] at hw; rw [hv] at hw; exact (Option.some.inj hw).symm
    | .cplx _ _, v, w, hv, hw => by simp only [rewriteWith] at hw; rw [hv] at hw; exact (Option.some.inj hw).symm
    | .dbl _, v, w, hv, hw => by simp [evalS] at hv
    | .cdbl _ _, v, w, hv, hw => by simp [evalS] at hv
    | .infty _, v, w, hv, hw => by simp [evalS] at hv
    | .nan, v, w, hv, hw => by simp [evalS] at hv
    | .sym _, v, w, hv, hw => by simp only [rewriteWith] at hw; rw [hv] at hw; exact (Option.some.inj hw).symm
    | .dummy _ _, v, w, hv, hw => by simp only [rewriteWith] at hw; rw [hv] at hw; exact (Option.some.inj hw).symm
    | .const _, v, w, hv, hw => by simp only [rewriteWith] at hw; rw [hv] at hw; exact (Option.some.inj hw).symm
    | .bool _, v, w, hv, hw => by simp [evalS] at hv
  theorem rewriteList_value (hM : Lawful M) {rule : String → Expr → Option Expr} (hR : RuleSound M rule) :
      ∀ (l : List Expr) (xs ys : List K), evalSList M l = some xs →
        evalSList M (rewriteList rule l) = some ys → ys = xs
    | [], xs, ys, hx, hy => by
      simp only [rewriteList, evalSList, Option.some.injEq] at hx hy; rw [← hx, ← hy]
    | a :: t, xs, ys, hx, hy => by
      simp only [rewriteList, evalSList] at hx hy
      cases h1 : evalS M a with
      | none => simp [h1, consO] at hx
      | some x =>
        cases h2 : evalSList M t with
        | none => simp [h1, h2, consO] at hx
        | some xs' =>
          cases h3 : evalS M (rewriteWith rule a) with
          | none => simp [h3, consO] at hy
          | some y =>
            cases h4 : evalSList M (rewriteList rule t) with
            | none => simp [h3, h4, consO] at hy
            | some ys' =>
              simp only [h1, h2, h3, h4, consO, Option.some.injEq] at hx hy
              rw [← hx, ← hy, rewriteWith_value hM hR a x y h1 h3, rewriteList_value hM hR t xs' ys' h2 h4]
  theorem rewriteTerms_value (hM : Lawful M) {rule : String → Expr → Option Expr} (hR : RuleSound M rule) :
      ∀ (l : List (Expr × Expr)) (v w : K), evalSTerms M l = some v →
        evalSTerms M (rewriteTerms rule l) = some w → w = v
    | [], v, w, hv, hw => by
      simp only [rewriteTerms, evalSTerms, Option.some.injEq] at hv hw; rw [← hv, ← hw]
    | (k, c) :: t, v, w, hv, hw => by
      simp only [rewriteTerms, evalSTerms] at hv hw
      obtain ⟨x, y, hx, hy, rfl⟩ := add2_some hv
      obtain ⟨x', y', hx', hy', rfl⟩ := add2_some hw
      obtain ⟨a, b, ha, hb, rfl⟩ := mul2_some hx
      obtain ⟨a', b', ha', hb', rfl⟩ := mul2_some hx'
      rw [hb] at hb'; cases hb'
      rw [rewriteWith_value hM hR k a a' ha ha', rewriteTerms_value hM hR t y y' hy hy']
  theorem rewriteFacs_value (hM : Lawful M) {rule : String → Expr → Option Expr} (hR : RuleSound M rule) :
      ∀ (l : List (Expr × Expr)) (v w : K), evalSFacs M l = some v →
        evalSFacs M (rewriteFacs rule l) = some w → w = v
    | [], v, w, hv, hw => by
      simp only [rewriteFacs, evalSFacs, Option.some.injEq] at hv hw; rw [← hv, ← hw]
    | (b, e) :: t, v, w, hv, hw => by
      simp only [rewriteFacs] at hw
      rw [evalSFacs_cons] at hv hw
      obtain ⟨x, y, hx, hy, rfl⟩ := mul2_some hv
      obtain ⟨x', y', hx', hy', rfl⟩ := mul2_some hw
      rw [facVal_rewrite_of hM b e (rewriteWith_value hM hR b) (rewriteWith_value hM hR e) x x' hx hx',
        rewriteFacs_value hM hR t y y' hy hy']
end

end

end Rewrite
end SymVerif
