/-
C04, Mul side (numeric-exponent fragment): the n-ary constructor, permutations and bracketings.
-/
import SymVerif.Lemmas.C04Mul
import SymVerif.Lemmas.C04Tree

namespace SymVerif.AC
open SymVerif SymVerif.Arith

/-- the accumulated representation of a list of factors -/
noncomputable def rprod (s : Expr × Dict) (l : List Expr) : Expr × Dict :=
  l.foldl (fun s a => rmul s (reprM a)) s

theorem rprod_NRM : ∀ (l : List Expr) {s : Expr × Dict}, NRM s → (∀ a ∈ l, MOK a) → NRM (rprod s l)
  | [], _, hs, _ => hs
  | a :: r, s, hs, hl => by
    have ha := hl a List.mem_cons_self
    exact rprod_NRM r (hs.rmul ha.1) (fun x hx => hl x (List.mem_cons_of_mem _ hx))

theorem rprod_perm {l₁ l₂ : List Expr} (hp : l₁.Perm l₂) :
    (∀ a ∈ l₁, MOK a) → ∀ s, NRM s → rprod s l₁ = rprod s l₂ := by
  induction hp with
  | nil => intros; rfl
  | cons x _ ih =>
    intro hl s hs
    exact ih (fun a ha => hl a (List.mem_cons_of_mem _ ha)) _
      (hs.rmul (hl x List.mem_cons_self).1)
  | swap x y l =>
    intro hl s hs
    have hx := (hl x (by simp)).1
    have hy := (hl y (by simp)).1
    show rprod (rmul (rmul s (reprM y)) (reprM x)) l = rprod (rmul (rmul s (reprM x)) (reprM y)) l
    rw [rmul_assoc hs hy hx, rmul_assoc hs hx hy, rmul_comm hy hx]
  | trans h1 _ ih1 ih2 =>
    intro hl s hs
    rw [ih1 hl s hs, ih2 (fun a ha => hl a (h1.mem_iff.mpr ha)) s hs]

theorem rprod_append (s : Expr × Dict) (l₁ l₂ : List Expr) :
    rprod s (l₁ ++ l₂) = rprod (rprod s l₁) l₂ := by
  simp [rprod, List.foldl_append]

theorem rprod_eq_rmul : ∀ (l : List Expr) {s : Expr × Dict}, NRM s → (∀ a ∈ l, MOK a) →
    rprod s l = rmul s (rprod (one, []) l)
  | [], s, hs, _ => by
    obtain ⟨c, d⟩ := s
    simp only [rprod, List.foldl, rmul, gq_one, cmul_one, ofG_gq hs.1, merge]
  | a :: r, s, hs, hl => by
    have ha := (hl a List.mem_cons_self).1
    have hr : ∀ x ∈ r, MOK x := fun x hx => hl x (List.mem_cons_of_mem _ hx)
    show rprod (rmul s (reprM a)) r = rmul s (rprod (rmul (one, []) (reprM a)) r)
    rw [rprod_eq_rmul r (hs.rmul ha) hr, rmul_unit ha, rprod_eq_rmul r ha hr,
      rmul_assoc hs ha (rprod_NRM r NRM_unit hr)]

/-- total number of dictionary entries of a list of factors -/
def tlen (l : List Expr) : Nat := (l.map dlen).sum

theorem dlen_le_tlen : ∀ {l : List Expr} {a : Expr}, a ∈ l → dlen a ≤ tlen l
  | b :: r, a, h => by
    simp only [tlen, List.map_cons, List.sum_cons]
    rcases List.mem_cons.mp h with rfl | h
    · omega
    · have := dlen_le_tlen h
      simp only [tlen] at this
      omega

theorem rprod_len : ∀ (l : List Expr) (s : Expr × Dict), (rprod s l).2.length ≤ s.2.length + tlen l
  | [], s => by simp [rprod, tlen]
  | a :: r, s => by
    show (rprod (rmul s (reprM a)) r).2.length ≤ _
    have h1 := rprod_len r (rmul s (reprM a))
    have h2 : (rmul s (reprM a)).2.length ≤ s.2.length + dlen a := length_merge_le _ _
    simp only [tlen, List.map_cons, List.sum_cons] at h1 ⊢
    omega

theorem mulNLoop_eq {rv : Bool} {fuel : Nat} : ∀ (l : List Expr) {coef : Expr} {d : Dict},
    NRM (coef, d) → (∀ a ∈ l, MOK a) → (∀ a ∈ l, dlen a + 3 ≤ fuel) →
    mulNLoop fuel rv coef d l = .ok (rprod (coef, d) l)
  | [], _, _, _, _, _ => rfl
  | a :: r, coef, d, hs, hl, hfu => by
    have ha := hl a List.mem_cons_self
    have hfa := hfu a List.mem_cons_self
    have hrest : ∀ {c' : Expr} {d' : Dict}, NRM (c', d') →
        mulNLoop fuel rv c' d' r = .ok (rprod (c', d') r) := fun h =>
      mulNLoop_eq r h (fun x hx => hl x (List.mem_cons_of_mem _ hx))
        (fun x hx => hfu x (List.mem_cons_of_mem _ hx))
    by_cases hma : isMul a = true
    · obtain ⟨ac, ad, rfl⟩ : ∃ ac ad, a = .mul ac ad := by cases a <;> simp_all [isMul]
      have hna : NRM (ac, ad) := ha.1
      simp only [dlen, reprM] at hfa
      have hlen : (iterOrder rv ad).length + 3 ≤ fuel := by rw [length_iterOrder]; exact hfa
      have hnew : NRM (rmul (coef, d) (ac, ad)) := hs.rmul hna
      simp only [mulNLoop, numMul_eq hs.1 hna.1, ok_bind,
        datLoop_atoms (iterOrder rv ad) hlen hs.2.2.1 (FacsOK_iterOrder rv (FacsOK_of_NRM hna)),
        merge_iterOrder rv hs.2.2.1 (FacsOK_of_NRM hna)]
      exact hrest hnew
    · have hma' : isMul a = false := by simpa using hma
      have h3 : 3 ≤ fuel := by omega
      have : mulNLoop fuel rv coef d (a :: r) = (do
          let (coef, d) ← mulStep fuel rv coef d a
          mulNLoop fuel rv coef d r) := by
        cases a <;> simp_all [mulNLoop, isMul]
      rw [this, mulStep_eq h3 hs ha hma']
      simp only [ok_bind]
      exact hrest (hs.rmul ha.1)

/-- every bracketing evaluates to `Mul::from_dict` of the accumulated representation of its leaves,
for either dictionary iteration order -/
theorem evalT_mul (rv : Bool) : ∀ (t : BTree), (∀ a ∈ t.leaves, MOK a ∧ exact a = true) →
    tlen t.leaves + 6 ≤ defaultFuel →
    ∃ r, evalT (mulEO rv) t = .ok r ∧ MOK r ∧ exact r = true ∧ reprM r = rprod (one, []) t.leaves
  | .leaf a, h, _ => by
    have ha := h a (by simp [BTree.leaves])
    refine ⟨a, rfl, ha.1, ha.2, ?_⟩
    simp only [BTree.leaves, rprod, List.foldl, rmul_unit ha.1.1]
  | .node l r, h, hfu => by
    have hl : ∀ a ∈ l.leaves, MOK a ∧ exact a = true := fun a ha => h a (by simp [BTree.leaves, ha])
    have hr : ∀ a ∈ r.leaves, MOK a ∧ exact a = true := fun a ha => h a (by simp [BTree.leaves, ha])
    have hsplit : tlen (l.leaves ++ r.leaves) = tlen l.leaves + tlen r.leaves := by
      simp [tlen]
    simp only [BTree.leaves, hsplit] at hfu
    obtain ⟨x, hx, hxa, hxe, hxr⟩ := evalT_mul rv l hl (by omega)
    obtain ⟨y, hy, hya, hye, hyr⟩ := evalT_mul rv r hr (by omega)
    have hnr : NRM (rmul (reprM x) (reprM y)) := hxa.1.rmul hya.1
    obtain ⟨hza, hzr, hze⟩ := MOK_fromDict hnr
    have hdx : dlen x ≤ tlen l.leaves := by
      have := rprod_len l.leaves (one, [])
      simp only [dlen, hxr]
      simpa using this
    have hdy : dlen y ≤ tlen r.leaves := by
      have := rprod_len r.leaves (one, [])
      simp only [dlen, hyr]
      simpa using this
    refine ⟨_, ?_, hza, hze, ?_⟩
    · simp only [evalT, hx, hy, ok_bind]
      unfold mulEO guard2
      simp only [hxe, hye, Bool.and_self, if_true]
      exact mulF_eq hxa hya (by omega)
    · rw [hzr, hxr, hyr, BTree.leaves, rprod_append,
        rprod_eq_rmul r.leaves (rprod_NRM _ NRM_unit (fun a ha => (hl a ha).1)) (fun a ha => (hr a ha).1)]

theorem mulNO_eq {rv : Bool} {l : List Expr} (hl : ∀ a ∈ l, MOK a ∧ exact a = true)
    (hfu : tlen l + 6 ≤ defaultFuel) :
    mulNO rv l = .ok (mulFromDict (rprod (one, []) l).1 (rprod (one, []) l).2) := by
  unfold mulNO
  have hx : exactList l = true := (exactList_iff' l).mpr (fun a ha => (hl a ha).2)
  have hf : ∀ a ∈ l, dlen a + 3 ≤ defaultFuel := by
    intro a ha
    have := dlen_le_tlen ha
    omega
  simp only [hx, if_true, mulNLoop_eq l NRM_unit (fun a ha => (hl a ha).1) hf, ok_bind]
  rfl

end SymVerif.AC
