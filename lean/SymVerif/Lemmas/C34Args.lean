/-
`get_args()` versus the semantics: the value of an Add is the sum of the values of its arguments, the value
of a Mul their product (for canonical stored fields, `wf`).  Number-predicate lemmas.
-/
import SymVerif.Lemmas.C34Sem

namespace SymVerif.C34
open SymVerif SymVerif.Queries

/-! ## number predicates -/

theorem numIsPos_sound {ρ : String → ℝ} {e : Expr} {v : ℝ} (hp : numIsPos e = true) (h : evalR ρ e = some v) :
    0 < v := by
  cases e with
  | int n =>
    simp [evalR] at h; subst h
    simp [numIsPos] at hp; exact_mod_cast hp
  | rat n d =>
    simp [evalR] at h
    obtain ⟨hd, rfl⟩ := h
    simp [numIsPos] at hp
    exact (rat_sign hd).1.mpr hp
  | _ => simp [numIsPos, evalR] at hp h

theorem numIsNeg_sound {ρ : String → ℝ} {e : Expr} {v : ℝ} (hp : numIsNeg e = true) (h : evalR ρ e = some v) :
    v < 0 := by
  cases e with
  | int n =>
    simp [evalR] at h; subst h
    simp [numIsNeg] at hp; exact_mod_cast hp
  | rat n d =>
    simp [evalR] at h
    obtain ⟨hd, rfl⟩ := h
    simp [numIsNeg] at hp
    exact (rat_sign hd).2.1.mpr hp
  | _ => simp [numIsNeg, evalR] at hp h

theorem numIsPos_complete {ρ : String → ℝ} {e : Expr} {v : ℝ} (hn : e.isNum = true) (h : evalR ρ e = some v)
    (hv : 0 < v) : numIsPos e = true := by
  rcases evalR_isNum_cases hn h with ⟨n, rfl, rfl⟩ | ⟨n, d, rfl, hd, rfl⟩
  · simp [numIsPos]; exact_mod_cast hv
  · simp [numIsPos]; exact (rat_sign hd).1.mp hv

theorem numIsNeg_complete {ρ : String → ℝ} {e : Expr} {v : ℝ} (hn : e.isNum = true) (h : evalR ρ e = some v)
    (hv : v < 0) : numIsNeg e = true := by
  rcases evalR_isNum_cases hn h with ⟨n, rfl, rfl⟩ | ⟨n, d, rfl, hd, rfl⟩
  · simp [numIsNeg]; exact_mod_cast hv
  · simp [numIsNeg]; exact (rat_sign hd).2.1.mp hv

theorem numIsZero_iff {ρ : String → ℝ} {e : Expr} {v : ℝ} (hn : e.isNum = true) (h : evalR ρ e = some v) :
    numIsZero e = true ↔ v = 0 := by
  rcases evalR_isNum_cases hn h with ⟨n, rfl, rfl⟩ | ⟨n, d, rfl, hd, rfl⟩
  · simp [numIsZero]
  · simp only [numIsZero, beq_iff_eq]; exact (rat_sign hd).2.2.symm

theorem numIsComplexCls_false {ρ : String → ℝ} {e : Expr} {v : ℝ} (h : evalR ρ e = some v) :
    numIsComplexCls e = false := by
  cases e <;> simp [evalR] at h <;> rfl

theorem isOne_eq {e : Expr} (h : isOne e = true) : e = .int 1 := by
  cases e <;> simp [isOne] at h
  subst h; rfl

/-! ## Option plumbing -/

theorem evalArgs_append (ρ : String → ℝ) (l₁ l₂ : List Expr) :
    evalArgs ρ (l₁ ++ l₂) = (evalArgs ρ l₁).bind fun a => (evalArgs ρ l₂).map fun b => a ++ b := by
  induction l₁ with
  | nil => simp [evalArgs]
  | cons a t ih =>
    simp only [List.cons_append, evalArgs, ih]
    cases evalR ρ a <;> simp
    cases evalArgs ρ t <;> simp
    cases evalArgs ρ l₂ <;> simp

theorem evalArgs_mem_none {ρ : String → ℝ} {l : List Expr} {a : Expr} (ha : a ∈ l) (hn : evalR ρ a = none) :
    evalArgs ρ l = none := by
  induction l with
  | nil => cases ha
  | cons b t ih =>
    simp only [evalArgs]
    rcases List.mem_cons.mp ha with rfl | h
    · simp [hn]
    · rw [ih h]; cases evalR ρ b <;> simp

/-- all values of a successfully evaluated argument list -/
theorem evalArgs_forall {ρ : String → ℝ} {P : ℝ → Prop} :
    ∀ {l : List Expr} {vs : List ℝ}, evalArgs ρ l = some vs →
      (∀ a ∈ l, ∀ va, evalR ρ a = some va → P va) → ∀ x ∈ vs, P x := by
  intro l
  induction l with
  | nil => intro vs h _ x hx; simp [evalArgs] at h; subst h; cases hx
  | cons a t ih =>
    intro vs h hall x hx
    simp only [evalArgs] at h
    cases ha : evalR ρ a with
    | none => simp [ha] at h
    | some va =>
      cases ht : evalArgs ρ t with
      | none => simp [ha, ht] at h
      | some vt =>
        simp [ha, ht] at h
        subst h
        rcases List.mem_cons.mp hx with rfl | hx'
        · exact hall a (by simp) _ ha
        · exact ih ht (fun b hb vb hvb => hall b (List.mem_cons_of_mem _ hb) vb hvb) x hx'

/-! ## Add -/

theorem powSem_one (vb ve : Option ℝ) : powSem vb (.int 1) ve = vb := by
  cases vb <;> simp [powSem]

theorem evalR_mul_single {ρ : String → ℝ} {k v : Expr} :
    evalR ρ (.mul v [(k, .int 1)])
      = (evalR ρ k).bind fun vk => (evalR ρ v).bind fun vv => some (vk * vv) := by
  simp only [evalR, evalFacs, powSem_one]
  cases evalR ρ v <;> cases evalR ρ k <;> simp
  ring

theorem evalR_term {ρ : String → ℝ} {k v : Expr} (hk : mulCoefOne k = true) :
    evalR ρ (if isOne v then k else termOf k v)
      = (evalR ρ k).bind fun vk => (evalR ρ v).bind fun vv => some (vk * vv) := by
  by_cases h1 : isOne v = true
  · have := isOne_eq h1
    subst this
    simp [isOne, evalR]
  · simp only [h1, if_false, Bool.false_eq_true]
    cases k with
    | mul kc fs =>
      have hkc := isOne_eq (by simpa [mulCoefOne] using hk : isOne kc = true)
      subst hkc
      simp only [termOf, evalR]
      cases evalR ρ v <;> cases evalFacs ρ fs <;> simp
      ring
    | pow b x =>
      simp only [termOf, evalR, evalFacs]
      cases evalR ρ v <;> cases powSem (evalR ρ b) x (evalR ρ x) <;> simp
      ring
    | _ => exact evalR_mul_single


theorem evalTerms_args {ρ : String → ℝ} : ∀ {ts : List (Expr × Expr)}, wfTerms ts = true →
    (evalArgs ρ (addArgs ts)).map List.sum = evalTerms ρ ts := by
  intro ts
  induction ts with
  | nil => intro _; simp [addArgs, evalArgs, evalTerms]
  | cons p t ih =>
    obtain ⟨k, v⟩ := p
    intro hw
    simp only [wfTerms, Bool.and_eq_true] at hw
    obtain ⟨⟨⟨⟨⟨_, _⟩, _⟩, hk⟩, _⟩, ht⟩ := hw
    simp only [addArgs, evalArgs, evalTerms, evalR_term hk, ← ih ht]
    cases evalR ρ k <;> cases evalR ρ v <;> cases evalArgs ρ (addArgs t) <;> simp

/-- the value of an Add is the sum of the values of its `get_args()` -/
theorem evalR_add_args {ρ : String → ℝ} {c : Expr} {ts : List (Expr × Expr)} (hw : wf (.add c ts) = true) :
    evalR ρ (.add c ts) = (evalArgs ρ (argsOf (.add c ts))).map List.sum := by
  simp only [wf, Bool.and_eq_true] at hw
  obtain ⟨⟨⟨⟨_, hnum⟩, hz⟩, _⟩, hts⟩ := hw
  simp only [evalR, argsOf, ← evalTerms_args (ρ := ρ) hts]
  by_cases h0 : numIsZero c = true
  · have hc : c = .int 0 := by
      simp [h0] at hz
      cases c <;> simp [isIntZero] at hz
      subst hz; rfl
    subst hc
    simp [evalR, numIsZero]
    cases evalArgs ρ (addArgs ts) <;> simp
  · simp only [h0, if_false, Bool.false_eq_true, evalArgs_append, evalArgs]
    cases evalR ρ c <;> simp
    cases evalArgs ρ (addArgs ts) <;> simp

/-! ## Mul -/

theorem evalFacs_args {ρ : String → ℝ} : ∀ (fs : List (Expr × Expr)),
    (evalArgs ρ (mulArgs fs)).map List.prod = evalFacs ρ fs := by
  intro fs
  induction fs with
  | nil => simp [mulArgs, evalArgs, evalFacs]
  | cons p t ih =>
    obtain ⟨b, x⟩ := p
    simp only [mulArgs, evalArgs, evalFacs, ← ih]
    by_cases h1 : isOne x = true
    · have := isOne_eq h1
      subst this
      simp only [isOne, beq_self_eq_true, if_true, powSem_one]
      cases evalR ρ b <;> cases evalArgs ρ (mulArgs t) <;> simp
    · simp only [h1, if_false, Bool.false_eq_true, evalR]
      cases powSem (evalR ρ b) x (evalR ρ x) <;> cases evalArgs ρ (mulArgs t) <;> simp

/-- the value of a Mul is the product of the values of its `get_args()` -/
theorem evalR_mul_args {ρ : String → ℝ} {c : Expr} {fs : List (Expr × Expr)} :
    evalR ρ (.mul c fs) = (evalArgs ρ (argsOf (.mul c fs))).map List.prod := by
  simp only [evalR, argsOf, ← evalFacs_args (ρ := ρ) fs]
  by_cases h1 : isOne c = true
  · have := isOne_eq h1
    subst this
    simp [evalR, isOne]
    cases evalArgs ρ (mulArgs fs) <;> simp
  · simp only [h1, if_false, Bool.false_eq_true, evalArgs_append, evalArgs]
    cases evalR ρ c <;> simp
    cases evalArgs ρ (mulArgs fs) <;> simp

/-! ## well-formedness is inherited by the arguments -/

theorem wf_termOf {k v : Expr} (hk : wf k = true) (hv : wf v = true) (hn : v.isNum = true) :
    wf (termOf k v) = true := by
  cases k <;> simp_all [termOf, wf, wfPairs]

theorem wf_addArgs : ∀ {ts : List (Expr × Expr)}, wfTerms ts = true → ∀ a ∈ addArgs ts, wf a = true := by
  intro ts
  induction ts with
  | nil => intro _ a ha; cases ha
  | cons p t ih =>
    obtain ⟨k, v⟩ := p
    intro hw a ha
    simp only [wfTerms, Bool.and_eq_true] at hw
    obtain ⟨⟨⟨⟨⟨hk, hv⟩, hvn⟩, _⟩, _⟩, ht⟩ := hw
    simp only [addArgs, List.mem_cons] at ha
    rcases ha with rfl | ha
    · by_cases h1 : isOne v = true
      · simp [h1, hk]
      · simp only [h1, if_false, Bool.false_eq_true]
        exact wf_termOf hk hv hvn
    · exact ih ht a ha

theorem wf_mulArgs : ∀ {fs : List (Expr × Expr)}, wfPairs fs = true → ∀ a ∈ mulArgs fs, wf a = true := by
  intro fs
  induction fs with
  | nil => intro _ a ha; cases ha
  | cons p t ih =>
    obtain ⟨b, x⟩ := p
    intro hw a ha
    simp only [wfPairs, Bool.and_eq_true] at hw
    obtain ⟨⟨hb, hx⟩, ht⟩ := hw
    simp only [mulArgs, List.mem_cons] at ha
    rcases ha with rfl | ha
    · by_cases h1 : isOne x = true
      · simp [h1, hb]
      · simp [h1, wf, hb, hx]
    · exact ih ht a ha

/-- every `get_args()` element of a well-formed Add / Mul is well-formed -/
theorem wf_argsOf {e : Expr} (hw : wf e = true) : ∀ a ∈ argsOf e, wf a = true := by
  cases e with
  | add c ts =>
    simp only [wf, Bool.and_eq_true] at hw
    obtain ⟨⟨⟨⟨hc, _⟩, _⟩, _⟩, hts⟩ := hw
    intro a ha
    simp only [argsOf, List.mem_append] at ha
    rcases ha with ha | ha
    · split at ha
      · cases ha
      · simp at ha; subst ha; exact hc
    · exact wf_addArgs hts a ha
  | mul c fs =>
    simp only [wf, Bool.and_eq_true] at hw
    obtain ⟨⟨hc, _⟩, hfs⟩ := hw
    intro a ha
    simp only [argsOf, List.mem_append] at ha
    rcases ha with ha | ha
    · split at ha
      · cases ha
      · simp at ha; subst ha; exact hc
    · exact wf_mulArgs hfs a ha
  | _ => intro a ha; simp [argsOf] at ha

end SymVerif.C34
