/-
C04, Mul side, symbolic-exponent fragment: factors `k ** e` with an opaque base `k` and an exponent `e`
that is any exact summand of the safe Add fragment (numbers, symbols, sums, products, …; `expOK`).
Same development as Lemmas/C04Mul.lean with the exponent arithmetic `add` instead of `addnum`: the
dictionary algebra is the generic one of Lemmas/C04DictG.lean instantiated at `expVS`.
(Generated from C04Mul.lean by renaming; `datNewS_atom` is the new ingredient.)
-/
import SymVerif.Lemmas.C04Mul
import SymVerif.Lemmas.C04ExpVS

namespace SymVerif.AC
open SymVerif SymVerif.Arith

/-- normal (coef, dict) pair of a product -/
def NRS (s : Expr × Dict) : Prop :=
  ExOK s.1 ∧ gq s.1 ≠ 0 ∧ DOKG expVS s.2 ∧ ∀ p ∈ s.2, atomBase p.1 = true ∧ exact p.1 = true

/-- a factor: its representation is normal and `Mul::from_dict` rebuilds it -/
def MOKS (a : Expr) : Prop := NRS (reprM a) ∧ mulFromDict (reprM a).1 (reprM a).2 = a

/-- `⊗` on representations -/
noncomputable def rmulS (r s : Expr × Dict) : Expr × Dict :=
  (ofG (cmul (gq r.1) (gq s.1)), mergeG expVS r.2 s.2)

theorem NRS.rmulS {r s : Expr × Dict} (hr : NRS r) (hs : NRS s) : NRS (rmulS r s) := by
  refine ⟨exOK_ofG _, ?_, mergeG_DOK expVS _ hr.2.2.1 hs.2.2.1.vals, ?_⟩
  · show gq (ofG _) ≠ 0
    rw [gq_ofG]
    exact cmul_ne_zero hr.2.1 hs.2.1
  · exact mergeG_keys expVS s.2 r.2 (fun k => atomBase k = true ∧ exact k = true) hr.2.2.2 hs.2.2.2

theorem rmulS_comm {r s : Expr × Dict} (hr : NRS r) (hs : NRS s) : rmulS r s = rmulS s r := by
  unfold rmulS
  rw [cmul_comm, mergeG_comm expVS hr.2.2.1 hs.2.2.1]

theorem rmulS_assoc {r s t : Expr × Dict} (hr : NRS r) (hs : NRS s) (ht : NRS t) :
    rmulS (rmulS r s) t = rmulS r (rmulS s t) := by
  unfold rmulS
  simp only [gq_ofG]
  rw [cmul_assoc, mergeG_assoc expVS hr.2.2.1 hs.2.2.1 ht.2.2.1]

theorem NRS_unit : NRS (one, []) :=
  ⟨exOK_int 1, by rw [gq_one]; simp, (DOKG.nil expVS), by simp⟩

theorem rmulS_unit {s : Expr × Dict} (hs : NRS s) : rmulS (one, []) s = s := by
  obtain ⟨c, d⟩ := s
  unfold rmulS
  simp only [gq_one, one_cmul, ofG_gq hs.1, mergeG_nil_left expVS hs.2.2.1]

/-! ### `Mul::from_dict` and `reprM` are inverse on normal representations -/

theorem reprMS_fromDict {s : Expr × Dict} (h : NRS s) :
    reprM (mulFromDict s.1 s.2) = s ∧ exact (mulFromDict s.1 s.2) = true := by
  obtain ⟨c, d⟩ := s
  obtain ⟨hc, hc0, hd, hk⟩ := h
  simp only at hc hc0 hd hk
  have hz := numIsZero_false hc hc0
  have hcx := exact_of_exOK hc
  have hcn := exOK_isNum hc
  have hdx : exactPairs d = true := by
    have : ∀ (l : Dict), (∀ p ∈ l, expOK p.2) → (∀ p ∈ l, exact p.1 = true) → exactPairs l = true := by
      intro l
      induction l with
      | nil => intros; rfl
      | cons p r ih =>
        obtain ⟨k, v⟩ := p
        intro hv hk
        simp only [exactPairs, hk (k, v) List.mem_cons_self, (hv (k, v) List.mem_cons_self).2,
          Bool.and_self, Bool.true_and]
        exact ih (fun p hp => hv p (List.mem_cons_of_mem _ hp)) (fun p hp => hk p (List.mem_cons_of_mem _ hp))
    exact this d (fun p hp => (hd.2 p hp).1) (fun p hp => (hk p hp).2)
  cases d with
  | nil =>
    simp only [mulFromDict, hz, Bool.false_eq_true, if_false]
    refine ⟨?_, hcx⟩
    cases c <;> simp_all [reprM, Expr.isNum]
  | cons p r =>
    obtain ⟨b, e⟩ := p
    cases r with
    | nil =>
      have hb := hk (b, e) List.mem_cons_self
      have he := hd.2 (b, e) List.mem_cons_self
      simp only at hb he
      by_cases h1 : numIsOne c = true
      · have := numIsOne_eq_one hc h1
        subst this
        by_cases he1 : isIntLit e 1 = true
        · have := isIntLit_eq he1
          subst this
          have : mulFromDict one [(b, .int 1)] = b := by simp [mulFromDict, one, numIsZero, numIsOne, isIntLit]
          rw [this]
          exact ⟨reprM_atom hb.1, hb.2⟩
        · have he1' : isIntLit e 1 = false := by simpa using he1
          have : mulFromDict one [(b, e)] = .pow b e := by
            simp [mulFromDict, one, numIsZero, numIsOne, he1']
          rw [this]
          refine ⟨rfl, ?_⟩
          simp [exact, hb.2, he.1.2]
      · have : mulFromDict c [(b, e)] = .mul c [(b, e)] := by simp [mulFromDict, hz, h1]
        rw [this]
        exact ⟨rfl, by simp [exact, hcx, hdx]⟩
    | cons q r =>
      have : mulFromDict c ((b, e) :: q :: r) = .mul c ((b, e) :: q :: r) := by simp [mulFromDict, hz]
      rw [this]
      exact ⟨rfl, by simp [exact, hcx, hdx]⟩

theorem MOKS_fromDict {s : Expr × Dict} (h : NRS s) :
    MOKS (mulFromDict s.1 s.2) ∧ reprM (mulFromDict s.1 s.2) = s ∧ exact (mulFromDict s.1 s.2) = true := by
  obtain ⟨h1, h2⟩ := reprMS_fromDict h
  refine ⟨⟨?_, ?_⟩, h1, h2⟩
  · rw [h1]; exact h
  · rw [h1]

/-! ### `Mul::dict_add_term_new` on an opaque base with a numeric exponent -/

theorem datNewS_atom {fuel : Nat} {rv : Bool} {coef : Expr} {d : Dict} {e t : Expr}
    (hd : DOKG expVS d) (ht : atomBase t = true) (he : expOK e) (he0 : expVal e ≠ 0) :
    datNew (fuel + 2) rv coef d e t = .ok (coef, updG expVS d e t) := by
  obtain ⟨t1, t2, t3⟩ := atomBase_facts ht
  have ti : isInteger t = false := by cases t <;> simp_all [isInteger, Expr.isNum]
  have tr : isRational t = false := by cases t <;> simp_all [isRational, Expr.isNum]
  have tc : isComplex t = false := by cases t <;> simp_all [isComplex, Expr.isNum]
  have t0 : isIntLit t 0 = false := by cases t <;> simp_all [isIntLit, Expr.isNum]
  have hez : expIsZ e = false := by
    cases h : expIsZ e with
    | false => rfl
    | true => exact absurd ((expIsZ_iff he).mp h) he0
  unfold updG
  cases hf : dfind d t with
  | none =>
    have : expVS.isZ e = false := hez
    simp [datNew, hf, ti, tr, tc, t3, this]
  | some old =>
    have hold : expOK old := (hd.2 _ (dfind_some hf)).1
    have hv : expOK (expAdd old e) := (expAdd_spec hold he).2.1
    have hadd : expVS.add old e = expAdd old e := rfl
    have hisz : expVS.isZ (expAdd old e) = expIsZ (expAdd old e) := rfl
    have hmodel := expAdd_model hold he
    simp only [hadd, hisz]
    -- the tail: the found branch after `it->second = v`
    have htail : datFound (fuel + 1) rv coef (dset d t (expAdd old e)) t (expAdd old e)
        = .ok (coef, if expIsZ (expAdd old e) = true then derase d t else dset d t (expAdd old e)) := by
      by_cases hz : expIsZ (expAdd old e) = true
      · have hv0 : expAdd old e = zero := by
          have h := hz
          unfold expIsZ at h
          simp only [Bool.and_eq_true] at h
          generalize expAdd old e = v at h
          cases v <;> simp_all [isInteger, numIsZero, zero]
        rw [hv0] at hz ⊢
        have h1 : isInteger zero = true := rfl
        have h2 : numIsZero zero = true := rfl
        simp [datFound, ti, tr, tc, h1, h2, hz, derase_dset]
        rfl
      · have hz' : expIsZ (expAdd old e) = false := by simpa using hz
        simp only [hz', Bool.false_eq_true, if_false]
        generalize expAdd old e = v at hv hz'
        have hiz : (isInteger v && numIsZero v) = false := hz'
        have hnz : v.isNum = true → numIsZero v = false := by
          intro hn
          have hex := expOK_isNum hv hn
          cases h : numIsZero v with
          | false => rfl
          | true =>
            have := numIsZero_eq_zero hex h
            subst this
            simp [zero, isInteger, numIsZero] at hiz
        simp only [datFound, ti, tr, tc, t3, t0, hiz, Bool.or_self, Bool.and_false, Bool.false_eq_true,
          if_false]
        simp only [pure, Except.pure, ok_bind, bind, Except.bind]
        by_cases hn : v.isNum = true
        · simp only [hn, if_true, hnz hn, Bool.false_eq_true, if_false]
          split
          · rename_i mc mfs
            simp [isMul] at t2
          · rfl
        · simp only [hn, Bool.false_eq_true, if_false]
    simp only [datNew, hf]
    split
    · rename_i hc
      rw [if_pos hc] at hmodel
      rw [hmodel]
      simp only [ok_bind]
      rw [htail]
    · rename_i hc
      rw [if_neg hc] at hmodel
      rw [hmodel]
      simp only [ok_bind]
      rw [htail]

theorem datNewS_atom' {fuel : Nat} {rv : Bool} {coef : Expr} {d : Dict} {e t : Expr} (hfu : 2 ≤ fuel)
    (hd : DOKG expVS d) (ht : atomBase t = true) (he : expOK e) (he0 : expVal e ≠ 0) :
    datNew fuel rv coef d e t = .ok (coef, updG expVS d e t) := by
  obtain ⟨k, rfl⟩ : ∃ k, fuel = k + 2 := ⟨fuel - 2, by omega⟩
  exact datNewS_atom hd ht he he0

/-- entries that `dict_add_term_new` merges point-wise -/
def FacsOKS (l : Dict) : Prop := ∀ p ∈ l, (atomBase p.1 = true ∧ exact p.1 = true) ∧ expOK p.2 ∧ expVal p.2 ≠ 0

theorem FacsOKS_of_NRS {s : Expr × Dict} (h : NRS s) : FacsOKS s.2 :=
  fun p hp => ⟨h.2.2.2 p hp, h.2.2.1.2 p hp⟩

theorem datLoopS_atoms {rv : Bool} {coef : Expr} : ∀ (l : Dict) {fuel : Nat} {d : Dict},
    l.length + 3 ≤ fuel → DOKG expVS d → FacsOKS l → datLoop fuel rv coef d l = .ok (coef, mergeG expVS d l)
  | [], fuel, d, hfu, _, _ => by
    obtain ⟨k, rfl⟩ : ∃ k, fuel = k + 1 := ⟨fuel - 1, by omega⟩
    simp [datLoop, mergeG]
  | (k, v) :: r, fuel, d, hfu, hd, hl => by
    obtain ⟨f, rfl⟩ : ∃ f, fuel = f + 1 := ⟨fuel - 1, by omega⟩
    have hkv := hl (k, v) List.mem_cons_self
    simp only [List.length_cons] at hfu
    have h2 : 2 ≤ f := by omega
    have h3 : r.length + 3 ≤ f := by omega
    simp only [datLoop, datNewS_atom' h2 hd hkv.1.1 hkv.2.1 hkv.2.2, ok_bind, mergeG]
    exact datLoopS_atoms r h3 (updG_DOK expVS k hd hkv.2.1) (fun p hp => hl p (List.mem_cons_of_mem _ hp))

theorem FacsOKS.vals {l : Dict} (h : FacsOKS l) : ValsOKG expVS l := fun p hp => (h p hp).2.1

theorem mergeS_iterOrder {d l : Dict} (rv : Bool) (hd : DOKG expVS d) (hl : FacsOKS l) :
    mergeG expVS d (iterOrder rv l) = mergeG expVS d l := by
  unfold iterOrder
  split
  · exact mergeG_perm expVS hd (fun p hp => hl.vals p (List.mem_reverse.mp hp)) (List.reverse_perm l)
  · rfl

theorem FacsOKS_iterOrder {l : Dict} (rv : Bool) (h : FacsOKS l) : FacsOKS (iterOrder rv l) := by
  unfold iterOrder
  split
  · exact fun p hp => h p (List.mem_reverse.mp hp)
  · exact h

theorem mergeS_single (d : Dict) (t c : Expr) : mergeG expVS d [(t, c)] = updG expVS d c t := rfl

/-! ### one multiplication step -/

theorem MOKS_num {a : Expr} (ha : MOKS a) (hn : a.isNum = true) : reprM a = (a, []) ∧ ExOK a ∧ gq a ≠ 0 := by
  have hr : reprM a = (a, []) := by cases a <;> simp_all [reprM, Expr.isNum]
  have := ha.1
  rw [hr] at this
  exact ⟨hr, this.1, this.2.1⟩

/-- `mulStep`: multiply the state by a factor that is not a Mul -/
theorem mulStepS_eq {fuel : Nat} {rv : Bool} {coef : Expr} {d : Dict} {b : Expr} (hfu : 3 ≤ fuel)
    (hs : NRS (coef, d)) (hb : MOKS b) (hnm : isMul b = false) :
    mulStep fuel rv coef d b = .ok (rmulS (coef, d) (reprM b)) := by
  obtain ⟨f, rfl⟩ : ∃ f, fuel = f + 1 := ⟨fuel - 1, by omega⟩
  by_cases hn : b.isNum = true
  · obtain ⟨hr, hbx, _⟩ := MOKS_num hb hn
    simp only [mulStep, hn, if_true, numMul_eq hs.1 hbx, ok_bind, hr, rmulS, mergeG]
    rfl
  · have hn' : b.isNum = false := by simpa using hn
    by_cases hp : isPow b = true
    · obtain ⟨bb, e, rfl⟩ : ∃ bb e, b = .pow bb e := by cases b <;> simp_all [isPow]
      have hnr := hb.1
      have hr : reprM (.pow bb e) = (one, [(bb, e)]) := rfl
      rw [hr] at hnr
      have hk := hnr.2.2.2 (bb, e) List.mem_cons_self
      have hv := hnr.2.2.1.2 (bb, e) List.mem_cons_self
      have h2 : 2 ≤ f := by omega
      simp only [mulStep, Expr.isNum, Bool.false_eq_true, if_false, asBaseExp, ok_bind,
        datNewS_atom' h2 hs.2.2.1 hk.1 hv.1 hv.2, hr, rmulS, mergeS_single, cmul_gq_one hs.1]
    · have hp' : isPow b = false := by simpa using hp
      have hat : atomBase b = true := by simp [atomBase, hn', hnm, hp']
      have hr := reprM_atom hat
      have hab : asBaseExp b = .ok (one, b) := by
        cases b <;> simp_all [asBaseExp, isMul, isPow, Expr.isNum]
      have h1 : expVal one ≠ 0 := expVal_one_ne
      have h2 : 2 ≤ f := by omega
      simp only [mulStep, hn', Bool.false_eq_true, if_false, hab, ok_bind, hr, rmulS, mergeS_single,
        cmul_gq_one hs.1]
      exact datNewS_atom' h2 hs.2.2.1 hat expOK_one h1

/-- `mul(a, b)` is `Mul::from_dict` of the product of the representations, for either iteration
order and every sufficient fuel -/
theorem mulFS_eq {fuel : Nat} {rv : Bool} {a b : Expr} (ha : MOKS a) (hb : MOKS b)
    (hfu : dlen a + dlen b + 6 ≤ fuel) :
    mulF fuel rv a b = .ok (mulFromDict (rmulS (reprM a) (reprM b)).1 (rmulS (reprM a) (reprM b)).2) := by
  obtain ⟨f, rfl⟩ : ∃ f, fuel = f + 1 := ⟨fuel - 1, by omega⟩
  by_cases hma : isMul a = true
  · obtain ⟨ac, ad, rfl⟩ : ∃ ac ad, a = .mul ac ad := by cases a <;> simp_all [isMul]
    have hna : NRS (ac, ad) := ha.1
    by_cases hmb : isMul b = true
    · obtain ⟨bc, bd, rfl⟩ : ∃ bc bd, b = .mul bc bd := by cases b <;> simp_all [isMul]
      have hnb : NRS (bc, bd) := hb.1
      have hfl : FacsOKS (iterOrder rv bd) := FacsOKS_iterOrder rv (FacsOKS_of_NRS hnb)
      simp only [dlen, reprM] at hfu
      have hlen : (iterOrder rv bd).length + 3 ≤ f := by rw [length_iterOrder]; omega
      have hrest : ∀ coef, datLoop f rv coef ad (iterOrder rv bd) = .ok (coef, mergeG expVS ad bd) := by
        intro coef
        rw [datLoopS_atoms (iterOrder rv bd) hlen hna.2.2.1 hfl,
          mergeS_iterOrder rv hna.2.2.1 (FacsOKS_of_NRS hnb)]
      simp only [mulF, reprM, rmulS]
      split
      · simp only [numMul_eq hna.1 hnb.1, ok_bind, hrest]
        rfl
      · rename_i h
        simp only [Bool.or_eq_true, Bool.not_eq_true', not_or, Bool.not_eq_false] at h
        have e1 := numIsOne_eq_one hna.1 h.1
        have e2 := numIsOne_eq_one hnb.1 h.2
        subst e1; subst e2
        simp only [pure, Except.pure, ok_bind, hrest]
        rw [gq_one, cmul_one, ← gq_one, ofG_gq (e := one) (exOK_int 1)]
    · have hmb' : isMul b = false := by simpa using hmb
      have : mulF (f + 1) rv (.mul ac ad) b = mulOnto f rv ac ad b := by
        cases b <;> simp_all [mulF, isMul]
      rw [this]
      obtain ⟨g, rfl⟩ : ∃ g, f = g + 1 := ⟨f - 1, by omega⟩
      simp only [mulOnto, mulStepS_eq (by omega : 3 ≤ g) hna hb hmb', ok_bind, reprM]
      rfl
  · have hma' : isMul a = false := by simpa using hma
    by_cases hmb : isMul b = true
    · obtain ⟨bc, bd, rfl⟩ : ∃ bc bd, b = .mul bc bd := by cases b <;> simp_all [isMul]
      have hnb : NRS (bc, bd) := hb.1
      have : mulF (f + 1) rv a (.mul bc bd) = mulOnto f rv bc bd a := by
        cases a <;> simp_all [mulF, isMul]
      rw [this]
      obtain ⟨g, rfl⟩ : ∃ g, f = g + 1 := ⟨f - 1, by omega⟩
      simp only [mulOnto, mulStepS_eq (by omega : 3 ≤ g) hnb ha hma', ok_bind]
      have e : reprM (.mul bc bd) = (bc, bd) := rfl
      rw [e, rmulS_comm ha.1 hnb]
      rfl
    · have hmb' : isMul b = false := by simpa using hmb
      have : mulF (f + 1) rv a b = (do
          let (coef, d) ← mulStep f rv one [] a
          let (coef, d) ← mulStep f rv coef d b
          pure (mulFromDict coef d)) := by
        cases a <;> cases b <;> simp_all [mulF, isMul]
      rw [this, mulStepS_eq (by omega : 3 ≤ f) NRS_unit ha hma', rmulS_unit ha.1]
      simp only [ok_bind]
      have hra : NRS ((reprM a).1, (reprM a).2) := ha.1
      rw [mulStepS_eq (by omega : 3 ≤ f) hra hb hmb']
      rfl

end SymVerif.AC
