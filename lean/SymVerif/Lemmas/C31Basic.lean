/-
C31 helper lemmas, part 1: the dense coefficient lists of `Model/Series.lean` as formal power series
over ℚ, congruence modulo `X^n`, and the ring operations (padd, psub, scale, mulFull, mulTrunc, powPos,
diff, integrate) of the model.
-/
import Mathlib.RingTheory.PowerSeries.Basic
import Mathlib.RingTheory.PowerSeries.Derivative
import Mathlib.RingTheory.PowerSeries.Inverse
import Mathlib.Tactic.Ring
import Mathlib.Tactic.Linarith
import Mathlib.Tactic.FieldSimp
import SymVerif.Model.Series

namespace SymVerif.C31
open SymVerif.Series PowerSeries

/-- the formal power series denoted by a coefficient list -/
noncomputable def toPS (p : Poly) : ℚ⟦X⟧ := PowerSeries.mk fun k => Series.coeff p k

@[simp] theorem coeff_toPS (p : Poly) (k : ℕ) : coeff k (toPS p) = p.getD k 0 := by
  simp [toPS, Series.coeff]

@[simp] theorem toPS_nil : toPS [] = 0 := by
  ext k; simp

theorem toPS_cons (a : ℚ) (p : Poly) : toPS (a :: p) = C a + X * toPS p := by
  ext k
  cases k with
  | zero => simp
  | succ k => simp [coeff_succ_X_mul]

theorem toPS_singleton (a : ℚ) : toPS [a] = C a := by
  rw [toPS_cons]; simp

theorem toPS_padd (a b : Poly) : toPS (padd a b) = toPS a + toPS b := by
  induction a generalizing b with
  | nil => simp [padd]
  | cons x xs ih =>
    cases b with
    | nil => simp [padd]
    | cons y ys =>
      simp only [padd, toPS_cons, ih, map_add]
      ring

theorem toPS_scale (c : ℚ) (a : Poly) : toPS (scale c a) = C c * toPS a := by
  induction a with
  | nil => simp [scale]
  | cons x xs ih =>
    have : scale c (x :: xs) = (c * x) :: scale c xs := rfl
    rw [this, toPS_cons, toPS_cons, ih, map_mul]
    ring

theorem toPS_pneg (a : Poly) : toPS (pneg a) = - toPS a := by
  induction a with
  | nil => simp [pneg]
  | cons x xs ih =>
    have : pneg (x :: xs) = (-x) :: pneg xs := rfl
    rw [this, toPS_cons, toPS_cons, ih, map_neg]
    ring

theorem toPS_psub (a b : Poly) : toPS (psub a b) = toPS a - toPS b := by
  simp [psub, toPS_padd, toPS_pneg, sub_eq_add_neg]

theorem toPS_mulFull (a b : Poly) : toPS (mulFull a b) = toPS a * toPS b := by
  induction a with
  | nil => simp [mulFull]
  | cons x xs ih =>
    simp only [mulFull, toPS_padd, toPS_scale, toPS_cons, ih, map_zero]
    ring

/-! ### congruence modulo `X^n` -/

/-- `f ≡ g mod X^n`: the coefficients of degree `< n` agree -/
def EqMod (n : ℕ) (f g : ℚ⟦X⟧) : Prop := ∀ k, k < n → coeff k f = coeff k g

theorem eqMod_iff_dvd {n : ℕ} {f g : ℚ⟦X⟧} : EqMod n f g ↔ X ^ n ∣ f - g := by
  rw [X_pow_dvd_iff]
  constructor
  · intro h k hk; simp [h k hk]
  · intro h k hk
    have := h k hk
    simpa [sub_eq_zero] using this

theorem EqMod.refl (n : ℕ) (f : ℚ⟦X⟧) : EqMod n f f := fun _ _ => rfl
theorem EqMod.symm {n : ℕ} {f g : ℚ⟦X⟧} (h : EqMod n f g) : EqMod n g f := fun k hk => (h k hk).symm
theorem EqMod.trans {n : ℕ} {f g h : ℚ⟦X⟧} (h1 : EqMod n f g) (h2 : EqMod n g h) : EqMod n f h :=
  fun k hk => (h1 k hk).trans (h2 k hk)
theorem EqMod.mono {m n : ℕ} {f g : ℚ⟦X⟧} (h : EqMod n f g) (hmn : m ≤ n) : EqMod m f g :=
  fun k hk => h k (lt_of_lt_of_le hk hmn)
theorem EqMod.of_eq {n : ℕ} {f g : ℚ⟦X⟧} (h : f = g) : EqMod n f g := h ▸ EqMod.refl n f
theorem eqMod_zero (f g : ℚ⟦X⟧) : EqMod 0 f g := fun _ hk => absurd hk (Nat.not_lt_zero _)

theorem EqMod.add {n : ℕ} {f g f' g' : ℚ⟦X⟧} (h1 : EqMod n f g) (h2 : EqMod n f' g') :
    EqMod n (f + f') (g + g') := fun k hk => by simp [h1 k hk, h2 k hk]
theorem EqMod.neg {n : ℕ} {f g : ℚ⟦X⟧} (h1 : EqMod n f g) : EqMod n (-f) (-g) :=
  fun k hk => by simp [h1 k hk]
theorem EqMod.sub {n : ℕ} {f g f' g' : ℚ⟦X⟧} (h1 : EqMod n f g) (h2 : EqMod n f' g') :
    EqMod n (f - f') (g - g') := fun k hk => by simp [h1 k hk, h2 k hk]

theorem EqMod.mul {n : ℕ} {f g f' g' : ℚ⟦X⟧} (h1 : EqMod n f g) (h2 : EqMod n f' g') :
    EqMod n (f * f') (g * g') := by
  intro k hk
  rw [coeff_mul, coeff_mul]
  apply Finset.sum_congr rfl
  intro p hp
  have hp' := Finset.mem_antidiagonal.mp hp
  rw [h1 p.1 (by omega), h2 p.2 (by omega)]

theorem EqMod.mul_left {n : ℕ} {f g : ℚ⟦X⟧} (h : ℚ⟦X⟧) (h1 : EqMod n f g) : EqMod n (h * f) (h * g) :=
  (EqMod.refl n h).mul h1
theorem EqMod.mul_right {n : ℕ} {f g : ℚ⟦X⟧} (h : ℚ⟦X⟧) (h1 : EqMod n f g) : EqMod n (f * h) (g * h) :=
  h1.mul (EqMod.refl n h)

theorem EqMod.pow {n : ℕ} {f g : ℚ⟦X⟧} (h : EqMod n f g) (e : ℕ) : EqMod n (f ^ e) (g ^ e) := by
  induction e with
  | zero => simp [EqMod.refl]
  | succ e ih => rw [pow_succ, pow_succ]; exact ih.mul h

/-- a congruence modulo `X^m` squares to a congruence modulo `X^(2m)` -/
theorem eqMod_sq_of_eqMod {m : ℕ} {e : ℚ⟦X⟧} (h : EqMod m e 0) : EqMod (2 * m) (e * e) 0 := by
  rw [eqMod_iff_dvd] at *
  simp only [sub_zero] at *
  have : X ^ (2 * m) = (X : ℚ⟦X⟧) ^ m * X ^ m := by rw [two_mul, pow_add]
  rw [this]
  exact mul_dvd_mul h h

theorem EqMod.derivative {n : ℕ} {f g : ℚ⟦X⟧} (h : EqMod (n + 1) f g) :
    EqMod n (d⁄dX ℚ f) (d⁄dX ℚ g) := by
  intro k hk
  rw [coeff_derivative, coeff_derivative, h (k + 1) (by omega)]

/-- uniqueness of antiderivatives modulo `X^(n+1)` -/
theorem eqMod_of_derivative {n : ℕ} {f g : ℚ⟦X⟧} (h0 : coeff 0 f = coeff 0 g)
    (h : EqMod n (d⁄dX ℚ f) (d⁄dX ℚ g)) : EqMod (n + 1) f g := by
  intro k hk
  cases k with
  | zero => exact h0
  | succ k =>
    have := h k (by omega)
    rw [coeff_derivative, coeff_derivative] at this
    have hne : ((k : ℚ) + 1) ≠ 0 := by positivity
    exact mul_right_cancel₀ hne this

/-! ### truncated product -/

theorem coeff_toPS_take (p : Poly) (n k : ℕ) :
    coeff k (toPS (p.take n)) = if k < n then coeff k (toPS p) else 0 := by
  simp only [coeff_toPS]
  split
  · next h => simp [List.getD, h]
  · next h => simp [List.getD, h]

theorem eqMod_take (p : Poly) (n : ℕ) : EqMod n (toPS (p.take n)) (toPS p) := by
  intro k hk; rw [coeff_toPS_take]; simp [hk]

theorem length_padd (a b : Poly) : (padd a b).length = max a.length b.length := by
  induction a generalizing b with
  | nil => simp [padd]
  | cons x xs ih =>
    cases b with
    | nil => simp [padd]
    | cons y ys => simp [padd, ih]

theorem length_mulTrunc (a b : Poly) (n : ℕ) : (mulTrunc a b n).length ≤ n := by
  induction a generalizing n with
  | nil => simp [mulTrunc]
  | cons x xs ih =>
    cases n with
    | zero => simp [mulTrunc]
    | succ n =>
      simp only [mulTrunc, length_padd, scale, List.length_map, List.length_take, List.length_cons]
      have := ih n
      omega

theorem toPS_mulTrunc (a b : Poly) (n : ℕ) : EqMod n (toPS (mulTrunc a b n)) (toPS a * toPS b) := by
  induction a generalizing n with
  | nil => simp [mulTrunc, EqMod.refl]
  | cons x xs ih =>
    cases n with
    | zero => exact eqMod_zero _ _
    | succ n =>
      simp only [mulTrunc, toPS_padd, toPS_scale, toPS_cons, map_zero, zero_add]
      have h1 : EqMod (n + 1) (C x * toPS (b.take (n + 1))) (C x * toPS b) :=
        EqMod.mul_left _ (eqMod_take b (n + 1))
      have h2 : EqMod (n + 1) (X * toPS (mulTrunc xs b n)) (X * (toPS xs * toPS b)) := by
        intro k hk
        cases k with
        | zero => simp
        | succ k =>
          rw [coeff_succ_X_mul, coeff_succ_X_mul]
          exact ih n k (by omega)
      have := h1.add h2
      refine this.trans (EqMod.of_eq ?_)
      ring

/-- coefficients of the truncated product beyond the precision vanish -/
theorem coeff_mulTrunc_ge (a b : Poly) (n k : ℕ) (hk : n ≤ k) : coeff k (toPS (mulTrunc a b n)) = 0 := by
  rw [coeff_toPS]
  have := length_mulTrunc a b n
  simp [List.getD, List.getElem?_eq_none (by omega : (mulTrunc a b n).length ≤ k)]

/-! ### powers -/

theorem toPS_one : toPS [1] = 1 := by rw [toPS_singleton]; simp

theorem powLoop_spec (prec : ℕ) (B : ℚ⟦X⟧) (E : ℕ) :
    ∀ (fuel : ℕ) (x y : Poly) (e : ℕ), e ≤ fuel + 1 → 1 ≤ e →
      EqMod prec (toPS x ^ e * toPS y) (B ^ E) →
      EqMod prec (toPS (powLoop prec fuel x y e)) (B ^ E) := by
  intro fuel
  induction fuel with
  | zero =>
    intro x y e he1 he2 hinv
    have : e = 1 := by omega
    subst this
    simp only [powLoop]
    exact (toPS_mulTrunc x y prec).trans (by simpa using hinv)
  | succ fuel ih =>
    intro x y e he1 he2 hinv
    simp only [powLoop]
    split
    · next hgt =>
      split
      · next heven =>
        have heven' : e % 2 = 0 := by simpa using heven
        apply ih _ _ _ (by omega) (by omega)
        have hxx := toPS_mulTrunc x x prec
        have : EqMod prec (toPS (mulTrunc x x prec) ^ (e / 2) * toPS y)
            ((toPS x * toPS x) ^ (e / 2) * toPS y) := (hxx.pow _).mul_right _
        refine this.trans ?_
        refine (EqMod.of_eq ?_).trans hinv
        have he : e = 2 * (e / 2) := by omega
        conv_rhs => rw [he]
        rw [pow_mul, pow_two]
      · next hodd =>
        have hodd' : e % 2 = 1 := by
          have : ¬ (e % 2 = 0) := by simpa using hodd
          omega
        apply ih _ _ _ (by omega) (by omega)
        have hxx := toPS_mulTrunc x x prec
        have hxy := toPS_mulTrunc x y prec
        have : EqMod prec (toPS (mulTrunc x x prec) ^ ((e - 1) / 2) * toPS (mulTrunc x y prec))
            ((toPS x * toPS x) ^ ((e - 1) / 2) * (toPS x * toPS y)) := (hxx.pow _).mul hxy
        refine this.trans ?_
        refine (EqMod.of_eq ?_).trans hinv
        have he : e = 2 * ((e - 1) / 2) + 1 := by omega
        conv_rhs => rw [he]
        rw [pow_succ, pow_mul, pow_two]
        ring
    · next hle =>
      have : e = 1 := by omega
      subst this
      exact (toPS_mulTrunc x y prec).trans (by simpa using hinv)

/-- `UnivariateSeries::pow(base, e, prec)` is `base^e` modulo `X^prec` (e ≥ 1) -/
theorem toPS_powPos (b : Poly) (e prec : ℕ) (he : 1 ≤ e) :
    EqMod prec (toPS (powPos b e prec)) (toPS b ^ e) := by
  unfold powPos
  apply powLoop_spec prec (toPS b) e e b [1] e (by omega) he
  rw [toPS_one, mul_one]
  exact EqMod.refl _ _

/-! ### derivative and integral -/

/-- formal antiderivative with zero constant term -/
noncomputable def integ (f : ℚ⟦X⟧) : ℚ⟦X⟧ :=
  PowerSeries.mk fun n => if n = 0 then 0 else coeff (n - 1) f / n

@[simp] theorem coeff_zero_integ (f : ℚ⟦X⟧) : coeff 0 (integ f) = 0 := by simp [integ]
@[simp] theorem constantCoeff_integ (f : ℚ⟦X⟧) : constantCoeff (integ f) = 0 := by
  rw [← coeff_zero_eq_constantCoeff_apply]; exact coeff_zero_integ f
@[simp] theorem coeff_succ_integ (f : ℚ⟦X⟧) (n : ℕ) : coeff (n + 1) (integ f) = coeff n f / (n + 1) := by
  simp [integ]

@[simp] theorem derivative_integ (f : ℚ⟦X⟧) : d⁄dX ℚ (integ f) = f := by
  ext n
  rw [coeff_derivative, coeff_succ_integ]
  have : ((n : ℚ) + 1) ≠ 0 := by positivity
  field_simp

theorem integ_derivative (f : ℚ⟦X⟧) (h0 : coeff 0 f = 0) : integ (d⁄dX ℚ f) = f := by
  ext n
  cases n with
  | zero => simp [h0]
  | succ n =>
    rw [coeff_succ_integ, coeff_derivative]
    have : ((n : ℚ) + 1) ≠ 0 := by positivity
    field_simp

theorem integ_add (f g : ℚ⟦X⟧) : integ (f + g) = integ f + integ g := by
  ext n
  cases n with
  | zero => simp
  | succ n => simp [add_div]

theorem EqMod.integ {n : ℕ} {f g : ℚ⟦X⟧} (h : EqMod n f g) : EqMod (n + 1) (integ f) (integ g) := by
  intro k hk
  cases k with
  | zero => simp
  | succ k => rw [coeff_succ_integ, coeff_succ_integ, h k (by omega)]

theorem coeff_toPS_diffFrom (p : Poly) (j k : ℕ) :
    coeff k (toPS (diffFrom j p)) = ((j + k : ℕ) : ℚ) * coeff k (toPS p) := by
  induction p generalizing j k with
  | nil => simp [diffFrom]
  | cons a t ih =>
    cases k with
    | zero => simp [diffFrom]
    | succ k =>
      simp only [diffFrom, coeff_toPS, List.getD_cons_succ]
      have := ih (j + 1) k
      simp only [coeff_toPS] at this
      rw [this]
      congr 2
      omega

theorem toPS_diff (p : Poly) : toPS (diff p) = d⁄dX ℚ (toPS p) := by
  ext k
  rw [coeff_derivative]
  cases p with
  | nil => simp [diff]
  | cons a t =>
    rw [show diff (a :: t) = diffFrom 1 t from rfl, coeff_toPS_diffFrom]
    simp only [coeff_toPS, List.getD_cons_succ]
    push_cast
    ring

theorem coeff_toPS_integrateFrom (p : Poly) (j k : ℕ) :
    coeff k (toPS (integrateFrom j p)) = coeff k (toPS p) / ((j + k : ℕ) : ℚ) := by
  induction p generalizing j k with
  | nil => simp [integrateFrom]
  | cons a t ih =>
    cases k with
    | zero => simp [integrateFrom]
    | succ k =>
      simp only [integrateFrom, coeff_toPS, List.getD_cons_succ]
      have := ih (j + 1) k
      simp only [coeff_toPS] at this
      rw [this]
      congr 2
      omega

theorem toPS_integrate (p : Poly) : toPS (integrate p) = integ (toPS p) := by
  ext k
  cases k with
  | zero => simp [integrate]
  | succ k =>
    rw [coeff_succ_integ]
    simp only [integrate, coeff_toPS, List.getD_cons_succ]
    have := coeff_toPS_integrateFrom p 1 k
    simp only [coeff_toPS] at this
    rw [this]
    push_cast
    ring

/-! ### `norm` and the structural tests of the model -/

theorem toPS_norm (p : Poly) : toPS (norm p) = toPS p := by
  induction p with
  | nil => simp [norm]
  | cons a t ih =>
    simp only [norm]
    split
    · next h =>
      rw [toPS_cons a t, ← ih, h]
      split
      · next ha =>
        have : a = 0 := by simpa using ha
        subst this
        simp
      · rw [toPS_cons]
    · next h => rw [toPS_cons, toPS_cons, ih]

theorem toPS_of_isZero {p : Poly} (h : isZero p = true) : toPS p = 0 := by
  have : norm p = [] := by simpa [isZero] using h
  rw [← toPS_norm, this, toPS_nil]

theorem toPS_of_isOne {p : Poly} (h : isOne p = true) : toPS p = 1 := by
  have : norm p = [1] := by simpa [isOne] using h
  rw [← toPS_norm, this, toPS_one]

theorem toPS_of_isVar {p : Poly} (h : isVar p = true) : toPS p = X := by
  have : norm p = [0, 1] := by simpa [isVar] using h
  rw [← toPS_norm, this, toPS_cons, toPS_singleton]
  simp

theorem toPS_of_isVarPlusOne {p : Poly} (h : isVarPlusOne p = true) : toPS p = 1 + X := by
  have : norm p = [1, 1] := by simpa [isVarPlusOne] using h
  rw [← toPS_norm, this, toPS_cons, toPS_singleton]
  simp

theorem coeff_zero_of_ldegree {p : Poly} (h : ldegree p = some 0) : coeff 0 (toPS p) ≠ 0 := by
  cases p with
  | nil => simp [ldegree] at h
  | cons a t =>
    simp only [ldegree] at h
    split at h
    · next ha => simpa using ha
    · next ha =>
      cases hl : ldegree t with
      | none => simp [hl] at h
      | some v => simp [hl] at h

end SymVerif.C31
