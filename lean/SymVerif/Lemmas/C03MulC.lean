/-
C03: induction step for `Mul::dict_add_term_new` (the loop invariant of the Mul dictionary).
-/
import SymVerif.Lemmas.C03MulB

namespace SymVerif.Arith

variable {n : Nat}

theorem exOK_of_num3 {t : Expr} (ht : inv t = true)
    (h3 : (isInteger t || isRational t || isComplex t) = true) : ExOK t := by
  refine ⟨?_, inv_canon ht⟩
  cases t <;> simp_all [isInteger, isRational, isComplex, isExactNum]

theorem exOK_of_rat {e : Expr} (he : inv e = true) (h : isRational e = true) : ExOK e := by
  refine ⟨?_, inv_canon he⟩
  cases e <;> simp_all [isRational, isExactNum]

theorem exOK_of_intOrRat {t : Expr} (ht : inv t = true)
    (h : (isInteger t || isRational t) = true) : ExOK t := by
  refine ⟨?_, inv_canon ht⟩
  cases t <;> simp_all [isInteger, isRational, isExactNum]

theorem eqE_iff {a b : Expr} : eqE a b = true ↔ a = b := by
  unfold eqE; exact key_beq_iff

/-- not-found branch of `dict_add_term_new` -/
theorem datNew_notFound (hshape : RadShape) (ih : Spec n) {rv : Bool} {coef exp t c' : Expr}
    {d d' : Dict} (hs : St coef d) (hp : Pre t exp) (hf : dfind d t = none)
    (h : datNew (n + 1) rv coef d exp t = .ok (c', d')) : St c' d' := by
  simp only [datNew, hf] at h
  split at h
  · rename_i h3
    have hte := exOK_of_num3 hp.invT h3
    split at h
    · -- Integer exponent: coef *= t ** exp
      cases hpw : numPow t exp with
      | error e => simp [hpw, bind, Except.bind] at h
      | ok p =>
        simp only [hpw, bind, Except.bind] at h
        cases hm : numMul coef p with
        | error e => simp [hm] at h
        | ok c1 =>
          simp [hm, pure, Except.pure] at h
          obtain ⟨rfl, rfl⟩ := h
          exact ⟨numMul_ok hs.1 (numPow_ok hte hpw) hm, hs.2⟩
    · rename_i hi
      split at h
      · -- Rational exponent of an Integer / Rational base
        rename_i hr
        simp only [Bool.and_eq_true, Bool.not_eq_true'] at hr
        have hee := exOK_of_rat hp.invE hr.1
        cases hres : powNumRat n rv t exp with
        | error e => simp [hres, bind, Except.bind] at h
        | ok res =>
          simp only [hres, bind, Except.bind] at h
          have hri := ih.powNumRat rv t exp res hte hee hres
          cases habs : absorb n rv coef d res with
          | error e => simp [habs] at h
          | ok o =>
            cases o with
            | some x =>
              obtain ⟨c1, d1⟩ := x
              simp [habs, pure, Except.pure] at h
              obtain ⟨rfl, rfl⟩ := h
              exact ih.absorb rv coef d res c1 d1 hs hri habs
            | none =>
              simp only [habs] at h
              have hnn : res.isNum = false ∧ isMul res = false := by
                cases n with
                | zero => simp [absorb] at habs
                | succ m => exact absorb_none habs
              split at h
              · rename_i rb re
                obtain ⟨hb, he, _, hfac⟩ := inv_pow_iff.mp hri
                split at h
                · exact ih.datNew rv coef d re rb c' d' hs (pre_of_factor hb he hfac) h
                · rename_i heq
                  simp only [Bool.not_eq_true', Bool.and_eq_false_iff, not_or, Bool.not_eq_false,
                    eqE_iff] at heq
                  simp [pure, Except.pure] at h
                  obtain ⟨rfl, rfl⟩ := h
                  obtain ⟨e1, e2⟩ := heq
                  subst e1; subst e2
                  exact ⟨hs.1, hs.2.insert hb he hfac⟩
              · rename_i hnp
                rcases hshape n rv t exp res hres with h1 | h1 | h1
                · simp [hnn.1] at h1
                · simp [hnn.2] at h1
                · cases res <;> simp [isPow] at h1
                  exact absurd rfl (hnp _ _)
      · rename_i hr
        simp at h
        obtain ⟨rfl, rfl⟩ := h
        exact ⟨hs.1, hs.2.insert hp.invT hp.invE
          (factor_of_pre_num3 hp h3 (by simpa using hi) (by simpa using hr))⟩
  · rename_i h3
    split at h
    · -- (b**e)**n folded by pow()
      rename_i hpi
      cases hr : powF n rv t exp with
      | error e => simp [hr, bind, Except.bind] at h
      | ok r =>
        simp only [hr, bind, Except.bind] at h
        have hob : okBase t = true := by
          simp only [Bool.and_eq_true] at hpi
          cases t <;> simp_all [isPow, okBase]
        exact ih.mulInto rv coef d r c' d' hs (ih.powF rv t exp r hp.invT hp.invE hob hr) h
    · rename_i hpi
      simp at h
      obtain ⟨rfl, rfl⟩ := h
      exact ⟨hs.1, hs.2.insert hp.invT hp.invE
        (factor_of_pre_other hp (by simpa using h3) (by simpa using hpi))⟩

theorem step_datNew (hshape : RadShape) (ih : Spec n) : ∀ rv coef d exp t c' d', St coef d →
    Pre t exp → datNew (n + 1) rv coef d exp t = .ok (c', d') → St c' d' := by
  intro rv coef d exp t c' d' hs hp h
  cases hf : dfind d t with
  | none => exact datNew_notFound hshape ih hs hp hf h
  | some old =>
    simp only [datNew, hf] at h
    have hm := dfind_some hf
    have hold := hs.2.ent _ hm
    by_cases hc : (exp.isNum && old.isNum) = true
    · simp only [hc, if_true, bind, Except.bind] at h
      cases hv : numAdd old exp with
      | error e => simp [hv] at h
      | ok v =>
        simp only [hv] at h
        simp only [Bool.and_eq_true] at hc
        have hvi := (numAdd_ok ⟨hc.2, inv_canon hold.2⟩ ⟨hc.1, inv_canon hp.invE⟩ hv).inv
        exact ih.datFound rv coef d t old v c' d' hs hm hvi h
    · simp only [hc, if_false, bind, Except.bind] at h
      cases hv : addCore old exp with
      | error e => simp [hv] at h
      | ok v =>
        simp only [hv] at h
        exact ih.datFound rv coef d t old v c' d' hs hm (addCore_inv hold.2 hp.invE hv) h

end SymVerif.Arith
