import SymVerif.Lemmas.C27Order
import Mathlib.Data.List.Basic

/-! Denotation of set objects on rational points, well-formedness, and the container lemmas. -/
namespace SymVerif.Sets

/-! ### `SetE.beq'` is sound -/

mutual
theorem SetE.beq'_sound : ∀ a b : SetE, SetE.beq' a b = true → a = b
  | .empty, b, h | .univ, b, h | .reals, b, h | .rats, b, h | .ints, b, h | .nats, b, h | .nats0, b, h => by
      cases b <;> simp_all [SetE.beq']
  | .iv a b l r, x, h => by cases x <;> simp_all [SetE.beq']
  | .fs l, x, h => by cases x <;> simp_all [SetE.beq']
  | .un l, x, h => by
      cases x <;> simp_all [SetE.beq']
      exact SetE.beqL_sound _ _ h
  | .inter l, x, h => by
      cases x <;> simp_all [SetE.beq']
      exact SetE.beqL_sound _ _ h
  | .co u a, x, h => by
      cases x <;> simp_all [SetE.beq']
      exact ⟨SetE.beq'_sound _ _ h.1, SetE.beq'_sound _ _ h.2⟩
theorem SetE.beqL_sound : ∀ a b : List SetE, SetE.beqL a b = true → a = b
  | [], b, h => by cases b <;> simp_all [SetE.beqL]
  | a :: l, b, h => by
      cases b <;> simp_all [SetE.beqL]
      exact ⟨SetE.beq'_sound _ _ h.1, SetE.beqL_sound _ _ h.2⟩
end

theorem SetE.eq_of_beq {a b : SetE} (h : (a == b) = true) : a = b := SetE.beq'_sound a b h

/-- a `BEq` whose `true` answers are right -/
def SoundBEq (α : Type) [BEq α] : Prop := ∀ a b : α, (a == b) = true → a = b

theorem soundBEq_SetE : SoundBEq SetE := fun _ _ h => SetE.eq_of_beq h
theorem soundBEq_ENum : SoundBEq ENum := fun _ _ h => by simpa using h

/-! ### containers -/

section containers
variable {α : Type} [BEq α]

theorem mem_insertK (hs : SoundBEq α) (key : α → UInt64) (x y : α) (l : List α) :
    y ∈ insertK key x l ↔ y = x ∨ y ∈ l := by
  induction l with
  | nil => simp [insertK]
  | cons z t ih =>
    unfold insertK
    by_cases h1 : (x == z) = true
    · have := hs _ _ h1
      subst this
      simp [h1]
    · simp only [h1]
      by_cases h2 : key x < key z
      · simp [h2]
      · simp [h2, ih]
        tauto

theorem mem_foldl_insertK (hs : SoundBEq α) (key : α → UInt64) (y : α) (l acc : List α) :
    y ∈ l.foldl (fun acc x => insertK key x acc) acc ↔ y ∈ acc ∨ y ∈ l := by
  induction l generalizing acc with
  | nil => simp
  | cons z t ih =>
    simp only [List.foldl_cons, ih, mem_insertK hs, List.mem_cons]
    tauto

theorem mem_eraseK_imp (x y : α) (l : List α) : y ∈ eraseK x l → y ∈ l := by
  induction l with
  | nil => simp [eraseK]
  | cons z t ih =>
    unfold eraseK
    by_cases h1 : (x == z) = true
    · simp only [h1, if_true]; intro h; exact List.mem_cons_of_mem _ h
    · simp only [h1]
      intro h
      rcases List.mem_cons.1 h with h | h
      · exact h ▸ List.mem_cons_self
      · exact List.mem_cons_of_mem _ (ih h)

theorem mem_of_eraseK (hs : SoundBEq α) (x y : α) (l : List α) : y ∈ l → y = x ∨ y ∈ eraseK x l := by
  induction l with
  | nil => simp
  | cons z t ih =>
    unfold eraseK
    intro h
    by_cases h1 : (x == z) = true
    · have := hs _ _ h1
      subst this
      simp only [h1, if_true]
      rcases List.mem_cons.1 h with h | h
      · exact Or.inl h
      · exact Or.inr h
    · simp only [h1]
      rcases List.mem_cons.1 h with h | h
      · exact Or.inr (h ▸ List.mem_cons_self)
      · rcases ih h with h' | h'
        · exact Or.inl h'
        · exact Or.inr (List.mem_cons_of_mem _ h')

end containers

theorem mem_mkSB (y : ENum) (l : List ENum) : y ∈ mkSB l ↔ y ∈ l := by
  unfold mkSB; rw [mem_foldl_insertK soundBEq_ENum]; simp
theorem mem_mkSS (y : SetE) (l : List SetE) : y ∈ mkSS l ↔ y ∈ l := by
  unfold mkSS; rw [mem_foldl_insertK soundBEq_SetE]; simp
theorem mem_insertAllSB (y : ENum) (acc l : List ENum) : y ∈ insertAllSB acc l ↔ y ∈ acc ∨ y ∈ l := by
  unfold insertAllSB; rw [mem_foldl_insertK soundBEq_ENum]

/-! ### denotation -/

mutual
/-- the rational points of a set object -/
def mem : SetE → ℚ → Prop
  | .empty, _ => False
  | .univ, _ => True
  | .reals, _ => True
  | .rats, _ => True
  | .ints, q => q.den = 1
  | .nats, q => q.den = 1 ∧ 0 < q.num
  | .nats0, q => q.den = 1 ∧ 0 ≤ q.num
  | .iv s e lo ro, q => memIv s e lo ro q
  | .fs l, q => ENum.fin q ∈ l
  | .un l, q => memAny l q
  | .inter l, q => memAll l q
  | .co u a, q => mem u q ∧ ¬ mem a q
def memAny : List SetE → ℚ → Prop
  | [], _ => False
  | x :: t, q => mem x q ∨ memAny t q
def memAll : List SetE → ℚ → Prop
  | [], _ => True
  | x :: t, q => mem x q ∧ memAll t q
end

mutual
/-- every interval node is a canonical `Interval` (`start < end`), every `Union` node has members -/
def WF : SetE → Prop
  | .iv s e _ _ => s < e
  | .un l => l ≠ [] ∧ WFL l
  | .inter l => WFL l
  | .co u a => WF u ∧ WF a
  | _ => True
def WFL : List SetE → Prop
  | [] => True
  | x :: t => WF x ∧ WFL t
end

theorem memAny_iff (l : List SetE) (q : ℚ) : memAny l q ↔ ∃ s ∈ l, mem s q := by
  induction l with
  | nil => simp [memAny]
  | cons x t ih => simp [memAny, ih]

theorem memAll_iff (l : List SetE) (q : ℚ) : memAll l q ↔ ∀ s ∈ l, mem s q := by
  induction l with
  | nil => simp [memAll]
  | cons x t ih => simp [memAll, ih]

theorem WFL_iff (l : List SetE) : WFL l ↔ ∀ s ∈ l, WF s := by
  induction l with
  | nil => simp [WFL]
  | cons x t ih => simp [WFL, ih]

/-! ### constructors -/

theorem mem_finiteset (l : List ENum) (q : ℚ) : mem (finiteset l) q ↔ ENum.fin q ∈ l := by
  unfold finiteset
  cases l <;> simp [mem]

theorem WF_finiteset (l : List ENum) : WF (finiteset l) := by
  unfold finiteset
  cases l <;> simp [WF]

theorem ivCanonical_iff (s e : ENum) : ivCanonical s e = true ↔ s < e := by
  unfold ivCanonical
  simp only [ENum.min2_eq, beq_iff_eq]
  grind

theorem mem_interval (s e : ENum) (lo ro : Bool) (q : ℚ) :
    mem (interval s e lo ro) q ↔ memIv s e lo ro q := by
  unfold interval
  split
  · simp [mem]
  · rename_i h
    have hn : ¬ s < e := fun hlt => h ((ivCanonical_iff s e).2 hlt)
    split
    · rename_i h2
      simp only [Bool.and_eq_true, beq_iff_eq, Bool.not_eq_true', Bool.or_eq_false_iff] at h2
      obtain ⟨rfl, hlo, hro⟩ := h2
      rw [mem_finiteset, mem_mkSB]
      unfold memIv
      simp only [List.mem_singleton, hlo, hro]
      grind
    · rename_i h2
      simp only [Bool.and_eq_true, beq_iff_eq, Bool.not_eq_true', Bool.or_eq_false_iff] at h2
      unfold memIv
      simp only [mem]
      grind

theorem WF_interval (s e : ENum) (lo ro : Bool) : WF (interval s e lo ro) := by
  unfold interval
  split
  · rename_i h
    simp [WF, (ivCanonical_iff s e).1 h]
  · split
    · exact WF_finiteset _
    · simp [WF]

theorem makeUnion_ok {l : List SetE} {s : SetE} (h : makeUnion l = .ok s) :
    (∀ q, mem s q ↔ memAny l q) ∧ (WFL l → WF s) := by
  unfold makeUnion at h
  match l, h with
  | [x], h =>
    simp at h; subst h
    exact ⟨fun q => by simp [memAny], fun hw => hw.1⟩
  | x :: y :: t, h =>
    simp at h
    split at h
    · simp at h; subst h
      exact ⟨fun q => by simp [mem], fun hw => by simp only [WF]; exact ⟨by simp, hw⟩⟩
    · simp at h

theorem makeInter_ok {l : List SetE} {s : SetE} (h : makeInter l = .ok s) :
    (∀ q, mem s q ↔ memAll l q) ∧ (WFL l → WF s) := by
  unfold makeInter at h
  match l, h with
  | [x], h =>
    simp at h; subst h
    exact ⟨fun q => by simp [memAll], fun hw => hw.1⟩
  | x :: y :: t, h =>
    simp at h; subst h
    exact ⟨fun q => by simp [mem], fun hw => by simpa [WF] using hw⟩

/-! ### `contains` agrees with the denotation -/

mutual
theorem contains_iff : ∀ (s : SetE) (q : ℚ), WF s → (contains s (.fin q) = true ↔ mem s q)
  | .empty, q, _ => by simp [contains, mem]
  | .univ, q, _ => by simp [contains, mem]
  | .reals, q, _ => by simp [contains, mem]
  | .rats, q, _ => by simp [contains, mem, ENum.isExact]
  | .ints, q, _ => by simp [contains, mem, ENum.isInteger]
  | .nats, q, _ => by simp [contains, mem, ENum.isPosInteger]
  | .nats0, q, _ => by simp [contains, mem, ENum.isNonnegInteger]
  | .iv s e lo ro, q, h => by
      simp only [contains, mem]
      exact ivContains_iff s e lo ro q (by simpa [WF] using h)
  | .fs l, q, _ => by simp [contains, mem]
  | .un l, q, h => by
      simp only [contains, mem]
      exact containsAny_iff l q (by simp only [WF] at h; exact h.2)
  | .inter l, q, h => by
      simp only [contains, mem]
      exact containsAll_iff l q (by simpa [WF] using h)
  | .co u a, q, h => by
      have h' : WF u ∧ WF a := by simpa [WF] using h
      simp only [contains, mem, Bool.and_eq_true, Bool.not_eq_true']
      rw [contains_iff u q h'.1, ← contains_iff a q h'.2]
      simp
theorem containsAny_iff : ∀ (l : List SetE) (q : ℚ), WFL l → (containsAny l (.fin q) = true ↔ memAny l q)
  | [], q, _ => by simp [containsAny, memAny]
  | x :: t, q, h => by
      simp only [containsAny, memAny, Bool.or_eq_true]
      rw [contains_iff x q h.1, containsAny_iff t q h.2]
theorem containsAll_iff : ∀ (l : List SetE) (q : ℚ), WFL l → (containsAll l (.fin q) = true ↔ memAll l q)
  | [], q, _ => by simp [containsAll, memAll]
  | x :: t, q, h => by
      simp only [containsAll, memAll, Bool.and_eq_true]
      rw [contains_iff x q h.1, containsAll_iff t q h.2]
end

end SymVerif.Sets
