import Mathlib.FieldTheory.Perfect
import Mathlib.RingTheory.EuclideanDomain
import SymVerif.Lemmas.C23Euclid

/-!
C23 helper lemmas, part 5: `gf_is_sqf` decides square-freeness.
-/
namespace SymVerif.C23
open Polynomial SymVerif.GF

variable {p : ℕ} [Fact p.Prime]

omit [Fact p.Prime] in
/-- the invariant pins the representation: equal polynomials have equal coefficient vectors -/
theorem toPoly_injective' {a b : Poly} (ha : WF p a) (hb : WF p b) (h : toPoly p a = toPoly p b) : a = b := by
  have hc : ∀ i, a.getD i 0 = b.getD i 0 := by
    intro i
    have := congrArg (fun q => q.coeff i) h
    simp only [coeff_toPoly] at this
    by_cases hia : i < a.length
    · by_cases hib : i < b.length
      · have h1 : a.getD i 0 < p := by
          rw [getD_lt _ _ hia]; exact ha.1 _ (List.getElem_mem hia)
        have h2 : b.getD i 0 < p := by
          rw [getD_lt _ _ hib]; exact hb.1 _ (List.getElem_mem hib)
        have := (ZMod.natCast_eq_natCast_iff' _ _ _).mp this
        rwa [Nat.mod_eq_of_lt h1, Nat.mod_eq_of_lt h2] at this
      · rw [getD_of_le b i (by omega)] at this ⊢
        have h1 : a.getD i 0 < p := by
          rw [getD_lt _ _ hia]; exact ha.1 _ (List.getElem_mem hia)
        simp only [Nat.cast_zero] at this
        exact cast_eq_zero_of_lt h1 this
    · rw [getD_of_le a i (by omega)] at this ⊢
      by_cases hib : i < b.length
      · have h2 : b.getD i 0 < p := by
          rw [getD_lt _ _ hib]; exact hb.1 _ (List.getElem_mem hib)
        simp only [Nat.cast_zero] at this
        exact (cast_eq_zero_of_lt h2 this.symm).symm
      · rw [getD_of_le b i (by omega)]
  have hlen : a.length = b.length := by
    by_contra hne
    rcases Nat.lt_or_gt_of_ne hne with hl | hl
    · have hb0 : b ≠ [] := by intro e; simp [e] at hl
      have := natDegree_toPoly hb
      have h2 := natDegree_toPoly_lt (p := p) a
      by_cases ha0 : a = []
      · subst ha0
        rw [toPoly_nil] at h
        exact hb0 ((toPoly_eq_zero_iff hb).mp h.symm)
      · have := h2 ha0
        rw [h, natDegree_toPoly hb] at this
        omega
    · have ha0 : a ≠ [] := by intro e; simp [e] at hl
      have h2 := natDegree_toPoly_lt (p := p) b
      by_cases hb0 : b = []
      · subst hb0
        rw [toPoly_nil] at h
        exact ha0 ((toPoly_eq_zero_iff ha).mp h)
      · have := h2 hb0
        rw [← h, natDegree_toPoly ha] at this
        omega
  apply List.ext_getElem hlen
  intro i h1 h2
  have := hc i
  rwa [getD_lt _ _ h1, getD_lt _ _ h2] at this

theorem toPoly_singleton_one : toPoly p [1] = 1 := by simp

theorem wf_singleton_one : WF p [1] := by
  refine ⟨?_, by simp⟩
  intro x hx; simp at hx; subst hx; exact prime_one_lt

/-- `gf_is_sqf` returns true exactly for the square-free polynomials (non-zero input) -/
theorem isSqf_iff {a : Poly} (ha : WF p a) (ha0 : a ≠ []) :
    isSqf p a = true ↔ Squarefree (toPoly p a) := by
  classical
  have ea : a.isEmpty = false := by cases a <;> simp_all
  obtain ⟨_, m2, m3, m4, m5⟩ := monic_spec' ha ha0
  have hu : (((a.getLastD 0 : ℕ) : ZMod p))⁻¹ ≠ 0 := inv_ne_zero (getLastD_cast_ne_zero ha ha0)
  obtain ⟨gw, gd1, gd2, gmax, gmon, _⟩ := gcd_spec' m3 (wf_diff prime_pos (monic p a).2)
  rw [toPoly_diff] at gd2 gmax
  have hsq : Squarefree (toPoly p (monic p a).2) ↔ Squarefree (toPoly p a) := by
    rw [m2]
    have hunit : IsUnit (C (((a.getLastD 0 : ℕ) : ZMod p))⁻¹) := isUnit_C.mpr (IsUnit.mk0 _ hu)
    exact ⟨fun h => h.of_mul_right, fun h => h.squarefree_of_dvd ((hunit.mul_left_dvd).mpr dvd_rfl)⟩
  unfold isSqf
  simp only [ea, Bool.false_eq_true, if_false]
  rw [← hsq]
  constructor
  · intro h
    have hg : GF.gcd p (monic p a).2 (diff p (monic p a).2) = [1] := by
      simpa [isOne] using h
    rw [hg, toPoly_singleton_one] at gmax
    have hunit : IsUnit (EuclideanDomain.gcd (toPoly p (monic p a).2) (derivative (toPoly p (monic p a).2))) :=
      isUnit_of_dvd_one (gmax _ (EuclideanDomain.gcd_dvd_left _ _) (EuclideanDomain.gcd_dvd_right _ _))
    have cop := EuclideanDomain.gcd_isUnit_iff.mp hunit
    exact ((separable_def _).mpr cop).squarefree
  · intro h
    have sep : (toPoly p (monic p a).2).Separable := PerfectField.separable_iff_squarefree.mpr h
    have cop := (separable_def _).mp sep
    have hunit := cop.isUnit_of_dvd' gd1 gd2
    have hone := (gmon (Or.inl m5)).1.eq_one_of_isUnit hunit
    have : GF.gcd p (monic p a).2 (diff p (monic p a).2) = [1] := by
      apply toPoly_injective' gw wf_singleton_one
      rw [hone, toPoly_singleton_one]
    simp [isOne, this]

end SymVerif.C23
