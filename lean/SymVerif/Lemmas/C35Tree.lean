/-
Composition of the per-rule value lemmas over whole trees: `refineF false` (the repaired rule set) preserves
the value of every expression without Max/Min nodes.
-/
import SymVerif.Lemmas.C35Ext

namespace SymVerif.C35
open SymVerif SymVerif.Queries SymVerif.Refine SymVerif.C34

/-! ## the Max/Min-free fragment is closed under `get_args()` -/

def extHeads : List String := ["Max", "Min"]

theorem hasHead_termOf {k v : Expr} (hk : hasHead extHeads k = false) (hv : hasHead extHeads v = false) :
    hasHead extHeads (termOf k v) = false := by
  cases k <;> simp_all [termOf, hasHead, hasHeadPairs]

theorem hasHead_addArgs : ∀ {ts : List (Expr × Expr)}, hasHeadPairs extHeads ts = false →
    ∀ a ∈ addArgs ts, hasHead extHeads a = false := by
  intro ts
  induction ts with
  | nil => intro _ a ha; cases ha
  | cons p t ih =>
    obtain ⟨k, v⟩ := p
    intro h a ha
    simp only [hasHeadPairs, Bool.or_eq_false_iff] at h
    simp only [addArgs, List.mem_cons] at ha
    rcases ha with rfl | ha
    · split
      · exact h.1.1
      · exact hasHead_termOf h.1.1 h.1.2
    · exact ih h.2 a ha

theorem hasHead_mulArgs : ∀ {fs : List (Expr × Expr)}, hasHeadPairs extHeads fs = false →
    ∀ a ∈ mulArgs fs, hasHead extHeads a = false := by
  intro fs
  induction fs with
  | nil => intro _ a ha; cases ha
  | cons p t ih =>
    obtain ⟨b, x⟩ := p
    intro h a ha
    simp only [hasHeadPairs, Bool.or_eq_false_iff] at h
    simp only [mulArgs, List.mem_cons] at ha
    rcases ha with rfl | ha
    · split
      · exact h.1.1
      · simp [hasHead, h.1.1, h.1.2]
    · exact ih h.2 a ha

theorem hasHead_argsOf {e : Expr} (h : hasHead extHeads e = false) : ∀ a ∈ argsOf e, hasHead extHeads a = false := by
  cases e with
  | add c ts =>
    simp only [hasHead, Bool.or_eq_false_iff] at h
    intro a ha
    simp only [argsOf, List.mem_append] at ha
    rcases ha with ha | ha
    · split at ha
      · cases ha
      · simp at ha; subst ha; exact h.1
    · exact hasHead_addArgs h.2 a ha
  | mul c fs =>
    simp only [hasHead, Bool.or_eq_false_iff] at h
    intro a ha
    simp only [argsOf, List.mem_append] at ha
    rcases ha with ha | ha
    · split at ha
      · cases ha
      · simp at ha; subst ha; exact h.1
    · exact hasHead_mulArgs h.2 a ha
  | _ => intro a ha; simp [argsOf] at ha

/-! ## transformed argument lists -/

theorem mapArgs_value {ρ : String → ℝ} {f : Expr → Res} :
    ∀ {args l : List Expr} {ch : Bool} {vs : List ℝ}, mapArgs f args = .ok (l, ch) →
      (∀ a ∈ args, ∀ r v, f a = .ok (some r) → evalR ρ a = some v → evalR ρ r = some v) →
      evalArgs ρ args = some vs → evalArgs ρ l = some vs := by
  intro args
  induction args with
  | nil =>
    intro l ch vs h _ hv
    simp [mapArgs] at h
    obtain ⟨rfl, _⟩ := h
    exact hv
  | cons a t ih =>
    intro l ch vs h hf hv
    simp only [mapArgs] at h
    cases hfa : f a with
    | error e => simp [hfa] at h
    | ok ra =>
      cases hmt : mapArgs f t with
      | error e => simp [hfa, hmt] at h
      | ok p =>
        obtain ⟨lt, cht⟩ := p
        simp [hfa, hmt] at h
        obtain ⟨rfl, _⟩ := h
        simp only [evalArgs] at hv ⊢
        cases hva : evalR ρ a with
        | none => simp [hva] at hv
        | some va =>
          cases hvt : evalArgs ρ t with
          | none => simp [hva, hvt] at hv
          | some vt =>
            simp [hva, hvt] at hv
            subst hv
            have h1 : evalR ρ (Res.get a ra) = some va := by
              cases ra with
              | none => exact hva
              | some r => exact hf a (by simp) r va hfa hva
            have h2 := ih hmt (fun b hb r v => hf b (List.mem_cons_of_mem _ hb) r v) hvt
            simp [h1, h2]

/-- values of a changed / unchanged sub-result -/
theorem res_get_value {ρ : String → ℝ} {a : Expr} {ra : Option Expr} {va : ℝ}
    (hva : evalR ρ a = some va) (h : ∀ r, ra = some r → evalR ρ r = some va) : evalR ρ (Res.get a ra) = some va := by
  cases ra with
  | none => exact hva
  | some r => exact h r rfl


theorem evalR_app_two_none {ρ : String → ℝ} {h : String} {a b : Expr} (h1 : h ≠ "Max") (h2 : h ≠ "Min") :
    evalR ρ (.app h [a, b]) = none := by
  simp only [evalR, evalArgs]
  cases evalR ρ a with
  | none => simp [appSem]
  | some va =>
    cases evalR ρ b with
    | none => simp [appSem]
    | some vb => simp [appSem, h1, h2]

theorem refineF_int_none {asIs : Bool} {A : Assumptions} {fuel : Nat} {k : ℤ} {r : Expr} :
    refineF asIs A fuel (.int k) ≠ .ok (some r) := by
  cases fuel <;> simp [refineF]

theorem extHeads_not {h : String} {args : List Expr} (hx : hasHead extHeads (.app h args) = false) :
    (h == "Max" || h == "Min") = false := by
  simp only [hasHead, Bool.or_eq_false_iff] at hx
  have := hx.1
  simp only [extHeads, List.contains_cons, List.contains_nil, Bool.or_false, Bool.or_eq_false_iff] at this
  simp only [Bool.or_eq_false_iff]
  exact this

/-- **refine preserves the value** (repaired rule set): wherever the input has a real value under an assignment
    satisfying the facts, a changed result has the same value. -/
theorem refineF_value {ρ : String → ℝ} {A : Assumptions} (hA : FactsSat ρ A) :
    ∀ (fuel : Nat) (e r : Expr) (v : ℝ), wf e = true →
      refineF false A fuel e = .ok (some r) → evalR ρ e = some v → evalR ρ r = some v := by
  intro fuel
  induction fuel with
  | zero => intro e r v _ h _; simp [refineF] at h
  | succ n ih =>
    intro e r v hw hr hv
    cases e with
    | add c ts =>
      simp only [refineF] at hr
      split at hr
      · rename_i l ch hm
        simp at hr
        obtain ⟨_, rfl⟩ := hr
        rw [evalR_add_args hw] at hv
        cases hs : evalArgs ρ (argsOf (.add c ts)) with
        | none => simp [hs] at hv
        | some vs =>
          simp [hs] at hv
          subst hv
          have hl := mapArgs_value hm
            (fun a ha r' v' hfa hva => ih a r' v' (wf_argsOf hw a ha) hfa hva) hs
          rw [evalR_sumRaw, hl]; rfl
      · cases hr
    | mul c fs =>
      simp only [refineF] at hr
      split at hr
      · rename_i l ch hm
        simp at hr
        obtain ⟨_, rfl⟩ := hr
        rw [evalR_mul_args] at hv
        cases hs : evalArgs ρ (argsOf (.mul c fs)) with
        | none => simp [hs] at hv
        | some vs =>
          simp [hs] at hv
          subst hv
          have hl := mapArgs_value hm
            (fun a ha r' v' hfa hva => ih a r' v' (wf_argsOf hw a ha) hfa hva) hs
          rw [evalR_prodRaw, hl]; rfl
      · cases hr
    | pow b x =>
      have hwb : wf b = true ∧ wf x = true := by simpa [wf] using hw
      simp only [refineF] at hr
      cases hb : refineF false A n b with
      | error err => simp [hb] at hr
      | ok rb =>
        cases hx' : refineF false A n x with
        | error err => cases rb <;> simp [hb, hx'] at hr
        | ok rx =>
          by_cases hnn : rb = none ∧ rx = none
          · -- both unchanged: the Pow-of-Pow rule
            obtain ⟨rfl, rfl⟩ := hnn
            simp only [hb, hx'] at hr
            split at hr
            · cases hr
            · rename_i hg
              simp only [Bool.or_eq_true, not_or, Bool.not_eq_true] at hg
              simp at hr
              exact rulePow_value hA hw hg.2 hr hv
          · have hres : r = .pow (Res.get b rb) (Res.get x rx) := by
              cases rb <;> cases rx <;> simp [hb, hx'] at hr hnn
              all_goals
                split at hr
                · split at hr
                  · cases hr
                  · simp at hr; exact hr.symm
                · simp at hr; exact hr.symm
            subst hres
            simp only [evalR] at hv ⊢
            cases hvb : evalR ρ b with
            | none => rw [hvb, powSem_base_none] at hv; cases hv
            | some vb =>
              have hb' : evalR ρ (Res.get b rb) = some vb :=
                res_get_value hvb (fun r' hr' => ih b r' vb hwb.1 (by rw [hb, hr']) hvb)
              rw [hvb] at hv
              rw [hb']
              cases rx with
              | none => exact hv
              | some xr =>
                have hxi : ∀ k, x ≠ .int k := by
                  intro k hk; subst hk; exact refineF_int_none hx'
                have hpos := powSem_nonint_pos hxi hv
                obtain ⟨vx, hvx, rfl⟩ := powSem_pos hpos hv
                have hxr : evalR ρ xr = some vx := ih x xr vx hwb.2 hx' hvx
                exact powSem_pos_eq hpos hxr
    | app h args =>
      by_cases hext : (h == "Max" || h == "Min") = true
      · -- Max / Min: the arguments are unchanged, the dropped ones are dominated
        simp only [refineF, hext, if_true] at hr
        have hwargs : ∀ a ∈ args, wf a = true := wfList_mem (by simpa [wf] using hw)
        split at hr
        · cases hr
        · simp at hr
          obtain ⟨_, rfl⟩ := hr
          simp only [Bool.or_eq_true, beq_iff_eq] at hext
          rcases hext with rfl | rfl
          · simpa using maxRule_value hA hwargs hv
          · simpa using minRule_value hA hwargs hv
        · cases hr
      have hnm : (h == "Max" || h == "Min") = false := by simpa using hext
      simp only [refineF, hnm, Bool.false_eq_true, if_false] at hr
      split at hr
      · -- Interval: has no real value
        have := appSem_some_head (by simpa [evalR] using hv)
        rename_i hi
        have hh : h = "Interval" := by simpa using hi
        subst hh
        simp [semHeads] at this
      · split at hr
        · -- one argument
          rename_i a
          have hwa : wf a = true := wf_app_single hw
          split at hr
          · split at hr
            · -- argument unchanged: the rule of the node
              simp at hr
              exact ruleOne_value hA hwa hr hv
            · rename_i a' ha'
              split at hr
              · cases hr
              · simp at hr
                subst hr
                obtain ⟨va, hva, hs⟩ := evalR_app_single hv
                have := ih a a' va hwa ha' hva
                simp [evalR, evalArgs, this, hs]
            · cases hr
          · cases hr
        · -- two arguments: none of these functions has a real meaning here
          rename_i a b
          exfalso
          simp only [Bool.or_eq_false_iff, beq_eq_false_iff_ne, ne_eq] at hnm
          rw [evalR_app_two_none hnm.1 hnm.2] at hv
          cases hv
        · cases hr
    | fsym nm args => simp [evalR] at hv
    | _ => simp [refineF] at hr

end SymVerif.C35
