import Mathlib.Data.Int.ModEq
import Mathlib.Tactic.Ring
import Mathlib.Tactic.Linarith
import SymVerif.Lemmas.C43Gcd
/-! C43, `mp_powm` of mp_boost.cpp (sign fix-up around Boost's truncated `powm`) against the specification. -/
namespace SymVerif.C43
open SymVerif

theorem tmod_modEq (x c : Int) : x.tmod c ≡ x [ZMOD c] := by
  have h := Int.tmod_add_tdiv_mul x c
  have : x.tmod c = x - x.tdiv c * c := by omega
  rw [this]
  unfold Int.ModEq
  have : x - x.tdiv c * c = x + c * (-(x.tdiv c)) := by ring
  rw [this, Int.add_mul_emod_self_left]

/-- square-and-multiply invariant of the specification's loop -/
theorem specGo_modEq (m : Int) : ∀ (fuel : Nat) (acc base : Int) (e : Nat), e < 2 ^ fuel →
    MpSpec.powModNat.go m fuel acc base e ≡ acc * base ^ e [ZMOD m] := by
  intro fuel
  induction fuel with
  | zero =>
    intro acc base e he
    have : e = 0 := by simpa using he
    subst this
    simp [MpSpec.powModNat.go, Int.ModEq]
  | succ f ih =>
    intro acc base e he
    unfold MpSpec.powModNat.go
    by_cases h0 : e = 0
    · subst h0; simp [Int.ModEq]
    · simp only [h0, if_false]
      have he2 : e / 2 < 2 ^ f := by
        rw [Nat.pow_succ] at he; omega
      refine (ih _ _ _ he2).trans ?_
      have hsq : (base * base % m) ^ (e / 2) ≡ (base * base) ^ (e / 2) [ZMOD m] :=
        (Int.mod_modEq _ _).pow _
      by_cases hodd : e % 2 = 1
      · simp only [hodd, if_true]
        have e' : e = 2 * (e / 2) + 1 := by omega
        have : acc * base ^ e = (acc * base) * (base * base) ^ (e / 2) := by
          conv_lhs => rw [e']
          rw [pow_succ, pow_mul]; ring
        rw [this]
        exact (Int.mod_modEq _ _).mul hsq
      · simp only [hodd, if_false]
        have e' : e = 2 * (e / 2) := by omega
        have : acc * base ^ e = acc * (base * base) ^ (e / 2) := by
          conv_lhs => rw [e']
          rw [pow_mul]; ring
        rw [this]
        exact (Int.ModEq.refl acc).mul hsq

theorem specGo_range (m : Int) (hm : m ≠ 0) : ∀ (fuel : Nat) (acc base : Int) (e : Nat),
    0 ≤ acc → acc < (m.natAbs : Int) →
    0 ≤ MpSpec.powModNat.go m fuel acc base e ∧ MpSpec.powModNat.go m fuel acc base e < (m.natAbs : Int) := by
  intro fuel
  induction fuel with
  | zero => intro acc base e h1 h2; unfold MpSpec.powModNat.go; exact ⟨h1, h2⟩
  | succ f ih =>
    intro acc base e h1 h2
    unfold MpSpec.powModNat.go
    by_cases h0 : e = 0
    · simp only [h0, if_true]; exact ⟨h1, h2⟩
    · simp only [h0, if_false]
      apply ih
      · split
        · exact Int.emod_nonneg _ hm
        · exact h1
      · split
        · exact Int.emod_lt _ hm
        · exact h2

/-- a value in `[0,|m|)` is determined by its residue class -/
theorem eq_emod_of_range {v w m : Int} (hm : m ≠ 0) (h0 : 0 ≤ v) (h1 : v < (m.natAbs : Int))
    (h : v ≡ w [ZMOD m]) : v = w % m := by
  unfold Int.ModEq at h
  rw [← h]
  rcases Int.lt_or_gt_of_ne hm with hneg | hpos
  · rw [← Int.emod_neg]
    exact (Int.emod_eq_of_lt h0 (by omega)).symm
  · exact (Int.emod_eq_of_lt h0 (by omega)).symm

/-- the specification's `powModNat` is `b^e mod m` in `[0,|m|)` -/
theorem spec_powModNat (b : Int) (e : Nat) (m : Int) (hm : m ≠ 0) : MpSpec.powModNat b e m = b ^ e % m := by
  unfold MpSpec.powModNat
  have hlt : e < 2 ^ (e.log2 + 1) := Nat.lt_log2_self
  have h1 := specGo_modEq m (e.log2 + 1) (1 % m) (b % m) e hlt
  have h2 := specGo_range m hm (e.log2 + 1) (1 % m) (b % m) e (Int.emod_nonneg _ hm) (Int.emod_lt _ hm)
  apply eq_emod_of_range hm h2.1 h2.2
  refine h1.trans ?_
  have : (1 % m) * (b % m) ^ e ≡ 1 * b ^ e [ZMOD m] := (Int.mod_modEq _ _).mul ((Int.mod_modEq _ _).pow _)
  simpa using this

/-- Boost's `eval_powm` loop (truncated `%`) stays in the residue class of `x * y^e` -/
theorem boostGo_modEq (c : Int) : ∀ (fuel : Nat) (x y : Int) (e : Nat), e < 2 ^ fuel →
    MpBoost.bpowm.go c fuel x y e ≡ x * y ^ e [ZMOD c] := by
  intro fuel
  induction fuel with
  | zero =>
    intro x y e he
    have : e = 0 := by simpa using he
    subst this
    simp [MpBoost.bpowm.go, Int.ModEq]
  | succ f ih =>
    intro x y e he
    unfold MpBoost.bpowm.go
    by_cases h0 : e = 0
    · subst h0; simp [Int.ModEq]
    · simp only [h0, if_false]
      have he2 : e / 2 < 2 ^ f := by
        rw [Nat.pow_succ] at he; omega
      refine (ih _ _ _ he2).trans ?_
      have hsq : ((y * y).tmod c) ^ (e / 2) ≡ (y * y) ^ (e / 2) [ZMOD c] := (tmod_modEq _ _).pow _
      by_cases hodd : e % 2 = 1
      · simp only [hodd, if_true]
        have e' : e = 2 * (e / 2) + 1 := by omega
        have : x * y ^ e = (x * y) * (y * y) ^ (e / 2) := by
          conv_lhs => rw [e']
          rw [pow_succ, pow_mul]; ring
        rw [this]
        exact (tmod_modEq _ _).mul hsq
      · simp only [hodd, if_false]
        have e' : e = 2 * (e / 2) := by omega
        have : x * y ^ e = x * (y * y) ^ (e / 2) := by
          conv_lhs => rw [e']
          rw [pow_mul]; ring
        rw [this]
        exact (Int.ModEq.refl x).mul hsq

theorem boostGo_nonneg (c : Int) : ∀ (fuel : Nat) (x y : Int) (e : Nat), 0 ≤ x → 0 ≤ y →
    0 ≤ MpBoost.bpowm.go c fuel x y e := by
  intro fuel
  induction fuel with
  | zero => intro x y e h1 _; simpa [MpBoost.bpowm.go] using h1
  | succ f ih =>
    intro x y e h1 h2
    unfold MpBoost.bpowm.go
    by_cases h0 : e = 0
    · simpa [h0] using h1
    · simp only [h0, if_false]
      apply ih
      · split
        · exact Int.tmod_nonneg _ (Int.mul_nonneg h1 h2)
        · exact h1
      · exact Int.tmod_nonneg _ (Int.mul_nonneg h2 h2)

theorem bpowm_modEq (a : Int) (p : Nat) (c : Int) : MpBoost.bpowm a p c ≡ a ^ p [ZMOD c] := by
  unfold MpBoost.bpowm
  refine (tmod_modEq _ _).trans ?_
  have := boostGo_modEq c (p.log2 + 1) 1 a p Nat.lt_log2_self
  simpa using this

theorem bpowm_abs_lt (a : Int) (p : Nat) (c : Int) (hc : c ≠ 0) :
    ((MpBoost.bpowm a p c).natAbs : Int) < (c.natAbs : Int) := by
  unfold MpBoost.bpowm
  rw [Int.natAbs_tmod]
  exact_mod_cast Nat.mod_lt _ (Int.natAbs_pos.mpr hc)

/-- **`mp_powm` (mp_boost.cpp, with the `mp_abs(m)` repair) = specification** for every modulus `m ≠ 0`,
every base and every exponent (a negative exponent is undefined on both sides when the base is not
invertible). -/
theorem boost_powm_spec (b e m : Int) (hm : m ≠ 0) : MpBoost.powm b e m = MpSpec.powm b e m := by
  unfold MpBoost.powm MpSpec.powm
  by_cases hneg : e < 0
  · have : ¬ e ≥ 0 := by omega
    simp only [hneg, if_true, this, if_false]
    rw [boost_invert_spec b m hm]
    cases hinv : MpSpec.invert b m with
    | none => rfl
    | some bi =>
      simp only
      congr 1
      obtain ⟨r0, r1, _⟩ := spec_invert_some b m bi hm hinv
      have hn : e.natAbs = (-e).toNat := by omega
      rw [hn, spec_powModNat _ _ _ hm]
      -- all intermediate values are non-negative, so the truncated result is the residue itself
      have hnn : 0 ≤ MpBoost.bpowm bi (-e).toNat m := by
        unfold MpBoost.bpowm
        exact Int.tmod_nonneg _ (boostGo_nonneg m _ 1 bi _ (by omega) r0)
      have hlt := bpowm_abs_lt bi (-e).toNat m hm
      exact eq_emod_of_range hm hnn (by omega) (bpowm_modEq _ _ _)
  · have : e ≥ 0 := by omega
    simp only [hneg, if_false, this, if_true]
    congr 1
    rw [spec_powModNat _ _ _ hm]
    have hlt := bpowm_abs_lt b e.toNat m hm
    have hme := bpowm_modEq b e.toNat m
    split
    · rename_i hr
      apply eq_emod_of_range hm (by omega) (by omega)
      have : MpBoost.bpowm b e.toNat m + (m.natAbs : Int) ≡ MpBoost.bpowm b e.toNat m [ZMOD m] := by
        unfold Int.ModEq
        obtain ⟨c, hc⟩ : m ∣ (m.natAbs : Int) := Int.dvd_natAbs_self
        rw [hc, Int.add_mul_emod_self_left]
      exact this.trans hme
    · rename_i hr
      exact eq_emod_of_range hm (by omega) (by omega) hme

end SymVerif.C43
