/-
The decoder inverts the encoder on well-formed object graphs with consistent addresses (C19),
for every address set / object map pair that agree (the state of the two archives).
-/
import SymVerif.Lemmas.C19Prim

namespace SymVerif.Codec

/-! ### well-formed graphs -/

mutual
  /-- the node and everything below it conforms to the class layouts, its construction succeeds, the
      static cast at its slot (`c`) succeeds for the declared and for the constructed class, sizes fit -/
  def WfT (cap : Nat) : Cls → T → Prop
    | c, .mk a tc fs =>
      tc.toNat < count ∧
      (∃ ks, layoutOf (kindOfName (className tc)) = some ks ∧ WfFlds cap ks fs) ∧
      (∃ e, semT (.mk a tc fs) = .ok e ∧ isA c (Expr.className e) = true) ∧
      isA c (className tc) = true
  def WfFlds (cap : Nat) : List Kind → List Fld → Prop
    | [], [] => True
    | k :: ks, f :: fs => WfFld cap k f ∧ WfFlds cap ks fs
    | [], _ :: _ => False
    | _ :: _, [] => False
  def WfFld (cap : Nat) : Kind → Fld → Prop
    | .str, .str s => s.length < 2 ^ 62 ∧ (s.length ≤ 15 ∨ s.length + 1 ≤ cap)
    | .u64, .u64 _ => True
    | .f64, .f64 _ => True
    | .byte, .byte _ => True
    | .ptr c, .ptr t => WfT cap c t
    | .seq elem cs, .seq stride l =>
      stride = cs.length ∧ 0 < cs.length ∧
      (∃ n, l.length = n * cs.length ∧ n < 2 ^ 64 ∧ (elem > 0 → n * elem < 2 ^ 63 ∧ n * elem ≤ cap)) ∧
      WfSeq cap cs 0 l
    | _, _ => False
  def WfSeq (cap : Nat) (cs : List Cls) : Nat → List T → Prop
    | _, [] => True
    | j, t :: ts => WfT cap (cs.getD (j % cs.length) .basic) t ∧ WfSeq cap cs (j + 1) ts
end

mutual
  /-- every node of the graph satisfies `U` -/
  def AllT (U : T → Prop) : T → Prop
    | .mk a tc fs => U (.mk a tc fs) ∧ AllFlds U fs
  def AllFlds (U : T → Prop) : List Fld → Prop
    | [] => True
    | f :: fs => AllFld U f ∧ AllFlds U fs
  def AllFld (U : T → Prop) : Fld → Prop
    | .ptr t => AllT U t
    | .seq _ l => AllTs U l
    | _ => True
  def AllTs (U : T → Prop) : List T → Prop
    | [] => True
    | t :: ts => AllT U t ∧ AllTs U ts
end

/-- address consistency of a universe of nodes: one address, one object -/
def Cons (U : T → Prop) : Prop := ∀ x y, U x → U y → x.addr = y.addr → x = y

/-- the encoder's address set and the decoder's object map describe the same objects -/
structure Inv (U : T → Prop) (seen : List UInt64) (m : Map) : Prop where
  keys : ∀ a, seen.contains a = true ↔ ∃ v, m.lookup a = some v
  vals : ∀ a v, m.lookup a = some v → U v ∧ v.addr = a

theorem Inv.nil (U : T → Prop) : Inv U [] [] := by
  constructor
  · intro a; simp [List.lookup]
  · intro a v h; simp [List.lookup] at h

theorem Inv.cons {U : T → Prop} {seen : List UInt64} {m : Map} (h : Inv U seen m) (t : T) (hu : U t) :
    Inv U (t.addr :: seen) ((t.addr, t) :: m) := by
  constructor
  · intro a
    simp only [List.contains_cons, List.lookup_cons, Bool.or_eq_true]
    by_cases hq : (a == t.addr) = true
    · simp [hq]
    · have hq' : (a == t.addr) = false := by simpa using hq
      simp only [hq', Bool.false_eq_true, false_or]
      exact h.keys a
  · intro a v hv
    simp only [List.lookup_cons] at hv
    by_cases hq : (a == t.addr) = true
    · simp only [hq] at hv
      have : v = t := by simpa using hv.symm
      subst this
      exact ⟨hu, (by simpa using hq : a = v.addr).symm⟩
    · have hq' : (a == t.addr) = false := by simpa using hq
      simp only [hq'] at hv
      exact h.vals a v hv

/-! ### the round trip -/

section
set_option linter.unusedSectionVars false
variable (cap : Nat) (U : T → Prop) (hU : Cons U)

/-- what the four mutually recursive statements say about one decoding function -/
def GoodRes {α : Type} (r : R α) (x : α) (seen' : List UInt64) (rest : Bytes) : Prop :=
  ∃ m', r = .ok (x, m', rest) ∧ Inv U seen' m'

include hU in
mutual
  theorem decT_encT : ∀ (t : T) (c : Cls) (seen : List UInt64) (m : Map) (rest : Bytes) (fuel : Nat),
      WfT cap c t → AllT U t → Inv U seen m → (encT t seen).1.length ≤ fuel →
      GoodRes U (decT ⟨false, cap⟩ fuel c m ((encT t seen).1 ++ rest)) t (encT t seen).2 rest
    | .mk a tc fs, c, seen, m, rest, fuel, hw, ha, hi, hf => by
      obtain ⟨htc, ⟨ks, hlay, hfs⟩, ⟨e, hsem, hdyn⟩, hdecl⟩ := hw
      obtain ⟨hut, haf⟩ := ha
      by_cases hs : seen.contains a = true
      · -- back-reference
        have hmem : a ∈ seen := by simpa using hs
        have henc : encT (.mk a tc fs) seen = (le64 a ++ [0], seen) := by simp [encT, hmem]
        rw [henc] at hf ⊢
        obtain ⟨v, hv⟩ := (hi.keys a).1 hs
        obtain ⟨huv, hva⟩ := hi.vals a v hv
        have hvt : v = .mk a tc fs := hU v _ huv hut (by simpa [T.addr] using hva)
        subst hvt
        cases fuel with
        | zero => simp [le64, leN_length] at hf
        | succ f =>
          refine ⟨m, ?_, hi⟩
          simp only [decT, List.append_assoc, rdNat_le64, List.cons_append, List.nil_append, rdNat_byte]
          simp [hv, castRef, hsem, hdyn]
      · -- first occurrence
        have hs' : seen.contains a = false := by simpa using hs
        have henc : encT (.mk a tc fs) seen
            = (le64 a ++ [1, tc] ++ (encFlds fs seen).1, a :: (encFlds fs seen).2) := by
          have hmem : a ∉ seen := by simpa using hs'
          simp [encT, hmem]
        rw [henc] at hf ⊢
        cases fuel with
        | zero => simp [le64, leN_length] at hf
        | succ f =>
          have hlen : (encFlds fs seen).1.length ≤ f := by
            simp [le64, leN_length] at hf; omega
          obtain ⟨m1, hdec, hi1⟩ := decFlds_encFlds fs ks seen m rest f hfs haf hi hlen
          have hinv := Inv.cons hi1 (.mk a tc fs) hut
          refine ⟨_, ?_, hinv⟩
          have htc' : ¬ (tc.toNat ≥ count) := by omega
          simp only [decT, List.append_assoc, rdNat_le64, List.cons_append, List.nil_append, rdNat_byte]
          simp [htc', hlay, hdec, hsem, hdecl, T.addr]
  theorem decFlds_encFlds : ∀ (fs : List Fld) (ks : List Kind) (seen : List UInt64) (m : Map) (rest : Bytes) (f : Nat),
      WfFlds cap ks fs → AllFlds U fs → Inv U seen m → (encFlds fs seen).1.length ≤ f →
      GoodRes U (decFlds ⟨false, cap⟩ (decT ⟨false, cap⟩ f) ks m ((encFlds fs seen).1 ++ rest)) fs (encFlds fs seen).2 rest
    | [], ks, seen, m, rest, f, hw, _, hi, _ => by
      cases ks with
      | nil => exact ⟨m, by simp [decFlds, encFlds], by simpa [encFlds] using hi⟩
      | cons k ks => simp [WfFlds] at hw
    | fd :: fs, ks, seen, m, rest, f, hw, ha, hi, hf => by
      cases ks with
      | nil => simp [WfFlds] at hw
      | cons k ks =>
        obtain ⟨hw1, hw2⟩ := hw
        obtain ⟨ha1, ha2⟩ := ha
        simp only [encFlds] at hf ⊢
        have hl1 : (encFld fd seen).1.length ≤ f := by simp at hf; omega
        have hl2 : (encFlds fs (encFld fd seen).2).1.length ≤ f := by simp at hf; omega
        obtain ⟨m1, hd1, hi1⟩ := decFld_encFld fd k seen m ((encFlds fs (encFld fd seen).2).1 ++ rest) f hw1 ha1 hi hl1
        obtain ⟨m2, hd2, hi2⟩ := decFlds_encFlds fs ks (encFld fd seen).2 m1 rest f hw2 ha2 hi1 hl2
        refine ⟨m2, ?_, hi2⟩
        simp only [decFlds, List.append_assoc, hd1, hd2]
  theorem decFld_encFld : ∀ (fd : Fld) (k : Kind) (seen : List UInt64) (m : Map) (rest : Bytes) (f : Nat),
      WfFld cap k fd → AllFld U fd → Inv U seen m → (encFld fd seen).1.length ≤ f →
      GoodRes U (decFld ⟨false, cap⟩ (decT ⟨false, cap⟩ f) k m ((encFld fd seen).1 ++ rest)) fd (encFld fd seen).2 rest
    | .str s, k, seen, m, rest, f, hw, _, hi, _ => by
      cases k <;> simp [WfFld] at hw
      refine ⟨m, ?_, by simpa [encFld] using hi⟩
      simp [decFld, encFld, rdStr_encStr cap s rest hw.1 hw.2]
    | .u64 v, k, seen, m, rest, f, hw, _, hi, _ => by
      cases k <;> simp [WfFld] at hw
      refine ⟨m, ?_, by simpa [encFld] using hi⟩
      simp [decFld, encFld, rdNat_le64]
    | .f64 v, k, seen, m, rest, f, hw, _, hi, _ => by
      cases k <;> simp [WfFld] at hw
      refine ⟨m, ?_, by simpa [encFld] using hi⟩
      simp [decFld, encFld, rdNat_le64]
    | .byte b, k, seen, m, rest, f, hw, _, hi, _ => by
      cases k <;> simp [WfFld] at hw
      refine ⟨m, ?_, by simpa [encFld] using hi⟩
      simp [decFld, encFld, rdNat_byte]
    | .ptr t, k, seen, m, rest, f, hw, ha, hi, hf => by
      cases k <;> simp only [WfFld] at hw <;> try exact hw.elim
      rename_i c
      obtain ⟨m1, hd, hi1⟩ := decT_encT t c seen m rest f hw ha hi (by simpa [encFld] using hf)
      refine ⟨m1, ?_, by simpa [encFld] using hi1⟩
      simp only [decFld, encFld, hd]
    | .seq stride l, k, seen, m, rest, f, hw, ha, hi, hf => by
      cases k <;> simp only [WfFld] at hw <;> try exact hw.elim
      rename_i elem cs
      obtain ⟨hst, hpos, ⟨n, hn, hn64, hel⟩, hseq⟩ := hw
      subst hst
      have hdiv : l.length / cs.length = n := by
        rw [hn]; exact Nat.mul_div_cancel n hpos
      simp only [encFld, hdiv] at hf ⊢
      have hl : (encTs l seen).1.length ≤ f := by simp at hf; omega
      obtain ⟨m1, hd, hi1⟩ := decSeq_encTs l cs 0 seen m rest f hseq ha hi hl
      refine ⟨m1, ?_, hi1⟩
      simp only [decFld, List.append_assoc]
      rw [rdNat_leN 8 n _ (by omega)]
      simp only
      have h1 : ¬ (elem > 0 ∧ n * elem ≥ 2 ^ 63) := by
        intro h; have := hel h.1; omega
      have h2 : ¬ (elem > 0 ∧ n * elem > cap) := by
        intro h; have := hel h.1; omega
      simp only [h1, h2, if_false, ← hn, hd]
  theorem decSeq_encTs : ∀ (l : List T) (cs : List Cls) (j : Nat) (seen : List UInt64) (m : Map) (rest : Bytes) (f : Nat),
      WfSeq cap cs j l → AllTs U l → Inv U seen m → (encTs l seen).1.length ≤ f →
      GoodRes U (decSeq (decT ⟨false, cap⟩ f) cs l.length j m ((encTs l seen).1 ++ rest)) l (encTs l seen).2 rest
    | [], cs, j, seen, m, rest, f, _, _, hi, _ =>
      ⟨m, by simp [decSeq, encTs], by simpa [encTs] using hi⟩
    | t :: ts, cs, j, seen, m, rest, f, hw, ha, hi, hf => by
      obtain ⟨hw1, hw2⟩ := hw
      obtain ⟨ha1, ha2⟩ := ha
      simp only [encTs] at hf ⊢
      have hl1 : (encT t seen).1.length ≤ f := by simp at hf; omega
      have hl2 : (encTs ts (encT t seen).2).1.length ≤ f := by simp at hf; omega
      obtain ⟨m1, hd1, hi1⟩ := decT_encT t _ seen m ((encTs ts (encT t seen).2).1 ++ rest) f hw1 ha1 hi hl1
      obtain ⟨m2, hd2, hi2⟩ := decSeq_encTs ts cs (j + 1) (encT t seen).2 m1 rest f hw2 ha2 hi1 hl2
      refine ⟨m2, ?_, hi2⟩
      simp only [List.length_cons, decSeq, List.append_assoc, hd1, hd2]
end

end

end SymVerif.Codec
