/-
Top-level consequences of the round-trip lemma: Basic::loads ∘ Basic::dumps on object graphs,
DenseMatrix, and the node universe of a graph.
-/
import SymVerif.Lemmas.C19Round

namespace SymVerif.Codec

mutual
  /-- all nodes (pointer slots) of a graph, in stream order -/
  def nodesT : T → List T
    | .mk a tc fs => .mk a tc fs :: nodesFlds fs
  def nodesFlds : List Fld → List T
    | [] => []
    | f :: fs => nodesFld f ++ nodesFlds fs
  def nodesFld : Fld → List T
    | .ptr t => nodesT t
    | .seq _ l => nodesTs l
    | _ => []
  def nodesTs : List T → List T
    | [] => []
    | t :: ts => nodesT t ++ nodesTs ts
end

mutual
  theorem allT_of_nodes (U : T → Prop) : ∀ t : T, (∀ x ∈ nodesT t, U x) → AllT U t
    | .mk a tc fs, h => by
      refine ⟨h _ (by simp [nodesT]), allFlds_of_nodes U fs (fun x hx => h x (by simp [nodesT, hx]))⟩
  theorem allFlds_of_nodes (U : T → Prop) : ∀ fs : List Fld, (∀ x ∈ nodesFlds fs, U x) → AllFlds U fs
    | [], _ => trivial
    | f :: fs, h =>
      ⟨allFld_of_nodes U f (fun x hx => h x (by simp [nodesFlds, hx])),
       allFlds_of_nodes U fs (fun x hx => h x (by simp [nodesFlds, hx]))⟩
  theorem allFld_of_nodes (U : T → Prop) : ∀ f : Fld, (∀ x ∈ nodesFld f, U x) → AllFld U f
    | .ptr t, h => allT_of_nodes U t (by simpa [nodesFld] using h)
    | .seq _ l, h => allTs_of_nodes U l (by simpa [nodesFld] using h)
    | .str _, _ => trivial
    | .u64 _, _ => trivial
    | .f64 _, _ => trivial
    | .byte _, _ => trivial
  theorem allTs_of_nodes (U : T → Prop) : ∀ l : List T, (∀ x ∈ nodesTs l, U x) → AllTs U l
    | [], _ => trivial
    | t :: ts, h =>
      ⟨allT_of_nodes U t (fun x hx => h x (by simp [nodesTs, hx])),
       allTs_of_nodes U ts (fun x hx => h x (by simp [nodesTs, hx]))⟩
end

/-- one address, one object: what holds of the addresses of live objects in one process -/
def Consistent (l : List T) : Prop := ∀ x ∈ l, ∀ y ∈ l, x.addr = y.addr → x = y

open SymVerif.Gen.SerialCodes in
theorem decHeader_header (bs : Bytes) : decHeader (header ++ bs) = .ok (false, bs) := by
  simp only [header, List.cons_append, decHeader]
  have h0 : ((1 : UInt8) != 1) = false := by decide
  rw [h0, List.append_assoc, rdNat_leN 2 verMajor _ (by decide)]
  simp only
  rw [rdNat_leN 2 verMinor _ (by decide)]
  simp

/-- Basic::loads (Basic::dumps t) = t, on the object graph (addresses included) -/
theorem decodeT_encodeT (cap : Nat) (t : T) (hw : WfT cap .basic t) (hc : Consistent (nodesT t)) :
    decodeT cap (encodeT t) = .ok t := by
  unfold decodeT encodeT
  rw [decHeader_header]
  simp only
  have hU : Cons (fun x => x ∈ nodesT t) := fun x y hx hy h => hc x hx y hy h
  have ha := allT_of_nodes (fun x => x ∈ nodesT t) t (fun x hx => hx)
  obtain ⟨m', hd, _⟩ := decT_encT cap _ hU t .basic [] [] [] ((encT t []).1.length + 1) hw ha (Inv.nil _) (by omega)
  simp only [List.append_nil] at hd
  rw [hd]

/-- DenseMatrix::loads (DenseMatrix::dumps M) = M: one archive, so addresses are shared across the elements -/
theorem decodeMatrixT_encodeMatrix (cap rows cols : Nat) (ts : List T)
    (hr : rows < 2 ^ 32) (hcn : cols < 2 ^ 32) (hn : ts.length * 8 < 2 ^ 63) (hcap : ts.length * 8 ≤ cap)
    (hw : WfSeq cap [.basic] 0 ts) (hc : Consistent (nodesTs ts)) :
    decodeMatrixT cap (encodeMatrix rows cols ts) = .ok (rows, cols, ts) := by
  unfold decodeMatrixT encodeMatrix
  simp only [List.append_assoc]
  rw [decHeader_header]
  simp only
  rw [rdNat_leN 4 rows _ (by simpa using hr)]
  simp only
  rw [rdNat_leN 4 cols _ (by simpa using hcn)]
  simp only
  rw [rdNat_leN 8 ts.length _ (by omega)]
  simp only
  have h1 : ¬ (ts.length * 8 ≥ 2 ^ 63) := by omega
  have h2 : ¬ (ts.length * 8 > cap) := by omega
  simp only [h1, h2, if_false]
  have hU : Cons (fun x => x ∈ nodesTs ts) := fun x y hx hy h => hc x hx y hy h
  have ha := allTs_of_nodes (fun x => x ∈ nodesTs ts) ts (fun x hx => hx)
  obtain ⟨m', hd, _⟩ := decSeq_encTs cap _ hU ts [.basic] 0 [] [] [] ((encTs ts []).1.length + 1) hw ha (Inv.nil _) (by omega)
  simp only [List.append_nil] at hd
  rw [hd]

end SymVerif.Codec

namespace SymVerif.Codec

theorem encT_addr_mem (t : T) (seen : List UInt64) : t.addr ∈ (encT t seen).2 := by
  cases t with
  | mk a tc fs =>
    by_cases hm : a ∈ seen
    · simp [encT, hm, T.addr]
    · simp [encT, hm, T.addr]

/-- after a pointer slot has been decoded, the object map binds its address to exactly that object -/
theorem decT_encT_registers (cap : Nat) (U : T → Prop) (hU : Cons U) (t : T) (c : Cls) (seen : List UInt64)
    (m : Map) (rest : Bytes) (fuel : Nat) (hw : WfT cap c t) (ha : AllT U t) (hi : Inv U seen m)
    (hf : (encT t seen).1.length ≤ fuel) :
    ∃ m', decT ⟨false, cap⟩ fuel c m ((encT t seen).1 ++ rest) = .ok (t, m', rest) ∧ Inv U (encT t seen).2 m'
      ∧ m'.lookup t.addr = some t := by
  obtain ⟨m', hd, hi'⟩ := decT_encT cap U hU t c seen m rest fuel hw ha hi hf
  refine ⟨m', hd, hi', ?_⟩
  have hmem : (encT t seen).2.contains t.addr = true := by simpa using encT_addr_mem t seen
  obtain ⟨v, hv⟩ := (hi'.keys _).1 hmem
  obtain ⟨huv, hva⟩ := hi'.vals _ _ hv
  have hut : U t := by cases t; exact ha.1
  rw [hv, hU v t huv hut hva]

/-- a slot whose address has been written before: the encoder emits the 9-byte back-reference only, and the
    decoder hands out the object already stored under that address (no copy, nothing else read, map unchanged) -/
theorem backref_roundtrip (cap : Nat) (U : T → Prop) (hU : Cons U) (t : T) (c : Cls) (seen : List UInt64)
    (m : Map) (rest : Bytes) (fuel : Nat) (hw : WfT cap c t) (ha : AllT U t) (hi : Inv U seen m)
    (hs : t.addr ∈ seen) (hfuel : 9 ≤ fuel) :
    encT t seen = (le64 t.addr ++ [0], seen) ∧ m.lookup t.addr = some t ∧
    decT ⟨false, cap⟩ fuel c m (le64 t.addr ++ [0] ++ rest) = .ok (t, m, rest) := by
  have henc : encT t seen = (le64 t.addr ++ [0], seen) := by
    cases t with
    | mk a tc fs => simp [encT, T.addr] at hs ⊢; simp [hs]
  obtain ⟨m', hd, _, hl⟩ := decT_encT_registers cap U hU t c seen m rest fuel hw ha hi
    (by rw [henc]; simp [le64, leN_length]; omega)
  obtain ⟨f, rfl⟩ : ∃ f, fuel = f + 1 := ⟨fuel - 1, by omega⟩
  rw [henc] at hd
  have hmm : m' = m := by
    -- the back-reference branch returns the map it was given
    have hv : ∃ v, m.lookup t.addr = some v := (hi.keys _).1 (by simpa using hs)
    obtain ⟨v, hv⟩ := hv
    simp only [decT, List.append_assoc, rdNat_le64, List.cons_append, List.nil_append, rdNat_byte,
      UInt64.ofNat_toNat, hv] at hd
    split at hd
    · simp at hd
    · split at hd
      · split at hd
        · simp at hd; exact hd.2.symm
        · simp at hd
      · rename_i h0; exact absurd rfl h0
  subst hmm
  exact ⟨henc, hl, hd⟩

end SymVerif.Codec
