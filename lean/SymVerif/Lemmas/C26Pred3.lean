import SymVerif.Lemmas.C26Pred2
/-!
Soundness of the predicate visitors on MatrixAdd and HadamardProduct, and the main theorem.
-/
namespace SymVerif.MatExpr
open MExpr

/-! ### the four "linear" predicates: square and a family of linear conditions on the entries -/

def lin (p : Pred) (f : Nat → Nat → GQ) (i j : Nat) : GQ :=
  match p with
  | .diagonal => if i ≠ j then f i j else 0
  | .lower => if i < j then f i j else 0
  | .upper => if j < i then f i j else 0
  | .symmetric => f i j - f j i
  | _ => 0

def IsLin (p : Pred) : Prop := p = .diagonal ∨ p = .symmetric ∨ p = .lower ∨ p = .upper

theorem holds_iff_lin {p : Pred} (hp : IsLin p) (v : Val) :
    v.Holds p ↔ v.r = v.c ∧ ∀ i j, i < v.r → j < v.c → lin p v.f i j = 0 := by
  rcases hp with rfl | rfl | rfl | rfl <;>
    simp only [Val.Holds, Val.IsDiagonal, Val.IsSymmetric, Val.IsLower, Val.IsUpper, lin]
  · constructor
    · rintro ⟨h1, h2⟩; exact ⟨h1, fun i j hi hj => by split <;> [exact h2 i j hi hj (by assumption); rfl]⟩
    · rintro ⟨h1, h2⟩; exact ⟨h1, fun i j hi hj hij => by have := h2 i j hi hj; rwa [if_pos hij] at this⟩
  · constructor
    · rintro ⟨h1, h2⟩; exact ⟨h1, fun i j hi hj => sub_eq_zero.2 (h2 i j hi hj)⟩
    · rintro ⟨h1, h2⟩; exact ⟨h1, fun i j hi hj => sub_eq_zero.1 (h2 i j hi hj)⟩
  · constructor
    · rintro ⟨h1, h2⟩; exact ⟨h1, fun i j hi hj => by split <;> [exact h2 i j hi hj (by assumption); rfl]⟩
    · rintro ⟨h1, h2⟩; exact ⟨h1, fun i j hi hj hij => by have := h2 i j hi hj; rwa [if_pos hij] at this⟩
  · constructor
    · rintro ⟨h1, h2⟩; exact ⟨h1, fun i j hi hj => by split <;> [exact h2 i j hi hj (by assumption); rfl]⟩
    · rintro ⟨h1, h2⟩; exact ⟨h1, fun i j hi hj hij => by have := h2 i j hi hj; rwa [if_pos hij] at this⟩

theorem lin_add (p : Pred) (f g : Nat → Nat → GQ) (i j : Nat) :
    lin p (fun i j => f i j + g i j) i j = lin p f i j + lin p g i j := by
  cases p <;> simp only [lin] <;> (try split) <;> ring

theorem lin_zero (p : Pred) (i j : Nat) : lin p (fun _ _ => 0) i j = 0 := by
  cases p <;> simp [lin]

theorem lin_listSum (p : Pred) (l : List Val) (i j : Nat) :
    lin p (fun i j => (l.map fun w => w.f i j).sum) i j = (l.map fun w => lin p w.f i j).sum := by
  induction l with
  | nil => simpa using lin_zero p i j
  | cons a t ih =>
    simp only [List.map_cons, List.sum_cons]
    rw [← ih]
    exact lin_add p _ _ i j

theorem sumV_dims {vs : List Val} (hne : vs ≠ []) (hd : SameDims vs) :
    ∀ w ∈ vs, (sumV vs).r = w.r ∧ (sumV vs).c = w.c := by
  cases vs with
  | nil => exact absurd rfl hne
  | cons v t => intro w hw; exact hd v (by simp) w hw

theorem hadV_dims {vs : List Val} (hne : vs ≠ []) (hd : SameDims vs) :
    ∀ w ∈ vs, (hadV vs).r = w.r ∧ (hadV vs).c = w.c := by
  cases vs with
  | nil => exact absurd rfl hne
  | cons v t => intro w hw; exact hd v (by simp) w hw

theorem sumV_f {vs : List Val} (hne : vs ≠ []) :
    (sumV vs).f = fun i j => (vs.map fun w => w.f i j).sum := by
  cases vs with
  | nil => exact absurd rfl hne
  | cons v t => rfl

theorem hadV_f {vs : List Val} (hne : vs ≠ []) :
    (hadV vs).f = fun i j => (vs.map fun w => w.f i j).prod := by
  cases vs with
  | nil => exact absurd rfl hne
  | cons v t => rfl

/-! ### the loops over the term answers -/

theorem addRuleLoop_t {l : List Tri} {found : Bool} (h : addRuleLoop l found = .t) :
    found = false ∧ ∀ a ∈ l, a = .t := by
  induction l generalizing found with
  | nil => cases found <;> simp [addRuleLoop] at h ⊢
  | cons a t ih =>
    cases a <;> simp only [addRuleLoop] at h
    · obtain ⟨h1, h2⟩ := ih h
      exact ⟨h1, by simpa using h2⟩
    · cases found <;> simp at h
      have := (ih h).1
      simp at this
    · simp at h

theorem addRuleLoop_true_f {l : List Tri} (h : addRuleLoop l true = .f) (hn : ∀ a ∈ l, a ≠ .f) :
    ∀ a ∈ l, a = .t := by
  induction l with
  | nil => simp
  | cons a t ih =>
    cases a <;> simp only [addRuleLoop] at h
    · have := ih h (fun a ha => hn a (by simp [ha]))
      simpa using this
    · exact absurd rfl (hn .f (by simp))
    · simp at h

theorem addRuleLoop_false_f {l : List Tri} (h : addRuleLoop l false = .f)
    (hc : l.countP (· == .f) ≤ 1) :
    ∃ l1 l2, l = l1 ++ .f :: l2 ∧ (∀ a ∈ l1, a = .t) ∧ (∀ a ∈ l2, a = .t) := by
  induction l with
  | nil => simp [addRuleLoop] at h
  | cons a t ih =>
    cases a <;> simp only [addRuleLoop] at h
    · have hc' : t.countP (· == .f) ≤ 1 := by simpa [List.countP_cons] using hc
      obtain ⟨l1, l2, rfl, h1, h2⟩ := ih h hc'
      exact ⟨.t :: l1, l2, by simp, by simpa using h1, h2⟩
    · simp only [if_neg Bool.false_ne_true] at h
      have hc' : t.countP (· == .f) = 0 := by
        simp at hc; simpa using hc
      have hn : ∀ a ∈ t, a ≠ .f := by
        intro a ha hf
        subst hf
        have : 0 < t.countP (· == Tri.f) := List.countP_pos_iff.2 ⟨.f, ha, by simp⟩
        omega
      exact ⟨[], t, by simp, by simp, addRuleLoop_true_f h hn⟩
    · simp at h

theorem firstDefinite_spec {l : List Tri} {x : Tri} (h : firstDefinite l = x) (hx : x ≠ .u) : x ∈ l := by
  induction l with
  | nil => simp [firstDefinite] at h; exact absurd h.symm hx
  | cons a t ih =>
    cases a <;> simp only [firstDefinite] at h
    · simp [← h]
    · simp [← h]
    · simp [ih h]

/-! ### well-formedness hypothesis of the soundness theorem -/

mutual
  /-- sizes fit, every IdentityMatrix has a positive size and every MatrixAdd satisfies
      `MatrixAdd::is_canonical` — as far as the predicate visitors look into the expression -/
  def PredWF (env : Env) : MExpr → Prop
    | ident n => 0 < n.eval env
    | dense r c v => v.length = r * c
    | add ts => ts ≠ [] ∧ PredWFAll env ts ∧ SameDims (valsOf env ts) ∧ addCanonical ts = true
    | had fs => fs ≠ [] ∧ PredWFAll env fs ∧ SameDims (valsOf env fs)
    | zero _ _ => True
    | diag _ => True
    | sym _ => True
    | mul _ _ => True
    | transpose _ => True
    | conj _ => True
  def PredWFAll (env : Env) : List MExpr → Prop
    | [] => True
    | e :: t => PredWF env e ∧ PredWFAll env t
end

/-- among the terms of a canonical MatrixAdd only an ImmutableDenseMatrix can get the answer `false`
    from is_diagonal / is_symmetric / is_lower / is_upper -/
theorem evalPred_f_isDense {p : Pred} (hp : IsLin p) {ts : List MExpr} (hc : addCanonical ts = true)
    {t : MExpr} (ht : t ∈ ts) (hf : evalPred p t = .f) : isDense t = true := by
  have hno : (ts.any fun t => isZeroM t || isAdd t) = false := by
    simp only [addCanonical, Bool.and_eq_true, Bool.not_eq_true'] at hc
    exact hc.1.1.2
  have hnt : (isZeroM t || isAdd t) = false := by
    rw [List.any_eq_false] at hno
    simpa using hno t ht
  cases t with
  | ident n => rcases hp with rfl | rfl | rfl | rfl <;> simp [evalPred, leafPred] at hf
  | zero r c => simp [isZeroM] at hnt
  | diag d => rcases hp with rfl | rfl | rfl | rfl <;> simp [evalPred, leafPred] at hf
  | dense r c v => rfl
  | sym n => simp [evalPred] at hf
  | add ts => simp [isAdd] at hnt
  | mul s fs => simp [evalPred] at hf
  | had fs =>
    rcases hp with rfl | rfl | rfl | rfl <;>
      simp only [evalPred, hadRule, anyTrue, allTrue] at hf <;> split at hf <;> simp at hf
  | transpose e => simp [evalPred] at hf
  | conj e => simp [evalPred] at hf

theorem countF_le_one {p : Pred} (hp : IsLin p) {ts : List MExpr} (hc : addCanonical ts = true) :
    (ts.map (evalPred p)).countP (· == .f) ≤ 1 := by
  have hd : countP isDense ts ≤ 1 := by
    simp only [addCanonical, Bool.and_eq_true, Bool.not_eq_true', Bool.or_eq_false_iff,
      decide_eq_false_iff_not] at hc
    omega
  rw [List.countP_map]
  calc ts.countP ((· == Tri.f) ∘ evalPred p) ≤ ts.countP isDense := by
        apply List.countP_mono_left
        intro t ht h
        exact evalPred_f_isDense hp hc ht (by simpa using h)
    _ = countP isDense ts := by simp [countP, List.countP_eq_length_filter]
    _ ≤ 1 := hd

/-! ### MatrixAdd -/

theorem listSum_eq_zero {l : List GQ} (h : ∀ x ∈ l, x = 0) : l.sum = 0 := by
  induction l with
  | nil => rfl
  | cons a t ih =>
    simp only [List.sum_cons]
    rw [h a (by simp), ih (fun x hx => h x (by simp [hx]))]; ring

theorem sound_add (env : Env) (p : Pred) (ts : List MExpr) (hne : ts ≠ [])
    (hd : SameDims (valsOf env ts)) (hc : addCanonical ts = true)
    (hS : ∀ t ∈ ts, Sound env p t) : Sound env p (add ts) := by
  have hvne : valsOf env ts ≠ [] := by rw [valsOf_eq_map]; simpa using hne
  have hdims := sumV_dims hvne hd
  have hmem : ∀ t ∈ ts, valOf env t ∈ valsOf env ts := by
    intro t ht; rw [valsOf_eq_map]; exact List.mem_map_of_mem ht
  by_cases hp : IsLin p
  · -- is_diagonal / is_symmetric / is_lower / is_upper
    have hrule : evalPred p (add ts) = addRuleLoop (ts.map (evalPred p)) false := by
      rcases hp with rfl | rfl | rfl | rfl <;> simp [evalPred, addRule, evalPredList_eq_map]
    have hlinsum : ∀ i j, lin p (valOf env (add ts)).f i j
        = (ts.map fun t => lin p (valOf env t).f i j).sum := by
      intro i j
      simp only [valOf]
      rw [sumV_f hvne, lin_listSum, valsOf_eq_map, List.map_map]; rfl
    obtain ⟨t0, ht0⟩ := List.exists_mem_of_ne_nil ts hne
    constructor
    · intro h
      rw [hrule] at h
      have hall := (addRuleLoop_t h).2
      rw [holds_iff_lin hp]
      have hsq : ∀ t ∈ ts, (valOf env t).r = (valOf env t).c ∧
          ∀ i j, i < (valOf env t).r → j < (valOf env t).c → lin p (valOf env t).f i j = 0 := by
        intro t ht
        exact (holds_iff_lin hp _).1 ((hS t ht).1 (hall _ (List.mem_map_of_mem ht)))
      have hd0 := hdims _ (hmem t0 ht0)
      refine ⟨?_, fun i j hi hj => ?_⟩
      · simp only [valOf]; rw [hd0.1, hd0.2]; exact (hsq t0 ht0).1
      · rw [hlinsum]
        apply listSum_eq_zero
        intro x hx
        obtain ⟨t, ht, rfl⟩ := List.mem_map.1 hx
        have hdt := hdims _ (hmem t ht)
        simp only [valOf] at hi hj
        exact (hsq t ht).2 i j (hdt.1 ▸ hi) (hdt.2 ▸ hj)
    · intro h
      rw [hrule] at h
      obtain ⟨l1, l2, hl, h1, h2⟩ := addRuleLoop_false_f h (countF_le_one hp hc)
      obtain ⟨ts1, ts2', rfl, hm1, hm2⟩ := List.map_eq_append_iff.1 hl
      obtain ⟨w, ts2, rfl, hw, hm3⟩ := List.map_eq_cons_iff.1 hm2
      rw [holds_iff_lin hp]
      rintro ⟨hsq, hz⟩
      have hwmem : w ∈ ts1 ++ w :: ts2 := by simp
      have hnw := (hS w hwmem).2 hw
      apply hnw
      rw [holds_iff_lin hp]
      have hdw := hdims _ (hmem w hwmem)
      simp only [valOf] at hsq hz
      refine ⟨by rw [← hdw.1, ← hdw.2]; exact hsq, fun i j hi hj => ?_⟩
      have hzz := hz i j (hdw.1 ▸ hi) (hdw.2 ▸ hj)
      have hls := hlinsum i j
      simp only [valOf] at hls
      rw [hls] at hzz
      simp only [List.map_append, List.map_cons, List.sum_append, List.sum_cons] at hzz
      have z1 : (ts1.map fun t => lin p (valOf env t).f i j).sum = 0 := by
        apply listSum_eq_zero
        intro x hx
        obtain ⟨t, ht, rfl⟩ := List.mem_map.1 hx
        have htm : t ∈ ts1 ++ w :: ts2 := by simp [ht]
        have hdt := hdims _ (hmem t htm)
        have := (holds_iff_lin hp _).1 ((hS t htm).1 (h1 _ (hm1 ▸ List.mem_map_of_mem ht)))
        exact this.2 i j (by rw [← hdt.1, hdw.1]; exact hi) (by rw [← hdt.2, hdw.2]; exact hj)
      have z2 : (ts2.map fun t => lin p (valOf env t).f i j).sum = 0 := by
        apply listSum_eq_zero
        intro x hx
        obtain ⟨t, ht, rfl⟩ := List.mem_map.1 hx
        have htm : t ∈ ts1 ++ w :: ts2 := by simp [ht]
        have hdt := hdims _ (hmem t htm)
        have := (holds_iff_lin hp _).1 ((hS t htm).1 (h2 _ (hm3 ▸ List.mem_map_of_mem ht)))
        exact this.2 i j (by rw [← hdt.1, hdw.1]; exact hi) (by rw [← hdt.2, hdw.2]; exact hj)
      rw [z1, z2] at hzz
      simpa using hzz
  · -- the other predicates: indeterminate, except is_square
    cases p
    case square =>
      have hrule : evalPred .square (add ts) = firstDefinite (ts.map (evalPred .square)) := by
        simp [evalPred, addRule, evalPredList_eq_map]
      constructor
      · intro h
        rw [hrule] at h
        obtain ⟨t, ht, hte⟩ := List.mem_map.1 (firstDefinite_spec h (by simp))
        have := (hS t ht).1 hte
        have hdt := hdims _ (hmem t ht)
        simp only [Val.Holds, Val.IsSquare, valOf] at this ⊢
        rw [hdt.1, hdt.2]; exact this
      · intro h
        rw [hrule] at h
        obtain ⟨t, ht, hte⟩ := List.mem_map.1 (firstDefinite_spec h (by simp))
        have := (hS t ht).2 hte
        have hdt := hdims _ (hmem t ht)
        simp only [Val.Holds, Val.IsSquare, valOf] at this ⊢
        rw [hdt.1, hdt.2]; exact this
    case zero => exact ⟨by simp [evalPred, addRule], by simp [evalPred, addRule]⟩
    case real => exact ⟨by simp [evalPred, addRule], by simp [evalPred, addRule]⟩
    case toeplitz => exact ⟨by simp [evalPred, addRule], by simp [evalPred, addRule]⟩
    case diagonal => exact absurd (Or.inl rfl) hp
    case symmetric => exact absurd (Or.inr (Or.inl rfl)) hp
    case lower => exact absurd (Or.inr (Or.inr (Or.inl rfl))) hp
    case upper => exact absurd (Or.inr (Or.inr (Or.inr rfl))) hp

/-! ### HadamardProduct -/

theorem listProd_eq_zero {l : List GQ} (h : (0 : GQ) ∈ l) : l.prod = 0 := by
  induction l with
  | nil => simp at h
  | cons a t ih =>
    simp only [List.prod_cons]
    rcases List.mem_cons.1 h with h | h
    · rw [← h]; ring
    · rw [ih h]; ring

theorem sound_had (env : Env) (p : Pred) (fs : List MExpr) (hne : fs ≠ [])
    (hd : SameDims (valsOf env fs)) (hS : ∀ t ∈ fs, Sound env p t) : Sound env p (had fs) := by
  have hvne : valsOf env fs ≠ [] := by rw [valsOf_eq_map]; simpa using hne
  have hdims := hadV_dims hvne hd
  have hmem : ∀ t ∈ fs, valOf env t ∈ valsOf env fs := by
    intro t ht; rw [valsOf_eq_map]; exact List.mem_map_of_mem ht
  have hf : (valOf env (had fs)).f = fun i j => (fs.map fun t => (valOf env t).f i j).prod := by
    simp only [valOf]; rw [hadV_f hvne, valsOf_eq_map]; simp [List.map_map, Function.comp_def]
  -- one factor with the property makes the product have it (diagonal, lower, upper)
  have hany : ∀ (cond : Nat → Nat → Prop),
      (∃ t ∈ fs, (valOf env t).r = (valOf env t).c ∧ ∀ i j, i < (valOf env t).r → j < (valOf env t).c →
        cond i j → (valOf env t).f i j = 0) →
      (valOf env (had fs)).r = (valOf env (had fs)).c ∧
        ∀ i j, i < (valOf env (had fs)).r → j < (valOf env (had fs)).c → cond i j →
          (valOf env (had fs)).f i j = 0 := by
    intro cond ⟨t, ht, hsq, hz⟩
    have hdt := hdims _ (hmem t ht)
    refine ⟨by simp only [valOf]; rw [hdt.1, hdt.2]; exact hsq, fun i j hi hj hc => ?_⟩
    rw [hf]
    apply listProd_eq_zero
    simp only [valOf] at hi hj
    rw [← hz i j (hdt.1 ▸ hi) (hdt.2 ▸ hj) hc]
    exact List.mem_map.2 ⟨t, ht, rfl⟩
  have hanyT : ∀ {l : List Tri}, anyTrue l = .t → Tri.t ∈ l := by
    intro l h
    simp only [anyTrue] at h
    split at h
    · rename_i hh; simpa using hh
    · simp at h
  cases p
  case zero => exact ⟨by simp [evalPred, hadRule], by simp [evalPred, hadRule]⟩
  case real => exact ⟨by simp [evalPred, hadRule], by simp [evalPred, hadRule]⟩
  case toeplitz => exact ⟨by simp [evalPred, hadRule], by simp [evalPred, hadRule]⟩
  case diagonal =>
    refine ⟨fun h => ?_, fun h => ?_⟩
    · simp only [evalPred, hadRule, evalPredList_eq_map] at h
      obtain ⟨t, ht, hte⟩ := List.mem_map.1 (hanyT h)
      have := (hS t ht).1 hte
      exact hany (fun i j => i ≠ j) ⟨t, ht, this.1, this.2⟩
    · simp only [evalPred, hadRule, anyTrue] at h; split at h <;> simp at h
  case lower =>
    refine ⟨fun h => ?_, fun h => ?_⟩
    · simp only [evalPred, hadRule, evalPredList_eq_map] at h
      obtain ⟨t, ht, hte⟩ := List.mem_map.1 (hanyT h)
      have := (hS t ht).1 hte
      exact hany (fun i j => i < j) ⟨t, ht, this.1, this.2⟩
    · simp only [evalPred, hadRule, anyTrue] at h; split at h <;> simp at h
  case upper =>
    refine ⟨fun h => ?_, fun h => ?_⟩
    · simp only [evalPred, hadRule, evalPredList_eq_map] at h
      obtain ⟨t, ht, hte⟩ := List.mem_map.1 (hanyT h)
      have := (hS t ht).1 hte
      exact hany (fun i j => j < i) ⟨t, ht, this.1, this.2⟩
    · simp only [evalPred, hadRule, anyTrue] at h; split at h <;> simp at h
  case symmetric =>
    refine ⟨fun h => ?_, fun h => ?_⟩
    · simp only [evalPred, hadRule, evalPredList_eq_map, allTrue] at h
      split at h
      · rename_i hh
        simp only [List.all_eq_true, List.mem_map, forall_exists_index, and_imp,
          forall_apply_eq_imp_iff₂, beq_iff_eq] at hh
        obtain ⟨t0, ht0⟩ := List.exists_mem_of_ne_nil fs hne
        have hd0 := hdims _ (hmem t0 ht0)
        have h0 := (hS t0 ht0).1 (hh t0 ht0)
        refine ⟨by simp only [valOf]; rw [hd0.1, hd0.2]; exact h0.1, fun i j hi hj => ?_⟩
        rw [hf]
        simp only
        congr 1
        apply List.map_congr_left
        intro t ht
        have hdt := hdims _ (hmem t ht)
        have := (hS t ht).1 (hh t ht)
        simp only [valOf] at hi hj
        exact this.2 i j (hdt.1 ▸ hi) (hdt.2 ▸ hj)
      · simp at h
    · simp only [evalPred, hadRule, allTrue] at h; split at h <;> simp at h
  case square =>
    have hrule : evalPred .square (had fs) = firstDefinite (fs.map (evalPred .square)) := by
      simp [evalPred, hadRule, evalPredList_eq_map]
    constructor
    · intro h
      rw [hrule] at h
      obtain ⟨t, ht, hte⟩ := List.mem_map.1 (firstDefinite_spec h (by simp))
      have := (hS t ht).1 hte
      have hdt := hdims _ (hmem t ht)
      simp only [Val.Holds, Val.IsSquare, valOf] at this ⊢
      rw [hdt.1, hdt.2]; exact this
    · intro h
      rw [hrule] at h
      obtain ⟨t, ht, hte⟩ := List.mem_map.1 (firstDefinite_spec h (by simp))
      have := (hS t ht).2 hte
      have hdt := hdims _ (hmem t ht)
      simp only [Val.Holds, Val.IsSquare, valOf] at this ⊢
      rw [hdt.1, hdt.2]; exact this

/-! ### the main theorem -/

mutual
  theorem pred_sound_aux (env : Env) (p : Pred) : ∀ e, PredWF env e → Sound env p e
    | ident n, h => sound_ident env p n h
    | zero r c, _ => sound_zero env p r c
    | diag d, _ => sound_diag env p d
    | dense r c v, h => sound_dense env p r c v h
    | sym _, _ => ⟨by simp [evalPred], by simp [evalPred]⟩
    | mul _ _, _ => ⟨by simp [evalPred], by simp [evalPred]⟩
    | transpose _, _ => ⟨by simp [evalPred], by simp [evalPred]⟩
    | conj _, _ => ⟨by simp [evalPred], by simp [evalPred]⟩
    | add ts, h => sound_add env p ts h.1 h.2.2.1 h.2.2.2 (pred_sound_list env p ts h.2.1)
    | had fs, h => sound_had env p fs h.1 h.2.2 (pred_sound_list env p fs h.2.1)
  theorem pred_sound_list (env : Env) (p : Pred) :
      ∀ l, PredWFAll env l → ∀ e ∈ l, Sound env p e
    | [], _ => by simp
    | a :: t, h => by
      intro e he
      rcases List.mem_cons.1 he with he | he
      · rw [he]; exact pred_sound_aux env p a h.1
      · exact pred_sound_list env p t h.2 e he
end

end SymVerif.MatExpr
