import Mathlib.Data.Nat.Prime.Basic
import Mathlib.Data.Nat.Sqrt
import Mathlib.Algebra.BigOperators.Group.List.Basic
import Mathlib.Tactic.Ring
import Mathlib.Tactic.Linarith
import SymVerif.Model.NTheory
/-! Correctness of the trial-division factorisation of the C32 model. -/
namespace SymVerif.C32
open SymVerif.NTheory

/-- `l` is the prime factorisation of `N`: primes with positive exponents, strictly ascending. -/
structure FactList (l : List (Nat × Nat)) (N : Nat) : Prop where
  prime : ∀ pe ∈ l, pe.1.Prime ∧ 0 < pe.2
  sorted : (l.map Prod.fst).Pairwise (· < ·)
  prod : (l.map (fun pe => pe.1 ^ pe.2)).prod = N

theorem divOut_spec {p : Nat} (hp : 2 ≤ p) : ∀ (f n c : Nat), 0 < n → n ≤ f →
    ∃ v, (divOut p f n c).1 = c + v ∧ n = (divOut p f n c).2 * p ^ v ∧ ¬ p ∣ (divOut p f n c).2 ∧
      0 < (divOut p f n c).2 := by
  intro f
  induction f with
  | zero => intro n c hn hf; omega
  | succ f ih =>
    intro n c hn hf
    unfold divOut
    by_cases hd : n % p = 0
    · simp only [hd, beq_self_eq_true, if_true]
      have hdvd : p ∣ n := Nat.dvd_of_mod_eq_zero hd
      have hq : 0 < n / p := Nat.div_pos (Nat.le_of_dvd hn hdvd) (by omega)
      have hlt : n / p < n := Nat.div_lt_self hn (by omega)
      obtain ⟨v, h1, h2, h3, h4⟩ := ih (n / p) (c + 1) hq (by omega)
      refine ⟨v + 1, by rw [h1]; ring, ?_, h3, h4⟩
      conv_lhs => rw [← Nat.div_mul_cancel hdvd, h2]
      ring
    · have : (n % p == 0) = false := by simpa using hd
      simp only [this, Bool.false_eq_true, if_false]
      exact ⟨0, by simp, by simp, fun h => hd (Nat.mod_eq_zero_of_dvd h), hn⟩

/-- loop invariant of `pfmLoop` -/
structure PfmInv (N d n : Nat) (acc : List (Nat × Nat)) : Prop where
  pos : 0 < n
  prod : n * (acc.map (fun pe => pe.1 ^ pe.2)).prod = N
  prime : ∀ pe ∈ acc, pe.1.Prime ∧ 0 < pe.2 ∧ pe.1 < d
  sorted : (acc.map Prod.fst).Pairwise (· > ·)
  nosmall : ∀ q, q.Prime → q ∣ n → d ≤ q

theorem pfmLoop_spec (N limit : Nat) : ∀ (f d n : Nat) (acc : List (Nat × Nat)),
    2 ≤ d → limit + 1 ≤ f + d → PfmInv N d n acc →
    ∃ d', PfmInv N d' (pfmLoop limit f d n acc).1 (pfmLoop limit f d n acc).2 ∧
      (limit < d' ∨ (pfmLoop limit f d n acc).1 = 1) := by
  intro f
  induction f with
  | zero =>
    intro d n acc hd hf hinv
    exact ⟨d, by simpa [pfmLoop] using hinv, Or.inl (by omega)⟩
  | succ f ih =>
    intro d n acc hd hf hinv
    unfold pfmLoop
    by_cases hlim : d > limit
    · simp only [hlim, if_true]
      exact ⟨d, hinv, Or.inl hlim⟩
    · simp only [hlim, if_false]
      obtain ⟨v, h1, h2, h3, h4⟩ := divOut_spec hd n n 0 hinv.pos (le_refl _)
      by_cases hv : (divOut d n n 0).1 > 0
      · simp only [hv, if_true]
        have hvpos : 0 < v := by omega
        have hdn : d ∣ n := by
          rw [h2]; exact Dvd.dvd.mul_left (dvd_pow_self d (by omega)) _
        have hdprime : d.Prime := by
          have hmf := Nat.minFac_prime (n := d) (by omega)
          have hle := hinv.nosmall _ hmf ((Nat.minFac_dvd d).trans hdn)
          have : d.minFac = d := le_antisymm (Nat.minFac_le (by omega)) hle
          rw [← this]; exact hmf
        have hinv' : PfmInv N (d + 1) (divOut d n n 0).2 ((d, (divOut d n n 0).1) :: acc) := by
          refine ⟨h4, ?_, ?_, ?_, ?_⟩
          · rw [List.map_cons, List.prod_cons, ← hinv.prod]
            conv_rhs => rw [h2]
            rw [h1]; simp only [zero_add]; ring
          · intro pe hpe
            rcases List.mem_cons.mp hpe with rfl | hpe
            · exact ⟨hdprime, hv, by simp⟩
            · obtain ⟨a, b, c⟩ := hinv.prime pe hpe
              exact ⟨a, b, by omega⟩
          · rw [List.map_cons, List.pairwise_cons]
            refine ⟨?_, hinv.sorted⟩
            intro q hq
            obtain ⟨pe, hpe, rfl⟩ := List.mem_map.mp hq
            exact (hinv.prime pe hpe).2.2
          · intro q hq hqd
            have hqn : q ∣ n := by rw [h2]; exact Dvd.dvd.mul_right hqd _
            have := hinv.nosmall q hq hqn
            rcases Nat.lt_or_eq_of_le this with h | h
            · omega
            · subst h; exact absurd hqd h3
        by_cases hone : (divOut d n n 0).2 = 1
        · have : ((divOut d n n 0).2 == 1) = true := by simpa using hone
          simp only [this, if_true]
          exact ⟨d + 1, hinv', Or.inr hone⟩
        · have : ((divOut d n n 0).2 == 1) = false := by simpa using hone
          simp only [this, Bool.false_eq_true, if_false]
          exact ih (d + 1) _ _ (by omega) (by omega) hinv'
      · simp only [hv, if_false]
        have hv0 : v = 0 := by omega
        have hndvd : ¬ d ∣ n := by
          subst hv0
          rw [pow_zero, mul_one] at h2
          rw [h2]; exact h3
        refine ih (d + 1) n acc (by omega) (by omega) ⟨hinv.pos, hinv.prod, ?_, hinv.sorted, ?_⟩
        · intro pe hpe
          obtain ⟨a, b, c⟩ := hinv.prime pe hpe
          exact ⟨a, b, by omega⟩
        · intro q hq hqn
          have := hinv.nosmall q hq hqn
          rcases Nat.lt_or_eq_of_le this with h | h
          · omega
          · subst h; exact absurd hqn hndvd

theorem pairwise_gt_reverse {l : List Nat} (h : l.Pairwise (· > ·)) : l.reverse.Pairwise (· < ·) := by
  rw [List.pairwise_reverse]; exact h

/-- `prime_factor_multiplicities` returns the prime factorisation of `|n|`. -/
theorem pfm_factList {n : Int} {l : List (Nat × Nat)} (hn : n ≠ 0)
    (h : primeFactorMultiplicities n = .ok l) : FactList l n.natAbs := by
  unfold primeFactorMultiplicities at h
  have hN : 0 < n.natAbs := Int.natAbs_pos.mpr hn
  have hN0 : (n.natAbs == 0) = false := by simpa using hN.ne'
  simp only [hN0, Bool.false_eq_true, if_false] at h
  split at h
  · exact absurd h (by simp)
  · injection h with h
    set N := n.natAbs with hNdef
    set limit := Nat.sqrt N with hlim
    have hinv0 : PfmInv N 2 N [] :=
      ⟨hN, by simp, by simp, by simp, fun q hq _ => hq.two_le⟩
    obtain ⟨d', hinv, hfin⟩ := pfmLoop_spec N limit limit 2 N [] (le_refl _) (by omega) hinv0
    set r := pfmLoop limit limit 2 N [] with hr
    by_cases hone : r.1 = 1
    · have : (r.1 == 1) = true := by simpa using hone
      simp only [this, if_true] at h
      subst h
      refine ⟨?_, ?_, ?_⟩
      · intro pe hpe
        obtain ⟨a, b, _⟩ := hinv.prime pe (List.mem_reverse.mp hpe)
        exact ⟨a, b⟩
      · rw [List.map_reverse]; exact pairwise_gt_reverse hinv.sorted
      · rw [List.map_reverse, List.prod_reverse]
        have := hinv.prod
        rw [hone, one_mul] at this
        exact this
    · have hb : (r.1 == 1) = false := by simpa using hone
      simp only [hb, Bool.false_eq_true, if_false] at h
      subst h
      have hd' : limit < d' := by
        rcases hfin with h | h
        · exact h
        · exact absurd h hone
      -- the remaining cofactor is a prime larger than `limit`
      have hr2 : 2 ≤ r.1 := by have := hinv.pos; omega
      have hrle : r.1 ≤ N := by
        have := hinv.prod
        have hp : 0 < (r.2.map (fun pe => pe.1 ^ pe.2)).prod := by
          rcases Nat.eq_zero_or_pos (r.2.map (fun pe => pe.1 ^ pe.2)).prod with h0 | h0
          · rw [h0, mul_zero] at this; omega
          · exact h0
        calc r.1 = r.1 * 1 := (mul_one _).symm
          _ ≤ r.1 * _ := Nat.mul_le_mul_left _ hp
          _ = N := this
      have hrprime : r.1.Prime := by
        rw [Nat.prime_def_le_sqrt]
        refine ⟨hr2, ?_⟩
        intro m hm2 hmle hmdvd
        have hmf := Nat.minFac_prime (n := m) (by omega)
        have h1 := hinv.nosmall _ hmf ((Nat.minFac_dvd m).trans hmdvd)
        have h2 : m.minFac ≤ m := Nat.minFac_le (by omega)
        have h3 : Nat.sqrt r.1 ≤ Nat.sqrt N := Nat.sqrt_le_sqrt hrle
        omega
      have hrbig : ∀ pe ∈ r.2, pe.1 < r.1 := by
        intro pe hpe
        have h1 := (hinv.prime pe hpe).2.2
        have h2 := hinv.nosmall r.1 hrprime (dvd_refl _)
        omega
      refine ⟨?_, ?_, ?_⟩
      · intro pe hpe
        rw [List.mem_reverse] at hpe
        rcases List.mem_cons.mp hpe with rfl | hpe
        · exact ⟨hrprime, by simp⟩
        · obtain ⟨a, b, _⟩ := hinv.prime pe hpe
          exact ⟨a, b⟩
      · rw [List.map_reverse]
        apply pairwise_gt_reverse
        rw [List.map_cons, List.pairwise_cons]
        refine ⟨?_, hinv.sorted⟩
        intro q hq
        obtain ⟨pe, hpe, rfl⟩ := List.mem_map.mp hq
        exact hrbig pe hpe
      · rw [List.map_reverse, List.prod_reverse, List.map_cons, List.prod_cons, pow_one]
        exact hinv.prod

/-- `prime_factor_multiplicities` succeeds whenever `⌊√|n|⌋` fits an `unsigned`. -/
theorem pfm_ok (n : Int) (h : Nat.sqrt n.natAbs ≤ uintMax) : ∃ l, primeFactorMultiplicities n = .ok l := by
  unfold primeFactorMultiplicities
  by_cases h0 : (n.natAbs == 0) = true
  · simp [h0]
  · simp only [h0, Bool.false_eq_true, if_false]
    have : ¬ (Nat.sqrt n.natAbs > uintMax) := by omega
    simp [this]

end SymVerif.C32
