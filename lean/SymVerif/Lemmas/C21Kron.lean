import SymVerif.Lemmas.C21Eval
import Mathlib.Algebra.Order.BigOperators.Group.Finset
import Mathlib.Algebra.Polynomial.Inductions

/-! C21: `UIntDict::mul` (Kronecker substitution with signed-digit decoding) computes the product. -/
set_option linter.unusedSectionVars false
open Polynomial
namespace SymVerif.C21
open SymVerif.UPoly

/-! ### `bit_length`, `max_abs_coef`, `eval_bit` -/

theorem bitLength_spec (t : Nat) : t < 2 ^ bitLength t := by
  induction t using Nat.strong_induction_on with
  | _ t ih =>
    rw [bitLength]
    by_cases h : t = 0
    · simp [h]
    · simp only [h, dite_false]
      have := ih (t / 2) (by omega)
      rw [pow_succ]; omega

theorem foldl_max_spec (l : List (Nat × Int)) (init : Nat) :
    init ≤ l.foldl (fun cur p => if p.2.natAbs > cur then p.2.natAbs else cur) init ∧
    ∀ p ∈ l, p.2.natAbs ≤ l.foldl (fun cur p => if p.2.natAbs > cur then p.2.natAbs else cur) init := by
  induction l generalizing init with
  | nil => simp
  | cons q t ih =>
    simp only [List.foldl_cons]
    have := ih (if q.2.natAbs > init then q.2.natAbs else init)
    refine ⟨?_, ?_⟩
    · refine le_trans ?_ this.1
      split <;> omega
    · intro p hp
      rcases List.mem_cons.1 hp with h | h
      · rw [h]
        refine le_trans ?_ this.1
        split <;> omega
      · exact this.2 p h

theorem maxAbsCoef_spec {d : Dict Int} (hne : d ≠ []) :
    ∃ m, maxAbsCoef d = .ok m ∧ ∀ p ∈ d, |p.2| ≤ (m : Int) := by
  cases d with
  | nil => exact absurd rfl hne
  | cons q t =>
    obtain ⟨k, c⟩ := q
    refine ⟨_, rfl, ?_⟩
    intro p hp
    have := (foldl_max_spec ((k, c) :: t) c.natAbs).2 p hp
    rw [← Int.natCast_natAbs]
    exact_mod_cast this

theorem evalBitLoop_spec (x : Nat) (l : List (Nat × Int)) (last : Nat) (res : Int)
    (hd : Desc l) (hl : ∀ q ∈ l, q.1 ≤ last) :
    evalBitLoop x l last res = res * 2 ^ (x * last) + (l.map (fun p => p.2 * (2 ^ x) ^ p.1)).sum := by
  induction l generalizing last res with
  | nil => simp [evalBitLoop, Int.shiftLeft_eq]
  | cons p t ih =>
    obtain ⟨k, c⟩ := p
    have ⟨h1, h2⟩ := List.pairwise_cons.1 hd
    have hk : k ≤ last := hl (k, c) List.mem_cons_self
    simp only [evalBitLoop]
    rw [ih k _ h2 (fun q hq => Nat.le_of_lt (h1 q hq)), Int.shiftLeft_eq]
    simp only [List.map_cons, List.sum_cons]
    have : (2 : Int) ^ (x * (last - k)) * 2 ^ (x * k) = 2 ^ (x * last) := by
      rw [← pow_add, ← Nat.mul_add, Nat.sub_add_cancel hk]
    have h3 : ((2 : Int) ^ x) ^ k = 2 ^ (x * k) := by rw [pow_mul]
    rw [h3]
    calc (res * 2 ^ (x * (last - k)) + c) * 2 ^ (x * k) + (t.map (fun p => p.2 * (2 ^ x) ^ p.1)).sum
        = res * (2 ^ (x * (last - k)) * 2 ^ (x * k)) + (c * 2 ^ (x * k) + (t.map (fun p => p.2 * (2 ^ x) ^ p.1)).sum) := by ring
      _ = _ := by rw [this]

theorem evalBit_spec {d : Dict Int} (hs : Sorted d) (hne : d ≠ []) (x : Nat) :
    evalBit d x = .ok ((toPoly d).eval ((2 : Int) ^ x)) := by
  unfold evalBit
  split
  · rename_i h
    have : d = [] := by simpa using h
    exact absurd this hne
  · rename_i k c t h
    have hdesc := desc_reverse hs
    rw [h] at hdesc
    have hle : ∀ q ∈ (k, c) :: t, q.1 ≤ k := by
      intro q hq
      rcases List.mem_cons.1 hq with h' | h'
      · rw [h']
      · exact Nat.le_of_lt ((List.pairwise_cons.1 hdesc).1 q h')
    rw [evalBitLoop_spec x _ k 0 hdesc hle, eval_toPoly]
    have : (d.map (fun p => p.2 * ((2 : Int) ^ x) ^ p.1)).sum
        = (d.reverse.map (fun p => p.2 * ((2 : Int) ^ x) ^ p.1)).sum := by
      rw [List.map_reverse, List.sum_reverse]
    rw [this, h]; simp

/-! ### coefficient bounds -/

theorem getCoeff_cases {R : Type} [Zero R] (d : Dict R) (k : Nat) :
    getCoeff d k = 0 ∨ (k, getCoeff d k) ∈ d := by
  induction d with
  | nil => left; rfl
  | cons p t ih =>
    obtain ⟨k', c'⟩ := p
    simp only [getCoeff]
    by_cases h : k' = k
    · right; rw [if_pos h, h]; exact List.mem_cons_self
    · rw [if_neg h]
      rcases ih with h' | h'
      · left; exact h'
      · right; exact List.mem_cons_of_mem _ h'

theorem abs_coeff_le {d : Dict Int} (hs : Sorted d) {M : Int} (hM : 0 ≤ M)
    (h : ∀ q ∈ d, |q.2| ≤ M) (k : Nat) : |(toPoly d).coeff k| ≤ M := by
  rw [← getCoeff_spec hs]
  rcases getCoeff_cases d k with h' | h'
  · rw [h']; simpa using hM
  · exact h _ h'

theorem coeff_mul_bound (p q : Int[X]) (dp : Nat) (A Bc : Int) (hA : 0 ≤ A) (hBc : 0 ≤ Bc)
    (hp : ∀ i, |p.coeff i| ≤ A) (hp0 : ∀ i, dp < i → p.coeff i = 0) (hq : ∀ j, |q.coeff j| ≤ Bc)
    (k : Nat) : |(p * q).coeff k| ≤ ((dp + 1 : Nat) : Int) * (A * Bc) := by
  rw [coeff_mul, Finset.Nat.sum_antidiagonal_eq_sum_range_succ_mk]
  calc |∑ i ∈ Finset.range k.succ, p.coeff i * q.coeff (k - i)|
      ≤ ∑ i ∈ Finset.range k.succ, |p.coeff i * q.coeff (k - i)| := Finset.abs_sum_le_sum_abs _ _
    _ ≤ ∑ i ∈ Finset.range k.succ, (if i ≤ dp then A * Bc else 0) := by
        apply Finset.sum_le_sum
        intro i _
        by_cases hi : i ≤ dp
        · rw [if_pos hi, abs_mul]
          exact mul_le_mul (hp i) (hq _) (abs_nonneg _) hA
        · rw [if_neg hi, hp0 i (by omega)]; simp
    _ = ∑ i ∈ (Finset.range k.succ).filter (fun i => i ≤ dp), A * Bc := by
        rw [Finset.sum_filter]
    _ = (((Finset.range k.succ).filter (fun i => i ≤ dp)).card : Int) * (A * Bc) := by
        rw [Finset.sum_const, nsmul_eq_mul]
    _ ≤ ((dp + 1 : Nat) : Int) * (A * Bc) := by
        apply mul_le_mul_of_nonneg_right _ (mul_nonneg hA hBc)
        have : ((Finset.range k.succ).filter (fun i => i ≤ dp)).card ≤ (Finset.range (dp + 1)).card := by
          apply Finset.card_le_card
          intro i hi
          have := (Finset.mem_filter.1 hi).2
          exact Finset.mem_range.2 (by omega)
        rw [Finset.card_range] at this
        exact_mod_cast this

/-- an integer polynomial whose coefficients are smaller than `B` and which vanishes at `B` is zero
    (uniqueness of signed base-`B` digits) -/
theorem eq_zero_of_eval_eq_zero (B : Int) (hB : 0 < B) :
    ∀ (n : Nat) (D : Int[X]), D.natDegree ≤ n → (∀ k, |D.coeff k| < B) → D.eval B = 0 → D = 0 := by
  intro n
  induction n with
  | zero =>
    intro D hdeg hc he
    rw [eq_C_of_natDegree_le_zero hdeg] at he ⊢
    simp at he
    simp [he]
  | succ n ih =>
    intro D hdeg hc he
    have hD := divX_mul_X_add D
    have he' : D.divX.eval B * B + D.coeff 0 = 0 := by
      rw [← hD] at he; simpa using he
    have hdvd : B ∣ D.coeff 0 := ⟨-(D.divX.eval B), by linarith⟩
    have h0 : D.coeff 0 = 0 := Int.eq_zero_of_abs_lt_dvd hdvd (hc 0)
    have he2 : D.divX.eval B = 0 := by
      rw [h0, add_zero] at he'
      exact (mul_eq_zero.1 he').resolve_right (ne_of_gt hB)
    have := ih D.divX (by rw [natDegree_divX_eq_natDegree_tsub_one]; omega)
      (fun k => by rw [coeff_divX]; exact hc _) he2
    rw [← hD, this, h0]; simp

/-! ### the decoding loop -/

theorem pushDigit_spec {r : Dict Int} {deg : Nat} (res : Int) (M : Int)
    (hs : Sorted r) (hz : NoZero r) (hk : ∀ q ∈ r, q.1 < deg) (hb : ∀ q ∈ r, |q.2| ≤ M)
    (hres : |res| ≤ M) :
    Sorted (if res ≠ 0 then setKey r deg res else r) ∧
    NoZero (if res ≠ 0 then setKey r deg res else r) ∧
    (∀ q ∈ (if res ≠ 0 then setKey r deg res else r), q.1 < deg + 1) ∧
    (∀ q ∈ (if res ≠ 0 then setKey r deg res else r), |q.2| ≤ M) ∧
    toPoly (if res ≠ 0 then setKey r deg res else r) = toPoly r + monomial deg res := by
  by_cases h : res = 0
  · simp only [h, ne_eq, not_true_eq_false, if_false]
    exact ⟨hs, hz, fun q hq => Nat.lt_succ_of_lt (hk q hq), hb, by simp⟩
  · simp only [ne_eq, h, not_false_eq_true, if_true]
    rw [setKey_append hk]
    refine ⟨sorted_append_single hs hk, ?_, ?_, ?_, ?_⟩
    · intro q hq
      rcases List.mem_append.1 hq with h' | h'
      · exact hz q h'
      · simp at h'; rw [h']; exact h
    · intro q hq
      rcases List.mem_append.1 hq with h' | h'
      · exact Nat.lt_succ_of_lt (hk q h')
      · simp at h'; rw [h']; exact Nat.lt_succ_self _
    · intro q hq
      rcases List.mem_append.1 hq with h' | h'
      · exact hb q h'
      · simp at h'; rw [h']; exact hres
    · rw [toPoly_append]; simp

theorem decode_spec (n : Nat) (sgn : Int) (hsgn : sgn = 1 ∨ sgn = -1) (m : Nat) :
    ∀ (sval carry deg : Nat) (r : Dict Int), 2 * sval + carry ≤ m → carry ≤ 1 → Sorted r → NoZero r →
      (∀ q ∈ r, q.1 < deg) → (∀ q ∈ r, |q.2| ≤ (2 : Int) ^ n) →
      Sorted (decode n sgn sval carry deg r) ∧ NoZero (decode n sgn sval carry deg r) ∧
      (∀ q ∈ decode n sgn sval carry deg r, |q.2| ≤ (2 : Int) ^ n) ∧
      (toPoly (decode n sgn sval carry deg r)).eval ((2 : Int) ^ (n + 1))
        = (toPoly r).eval ((2 : Int) ^ (n + 1))
          + sgn * ((2 : Int) ^ (n + 1)) ^ deg * ((sval : Int) + (carry : Int)) := by
  induction m with
  | zero =>
    intro sval carry deg r hm hc hs hz hk hb
    have h0 : sval = 0 ∧ carry = 0 := by omega
    rw [decode]
    simp only [h0, and_self, dite_true]
    refine ⟨hs, hz, hb, ?_⟩
    simp
  | succ m ih =>
    intro sval carry deg r hm hc hs hz hk hb
    rw [decode]
    by_cases h0 : sval = 0 ∧ carry = 0
    · simp only [h0, and_self, dite_true]
      refine ⟨hs, hz, hb, ?_⟩
      simp
    · simp only [h0, dite_false]
      have e1 : (1 <<< (n + 1) : Nat) = 2 ^ (n + 1) := by simp [Nat.shiftLeft_eq]
      have e2 : (2 : Nat) ^ (n + 1) / 2 = 2 ^ n := by rw [pow_succ]; omega
      have e3 : sval &&& (2 ^ (n + 1) - 1) = sval % 2 ^ (n + 1) := Nat.and_two_pow_sub_one_eq_mod _ _
      have e4 : sval >>> (n + 1) = sval / 2 ^ (n + 1) := Nat.shiftRight_eq_div_pow _ _
      simp only [e1, e2, e3, e4]
      have hpos : 0 < (2 : Nat) ^ (n + 1) := Nat.pow_pos (by omega)
      have hmod : sval % 2 ^ (n + 1) < 2 ^ (n + 1) := Nat.mod_lt _ hpos
      have hdm : 2 ^ (n + 1) * (sval / 2 ^ (n + 1)) + sval % 2 ^ (n + 1) = sval := Nat.div_add_mod _ _
      have hdle : sval / 2 ^ (n + 1) ≤ sval / 2 := by
        have := decode_dec sval n; rwa [e4] at this
      generalize hq : sval / 2 ^ (n + 1) = qv at *
      generalize ht : sval % 2 ^ (n + 1) = tv at *
      have hBn : (2 : Nat) ^ (n + 1) = 2 * 2 ^ n := by rw [pow_succ]; ring
      have hBi : (2 : Int) ^ (n + 1) = 2 * 2 ^ n := by rw [pow_succ]; ring
      have hHpos : (0 : Int) < 2 ^ n := by positivity
      have hsv : (sval : Int) = 2 * 2 ^ n * (qv : Int) + (tv : Int) := by
        rw [← hdm, hBn]; push_cast; ring
      have hcI : (carry : Int) ≤ 1 := by exact_mod_cast hc
      have hcI0 : (0 : Int) ≤ carry := by positivity
      have htI0 : (0 : Int) ≤ tv := by positivity
      have htlt : (tv : Int) < 2 * 2 ^ n := by
        have : tv < 2 * 2 ^ n := by rw [← hBn]; exact hmod
        exact_mod_cast this
      by_cases hlt : tv < 2 ^ n
      · simp only [hlt, dite_true]
        have hltI : (tv : Int) < 2 ^ n := by exact_mod_cast hlt
        have hres : |sgn * ((tv : Int) + (carry : Int))| ≤ (2 : Int) ^ n := by
          rw [abs_mul]
          have : |sgn| = 1 := by rcases hsgn with h | h <;> simp [h]
          rw [this, one_mul, abs_of_nonneg (by linarith)]
          linarith
        obtain ⟨p1, p2, p3, p4, p5⟩ := pushDigit_spec _ _ hs hz hk hb hres
        have hm' : 2 * qv + 0 ≤ m := by omega
        obtain ⟨q1, q2, q3, q4⟩ := ih qv 0 (deg + 1) _ hm' (by omega) p1 p2 p3 p4
        refine ⟨q1, q2, q3, ?_⟩
        rw [q4, p5, eval_add, eval_monomial, hsv, hBi]
        push_cast
        ring
      · simp only [hlt, dite_false]
        have hgeI : (2 : Int) ^ n ≤ tv := by
          have : 2 ^ n ≤ tv := by omega
          exact_mod_cast this
        have hres : |sgn * ((tv : Int) - ((2 ^ (n + 1) : Nat) : Int) + (carry : Int))| ≤ (2 : Int) ^ n := by
          rw [abs_mul]
          have : |sgn| = 1 := by rcases hsgn with h | h <;> simp [h]
          rw [this, one_mul]
          push_cast
          rw [hBi, abs_le]
          constructor <;> linarith
        obtain ⟨p1, p2, p3, p4, p5⟩ := pushDigit_spec _ _ hs hz hk hb hres
        have hm' : 2 * qv + 1 ≤ m := by
          by_cases hs0 : sval = 0
          · exfalso
            subst hs0
            simp at ht
            subst ht
            have : 0 < 2 ^ n := Nat.pow_pos (by omega)
            omega
          · omega
        obtain ⟨q1, q2, q3, q4⟩ := ih qv 1 (deg + 1) _ hm' (by omega) p1 p2 p3 p4
        refine ⟨q1, q2, q3, ?_⟩
        rw [q4, p5, eval_add, eval_monomial, hsv]
        push_cast
        rw [hBi]
        ring

/-! ### `UIntDict::mul` -/

theorem min_mul_bound (pa pb : Int[X]) (da db : Nat) (A Bc : Int) (hA : 0 ≤ A) (hBc : 0 ≤ Bc)
    (hpa : ∀ i, |pa.coeff i| ≤ A) (hpa0 : ∀ i, da < i → pa.coeff i = 0)
    (hpb : ∀ i, |pb.coeff i| ≤ Bc) (hpb0 : ∀ i, db < i → pb.coeff i = 0) (k : Nat) :
    |(pa * pb).coeff k| ≤ ((min (da + 1) (db + 1) : Nat) : Int) * (A * Bc) := by
  rcases Nat.le_total (da + 1) (db + 1) with h | h
  · rw [Nat.min_eq_left h]
    exact coeff_mul_bound pa pb da A Bc hA hBc hpa hpa0 hpb k
  · rw [Nat.min_eq_right h, mul_comm pa pb, mul_comm A Bc]
    exact coeff_mul_bound pb pa db Bc A hBc hA hpb hpb0 hpa k

/-- `UIntDict::mul` as repaired: never fails, returns a canonical dictionary, and it denotes the product -/
theorem kmul_ok : MulOK kmul := by
  intro a b ha hb
  unfold kmul kmulWith
  by_cases hae : a = []
  · subst hae
    exact ⟨[], by simp, canon_nil, by simp⟩
  by_cases hbe : b = []
  · subst hbe
    refine ⟨[], ?_, canon_nil, by simp⟩
    simp [List.isEmpty_iff, hae]
  have hae' : a.isEmpty = false := by simpa [List.isEmpty_iff] using hae
  have hbe' : b.isEmpty = false := by simpa [List.isEmpty_iff] using hbe
  simp only [hae', hbe', Bool.and_false, Bool.false_eq_true, if_false]
  obtain ⟨ma, hma, hmab⟩ := maxAbsCoef_spec hae
  obtain ⟨mb, hmb, hmbb⟩ := maxAbsCoef_spec hbe
  simp only [hma, hmb]
  generalize hn : bitLength (min (UPoly.degree a + 1) (UPoly.degree b + 1)) + bitLength ma + bitLength mb = n
  simp only [evalBit_spec ha.1 hae, evalBit_spec hb.1 hbe]
  set s : Int := (toPoly a).eval ((2 : Int) ^ (n + 1)) * (toPoly b).eval ((2 : Int) ^ (n + 1)) with hs
  set sgn : Int := if s < 0 then -1 else 1 with hsgn
  have hsgn' : sgn = 1 ∨ sgn = -1 := by
    rw [hsgn]; split
    · right; rfl
    · left; rfl
  obtain ⟨d1, d2, d3, d4⟩ := decode_spec n sgn hsgn' (2 * s.natAbs + 0) s.natAbs 0 0 [] (le_refl _)
    (by omega) sorted_nil canon_nil.2 (by intro q hq; cases hq) (by intro q hq; cases hq)
  refine ⟨_, rfl, ⟨d1, d2⟩, ?_⟩
  -- the decoded polynomial and the product agree at 2^N
  have hsabs : sgn * (s.natAbs : Int) = s := by
    rw [hsgn]
    split
    · rename_i h; rw [Int.ofNat_natAbs_of_nonpos (le_of_lt h)]; ring
    · rename_i h; rw [Int.natAbs_of_nonneg (not_lt.1 h)]; ring
  have hev : (toPoly (decode n sgn s.natAbs 0 0 [])).eval ((2 : Int) ^ (n + 1))
      = (toPoly a * toPoly b).eval ((2 : Int) ^ (n + 1)) := by
    rw [d4, eval_mul]
    simp only [toPoly_nil, eval_zero, zero_add, pow_zero, mul_one, Nat.cast_zero, add_zero]
    exact hsabs
  -- coefficient bounds
  have hmaI : (0 : Int) ≤ ma := by positivity
  have hmbI : (0 : Int) ≤ mb := by positivity
  have hbound : ∀ k, |(toPoly a * toPoly b).coeff k| < (2 : Int) ^ n := by
    intro k
    have h1 := min_mul_bound (toPoly a) (toPoly b) (UPoly.degree a) (UPoly.degree b) ma mb hmaI hmbI
      (abs_coeff_le ha.1 hmaI hmab) (fun i hi => coeff_gt_degree ha.1 hi)
      (abs_coeff_le hb.1 hmbI hmbb) (fun i hi => coeff_gt_degree hb.1 hi) k
    refine lt_of_le_of_lt h1 ?_
    have h2 := bitLength_spec (min (UPoly.degree a + 1) (UPoly.degree b + 1))
    have h3 := bitLength_spec ma
    have h4 := bitLength_spec mb
    have : min (UPoly.degree a + 1) (UPoly.degree b + 1) * (ma * mb) < 2 ^ n := by
      rw [← hn, pow_add, pow_add, mul_assoc]
      exact Nat.mul_lt_mul'' h2 (Nat.mul_lt_mul'' h3 h4)
    exact_mod_cast this
  -- uniqueness of the signed digits
  have hD : toPoly (decode n sgn s.natAbs 0 0 []) - toPoly a * toPoly b = 0 := by
    apply eq_zero_of_eval_eq_zero ((2 : Int) ^ (n + 1)) (by positivity) _ _ (le_refl _)
    · intro k
      rw [coeff_sub]
      have h1 := abs_coeff_le d1 (by positivity) d3 k
      have h2 := hbound k
      have h3 := abs_sub (((toPoly (decode n sgn s.natAbs 0 0 [])).coeff k)) ((toPoly a * toPoly b).coeff k)
      have : (2 : Int) ^ (n + 1) = 2 * 2 ^ n := by rw [pow_succ]; ring
      rw [this]
      linarith
    · rw [eval_sub, hev, sub_self]
  exact sub_eq_zero.1 hD

end SymVerif.C21
