/-
C36 — soundness of the rules of RewriteAsExp / RewriteAsSin / RewriteAsCos and of trig_to_sqrt
under explicit laws of the interpretation (instantiated over ℂ in Props/C36.lean).
-/
import SymVerif.Lemmas.C36Rewrite

namespace SymVerif
namespace Rewrite

open NF CSE
open Classical

set_option linter.unusedSectionVars false

section
variable {K : Type} [Field K] [CharZero K] {M : Interp K}

/-- `exp(v) := E ** v` in the interpretation -/
def expV (M : Interp K) (v : K) : K := M.pw (M.const "E") v

theorem evalS_mkExp (hM : Lawful M) (hE : M.const "E" ≠ 0) {x : Expr} {vx : K}
    (hx : evalS M x = some vx) : evalS M (mkExp x) = some (expV M vx) := by
  rw [mkExp, evalS_pow_eq]
  cases hl : intLit? x with
  | none => simp [facVal, hl, evalS, hx, pwVal_eq hE, expV]
  | some n =>
    have : x = .int n := by cases x <;> simp [intLit?] at hl; rw [hl]
    subst this
    simp only [evalS, Option.some.injEq] at hx
    subst hx
    simp [facVal, intLit?, evalS, powVal_of_ne hE, expV, pw_intCast hM _ n hE]

theorem evalS_mkExp_inv {x : Expr} {w : K} (h : evalS M (mkExp x) = some w) :
    ∃ vx, evalS M x = some vx := by
  rw [mkExp, evalS_pow_eq] at h
  cases hl : intLit? x with
  | none =>
    simp only [facVal, hl] at h
    obtain ⟨_, ve, _, hve, _, _⟩ := pwVal_some h
    exact ⟨ve, hve⟩
  | some n =>
    have : x = .int n := by cases x <;> simp [intLit?] at hl; rw [hl]
    subst this
    exact ⟨(n : K), by simp [evalS]⟩

theorem evalS_int (n : Int) : evalS M (.int n) = some (n : K) := by simp [evalS]

/-! ### RewriteAsExp -/

/-- the exponential forms of the twelve classes (`A = exp(I v)`, `B = exp(-(I v))`,
`P = exp(v)`, `N = exp(-v)`) -/
structure ExpLaws (M : Interp K) : Prop where
  E_ne : M.const "E" ≠ 0
  sin : ∀ v, M.app "Sin" [v] = (expV M (M.I * v) - expV M (-(M.I * v))) / (2 * M.I)
  cos : ∀ v, M.app "Cos" [v] = (expV M (M.I * v) + expV M (-(M.I * v))) / 2
  tan : ∀ v, M.app "Tan" [v] =
    (expV M (M.I * v) - expV M (-(M.I * v))) / (M.I * (expV M (M.I * v) + expV M (-(M.I * v))))
  cot : ∀ v, expV M (M.I * v) - expV M (-(M.I * v)) ≠ 0 → M.app "Cot" [v] =
    (M.I * (expV M (M.I * v) + expV M (-(M.I * v)))) / (expV M (M.I * v) - expV M (-(M.I * v)))
  csc : ∀ v, M.app "Csc" [v] = (2 * M.I) / (expV M (M.I * v) - expV M (-(M.I * v)))
  sec : ∀ v, M.app "Sec" [v] = 2 / (expV M (M.I * v) + expV M (-(M.I * v)))
  sinh : ∀ v, M.app "Sinh" [v] = (expV M v - expV M (-v)) / 2
  cosh : ∀ v, M.app "Cosh" [v] = (expV M v + expV M (-v)) / 2
  tanh : ∀ v, M.app "Tanh" [v] = (expV M v - expV M (-v)) / (expV M v + expV M (-v))
  csch : ∀ v, M.app "Csch" [v] = 2 / (expV M v - expV M (-v))
  sech : ∀ v, M.app "Sech" [v] = 2 / (expV M v + expV M (-v))
  coth : ∀ v, expV M v - expV M (-v) ≠ 0 →
    M.app "Coth" [v] = (expV M v + expV M (-v)) / (expV M v - expV M (-v))

/-- values of the four exponentials of `expRule` -/
theorem exp_parts (hM : Lawful M) (hE : M.const "E" ≠ 0) {a : Expr} {va : K}
    (ha : evalS M a = some va) :
    evalS M (eA a) = some (expV M (M.I * va)) ∧
    evalS M (eB a) = some (expV M (-(M.I * va))) ∧
    evalS M (eP a) = some (expV M va) ∧
    evalS M (eN a) = some (expV M (-va)) := by
  have h1 := evalS_mkMulC (M := M) evalS_iE ha
  exact ⟨evalS_mkExp hM hE h1, evalS_mkExp hM hE (evalS_mkNeg h1), evalS_mkExp hM hE ha,
    evalS_mkExp hM hE (evalS_mkNeg ha)⟩

/-- the rewritten argument is defined as soon as one of the exponentials is -/
theorem arg_defined_of_eA {a : Expr} {w : K} (h : evalS M (eA a) = some w) :
    ∃ va, evalS M a = some va := by
  obtain ⟨vx, hx⟩ := evalS_mkExp_inv h
  obtain ⟨_, va, _, hva, _⟩ := evalS_mkMulC_inv hx
  exact ⟨va, hva⟩

theorem arg_defined_of_eP {a : Expr} {w : K} (h : evalS M (eP a) = some w) :
    ∃ va, evalS M a = some va := evalS_mkExp_inv h

theorem arg_defined_subI {a : Expr} {w : K} (h : evalS M (mkSub (eA a) (eB a)) = some w) :
    ∃ va, evalS M a = some va := by
  obtain ⟨p, q, hp, _, _⟩ := evalS_mkSub_inv h; exact arg_defined_of_eA hp
theorem arg_defined_addI {a : Expr} {w : K} (h : evalS M (mkAdd2 (eA a) (eB a)) = some w) :
    ∃ va, evalS M a = some va := by
  obtain ⟨p, q, hp, _, _⟩ := evalS_mkAdd2_inv h; exact arg_defined_of_eA hp
theorem arg_defined_sub {a : Expr} {w : K} (h : evalS M (mkSub (eP a) (eN a)) = some w) :
    ∃ va, evalS M a = some va := by
  obtain ⟨p, q, hp, _, _⟩ := evalS_mkSub_inv h; exact arg_defined_of_eP hp
theorem arg_defined_add {a : Expr} {w : K} (h : evalS M (mkAdd2 (eP a) (eN a)) = some w) :
    ∃ va, evalS M a = some va := by
  obtain ⟨p, q, hp, _, _⟩ := evalS_mkAdd2_inv h; exact arg_defined_of_eP hp

theorem evalS_two : evalS M (.int 2) = some (2 : K) := by
  simp only [evalS, Int.cast_ofNat]

theorem evalS_one : evalS M (.int 1) = some (1 : K) := by
  simp only [evalS, Int.cast_one]

theorem two_I : evalS M (mkMulC (.int 2) iE) = some (2 * M.I) :=
  evalS_mkMulC evalS_two evalS_iE

/-- uniform closing step: both sides of a quotient are known -/
theorem div_close {X Y : Expr} {x y w : K} (hX : evalS M X = some x) (hY : evalS M Y = some y)
    (hw : evalS M (mkDiv X Y) = some w) : w = x / y ∧ y ≠ 0 := by
  obtain ⟨x', y', hx', hy', hne, rfl⟩ := evalS_mkDiv_inv hw
  rw [hX] at hx'; rw [hY] at hy'
  cases hx'; cases hy'
  exact ⟨rfl, hne⟩

/-- the shape shared by all rule proofs: the argument is defined, and with its value the result has
the value of the function -/
theorem rule_close {f : Expr → Expr} {h : String} {a : Expr} {w : K}
    (hdef : evalS M (f a) = some w → ∃ va, evalS M a = some va)
    (hval : ∀ va, evalS M a = some va → evalS M (f a) = some w → w = M.app h [va])
    (hw : evalS M (f a) = some w) : ∃ va, evalS M a = some va ∧ w = M.app h [va] := by
  obtain ⟨va, ha⟩ := hdef hw
  exact ⟨va, ha, hval va ha hw⟩

theorem lookupForm_mem {tbl : List (String × (Expr → Expr))} {h : String} {f : Expr → Expr}
    (hf : lookupForm tbl h = some f) : (h, f) ∈ tbl := by
  unfold lookupForm at hf
  cases hq : tbl.find? (fun p => p.1 == h) with
  | none => simp [hq] at hf
  | some p =>
    simp only [hq, Option.map_some, Option.some.injEq] at hf
    have h1 := List.find?_some hq
    have h2 := List.mem_of_find?_eq_some hq
    simp only [beq_iff_eq] at h1
    obtain ⟨n, g⟩ := p
    simp only at h1 hf
    subst h1; subst hf
    exact h2

theorem expRule_sound (hM : Lawful M) (hL : ExpLaws M) : RuleSound M expRule := by
  intro h a r w hr hw
  have hE := hL.E_ne
  unfold expRule at hr
  cases hf : expForm h with
  | none => simp [hf] at hr
  | some f =>
    simp only [hf, Option.map_some, Option.some.injEq] at hr
    subst hr
    have hmem := lookupForm_mem hf
    have h2 : evalS M (.int 2) = some (2 : K) := evalS_two
    simp only [expTable, List.mem_cons, Prod.mk.injEq, List.not_mem_nil, or_false] at hmem
    rcases hmem with ⟨rfl, rfl⟩ | ⟨rfl, rfl⟩ | ⟨rfl, rfl⟩ | ⟨rfl, rfl⟩ | ⟨rfl, rfl⟩ | ⟨rfl, rfl⟩ |
      ⟨rfl, rfl⟩ | ⟨rfl, rfl⟩ | ⟨rfl, rfl⟩ | ⟨rfl, rfl⟩ | ⟨rfl, rfl⟩ | ⟨rfl, rfl⟩
    · refine rule_close (fun hw => ?_) (fun va ha hw => ?_) hw
      · obtain ⟨x, y, hx, _, _, _⟩ := evalS_mkDiv_inv hw; exact arg_defined_subI hx
      · obtain ⟨hA, hB, hP, hN⟩ := exp_parts hM hE ha
        rw [(div_close (evalS_mkSub hA hB) two_I hw).1, hL.sin]
    · refine rule_close (fun hw => ?_) (fun va ha hw => ?_) hw
      · obtain ⟨x, y, hx, _, _, _⟩ := evalS_mkDiv_inv hw; exact arg_defined_addI hx
      · obtain ⟨hA, hB, hP, hN⟩ := exp_parts hM hE ha
        rw [(div_close (evalS_mkAdd2 hA hB) h2 hw).1, hL.cos]
    · refine rule_close (fun hw => ?_) (fun va ha hw => ?_) hw
      · obtain ⟨x, y, hx, _, _, _⟩ := evalS_mkDiv_inv hw; exact arg_defined_subI hx
      · obtain ⟨hA, hB, hP, hN⟩ := exp_parts hM hE ha
        rw [(div_close (evalS_mkSub hA hB) (evalS_mkMul2 evalS_iE (evalS_mkAdd2 hA hB)) hw).1, hL.tan]
    · refine rule_close (fun hw => ?_) (fun va ha hw => ?_) hw
      · obtain ⟨x, y, _, hy, _, _⟩ := evalS_mkDiv_inv hw; exact arg_defined_subI hy
      · obtain ⟨hA, hB, hP, hN⟩ := exp_parts hM hE ha
        obtain ⟨e1, e2⟩ := div_close (evalS_mkMul2 evalS_iE (evalS_mkAdd2 hA hB)) (evalS_mkSub hA hB) hw
        rw [e1, hL.cot _ e2]
    · refine rule_close (fun hw => ?_) (fun va ha hw => ?_) hw
      · obtain ⟨x, y, _, hy, _, _⟩ := evalS_mkDiv_inv hw; exact arg_defined_subI hy
      · obtain ⟨hA, hB, hP, hN⟩ := exp_parts hM hE ha
        rw [(div_close two_I (evalS_mkSub hA hB) hw).1, hL.csc]
    · refine rule_close (fun hw => ?_) (fun va ha hw => ?_) hw
      · obtain ⟨x, y, _, hy, _, _⟩ := evalS_mkDiv_inv hw; exact arg_defined_addI hy
      · obtain ⟨hA, hB, hP, hN⟩ := exp_parts hM hE ha
        rw [(div_close h2 (evalS_mkAdd2 hA hB) hw).1, hL.sec]
    · refine rule_close (fun hw => ?_) (fun va ha hw => ?_) hw
      · obtain ⟨x, y, hx, _, _, _⟩ := evalS_mkDiv_inv hw; exact arg_defined_sub hx
      · obtain ⟨hA, hB, hP, hN⟩ := exp_parts hM hE ha
        rw [(div_close (evalS_mkSub hP hN) h2 hw).1, hL.sinh]
    · refine rule_close (fun hw => ?_) (fun va ha hw => ?_) hw
      · obtain ⟨x, y, hx, _, _, _⟩ := evalS_mkDiv_inv hw; exact arg_defined_add hx
      · obtain ⟨hA, hB, hP, hN⟩ := exp_parts hM hE ha
        rw [(div_close (evalS_mkAdd2 hP hN) h2 hw).1, hL.cosh]
    · refine rule_close (fun hw => ?_) (fun va ha hw => ?_) hw
      · obtain ⟨x, y, hx, _, _, _⟩ := evalS_mkDiv_inv hw; exact arg_defined_sub hx
      · obtain ⟨hA, hB, hP, hN⟩ := exp_parts hM hE ha
        rw [(div_close (evalS_mkSub hP hN) (evalS_mkAdd2 hP hN) hw).1, hL.tanh]
    · refine rule_close (fun hw => ?_) (fun va ha hw => ?_) hw
      · obtain ⟨x, y, _, hy, _, _⟩ := evalS_mkDiv_inv hw; exact arg_defined_sub hy
      · obtain ⟨hA, hB, hP, hN⟩ := exp_parts hM hE ha
        rw [(div_close h2 (evalS_mkSub hP hN) hw).1, hL.csch]
    · refine rule_close (fun hw => ?_) (fun va ha hw => ?_) hw
      · obtain ⟨x, y, _, hy, _, _⟩ := evalS_mkDiv_inv hw; exact arg_defined_add hy
      · obtain ⟨hA, hB, hP, hN⟩ := exp_parts hM hE ha
        rw [(div_close h2 (evalS_mkAdd2 hP hN) hw).1, hL.sech]
    · refine rule_close (fun hw => ?_) (fun va ha hw => ?_) hw
      · obtain ⟨x, y, hx, _, _, _⟩ := evalS_mkDiv_inv hw; exact arg_defined_add hx
      · obtain ⟨hA, hB, hP, hN⟩ := exp_parts hM hE ha
        obtain ⟨e1, e2⟩ := div_close (evalS_mkAdd2 hP hN) (evalS_mkSub hP hN) hw
        rw [e1, hL.coth _ e2]

/-! ### RewriteAsSin / RewriteAsCos -/

/-- the laws behind RewriteAsSin / RewriteAsCos; `UnevaluatedExpr` is the identity -/
structure TrigLaws (M : Interp K) : Prop where
  uneval : ∀ v, M.app "UnevaluatedExpr" [v] = v
  cos_as_sin : ∀ v, M.app "Cos" [v] = M.app "Sin" [v + M.const "pi" * (1 / 2)]
  sin_as_cos : ∀ v, M.app "Sin" [v] = M.app "Cos" [v + M.const "pi" * (-1 / 2)]
  tan_sin : ∀ v, M.app "Sin" [2 * v] ≠ 0 →
    M.app "Tan" [v] = 2 * M.app "Sin" [v] ^ 2 / M.app "Sin" [2 * v]
  cot_sin : ∀ v, M.app "Sin" [v] ≠ 0 →
    M.app "Cot" [v] = M.app "Sin" [2 * v] / (2 * M.app "Sin" [v] ^ 2)
  csc_sin : ∀ v, M.app "Csc" [v] = 1 / M.app "Sin" [v]
  sec_cos : ∀ v, M.app "Sec" [v] = 1 / M.app "Cos" [v]
  tan_cos : ∀ v, M.app "Tan" [v] = M.app "Sin" [v] / M.app "Cos" [v]
  cot_cos : ∀ v, M.app "Cot" [v] = M.app "Cos" [v] / M.app "Sin" [v]

theorem evalS_shiftPi {a : Expr} {va : K} (hL : TrigLaws M) (q : Int) (d : Nat) (hd : d ≠ 0)
    (ha : evalS M a = some va) :
    evalS M (shiftPi a (.rat q d)) = some (va + M.const "pi" * ((q : K) / (d : K))) := by
  simp [shiftPi, piE, evalS_app1, evalS, evalSTerms, ha, hd, add2, mul2, hL.uneval]

theorem evalS_shiftPi_inv {a : Expr} {q : Expr} {w : K} (h : evalS M (shiftPi a q) = some w) :
    ∃ va, evalS M a = some va := by
  rw [shiftPi, evalS_app1] at h
  cases hx : evalS M (.add (.int 0) [(a, .int 1), (piE, q)]) with
  | none => simp [hx] at h
  | some x =>
    simp only [evalS, evalSTerms] at hx
    obtain ⟨_, r, _, hr, _⟩ := add2_some hx
    obtain ⟨t, _, ht, _, _⟩ := add2_some hr
    obtain ⟨va, _, hva, _, _⟩ := mul2_some ht
    exact ⟨va, hva⟩

theorem fn1_defined {h : String} {a : Expr} {w : K} (hw : evalS M (fn1 h a) = some w) :
    ∃ va, evalS M a = some va := by
  obtain ⟨va, ha, _⟩ := evalS_fn1_inv hw; exact ⟨va, ha⟩

theorem evalS_fn1_val {h : String} {a : Expr} {va : K} (ha : evalS M a = some va) :
    evalS M (fn1 h a) = some (M.app h [va]) := by
  rw [evalS_fn1, ha]; rfl

theorem evalS_mkSq {a : Expr} {va : K} (ha : evalS M a = some va) :
    evalS M (mkSq a) = some (va ^ 2) := by
  simp [mkSq, evalS, intLit?, ha, powVal]

theorem sinRule_sound (hL : TrigLaws M) : RuleSound M sinRule := by
  intro h a r w hr hw
  unfold sinRule at hr
  cases hf : sinForm h with
  | none => simp [hf] at hr
  | some f =>
    simp only [hf, Option.map_some, Option.some.injEq] at hr
    subst hr
    have hmem := lookupForm_mem hf
    simp only [sinTable, List.mem_cons, Prod.mk.injEq, List.not_mem_nil, or_false] at hmem
    rcases hmem with ⟨rfl, rfl⟩ | ⟨rfl, rfl⟩ | ⟨rfl, rfl⟩ | ⟨rfl, rfl⟩ | ⟨rfl, rfl⟩
    · refine rule_close (fun hw => ?_) (fun va ha hw => ?_) hw
      · obtain ⟨x, hx⟩ := fn1_defined hw; exact evalS_shiftPi_inv hx
      · have := evalS_fn1_val (h := "Sin") (evalS_shiftPi hL 1 2 (by decide) ha)
        rw [sShift] at hw; rw [this] at hw
        rw [← Option.some.inj hw, hL.cos_as_sin]; simp
    · refine rule_close (fun hw => ?_) (fun va ha hw => ?_) hw
      · obtain ⟨x, y, hx, _, _, _⟩ := evalS_mkDiv_inv hw
        obtain ⟨_, s, _, hs, _⟩ := evalS_mkMulC_inv hx
        simp only [mkSq, evalS, intLit?] at hs
        obtain ⟨t, ht, _, _⟩ := bind_powVal_some hs
        exact fn1_defined ht
      · have hs := evalS_fn1_val (h := "Sin") ha
        have hs2 := evalS_fn1_val (h := "Sin") (evalS_mkMulC evalS_two ha)
        obtain ⟨e1, e2⟩ := div_close (evalS_mkMulC evalS_two (evalS_mkSq hs)) hs2 hw
        rw [e1, hL.tan_sin _ e2]
    · refine rule_close (fun hw => ?_) (fun va ha hw => ?_) hw
      · obtain ⟨x, y, hx, _, _, _⟩ := evalS_mkDiv_inv hw
        obtain ⟨t, ht⟩ := fn1_defined hx
        obtain ⟨_, va, _, hva, _⟩ := evalS_mkMulC_inv ht
        exact ⟨va, hva⟩
      · have hs := evalS_fn1_val (h := "Sin") ha
        have hs2 := evalS_fn1_val (h := "Sin") (evalS_mkMulC evalS_two ha)
        obtain ⟨e1, e2⟩ := div_close hs2 (evalS_mkMulC evalS_two (evalS_mkSq hs)) hw
        have hne : M.app "Sin" [va] ≠ 0 := by
          intro h0; apply e2; rw [h0]; simp
        rw [e1, hL.cot_sin _ hne]
    · refine rule_close (fun hw => ?_) (fun va ha hw => ?_) hw
      · obtain ⟨x, y, _, hy, _, _⟩ := evalS_mkDiv_inv hw; exact fn1_defined hy
      · rw [(div_close evalS_one (evalS_fn1_val (h := "Sin") ha) hw).1, hL.csc_sin]
    · refine rule_close (fun hw => ?_) (fun va ha hw => ?_) hw
      · obtain ⟨x, y, _, hy, _, _⟩ := evalS_mkDiv_inv hw
        obtain ⟨t, ht⟩ := fn1_defined hy; exact evalS_shiftPi_inv ht
      · have := evalS_fn1_val (h := "Sin") (evalS_shiftPi hL 1 2 (by decide) ha)
        rw [sSec, sShift] at hw
        rw [(div_close evalS_one this hw).1, hL.sec_cos, hL.cos_as_sin]; simp

theorem cosRule_sound (hL : TrigLaws M) : RuleSound M cosRule := by
  intro h a r w hr hw
  unfold cosRule at hr
  cases hf : cosForm h with
  | none => simp [hf] at hr
  | some f =>
    simp only [hf, Option.map_some, Option.some.injEq] at hr
    subst hr
    have hmem := lookupForm_mem hf
    simp only [cosTable, List.mem_cons, Prod.mk.injEq, List.not_mem_nil, or_false] at hmem
    rcases hmem with ⟨rfl, rfl⟩ | ⟨rfl, rfl⟩ | ⟨rfl, rfl⟩ | ⟨rfl, rfl⟩ | ⟨rfl, rfl⟩
    · refine rule_close (fun hw => ?_) (fun va ha hw => ?_) hw
      · obtain ⟨x, hx⟩ := fn1_defined hw; exact evalS_shiftPi_inv hx
      · have := evalS_fn1_val (h := "Cos") (evalS_shiftPi hL (-1) 2 (by decide) ha)
        rw [cShift] at hw; rw [this] at hw
        rw [← Option.some.inj hw, hL.sin_as_cos]; simp
    · refine rule_close (fun hw => ?_) (fun va ha hw => ?_) hw
      · obtain ⟨x, y, _, hy, _, _⟩ := evalS_mkDiv_inv hw; exact fn1_defined hy
      · have hsh := evalS_fn1_val (h := "Cos") (evalS_shiftPi hL (-1) 2 (by decide) ha)
        rw [cTan, cShift] at hw
        rw [(div_close hsh (evalS_fn1_val (h := "Cos") ha) hw).1, hL.tan_cos, hL.sin_as_cos]; simp
    · refine rule_close (fun hw => ?_) (fun va ha hw => ?_) hw
      · obtain ⟨x, y, hx, _, _, _⟩ := evalS_mkDiv_inv hw; exact fn1_defined hx
      · have hsh := evalS_fn1_val (h := "Cos") (evalS_shiftPi hL (-1) 2 (by decide) ha)
        rw [cCot, cShift] at hw
        rw [(div_close (evalS_fn1_val (h := "Cos") ha) hsh hw).1, hL.cot_cos, hL.sin_as_cos]; simp
    · refine rule_close (fun hw => ?_) (fun va ha hw => ?_) hw
      · obtain ⟨x, y, _, hy, _, _⟩ := evalS_mkDiv_inv hw
        obtain ⟨t, ht⟩ := fn1_defined hy; exact evalS_shiftPi_inv ht
      · have hsh := evalS_fn1_val (h := "Cos") (evalS_shiftPi hL (-1) 2 (by decide) ha)
        rw [cCsc, cShift] at hw
        rw [(div_close evalS_one hsh hw).1, hL.csc_sin, hL.sin_as_cos]; simp
    · refine rule_close (fun hw => ?_) (fun va ha hw => ?_) hw
      · obtain ⟨x, y, _, hy, _, _⟩ := evalS_mkDiv_inv hw; exact fn1_defined hy
      · rw [(div_close evalS_one (evalS_fn1_val (h := "Cos") ha) hw).1, hL.sec_cos]

end

end Rewrite
end SymVerif
