import Mathlib.Data.Nat.Prime.Basic
import Mathlib.Tactic.Linarith
import SymVerif.Lemmas.C43Root
/-! C43, `mp_perfect_power_p` of mp_boost.cpp: primes by trial division, the prime-exponent loop, and the
number-theoretic reduction "perfect power ⇔ perfect p-th power for a prime p". -/
namespace SymVerif.C43
open SymVerif

/-! ### trial division -/

theorem trialLoop_spec (n : Nat) : ∀ (fuel d : Nat), 1 ≤ d →
    (MpSpec.trialLoop n fuel d = true ↔ ∀ k, d ≤ k → k < d + fuel → k * k ≤ n → n % k ≠ 0) := by
  intro fuel
  induction fuel with
  | zero => intro d _; simp [MpSpec.trialLoop]; intro k h1 h2; omega
  | succ f ih =>
    intro d hd
    unfold MpSpec.trialLoop
    by_cases h1 : d * d > n
    · simp only [h1, if_true, true_iff]
      intro k hk _ hkk
      have : d * d ≤ k * k := Nat.mul_le_mul hk hk
      omega
    · simp only [h1, if_false]
      by_cases h2 : n % d = 0
      · simp only [h2, beq_self_eq_true, if_true, Bool.false_eq_true, false_iff]
        intro h
        exact h d (Nat.le_refl d) (by omega) (by omega) h2
      · have : (n % d == 0) = false := by simp [h2]
        simp only [this, Bool.false_eq_true, if_false]
        rw [ih (d + 1) (by omega)]
        constructor
        · intro h k hk1 hk2 hk3
          rcases Nat.eq_or_lt_of_le hk1 with e | e
          · subst e; exact h2
          · exact h k (by omega) (by omega) hk3
        · intro h k hk1 hk2 hk3
          exact h k (by omega) (by omega) hk3

theorem trialPrime_iff (n : Nat) : MpSpec.trialPrime n = true ↔ Nat.Prime n := by
  unfold MpSpec.trialPrime
  rw [Nat.prime_def_le_sqrt]
  simp only [Bool.and_eq_true, decide_eq_true_eq, ge_iff_le]
  rw [trialLoop_spec n n 2 (by omega)]
  constructor
  · rintro ⟨h2, h⟩
    refine ⟨h2, fun m hm hs hd => ?_⟩
    have hmm : m * m ≤ n := Nat.le_sqrt.mp hs
    have hlt : m < 2 + n := by nlinarith
    exact h m hm hlt hmm (Nat.mod_eq_zero_of_dvd hd)
  · rintro ⟨h2, h⟩
    refine ⟨h2, fun k hk1 _ hk3 hmod => ?_⟩
    exact h k hk1 (Nat.le_sqrt.mpr hk3) (Nat.dvd_of_mod_eq_zero hmod)


/-! ### `mp_probab_prime_p` / `mp_nextprime` on small arguments (where `isPrime` is trial division) -/

theorem probabPrime_iff (c : Int) (h0 : 0 ≤ c) (hlt : c < 1000000) :
    MpBoost.probabPrime c = true ↔ Nat.Prime c.toNat := by
  unfold MpBoost.probabPrime
  have hn : ((c.natAbs : Nat) : Int) = c := by omega
  simp only [hn]
  by_cases hev : c.tmod 2 = 0
  · simp only [hev, if_true, beq_iff_eq]
    constructor
    · intro h; subst h; decide
    · intro hp
      rcases hp.eq_two_or_odd with h | h
      · omega
      · have : c.tmod 2 = c % 2 := Int.tmod_eq_emod_of_nonneg h0
        omega
  · simp only [hev, if_false]
    unfold MpBoost.millerRabin
    by_cases h2 : c < 2
    · simp only [h2, if_true, Bool.false_eq_true, false_iff]
      intro hp
      have := hp.two_le
      omega
    · simp only [h2, if_false]
      unfold MpSpec.isPrime
      have : c.toNat < 1000000 := by omega
      simp only [this, if_true]
      exact trialPrime_iff _

theorem isPrime_even (n : Nat) (hev : n % 2 = 0) : MpSpec.isPrime n = (n == 2) := by
  unfold MpSpec.isPrime
  by_cases hlt : n < 1000000
  · rw [if_pos hlt]
    by_cases h2 : n = 2
    · subst h2; decide
    · have : (n == 2) = false := by simp [h2]
      rw [this]
      rw [Bool.eq_false_iff]
      intro h
      have hp := (trialPrime_iff n).mp h
      rcases hp.eq_two_or_odd with h' | h' <;> omega
  · rw [if_neg hlt]
    have : (MpSpec.mrBases.any fun p => n % p == 0) = true := by
      simp only [MpSpec.mrBases, List.any_cons, hev, beq_self_eq_true, Bool.true_or]
    rw [if_pos this]
    have : (n == 2) = false := by
      have : n ≠ 2 := by omega
      simp [this]
    rw [this]

/-- **`mp_probab_prime_p` (with the sign repair) = specification** (both reduce to the same primality test
of `|i|`; the even case `i % 2 == 0 → i == 2` is the only symengine-specific logic) -/
theorem boost_probabPrime_spec (i : Int) : MpBoost.probabPrime i = MpSpec.probabPrime i := by
  unfold MpBoost.probabPrime MpSpec.probabPrime
  simp only
  have hnn : (0 : Int) ≤ (i.natAbs : Int) := by omega
  have ht : ((i.natAbs : Nat) : Int).tmod 2 = ((i.natAbs : Nat) : Int) % 2 := Int.tmod_eq_emod_of_nonneg hnn
  by_cases hev : i.natAbs % 2 = 0
  · have : ((i.natAbs : Nat) : Int).tmod 2 = 0 := by omega
    rw [if_pos this, isPrime_even _ hev]
    by_cases h2 : i.natAbs = 2
    · simp [h2]
    · have h2' : ¬ ((i.natAbs : Nat) : Int) = 2 := by omega
      have e1 : (((i.natAbs : Nat) : Int) == 2) = false := by
        rw [beq_eq_false_iff_ne]; exact h2'
      have e2 : (i.natAbs == 2) = false := by
        rw [beq_eq_false_iff_ne]; exact h2
      rw [e1, e2]
  · have : ¬ ((i.natAbs : Nat) : Int).tmod 2 = 0 := by omega
    rw [if_neg this]
    unfold MpBoost.millerRabin
    by_cases hlt : ((i.natAbs : Nat) : Int) < 2
    · rw [if_pos hlt]
      have h1 : i.natAbs = 1 := by omega
      rw [h1]; decide
    · rw [if_neg hlt, Int.toNat_natCast]

/-- the candidates skipped by the `while (!mp_probab_prime_p(candidate, 25)) candidate += 2` loop are not
prime (stated for candidates below 10^6, where the model's primality test is trial division) -/
theorem nextPrimeLoop_skip : ∀ (fuel : Nat) (c : Int), 3 ≤ c → c % 2 = 1 →
    c ≤ MpBoost.nextPrimeLoop fuel c ∧ (MpBoost.nextPrimeLoop fuel c) % 2 = 1 ∧
    ∀ r : Nat, c ≤ (r : Int) → (r : Int) < MpBoost.nextPrimeLoop fuel c → r < 1000000 → ¬ Nat.Prime r := by
  intro fuel
  induction fuel with
  | zero =>
    intro c _ hodd
    simp only [MpBoost.nextPrimeLoop]
    exact ⟨Int.le_refl c, hodd, fun r h1 h2 => by omega⟩
  | succ f ih =>
    intro c hc hodd
    unfold MpBoost.nextPrimeLoop
    by_cases hp : MpBoost.probabPrime c = true
    · simp only [hp, if_true]
      exact ⟨Int.le_refl c, hodd, fun r h1 h2 => by omega⟩
    · simp only [hp, if_false]
      obtain ⟨i1, i2, i3⟩ := ih (c + 2) (by omega) (by omega)
      refine ⟨by omega, i2, fun r h1 h2 h3 => ?_⟩
      by_cases e1 : (r : Int) = c
      · -- the tested candidate
        intro hpr
        have : MpBoost.probabPrime c = true := by
          rw [probabPrime_iff c (by omega) (by omega)]
          have : c.toNat = r := by omega
          rw [this]; exact hpr
        exact hp this
      · by_cases e2 : (r : Int) = c + 1
        · -- an even number ≥ 4
          intro hpr
          rcases hpr.eq_two_or_odd with h | h <;> omega
        · exact i3 r (by omega) h2 h3

theorem nextPrime_skip (p : Int) (hp : 2 ≤ p) :
    p < MpBoost.nextPrime p ∧ (MpBoost.nextPrime p) % 2 = 1 ∧
    ∀ r : Nat, p < (r : Int) → (r : Int) < MpBoost.nextPrime p → r < 1000000 → ¬ Nat.Prime r := by
  unfold MpBoost.nextPrime
  have : ¬ p < 2 := by omega
  simp only [this, if_false]
  have ht : p.tmod 2 = p % 2 := Int.tmod_eq_emod_of_nonneg (by omega)
  by_cases hev : p.tmod 2 = 0
  · simp only [hev, if_true]
    obtain ⟨i1, i2, i3⟩ := nextPrimeLoop_skip (p.toNat + 2) (p + 1) (by omega) (by omega)
    exact ⟨by omega, i2, fun r h1 h2 h3 => i3 r (by omega) h2 h3⟩
  · simp only [hev, if_false]
    obtain ⟨i1, i2, i3⟩ := nextPrimeLoop_skip (p.toNat + 2) (p + 2) (by omega) (by omega)
    refine ⟨by omega, i2, fun r h1 h2 h3 => ?_⟩
    by_cases e : (r : Int) = p + 1
    · intro hpr
      rcases hpr.eq_two_or_odd with h | h <;> omega
    · exact i3 r (by omega) h2 h3


/-! ### perfect `k`-th powers -/

/-- `x` is a perfect `k`-th power -/
def IsPow (x k : Nat) : Prop := ∃ a : Nat, a ^ k = x

theorem iroot_exact_iff (x k : Nat) (hk : 1 ≤ k) : (MpSpec.iroot x k) ^ k = x ↔ IsPow x k := by
  constructor
  · intro h; exact ⟨_, h⟩
  · rintro ⟨a, ha⟩
    have h1 : IsRoot k x a := ⟨by omega, by
      rw [← ha]; exact Nat.pow_lt_pow_left (by omega) (by omega)⟩
    rw [← isRoot_unique hk h1 (iroot_spec x k hk)]
    exact ha

/-- the exactness flag of `mp_root` (for a defined root of a non-zero number) says "perfect power" -/
theorem root_flag (i : Int) (k : Nat) (hk : 1 ≤ k) (hok : 0 < i ∨ k % 2 = 1) :
    ∃ r b, MpBoost.root i k = some (r, b) ∧ (b = true ↔ IsPow i.natAbs k) := by
  rw [boost_root_spec]
  unfold MpSpec.root
  have h0 : k ≠ 0 := by omega
  have h1 : ¬ (i < 0 ∧ k % 2 = 0) := by omega
  simp only [h0, h1, if_false]
  refine ⟨_, _, rfl, ?_⟩
  simp only [beq_iff_eq]
  rw [← iroot_exact_iff i.natAbs k hk]
  rcases Int.lt_trichotomy i 0 with hneg | hz | hpos
  · have hodd : k % 2 = 1 := by omega
    have hs : i.sign = -1 := Int.sign_eq_neg_one_of_neg hneg
    have hpow : ∀ r : Int, (-1 * r) ^ k = -(r ^ k) := by
      intro r
      have : (-1 * r) = -r := by ring
      rw [this]
      exact Odd.neg_pow (Nat.odd_iff.mpr hodd) r
    rw [hs, hpow]
    have hi : (i.natAbs : Int) = -i := by omega
    constructor
    · intro h
      have : ((MpSpec.iroot i.natAbs k : Nat) : Int) ^ k = (i.natAbs : Int) := by omega
      exact_mod_cast this
    · intro h
      have : ((MpSpec.iroot i.natAbs k : Nat) : Int) ^ k = (i.natAbs : Int) := by exact_mod_cast h
      omega
  · subst hz
    have : MpSpec.iroot 0 k = 0 := iroot_zero k hk
    simp [this, h0]
  · have hs : i.sign = 1 := Int.sign_eq_one_of_pos hpos
    rw [hs, Int.one_mul]
    have hi : (i.natAbs : Int) = i := by omega
    constructor
    · intro h
      have : ((MpSpec.iroot i.natAbs k : Nat) : Int) ^ k = (i.natAbs : Int) := by rw [hi]; exact h
      exact_mod_cast this
    · intro h
      rw [← hi]; exact_mod_cast h


/-- the prime-exponent loop of `mp_perfect_power_p`: with enough fuel it returns an answer; `true` only
with an exact odd root, `false` only if no prime exponent in `(p, max]` gives an exact root -/
theorem perfectPowerLoop_spec (i : Int) (max : Nat) (hmax : max < 1000000) :
    ∀ (fuel : Nat) (p : Int), 2 ≤ p → p ≤ (max : Int) + 1 → (max : Int) + 2 - p ≤ (fuel : Int) →
    ∃ b, MpBoost.perfectPowerLoop i max fuel p = some b ∧
      (b = true → ∃ e : Nat, 2 ≤ e ∧ e % 2 = 1 ∧ IsPow i.natAbs e) ∧
      (b = false → ∀ q : Nat, Nat.Prime q → p < (q : Int) → q ≤ max → ¬ IsPow i.natAbs q) := by
  intro fuel
  induction fuel with
  | zero => intro p h1 h2 h3; omega
  | succ f ih =>
    intro p hp2 hpm hf
    obtain ⟨s1, s2, s3⟩ := nextPrime_skip p hp2
    unfold MpBoost.perfectPowerLoop
    simp only
    by_cases hgt : MpBoost.nextPrime p > (max : Int)
    · simp only [hgt, if_true]
      refine ⟨false, rfl, by simp, fun _ q hq h1 h2 => ?_⟩
      exact absurd hq (s3 q h1 (by omega) (by omega))
    · simp only [hgt, if_false]
      have hp'0 : 0 ≤ MpBoost.nextPrime p := by omega
      have hodd : (MpBoost.nextPrime p).toNat % 2 = 1 := by omega
      obtain ⟨r, b, hr, hb⟩ := root_flag i (MpBoost.nextPrime p).toNat (by omega) (Or.inr hodd)
      rw [hr]
      simp only
      cases b with
      | true =>
        simp only [if_true]
        exact ⟨true, rfl, fun _ => ⟨_, by omega, hodd, hb.mp rfl⟩, by simp⟩
      | false =>
        simp only [Bool.false_eq_true, if_false]
        obtain ⟨b', e1, e2, e3⟩ := ih (MpBoost.nextPrime p) (by omega) (by omega) (by omega)
        refine ⟨b', e1, e2, fun hb' q hq h1 h2 => ?_⟩
        rcases Int.lt_trichotomy (q : Int) (MpBoost.nextPrime p) with hlt | heq | hgt'
        · exact absurd hq (s3 q h1 hlt (by omega))
        · have : (MpBoost.nextPrime p).toNat = q := by omega
          rw [← this]
          intro hpow
          have := hb.mpr hpow
          simp at this
        · exact e3 hb' q hq hgt' h2

/-- meaning of the specification's `perfectPower` for `|i| ≥ 2` -/
theorem spec_perfectPower_iff (i : Int) (hx : 2 ≤ i.natAbs) :
    MpSpec.perfectPower i = true ↔ ∃ k : Nat, 2 ≤ k ∧ (0 < i ∨ k % 2 = 1) ∧ IsPow i.natAbs k := by
  unfold MpSpec.perfectPower
  have : ¬ i.natAbs ≤ 1 := by omega
  simp only [this, if_false, List.any_eq_true, List.mem_range, Bool.and_eq_true, Bool.or_eq_true,
    decide_eq_true_eq, beq_iff_eq, ge_iff_le]
  constructor
  · rintro ⟨k, _, ⟨hk2, hs⟩, he⟩
    exact ⟨k, hk2, hs, (iroot_exact_iff _ k (by omega)).mp he⟩
  · rintro ⟨k, hk2, hs, hp⟩
    refine ⟨k, ?_, ⟨hk2, hs⟩, (iroot_exact_iff _ k (by omega)).mpr hp⟩
    obtain ⟨a, ha⟩ := hp
    have ha2 : 2 ≤ a := by
      by_contra hc
      have : a = 0 ∨ a = 1 := by omega
      rcases this with h | h
      · subst h
        have : (0 : Nat) ^ k = 0 := Nat.zero_pow (by omega)
        omega
      · subst h; simp at ha; omega
    have : 2 ^ k ≤ i.natAbs := by rw [← ha]; exact Nat.pow_le_pow_left ha2 k
    have := (Nat.le_log2 (by omega)).mpr this
    omega

theorem isPow_of_dvd {x k p : Nat} (h : IsPow x k) (hd : p ∣ k) : IsPow x p := by
  obtain ⟨a, ha⟩ := h
  obtain ⟨m, rfl⟩ := hd
  exact ⟨a ^ m, by rw [← ha, ← Nat.pow_mul, Nat.mul_comm]⟩

theorem isPow_exp_le_log2 {x k : Nat} (hx : 2 ≤ x) (h : IsPow x k) : k ≤ x.log2 := by
  obtain ⟨a, ha⟩ := h
  by_cases hk : k = 0
  · omega
  have ha2 : 2 ≤ a := by
    by_contra hc
    have : a = 0 ∨ a = 1 := by omega
    rcases this with h | h
    · subst h
      have : (0 : Nat) ^ k = 0 := Nat.zero_pow (by omega)
      omega
    · subst h; simp at ha; omega
  have : 2 ^ k ≤ x := by rw [← ha]; exact Nat.pow_le_pow_left ha2 k
  exact (Nat.le_log2 (by omega)).mpr this

/-- **`mp_perfect_power_p` (mp_boost.cpp, repaired bound) = specification**, for every integer whose
bit length is below 10^6 (the range in which the model's primality test for the *exponents* is plain
trial division). -/
theorem boost_perfectPower_spec (i : Int) (hbits : i.natAbs.log2 < 1000000) :
    MpBoost.perfectPower i = some (MpSpec.perfectPower i) := by
  by_cases hsmall : i.natAbs ≤ 1
  · have h3 : i = 0 ∨ i = 1 ∨ i = -1 := by omega
    unfold MpBoost.perfectPower MpSpec.perfectPower
    simp [h3, hsmall]
  · have hx : 2 ≤ i.natAbs := by omega
    have h3 : ¬ (i = 0 ∨ i = 1 ∨ i = -1) := by omega
    have hsq : MpBoost.perfectSquare i = true ↔ (0 < i ∧ IsPow i.natAbs 2) := by
      rw [boost_perfectSquare_spec]
      unfold MpSpec.perfectSquare
      simp only [Bool.and_eq_true, decide_eq_true_eq, beq_iff_eq, ge_iff_le]
      constructor
      · rintro ⟨h0, h⟩
        have : i.toNat = i.natAbs := by omega
        rw [this] at h
        exact ⟨by omega, (iroot_exact_iff _ 2 (by omega)).mp h⟩
      · rintro ⟨h0, h⟩
        have : i.toNat = i.natAbs := by omega
        rw [this]
        exact ⟨by omega, (iroot_exact_iff _ 2 (by omega)).mpr h⟩
    have hspec := spec_perfectPower_iff i hx
    unfold MpBoost.perfectPower
    simp only [h3, if_false]
    by_cases hs : MpBoost.perfectSquare i = true
    · simp only [hs, if_true]
      congr 1
      symm
      rw [hspec]
      obtain ⟨h0, h⟩ := hsq.mp hs
      exact ⟨2, by omega, Or.inl h0, h⟩
    · have hsf : MpBoost.perfectSquare i = false := by simpa using hs
      simp only [hsf, Bool.false_eq_true, if_false]
      have hl1 : 1 ≤ i.natAbs.log2 := (Nat.le_log2 (by omega)).mpr (by omega)
      obtain ⟨b, e1, e2, e3⟩ := perfectPowerLoop_spec i i.natAbs.log2 hbits (i.natAbs.log2 + 2) 2
        (by omega) (by omega) (by omega)
      rw [e1]
      congr 1
      cases b with
      | true =>
        symm
        rw [hspec]
        obtain ⟨e, h2, hodd, hp⟩ := e2 rfl
        exact ⟨e, h2, Or.inr hodd, hp⟩
      | false =>
        symm
        rw [Bool.eq_false_iff]
        intro hc
        obtain ⟨k, hk2, hsgn, hp⟩ := hspec.mp hc
        -- a prime divisor of the exponent
        have hk1 : k ≠ 1 := by omega
        have hpr := Nat.minFac_prime hk1
        have hdv := Nat.minFac_dvd k
        have hpp := isPow_of_dvd hp hdv
        rcases hpr.eq_two_or_odd with h2 | hodd
        · -- even exponent: then i > 0 and i is a perfect square
          rw [h2] at hpp hdv
          have hi : 0 < i := by
            rcases hsgn with h | h
            · exact h
            · omega
          exact hs (hsq.mpr ⟨hi, hpp⟩)
        · have hq2 : (2 : Int) < ((Nat.minFac k : Nat) : Int) := by
            have := hpr.two_le
            omega
          exact e3 rfl (Nat.minFac k) hpr hq2 (isPow_exp_le_log2 hx hpp) hpp

end SymVerif.C43
