import SymVerif.Model.FiniteDiff
import SymVerif.Lemmas.C38Math
import Mathlib.Tactic.Ring
import Mathlib.Tactic.Linarith
/-!
Loop invariants for the model of `generate_fdiff_weights_vector` (C38).
`Mat w len M f` : the flat vector `w` has `len*(M+1)` entries and entry `j + k*len` is `f j k`.
-/
namespace SymVerif.C38
open SymVerif.FiniteDiff

/-- read with default (only used below the size) -/
def rd (w : Array ℚ) (p : ℕ) : ℚ := w.getD p 0

theorem idx_lt {len M j k : ℕ} (hj : j < len) (hk : k ≤ M) : j + k * len < len * (M + 1) := by
  have : k * len ≤ M * len := Nat.mul_le_mul_right _ hk
  rw [Nat.mul_succ, Nat.mul_comm len M]; omega

theorem idx_inj {len j k j' k' : ℕ} (hj : j < len) (hj' : j' < len)
    (h : j + k * len = j' + k' * len) : j = j' ∧ k = k' := by
  have hlen : 0 < len := by omega
  have h1 : (j + k * len) % len = j := by rw [Nat.add_mul_mod_self_right, Nat.mod_eq_of_lt hj]
  have h2 : (j' + k' * len) % len = j' := by rw [Nat.add_mul_mod_self_right, Nat.mod_eq_of_lt hj']
  have h3 : (j + k * len) / len = k := by
    rw [Nat.add_mul_div_right _ _ hlen, Nat.div_eq_of_lt hj, Nat.zero_add]
  have h4 : (j' + k' * len) / len = k' := by
    rw [Nat.add_mul_div_right _ _ hlen, Nat.div_eq_of_lt hj', Nat.zero_add]
  rw [h] at h1 h3
  exact ⟨h1.symm.trans h2, h3.symm.trans h4⟩

theorem getW_ok {w : Array ℚ} {p : ℕ} (h : p < w.size) : getW w p = .ok (rd w p) := by
  simp [getW, rd, h]

theorem setW_ok {w : Array ℚ} {p : ℕ} (v : ℚ) (h : p < w.size) : setW w p v = .ok (w.set p v h) := by
  simp [setW, h]

theorem rd_set {w : Array ℚ} {p : ℕ} (v : ℚ) (h : p < w.size) (p' : ℕ) :
    rd (w.set p v h) p' = if p = p' then v else rd w p' := by
  unfold rd
  by_cases hp : p = p'
  · subst hp; simp [h]
  · simp only [hp, if_false]
    by_cases h' : p' < w.size
    · simp [Array.getD, h', hp]
    · simp [Array.getD, h']

def Mat (w : Array ℚ) (len M : ℕ) (f : ℕ → ℕ → ℚ) : Prop :=
  w.size = len * (M + 1) ∧ ∀ j < len, ∀ k ≤ M, rd w (j + k * len) = f j k

theorem Mat.congr {w : Array ℚ} {len M : ℕ} {f g : ℕ → ℕ → ℚ} (h : Mat w len M f)
    (hfg : ∀ j < len, ∀ k ≤ M, f j k = g j k) : Mat w len M g :=
  ⟨h.1, fun j hj k hk => (h.2 j hj k hk).trans (hfg j hj k hk)⟩

theorem Mat.get {w : Array ℚ} {len M : ℕ} {f : ℕ → ℕ → ℚ} (h : Mat w len M f) {j k : ℕ}
    (hj : j < len) (hk : k ≤ M) : getW w (j + k * len) = .ok (f j k) := by
  rw [getW_ok (by rw [h.1]; exact idx_lt hj hk), h.2 j hj k hk]

theorem Mat.get0 {w : Array ℚ} {len M : ℕ} {f : ℕ → ℕ → ℚ} (h : Mat w len M f) {j : ℕ}
    (hj : j < len) : getW w j = .ok (f j 0) := by
  simpa using h.get hj (Nat.zero_le M)

theorem Mat.set {w : Array ℚ} {len M : ℕ} {f : ℕ → ℕ → ℚ} (h : Mat w len M f) {j k : ℕ}
    (hj : j < len) (hk : k ≤ M) (v : ℚ) :
    ∃ w', setW w (j + k * len) v = .ok w' ∧
      Mat w' len M (fun j' k' => if j' = j ∧ k' = k then v else f j' k') := by
  have hlt : j + k * len < w.size := by rw [h.1]; exact idx_lt hj hk
  refine ⟨_, setW_ok v hlt, ?_, ?_⟩
  · simpa using h.1
  · intro j' hj' k' hk'
    rw [rd_set]
    by_cases hc : j' = j ∧ k' = k
    · obtain ⟨rfl, rfl⟩ := hc; simp
    · have : ¬ (j + k * len = j' + k' * len) := by
        intro he
        obtain ⟨h1, h2⟩ := idx_inj hj hj' he
        exact hc ⟨h1.symm, h2.symm⟩
      simp only [this, if_false, hc]
      exact h.2 j' hj' k' hk'

theorem Mat.set0 {w : Array ℚ} {len M : ℕ} {f : ℕ → ℕ → ℚ} (h : Mat w len M f) {j : ℕ}
    (hj : j < len) (v : ℚ) :
    ∃ w', setW w j v = .ok w' ∧
      Mat w' len M (fun j' k' => if j' = j ∧ k' = 0 then v else f j' k') := by
  simpa using h.set hj (Nat.zero_le M) v

theorem qdiv_ok (a : ℚ) {b : ℚ} (h : b ≠ 0) : qdiv a b = .ok (a / b) := by
  simp [qdiv, h]

/-- effect of the `k` loop over an old column `j` -/
theorem oldLoop_spec (len M j : ℕ) (c3 c4 : ℚ) (hj : j < len) (hc3 : c3 ≠ 0) :
    ∀ (K : ℕ) (w : Array ℚ) (f : ℕ → ℕ → ℚ), K ≤ M → Mat w len M f →
    ∃ w', oldLoop len j c3 c4 K w = .ok w' ∧
      Mat w' len M (fun j' k => if j' = j ∧ 1 ≤ k ∧ k ≤ K
        then (c4 * f j k - (k : ℚ) * f j (k - 1)) / c3 else f j' k) := by
  intro K
  induction K with
  | zero =>
    intro w f _ h
    refine ⟨w, rfl, h.congr ?_⟩
    intro j' _ k _
    have : ¬ (j' = j ∧ 1 ≤ k ∧ k ≤ 0) := by omega
    rw [if_neg this]
  | succ K ih =>
    intro w f hK h
    obtain ⟨w1, hw1, hm1⟩ := h.set hj hK ((c4 * f j (K + 1) - ((K + 1 : ℕ) : ℚ) * f j K) / c3)
    obtain ⟨w', hw', hm'⟩ := ih w1 _ (by omega) hm1
    refine ⟨w', ?_, hm'.congr ?_⟩
    · simp only [oldLoop, h.get hj hK, h.get hj (show K ≤ M by omega), qdiv_ok _ hc3, hw1, hw',
        bind, Except.bind]
    · intro j' _ k _
      by_cases hjj : j' = j
      · subst hjj
        by_cases hk1 : k = K + 1
        · subst hk1
          have : ¬ (K + 1 ≤ K) := by omega
          simp [this]
        · by_cases hk2 : 1 ≤ k ∧ k ≤ K
          · have h3 : 1 ≤ k ∧ k ≤ K + 1 := by omega
            have h4 : ¬ (k - 1 = K + 1) := by omega
            simp [hk2, hk1, h3, h4]
          · have h3 : ¬ (1 ≤ k ∧ k ≤ K + 1) := by omega
            simp [hk2, hk1, h3]
      · simp [hjj]

/-- effect of the `k` loop writing the new column `i` from column `i-1` -/
theorem newLoop_spec (len M i : ℕ) (c1 c2 c5 : ℚ) (hi : i + 1 < len) (hc2 : c2 ≠ 0) :
    ∀ (K : ℕ) (w : Array ℚ) (f : ℕ → ℕ → ℚ), K ≤ M → Mat w len M f →
    ∃ w', newLoop len (i + 1) c1 c2 c5 K w = .ok w' ∧
      Mat w' len M (fun j' k => if j' = i + 1 ∧ 1 ≤ k ∧ k ≤ K
        then c1 * ((k : ℚ) * f i (k - 1) - c5 * f i k) / c2 else f j' k) := by
  intro K
  induction K with
  | zero =>
    intro w f _ h
    refine ⟨w, rfl, h.congr ?_⟩
    intro j' _ k _
    have : ¬ (j' = i + 1 ∧ 1 ≤ k ∧ k ≤ 0) := by omega
    rw [if_neg this]
  | succ K ih =>
    intro w f hK h
    obtain ⟨w1, hw1, hm1⟩ := h.set hi hK (c1 * (((K + 1 : ℕ) : ℚ) * f i K - c5 * f i (K + 1)) / c2)
    obtain ⟨w', hw', hm'⟩ := ih w1 _ (by omega) hm1
    have hi' : i < len := by omega
    refine ⟨w', ?_, hm'.congr ?_⟩
    · simp only [newLoop, Nat.add_sub_cancel, h.get hi' hK, h.get hi' (show K ≤ M by omega),
        qdiv_ok _ hc2, hw1, hw', bind, Except.bind]
    · intro j' _ k _
      have hii : ¬ (i = i + 1) := by omega
      by_cases hjj : j' = i + 1
      · subst hjj
        by_cases hk1 : k = K + 1
        · subst hk1
          have : ¬ (K + 1 ≤ K) := by omega
          simp [this]
        · by_cases hk2 : 1 ≤ k ∧ k ≤ K
          · have h3 : 1 ≤ k ∧ k ≤ K + 1 := by omega
            simp [hk2, hk1, h3]
          · have h3 : ¬ (1 ≤ k ∧ k ≤ K + 1) := by omega
            simp [hk2, hk1, h3]
      · simp [hjj]


theorem getG_ok {g : Array ℚ} {p : ℕ} (h : p < g.size) : getG g p = .ok (rd g p) := by
  simp [getG, rd, h]

section stage
variable (x : ℕ → ℚ) (z : ℚ) (len M i : ℕ)

/-- contents while stage `i+1` runs, before iteration `j` of the `j` loop -/
noncomputable def G (j j' k : ℕ) : ℚ :=
  if j' < j then dv x z (i + 1) j' k else if j' ≤ i then dv x z i j' k
  else if j' = i + 1 ∧ j = i + 1 then dv x z (i + 1) (i + 1) k else 0

/-- the same after the `if (j == i-1)` block of iteration `j` -/
noncomputable def H (j j' k : ℕ) : ℚ :=
  if j' < j then dv x z (i + 1) j' k else if j' ≤ i then dv x z i j' k
  else if j' = i + 1 ∧ j = i then dv x z (i + 1) (i + 1) k else 0

/-- contents after stage `i` -/
noncomputable def S (i j' k : ℕ) : ℚ := if j' ≤ i then dv x z i j' k else 0

def mnOf (i M : ℕ) : ℕ := if i < M then i else M

theorem mnOf_le (i M : ℕ) : mnOf i M ≤ M := by unfold mnOf; split <;> omega
theorem mnOf_le' (i M : ℕ) : mnOf i M ≤ i := by unfold mnOf; split <;> omega
theorem lt_of_mnOf_lt {i M k : ℕ} (hk : k ≤ M) (h : ¬ k ≤ mnOf i M) : i < k := by
  unfold mnOf at h; split at h <;> omega

variable (hinj : Set.InjOn x (Finset.range len))
include hinj

theorem x_ne {a b : ℕ} (ha : a < len) (hb : b < len) (hab : a ≠ b) : x a ≠ x b := by
  intro h
  exact hab (hinj (by simpa using ha) (by simpa using hb) h)

theorem injOn_sub {n : ℕ} (hn : n ≤ len) : Set.InjOn x (Finset.range n) :=
  hinj.mono (by intro a ha; simp at ha ⊢; omega)

variable (hi : i + 1 < len)
include hi

theorem newBlock_spec (w : Array ℚ) (hm : Mat w len M (G x z i i)) :
    ∃ w', newBlock len (i + 1) (mnOf (i + 1) M) (cprod x i i) (cprod x (i + 1) (i + 1)) (x i - z) w
        = .ok w' ∧ Mat w' len M (H x z i i) := by
  have hc1 : cprod x i i ≠ 0 :=
    cprod_ne_zero x fun m hm' => x_ne x len hinj (by omega) (by omega) (by omega)
  have hc2 : cprod x (i + 1) (i + 1) ≠ 0 :=
    cprod_ne_zero x fun m hm' => x_ne x len hinj (by omega) (by omega) (by omega)
  obtain ⟨w1, hw1, hm1⟩ := newLoop_spec len M i (cprod x i i) (cprod x (i + 1) (i + 1)) (x i - z) hi hc2
    (mnOf (i + 1) M) w _ (mnOf_le _ _) hm
  have hi' : i < len := by omega
  have hg := hm1.get0 hi'
  obtain ⟨w2, hw2, hm2⟩ := hm1.set0 hi
    (-1 * (cprod x i i * ((x i - z) * G x z i i i 0) / cprod x (i + 1) (i + 1)))
  refine ⟨w2, ?_, hm2.congr ?_⟩
  · have hii : ¬ (i = i + 1) := by omega
    simp only [hii, false_and, if_false] at hg
    simp only [newBlock, hw1, Nat.add_sub_cancel, hg, qdiv_ok _ hc2, hw2, bind, Except.bind]
  · intro j' hj' k hk
    have hGi : ∀ k, G x z i i i k = dv x z i i k := by
      intro k; simp [G]
    by_cases hj1 : j' = i + 1
    · subst hj1
      have hH : H x z i i (i + 1) k = dv x z (i + 1) (i + 1) k := by
        have h1 : ¬ (i + 1 < i) := by omega
        have h2 : ¬ (i + 1 ≤ i) := by omega
        simp [H, h1, h2]
      rw [hH]
      by_cases hk0 : k = 0
      · subst hk0
        simp only [true_and, if_true, hGi]
        rw [dv_new_zero x z i hc1]
      · have hk0' : ¬ (i + 1 = i + 1 ∧ k = 0) := by omega
        rw [if_neg hk0']
        by_cases hkm : k ≤ mnOf (i + 1) M
        · have h3 : i + 1 = i + 1 ∧ 1 ≤ k ∧ k ≤ mnOf (i + 1) M := by omega
          rw [if_pos h3, hGi, hGi]
          obtain ⟨k', rfl⟩ : ∃ k', k = k' + 1 := ⟨k - 1, by omega⟩
          rw [dv_new_succ x z i k' hc1]
          simp
        · have h3 : ¬ (i + 1 = i + 1 ∧ 1 ≤ k ∧ k ≤ mnOf (i + 1) M) := by omega
          rw [if_neg h3]
          have hlt := lt_of_mnOf_lt hk hkm
          rw [dv_eq_zero_of_lt x z (injOn_sub x len hinj (by omega)) (le_refl _) hlt]
          have h1 : ¬ (i + 1 < i) := by omega
          have h2 : ¬ (i + 1 ≤ i) := by omega
          have h4 : ¬ (i + 1 = i + 1 ∧ i = i + 1) := by omega
          simp [G, h1, h2]
    · have h0 : ¬ (j' = i + 1 ∧ k = 0) := by omega
      have h3 : ¬ (j' = i + 1 ∧ 1 ≤ k ∧ k ≤ mnOf (i + 1) M) := by omega
      rw [if_neg h0, if_neg h3]
      simp [G, H, hj1]

theorem oldCol_spec (j : ℕ) (hj : j ≤ i) (w : Array ℚ) (hm : Mat w len M (H x z i j)) :
    ∃ w', oldCol len j (mnOf (i + 1) M) (x (i + 1) - x j) (x (i + 1) - z) w = .ok w' ∧
      Mat w' len M (G x z i (j + 1)) := by
  have hne : x (i + 1) ≠ x j := x_ne x len hinj (by omega) (by omega) (by omega)
  have hc3 : x (i + 1) - x j ≠ 0 := sub_ne_zero.mpr hne
  have hjl : j < len := by omega
  obtain ⟨w1, hw1, hm1⟩ := oldLoop_spec len M j (x (i + 1) - x j) (x (i + 1) - z) hjl hc3
    (mnOf (i + 1) M) w _ (mnOf_le _ _) hm
  have hg := hm1.get0 hjl
  have hHj : ∀ k, H x z i j j k = dv x z i j k := by
    intro k
    have h1 : ¬ (j < j) := by omega
    simp [H, hj]
  obtain ⟨w2, hw2, hm2⟩ := hm1.set0 hjl ((x (i + 1) - z) * H x z i j j 0 / (x (i + 1) - x j))
  refine ⟨w2, ?_, hm2.congr ?_⟩
  · have h0 : ¬ (j = j ∧ 1 ≤ 0 ∧ 0 ≤ mnOf (i + 1) M) := by omega
    rw [if_neg h0] at hg
    simp only [oldCol, hw1, hg, qdiv_ok _ hc3, hw2, bind, Except.bind]
  · intro j' hj' k hk
    by_cases hjj : j' = j
    · subst hjj
      have hG : G x z i (j' + 1) j' k = dv x z (i + 1) j' k := by
        simp [G]
      rw [hG]
      by_cases hk0 : k = 0
      · subst hk0
        simp only [true_and, if_true, hHj]
        rw [dv_old_zero x z hj hne]
      · have hk0' : ¬ (j' = j' ∧ k = 0) := by omega
        rw [if_neg hk0']
        by_cases hkm : k ≤ mnOf (i + 1) M
        · have h3 : j' = j' ∧ 1 ≤ k ∧ k ≤ mnOf (i + 1) M := by omega
          rw [if_pos h3, hHj, hHj]
          obtain ⟨k', rfl⟩ : ∃ k', k = k' + 1 := ⟨k - 1, by omega⟩
          rw [dv_old_succ x z k' hj hne]
          simp
        · have h3 : ¬ (j' = j' ∧ 1 ≤ k ∧ k ≤ mnOf (i + 1) M) := by omega
          rw [if_neg h3, hHj]
          have hlt := lt_of_mnOf_lt hk hkm
          rw [dv_eq_zero_of_lt x z (injOn_sub x len hinj (by omega)) (by omega) hlt,
            dv_eq_zero_of_lt x z (injOn_sub x len hinj (by omega)) hj (by omega)]
    · have h0 : ¬ (j' = j ∧ k = 0) := by omega
      have h3 : ¬ (j' = j ∧ 1 ≤ k ∧ k ≤ mnOf (i + 1) M) := by omega
      rw [if_neg h0, if_neg h3]
      unfold G H
      by_cases h5 : j' < j
      · have h6 : j' < j + 1 := by omega
        simp [h5, h6]
      · have h6 : ¬ (j' < j + 1) := by omega
        have h7 : (j + 1 = i + 1) ↔ (j = i) := by omega
        simp [h5, h6]

theorem jLoop_spec (grid : Array ℚ) (hlen : grid.size = len) (hx : ∀ m, x m = rd grid m) :
    ∀ (rem j : ℕ) (w : Array ℚ), j + rem = i + 1 → Mat w len M (G x z i j) →
    ∃ w', jLoop grid len (i + 1) (mnOf (i + 1) M) (cprod x i i) (x (i + 1) - z) (x i - z) rem j
        (cprod x (i + 1) j) w = .ok (cprod x (i + 1) (i + 1), w') ∧
      Mat w' len M (G x z i (i + 1)) := by
  intro rem
  induction rem with
  | zero =>
    intro j w hj hm
    have : j = i + 1 := by omega
    subst this
    exact ⟨w, rfl, hm⟩
  | succ rem ih =>
    intro j w hj hm
    have hji : j ≤ i := by omega
    have hg1 : getG grid (i + 1) = .ok (x (i + 1)) := by rw [getG_ok (by omega), hx]
    have hg2 : getG grid j = .ok (x j) := by rw [getG_ok (by omega), hx]
    have hblock : ∃ w1, (if j + 1 = i + 1 then
          newBlock len (i + 1) (mnOf (i + 1) M) (cprod x i i) (cprod x (i + 1) (j + 1)) (x i - z) w
          else pure w) = .ok w1 ∧ Mat w1 len M (H x z i j) := by
      by_cases hc : j = i
      · subst hc
        obtain ⟨w1, hw1, hm1⟩ := newBlock_spec x z len M j hinj hi w hm
        exact ⟨w1, by simpa using hw1, hm1⟩
      · have hc' : ¬ (j + 1 = i + 1) := by omega
        refine ⟨w, by rw [if_neg hc']; rfl, hm.congr ?_⟩
        intro j' _ k _
        have h1 : ¬ (j = i + 1) := by omega
        simp [G, H, hc, h1]
    obtain ⟨w1, hw1, hm1⟩ := hblock
    obtain ⟨w2, hw2, hm2⟩ := oldCol_spec x z len M i hinj hi j hji w1 hm1
    obtain ⟨w', hw', hm'⟩ := ih (j + 1) w2 (by omega) hm2
    refine ⟨w', ?_, hm'⟩
    rw [cprod_succ] at hw' hw1
    simp only [jLoop, hg1, hg2, hw1, hw2, hw', bind, Except.bind]

end stage

end SymVerif.C38
