/-
Soundness of the `Assumptions` constructor: every assignment that satisfies the statements satisfies the
fact tables built from them.
-/
import SymVerif.Lemmas.C34Args

namespace SymVerif.C34
open SymVerif SymVerif.Queries

theorem factsSat_empty' (ρ : String → ℝ) : FactsSat ρ Assumptions.empty where
  rat := by intro s hs; simp [Assumptions.empty] at hs
  int := by intro s hs; simp [Assumptions.empty] at hs
  maps := by intro id s b h; cases id <;> simp [Assumptions.empty, Assumptions.getMap] at h

/-- an elementary update is justified by the assignment -/
def justified (ρ : String → ℝ) : Upd → Prop
  | .c _ => True
  | .r _ => True
  | .q s => ∃ q : ℚ, ρ s = (q : ℝ)
  | .z s => ∃ n : ℤ, ρ s = (n : ℝ)
  | .m id s v => (v = true ↔ mapSem id (ρ s))

theorem getMap_setMapRaw_same (A : Assumptions) (id : MapId) (m : List (String × Bool)) :
    (A.setMapRaw id m).getMap id = m := by
  cases id <;> rfl

theorem getMap_setMapRaw_other (A : Assumptions) {id id' : MapId} (m : List (String × Bool)) (h : id' ≠ id) :
    (A.setMapRaw id m).getMap id' = A.getMap id' := by
  cases id <;> cases id' <;> first | rfl | exact absurd rfl h

theorem setMapRaw_sets (A : Assumptions) (id : MapId) (m : List (String × Bool)) :
    (A.setMapRaw id m).ratS = A.ratS ∧ (A.setMapRaw id m).intS = A.intS := by
  cases id <;> exact ⟨rfl, rfl⟩

theorem factsSat_setMap {ρ : String → ℝ} {A : Assumptions} (hA : FactsSat ρ A) {id : MapId} {s : String} {v : Bool}
    (hj : v = true ↔ mapSem id (ρ s)) : FactsSat ρ (A.setMapRaw id ((s, v) :: A.getMap id)) where
  rat := by rw [(setMapRaw_sets A id _).1]; exact hA.rat
  int := by rw [(setMapRaw_sets A id _).2]; exact hA.int
  maps := by
    intro id' s' b hmem
    by_cases hid : id' = id
    · subst hid
      rw [getMap_setMapRaw_same] at hmem
      rcases List.mem_cons.mp hmem with heq | hmem
      · cases heq; exact hj
      · exact hA.maps _ s' b hmem
    · rw [getMap_setMapRaw_other A _ hid] at hmem
      exact hA.maps id' s' b hmem

theorem applyUpd_sat {ρ : String → ℝ} {A A' : Assumptions} (hA : FactsSat ρ A) {u : Upd} (hj : justified ρ u)
    (h : applyUpd A u = .ok A') : FactsSat ρ A' := by
  cases u with
  | c s => simp [applyUpd] at h; subst h; exact ⟨hA.rat, hA.int, hA.maps⟩
  | r s => simp [applyUpd] at h; subst h; exact ⟨hA.rat, hA.int, hA.maps⟩
  | q s =>
    simp [applyUpd] at h; subst h
    refine ⟨?_, hA.int, hA.maps⟩
    intro s' hs'
    rcases List.mem_cons.mp hs' with rfl | hs'
    · exact hj
    · exact hA.rat s' hs'
  | z s =>
    simp [applyUpd] at h; subst h
    refine ⟨hA.rat, ?_, hA.maps⟩
    intro s' hs'
    rcases List.mem_cons.mp hs' with rfl | hs'
    · exact hj
    · exact hA.int s' hs'
  | m id s v =>
    simp only [applyUpd] at h
    split at h
    · split at h
      · cases h; exact factsSat_setMap hA hj
      · cases h
    · cases h; exact factsSat_setMap hA hj

theorem applyUpds_sat {ρ : String → ℝ} : ∀ (us : List Upd) {A A' : Assumptions}, FactsSat ρ A →
    (∀ u ∈ us, justified ρ u) → applyUpds A us = .ok A' → FactsSat ρ A' := by
  intro us
  induction us with
  | nil => intro A A' hA _ h; simp [applyUpds] at h; subst h; exact hA
  | cons u t ih =>
    intro A A' hA hj h
    simp only [applyUpds] at h
    split at h
    · rename_i A1 h1
      exact ih (applyUpd_sat hA (hj u (by simp)) h1) (fun u' hu' => hj u' (List.mem_cons_of_mem _ hu')) h
    · cases h

/-! ### the updates of one statement are justified -/

theorem just_positive {ρ : String → ℝ} {x : String} (h : 0 < ρ x) : ∀ u ∈ updsPositive x, justified ρ u := by
  intro u hu
  simp only [updsPositive, List.mem_cons, List.mem_nil_iff, or_false] at hu
  rcases hu with rfl | rfl | rfl | rfl | rfl | rfl <;> simp [justified, mapSem] <;> linarith

theorem just_negative {ρ : String → ℝ} {x : String} (h : ρ x < 0) : ∀ u ∈ updsNegative x, justified ρ u := by
  intro u hu
  simp only [updsNegative, List.mem_cons, List.mem_nil_iff, or_false] at hu
  rcases hu with rfl | rfl | rfl | rfl | rfl | rfl <;> simp [justified, mapSem] <;> linarith

theorem evalR_sym {ρ : String → ℝ} {x : String} {v : ℝ} (h : evalR ρ (.sym x) = some v) : v = ρ x := by
  simp [evalR] at h; exact h.symm

theorem num_nonneg_of_not_neg {ρ : String → ℝ} {a : Expr} {va : ℝ} (hn : a.isNum = true) (ha : evalR ρ a = some va)
    (h : numIsNeg a = false) : 0 ≤ va := by
  by_contra hlt
  have := numIsNeg_complete hn ha (not_le.mp hlt)
  simp [this] at h

theorem num_nonpos_of_not_pos {ρ : String → ℝ} {a : Expr} {va : ℝ} (hn : a.isNum = true) (ha : evalR ρ a = some va)
    (h : numIsPos a = false) : va ≤ 0 := by
  by_contra hlt
  have := numIsPos_complete hn ha (not_le.mp hlt)
  simp [this] at h

theorem just_contains {ρ : String → ℝ} {a b : Expr} (hs : holds ρ (.app "Contains" [a, b])) :
    ∀ u ∈ stmtUpds (.app "Contains" [a, b]), justified ρ u := by
  intro u hu
  simp only [stmtUpds, beq_self_eq_true, if_true] at hu
  simp only [holds, if_true] at hs
  split at hu
  · rename_i x st
    simp only at hs
    split_ifs at hu hs <;> simp_all [justified]
    · rcases hu with rfl | rfl <;> trivial
    · rcases hu with rfl | rfl | rfl <;> first | trivial | exact hs
    · obtain ⟨n, hn⟩ := hs
      rcases hu with rfl | rfl | rfl | rfl <;> first | trivial | exact ⟨n, hn⟩ | exact ⟨n, by simp [hn]⟩
  · cases hu

theorem just_le {ρ : String → ℝ} {a b : Expr} (hs : holds ρ (.app "LessThan" [a, b])) :
    ∀ u ∈ stmtUpds (.app "LessThan" [a, b]), justified ρ u := by
  intro u hu
  simp only [stmtUpds, beq_self_eq_true, if_true, String.reduceBEq, Bool.false_eq_true, if_false] at hu
  simp only [holds, if_true, String.reduceEq, if_false] at hs
  obtain ⟨va, vb, ha, hb, hab⟩ := hs
  split at hu
  · rename_i x
    have hx := evalR_sym hb
    subst hx
    split at hu
    · rename_i hn
      rcases List.mem_cons.mp hu with rfl | hu
      · trivial
      · split at hu
        · rename_i hp
          exact just_positive (by linarith [numIsPos_sound hp ha]) u hu
        · split at hu
          · rename_i _ hz
            have : va = 0 := (numIsZero_iff hn ha).mp hz
            simp only [List.mem_cons, List.mem_nil_iff, or_false] at hu
            rcases hu with rfl | rfl <;> simp [justified, mapSem] <;> linarith
          · cases hu
    · cases hu
  · rename_i x _
    have hx := evalR_sym ha
    subst hx
    split at hu
    · rename_i hn
      rcases List.mem_cons.mp hu with rfl | hu
      · trivial
      · split at hu
        · rename_i hp
          exact just_negative (by linarith [numIsNeg_sound hp hb]) u hu
        · split at hu
          · rename_i _ hz
            have : vb = 0 := (numIsZero_iff hn hb).mp hz
            simp only [List.mem_cons, List.mem_nil_iff, or_false] at hu
            rcases hu with rfl | rfl <;> simp [justified, mapSem] <;> linarith
          · cases hu
    · cases hu
  · cases hu

theorem just_lt {ρ : String → ℝ} {a b : Expr} (hs : holds ρ (.app "StrictLessThan" [a, b])) :
    ∀ u ∈ stmtUpds (.app "StrictLessThan" [a, b]), justified ρ u := by
  intro u hu
  simp only [stmtUpds, beq_self_eq_true, if_true, String.reduceBEq, Bool.false_eq_true, if_false] at hu
  simp only [holds, if_true, String.reduceEq, if_false] at hs
  obtain ⟨va, vb, ha, hb, hab⟩ := hs
  split at hu
  · rename_i x
    have hx := evalR_sym hb
    subst hx
    split at hu
    · rename_i hn
      rcases List.mem_cons.mp hu with rfl | hu
      · trivial
      · split at hu
        · rename_i hp
          have := num_nonneg_of_not_neg hn ha (by simpa using hp)
          exact just_positive (by linarith) u hu
        · cases hu
    · cases hu
  · rename_i x _
    have hx := evalR_sym ha
    subst hx
    split at hu
    · rename_i hn
      rcases List.mem_cons.mp hu with rfl | hu
      · trivial
      · split at hu
        · rename_i hp
          have := num_nonpos_of_not_pos hn hb (by simpa using hp)
          exact just_negative (by linarith) u hu
        · cases hu
    · cases hu
  · cases hu

theorem just_eq {ρ : String → ℝ} {a b : Expr} (hs : holds ρ (.app "Equality" [a, b])) :
    ∀ u ∈ stmtUpds (.app "Equality" [a, b]), justified ρ u := by
  intro u hu
  simp only [stmtUpds, beq_self_eq_true, if_true, String.reduceBEq, Bool.false_eq_true, if_false] at hu
  simp only [holds, if_true, String.reduceEq, if_false] at hs
  obtain ⟨va, vb, ha, hb, hab⟩ := hs
  split at hu
  · rename_i x
    have hx := evalR_sym hb
    subst hx
    split at hu
    · rename_i hn
      rcases List.mem_cons.mp hu with rfl | hu
      · trivial
      · split at hu
        · rename_i hz
          have h0 : ρ x = 0 := by rw [← hab]; exact (numIsZero_iff hn ha).mp hz
          simp only [List.mem_cons, List.mem_nil_iff, or_false] at hu
          rcases hu with rfl | rfl | rfl | rfl | rfl | rfl | rfl | rfl | rfl <;>
            simp [justified, mapSem, h0]
          · exact ⟨0, by simp⟩
          · exact ⟨0, by simp⟩
        · rename_i hz
          have h0 : ρ x ≠ 0 := by
            rw [← hab]; intro h; exact hz ((numIsZero_iff hn ha).mpr h)
          simp only [List.mem_cons, List.mem_nil_iff, or_false] at hu
          rcases hu with rfl | rfl <;> simp [justified, mapSem, h0]
    · cases hu
  · cases hu

theorem just_ne {ρ : String → ℝ} {a b : Expr} (hs : holds ρ (.app "Unequality" [a, b])) :
    ∀ u ∈ stmtUpds (.app "Unequality" [a, b]), justified ρ u := by
  intro u hu
  simp only [stmtUpds, beq_self_eq_true, if_true, String.reduceBEq, Bool.false_eq_true, if_false] at hu
  simp only [holds, if_true, String.reduceEq, if_false] at hs
  obtain ⟨va, vb, ha, hb, hab⟩ := hs
  split at hu
  · rename_i x
    have hx := evalR_sym hb
    subst hx
    split at hu
    · rename_i hn
      split at hu
      · rename_i hz
        have h0 : ρ x ≠ 0 := by
          have : va = 0 := (numIsZero_iff hn ha).mp hz
          rw [this] at hab; exact fun h => hab h.symm
        simp only [List.mem_cons, List.mem_nil_iff, or_false] at hu
        rcases hu with rfl | rfl <;> simp [justified, mapSem, h0]
      · cases hu
    · cases hu
  · cases hu

theorem stmtUpds_justified {ρ : String → ℝ} {s : Expr} (hs : holds ρ s) : ∀ u ∈ stmtUpds s, justified ρ u := by
  intro u hu
  match s with
  | .app h [a, b] =>
    by_cases h1 : h = "Contains"
    · subst h1; exact just_contains hs u hu
    by_cases h2 : h = "LessThan"
    · subst h2; exact just_le hs u hu
    by_cases h3 : h = "StrictLessThan"
    · subst h3; exact just_lt hs u hu
    by_cases h4 : h = "Equality"
    · subst h4; exact just_eq hs u hu
    by_cases h5 : h = "Unequality"
    · subst h5; exact just_ne hs u hu
    simp [stmtUpds, h1, h2, h3, h4, h5] at hu
  | .app _ [] => simp [stmtUpds] at hu
  | .app _ [_] => simp [stmtUpds] at hu
  | .app _ (_ :: _ :: _ :: _) => simp [stmtUpds] at hu
  | .int _ | .rat _ _ | .cplx _ _ | .dbl _ | .cdbl _ _ | .infty _ | .nan | .sym _ | .dummy _ _ | .const _
  | .add _ _ | .mul _ _ | .pow _ _ | .fsym _ _ | .bool _ => simp [stmtUpds] at hu

/-- **Soundness of the Assumptions constructor.** -/
theorem build_sound {ρ : String → ℝ} {stmts : List Expr} {A : Assumptions} (hb : build stmts = .ok A)
    (hs : Sat ρ stmts) : FactsSat ρ A := by
  unfold build at hb
  refine applyUpds_sat _ (factsSat_empty' ρ) ?_ hb
  intro u hu
  simp only [List.mem_flatten, List.mem_map] at hu
  obtain ⟨l, ⟨s, hsm, rfl⟩, hul⟩ := hu
  exact stmtUpds_justified (hs s hsm) u hul

end SymVerif.C34
