import Mathlib.Data.Nat.Factorization.Basic
import Mathlib.GroupTheory.OrderOfElement
import Mathlib.Data.ZMod.Basic
import SymVerif.Lemmas.C32Basic
import SymVerif.Lemmas.C32Arith
/-! Correctness of the order-refinement loop of `multiplicative_order`. -/
namespace SymVerif.C32
open SymVerif.NTheory

theorem FactList.factorization_eq : ∀ {l : List (Nat × Nat)} {N : Nat}, FactList l N →
    ∀ pe ∈ l, N.factorization pe.1 = pe.2 := by
  intro l
  induction l with
  | nil => intro N _ pe hpe; exact absurd hpe (by simp)
  | cons x t ih =>
    intro N h pe hpe
    obtain ⟨p, e⟩ := x
    obtain ⟨hp, he, N', hN, ht, hcop, hbig⟩ := h.cons_inv
    have hN'pos : N' ≠ 0 := ht.pos.ne'
    have hpe0 : p ^ e ≠ 0 := (Nat.pow_pos hp.pos).ne'
    rw [hN, Nat.factorization_mul hpe0 hN'pos, Finsupp.add_apply, hp.factorization_pow]
    rcases List.mem_cons.mp hpe with rfl | hmem
    · have : N'.factorization p = 0 := Nat.factorization_eq_zero_of_not_dvd
        (fun hd => lt_irrefl _ (hbig p hp hd))
      simp [this]
    · have hne : p ≠ pe.1 := by
        have hs := h.sorted
        rw [List.map_cons, List.pairwise_cons] at hs
        exact (hs.1 pe.1 (List.mem_map.mpr ⟨pe, hmem, rfl⟩)).ne
      rw [Finsupp.single_apply, if_neg hne, zero_add]
      exact ih ht pe hmem

section
variable {nn : Nat} (hnn : 2 ≤ nn) (x : ZMod nn)
include hnn

theorem natCast_eq_one_iff {t : Nat} (ht : t < nn) : ((t : ZMod nn) = 1) ↔ t = 1 := by
  constructor
  · intro h
    have : (t : ZMod nn) = ((1 : Nat) : ZMod nn) := by simpa using h
    rw [ZMod.natCast_eq_natCast_iff'] at this
    rwa [Nat.mod_eq_of_lt ht, Nat.mod_eq_of_lt (by omega)] at this
  · rintro rfl; simp

/-- `while (t != 1) { t = t^p; order *= p; }` finds the least `j` with `x^(m p^j) = 1`. -/
theorem orderInner_spec {p : Nat} (m : Nat) : ∀ (f j : Nat) (t : Nat), t < nn → (t : ZMod nn) = x ^ (m * p ^ j) →
    (∀ i < j, x ^ (m * p ^ i) ≠ 1) → x ^ (m * p ^ (j + f - 1)) = 1 → 0 < f →
    ∃ j', orderInner p nn f t (m * p ^ j) = .ok (m * p ^ j') ∧ x ^ (m * p ^ j') = 1 ∧
      (∀ i < j', x ^ (m * p ^ i) ≠ 1) := by
  intro f
  induction f with
  | zero => intro j t _ _ _ _ hf; omega
  | succ f ih =>
    intro j t htlt ht hmin hlast _
    unfold orderInner
    by_cases h1 : t = 1
    · subst h1
      simp only [beq_self_eq_true, if_true]
      exact ⟨j, rfl, by rw [← ht]; simp, hmin⟩
    · have hb : (t == 1) = false := by simpa using h1
      simp only [hb, Bool.false_eq_true, if_false]
      have hne : x ^ (m * p ^ j) ≠ 1 := by
        rw [← ht]; exact fun h => h1 ((natCast_eq_one_iff hnn htlt).mp h)
      have hf : 0 < f := by
        rcases Nat.eq_zero_or_pos f with h0 | h0
        · subst h0; simp at hlast; exact absurd hlast hne
        · exact h0
      have e1 : m * p ^ j * p = m * p ^ (j + 1) := by ring
      rw [e1]
      apply ih (j + 1) (powModNat t p nn)
      · rw [powModNat_eq]; exact Nat.mod_lt _ (by omega)
      · rw [powModNat_eq, ZMod.natCast_mod, Nat.cast_pow, ht, ← pow_mul, e1]
      · intro i hi
        rcases Nat.lt_succ_iff_lt_or_eq.mp hi with h | h
        · exact hmin i h
        · subst h; exact hne
      · have : j + 1 + f - 1 = j + (f + 1) - 1 := by omega
        rw [this]; exact hlast
      · exact hf

/-- loop invariant of `orderLoop` -/
structure OrdInv (c : Nat) (t : List (Nat × Nat)) : Prop where
  pos : 0 < c
  pow : x ^ c = 1
  fact : ∀ pe ∈ t, pe.1.Prime ∧ c.factorization pe.1 = pe.2
  nodup : (t.map Prod.fst).Nodup
  done : ∀ q, q.Prime → q ∣ c → q ∈ t.map Prod.fst ∨ x ^ (c / q) ≠ 1

theorem orderLoop_spec (a : Int) (hx : (a : ZMod nn) = x) : ∀ (t : List (Nat × Nat)) (c : Nat),
    OrdInv x c t → ∃ o, orderLoop a nn t c = .ok o ∧ o = orderOf x := by
  intro t
  induction t with
  | nil =>
    intro c hinv
    refine ⟨c, rfl, ?_⟩
    symm
    apply orderOf_eq_of_pow_and_pow_div_prime hinv.pos hinv.pow
    intro q hq hd
    rcases hinv.done q hq hd with h | h
    · exact absurd h (by simp)
    · exact h
  | cons pe t ih =>
    intro c hinv
    obtain ⟨p, e⟩ := pe
    obtain ⟨hp, hfac⟩ := hinv.fact (p, e) (by simp)
    simp only at hp hfac
    have hdvd : p ^ e ∣ c := by rw [← hfac]; exact Nat.ordProj_dvd c p
    set m := c / p ^ e with hm
    have hc : c = m * p ^ e := (Nat.div_mul_cancel hdvd).symm
    have hmpos : 0 < m := by
      rcases Nat.eq_zero_or_pos m with h0 | h0
      · rw [h0, zero_mul] at hc; have := hinv.pos; omega
      · exact h0
    have hmfac : ∀ q, m.factorization q = c.factorization q - (p ^ e).factorization q := by
      intro q; rw [hm, Nat.factorization_div hdvd]; rfl
    have hmp : m.factorization p = 0 := by
      rw [hmfac, hp.factorization_pow, hfac]; simp
    have hpm : ¬ p ∣ m := by
      intro hd
      have := (hp.factorization_pos_of_dvd hmpos.ne' hd)
      omega
    unfold orderLoop
    simp only [Except.bind, bind]
    -- the inner loop
    have ht0 : ((powmN a m nn).toNat : ZMod nn) = x ^ (m * p ^ 0) := by
      rw [powmN_eq a m nn (by omega)]
      have hnn' : 0 ≤ a ^ m % (nn : Int) := Int.emod_nonneg _ (by omega)
      have : (((a ^ m % (nn : Int)).toNat : Nat) : ZMod nn) = ((a ^ m % (nn : Int) : Int) : ZMod nn) := by
        rw [← Int.cast_natCast, Int.toNat_of_nonneg hnn']
      rw [this, pow_zero, mul_one, ← hx]
      simp
    have hlt0 : (powmN a m nn).toNat < nn := by
      rw [powmN_eq a m nn (by omega)]
      have h1 : a ^ m % (nn : Int) < nn := Int.emod_lt_of_pos _ (by omega)
      have h2 : 0 ≤ a ^ m % (nn : Int) := Int.emod_nonneg _ (by omega)
      omega
    obtain ⟨j', hj1, hj2, hj3⟩ := orderInner_spec hnn x (p := p) m (e + 1) 0 (powmN a m nn).toNat hlt0 ht0
      (by intro i hi; omega) (by simp only [zero_add, Nat.add_sub_cancel]; rw [← hc]; exact hinv.pow) (by omega)
    rw [pow_zero, mul_one] at hj1
    rw [hj1]
    simp only
    have hj'le : j' ≤ e := by
      by_contra hcon
      exact hj3 e (by omega) (by rw [← hc]; exact hinv.pow)
    -- the new invariant
    have hc'dvd : m * p ^ j' ∣ c := by
      rw [hc]; exact Nat.mul_dvd_mul_left _ (pow_dvd_pow _ hj'le)
    have hinv' : OrdInv x (m * p ^ j') t := by
      refine ⟨Nat.mul_pos hmpos (Nat.pow_pos hp.pos), hj2, ?_, ?_, ?_⟩
      · intro qe hqe
        obtain ⟨hq, hqf⟩ := hinv.fact qe (List.mem_cons_of_mem _ hqe)
        refine ⟨hq, ?_⟩
        have hne : p ≠ qe.1 := by
          have := hinv.nodup
          rw [List.map_cons, List.nodup_cons] at this
          intro heq
          exact this.1 (List.mem_map.mpr ⟨qe, hqe, heq.symm⟩)
        rw [Nat.factorization_mul hmpos.ne' (Nat.pow_pos hp.pos).ne', Finsupp.add_apply, hmfac,
          hp.factorization_pow, hp.factorization_pow, Finsupp.single_apply, Finsupp.single_apply,
          if_neg hne, if_neg hne, hqf]
        omega
      · have := hinv.nodup
        rw [List.map_cons, List.nodup_cons] at this
        exact this.2
      · intro q hq hd
        by_cases hqp : q = p
        · subst hqp
          right
          have hj'pos : 0 < j' := by
            rcases Nat.eq_zero_or_pos j' with h0 | h0
            · subst h0; rw [pow_zero, mul_one] at hd; exact absurd hd hpm
            · exact h0
          have : m * q ^ j' / q = m * q ^ (j' - 1) := by
            conv_lhs => rw [show j' = (j' - 1) + 1 by omega, pow_succ, ← mul_assoc]
            exact Nat.mul_div_cancel _ hq.pos
          rw [this]
          exact hj3 (j' - 1) (by omega)
        · have hqc : q ∣ c := hd.trans hc'dvd
          rcases hinv.done q hq hqc with h | h
          · left
            rw [List.map_cons, List.mem_cons] at h
            rcases h with h | h
            · exact absurd h hqp
            · exact h
          · right
            intro hone
            apply h
            obtain ⟨u, hu⟩ := hd
            obtain ⟨w, hw⟩ := hc'dvd
            have e1 : m * p ^ j' / q = u := by rw [hu]; exact Nat.mul_div_cancel_left _ hq.pos
            have e2 : c / q = u * w := by
              rw [hw, hu, mul_assoc]; exact Nat.mul_div_cancel_left _ hq.pos
            rw [e1] at hone
            rw [e2, pow_mul, hone, one_pow]
    exact ih (m * p ^ j') hinv'

end

end SymVerif.C32
