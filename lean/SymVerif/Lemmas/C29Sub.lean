import SymVerif.Model.Num
import SymVerif.Lemmas.C05Q
import Mathlib.Data.EReal.Basic
/-!
C29 helper: the sign of `a.sub(b)` for real numbers of every kind is the sign of the difference of
their values in the extended reals.
-/
namespace SymVerif.C29
open SymVerif.Num SymVerif.Num.FloatOps

set_option linter.unusedSimpArgs false
set_option linter.unusedVariables false
set_option linter.unusedSectionVars false

variable {F : Type} [FloatOps F]

/-- IEEE facts about *finite* doubles used by C29 (`fv` is the exact rational value of a finite double).
They hold for binary64: `x == y` compares values; the rounded difference `x - y` of two finite doubles is
negative / zero exactly when the exact difference is (gradual underflow: `x ≠ y → x - y ≠ 0`). -/
structure FloatSpec (F : Type) [FloatOps F] where
  fin : F → Prop
  fv : F → ℚ
  beq_iff : ∀ x y, fin x → fin y → (beq x y = true ↔ fv x = fv y)
  isNeg_sub : ∀ x y, fin x → fin y → (isNeg (fsub x y) = true ↔ fv x < fv y)
  isZero_sub : ∀ x y, fin x → fin y → (isZero (fsub x y) = true ↔ fv x = fv y)

/-- embedding of ℚ into the extended reals -/
noncomputable def qe (x : ℚ) : EReal := ((x : ℝ) : EReal)

theorem qe_lt {x y : ℚ} : qe x < qe y ↔ x < y := by
  simp only [qe, EReal.coe_lt_coe_iff]; exact_mod_cast Iff.rfl
theorem qe_eq {x y : ℚ} : qe x = qe y ↔ x = y := by
  simp only [qe, EReal.coe_eq_coe_iff]; exact_mod_cast Iff.rfl
theorem qe_lt_top (x : ℚ) : qe x < ⊤ := EReal.coe_lt_top _
theorem bot_lt_qe (x : ℚ) : ⊥ < qe x := EReal.bot_lt_coe _
theorem qe_ne_top (x : ℚ) : qe x ≠ ⊤ := EReal.coe_ne_top _
theorem qe_ne_bot (x : ℚ) : qe x ≠ ⊥ := EReal.coe_ne_bot _

/-- the real numbers of every kind: integers, normalised rationals, finite doubles, `+oo`, `-oo` -/
inductive RealNum (S : FloatSpec F) : Num F → Prop
  | int (n : Int) : RealNum S (.int n)
  | rat (q : Q) (h : q.Canon) : RealNum S (.rat q)
  | dbl (d : F) (h : S.fin d) : RealNum S (.dbl d)
  | pinf : RealNum S (.infty 1)
  | ninf : RealNum S (.infty (-1))

/-- numeric value in the extended reals -/
noncomputable def rv (S : FloatSpec F) : Num F → EReal
  | .int n => qe n
  | .rat q => qe q.toRat
  | .dbl d => qe (S.fv d)
  | .infty d => if 0 < d then ⊤ else ⊥
  | _ => 0

/-- the conversion `mpz_get_d` / `mpq_get_d` of an exact operand is exact (the value is representable
in binary64); required of an exact operand only when the other operand is a double -/
def ConvOK (S : FloatSpec F) : Num F → Prop
  | .int n => S.fin (ofInt n) ∧ S.fv (ofInt n) = n
  | .rat q => S.fin (ofQ q) ∧ S.fv (ofQ q) = q.toRat
  | _ => True

def isDbl : Num F → Prop
  | .dbl _ => True
  | _ => False

theorem fromMpq_isNegative (q : Q) : (fromMpq (F := F) q).isNegative = decide (q.num < 0) := by
  unfold fromMpq; split <;> rfl
theorem fromMpq_isZero (q : Q) : (fromMpq (F := F) q).isZero = (q.num == 0) := by
  unfold fromMpq; split <;> rfl
theorem inftyAdd_fromMpq (d : Int) (q : Q) : inftyAdd (F := F) d (fromMpq q) = .ok (.infty d) := by
  unfold fromMpq; split <;> rfl

/-- sign of a canonical-denominator difference -/
theorem sub_sign_q {a b : Q} (ha : 0 < a.den) (hb : 0 < b.den) :
    ((a.sub b).num < 0 ↔ a.toRat < b.toRat) ∧ ((a.sub b).num = 0 ↔ a.toRat = b.toRat) := by
  have hd := Q.sub_den_pos ha hb
  constructor
  · rw [← Q.toRat_neg_iff hd, Q.toRat_sub ha hb]; exact sub_neg
  · rw [← Q.toRat_eq_zero_iff hd, Q.toRat_sub ha hb]; exact sub_eq_zero

/-- what `Lt`/`Le` need to know about `s = a.sub(b)` -/
structure SubSign (S : FloatSpec F) (a b s : Num F) : Prop where
  neg : s.isNegative = true ↔ rv S a < rv S b
  zero : s.isZero = true ↔ rv S a = rv S b

theorem ofInt_pos (n : Int) : 0 < (Q.ofInt n).den := Nat.one_pos

/-- **the sign of `a.sub(b)`** for every ordered pair of real numbers of every kind -/
theorem sub_sign (S : FloatSpec F) (a b : Num F) (ha : RealNum S a) (hb : RealNum S b)
    (ca : isDbl b → ConvOK S a) (cb : isDbl a → ConvOK S b) (hne : eqNum a b = false) :
    ∃ s, Num.sub a b = .ok s ∧ SubSign S a b s := by
  cases ha <;> cases hb
  -- int - *
  · rename_i n m
    refine ⟨.int (n - m), rfl, ?_, ?_⟩
    · simp only [Num.isNegative, decide_eq_true_eq, rv, qe_lt]
      constructor
      · intro h; exact_mod_cast (by omega : n < m)
      · intro h; have : n < m := by exact_mod_cast h
        omega
    · simp only [Num.isZero, beq_iff_eq, rv, qe_eq]
      constructor
      · intro h; exact_mod_cast (by omega : n = m)
      · intro h; have : n = m := by exact_mod_cast h
        omega
  · rename_i n p hp
    have := sub_sign_q (ofInt_pos n) hp.pos
    refine ⟨fromMpq ((Q.ofInt n).sub p), rfl, ?_, ?_⟩
    · simp only [fromMpq_isNegative, decide_eq_true_eq, rv, qe_lt, this.1, Q.toRat_ofInt]
    · simp only [fromMpq_isZero, beq_iff_eq, rv, qe_eq, this.2, Q.toRat_ofInt]
  · rename_i n d hd
    obtain ⟨c1, c2⟩ := ca trivial
    refine ⟨.dbl (fsub (ofInt n) d), rfl, ?_, ?_⟩
    · simp only [Num.isNegative, rv, qe_lt, S.isNeg_sub _ _ c1 hd, c2]
    · simp only [Num.isZero, rv, qe_eq, S.isZero_sub _ _ c1 hd, c2]
  · rename_i n
    refine ⟨.infty (-1), by simp [Num.sub, intSub, defaultRsub, Num.mul, inftyMul, Num.isPositive,
      Num.isNegative, Num.add, inftyAdd], ?_, ?_⟩
    · simp [Num.isNegative, rv, qe_lt_top]
    · simp [Num.isZero, rv, qe_ne_top]
  · rename_i n
    refine ⟨.infty 1, by simp [Num.sub, intSub, defaultRsub, Num.mul, inftyMul, Num.isPositive,
      Num.isNegative, Num.add, inftyAdd], ?_, ?_⟩
    · simp [Num.isNegative, rv, (bot_lt_qe _).not_gt]
    · simp [Num.isZero, rv, qe_ne_bot]
  -- rat - *
  · rename_i q hq m
    have := sub_sign_q hq.pos (ofInt_pos m)
    refine ⟨fromMpq (q.sub (Q.ofInt m)), rfl, ?_, ?_⟩
    · simp only [fromMpq_isNegative, decide_eq_true_eq, rv, qe_lt, this.1, Q.toRat_ofInt]
    · simp only [fromMpq_isZero, beq_iff_eq, rv, qe_eq, this.2, Q.toRat_ofInt]
  · rename_i q hq p hp
    have := sub_sign_q hq.pos hp.pos
    refine ⟨fromMpq (q.sub p), rfl, ?_, ?_⟩
    · simp only [fromMpq_isNegative, decide_eq_true_eq, rv, qe_lt, this.1]
    · simp only [fromMpq_isZero, beq_iff_eq, rv, qe_eq, this.2]
  · rename_i q hq d hd
    obtain ⟨c1, c2⟩ := ca trivial
    refine ⟨.dbl (fsub (ofQ q) d), rfl, ?_, ?_⟩
    · simp only [Num.isNegative, rv, qe_lt, S.isNeg_sub _ _ c1 hd, c2]
    · simp only [Num.isZero, rv, qe_eq, S.isZero_sub _ _ c1 hd, c2]
  · rename_i q hq
    refine ⟨.infty (-1), by simp [Num.sub, ratSub, defaultRsub, Num.mul, inftyMul, Num.isPositive,
      Num.isNegative, Num.add, inftyAdd], ?_, ?_⟩
    · simp [Num.isNegative, rv, qe_lt_top]
    · simp [Num.isZero, rv, qe_ne_top]
  · rename_i q hq
    refine ⟨.infty 1, by simp [Num.sub, ratSub, defaultRsub, Num.mul, inftyMul, Num.isPositive,
      Num.isNegative, Num.add, inftyAdd], ?_, ?_⟩
    · simp [Num.isNegative, rv, (bot_lt_qe _).not_gt]
    · simp [Num.isZero, rv, qe_ne_bot]
  -- dbl - *
  · rename_i d hd m
    obtain ⟨c1, c2⟩ := cb trivial
    refine ⟨.dbl (fsub d (ofInt m)), rfl, ?_, ?_⟩
    · simp only [Num.isNegative, rv, qe_lt, S.isNeg_sub _ _ hd c1, c2]
    · simp only [Num.isZero, rv, qe_eq, S.isZero_sub _ _ hd c1, c2]
  · rename_i d hd p hp
    obtain ⟨c1, c2⟩ := cb trivial
    refine ⟨.dbl (fsub d (ofQ p)), rfl, ?_, ?_⟩
    · simp only [Num.isNegative, rv, qe_lt, S.isNeg_sub _ _ hd c1, c2]
    · simp only [Num.isZero, rv, qe_eq, S.isZero_sub _ _ hd c1, c2]
  · rename_i d hd e he
    refine ⟨.dbl (fsub d e), rfl, ?_, ?_⟩
    · simp only [Num.isNegative, rv, qe_lt, S.isNeg_sub _ _ hd he]
    · simp only [Num.isZero, rv, qe_eq, S.isZero_sub _ _ hd he]
  · rename_i d hd
    refine ⟨.infty (-1), by simp [Num.sub, dblSub, defaultRsub, Num.mul, inftyMul, Num.isPositive,
      Num.isNegative, Num.add, inftyAdd], ?_, ?_⟩
    · simp [Num.isNegative, rv, qe_lt_top]
    · simp [Num.isZero, rv, qe_ne_top]
  · rename_i d hd
    refine ⟨.infty 1, by simp [Num.sub, dblSub, defaultRsub, Num.mul, inftyMul, Num.isPositive,
      Num.isNegative, Num.add, inftyAdd], ?_, ?_⟩
    · simp [Num.isNegative, rv, (bot_lt_qe _).not_gt]
    · simp [Num.isZero, rv, qe_ne_bot]
  -- +oo - *
  · rename_i m
    refine ⟨.infty 1, by simp [Num.sub, defaultSub, Num.mul, intMul, Num.add, inftyAdd], ?_, ?_⟩
    · simp [Num.isNegative, rv, (qe_lt_top _).not_gt]
    · simp [Num.isZero, rv, (qe_ne_top _).symm]
  · rename_i p hp
    refine ⟨.infty 1, by simp [Num.sub, defaultSub, Num.mul, ratMul, Num.add, inftyAdd_fromMpq], ?_, ?_⟩
    · simp [Num.isNegative, rv, (qe_lt_top _).not_gt]
    · simp [Num.isZero, rv, (qe_ne_top _).symm]
  · rename_i e he
    refine ⟨.infty 1, by simp [Num.sub, defaultSub, Num.mul, dblMul, Num.add, inftyAdd], ?_, ?_⟩
    · simp [Num.isNegative, rv, (qe_lt_top _).not_gt]
    · simp [Num.isZero, rv, (qe_ne_top _).symm]
  · simp [eqNum] at hne
  · refine ⟨.infty 1, by simp [Num.sub, defaultSub, Num.mul, inftyMul, Num.add, inftyAdd, Num.isPositive, Num.isNegative], ?_, ?_⟩
    · simp [Num.isNegative, rv]
    · simp [Num.isZero, rv]
  -- -oo - *
  · rename_i m
    refine ⟨.infty (-1), by simp [Num.sub, defaultSub, Num.mul, intMul, Num.add, inftyAdd], ?_, ?_⟩
    · simp [Num.isNegative, rv, bot_lt_qe]
    · simp [Num.isZero, rv, (qe_ne_bot _).symm]
  · rename_i p hp
    refine ⟨.infty (-1), by simp [Num.sub, defaultSub, Num.mul, ratMul, Num.add, inftyAdd_fromMpq], ?_, ?_⟩
    · simp [Num.isNegative, rv, bot_lt_qe]
    · simp [Num.isZero, rv, (qe_ne_bot _).symm]
  · rename_i e he
    refine ⟨.infty (-1), by simp [Num.sub, defaultSub, Num.mul, dblMul, Num.add, inftyAdd], ?_, ?_⟩
    · simp [Num.isNegative, rv, bot_lt_qe]
    · simp [Num.isZero, rv, (qe_ne_bot _).symm]
  · refine ⟨.infty (-1), by simp [Num.sub, defaultSub, Num.mul, inftyMul, Num.add, inftyAdd, Num.isPositive, Num.isNegative], ?_, ?_⟩
    · simp [Num.isNegative, rv]
    · simp [Num.isZero, rv]
  · simp [eqNum] at hne

end SymVerif.C29
