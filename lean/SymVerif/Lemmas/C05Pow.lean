import SymVerif.Lemmas.C05Num
import Mathlib.Data.Nat.Bitwise
import Mathlib.Tactic.NormNum
/-!
The binary-exponentiation loop of `pow_number(const Complex&, unsigned long)` (complex.cpp):
loop invariant and result.
-/
namespace SymVerif.C05
open SymVerif.Num

set_option linter.unusedSimpArgs false
set_option linter.unusedVariables false

/-- both parts are canonical `mpq`s -/
def P2 (p : Q × Q) : Prop := p.1.Canon ∧ p.2.Canon
/-- complex value of a pair -/
noncomputable def gval (p : Q × Q) : ℂ := gv p.1 p.2

theorem gmul_P2 {r p : Q × Q} (hr : P2 r) (hp : P2 p) : P2 (gmul r p) :=
  ⟨Q.sub_canon (Q.mul_den_pos hr.1.pos hp.1.pos) (Q.mul_den_pos hr.2.pos hp.2.pos),
   Q.add_canon (Q.mul_den_pos hr.1.pos hp.2.pos) (Q.mul_den_pos hr.2.pos hp.1.pos)⟩

theorem gmul_val {r p : Q × Q} (hr : P2 r) (hp : P2 p) : gval (gmul r p) = gval r * gval p := by
  have h1 := hr.1.pos
  have h2 := hr.2.pos
  have h3 := hp.1.pos
  have h4 := hp.2.pos
  apply Complex.ext <;>
    simp only [gval, gmul, gv, Complex.mul_re, Complex.mul_im,
      Q.toRat_sub (Q.mul_den_pos h1 h3) (Q.mul_den_pos h2 h4),
      Q.toRat_add (Q.mul_den_pos h1 h4) (Q.mul_den_pos h2 h3),
      Q.toRat_mul h1 h3, Q.toRat_mul h2 h4, Q.toRat_mul h1 h4, Q.toRat_mul h2 h3] <;>
    push_cast <;> ring

theorem gsq_P2 {p : Q × Q} (hp : P2 p) : P2 (gsq p) :=
  ⟨Q.sub_canon (Q.mul_den_pos hp.1.pos hp.1.pos) (Q.mul_den_pos hp.2.pos hp.2.pos),
   Q.mul_canon (Q.mul_den_pos Nat.one_pos hp.1.pos) hp.2.pos⟩

theorem gsq_val {p : Q × Q} (hp : P2 p) : gval (gsq p) = gval p ^ 2 := by
  have h3 := hp.1.pos
  have h4 := hp.2.pos
  have h1 : 0 < (Q.ofInt 2).den := Nat.one_pos
  rw [pow_two]
  apply Complex.ext <;>
    simp only [gval, gsq, gv, Complex.mul_re, Complex.mul_im,
      Q.toRat_sub (Q.mul_den_pos h3 h3) (Q.mul_den_pos h4 h4),
      Q.toRat_mul (Q.mul_den_pos h1 h3) h4, Q.toRat_mul h1 h3,
      Q.toRat_mul h3 h3, Q.toRat_mul h4 h4, Q.toRat_ofInt] <;>
    push_cast <;> ring

/-- the bit test `n & mask` of the loop, for `mask = 2^k` -/
theorem and_two_pow_ne_zero_iff (n k : Nat) : (n &&& 2 ^ k ≠ 0) ↔ n / 2 ^ k % 2 = 1 := by
  rw [Nat.and_two_pow, Nat.testBit_eq_decide_div_mod_eq]
  have h2 : 2 ^ k ≠ 0 := by positivity
  by_cases h : n / 2 ^ k % 2 = 1 <;> simp [h, h2]

/-- **Loop invariant of `pow_number`.**  Entering an iteration with `mask = 2^k`, `p = x^(2^k)` and
`r = x^(n mod 2^k)`, the loop returns `x^n` (for `n < 2^64`; `fuel` only has to cover the remaining
`64 - k` iterations). -/
theorem powNumberLoop_spec (x : ℂ) (n : Nat) (hn : n < 2 ^ 64) :
    ∀ (fuel k : Nat) (r p : Q × Q), k < 64 → 64 - k ≤ fuel → P2 r → P2 p →
      gval p = x ^ (2 ^ k) → gval r = x ^ (n % 2 ^ k) →
      P2 (powNumberLoop fuel n (2 ^ k) r p) ∧ gval (powNumberLoop fuel n (2 ^ k) r p) = x ^ n := by
  intro fuel
  induction fuel with
  | zero => intro k r p hk hf; omega
  | succ fuel ih =>
    intro k r p hk hf hr hp hpv hrv
    -- the value of r after the conditional multiplication
    have hstep : P2 (if n &&& 2 ^ k != 0 then gmul r p else r) ∧
        gval (if n &&& 2 ^ k != 0 then gmul r p else r) = x ^ (n % 2 ^ (k + 1)) := by
      have hmod : n % 2 ^ (k + 1) = n % 2 ^ k + 2 ^ k * (n / 2 ^ k % 2) := Nat.mod_pow_succ
      by_cases hb : n / 2 ^ k % 2 = 1
      · have : (n &&& 2 ^ k != 0) = true := by
          simpa using (and_two_pow_ne_zero_iff n k).mpr hb
        rw [this, if_pos rfl, hmod, hb, Nat.mul_one, pow_add, gmul_val hr hp, hrv, hpv]
        exact ⟨gmul_P2 hr hp, rfl⟩
      · have hb0 : n / 2 ^ k % 2 = 0 := by omega
        have : (n &&& 2 ^ k != 0) = false := by
          have := (and_two_pow_ne_zero_iff n k).not.mpr hb
          simpa using this
        rw [this, hmod, hb0]
        simpa using And.intro hr hrv
    have hshift : (2 ^ k <<< 1) % 2 ^ 64 = if k + 1 = 64 then 0 else 2 ^ (k + 1) := by
      rw [Nat.shiftLeft_eq, ← Nat.pow_succ]
      simp only [Nat.succ_eq_add_one]
      split
      · next h => rw [h]; simp
      · next h => exact Nat.mod_eq_of_lt (Nat.pow_lt_pow_right (by norm_num) (by omega))
    unfold powNumberLoop
    simp only [hshift]
    by_cases h64 : k + 1 = 64
    · -- the mask wraps to 0: the loop stops, all 64 bits are consumed
      simp only [h64, if_true, Nat.lt_irrefl, decide_false, Bool.false_and, Bool.not_false, if_true]
      have : n % 2 ^ (k + 1) = n := by rw [h64]; exact Nat.mod_eq_of_lt hn
      rw [this] at hstep
      exact hstep
    · simp only [h64, if_false]
      have hpos : 0 < 2 ^ (k + 1) := by positivity
      by_cases hge : n ≥ 2 ^ (k + 1)
      · simp only [hpos, hge, decide_true, Bool.and_self, Bool.not_true, Bool.false_eq_true, if_false]
        apply ih (k + 1) _ _ (by omega) (by omega) hstep.1 (gsq_P2 hp)
        · rw [gsq_val hp, hpv, ← pow_mul, ← Nat.pow_succ]
        · exact hstep.2
      · simp only [hpos, hge, decide_true, decide_false, Bool.and_false, Bool.not_false, if_true]
        have : n % 2 ^ (k + 1) = n := Nat.mod_eq_of_lt (by omega)
        rw [this] at hstep
        exact hstep

/-- `pow_number(x, n)` returns `x^n` as a normalised number (for every `n < 2^64`). -/
theorem powNumber_good {F : Type} [FloatOps F] {re im : Q} (hre : re.Canon) (him : im.Canon)
    (n : Nat) (hn : n < 2 ^ 64) :
    Good (F := F) (powNumber re im n) (gv re im ^ n) := by
  have h := powNumberLoop_spec (gv re im) n hn 65 0 (Q.ofInt 1, Q.ofInt 0) (re, im) (by norm_num)
    (by norm_num) ⟨Q.Canon.ofInt 1, Q.Canon.ofInt 0⟩ ⟨hre, him⟩ (by simp [gval])
    (by simp only [pow_zero, Nat.mod_one, gval]; apply Complex.ext <;> simp [gv])
  unfold powNumber
  exact cFromMpq_good h.1.1 h.1.2 h.2.symm

end SymVerif.C05
