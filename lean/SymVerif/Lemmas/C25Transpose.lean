import SymVerif.Lemmas.C25Binop
/-!
C25 — `CSRMatrix::transpose`: counting sort by column.
-/
namespace SymVerif.C25
open SymVerif.CSR Finset

/-- number of stored positions in `[i, N)` whose column index is `c` -/
def cntFrom (j : Array Nat) (N i c : Nat) : Nat := ∑ k ∈ Ico i N, if j[k]! = c then 1 else 0

/-- start of row `c` of the transposed matrix -/
def tbase (j : Array Nat) (N r : Nat) : Nat := ∑ c ∈ Ico 0 r, cntFrom j N 0 c

theorem cntFrom_peel (j : Array Nat) (N i c : Nat) (h : i < N) :
    cntFrom j N i c = (if j[i]! = c then 1 else 0) + cntFrom j N (i + 1) c := by
  unfold cntFrom
  rw [Finset.sum_eq_sum_Ico_succ_bot h]

theorem cntFrom_end (j : Array Nat) (N c : Nat) : cntFrom j N N c = 0 := by
  simp [cntFrom]

theorem tbase_succ (j : Array Nat) (N r : Nat) : tbase j N (r + 1) = tbase j N r + cntFrom j N 0 r := by
  unfold tbase
  rw [Finset.sum_Ico_succ_top (Nat.zero_le r)]

theorem tbase_mono (j : Array Nat) (N : Nat) : ∀ a b, a ≤ b → tbase j N a ≤ tbase j N b := by
  intro a b hab
  induction b with
  | zero => have : a = 0 := by omega
            subst this; exact Nat.le_refl _
  | succ b ih =>
    by_cases h : a = b + 1
    · subst h; exact Nat.le_refl _
    · have := ih (by omega)
      rw [tbase_succ]; omega

theorem tbase_col (j : Array Nat) (N col : Nat) (h : ∀ k, k < N → j[k]! < col) :
    tbase j N col = N := by
  unfold tbase cntFrom
  rw [Finset.sum_comm]
  have : ∀ k ∈ Ico 0 N, (∑ c ∈ Ico 0 col, if j[k]! = c then 1 else 0) = 1 := by
    intro k hk
    rw [Finset.mem_Ico] at hk
    rw [Finset.sum_ite_eq (Ico 0 col) j[k]! (fun _ => 1)]
    have := h k hk.2
    simp [this]
  rw [Finset.sum_congr rfl this]
  simp

/-- every position below `bs col` lies in exactly one segment -/
theorem find_segment (bs : Nat → Nat) (h0 : bs 0 = 0) :
    ∀ col k, k < bs col → ∃ c, c < col ∧ bs c ≤ k ∧ k < bs (c + 1) := by
  intro col
  induction col with
  | zero => intro k hk; omega
  | succ col ih =>
    intro k hk
    by_cases h : k < bs col
    · obtain ⟨c, h1, h2, h3⟩ := ih k h
      exact ⟨c, by omega, h2, h3⟩
    · exact ⟨col, by omega, by omega, hk⟩

/-! ### count and prefix sums -/

theorem colCount_spec (j : Array Nat) :
    ∀ n i (p : Array Nat), i + n ≤ j.size → (∀ k, k < j.size → j[k]! + 1 < p.size) →
      ∃ p', colCount j n i p = .ok p' ∧ p'.size = p.size ∧
        ∀ r, r < p.size → p'[r]! = p[r]! + ∑ k ∈ Ico i (i + n), if j[k]! + 1 = r then 1 else 0 := by
  intro n
  induction n with
  | zero => intro i p _ _; exact ⟨p, rfl, rfl, fun r _ => by simp⟩
  | succ n ih =>
    intro i p hin hp
    have hi : i < j.size := by omega
    have hc := hp i hi
    unfold colCount
    simp only [rd_lt hi, ok_bind, rd_lt hc, wr_lt _ hc]
    obtain ⟨p', e, s, g⟩ := ih (i + 1) (p.set (j[i]! + 1) (p[j[i]! + 1]! + 1) hc) (by omega)
      (fun k hk => by simpa using hp k hk)
    refine ⟨p', e, by simpa using s, fun r hr => ?_⟩
    rw [g r (by simpa using hr), set_get!,
        Finset.sum_eq_sum_Ico_succ_bot (by omega : i < i + (n + 1))]
    have : i + 1 + n = i + (n + 1) := by omega
    rw [this]
    by_cases hr1 : r = j[i]! + 1
    · subst hr1; simp; omega
    · have : ¬ j[i]! + 1 = r := fun h => hr1 h.symm
      simp [hr1, this]

theorem psumLoop_spec :
    ∀ n i acc (p : Array Nat), i + n ≤ p.size →
      ∃ p', psumLoop n i acc p = .ok p' ∧ p'.size = p.size ∧
        ∀ r, p'[r]! = if i ≤ r ∧ r < i + n then acc + ∑ r' ∈ Ico i (r + 1), p[r']! else p[r]! := by
  intro n
  induction n with
  | zero =>
    intro i acc p _
    refine ⟨p, rfl, rfl, fun r => ?_⟩
    have : ¬ (i ≤ r ∧ r < i + 0) := by omega
    rw [if_neg this]
  | succ n ih =>
    intro i acc p hsz
    have hi : i < p.size := by omega
    unfold psumLoop
    simp only [rd_lt hi, ok_bind, wr_lt _ hi]
    obtain ⟨p', e, s, g⟩ := ih (i + 1) (acc + p[i]!) (p.set i (acc + p[i]!) hi) (by simp; omega)
    refine ⟨p', e, by simpa using s, fun r => ?_⟩
    rw [g r]
    by_cases hri : r = i
    · subst hri
      have n1 : ¬ (r + 1 ≤ r ∧ r < r + 1 + n) := by omega
      have n2 : r ≤ r ∧ r < r + (n + 1) := by omega
      rw [if_neg n1, if_pos n2, set_get!, if_pos rfl]
      simp
    · by_cases hc : i + 1 ≤ r ∧ r < i + 1 + n
      · have n2 : i ≤ r ∧ r < i + (n + 1) := by omega
        rw [if_pos hc, if_pos n2, Finset.sum_eq_sum_Ico_succ_bot (by omega : i < r + 1)]
        have : ∑ r' ∈ Ico (i + 1) (r + 1), (p.set i (acc + p[i]!) hi)[r']!
            = ∑ r' ∈ Ico (i + 1) (r + 1), p[r']! := by
          apply Finset.sum_congr rfl
          intro r' hr'
          rw [Finset.mem_Ico] at hr'
          rw [set_get!]
          have : ¬ r' = i := by omega
          rw [if_neg this]
        rw [this]; omega
      · have n2 : ¬ (i ≤ r ∧ r < i + (n + 1)) := by omega
        rw [if_neg hc, if_neg n2, set_get!, if_neg hri]

/-! ### the scatter -/

/-- the inner loop over the positions `[i, hi)` of row `ri` -/
theorem trRow_spec (m : Mat) (p : Array Nat) (ri hi col N : Nat) (bs : Nat → Nat)
    (hbm : ∀ a b, a ≤ b → b ≤ col → bs a ≤ bs b) (hbN : bs col ≤ N)
    (hp : ∀ c, c < col → p[c]! = bs c) (hps : col ≤ p.size)
    (hmj : m.j.size = N) (hmx : m.x.size = N) (hhi : hi ≤ N)
    (hjc : ∀ k, k < N → m.j[k]! < col) :
    ∀ n i (tmp j : Array Nat) (x : Array Q), i + n = hi → SortedOn m.j i hi →
      tmp.size = col → j.size = N → x.size = N →
      (∀ c, c < col → bs c + tmp[c]! + cntFrom m.j N i c = bs (c + 1)) →
      (∀ c, c < col → SortedOn j (bs c) (bs c + tmp[c]!)) →
      (∀ c, c < col → ∀ k, bs c ≤ k → k < bs c + tmp[c]! →
        j[k]! ≤ ri ∧ (j[k]! = ri → ∀ i', i ≤ i' → i' < hi → c < m.j[i']!)) →
      ∃ tmp' j' x', trRow m p ri n i tmp j x = .ok (tmp', j', x') ∧ tmp'.size = col ∧ j'.size = N ∧
        x'.size = N ∧
        (∀ c, c < col → bs c + tmp'[c]! + cntFrom m.j N hi c = bs (c + 1)) ∧
        (∀ c, c < col → SortedOn j' (bs c) (bs c + tmp'[c]!)) ∧
        (∀ c, c < col → ∀ k, bs c ≤ k → k < bs c + tmp'[c]! → j'[k]! ≤ ri) ∧
        ∀ c r', c < col → ∑ k ∈ Ico (bs c) (bs c + tmp'[c]!), cellOf j' x' r' k
          = ∑ k ∈ Ico (bs c) (bs c + tmp[c]!), cellOf j x r' k
            + (if r' = ri then ∑ k ∈ Ico i hi, cellOf m.j m.x c k else 0) := by
  intro n
  induction n with
  | zero =>
    intro i tmp j x hin _ ht hj hx h1 h2 h3
    have : i = hi := by omega
    subst this
    refine ⟨tmp, j, x, rfl, ht, hj, hx, h1, h2, fun c hc k hk1 hk2 => (h3 c hc k hk1 hk2).1,
      fun c r' hc => by simp⟩
  | succ n ih =>
    intro i tmp j x hin hsm ht hj hx h1 h2 h3
    have hi' : i < hi := by omega
    have hiN : i < N := by omega
    have a1 : i < m.j.size := by omega
    have a2 : i < m.x.size := by omega
    have hci : m.j[i]! < col := hjc i hiN
    have a3 : m.j[i]! < p.size := by omega
    have a4 : m.j[i]! < tmp.size := by omega
    have hcap := h1 _ hci
    rw [cntFrom_peel m.j N i _ hiN, if_pos rfl] at hcap
    have hb1 := hbm (m.j[i]! + 1) col (by omega) (Nat.le_refl _)
    have hk : bs m.j[i]! + tmp[m.j[i]!]! < N := by omega
    have a5 : p[m.j[i]!]! + tmp[m.j[i]!]! < j.size := by rw [hp _ hci]; omega
    have a6 : p[m.j[i]!]! + tmp[m.j[i]!]! < x.size := by rw [hp _ hci]; omega
    unfold trRow
    simp only [rd_lt a1, ok_bind, rd_lt a3, rd_lt a4, wr_lt _ a5, rd_lt a2, wr_lt _ a6, wr_lt _ a4]
    generalize hcidef : m.j[i]! = ci at *
    generalize hkdef : p[ci]! + tmp[ci]! = kk at *
    have hkk : kk = bs ci + tmp[ci]! := by rw [← hkdef, hp ci hci]
    -- positions of other segments differ from `kk`
    have hdisj : ∀ c, c < col → c ≠ ci → ∀ k, bs c ≤ k → k < bs (c + 1) → k ≠ kk := by
      intro c hc hne k hk1 hk2
      rcases Nat.lt_or_gt_of_ne hne with hlt | hgt
      · have := hbm (c + 1) ci (by omega) (by omega); omega
      · have := hbm (ci + 1) c (by omega) (by omega); omega
    have hfill : ∀ c, c < col → bs c + tmp[c]! ≤ bs (c + 1) := fun c hc => by
      have := h1 c hc; omega
    obtain ⟨tmp', j', x', e, s1, s2, s3, g1, g2, g3, g4⟩ :=
      ih (i + 1) (tmp.set ci (tmp[ci]! + 1) a4) (j.set kk ri a5) (x.set kk m.x[i]! a6) (by omega)
        (fun a b h1 h2 h3 => hsm a b (by omega) h2 h3) (by simpa using ht) (by simpa using hj)
        (by simpa using hx)
        (fun c hc => by
          rw [set_get!]
          have := h1 c hc
          rw [cntFrom_peel m.j N i c hiN, hcidef] at this
          by_cases hcc : c = ci
          · subst hcc; rw [if_pos rfl] at this ⊢; omega
          · have hne : ¬ ci = c := fun h => hcc h.symm
            rw [if_neg hne] at this
            rw [if_neg hcc]; omega)
        (fun c hc a b ha hab hb => by
          rw [set_get!] at hb
          rw [set_get!, set_get!]
          by_cases hcc : c = ci
          · subst hcc
            rw [if_pos rfl] at hb
            have na : ¬ a = kk := by omega
            rw [if_neg na]
            by_cases hbk : b = kk
            · rw [if_pos hbk]
              obtain ⟨l1, l2⟩ := h3 c hc a ha (by omega)
              by_cases hl : j[a]! = ri
              · have := l2 hl i (Nat.le_refl _) hi'
                rw [hcidef] at this; omega
              · omega
            · rw [if_neg hbk]
              exact h2 c hc a b ha hab (by omega)
          · rw [if_neg hcc] at hb
            have := hfill c hc
            have na := hdisj c hc hcc a ha (by omega)
            have nb := hdisj c hc hcc b (by omega) (by omega)
            rw [if_neg na, if_neg nb]
            exact h2 c hc a b ha hab hb)
        (fun c hc k hk1 hk2 => by
          rw [set_get!] at hk2
          rw [set_get!]
          by_cases hcc : c = ci
          · subst hcc
            rw [if_pos rfl] at hk2
            by_cases hkk' : k = kk
            · rw [if_pos hkk']
              refine ⟨Nat.le_refl _, fun _ i' hi1 hi2 => ?_⟩
              have := hsm i i' (Nat.le_refl _) (by omega) hi2
              rw [hcidef] at this; exact this
            · rw [if_neg hkk']
              obtain ⟨l1, l2⟩ := h3 c hc k hk1 (by omega)
              exact ⟨l1, fun h i' hi1 hi2 => l2 h i' (by omega) hi2⟩
          · rw [if_neg hcc] at hk2
            have := hfill c hc
            have nk := hdisj c hc hcc k hk1 (by omega)
            rw [if_neg nk]
            obtain ⟨l1, l2⟩ := h3 c hc k hk1 hk2
            exact ⟨l1, fun h i' hi1 hi2 => l2 h i' (by omega) hi2⟩)
    refine ⟨tmp', j', x', e, s1, s2, s3, g1, g2, g3, fun c r' hc => ?_⟩
    rw [g4 c r' hc, set_get!, sum_peel m.j m.x i hi c hi', hcidef]
    by_cases hcc : c = ci
    · subst hcc
      rw [if_pos rfl, if_pos rfl, ← Nat.add_assoc, Finset.sum_Ico_succ_top (by omega), ← hkk,
          cellOf_set2, if_pos rfl]
      have : ∑ k ∈ Ico (bs c) kk, cellOf (j.set kk ri a5) (x.set kk m.x[i]! a6) r' k
          = ∑ k ∈ Ico (bs c) kk, cellOf j x r' k := by
        apply sum_Ico_congr
        intro k _ hk2
        rw [cellOf_set2]
        have : ¬ k = kk := by omega
        rw [if_neg this]
      rw [this]
      by_cases hr : r' = ri
      · subst hr; simp only [if_true]; ring
      · have : ¬ ri = r' := fun h => hr h.symm
        simp only [hr, this, if_false]; ring
    · have hne : ¬ ci = c := fun h => hcc h.symm
      rw [if_neg hcc, if_neg hne, zero_add]
      congr 1
      apply sum_Ico_congr
      intro k hk1 hk2
      rw [cellOf_set2]
      have := hfill c hc
      have nk := hdisj c hc hcc k hk1 (by omega)
      rw [if_neg nk]


/-- the outer loop over the rows `[ri, row)` -/
theorem trRows_spec {m : Mat} (hm : CanonCSR m) (p : Array Nat) (bs : Nat → Nat)
    (hbm : ∀ a b, a ≤ b → b ≤ m.col → bs a ≤ bs b) (hbN : bs m.col ≤ m.j.size)
    (hp : ∀ c, c < m.col → p[c]! = bs c) (hps : m.col ≤ p.size) :
    ∀ n ri (tmp j : Array Nat) (x : Array Q), ri + n = m.row →
      tmp.size = m.col → j.size = m.j.size → x.size = m.j.size →
      (∀ c, c < m.col → bs c + tmp[c]! + cntFrom m.j m.j.size m.p[ri]! c = bs (c + 1)) →
      (∀ c, c < m.col → SortedOn j (bs c) (bs c + tmp[c]!)) →
      (∀ c, c < m.col → ∀ k, bs c ≤ k → k < bs c + tmp[c]! → j[k]! < ri) →
      ∃ tmp' j' x', trRows m p n ri tmp j x = .ok (tmp', j', x') ∧ tmp'.size = m.col ∧
        j'.size = m.j.size ∧ x'.size = m.j.size ∧
        (∀ c, c < m.col → bs c + tmp'[c]! = bs (c + 1)) ∧
        (∀ c, c < m.col → SortedOn j' (bs c) (bs c + tmp'[c]!)) ∧
        (∀ c, c < m.col → ∀ k, bs c ≤ k → k < bs c + tmp'[c]! → j'[k]! < m.row) ∧
        ∀ c r', c < m.col → ∑ k ∈ Ico (bs c) (bs c + tmp'[c]!), cellOf j' x' r' k
          = ∑ k ∈ Ico (bs c) (bs c + tmp[c]!), cellOf j x r' k
            + (if ri ≤ r' ∧ r' < m.row then dense m r' c else 0) := by
  intro n
  induction n with
  | zero =>
    intro ri tmp j x hin ht hj hx h1 h2 h3
    have : ri = m.row := by omega
    subst this
    refine ⟨tmp, j, x, rfl, ht, hj, hx, fun c hc => ?_, h2, h3, fun c r' hc => ?_⟩
    · have := h1 c hc
      rw [hm.plast, cntFrom_end] at this
      omega
    · have : ¬ (m.row ≤ r' ∧ r' < m.row) := by omega
      rw [if_neg this]; simp
  | succ n ih =>
    intro ri tmp j x hin ht hj hx h1 h2 h3
    have hri : ri < m.row := by omega
    have hps' := hm.psize
    have a1 : ri < m.p.size := by omega
    have a2 : ri + 1 < m.p.size := by omega
    have hr := hm.row_le hri
    unfold trRows
    simp only [rd_lt a1, rd_lt a2, ok_bind]
    obtain ⟨tmp1, j1, x1, e1, s1, s2, s3, g1, g2, g3, g4⟩ :=
      trRow_spec m p ri m.p[ri + 1]! m.col m.j.size bs hbm hbN hp hps rfl hm.xsize hr.2 hm.jlt
        (m.p[ri + 1]! - m.p[ri]!) m.p[ri]! tmp j x (by omega) (hm.sorted ri hri) ht hj hx h1 h2
        (fun c hc k hk1 hk2 => by
          have := h3 c hc k hk1 hk2
          exact ⟨by omega, fun h => by omega⟩)
    simp only [e1, ok_bind]
    obtain ⟨tmp', j', x', e2, t1, t2, t3, f1, f2, f3, f4⟩ :=
      ih (ri + 1) tmp1 j1 x1 (by omega) s1 s2 s3 g1 g2
        (fun c hc k hk1 hk2 => by have := g3 c hc k hk1 hk2; omega)
    refine ⟨tmp', j', x', e2, t1, t2, t3, f1, f2, f3, fun c r' hc => ?_⟩
    rw [f4 c r' hc, g4 c r' hc]
    by_cases h : r' = ri
    · subst h
      have n1 : ¬ (r' + 1 ≤ r' ∧ r' < m.row) := by omega
      have n2 : r' ≤ r' ∧ r' < m.row := by omega
      rw [if_pos rfl, if_neg n1, if_pos n2]
      simp [dense]
    · rw [if_neg h]
      by_cases h' : ri + 1 ≤ r' ∧ r' < m.row
      · have n2 : ri ≤ r' ∧ r' < m.row := by omega
        rw [if_pos h', if_pos n2]; ring
      · have n2 : ¬ (ri ≤ r' ∧ r' < m.row) := by omega
        rw [if_neg h', if_neg n2]; ring

/-- `CSRMatrix::transpose`: canonical, `col × row`, and the dense image is transposed; all reads
and writes are in bounds -/
theorem transpose_spec {m : Mat} (hm : CanonCSR m) :
    ∃ t, transpose m = .ok t ∧ CanonCSR t ∧ t.row = m.col ∧ t.col = m.row ∧
      ∀ c r, c < m.col → r < m.row → dense t c r = dense m r c := by
  -- counts
  obtain ⟨p1, e1, s1, g1⟩ := colCount_spec m.j m.j.size 0 (Array.replicate (m.col + 1) 0) (by omega)
    (fun k hk => by simp; exact hm.jlt k hk)
  have s1' : p1.size = m.col + 1 := by simpa using s1
  have g1' : ∀ r, r ≤ m.col → p1[r]! = ∑ k ∈ Ico 0 m.j.size, if m.j[k]! + 1 = r then 1 else 0 := by
    intro r hr
    rw [g1 r (by simp; omega), replicate_get! _ _ _ (by omega)]
    simp
  have hp10 : p1[0]! = 0 := by
    rw [g1' 0 (Nat.zero_le _)]
    apply Finset.sum_eq_zero
    intro k _
    simp
  have hp1c : ∀ c, c < m.col → p1[c + 1]! = cntFrom m.j m.j.size 0 c := by
    intro c hc
    rw [g1' (c + 1) (by omega)]
    unfold cntFrom
    apply Finset.sum_congr rfl
    intro k _
    simp
  -- prefix sums
  have hne : ¬ p1.size = 0 := by omega
  have h0 : 0 < p1.size := by omega
  obtain ⟨p2, e2, s2, g2⟩ := psumLoop_spec (p1.size - 1) 1 p1[0]! p1 (by omega)
  have g2' : ∀ r, r ≤ m.col → p2[r]! = tbase m.j m.j.size r := by
    intro r hr
    rw [g2 r]
    by_cases hr0 : r = 0
    · subst hr0
      have : ¬ (1 ≤ 0 ∧ 0 < 1 + (p1.size - 1)) := by omega
      rw [if_neg this, hp10]; simp [tbase]
    · have : 1 ≤ r ∧ r < 1 + (p1.size - 1) := by omega
      rw [if_pos this, hp10, Nat.zero_add]
      unfold tbase
      have hr1 : r = (r - 1) + 1 := by omega
      rw [hr1, Finset.sum_Ico_add' (fun r' => p1[r']!) 0 (r - 1 + 1) 1 |>.symm]
      apply Finset.sum_congr rfl
      intro c hc
      rw [Finset.mem_Ico] at hc
      exact hp1c c (by omega)
  have hbm : ∀ a b, a ≤ b → b ≤ m.col → tbase m.j m.j.size a ≤ tbase m.j m.j.size b :=
    fun a b hab _ => tbase_mono m.j m.j.size a b hab
  have hbcol := tbase_col m.j m.j.size m.col hm.jlt
  -- scatter
  obtain ⟨tmp', j', x', e3, t1, t2, t3, f1, f2, f3, f4⟩ :=
    trRows_spec hm p2 (tbase m.j m.j.size) hbm (by omega) (fun c hc => g2' c (by omega)) (by omega)
      m.row 0 (Array.replicate m.col 0) (Array.replicate m.j.size 0) (Array.replicate m.j.size 0)
      (by omega) (by simp) (by simp) (by simp)
      (fun c hc => by
        rw [replicate_get! _ _ _ hc, hm.p0, tbase_succ]; omega)
      (fun c hc a b ha hab hb => by rw [replicate_get! _ _ _ hc] at hb; omega)
      (fun c hc k hk1 hk2 => by rw [replicate_get! _ _ _ hc] at hk2; omega)
  have hcanon : CanonCSR { row := m.col, col := m.row, p := p2, j := j', x := x' } := by
    refine { psize := by show p2.size = m.col + 1; omega, xsize := by show x'.size = j'.size; omega,
             p0 := ?_, plast := ?_, pmono := ?_, sorted := ?_, jlt := ?_ }
    · show p2[0]! = 0
      rw [g2' 0 (Nat.zero_le _)]; simp [tbase]
    · show p2[m.col]! = j'.size
      rw [g2' m.col (Nat.le_refl _), hbcol, t2]
    · intro a b hab hb
      have hb' : b ≤ m.col := hb
      show p2[a]! ≤ p2[b]!
      rw [g2' a (by omega), g2' b hb']
      exact hbm a b hab hb'
    · intro c hc
      have hc' : c < m.col := hc
      show SortedOn j' p2[c]! p2[c + 1]!
      rw [g2' c (by omega), g2' (c + 1) (by omega), ← f1 c hc']
      exact f2 c hc'
    · intro k hk
      have hk' : k < m.j.size := by
        have : k < j'.size := hk
        omega
      show j'[k]! < m.row
      obtain ⟨c, hc1, hc2, hc3⟩ := find_segment (tbase m.j m.j.size) (by simp [tbase]) m.col k
        (by omega)
      exact f3 c hc1 k hc2 (by rw [f1 c hc1]; exact hc3)
  unfold transpose
  simp only [e1, ok_bind, hne, if_false, rd_lt h0, e2, e3, mk_of_canon hcanon]
  refine ⟨_, rfl, hcanon, rfl, rfl, fun c r hc hr => ?_⟩
  unfold dense
  simp only
  rw [g2' c (by omega), g2' (c + 1) (by omega), ← f1 c hc, f4 c r hc, replicate_get! _ _ _ hc]
  have : 0 ≤ r ∧ r < m.row := by omega
  rw [if_pos this]
  simp [dense]

end SymVerif.C25
