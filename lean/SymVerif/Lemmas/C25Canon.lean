import SymVerif.Lemmas.C25Set
/-!
C25 — `is_canonical` accepts every `CanonCSR` state (so the asserting constructors do not fire),
`conjugate`, `csr_scale_rows`, `csr_scale_columns`, `csr_diagonal`.
-/
namespace SymVerif.C25
open SymVerif.CSR Finset

/-! ### is_canonical -/

theorem adjLoop_false (bad : Nat → Nat → Bool) (j : Array Nat) (hi : Nat) (hj : hi ≤ j.size) :
    ∀ f jj, (∀ k, jj ≤ k → k + 1 < hi → bad j[k]! j[k + 1]! = false) →
      adjLoop bad j hi f jj = .ok false := by
  intro f
  induction f with
  | zero => intro jj _; rfl
  | succ f ih =>
    intro jj h
    unfold adjLoop
    by_cases hlt : jj + 1 < hi
    · have h1 : jj < j.size := by omega
      have h2 : jj + 1 < j.size := by omega
      simp only [hlt, if_true, rd_lt h1, rd_lt h2, ok_bind, h jj (Nat.le_refl _) hlt]
      simp only [Bool.false_eq_true, if_false]
      exact ih (jj + 1) (fun k hk1 hk2 => h k (by omega) hk2)
    · simp only [hlt, if_false, pure_ok]

theorem rowsAny_false (bad : Nat → Nat → Bool) (p j : Array Nat) :
    ∀ n i, i + n < p.size →
      (∀ r, i ≤ r → r < i + n → p[r + 1]! ≤ j.size ∧
        ∀ k, p[r]! ≤ k → k + 1 < p[r + 1]! → bad j[k]! j[k + 1]! = false) →
      rowsAny bad p j n i = .ok false := by
  intro n
  induction n with
  | zero => intro i _ _; rfl
  | succ n ih =>
    intro i hsz h
    unfold rowsAny
    have h1 : i < p.size := by omega
    have h2 : i + 1 < p.size := by omega
    obtain ⟨hb, hk⟩ := h i (Nat.le_refl _) (by omega)
    simp only [rd_lt h1, rd_lt h2, ok_bind, adjLoop_false bad j _ hb _ _ hk]
    simp only [Bool.false_eq_true, if_false]
    exact ih (i + 1) (by omega) (fun r hr1 hr2 => h r (by omega) (by omega))

theorem pDecreases_false (p : Array Nat) :
    ∀ n i, i + n < p.size → (∀ r, i ≤ r → r < i + n → p[r]! ≤ p[r + 1]!) →
      pDecreases p n i = .ok false := by
  intro n
  induction n with
  | zero => intro i _ _; rfl
  | succ n ih =>
    intro i hsz h
    unfold pDecreases
    have h1 : i < p.size := by omega
    have h2 : i + 1 < p.size := by omega
    have := h i (Nat.le_refl _) (by omega)
    have hn : ¬ p[i]! > p[i + 1]! := by omega
    simp only [rd_lt h1, rd_lt h2, ok_bind, hn, if_false]
    exact ih (i + 1) (by omega) (fun r hr1 hr2 => h r (by omega) (by omega))

/-- a canonical state passes the library's own `is_canonical` (all reads in bounds) -/
theorem isCanonical_of_canon {m : Mat} (h : CanonCSR m) : isCanonical m = .ok true := by
  have hps := h.psize
  have hrow : m.row < m.p.size := by omega
  have hrows : ∀ r, 0 ≤ r → r < 0 + m.row → m.p[r + 1]! ≤ m.j.size ∧
      ∀ k, m.p[r]! ≤ k → k + 1 < m.p[r + 1]! → m.j[k]! < m.j[k + 1]! := by
    intro r _ hr
    have hr' : r < m.row := by omega
    exact ⟨(h.row_le hr').2, fun k hk1 hk2 => h.sorted r hr' k (k + 1) hk1 (by omega) hk2⟩
  unfold isCanonical
  have hne : ¬ m.p.size ≠ m.row + 1 := by omega
  simp only [hne, if_false, rd_lt hrow, ok_bind, h.plast, h.xsize, ne_eq, not_true_eq_false, or_self,
    pure_ok]
  by_cases hz : m.j.size = 0
  · simp [hz]
  · simp only [hz, not_false_eq_true, if_true]
    unfold hasCanonicalFormat
    rw [pDecreases_false m.p m.row 0 (by omega)
      (fun r _ hr => h.pmono r (r + 1) (by omega) (by omega))]
    simp only [ok_bind, Bool.false_eq_true, if_false]
    unfold hasSortedIndices hasDuplicates
    rw [rowsAny_false _ m.p m.j m.row 0 (by omega) (fun r h1 h2 => by
      obtain ⟨ha, hb⟩ := hrows r h1 h2
      exact ⟨ha, fun k hk1 hk2 => by have := hb k hk1 hk2; simp; omega⟩)]
    rw [rowsAny_false _ m.p m.j m.row 0 (by omega) (fun r h1 h2 => by
      obtain ⟨ha, hb⟩ := hrows r h1 h2
      exact ⟨ha, fun k hk1 hk2 => by have := hb k hk1 hk2; simp; omega⟩)]
    simp

/-- the asserting constructor accepts canonical arrays -/
theorem mk_of_canon {row col : Nat} {p j : Array Nat} {x : Array Q}
    (h : CanonCSR { row := row, col := col, p := p, j := j, x := x }) :
    CSR.mk row col p j x = .ok { row := row, col := col, p := p, j := j, x := x } := by
  unfold CSR.mk
  simp only [isCanonical_of_canon h, ok_bind, if_true, pure_ok]

/-- `conjugate` (as patched; the identity on rational entries) -/
theorem conjugate_spec {m : Mat} (h : CanonCSR m) : conjugate m = .ok m := by
  unfold conjugate
  exact mk_of_canon (row := m.row) (col := m.col) (p := m.p) (j := m.j) (x := m.x) h


/-! ### csr_scale_rows -/

theorem scaleRange_spec (s : Q) :
    ∀ n jj (x : Array Q), jj + n ≤ x.size →
      ∃ x', scaleRange s n jj x = .ok x' ∧ x'.size = x.size ∧
        ∀ k, x'[k]! = if jj ≤ k ∧ k < jj + n then x[k]! * s else x[k]! := by
  intro n
  induction n with
  | zero =>
    intro jj x _
    refine ⟨x, rfl, rfl, fun k => ?_⟩
    have : ¬ (jj ≤ k ∧ k < jj + 0) := by omega
    rw [if_neg this]
  | succ n ih =>
    intro jj x hsz
    have hjj : jj < x.size := by omega
    unfold scaleRange
    simp only [rd_lt hjj, ok_bind, wr_lt _ hjj]
    obtain ⟨x', h1, h2, h3⟩ := ih (jj + 1) (x.set jj (x[jj]! * s) hjj) (by simp; omega)
    refine ⟨x', h1, by simpa using h2, fun k => ?_⟩
    rw [h3 k, set_get!]
    by_cases hk : k = jj
    · subst hk
      have n1 : ¬ (k + 1 ≤ k ∧ k < k + 1 + n) := by omega
      have n2 : k ≤ k ∧ k < k + (n + 1) := by omega
      rw [if_neg n1, if_pos rfl, if_pos n2]
    · by_cases hc : jj + 1 ≤ k ∧ k < jj + 1 + n
      · have n2 : jj ≤ k ∧ k < jj + (n + 1) := by omega
        rw [if_pos hc, if_neg hk, if_pos n2]
      · have n2 : ¬ (jj ≤ k ∧ k < jj + (n + 1)) := by omega
        rw [if_neg hc, if_neg hk, if_neg n2]

theorem scaleRowsLoop_spec (p : Array Nat) (X : Array Q) (row : Nat) (hps : p.size = row + 1)
    (hmono : ∀ a b, a ≤ b → b ≤ row → p[a]! ≤ p[b]!) :
    ∀ n i (x : Array Q), i + n = row → p[row]! ≤ x.size → row ≤ X.size →
      (∀ r, i ≤ r → r < row → X[r]! ≠ 0) →
      ∃ x', scaleRowsLoop p X n i x = .ok x' ∧ x'.size = x.size ∧
        (∀ k, k < p[i]! → x'[k]! = x[k]!) ∧
        (∀ r, i ≤ r → r < row → ∀ k, p[r]! ≤ k → k < p[r + 1]! → x'[k]! = x[k]! * X[r]!) := by
  intro n
  induction n with
  | zero =>
    intro i x _ _ _ _
    exact ⟨x, rfl, rfl, fun _ _ => rfl, fun r h1 h2 => by omega⟩
  | succ n ih =>
    intro i x hin hx hX hnz
    have hi : i < row := by omega
    have h1 : i < p.size := by omega
    have h2 : i + 1 < p.size := by omega
    have hXi : i < X.size := by omega
    unfold scaleRowsLoop
    simp only [rd_lt hXi, ok_bind, hnz i (Nat.le_refl _) hi, if_false, rd_lt h1, rd_lt h2]
    have hm1 := hmono i (i + 1) (by omega) (by omega)
    have hm2 := hmono (i + 1) row (by omega) (by omega)
    obtain ⟨x1, e1, s1, g1⟩ := scaleRange_spec X[i]! (p[i + 1]! - p[i]!) p[i]! x (by omega)
    simp only [e1, ok_bind]
    obtain ⟨x', e2, s2, g2, g3⟩ := ih (i + 1) x1 (by omega) (by omega) hX
      (fun r hr1 hr2 => hnz r (by omega) hr2)
    refine ⟨x', e2, by omega, ?_, ?_⟩
    · intro k hk
      rw [g2 k (by omega), g1 k]
      have : ¬ (p[i]! ≤ k ∧ k < p[i]! + (p[i + 1]! - p[i]!)) := by omega
      rw [if_neg this]
    · intro r hr1 hr2 k hk1 hk2
      by_cases hri : r = i
      · subst hri
        rw [g2 k hk2, g1 k]
        have : p[r]! ≤ k ∧ k < p[r]! + (p[r + 1]! - p[r]!) := by omega
        rw [if_pos this]
      · rw [g3 r (by omega) hr2 k hk1 hk2, g1 k]
        have := hmono (i + 1) r (by omega) (by omega)
        have : ¬ (p[i]! ≤ k ∧ k < p[i]! + (p[i + 1]! - p[i]!)) := by omega
        rw [if_neg this]

/-- `csr_scale_rows` with non-zero factors: canonical, and row `i` of the dense image is scaled -/
theorem scaleRows_spec {m : Mat} (h : CanonCSR m) (X : Array Q) (hX : X.size = m.row)
    (hnz : ∀ r, r < m.row → X[r]! ≠ 0) :
    ∃ m', scaleRows m X = .ok m' ∧ CanonCSR m' ∧ m'.row = m.row ∧ m'.col = m.col ∧
      ∀ i c, i < m.row → dense m' i c = dense m i c * X[i]! := by
  obtain ⟨x', e, s, _, g⟩ := scaleRowsLoop_spec m.p X m.row h.psize h.pmono m.row 0 m.x (by omega)
    (by rw [h.plast, h.xsize]) (by omega) (fun r _ hr => hnz r hr)
  unfold scaleRows
  have : ¬ m.row ≠ X.size := by omega
  simp only [this, if_false, e, ok_bind, pure_ok]
  refine ⟨_, rfl, ?_, rfl, rfl, ?_⟩
  · exact { psize := h.psize, xsize := by simpa [s] using h.xsize, p0 := h.p0, plast := h.plast,
            pmono := h.pmono, sorted := h.sorted, jlt := h.jlt }
  · intro i c hi
    unfold dense
    simp only
    rw [Finset.sum_mul]
    apply sum_Ico_congr
    intro k hk1 hk2
    unfold cellOf
    rw [g i (Nat.zero_le _) hi k hk1 hk2]
    by_cases hc : m.j[k]! = c
    · simp [hc]
    · simp [hc]

/-! ### csr_scale_columns -/

theorem scaleColsLoop_spec (j : Array Nat) (X : Array Q) :
    ∀ n i (x : Array Q), i + n ≤ x.size → i + n ≤ j.size → (∀ k, k < j.size → j[k]! < X.size) →
      ∃ x', scaleColsLoop j X n i x = .ok x' ∧ x'.size = x.size ∧
        ∀ k, x'[k]! = if i ≤ k ∧ k < i + n then x[k]! * X[j[k]!]! else x[k]! := by
  intro n
  induction n with
  | zero =>
    intro i x _ _ _
    refine ⟨x, rfl, rfl, fun k => ?_⟩
    have : ¬ (i ≤ k ∧ k < i + 0) := by omega
    rw [if_neg this]
  | succ n ih =>
    intro i x hx hj hX
    have hi : i < x.size := by omega
    have hij : i < j.size := by omega
    have hXi := hX i hij
    unfold scaleColsLoop
    simp only [rd_lt hij, ok_bind, rd_lt hXi, rd_lt hi, wr_lt _ hi]
    obtain ⟨x', h1, h2, h3⟩ := ih (i + 1) (x.set i (x[i]! * X[j[i]!]!) hi) (by simp; omega)
      (by omega) hX
    refine ⟨x', h1, by simpa using h2, fun k => ?_⟩
    rw [h3 k, set_get!]
    by_cases hk : k = i
    · subst hk
      have n1 : ¬ (k + 1 ≤ k ∧ k < k + 1 + n) := by omega
      have n2 : k ≤ k ∧ k < k + (n + 1) := by omega
      rw [if_neg n1, if_pos rfl, if_pos n2]
    · by_cases hc : i + 1 ≤ k ∧ k < i + 1 + n
      · have n2 : i ≤ k ∧ k < i + (n + 1) := by omega
        rw [if_pos hc, if_neg hk, if_pos n2]
      · have n2 : ¬ (i ≤ k ∧ k < i + (n + 1)) := by omega
        rw [if_neg hc, if_neg hk, if_neg n2]

/-- `csr_scale_columns` with non-zero factors: canonical, and column `c` of the dense image is scaled -/
theorem scaleCols_spec {m : Mat} (h : CanonCSR m) (X : Array Q) (hX : X.size = m.col)
    (hnz : ∀ c, c < m.col → X[c]! ≠ 0) :
    ∃ m', scaleCols m X = .ok m' ∧ CanonCSR m' ∧ m'.row = m.row ∧ m'.col = m.col ∧
      ∀ i c, i < m.row → dense m' i c = dense m i c * X[c]! := by
  have hps := h.psize
  have hrow : m.row < m.p.size := by omega
  obtain ⟨x', e, s, g⟩ := scaleColsLoop_spec m.j X m.j.size 0 m.x (by rw [h.xsize]; omega) (by omega)
    (fun k hk => by rw [hX]; exact h.jlt k hk)
  have hany : X.any (fun s => s == 0) = false := by
    rw [Array.any_eq_false]
    intro k hk
    have := hnz k (by omega)
    rw [getElem!_pos X k hk] at this
    simpa using this
  unfold scaleCols
  have : ¬ m.col ≠ X.size := by omega
  simp only [this, if_false, rd_lt hrow, ok_bind, h.plast, hany, Bool.false_eq_true, e, pure_ok]
  refine ⟨_, rfl, ?_, rfl, rfl, ?_⟩
  · exact { psize := h.psize, xsize := by simpa [s] using h.xsize, p0 := h.p0, plast := h.plast,
            pmono := h.pmono, sorted := h.sorted, jlt := h.jlt }
  · intro i c hi
    have hr := h.row_le hi
    unfold dense
    simp only
    rw [Finset.sum_mul]
    apply sum_Ico_congr
    intro k hk1 hk2
    unfold cellOf
    rw [g k]
    have : 0 ≤ k ∧ k < 0 + m.j.size := by omega
    rw [if_pos this]
    by_cases hc : m.j[k]! = c
    · simp [hc]
    · simp [hc]

/-! ### csr_diagonal (as patched) -/

theorem diagLoop_spec {m : Mat} (h : CanonCSR m) :
    ∀ n i, i + n ≤ m.row →
      diagLoop m n i = .ok ((List.range' i n).map (fun r => dense m r r)) := by
  intro n
  induction n with
  | zero => intro i _; rfl
  | succ n ih =>
    intro i hin
    have hi : i < m.row := by omega
    have hps := h.psize
    have h1 : i < m.p.size := by omega
    have h2 : i + 1 < m.p.size := by omega
    have hr := h.row_le hi
    unfold diagLoop
    simp only [rd_lt h1, rd_lt h2, ok_bind]
    rw [getLoop_spec m.j m.x i _ _ _ (by omega) hr.2 (by rw [h.xsize]; exact hr.2) (h.sorted i hi)]
    simp only [ok_bind, ih (i + 1) (by omega), pure_ok, List.range'_succ, List.map_cons]
    rfl

/-- `csr_diagonal` (as patched) returns the diagonal of the dense image -/
theorem diagonal_spec {m : Mat} (h : CanonCSR m) :
    diagonal m = .ok ((List.range (min m.row m.col)).map (fun r => dense m r r)) := by
  unfold diagonal
  rw [diagLoop_spec h _ 0 (by omega), List.range_eq_range']

end SymVerif.C25
