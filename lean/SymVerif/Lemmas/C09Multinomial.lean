/-
Soundness of the model of `multinomial_coefficients_mpz` (Model/Multinomial.lean): every entry `(k, c)` of an
`.ok` result satisfies `k.length = m`, `k.sum = n` and `c * ∏ kᵢ! = n!`, i.e. `c = n!/∏kᵢ!`.

Proof: loop invariant over `step` —
  * `t` has length `m` and sum `n`; the entries of `t` before position `j` are zero;
  * every entry of the table is sound.
The arithmetic core is the recurrence `(n − t₀)·M(t) = (t₀ + 1)·Σ_{k ≥ 1} M(t + e₀ − e_k)`.
-/
import Mathlib.Data.Nat.Factorial.Basic
import Mathlib.Data.Nat.Choose.Multinomial
import Mathlib.Tactic.Ring
import Mathlib.Tactic.Linarith
import SymVerif.Model.Multinomial

namespace SymVerif
namespace Multinomial

open Nat

/-- `∏ kᵢ!` -/
def prodFact : List Nat → Nat
  | [] => 1
  | a :: t => a ! * prodFact t

/-- the entry `(k, c)` is the multinomial coefficient of the composition `k` of `n` -/
def Sound (n : Nat) (e : List Nat × Nat) : Prop := e.1.sum = n ∧ e.2 * prodFact e.1 = n !

theorem prodFact_pos (l : List Nat) : 0 < prodFact l := by
  induction l with
  | nil => simp [prodFact]
  | cons a t ih => simp only [prodFact]; exact Nat.mul_pos (factorial_pos a) ih

theorem prodFact_dvd (l : List Nat) : prodFact l ∣ (l.sum)! := by
  induction l with
  | nil => simp [prodFact]
  | cons a t ih =>
    simp only [prodFact, List.sum_cons]
    exact dvd_trans (Nat.mul_dvd_mul_left _ ih) (factorial_mul_factorial_dvd_factorial_add a t.sum)

theorem sum_set {l : List Nat} {i a : Nat} (v : Nat) (h : l[i]? = some a) :
    (l.set i v).sum + a = l.sum + v := by
  induction l generalizing i with
  | nil => simp at h
  | cons b t ih =>
    cases i with
    | zero => simp at h; subst h; simp; omega
    | succ i => simp at h; have := ih h; simp; omega

theorem prodFact_set {l : List Nat} {i a : Nat} (v : Nat) (h : l[i]? = some a) :
    prodFact (l.set i v) * a ! = prodFact l * v ! := by
  induction l generalizing i with
  | nil => simp at h
  | cons b t ih =>
    cases i with
    | zero => simp at h; subst h; simp [prodFact]; ring
    | succ i =>
      simp at h
      have := ih h
      simp only [List.set_cons_succ, prodFact]
      calc b ! * prodFact (t.set i v) * a ! = b ! * (prodFact (t.set i v) * a !) := by ring
        _ = b ! * (prodFact t * v !) := by rw [this]
        _ = b ! * prodFact t * v ! := by ring

/-- lowering a positive entry by one divides `∏ kᵢ!` by that entry -/
theorem prodFact_dec {l : List Nat} {i a : Nat} (h : l[i]? = some a) (ha : a ≠ 0) :
    prodFact (l.set i (a - 1)) * a = prodFact l := by
  have h1 := prodFact_set (a - 1) h
  obtain ⟨b, rfl⟩ : ∃ b, a = b + 1 := ⟨a - 1, by omega⟩
  simp only [Nat.add_sub_cancel] at h1 ⊢
  rw [factorial_succ] at h1
  have hb := factorial_pos b
  have : prodFact (l.set i b) * (b + 1) * b ! = prodFact l * b ! := by
    rw [← h1]; ring
  exact Nat.eq_of_mul_eq_mul_right hb this

theorem lookup_mem {r : Tab} {t : List Nat} {c : Nat} (h : lookup r t = some c) : (t, c) ∈ r := by
  induction r with
  | nil => simp [lookup] at h
  | cons e r ih =>
    obtain ⟨k, v⟩ := e
    simp only [lookup] at h
    split at h
    · rename_i hk
      simp only [Option.some.injEq] at h
      subst hk; subst h
      exact List.mem_cons_self
    · exact List.mem_cons_of_mem _ (ih h)

/-- one summand of the recurrence: the coefficient of `t − e_i` times `∏ t!` is `n! · tᵢ` -/
theorem entry_identity {n : Nat} {r : Tab} (hr : ∀ e ∈ r, Sound n e) {t : List Nat} {i ti c : Nat}
    (hi : t[i]? = some ti) (h0 : ti ≠ 0) (hl : lookup r (t.set i (ti - 1)) = some c) :
    c * prodFact t = n ! * ti := by
  have hs := (hr _ (lookup_mem hl)).2
  simp only at hs
  rw [← prodFact_dec hi h0, ← hs]; ring

theorem innerSum_spec {n : Nat} {r : Tab} (hr : ∀ e ∈ r, Sound n e) (t : List Nat) :
    ∀ (cnt k s : Nat), k + cnt = t.length → innerSum r t k cnt = .ok s →
      s * prodFact t = n ! * (t.drop k).sum := by
  intro cnt
  induction cnt with
  | zero =>
    intro k s hk h
    simp only [innerSum, Except.ok.injEq] at h
    subst h
    have : t.drop k = [] := List.drop_eq_nil_of_le (by omega)
    simp [this]
  | succ cnt ih =>
    intro k s hk h
    simp only [innerSum] at h
    split at h
    · cases h
    · rename_i tk htk
      split at h
      · cases h
      · rename_i here hhere
        split at h
        · cases h
        · rename_i rest hrest
          simp only [Except.ok.injEq] at h
          subst h
          have hlt : k < t.length := by omega
          have hd : t.drop k = tk :: t.drop (k + 1) := by
            rw [List.drop_eq_getElem_cons hlt]
            congr 1
            rw [List.getElem?_eq_getElem hlt] at htk
            exact Option.some.inj htk
          have ihr := ih (k + 1) rest (by omega) hrest
          have hh : here * prodFact t = n ! * tk := by
            by_cases h0 : tk = 0
            · simp only [h0, if_true, Option.some.injEq] at hhere
              subst hhere; simp [h0]
            · simp only [h0, if_false] at hhere
              exact entry_identity hr htk h0 hhere
          rw [hd, List.sum_cons, Nat.add_mul, hh, ihr]; ring

/-- entries that are zero can be skipped in a tail sum -/
theorem drop_sum_skip_zeros (l : List Nat) (a : Nat) :
    ∀ (d : Nat), (∀ i, a ≤ i → i < a + d → l.getD i 0 = 0) → (l.drop a).sum = (l.drop (a + d)).sum := by
  intro d
  induction d with
  | zero => intro _; rfl
  | succ d ih =>
    intro hz
    rw [ih (fun i h1 h2 => hz i h1 (by omega))]
    by_cases hlt : a + d < l.length
    · rw [List.drop_eq_getElem_cons hlt]
      have := hz (a + d) (by omega) (by omega)
      rw [List.getD_eq_getElem?_getD, List.getElem?_eq_getElem hlt] at this
      simp only [Option.getD_some] at this
      rw [this]; simp [Nat.add_assoc]
    · rw [List.drop_eq_nil_of_le (by omega), List.drop_eq_nil_of_le (by omega)]

structure Inv (m n : Nat) (s : St) : Prop where
  len : s.t.length = m
  sum : s.t.sum = n
  zeros : ∀ i, i < s.j → s.t.getD i 0 = 0
  sound : ∀ e ∈ s.r, e.1.length = m ∧ Sound n e

/-- `t[0] -= 1; r[t] = v·tj/(n − t[0])` stores the multinomial coefficient of the new `t` -/
theorem finish_spec {m n : Nat} {r : Tab} (hr : ∀ e ∈ r, e.1.length = m ∧ Sound n e)
    {t2 : List Nat} {j' v tj : Nat} {s' : St}
    (hlen : t2.length = m) (hsum : t2.sum = n + 1) (htj : t2[0]? = some tj)
    (hv : v * prodFact t2 = n ! * (t2.drop 1).sum)
    (h : finish n r t2 j' v tj = .ok s') :
    s'.t = t2.set 0 (tj - 1) ∧ tj ≠ 0 ∧ s'.j = j' ∧ s'.t.length = m ∧ s'.t.sum = n ∧
      ∀ e ∈ s'.r, e.1.length = m ∧ Sound n e := by
  cases t2 with
  | nil => simp at htj
  | cons t0 rest =>
    simp only [List.getElem?_cons_zero, Option.some.injEq] at htj
    subst htj
    simp only [finish, List.getElem?_cons_zero] at h
    split at h
    · cases h
    · rename_i h0
      split at h
      · cases h
      · split at h
        · cases h
        · rename_i hd
          simp only [Except.ok.injEq] at h
          subst h
          simp only [List.sum_cons] at hsum
          simp only [List.drop_succ_cons, List.drop_zero] at hv
          have hrest : rest.sum = n - (t0 - 1) := by omega
          refine ⟨rfl, h0, rfl, by simpa using hlen, by simp only [List.set_cons_zero, List.sum_cons]; omega, ?_⟩
          intro e he
          simp only [List.mem_cons] at he
          rcases he with rfl | he
          · refine ⟨by simpa using hlen, by simp only [List.set_cons_zero, List.sum_cons]; omega, ?_⟩
            simp only [List.set_cons_zero, prodFact]
            -- M · P3 = n!, with P3 = (t0-1)! · ∏ rest
            obtain ⟨b, rfl⟩ : ∃ b, t0 = b + 1 := ⟨t0 - 1, by omega⟩
            simp only [Nat.add_sub_cancel] at hrest hd ⊢
            have hdvd : prodFact (b :: rest) ∣ n ! := by
              have := prodFact_dvd (b :: rest)
              rwa [List.sum_cons, show b + rest.sum = n by omega] at this
            obtain ⟨M, hM⟩ := hdvd
            simp only [prodFact] at hM hv
            rw [factorial_succ] at hv
            have hP := prodFact_pos rest
            have hb := factorial_pos b
            have key : v * (b + 1) = M * (n - b) := by
              have : v * (b + 1) * (b ! * prodFact rest) = M * (n - b) * (b ! * prodFact rest) := by
                rw [← hrest]
                calc v * (b + 1) * (b ! * prodFact rest) = v * ((b + 1) * b ! * prodFact rest) := by ring
                  _ = n ! * rest.sum := hv
                  _ = b ! * prodFact rest * M * rest.sum := by rw [hM]
                  _ = M * rest.sum * (b ! * prodFact rest) := by ring
              exact Nat.eq_of_mul_eq_mul_right (Nat.mul_pos hb hP) this
            rw [key, Nat.mul_div_cancel _ (by omega : 0 < n - b), hM]; ring
          · exact hr e he

theorem getD_of_getElem? {l : List Nat} {i a : Nat} (h : l[i]? = some a) : l.getD i 0 = a := by
  rw [List.getD_eq_getElem?_getD, h]; rfl

theorem getElem?_of_lt {l : List Nat} {i : Nat} (h : i < l.length) : l[i]? = some (l.getD i 0) := by
  rw [List.getD_eq_getElem?_getD, List.getElem?_eq_getElem h]; rfl

/-- the vector after `if (j) { t[j] = 0; t[0] = tj; }` -/
def t1Of (s : St) (tj : Nat) : List Nat := if s.j = 0 then s.t else (s.t.set s.j 0).set 0 tj

theorem t1_props {m n : Nat} {s : St} (hinv : Inv m n s) {tj : Nat} (htj : s.t[s.j]? = some tj) :
    (t1Of s tj).length = m ∧ (t1Of s tj).sum = n ∧ (t1Of s tj)[0]? = some tj ∧
      (∀ i, i < s.j + 1 → i ≠ 0 → (t1Of s tj).getD i 0 = 0) := by
  unfold t1Of
  by_cases hj : s.j = 0
  · simp only [hj, if_true]
    refine ⟨hinv.len, hinv.sum, by rw [hj] at htj; exact htj, ?_⟩
    intro i hi hi0; omega
  · simp only [hj, if_false]
    have hjlt : s.j < s.t.length := by
      by_contra hh
      rw [List.getElem?_eq_none (by omega)] at htj; cases htj
    have h0lt : 0 < s.t.length := by omega
    have hz0 : s.t[0]? = some 0 := by
      have := hinv.zeros 0 (by omega)
      rw [getElem?_of_lt h0lt, this]
    -- after t[j] = 0
    have hA0 : (s.t.set s.j 0)[0]? = some 0 := by
      rw [List.getElem?_set_ne (by omega)]; exact hz0
    have hsumA : (s.t.set s.j 0).sum + tj = s.t.sum + 0 := sum_set 0 htj
    have hsumB : ((s.t.set s.j 0).set 0 tj).sum + 0 = (s.t.set s.j 0).sum + tj := sum_set tj hA0
    refine ⟨by simp [hinv.len], by have := hinv.sum; omega, ?_, ?_⟩
    · rw [List.getElem?_set_self (by simp; omega)]
    · intro i hi hi0
      have hilt : i < s.t.length := by omega
      have : ((s.t.set s.j 0).set 0 tj)[i]? = some 0 := by
        rw [List.getElem?_set_ne (by omega)]
        by_cases hij : i = s.j
        · subst hij; rw [List.getElem?_set_self hjlt]
        · rw [List.getElem?_set_ne (by omega), getElem?_of_lt hilt, hinv.zeros i (by omega)]
      exact getD_of_getElem? this

/-- one turn of the loop preserves the invariant -/
theorem step_inv {m n : Nat} {s s' : St} (hinv : Inv m n s) (h : step m n s = .ok s') : Inv m n s' := by
  unfold step at h
  split at h
  · cases h
  · rename_i tj htj
    obtain ⟨hl1, hs1, h10, hz1⟩ := t1_props hinv htj
    simp only [show (if s.j = 0 then s.t else (s.t.set s.j 0).set 0 tj) = t1Of s tj from rfl] at h
    have hsound : ∀ e ∈ s.r, Sound n e := fun e he => (hinv.sound e he).2
    by_cases hbig : 1 < tj
    · -- t[j + 1] += 1; j = 0
      simp only [hbig, if_true] at h
      split at h
      · cases h
      · rename_i tn htn
        split at h
        · cases h
        · rename_i sum hsum
          have hlen2 : ((t1Of s tj).set (s.j + 1) (tn + 1)).length = m := by simp [hl1]
          have hsum2 : ((t1Of s tj).set (s.j + 1) (tn + 1)).sum = n + 1 := by
            have := sum_set (tn + 1) htn; omega
          have h20 : ((t1Of s tj).set (s.j + 1) (tn + 1))[0]? = some tj := by
            rw [List.getElem?_set_ne (by omega)]; exact h10
          have hm1 : 1 + (m - 1) = ((t1Of s tj).set (s.j + 1) (tn + 1)).length := by
            rw [hlen2]
            have : 0 < m := by rw [← hl1]; by_contra hh; rw [List.getElem?_eq_none (by omega)] at h10; cases h10
            omega
          have hv := innerSum_spec hsound _ (m - 1) 1 sum hm1 hsum
          obtain ⟨ht, _, hj', hlen', hsum', hs'⟩ := finish_spec hinv.sound hlen2 hsum2 h20 hv h
          exact ⟨hlen', hsum', by intro i hi; rw [hj'] at hi; omega, hs'⟩
    · -- j += 1; v = r[t]; t[j] += 1
      simp only [hbig, if_false] at h
      split at h
      · cases h
      · rename_i v0 hv0
        split at h
        · cases h
        · rename_i tn htn
          split at h
          · cases h
          · rename_i sum hsum
            have hjlt : s.j + 1 < (t1Of s tj).length := by
              by_contra hh
              rw [List.getElem?_eq_none (by omega)] at htn; cases htn
            have hlen2 : ((t1Of s tj).set (s.j + 1) (tn + 1)).length = m := by simp [hl1]
            have hsum2 : ((t1Of s tj).set (s.j + 1) (tn + 1)).sum = n + 1 := by
              have := sum_set (tn + 1) htn; omega
            have h20 : ((t1Of s tj).set (s.j + 1) (tn + 1))[0]? = some tj := by
              rw [List.getElem?_set_ne (by omega)]; exact h10
            have h2j : ((t1Of s tj).set (s.j + 1) (tn + 1))[s.j + 1]? = some (tn + 1) := by
              rw [List.getElem?_set_self hjlt]
            -- v0 is the summand of position j + 1
            have hback : ((t1Of s tj).set (s.j + 1) (tn + 1)).set (s.j + 1) (tn + 1 - 1) = t1Of s tj := by
              rw [List.set_set, Nat.add_sub_cancel]
              apply List.ext_getElem?
              intro i
              by_cases hi : i = s.j + 1
              · subst hi; rw [List.getElem?_set_self hjlt, htn]
              · rw [List.getElem?_set_ne (by omega)]
            have hv0' : v0 * prodFact ((t1Of s tj).set (s.j + 1) (tn + 1)) = n ! * (tn + 1) :=
              entry_identity hsound h2j (by omega) (by rw [hback]; exact hv0)
            have hcnt : s.j + 2 + (m - (s.j + 2)) = ((t1Of s tj).set (s.j + 1) (tn + 1)).length := by
              rw [hlen2]; omega
            have hvs := innerSum_spec hsound _ (m - (s.j + 2)) (s.j + 2) sum hcnt hsum
            -- zeros between 1 and j
            have hskip : (((t1Of s tj).set (s.j + 1) (tn + 1)).drop 1).sum
                = (((t1Of s tj).set (s.j + 1) (tn + 1)).drop (s.j + 1)).sum := by
              have hz := drop_sum_skip_zeros ((t1Of s tj).set (s.j + 1) (tn + 1)) 1 s.j (by
                intro i h1 h2
                have : ((t1Of s tj).set (s.j + 1) (tn + 1))[i]? = (t1Of s tj)[i]? := by
                  rw [List.getElem?_set_ne (by omega)]
                rw [List.getD_eq_getElem?_getD, this, ← List.getD_eq_getElem?_getD]
                exact hz1 i (by omega) (by omega))
              rwa [Nat.add_comm 1 s.j] at hz
            have hsplit : (((t1Of s tj).set (s.j + 1) (tn + 1)).drop (s.j + 1)).sum
                = (tn + 1) + (((t1Of s tj).set (s.j + 1) (tn + 1)).drop (s.j + 2)).sum := by
              have hlt : s.j + 1 < ((t1Of s tj).set (s.j + 1) (tn + 1)).length := by rw [hlen2, ← hl1]; omega
              rw [List.drop_eq_getElem_cons hlt, List.sum_cons]
              congr 1
              have := h2j
              rw [List.getElem?_eq_getElem hlt] at this
              exact Option.some.inj this
            have hv : (v0 + sum) * prodFact ((t1Of s tj).set (s.j + 1) (tn + 1))
                = n ! * (((t1Of s tj).set (s.j + 1) (tn + 1)).drop 1).sum := by
              rw [hskip, hsplit, Nat.add_mul, hv0', hvs]; ring
            obtain ⟨ht, htj0, hj', hlen', hsum', hs'⟩ := finish_spec hinv.sound hlen2 hsum2 h20 hv h
            refine ⟨hlen', hsum', ?_, hs'⟩
            intro i hi
            rw [hj'] at hi
            rw [ht]
            by_cases hi0 : i = 0
            · subst hi0
              have : tj - 1 = 0 := by omega
              apply getD_of_getElem?
              rw [List.getElem?_set_self (by rw [hlen2, ← hl1]; omega), this]
            · have : (((t1Of s tj).set (s.j + 1) (tn + 1)).set 0 (tj - 1))[i]? = (t1Of s tj)[i]? := by
                rw [List.getElem?_set_ne (by omega), List.getElem?_set_ne (by omega)]
              rw [List.getD_eq_getElem?_getD, this, ← List.getD_eq_getElem?_getD]
              exact hz1 i (by omega) hi0

theorem loop_inv {m n : Nat} : ∀ (f : Nat) {s s' : St}, Inv m n s → loop m n f s = .ok s' → Inv m n s' := by
  intro f
  induction f with
  | zero =>
    intro s s' hinv h
    simp only [loop] at h
    split at h
    · cases h
    · simp only [Except.ok.injEq] at h; subst h; exact hinv
  | succ f ih =>
    intro s s' hinv h
    simp only [loop] at h
    split at h
    · cases hst : step m n s with
      | error e => rw [hst] at h; cases h
      | ok s1 =>
        rw [hst] at h
        exact ih (step_inv hinv hst) h
    · simp only [Except.ok.injEq] at h; subst h; exact hinv

theorem init_inv {m n : Nat} (hm : 2 ≤ m) : Inv m n ⟨initT m n, 0, [(initT m n, 1)]⟩ := by
  have hlen : (initT m n).length = m := by simp [initT]; omega
  have hsum : (initT m n).sum = n := by simp [initT]
  have hpf : prodFact (initT m n) = n ! := by
    simp only [initT, prodFact]
    have : ∀ k, prodFact (List.replicate k 0) = 1 := by
      intro k; induction k with
      | zero => simp [prodFact]
      | succ k ih => simp [List.replicate_succ, prodFact, ih]
    rw [this]; simp
  refine ⟨hlen, hsum, by intro i hi; exact absurd hi (Nat.not_lt_zero _), ?_⟩
  intro e he
  simp only [List.mem_singleton] at he
  subst he
  exact ⟨hlen, hsum, by simp [hpf]⟩

/-- **Soundness of the multinomial table**: every entry `(k, c)` produced by the model of
`multinomial_coefficients_mpz(m, n)` is a composition of `n` into `m` parts together with its multinomial
coefficient: `c · ∏ kᵢ! = n!`. -/
theorem multinomial_sound {m n : Nat} {r : Tab} (h : multinomial m n = .ok r) :
    ∀ e ∈ r, e.1.length = m ∧ e.1.sum = n ∧ e.2 * prodFact e.1 = n ! := by
  unfold multinomial at h
  split at h
  · cases h
  · rename_i hm
    have hinv := init_inv (m := m) (n := n) (by omega)
    split at h
    · simp only [Except.ok.injEq] at h
      subst h
      intro e he
      have := hinv.sound e he
      exact ⟨this.1, this.2.1, this.2.2⟩
    · cases hl : loop m n (fuel m n) ⟨initT m n, 0, [(initT m n, 1)]⟩ with
      | error e => rw [hl] at h; cases h
      | ok s' =>
        rw [hl] at h
        simp only [Except.map, Except.ok.injEq] at h
        subst h
        intro e he
        have := (loop_inv _ hinv hl).sound e he
        exact ⟨this.1, this.2.1, this.2.2⟩

/-- the coefficient is the quotient `n!/∏kᵢ!` -/
theorem multinomial_coeff {m n : Nat} {r : Tab} (h : multinomial m n = .ok r) :
    ∀ e ∈ r, e.2 = n ! / prodFact e.1 := by
  intro e he
  have := (multinomial_sound h e he).2.2
  rw [← this, Nat.mul_div_cancel _ (prodFact_pos _)]

theorem prodFact_eq_prod (l : List Nat) : prodFact l = ∏ i ∈ Finset.range l.length, (l.getD i 0)! := by
  induction l with
  | nil => simp [prodFact]
  | cons a t ih =>
    rw [prodFact, List.length_cons, Finset.prod_range_succ', ih]
    simp [Nat.mul_comm]

theorem sum_eq_sum (l : List Nat) : l.sum = ∑ i ∈ Finset.range l.length, l.getD i 0 := by
  induction l with
  | nil => simp
  | cons a t ih =>
    rw [List.sum_cons, List.length_cons, Finset.sum_range_succ', ih]
    simp [Nat.add_comm]

/-- … which is Mathlib's `Nat.multinomial` of the exponent vector -/
theorem multinomial_eq_nat_multinomial {m n : Nat} {r : Tab} (h : multinomial m n = .ok r) :
    ∀ e ∈ r, e.2 = Nat.multinomial (Finset.range m) (fun i => e.1.getD i 0) := by
  intro e he
  obtain ⟨hl, hs, hc⟩ := multinomial_sound h e he
  have hspec := Nat.multinomial_spec (Finset.range m) (fun i => e.1.getD i 0)
  rw [← hl, ← prodFact_eq_prod, ← sum_eq_sum, hs] at hspec
  have hp := prodFact_pos e.1
  apply Nat.eq_of_mul_eq_mul_right hp
  rw [hc, ← hspec, ← hl]; ring


end Multinomial
end SymVerif
