import Mathlib.NumberTheory.Harmonic.Defs
import Mathlib.Tactic.FieldSimp
import Mathlib.Tactic.Ring
import SymVerif.Model.NTheory
/-! `harmonic` agrees with the defining sum. -/
namespace SymVerif.NTheory
/-- the rational number denoted by a `Q` -/
def Q.toRat (q : Q) : ℚ := (q.num : ℚ) / (q.den : ℚ)
end SymVerif.NTheory

namespace SymVerif.C32
open SymVerif.NTheory

theorem Q.norm_toRat (n : Int) (d : Nat) (hd : 0 < d) :
    (Q.norm n d).toRat = (n : ℚ) / (d : ℚ) ∧ 0 < (Q.norm n d).den := by
  unfold Q.norm
  have hg : 0 < Nat.gcd n.natAbs d := Nat.gcd_pos_of_pos_right _ hd
  have hg0 : (Nat.gcd n.natAbs d == 0) = false := by simpa using hg.ne'
  simp only [hg0, Bool.false_eq_true, if_false]
  set g := Nat.gcd n.natAbs d
  have hgn : (g : Int) ∣ n := by
    have : g ∣ n.natAbs := Nat.gcd_dvd_left _ _
    exact Int.natCast_dvd.mpr this
  have hgd : g ∣ d := Nat.gcd_dvd_right _ _
  obtain ⟨n', hn'⟩ := hgn
  obtain ⟨d', hd'⟩ := hgd
  have hd'pos : 0 < d' := by
    rcases Nat.eq_zero_or_pos d' with h | h
    · rw [h, mul_zero] at hd'; omega
    · exact h
  have e1 : n / (g : Int) = n' := by
    rw [hn']; exact Int.mul_ediv_cancel_left _ (by exact_mod_cast hg.ne')
  have e2 : d / g = d' := by rw [hd']; exact Nat.mul_div_cancel_left _ hg
  refine ⟨?_, by simp only [e2]; exact hd'pos⟩
  simp only [Q.toRat, e1, e2]
  rw [hn', hd']
  have hgq : (g : ℚ) ≠ 0 := by exact_mod_cast hg.ne'
  have hdq : (d' : ℚ) ≠ 0 := by exact_mod_cast hd'pos.ne'
  push_cast
  field_simp

theorem Q.add_toRat (a b : Q) (ha : 0 < a.den) (hb : 0 < b.den) :
    (Q.add a b).toRat = a.toRat + b.toRat ∧ 0 < (Q.add a b).den := by
  unfold Q.add
  obtain ⟨h1, h2⟩ := Q.norm_toRat (a.num * b.den + b.num * a.den) (a.den * b.den) (Nat.mul_pos ha hb)
  refine ⟨?_, h2⟩
  rw [h1]
  simp only [Q.toRat]
  have haq : (a.den : ℚ) ≠ 0 := by exact_mod_cast ha.ne'
  have hbq : (b.den : ℚ) ≠ 0 := by exact_mod_cast hb.ne'
  push_cast
  field_simp

/-- the term `1 / i^m` (or `i^(-m)`) added by the loop -/
def harmTerm (m : Int) (i : Nat) : ℚ := if m > 0 then 1 / (i : ℚ) ^ m.toNat else (i : ℚ) ^ (-m).toNat

theorem harmonicLoop_spec (m : Int) : ∀ (f i : Nat) (res : Q), 1 ≤ i → 0 < res.den →
    (harmonicLoop m f i res).toRat = res.toRat + ∑ k ∈ Finset.range f, harmTerm m (i + k) ∧
    0 < (harmonicLoop m f i res).den := by
  intro f
  induction f with
  | zero => intro i res _ hres; simp [harmonicLoop, hres]
  | succ f ih =>
    intro i res hi hres
    unfold harmonicLoop
    simp only
    set t : Q := if m > 0 then ⟨1, i ^ m.toNat⟩ else Q.ofInt ((i ^ (-m).toNat : Nat) : Int) with ht
    have htden : 0 < t.den := by
      rw [ht]; split
      · exact Nat.pow_pos (by omega)
      · simp [Q.ofInt]
    have htval : t.toRat = harmTerm m i := by
      rw [ht]; unfold harmTerm
      split
      · simp [Q.toRat]
      · simp [Q.toRat, Q.ofInt]
    obtain ⟨a1, a2⟩ := Q.add_toRat res t hres htden
    obtain ⟨b1, b2⟩ := ih (i + 1) (Q.add res t) (by omega) a2
    refine ⟨?_, b2⟩
    rw [b1, a1, htval, Finset.sum_range_succ']
    have : ∀ k, i + 1 + k = i + (k + 1) := by intro k; ring
    simp only [this, add_zero]
    ring

end SymVerif.C32
