/-
C02, part 2: by one structural induction, for well-formed NaN-free `-0.0`-free expressions,
`eq` implies identity of the model objects, `cmp = 0` implies identity, and `cmp` is antisymmetric.
-/
import SymVerif.Lemmas.C02Refl
import Mathlib.Data.List.Perm.Subperm

namespace SymVerif
namespace Expr
open TC (Kind)

structure J (a b : Expr) : Prop where
  eq1 : beq' a b = true → a = b
  eq2 : beq' b a = true → a = b
  z : cmp a b = 0 → a = b
  anti : cmp a b = - cmp b a

theorem J_of_tc_ne {a b : Expr} (h : typeCode a ≠ typeCode b) : J a b where
  eq1 := fun e => absurd (beq'_tc e) h
  eq2 := fun e => absurd (beq'_tc e).symm h
  z := by rw [cmp_tc_ne h]; split <;> simp
  anti := by
    rw [cmp_tc_ne h, cmp_tc_ne (Ne.symm h)]
    rcases Nat.lt_trichotomy (typeCode a) (typeCode b) with h1 | h1 | h1
    · rw [if_pos h1, if_neg (by omega)]
    · exact absurd h1 h
    · rw [if_neg (by omega), if_pos h1]; simp

/-! ### leaves -/

theorem J_int (x y : Int) : J (int x) (int y) where
  eq1 := by simp [beq']
  eq2 := by simp [beq']; exact fun h => h.symm
  z := by rw [cmp_int, cmpInt_eq, cmpLin_eq_zero]; exact fun h => by rw [h]
  anti := by rw [cmp_int, cmp_int, cmpInt_eq, cmpInt_eq]; exact cmpLin_antisymm _ _

theorem J_infty (x y : Int) : J (infty x) (infty y) where
  eq1 := by simp [beq']
  eq2 := by simp [beq']; exact fun h => h.symm
  z := by rw [cmp_infty, cmpInt_eq, cmpLin_eq_zero]; exact fun h => by rw [h]
  anti := by rw [cmp_infty, cmp_infty, cmpInt_eq, cmpInt_eq]; exact cmpLin_antisymm _ _

theorem J_sym (x y : String) : J (sym x) (sym y) where
  eq1 := by simp [beq']
  eq2 := by simp [beq']; exact fun h => h.symm
  z := by rw [cmp_sym, cmpStr_eq, cmpLin_eq_zero]; exact fun h => by rw [h]
  anti := by rw [cmp_sym, cmp_sym, cmpStr_eq, cmpStr_eq]; exact cmpLin_antisymm _ _

theorem J_const (x y : String) : J (const x) (const y) where
  eq1 := by simp [beq']
  eq2 := by simp [beq']; exact fun h => h.symm
  z := by rw [cmp_const, cmpStr_eq, cmpLin_eq_zero]; exact fun h => by rw [h]
  anti := by rw [cmp_const, cmp_const, cmpStr_eq, cmpStr_eq]; exact cmpLin_antisymm _ _

theorem J_nan : J nan nan where
  eq1 := fun _ => rfl
  eq2 := fun _ => rfl
  z := fun _ => rfl
  anti := by simp [cmp_nan]

theorem J_bool (x y : Bool) : J (bool x) (bool y) := by
  constructor <;> cases x <;> cases y <;> simp [beq', cmp_bool]

theorem J_dummy (n : String) (i : Nat) (m : String) (j : Nat) : J (dummy n i) (dummy m j) where
  eq1 := by simp [beq']
  eq2 := by simp [beq']; exact fun h1 h2 => ⟨h1.symm, h2.symm⟩
  z := by
    rw [cmp_dummy]
    by_cases h : n = m
    · subst h; simp only [beq_self_eq_true, ↓reduceIte, cmpNat_eq, cmpLin_eq_zero]
      exact fun h => by rw [h]
    · have : (n == m) = false := by simpa using h
      rw [this]; simp only [Bool.false_eq_true, ↓reduceIte]
      split <;> simp
  anti := by
    rw [cmp_dummy, cmp_dummy]
    by_cases h : n = m
    · subst h; simp only [beq_self_eq_true, ↓reduceIte, cmpNat_eq]; exact cmpLin_antisymm _ _
    · have h1 : (n == m) = false := by simpa using h
      have h2 : (m == n) = false := by simpa using (Ne.symm h)
      rw [h1, h2]; simp only [Bool.false_eq_true, ↓reduceIte]
      rcases lt_trichotomy n m with h3 | h3 | h3
      · rw [if_pos h3, if_neg (lt_asymm h3)]
      · exact absurd h3 h
      · rw [if_neg (lt_asymm h3), if_pos h3]; simp

theorem J_rat {n n' : Int} {d d' : Nat} (h : qCanon n d = true) (h' : qCanon n' d' = true) :
    J (rat n d) (rat n' d') where
  eq1 := by simp [beq']
  eq2 := by simp [beq']; exact fun a b => ⟨a.symm, b.symm⟩
  z := by
    rw [cmp_rat, cmpQ_eq_zero h h']
    rintro ⟨rfl, rfl⟩; rfl
  anti := by rw [cmp_rat, cmp_rat]; exact cmpQ_antisymm h h'

theorem Q_ext {a b : Q} (h1 : a.num = b.num) (h2 : a.den = b.den) : a = b := by
  cases a; cases b; cases h1; cases h2; rfl

theorem J_cplx {r i r' i' : Q} (hr : qCanon r.num r.den = true) (hi : qCanon i.num i.den = true)
    (hr' : qCanon r'.num r'.den = true) (hi' : qCanon i'.num i'.den = true) :
    J (cplx r i) (cplx r' i') where
  eq1 := by simp [beq']
  eq2 := by simp [beq']; exact fun a b => ⟨a.symm, b.symm⟩
  z := by
    rw [cmp_cplx]
    by_cases e : r = r'
    · subst e
      simp only [beq_self_eq_true, ↓reduceIte]
      by_cases e2 : i = i'
      · subst e2; simp
      · have : (i == i') = false := by simpa using e2
        rw [this]; simp only [Bool.false_eq_true, ↓reduceIte]
        rw [cmpQ_eq_zero hi hi']
        exact fun hh => absurd (Q_ext hh.1 hh.2) e2
    · have : (r == r') = false := by simpa using e
      rw [this]; simp only [Bool.false_eq_true, ↓reduceIte]
      rw [cmpQ_eq_zero hr hr']
      exact fun hh => absurd (Q_ext hh.1 hh.2) e
  anti := by
    rw [cmp_cplx, cmp_cplx]
    by_cases e : r = r'
    · subst e
      simp only [beq_self_eq_true, ↓reduceIte]
      by_cases e2 : i = i'
      · subst e2; simp
      · have h1 : (i == i') = false := by simpa using e2
        have h2 : (i' == i) = false := by simpa using (Ne.symm e2)
        rw [h1, h2]; simp only [Bool.false_eq_true, ↓reduceIte]
        exact cmpQ_antisymm hi hi'
    · have h1 : (r == r') = false := by simpa using e
      have h2 : (r' == r) = false := by simpa using (Ne.symm e)
      rw [h1, h2]; simp only [Bool.false_eq_true, ↓reduceIte]
      exact cmpQ_antisymm hr hr'

theorem J_dbl {x y : UInt64} (nx : dblIsNaN x = false) (ny : dblIsNaN y = false)
    (zx : x ≠ negZeroBits) (zy : y ≠ negZeroBits) : J (dbl x) (dbl y) where
  eq1 := by
    simp only [beq', dblEq_iff nx ny]
    exact fun h => by rw [dblKey_inj zx zy h]
  eq2 := by
    simp only [beq', dblEq_iff ny nx]
    exact fun h => by rw [dblKey_inj zx zy h.symm]
  z := by
    rw [cmp_dbl, cmpDbl_eq nx ny, cmpLin_eq_zero]
    exact fun h => by rw [dblKey_inj zx zy h]
  anti := by rw [cmp_dbl, cmp_dbl, cmpDbl_eq nx ny, cmpDbl_eq ny nx]; exact cmpLin_antisymm _ _

theorem J_cdbl {r i r' i' : UInt64} (nr : dblIsNaN r = false) (ni : dblIsNaN i = false)
    (nr' : dblIsNaN r' = false) (ni' : dblIsNaN i' = false)
    (zr : r ≠ negZeroBits) (zi : i ≠ negZeroBits) (zr' : r' ≠ negZeroBits) (zi' : i' ≠ negZeroBits) :
    J (cdbl r i) (cdbl r' i') where
  eq1 := by
    simp only [beq', Bool.and_eq_true, dblEq_iff nr nr', dblEq_iff ni ni']
    exact fun h => by rw [dblKey_inj zr zr' h.1, dblKey_inj zi zi' h.2]
  eq2 := by
    simp only [beq', Bool.and_eq_true, dblEq_iff nr' nr, dblEq_iff ni' ni]
    exact fun h => by rw [dblKey_inj zr zr' h.1.symm, dblKey_inj zi zi' h.2.symm]
  z := by
    rw [cmp_cdbl]
    by_cases e1 : dblKey r = dblKey r' <;> by_cases e2 : dblKey i = dblKey i'
    · intro _; rw [dblKey_inj zr zr' e1, dblKey_inj zi zi' e2]
    · have a1 : dblEq r r' = true := (dblEq_iff nr nr').mpr e1
      have a2 : dblEq i i' = false := by
        rw [Bool.eq_false_iff]; exact fun hh => e2 ((dblEq_iff ni ni').mp hh)
      rw [a1, a2]; simp only [Bool.and_false, Bool.false_eq_true, ↓reduceIte]
      split <;> simp
    · have a1 : dblEq r r' = false := by
        rw [Bool.eq_false_iff]; exact fun hh => e1 ((dblEq_iff nr nr').mp hh)
      rw [a1]; simp only [Bool.false_and, Bool.false_eq_true, ↓reduceIte]
      split <;> simp
    · have a1 : dblEq r r' = false := by
        rw [Bool.eq_false_iff]; exact fun hh => e1 ((dblEq_iff nr nr').mp hh)
      rw [a1]; simp only [Bool.false_and, Bool.false_eq_true, ↓reduceIte]
      split <;> simp
  anti := by
    rw [cmp_cdbl, cmp_cdbl]
    have q1 : dblEq r r' = decide (dblKey r = dblKey r') := by
      rw [Bool.eq_iff_iff]; simp [dblEq_iff nr nr']
    have q2 : dblEq i i' = decide (dblKey i = dblKey i') := by
      rw [Bool.eq_iff_iff]; simp [dblEq_iff ni ni']
    have q3 : dblEq r' r = decide (dblKey r' = dblKey r) := by
      rw [Bool.eq_iff_iff]; simp [dblEq_iff nr' nr]
    have q4 : dblEq i' i = decide (dblKey i' = dblKey i) := by
      rw [Bool.eq_iff_iff]; simp [dblEq_iff ni' ni]
    have q5 : dblLt r r' = decide (dblKey r < dblKey r') := by
      rw [Bool.eq_iff_iff]; simp [dblLt_iff nr nr']
    have q6 : dblLt i i' = decide (dblKey i < dblKey i') := by
      rw [Bool.eq_iff_iff]; simp [dblLt_iff ni ni']
    have q7 : dblLt r' r = decide (dblKey r' < dblKey r) := by
      rw [Bool.eq_iff_iff]; simp [dblLt_iff nr' nr]
    have q8 : dblLt i' i = decide (dblKey i' < dblKey i) := by
      rw [Bool.eq_iff_iff]; simp [dblLt_iff ni' ni]
    rw [q1, q2, q3, q4, q5, q6, q7, q8]
    simp only [Bool.and_eq_true, decide_eq_true_eq]
    split_ifs <;> omega

/-! ### lists -/

/-- the induction hypothesis for the elements of a list -/
def JL (l : List Expr) : Prop := ∀ x ∈ l, ∀ y, OK x → OK y → J x y

theorem beqArgs_eq : ∀ {as bs : List Expr}, JL as → (∀ x ∈ as, OK x) → (∀ y ∈ bs, OK y) →
    beqArgs as bs = true → as = bs
  | [], [], _, _, _, _ => rfl
  | [], _ :: _, _, _, _, h => by simp [beqArgs] at h
  | _ :: _, [], _, _, _, h => by simp [beqArgs] at h
  | a :: t, b :: t', ih, oa, ob, h => by
    simp only [beqArgs, Bool.and_eq_true] at h
    have e := (ih a (List.mem_cons_self ..) b (oa a (List.mem_cons_self ..)) (ob b (List.mem_cons_self ..))).eq1 h.1
    have e' := beqArgs_eq (fun x hx => ih x (List.mem_cons_of_mem _ hx))
      (fun x hx => oa x (List.mem_cons_of_mem _ hx)) (fun x hx => ob x (List.mem_cons_of_mem _ hx)) h.2
    rw [e, e']

theorem beqArgs_eq' : ∀ {as bs : List Expr}, JL as → (∀ x ∈ as, OK x) → (∀ y ∈ bs, OK y) →
    beqArgs bs as = true → as = bs
  | [], [], _, _, _, _ => rfl
  | [], _ :: _, _, _, _, h => by simp [beqArgs] at h
  | _ :: _, [], _, _, _, h => by simp [beqArgs] at h
  | a :: t, b :: t', ih, oa, ob, h => by
    simp only [beqArgs, Bool.and_eq_true] at h
    have e := (ih a (List.mem_cons_self ..) b (oa a (List.mem_cons_self ..)) (ob b (List.mem_cons_self ..))).eq2 h.1
    have e' := beqArgs_eq' (fun x hx => ih x (List.mem_cons_of_mem _ hx))
      (fun x hx => oa x (List.mem_cons_of_mem _ hx)) (fun x hx => ob x (List.mem_cons_of_mem _ hx)) h.2
    rw [e, e']

theorem cmpBad_ne_zero : cmpBad ≠ 0 := by decide

theorem cmpArgs_zero : ∀ {as bs : List Expr}, JL as → (∀ x ∈ as, OK x) → (∀ y ∈ bs, OK y) →
    cmpArgs as bs = 0 → as = bs
  | [], [], _, _, _, _ => rfl
  | [], _ :: _, _, _, _, h => by simp [cmpArgs, cmpBad] at h
  | _ :: _, [], _, _, _, h => by simp [cmpArgs, cmpBad] at h
  | a :: t, b :: t', ih, oa, ob, h => by
    rw [cmpArgs_cons] at h
    by_cases c0 : cmp a b = 0
    · rw [c0] at h; simp only [bne_self_eq_false, Bool.false_eq_true, ↓reduceIte] at h
      have e := (ih a (List.mem_cons_self ..) b (oa a (List.mem_cons_self ..)) (ob b (List.mem_cons_self ..))).z c0
      have e' := cmpArgs_zero (fun x hx => ih x (List.mem_cons_of_mem _ hx))
        (fun x hx => oa x (List.mem_cons_of_mem _ hx)) (fun x hx => ob x (List.mem_cons_of_mem _ hx)) h
      rw [e, e']
    · have : (cmp a b != 0) = true := by simpa using c0
      rw [if_pos this] at h
      exact absurd h c0

theorem cmpArgs_anti : ∀ {as bs : List Expr}, JL as → (∀ x ∈ as, OK x) → (∀ y ∈ bs, OK y) →
    as.length = bs.length → cmpArgs as bs = - cmpArgs bs as
  | [], [], _, _, _, _ => by simp [cmpArgs]
  | [], _ :: _, _, _, _, h => by simp at h
  | _ :: _, [], _, _, _, h => by simp at h
  | a :: t, b :: t', ih, oa, ob, h => by
    rw [cmpArgs_cons, cmpArgs_cons]
    have an := (ih a (List.mem_cons_self ..) b (oa a (List.mem_cons_self ..)) (ob b (List.mem_cons_self ..))).anti
    have hrec := cmpArgs_anti (fun x hx => ih x (List.mem_cons_of_mem _ hx))
        (fun x hx => oa x (List.mem_cons_of_mem _ hx)) (fun x hx => ob x (List.mem_cons_of_mem _ hx))
        (by simpa using h)
    by_cases c0 : cmp b a = 0
    · have c1 : cmp a b = 0 := by rw [an, c0]; rfl
      rw [c0, c1]; simpa using hrec
    · have c1 : cmp a b ≠ 0 := by rw [an]; omega
      have e0 : (cmp b a != 0) = true := by simpa using c0
      have e1 : (cmp a b != 0) = true := by simpa using c1
      rw [if_pos e0, if_pos e1]; exact an

/-- TwoArgBasic's eq-then-cmp is the plain lexicographic loop -/
theorem cmpTwo_eq {x1 x2 y1 y2 : Expr} (j : J x1 y1) (ox : OK x1) :
    cmpTwo [x1, x2] [y1, y2] = cmpArgs [x1, x2] [y1, y2] := by
  rw [cmpTwo, cmpArgs_cons x1 y1 [x2] [y2]]
  by_cases hb : beq' x1 y1 = true
  · have e := j.eq1 hb
    subst e
    rw [hb, cmp_refl ox]; simp
  · have hb' : beq' x1 y1 = false := by simpa using hb
    rw [hb']
    simp only [Bool.not_false, ↓reduceIte]
    by_cases c0 : cmp x1 y1 = 0
    · have e := j.z c0
      subst e
      rw [beq'_refl ox] at hb'; cases hb'
    · have : (cmp x1 y1 != 0) = true := by simpa using c0
      rw [if_pos this]

/-! ### RCPBasicKeyLess is asymmetric and irreflexive -/

theorem keyLess_irrefl {x : Expr} (ox : OK x) : keyLess x x = false := by
  simp [keyLess, beq'_refl ox]

theorem keyLess_asymm {x y : Expr} (j : J x y) (h1 : keyLess x y = true) (h2 : keyLess y x = true) : False := by
  unfold keyLess at h1 h2
  by_cases hh : hash x = hash y
  · rw [hh] at h1
    simp only [bne_self_eq_false, Bool.false_eq_true, ↓reduceIte] at h1
    rw [hh] at h2
    simp only [bne_self_eq_false, Bool.false_eq_true, ↓reduceIte] at h2
    split at h1
    · cases h1
    · split at h2
      · cases h2
      · have a1 : cmp x y = -1 := by simpa using h1
        have a2 : cmp y x = -1 := by simpa using h2
        have := j.anti
        omega
  · have n1 : (hash x != hash y) = true := by simpa using hh
    have n2 : (hash y != hash x) = true := by simpa using (Ne.symm hh)
    rw [if_pos n1] at h1
    rw [if_pos n2] at h2
    exact UInt64.lt_asymm (of_decide_eq_true h1) (of_decide_eq_true h2)

theorem pairwiseB_iff {α : Type} (r : α → α → Bool) : ∀ {l : List α},
    pairwiseB r l = true ↔ List.Pairwise (fun a b => r a b = true) l
  | [] => by simp [pairwiseB]
  | a :: t => by
    simp only [pairwiseB, Bool.and_eq_true, List.all_eq_true, List.pairwise_cons, pairwiseB_iff r (l := t)]

/-- two strictly `keyLess`-sorted dictionaries of the same size, one contained in the other, coincide -/
theorem sorted_eq_of_subset {l1 l2 : List (Expr × Expr)}
    (irr : ∀ p ∈ l1, keyLess p.1 p.1 = false)
    (asym : ∀ p ∈ l1, ∀ q ∈ l2, keyLess p.1 q.1 = true → keyLess q.1 p.1 = true → False)
    (s1 : pairwiseB keyLess (l1.map Prod.fst) = true) (s2 : pairwiseB keyLess (l2.map Prod.fst) = true)
    (hl : l1.length = l2.length) (hsub : l1 ⊆ l2) : l1 = l2 := by
  have p1 : List.Pairwise (fun p q : Expr × Expr => keyLess p.1 q.1 = true) l1 :=
    List.pairwise_map.mp ((pairwiseB_iff keyLess).mp s1)
  have p2 : List.Pairwise (fun p q : Expr × Expr => keyLess p.1 q.1 = true) l2 :=
    List.pairwise_map.mp ((pairwiseB_iff keyLess).mp s2)
  have nd : l1.Nodup := by
    refine List.Pairwise.imp_of_mem ?_ p1
    intro p q hp _ hk e
    subst e
    rw [irr p hp] at hk; cases hk
  have perm : l1.Perm l2 := (nd.subperm hsub).perm_of_length_le (by omega)
  exact List.Perm.eq_of_pairwise (fun p q hp hq h1 h2 => (asym p hp q hq h1 h2).elim) p1 p2 perm

end Expr
end SymVerif
