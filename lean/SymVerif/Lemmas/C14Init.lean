/-
C14, `init` level: the program `initV` builds returns, for every input vector, the reference value
of every output (plain path); a visitor that clears its tables on entry behaves like a fresh one.
-/
import SymVerif.Lemmas.C14Tree
import SymVerif.Model.LLVMInit

namespace SymVerif.LLVMD
open SymVerif.EvalG

variable {α : Type}

/-- the symbol table of a fresh plain init -/
def tab0 (ins : List String) : SymTab α := { inputs := ins, off := 0, repl := [], staleRepl := [] }

/-- inputs bound to the values of the call -/
def bindEnv (ins : List String) (xs : List α) : String → Option α := fun n =>
  match indexOf? ins n with
  | some i => xs[i]?
  | none => none

/-- reference value of an expression: lower it (`apply`), evaluate the operator tree -/
def evalLR (cfg : Cfg α) (tab : SymTab α) (venv : String → Option α) (e : Expr) : RV α :=
  match lower (lowCtx cfg tab) cfg.fuel e with
  | .error err => .err err
  | .ok t => evalT cfg.L venv t

def evalL (cfg : Cfg α) (tab : SymTab α) (venv : String → Option α) (e : Expr) : Except Err α :=
  rvToExcept (evalLR cfg tab venv e)

theorem loads_length (i n : Nat) : (loads (α := α) i n).length = n := by
  induction n generalizing i with
  | zero => rfl
  | succ n ih => simp [loads, ih]

def loadVals (xs : List α) : Nat → Nat → List (RV α)
  | _, 0 => []
  | i, n + 1 => (match xs[i]? with
      | some x => RV.f x
      | none => .err .badArg) :: loadVals xs (i + 1) n

theorem exec_loads (L : LOps α) (xs : List α) (regs : List (RV α)) (i n : Nat) :
    exec L xs regs (loads i n) = regs ++ loadVals xs i n := by
  induction n generalizing i regs with
  | zero => simp [loads, exec, loadVals]
  | succ n ih =>
    simp [loads, exec, loadVals, ih, stepVal]
    cases xs[i]? <;> rfl

theorem loadVals_length (xs : List α) (i n : Nat) : (loadVals xs i n).length = n := by
  induction n generalizing i with
  | zero => rfl
  | succ n ih => simp [loadVals, ih]

theorem loadVals_get (xs : List α) (i n k : Nat) (hk : k < n) :
    (loadVals xs i n)[k]? = some (match xs[i + k]? with
      | some x => RV.f x
      | none => .err .badArg) := by
  induction n generalizing i k with
  | zero => omega
  | succ n ih =>
    cases k with
    | zero => simp [loadVals]
    | succ k =>
      simp only [loadVals, List.getElem?_cons_succ]
      rw [ih (i + 1) k (by omega)]
      have : i + 1 + k = i + (k + 1) := by omega
      rw [this]

theorem indexOf?_lt (l : List String) (s : String) (i : Nat) (h : indexOf? l s = some i) : i < l.length := by
  induction l generalizing i with
  | nil => simp [indexOf?] at h
  | cons a t ih =>
    simp only [indexOf?] at h
    split at h
    · cases h; simp
    · cases ht : indexOf? t s with
      | none => simp [ht] at h
      | some j =>
        simp [ht] at h
        subst h
        have := ih j ht
        simp; omega

/-- after the loads, the environment of a fresh plain init is right -/
theorem envOK_loads (cfg : Cfg α) (ins : List String) (xs : List α) (hxs : xs.length = ins.length) :
    EnvOK (envOf cfg (tab0 ins)) (bindEnv ins xs) (loadVals xs 0 ins.length) := by
  intro name v hv
  simp only [envOf, resolve, tab0, List.lookup, List.contains_nil] at hv
  cases hi : indexOf? ins name with
  | none => cases hb : cfg.inputsFirst <;> simp [hi, hb] at hv
  | some i =>
    have hlt := indexOf?_lt ins name i hi
    have hv' : v = .reg i := by
      cases hb : cfg.inputsFirst <;> simp [hi, hb] at hv <;> exact hv.symm
    subst hv'
    refine ⟨by simp [Val.lt, loadVals_length, hlt], ?_⟩
    have hx : i < xs.length := by omega
    simp [valOf, loadVals_get xs 0 ins.length i hlt, symVal, bindEnv, hi, List.getElem?_eq_getElem hx]

theorem applyE_sim (cfg : Cfg α) (xs : List α) (tab : SymTab α) (venv : String → Option α)
    (e : Expr) (P : Prog α) (v : Val α) (P' : Prog α) (h : applyE cfg tab e P = .ok (v, P')) :
    ∃ ext, P' = P ++ ext ∧ ∀ regs, regs.length = P.length → EnvOK (envOf cfg tab) venv regs →
      Holds (exec cfg.L xs regs ext) v (evalLR cfg tab venv e) := by
  unfold applyE at h
  unfold evalLR
  cases hl : lower (lowCtx cfg tab) cfg.fuel e with
  | error err => rw [hl] at h; cases h
  | ok t =>
    rw [hl] at h
    exact compileT_sim cfg.L xs (envOf cfg tab) venv t P v P' h

theorem applyOuts_sim (cfg : Cfg α) (xs : List α) (tab : SymTab α) (venv : String → Option α) :
    ∀ (outs : List Expr) (P : Prog α) (vs : List (Val α)) (P' : Prog α), applyOuts cfg tab outs P = .ok (vs, P') →
      ∃ ext, P' = P ++ ext ∧ ∀ regs, regs.length = P.length → EnvOK (envOf cfg tab) venv regs →
        All2 (Holds (exec cfg.L xs regs ext)) vs (outs.map (evalLR cfg tab venv))
  | [], P, vs, P', h => by
    simp only [applyOuts] at h
    cases h
    exact ⟨[], by simp, fun regs _ _ => by simpa [exec] using All2.nil⟩
  | e :: rest, P, vs, P', h => by
    simp only [applyOuts] at h
    cases he : applyE cfg tab e P with
    | error err => rw [he] at h; cases h
    | ok r =>
      obtain ⟨v, P1⟩ := r
      rw [he] at h
      simp only at h
      cases hr : applyOuts cfg tab rest P1 with
      | error err => rw [hr] at h; cases h
      | ok r2 =>
        obtain ⟨vs2, P2⟩ := r2
        rw [hr] at h
        simp only [Except.ok.injEq, Prod.mk.injEq] at h
        obtain ⟨hvs, hP'⟩ := h
        obtain ⟨e1, he1, hs1⟩ := applyE_sim cfg xs tab venv e P v P1 he
        obtain ⟨e2, he2, hs2⟩ := applyOuts_sim cfg xs tab venv rest P1 vs2 P2 hr
        refine ⟨e1 ++ e2, by rw [← hP', he2, he1, List.append_assoc], ?_⟩
        intro regs hlen henv
        have h1 := hs1 regs hlen henv
        have hl1 : (exec cfg.L xs regs e1).length = P1.length := by
          rw [exec_length, he1, hlen, List.length_append]
        have h2 := hs2 _ hl1 (henv.exec cfg.L xs e1)
        rw [exec_append, ← hvs]
        simpa using All2.cons (h1.exec cfg.L xs e2) h2

/-- **Plain path.**  After a successful `init` without CSE on a visitor that clears its tables (or a
fresh one), `call xs` returns the reference value of every output expression. -/
theorem initV_plain (cfg : Cfg α) (S S' : VState) (ins : List String) (outs : List Expr) (C : Compiled α)
    (hfresh : cfg.clearsState = true ∨ S = {})
    (hinit : initV cfg S ins outs none = (S', .ok C)) (xs : List α) (hxs : xs.length = ins.length) :
    run cfg.L C xs = outs.map (evalL cfg (tab0 ins) (bindEnv ins xs)) := by
  have htab : ({ inputs := ins, off := if cfg.clearsState then 0 else S.stalePtrs, repl := [],
                 staleRepl := if cfg.clearsState then [] else S.staleRepl } : SymTab α) = tab0 ins := by
    rcases hfresh with h | h
    · simp [h, tab0]
    · subst h; cases cfg.clearsState <;> simp [tab0]
  simp only [initV, htab] at hinit
  cases ha : applyOuts cfg (tab0 ins) outs (loads 0 ins.length) with
  | error err => rw [ha] at hinit; simp at hinit
  | ok r =>
    obtain ⟨vs, P1⟩ := r
    rw [ha] at hinit
    simp only [Prod.mk.injEq, Except.ok.injEq] at hinit
    obtain ⟨_, hC⟩ := hinit
    subst hC
    obtain ⟨ext, hext, hs⟩ := applyOuts_sim cfg xs (tab0 ins) (bindEnv ins xs) outs _ vs P1 ha
    have hregs : exec cfg.L xs [] (loads 0 ins.length) = loadVals xs 0 ins.length := by
      simpa using exec_loads cfg.L xs [] 0 ins.length
    have hall := hs (loadVals xs 0 ins.length) (by simp [loadVals_length, loads_length]) (envOK_loads cfg ins xs hxs)
    simp only [run, hext, exec_append, hregs]
    rw [valsOf_holds _ _ _ hall]
    simp [evalL, List.map_map, Function.comp_def]

/-- **Re-initialisation = fresh visitor** once `init` clears `symbol_ptrs` / `replacement_symbol_ptrs` on
entry: neither the program nor the state left behind depends on what an earlier (failed) init left. -/
theorem initV_state_irrelevant (cfg : Cfg α) (hclr : cfg.clearsState = true) (S : VState)
    (ins : List String) (outs : List Expr) (cse : Option (List (String × Expr) × List Expr)) :
    initV cfg S ins outs cse = initV cfg {} ins outs cse := by
  simp [initV, hclr]

end SymVerif.LLVMD
