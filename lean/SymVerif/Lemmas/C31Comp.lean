/-
C31 helper lemmas, part 6: the formal exponential `exp ∘ S` (Mathlib's `PowerSeries.exp` substituted),
and the congruence lemmas `S ≡ S' mod X^n → F S ≡ F S' mod X^n` needed to compose the per-function
specifications along an expression tree.
-/
import Mathlib.RingTheory.PowerSeries.Exp
import Mathlib.RingTheory.PowerSeries.Substitution
import SymVerif.Lemmas.C31SinCos

namespace SymVerif.C31
open SymVerif.Series PowerSeries

/-- `exp ∘ S` as a formal power series -/
noncomputable def fexp (S : ℚ⟦X⟧) : ℚ⟦X⟧ := (PowerSeries.exp ℚ).subst S

theorem constantCoeff_fexp {S : ℚ⟦X⟧} (hS : constantCoeff S = 0) : constantCoeff (fexp S) = 1 := by
  have hs : HasSubst S := HasSubst.of_constantCoeff_zero' hS
  unfold fexp
  rw [← coeff_zero_eq_constantCoeff_apply, coeff_subst' hs]
  rw [finsum_eq_single _ 0]
  · simp
  · intro d hd
    have : coeff 0 (S ^ d) = 0 := coeff_pow_of_lt hS (Nat.pos_of_ne_zero hd)
    rw [this, smul_zero]

theorem isExpOf_fexp {S : ℚ⟦X⟧} (hS : constantCoeff S = 0) : IsExpOf S (fexp S) := by
  have hs : HasSubst S := HasSubst.of_constantCoeff_zero' hS
  refine ⟨constantCoeff_fexp hS, ?_⟩
  unfold fexp
  rw [derivative_subst hs, derivative_exp]

theorem inv_congr {n : ℕ} {A B : ℚ⟦X⟧} (h : EqMod n A B) (hA : constantCoeff A ≠ 0)
    (hB : constantCoeff B ≠ 0) : EqMod n A⁻¹ B⁻¹ :=
  eqMod_inv_of_mul (P := A⁻¹) (A := A) (by rw [PowerSeries.inv_mul_cancel A hA]; exact EqMod.refl _ _) h hB

theorem constantCoeff_eq_of_eqMod {n : ℕ} (hn : 1 ≤ n) {A B : ℚ⟦X⟧} (h : EqMod n A B) :
    constantCoeff A = constantCoeff B := by
  have := h 0 (by omega)
  rwa [coeff_zero_eq_constantCoeff_apply, coeff_zero_eq_constantCoeff_apply] at this

/-- integrals of `S'·G(S)` respect congruences -/
theorem integ_deriv_mul_congr {n : ℕ} {S S' G G' : ℚ⟦X⟧} (h : EqMod n S S') (hG : EqMod n G G') :
    EqMod n (integ (d⁄dX ℚ S * G)) (integ (d⁄dX ℚ S' * G')) := by
  cases n with
  | zero => exact eqMod_zero _ _
  | succ n => exact (h.derivative.mul (hG.mono (by omega))).integ

theorem flog_congr {n : ℕ} {S S' : ℚ⟦X⟧} (h : EqMod n S S') (hS : constantCoeff S ≠ 0)
    (hS' : constantCoeff S' ≠ 0) : EqMod n (flog S) (flog S') :=
  integ_deriv_mul_congr h (inv_congr h hS hS')

theorem fatan_congr {n : ℕ} {S S' : ℚ⟦X⟧} (h : EqMod n S S') (hS : constantCoeff S = 0)
    (hS' : constantCoeff S' = 0) : EqMod n (fatan S) (fatan S') :=
  integ_deriv_mul_congr h (inv_congr ((EqMod.refl _ _).add (h.mul h))
    (by rw [map_add, map_mul, hS]; simp) (by rw [map_add, map_mul, hS']; simp))

theorem fatanh_congr {n : ℕ} {S S' : ℚ⟦X⟧} (h : EqMod n S S') (hS : constantCoeff S = 0)
    (hS' : constantCoeff S' = 0) : EqMod n (fatanh S) (fatanh S') :=
  integ_deriv_mul_congr h (inv_congr ((EqMod.refl _ _).sub (h.mul h))
    (by rw [map_sub, map_mul, hS]; simp) (by rw [map_sub, map_mul, hS']; simp))

/-- exponentials of congruent series are congruent -/
theorem isExpOf_congr {n : ℕ} {S S' E E' : ℚ⟦X⟧} (hE : IsExpOf S E) (hE' : IsExpOf S' E')
    (h : EqMod n S S') : EqMod n E E' := by
  cases n with
  | zero => exact eqMod_zero _ _
  | succ n =>
    have hEc : constantCoeff E ≠ 0 := by rw [hE.1]; exact one_ne_zero
    set Q := E' * E⁻¹
    have hQ' : d⁄dX ℚ Q = Q * (d⁄dX ℚ S' - d⁄dX ℚ S) := by
      show d⁄dX ℚ (E' * E⁻¹) = _
      rw [Derivation.leibniz, derivative_inv', hE.2, hE'.2, smul_eq_mul, smul_eq_mul]
      have h1 := PowerSeries.mul_inv_cancel E hEc
      calc E' * (-E⁻¹ ^ 2 * (E * d⁄dX ℚ S)) + E⁻¹ * (E' * d⁄dX ℚ S')
          = E' * E⁻¹ * d⁄dX ℚ S' - E' * E⁻¹ * d⁄dX ℚ S * (E * E⁻¹) := by ring
        _ = E' * E⁻¹ * (d⁄dX ℚ S' - d⁄dX ℚ S) := by rw [h1]; ring
    have hd : EqMod n (d⁄dX ℚ S' - d⁄dX ℚ S) 0 := by
      have := h.derivative.symm.sub (EqMod.refl n (d⁄dX ℚ S))
      simpa using this
    have hQ1 : EqMod (n + 1) Q 1 := by
      apply eqMod_of_derivative
      · rw [coeff_zero_eq_constantCoeff_apply, coeff_zero_eq_constantCoeff_apply]
        show constantCoeff (E' * E⁻¹) = _
        rw [map_mul, constantCoeff_inv, hE.1, hE'.1]; simp
      · rw [hQ', derivative_one]
        have := EqMod.mul_left Q hd
        simpa using this
    have : E' = Q * E := by
      show E' = E' * E⁻¹ * E
      rw [mul_assoc, PowerSeries.inv_mul_cancel E hEc, mul_one]
    rw [this]
    have := (hQ1.mul_right E).symm
    simpa using this

theorem fexp_congr {n : ℕ} {S S' : ℚ⟦X⟧} (h : EqMod n S S') (hS : constantCoeff S = 0)
    (hS' : constantCoeff S' = 0) : EqMod n (fexp S) (fexp S') :=
  isExpOf_congr (isExpOf_fexp hS) (isExpOf_fexp hS') h

/-- series_exp against `exp ∘ S` for any `S` congruent to the argument -/
theorem exp_specC (s g : Poly) (prec : ℕ) (hp : 1 ≤ prec) (h : seriesExp s prec = .ok g) {S : ℚ⟦X⟧}
    (hs : EqMod prec (toPS s) S) : constantCoeff S = 0 ∧ EqMod prec (toPS g) (fexp S) := by
  have hc : constantCoeff (toPS s) = 0 := by
    unfold seriesExp at h
    split at h
    · next h0 => rw [toPS_of_isZero h0]; simp
    · split at h
      · next hv => rw [toPS_of_isVar hv]; simp
      · split at h
        · cases h
        · next hc =>
          have hc0 : Series.coeff s 0 = 0 := by simpa using hc
          rw [constantCoeff_toPS, hc0]
  have hS : constantCoeff S = 0 := by rw [← constantCoeff_eq_of_eqMod hp hs, hc]
  exact ⟨hS, ((exp_spec s g prec h (isExpOf_fexp hc)).2).trans (fexp_congr hs hc hS)⟩

theorem log_specC (s g : Poly) (prec : ℕ) (hp : 1 ≤ prec) (h : seriesLog s prec = .ok g) {S : ℚ⟦X⟧}
    (hs : EqMod prec (toPS s) S) : constantCoeff S = 1 ∧ EqMod prec (toPS g) (flog S) := by
  obtain ⟨hc, hg⟩ := log_spec s g prec h
  have hS : constantCoeff S = 1 := by rw [← constantCoeff_eq_of_eqMod hp hs, hc]
  exact ⟨hS, hg.trans (flog_congr hs (by rw [hc]; exact one_ne_zero) (by rw [hS]; exact one_ne_zero))⟩

theorem atan_specC (s g : Poly) (prec : ℕ) (hp : 1 ≤ prec) (h : seriesAtan s prec = .ok g) {S : ℚ⟦X⟧}
    (hs : EqMod prec (toPS s) S) : constantCoeff S = 0 ∧ EqMod prec (toPS g) (fatan S) := by
  obtain ⟨hc, hg⟩ := atan_spec s g prec h
  have hS : constantCoeff S = 0 := by rw [← constantCoeff_eq_of_eqMod hp hs, hc]
  exact ⟨hS, hg.trans (fatan_congr hs hc hS)⟩

theorem atanh_specC (s g : Poly) (prec : ℕ) (hp : 1 ≤ prec) (h : seriesAtanh s prec = .ok g) {S : ℚ⟦X⟧}
    (hs : EqMod prec (toPS s) S) : constantCoeff S = 0 ∧ EqMod prec (toPS g) (fatanh S) := by
  obtain ⟨hc, hg⟩ := atanh_spec s g prec h
  have hS : constantCoeff S = 0 := by rw [← constantCoeff_eq_of_eqMod hp hs, hc]
  exact ⟨hS, hg.trans (fatanh_congr hs hc hS)⟩

theorem sin_specC (s g : Poly) (prec : ℕ) (hp : 1 ≤ prec) (h : seriesSin s prec = .ok g) {S : ℚ⟦X⟧}
    (hs : EqMod prec (toPS s) S) : constantCoeff S = 0 ∧ EqMod prec (toPS g) (comp sinC S) := by
  obtain ⟨hc, hg⟩ := sin_spec s g prec h
  have hS : constantCoeff S = 0 := by rw [← constantCoeff_eq_of_eqMod hp hs, hc]
  exact ⟨hS, hg.trans (comp_congr sinC hc hS hs)⟩

theorem cos_specC (s g : Poly) (prec : ℕ) (hp : 1 ≤ prec) (h : seriesCos s prec = .ok g) {S : ℚ⟦X⟧}
    (hs : EqMod prec (toPS s) S) : constantCoeff S = 0 ∧ EqMod prec (toPS g) (comp cosC S) := by
  obtain ⟨hc, hg⟩ := cos_spec s g prec h
  have hS : constantCoeff S = 0 := by rw [← constantCoeff_eq_of_eqMod hp hs, hc]
  exact ⟨hS, hg.trans (comp_congr cosC hc hS hs)⟩

theorem constantCoeff_comp (a : ℕ → ℚ) {S : ℚ⟦X⟧} (hS : constantCoeff S = 0) :
    constantCoeff (comp a S) = a 0 := by
  rw [← coeff_zero_eq_constantCoeff_apply, comp, coeff_mk, psum_succ, psum_zero]
  simp

theorem sec_specC (s g : Poly) (prec : ℕ) (hp : 1 ≤ prec) (h : seriesSec s prec = .ok g) {S : ℚ⟦X⟧}
    (hs : EqMod prec (toPS s) S) : constantCoeff S = 0 ∧ EqMod prec (toPS g) (comp cosC S)⁻¹ := by
  unfold seriesSec at h
  simp only [bind, Except.bind] at h
  split at h
  · cases h
  · next c hc =>
    obtain ⟨hS, hcs⟩ := cos_specC s c prec hp hc hs
    refine ⟨hS, eqMod_inv_of_mul (invert_spec c g prec h) hcs ?_⟩
    rw [constantCoeff_comp cosC hS]
    simp [cosC]

theorem sinh_specC (s g : Poly) (prec : ℕ) (hp : 1 ≤ prec) (h : seriesSinh s prec = .ok g) {S : ℚ⟦X⟧}
    (hs : EqMod prec (toPS s) S) :
    constantCoeff S = 0 ∧ EqMod prec (toPS g) (C (1 / 2 : ℚ) * (fexp S - (fexp S)⁻¹)) := by
  have hc : constantCoeff (toPS s) = 0 := by
    unfold seriesSinh at h
    split at h
    · cases h
    · next hc =>
      have hc0 : Series.coeff s 0 = 0 := by simpa using hc
      rw [constantCoeff_toPS, hc0]
  have hS : constantCoeff S = 0 := by rw [← constantCoeff_eq_of_eqMod hp hs, hc]
  refine ⟨hS, (sinh_spec s g prec h (isExpOf_fexp hc)).trans ?_⟩
  have he := fexp_congr hs hc hS
  have h1 : constantCoeff (fexp (toPS s)) ≠ 0 := by rw [constantCoeff_fexp hc]; exact one_ne_zero
  have h2 : constantCoeff (fexp S) ≠ 0 := by rw [constantCoeff_fexp hS]; exact one_ne_zero
  exact EqMod.mul_left _ (he.sub (inv_congr he h1 h2))

theorem cosh_specC (s g : Poly) (prec : ℕ) (hp : 1 ≤ prec) (h : seriesCosh s prec = .ok g) {S : ℚ⟦X⟧}
    (hs : EqMod prec (toPS s) S) :
    constantCoeff S = 0 ∧ EqMod prec (toPS g) (C (1 / 2 : ℚ) * (fexp S + (fexp S)⁻¹)) := by
  have hc : constantCoeff (toPS s) = 0 := by
    unfold seriesCosh at h
    split at h
    · cases h
    · next hc =>
      have hc0 : Series.coeff s 0 = 0 := by simpa using hc
      rw [constantCoeff_toPS, hc0]
  have hS : constantCoeff S = 0 := by rw [← constantCoeff_eq_of_eqMod hp hs, hc]
  refine ⟨hS, (cosh_spec s g prec h (isExpOf_fexp hc)).trans ?_⟩
  have he := fexp_congr hs hc hS
  have h1 : constantCoeff (fexp (toPS s)) ≠ 0 := by rw [constantCoeff_fexp hc]; exact one_ne_zero
  have h2 : constantCoeff (fexp S) ≠ 0 := by rw [constantCoeff_fexp hS]; exact one_ne_zero
  exact EqMod.mul_left _ (he.add (inv_congr he h1 h2))

/-- the composition with Mathlib's sine / cosine series: `comp sinC S = sin ∘ S` -/
theorem comp_eq_subst (a : ℕ → ℚ) {S : ℚ⟦X⟧} (hS : constantCoeff S = 0) :
    comp a S = (PowerSeries.mk a).subst S := by
  have hs : HasSubst S := HasSubst.of_constantCoeff_zero' hS
  ext e
  rw [coeff_subst' hs, comp, coeff_mk]
  rw [finsum_eq_sum_of_support_subset (s := Finset.range (e + 1))]
  · unfold psum
    rw [map_sum]
    apply Finset.sum_congr rfl
    intro d _
    rw [coeff_C_mul, coeff_mk, smul_eq_mul]
  · intro d hd
    simp only [Function.mem_support, ne_eq] at hd
    by_contra hcon
    have : e < d := by
      simp only [Finset.coe_range, Set.mem_Iio, not_lt] at hcon
      omega
    exact hd (by rw [coeff_pow_of_lt hS this, smul_zero])

end SymVerif.C31
