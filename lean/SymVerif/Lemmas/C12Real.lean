/-
`NumOps ℝ`: the instantiation of M-Eval used by the proofs (C12, C13, C15).
Every libm entry point is interpreted by the corresponding Mathlib function; `erf`/`erfc`
have no Mathlib definition and are parameters.  ℝ has no infinities / NaN: `inf`, `nan`
and non-finite stored doubles are mapped to 0 and no theorem below depends on them.
-/
import SymVerif.Model.EvalG
import SymVerif.Model.EvalFloat
import Mathlib.Analysis.SpecialFunctions.Trigonometric.Inverse
import Mathlib.Analysis.SpecialFunctions.Trigonometric.Arctan
import Mathlib.Analysis.SpecialFunctions.Complex.Arg
import Mathlib.Analysis.SpecialFunctions.Arsinh
import Mathlib.Analysis.SpecialFunctions.Arcosh
import Mathlib.Analysis.SpecialFunctions.Artanh
import Mathlib.Analysis.SpecialFunctions.Pow.Real
import Mathlib.Analysis.SpecialFunctions.Gamma.Basic

namespace SymVerif.EvalG

open Classical in
/-- the real-number interpretation of the number structure -/
noncomputable def realOps (erf erfc : ℝ → ℝ) : NumOps ℝ where
  ofQTrunc := fun n d => (n : ℝ) / (d : ℝ)
  ofQNear := fun n d => (n : ℝ) / (d : ℝ)
  ofBits := fun b => match bitsToQ b with
    | some (n, d) => (n : ℝ) / (d : ℝ)
    | none => 0
  inf := fun _ => 0
  nan := 0
  add := (· + ·)
  sub := (· - ·)
  mul := (· * ·)
  div := (· / ·)
  neg := fun x => -x
  call1 := fun f x =>
    match f with
    | .sin => some (Real.sin x) | .cos => some (Real.cos x) | .tan => some (Real.tan x)
    | .asin => some (Real.arcsin x) | .acos => some (Real.arccos x) | .atan => some (Real.arctan x)
    | .sinh => some (Real.sinh x) | .cosh => some (Real.cosh x) | .tanh => some (Real.tanh x)
    | .asinh => some (Real.arsinh x) | .acosh => some (Real.arcosh x) | .atanh => some (Real.artanh x)
    | .exp => some (Real.exp x) | .log => some (Real.log x) | .abs => some |x|
    | .floor => some (⌊x⌋ : ℝ) | .ceil => some (⌈x⌉ : ℝ)
    | .trunc => some (if x < 0 then (⌈x⌉ : ℝ) else (⌊x⌋ : ℝ))
    | .sqrt => some (Real.sqrt x) | .cbrt => none
    | .isnan => some 0
    | .tgamma => some (Real.Gamma x) | .lgamma => some (Real.log (Real.Gamma x))
    | .erf => some (erf x) | .erfc => some (erfc x)
    | _ => none
  call2 := fun f x y =>
    match f with
    | .atan2 => some (Complex.arg ⟨y, x⟩)
    | .pow => some (x ^ y)
    | .max => some (if x < y then y else x)
    | .min => some (if y < x then y else x)
    | _ => none
  eq := fun a b => decide (a = b)
  lt := fun a b => decide (a < b)
  le := fun a b => decide (a ≤ b)

/-- value of a `.fn` node kind of a definition table on given operand values -/
def nodeVal {α : Type} (O : NumOps α) (defs : Defs) (k : String) (args : List α) : Except Err α :=
  match defs.find k with
  | some (.fn body) => evalF O args body
  | _ => .error .notImpl

end SymVerif.EvalG
