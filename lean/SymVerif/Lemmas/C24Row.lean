import SymVerif.Lemmas.C24Struct
/-! Row and column operations (in-place single loops). -/
namespace SymVerif.Dense

/-- A loop whose iteration `k` rewrites only the cells `S k` (pairwise disjoint blocks), with new
    values that depend on the storage only through cells no other iteration writes. -/
theorem forN_blocks (n : Nat) (S : Nat → Nat → Prop) (val : Nat → Nat → X)
    (body : Nat → Array X → M (Array X)) (m0 : Array X)
    (hdisj : ∀ k, k < n → ∀ k', k' < n → ∀ t, S k t → S k' t → k = k')
    (hstep : ∀ k, k < n → ∀ m : Array X, m.size = m0.size →
      (∀ t, (∀ k', k' < n → k' ≠ k → ¬ S k' t) → m.getD t X.unk = m0.getD t X.unk) →
      ∃ m', body k m = .ok m' ∧ m'.size = m0.size ∧ (∀ t, S k t → m'.getD t X.unk = val k t) ∧
        (∀ t, ¬ S k t → m'.getD t X.unk = m.getD t X.unk)) :
    ∃ m, forN n 0 body m0 = .ok m ∧ m.size = m0.size ∧
      (∀ k, k < n → ∀ t, S k t → m.getD t X.unk = val k t) ∧
      (∀ t, (∀ k, k < n → ¬ S k t) → m.getD t X.unk = m0.getD t X.unk) := by
  let P : Nat → Array X → Prop := fun k m => m.size = m0.size ∧
    (∀ k', k' < k → ∀ t, S k' t → m.getD t X.unk = val k' t) ∧
    (∀ t, (∀ k', k' < k → ¬ S k' t) → m.getD t X.unk = m0.getD t X.unk)
  have h := forN_spec body P n 0 m0 ⟨rfl, fun _ h => absurd h (Nat.not_lt_zero _), fun _ _ => rfl⟩ ?_
  · obtain ⟨m, hm, hs, h1, h2⟩ := h
    simp only [Nat.zero_add] at h1 h2
    exact ⟨m, hm, hs, h1, h2⟩
  · intro k m _ hk hP
    simp only [Nat.zero_add] at hk
    obtain ⟨hs, h1, h2⟩ := hP
    obtain ⟨m', hb, hs', v1, v2⟩ := hstep k hk m hs
      (fun t ht => h2 t (fun k' hk' => ht k' (by omega) (by omega)))
    refine ⟨m', hb, hs', ?_, ?_⟩
    · intro k' hk' t ht
      by_cases e : k' = k
      · subst e; exact v1 t ht
      · have hn : ¬ S k t := fun hk2 => e (hdisj k' (by omega) k hk t ht hk2)
        rw [v2 t hn]; exact h1 k' (by omega) t ht
    · intro t ht
      rw [v2 t (ht k (by omega))]
      exact h2 t (fun k' hk' => ht k' (by omega))

theorem idx_ne_row {col i j k k' : Nat} (hk : k < col) (hk' : k' < col) (hij : i ≠ j) :
    i * col + k ≠ j * col + k' := fun h => hij (idx_inj hk hk' h).1

theorem rowMulScalar_spec (A : DM) (i : Nat) (c : X) (hA : A.wf) (hi : i < A.row) :
    ∃ C, rowMulScalar A i c = .ok C ∧ C.row = A.row ∧ C.col = A.col ∧ C.wf ∧
      ∀ r, r < A.row → ∀ k, k < A.col →
        C.at r k = if r = i then X.mul c (A.at i k) else A.at r k := by
  obtain ⟨m, hm, hs, h1, h2⟩ := forN_blocks A.col (fun k t => t = i * A.col + k)
    (fun k _ => X.mul c (A.m.getD (i * A.col + k) X.unk))
    (fun j m => do wr m (i * A.col + j) (X.mul c (← rd m (i * A.col + j)))) A.m
    (by intro k _ k' _ t h h'; subst h; omega)
    (by
      intro k hk m hs hag
      have hlt : i * A.col + k < m.size := by rw [hs, hA]; exact idx_lt hi hk
      refine ⟨m.set (i * A.col + k) (X.mul c (m.getD (i * A.col + k) X.unk)) hlt, ?_, by simp [hs], ?_, ?_⟩
      · rw [rd_getD hlt]; simp only [bind_ok, wr_ok _ hlt]
      · intro t ht; subst ht
        rw [getD_set]; simp only [if_true]
        rw [hag _ (fun k' _ hne h => hne (by omega))]
      · intro t ht; rw [getD_set, if_neg ht])
  refine ⟨{ A with m := m }, ?_, rfl, rfl, ?_, ?_⟩
  · have hq : decide (i < A.row) = true := by simp [hi]
    simp only [rowMulScalar, rowMulScalarM, req_true hq, bind_ok]
    rw [hm]; rfl
  · simp [DM.wf, hs]; exact hA
  · intro r hr k hk
    simp only [DM.at]
    by_cases e : r = i
    · subst e; simp only [if_true]; exact h1 k hk _ rfl
    · simp only [if_neg e]
      exact h2 _ (fun k' hk' => idx_ne_row hk hk' e)

theorem rowAddRow_spec (A : DM) (i j : Nat) (c : X) (hA : A.wf) (hi : i < A.row) (hj : j < A.row)
    (hij : i ≠ j) :
    ∃ C, rowAddRow A i j c = .ok C ∧ C.row = A.row ∧ C.col = A.col ∧ C.wf ∧
      ∀ r, r < A.row → ∀ k, k < A.col →
        C.at r k = if r = i then X.add (A.at i k) (X.mul c (A.at j k)) else A.at r k := by
  obtain ⟨m, hm, hs, h1, h2⟩ := forN_blocks A.col (fun k t => t = i * A.col + k)
    (fun k _ => X.add (A.m.getD (i * A.col + k) X.unk) (X.mul c (A.m.getD (j * A.col + k) X.unk)))
    (fun k m => do
      wr m (i * A.col + k) (X.add (← rd m (i * A.col + k)) (X.mul c (← rd m (j * A.col + k))))) A.m
    (by intro k _ k' _ t h h'; subst h; omega)
    (by
      intro k hk m hs hag
      have hlt : i * A.col + k < m.size := by rw [hs, hA]; exact idx_lt hi hk
      have hlt2 : j * A.col + k < m.size := by rw [hs, hA]; exact idx_lt hj hk
      refine ⟨m.set (i * A.col + k) (X.add (m.getD (i * A.col + k) X.unk)
        (X.mul c (m.getD (j * A.col + k) X.unk))) hlt, ?_, by simp [hs], ?_, ?_⟩
      · rw [rd_getD hlt, rd_getD hlt2]; simp only [bind_ok, wr_ok _ hlt]
      · intro t ht; subst ht
        rw [getD_set]; simp only [if_true]
        rw [hag _ (fun k' _ hne h => hne (by omega)),
          hag _ (fun k' hk' _ h => idx_ne_row hk hk' hij.symm h)]
      · intro t ht; rw [getD_set, if_neg ht])
  refine ⟨{ A with m := m }, ?_, rfl, rfl, ?_, ?_⟩
  · have hq : (i != j && decide (i < A.row) && decide (j < A.row)) = true := by simp [hi, hj, hij]
    simp only [rowAddRow, rowAddRowM, req_true hq, bind_ok]
    rw [hm]; rfl
  · simp [DM.wf, hs]; exact hA
  · intro r hr k hk
    simp only [DM.at]
    by_cases e : r = i
    · subst e; simp only [if_true]; exact h1 k hk _ rfl
    · simp only [if_neg e]
      exact h2 _ (fun k' hk' => idx_ne_row hk hk' e)

theorem rowExchange_spec (A : DM) (i j : Nat) (hA : A.wf) (hi : i < A.row) (hj : j < A.row)
    (hij : i ≠ j) :
    ∃ C, rowExchange A i j = .ok C ∧ C.row = A.row ∧ C.col = A.col ∧ C.wf ∧
      ∀ r, r < A.row → ∀ k, k < A.col →
        C.at r k = if r = i then A.at j k else if r = j then A.at i k else A.at r k := by
  obtain ⟨m, hm, hs, h1, h2⟩ := forN_blocks A.col (fun k t => t = i * A.col + k ∨ t = j * A.col + k)
    (fun k t => if t = i * A.col + k then A.m.getD (j * A.col + k) X.unk
                else A.m.getD (i * A.col + k) X.unk)
    (fun k m => do
      let a ← rd m (i * A.col + k)
      let b ← rd m (j * A.col + k)
      let m ← wr m (i * A.col + k) b
      wr m (j * A.col + k) a) A.m
    (by
      intro k hk k' hk' t h h'
      rcases h with h | h <;> rcases h' with h' | h' <;> subst h
      · omega
      · exact absurd h' (idx_ne_row hk hk' hij)
      · exact absurd h'.symm (idx_ne_row hk' hk hij)
      · omega)
    (by
      intro k hk m hs hag
      have hlt : i * A.col + k < m.size := by rw [hs, hA]; exact idx_lt hi hk
      have hlt2 : j * A.col + k < m.size := by rw [hs, hA]; exact idx_lt hj hk
      have hlt2' : j * A.col + k < (m.set (i * A.col + k) (m.getD (j * A.col + k) X.unk) hlt).size := by
        simp [hlt2]
      have hne : j * A.col + k ≠ i * A.col + k := idx_ne_row hk hk hij.symm
      have ai : m.getD (i * A.col + k) X.unk = A.m.getD (i * A.col + k) X.unk :=
        hag _ (fun k' hk' hne' h => by
          rcases h with h | h
          · exact hne' (by omega)
          · exact idx_ne_row hk hk' hij h)
      have aj : m.getD (j * A.col + k) X.unk = A.m.getD (j * A.col + k) X.unk :=
        hag _ (fun k' hk' hne' h => by
          rcases h with h | h
          · exact idx_ne_row hk hk' hij.symm h
          · exact hne' (by omega))
      refine ⟨(m.set (i * A.col + k) (m.getD (j * A.col + k) X.unk) hlt).set (j * A.col + k)
        (m.getD (i * A.col + k) X.unk) hlt2', ?_, by simp [hs], ?_, ?_⟩
      · rw [rd_getD hlt, rd_getD hlt2]; simp only [bind_ok, wr_ok _ hlt, wr_ok _ hlt2']
      · intro t ht
        rcases ht with ht | ht <;> subst ht
        · rw [getD_set, if_neg hne.symm, getD_set]; simp only [if_true]; exact aj
        · rw [getD_set]; simp only [if_true, if_neg hne]; exact ai
      · intro t ht
        have n1 : t ≠ i * A.col + k := fun h => ht (Or.inl h)
        have n2 : t ≠ j * A.col + k := fun h => ht (Or.inr h)
        rw [getD_set, if_neg n2, getD_set, if_neg n1])
  refine ⟨{ A with m := m }, ?_, rfl, rfl, ?_, ?_⟩
  · have hq : (i != j && decide (i < A.row) && decide (j < A.row)) = true := by simp [hi, hj, hij]
    simp only [rowExchange, rowExchangeM, req_true hq, bind_ok]
    rw [hm]; rfl
  · simp [DM.wf, hs]; exact hA
  · intro r hr k hk
    simp only [DM.at]
    by_cases e : r = i
    · subst e; simp only [if_true]
      rw [h1 k hk _ (Or.inl rfl)]; simp
    · simp only [if_neg e]
      by_cases e2 : r = j
      · subst e2; simp only [if_true]
        rw [h1 k hk _ (Or.inr rfl), if_neg (idx_ne_row hk hk e)]
      · simp only [if_neg e2]
        exact h2 _ (fun k' hk' h => by
          rcases h with h | h
          · exact idx_ne_row hk hk' e h
          · exact idx_ne_row hk hk' e2 h)

end SymVerif.Dense
