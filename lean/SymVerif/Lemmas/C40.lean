import SymVerif.Model.RC
/-! Invariant of the reference-count protocol and its preservation by the primitives. -/
namespace SymVerif.RC

/-- references to `o` stored in `p` (if `p` is live) -/
def w (p : Obj) (o : Nat) : Nat := if p.live then p.children.count o else 0

theorem parentRefs_eq (s : State) (o : Nat) : parentRefs s o = (s.objs.map (fun p => w p o)).sum := rfl

theorem sum_map_set {α : Type} (f : α → Nat) : ∀ (l : List α) (i : Nat) (a b : α), l[i]? = some b →
    ((l.set i a).map f).sum + f b = (l.map f).sum + f a := by
  intro l
  induction l with
  | nil => intro i a b h; simp at h
  | cons x xs ih =>
    intro i a b h
    cases i with
    | zero => simp at h; subst h; simp; omega
    | succ i =>
      simp at h
      have := ih i a b h
      simp only [List.set_cons_succ, List.map_cons, List.sum_cons]
      omega

/-- `InvT s L`: the invariant with a multiset `L` of references "in flight" (held by the
    running operation but not yet / no longer stored in a handle slot or an object). -/
structure InvT (s : State) (L : List Nat) : Prop where
  counts : ∀ o, refs s o + L.count o = cnt s o
  pos : ∀ (o : Nat) (ob : Obj), s.objs[o]? = some ob → ob.live = true → 0 < ob.count
  acyc : ∀ (p : Nat) (ob : Obj), s.objs[p]? = some ob → ob.live = true → ∀ c ∈ ob.children, c < p

/-- The invariant at operation boundaries. -/
def Inv (s : State) : Prop := InvT s []

theorem InvT.congr {s : State} {L L' : List Nat} (h : ∀ o, L.count o = L'.count o) (i : InvT s L) :
    InvT s L' := ⟨fun o => by rw [← h o]; exact i.counts o, i.pos, i.acyc⟩

theorem cnt_pos_iff {s : State} {o : Nat} :
    0 < cnt s o ↔ ∃ ob, s.objs[o]? = some ob ∧ ob.live = true ∧ 0 < ob.count ∧ cnt s o = ob.count := by
  unfold cnt
  cases h : s.objs[o]? with
  | none => simp
  | some ob =>
    by_cases hl : ob.live = true <;> simp [hl]

theorem InvT.live_of_ref {s : State} {L : List Nat} (i : InvT s L) {o : Nat}
    (h : 0 < refs s o + L.count o) :
    ∃ ob, s.objs[o]? = some ob ∧ ob.live = true ∧ 0 < ob.count ∧ cnt s o = ob.count := by
  rw [i.counts o] at h
  exact cnt_pos_iff.mp h

theorem objs_setObj (s : State) (o : Nat) (ob' : Obj) (p : Nat) :
    (setObj s o ob').objs[p]? = if o = p then (if o < s.objs.length then some ob' else none) else s.objs[p]? := by
  simp [setObj, List.getElem?_set]

theorem lt_of_getElem? {α : Type} {l : List α} {i : Nat} {a : α} (h : l[i]? = some a) : i < l.length := by
  have := List.getElem?_eq_some_iff.mp h
  exact this.1

theorem parentRefs_setObj {s : State} {o : Nat} {ob : Obj} (ob' : Obj) (x : Nat) (h : s.objs[o]? = some ob) :
    parentRefs (setObj s o ob') x + w ob x = parentRefs s x + w ob' x := by
  rw [parentRefs_eq, parentRefs_eq]
  exact sum_map_set (fun p => w p x) s.objs o ob' ob h

theorem sumCounts_setObj {s : State} {o : Nat} {ob : Obj} (ob' : Obj) (h : s.objs[o]? = some ob) :
    sumCounts (setObj s o ob') + ob.count = sumCounts s + ob'.count :=
  sum_map_set (fun p => p.count) s.objs o ob' ob h

theorem cnt_setObj {s : State} {o : Nat} {ob : Obj} (ob' : Obj) (x : Nat) (h : s.objs[o]? = some ob) :
    cnt (setObj s o ob') x = if x = o then (if ob'.live then ob'.count else 0) else cnt s x := by
  have hl := lt_of_getElem? h
  unfold cnt
  rw [objs_setObj]
  by_cases hx : x = o
  · subst hx; simp [hl]
  · have : ¬ o = x := fun e => hx e.symm
    simp [hx, this]

theorem isLive_setObj {s : State} {o : Nat} {ob : Obj} (ob' : Obj) (x : Nat) (h : s.objs[o]? = some ob) :
    isLive (setObj s o ob') x = if x = o then ob'.live else isLive s x := by
  have hl := lt_of_getElem? h
  unfold isLive
  rw [objs_setObj]
  by_cases hx : x = o
  · subst hx; simp [hl]
  · have : ¬ o = x := fun e => hx e.symm
    simp [hx, this]

theorem refs_setObj_same {s : State} {o : Nat} {ob : Obj} (ob' : Obj) (x : Nat) (h : s.objs[o]? = some ob)
    (hw : w ob' x = w ob x) : refs (setObj s o ob') x = refs s x := by
  have := parentRefs_setObj ob' x h
  unfold refs
  have hh : (setObj s o ob').handles = s.handles := rfl
  rw [hh]; omega

/-- changing only the count field of a live object -/
theorem InvT.setCount {s : State} {L L' : List Nat} {o : Nat} {ob : Obj} (i : InvT s L)
    (h : s.objs[o]? = some ob) (hl : ob.live = true) (n : Nat) (hn : 0 < n)
    (hL : ∀ x, L'.count x + (if x = o then ob.count else 0) = L.count x + (if x = o then n else 0)) :
    InvT (setObj s o { ob with count := n }) L' := by
  refine ⟨?_, ?_, ?_⟩
  · intro x
    have hw : w { ob with count := n } x = w ob x := rfl
    rw [refs_setObj_same _ x h hw, cnt_setObj _ x h]
    have hc := i.counts x
    have hLx := hL x
    by_cases hx : x = o
    · subst hx
      have : cnt s x = ob.count := by unfold cnt; simp [h, hl]
      simp [hl] at *; omega
    · simp [hx] at *; omega
  · intro p pb hp hpl
    rw [objs_setObj] at hp
    by_cases e : o = p
    · subst e
      have hlt := lt_of_getElem? h
      simp [hlt] at hp; subst hp; exact hn
    · simp [e] at hp; exact i.pos p pb hp hpl
  · intro p pb hp hpl c hc
    rw [objs_setObj] at hp
    by_cases e : o = p
    · subst e
      have hlt := lt_of_getElem? h
      simp [hlt] at hp; subst hp; exact i.acyc o ob h hl c hc
    · simp [e] at hp; exact i.acyc p pb hp hpl c hc

theorem incref_ok {s : State} {L : List Nat} {o : Nat} {ob : Obj} (i : InvT s L)
    (h : s.objs[o]? = some ob) (hl : ob.live = true) :
    incref s o = .ok (setObj s o { ob with count := ob.count + 1 }) ∧
      InvT (setObj s o { ob with count := ob.count + 1 }) (o :: L) := by
  constructor
  · simp [incref, getObj, h, hl]
  · apply i.setCount h hl (ob.count + 1) (by omega)
    intro x
    by_cases hx : x = o
    · subst hx; simp; omega
    · have : ¬ o = x := fun e => hx e.symm
      simp [hx, List.count_cons, this]

/-- facts about states that only differ in count fields / liveness going down -/
structure Mono (s s' : State) : Prop where
  handles : s'.handles = s.handles
  len : s'.objs.length = s.objs.length
  live : ∀ x, isLive s' x = true → isLive s x = true
  kids : ∀ x, childrenOf s' x = childrenOf s x

theorem Mono.refl (s : State) : Mono s s := ⟨rfl, rfl, fun _ h => h, fun _ => rfl⟩
theorem Mono.trans {a b c : State} (h1 : Mono a b) (h2 : Mono b c) : Mono a c :=
  ⟨h2.handles.trans h1.handles, h2.len.trans h1.len, fun x h => h1.live x (h2.live x h),
   fun x => (h2.kids x).trans (h1.kids x)⟩

theorem childrenOf_setObj {s : State} {o : Nat} {ob : Obj} (ob' : Obj) (x : Nat) (h : s.objs[o]? = some ob) :
    childrenOf (setObj s o ob') x = if x = o then ob'.children else childrenOf s x := by
  have hl := lt_of_getElem? h
  unfold childrenOf
  rw [objs_setObj]
  by_cases hx : x = o
  · subst hx; simp [hl]
  · have : ¬ o = x := fun e => hx e.symm
    simp [hx, this]

theorem Mono.setObj {s : State} {o : Nat} {ob : Obj} (ob' : Obj) (h : s.objs[o]? = some ob)
    (hl : ob'.live = true → ob.live = true) (hk : ob'.children = ob.children) : Mono s (setObj s o ob') := by
  refine ⟨rfl, by simp [RC.setObj], ?_, ?_⟩
  · intro x hx
    rw [isLive_setObj _ x h] at hx
    by_cases e : x = o
    · subst e; simp at hx; unfold isLive; simp [h, hl hx]
    · simpa [e] using hx
  · intro x
    rw [childrenOf_setObj _ x h]
    by_cases e : x = o
    · subst e; simp [hk, childrenOf, h]
    · simp [e]

theorem release_ok : ∀ (f : Nat) (s : State) (todo L : List Nat), InvT s (todo ++ L) → sumCounts s ≤ f →
    ∃ s', release f s todo = .ok s' ∧ InvT s' L ∧ Mono s s' := by
  intro f
  induction f with
  | zero =>
    intro s todo L i hf
    cases todo with
    | nil => exact ⟨s, rfl, by simpa using i, Mono.refl s⟩
    | cons o todo =>
      exfalso
      obtain ⟨ob, h, _, hp, _⟩ := i.live_of_ref (o := o) (by simp; omega)
      have := sumCounts_setObj { ob with count := 0 } h
      simp at this
      omega
  | succ f ih =>
    intro s todo L i hf
    cases todo with
    | nil => exact ⟨s, rfl, by simpa using i, Mono.refl s⟩
    | cons o todo =>
      obtain ⟨ob, h, hl, hp, hc⟩ := i.live_of_ref (o := o) (by simp; omega)
      by_cases h1 : ob.count = 1
      · -- the last reference: delete
        have hcnt := i.counts o
        rw [hc, h1] at hcnt
        simp [List.count_cons] at hcnt
        have hchild : ob.children.count o = 0 := by
          apply List.count_eq_zero.mpr
          intro hm
          have := i.acyc o ob h hl o hm
          omega
        have hsum := sumCounts_setObj { ob with count := 0, live := false } h
        simp at hsum
        have inv1 : InvT (setObj s o { ob with count := 0, live := false }) ((ob.children ++ todo) ++ L) := by
          refine ⟨?_, ?_, ?_⟩
          · intro x
            have hpr := parentRefs_setObj { ob with count := 0, live := false } x h
            rw [cnt_setObj _ x h]
            have hcx := i.counts x
            unfold refs at hcx ⊢
            have hh : (setObj s o { ob with count := 0, live := false }).handles = s.handles := rfl
            rw [hh]
            simp [w, hl] at hpr
            by_cases hx : x = o
            · subst hx
              simp [List.count_append, hchild] at *
              omega
            · have hne : ¬ o = x := fun e => hx e.symm
              have : cnt s x = cnt s x := rfl
              simp [hx, List.count_append, List.count_cons, hne] at *
              omega
          · intro p pb hp' hpl
            rw [objs_setObj] at hp'
            by_cases e : o = p
            · subst e
              have hlt := lt_of_getElem? h
              simp [hlt] at hp'; subst hp'; simp at hpl
            · simp [e] at hp'; exact i.pos p pb hp' hpl
          · intro p pb hp' hpl c hcm
            rw [objs_setObj] at hp'
            by_cases e : o = p
            · subst e
              have hlt := lt_of_getElem? h
              simp [hlt] at hp'; subst hp'; simp at hpl
            · simp [e] at hp'; exact i.acyc p pb hp' hpl c hcm
        obtain ⟨s', hr, hi, hm⟩ := ih _ (ob.children ++ todo) L inv1 (by omega)
        refine ⟨s', ?_, hi, (Mono.setObj { ob with count := 0, live := false } h (by simp) rfl).trans hm⟩
        rw [← hr]
        simp only [release, h]
        rw [if_neg (by simp [hl]), if_neg (by omega), if_pos h1]
      · -- other references remain
        have hsum := sumCounts_setObj { ob with count := ob.count - 1 } h
        simp at hsum
        have inv1 : InvT (setObj s o { ob with count := ob.count - 1 }) (todo ++ L) := by
          apply i.setCount h hl (ob.count - 1) (by omega)
          intro x
          by_cases hx : x = o
          · subst hx; simp [List.count_cons]; omega
          · have : ¬ o = x := fun e => hx e.symm
            simp [hx, List.count_cons, this]
        obtain ⟨s', hr, hi, hm⟩ := ih _ todo L inv1 (by omega)
        refine ⟨s', ?_, hi, (Mono.setObj { ob with count := ob.count - 1 } h (by simp [hl]) rfl).trans hm⟩
        rw [← hr]
        simp only [release, h]
        rw [if_neg (by simp [hl]), if_neg (by omega), if_neg h1]

theorem drop_ok {s : State} {L : List Nat} {o : Nat} (i : InvT s (o :: L)) :
    ∃ s', drop s o = .ok s' ∧ InvT s' L ∧ Mono s s' :=
  release_ok (sumCounts s) s [o] L (by simpa using i) (Nat.le_refl _)

end SymVerif.RC
