/-
C16 — the parenthesisation decisions of `StrPrinter` (model: `StrP.layout`) only produce well-parenthesised trees.
-/
import SymVerif.Lemmas.C16Parse

namespace SymVerif.StrP
open Expr

/-! ### the binding levels of the translated table, as numerals (re-checked whenever the table is regenerated) -/

@[simp] theorem level_add : level .add = 10 := by decide +kernel
@[simp] theorem level_sub : level .sub = 10 := by decide +kernel
@[simp] theorem level_mul : level .mul = 11 := by decide +kernel
@[simp] theorem level_div : level .div = 11 := by decide +kernel
@[simp] theorem level_pow : level .pow = 14 := by decide +kernel
@[simp] theorem level_eq : level .eq = 4 := by decide +kernel
@[simp] theorem level_gt : level .gt = 5 := by decide +kernel
@[simp] theorem level_lt : level .lt = 6 := by decide +kernel
@[simp] theorem level_ne : level .ne = 7 := by decide +kernel
@[simp] theorem level_le : level .le = 8 := by decide +kernel
@[simp] theorem level_ge : level .ge = 9 := by decide +kernel
@[simp] theorem levelNeg_val : levelNeg = 12 := by decide +kernel
@[simp] theorem levelAtom_val : levelAtom = 17 := by decide +kernel
@[simp] theorem ubp_val : ubp = 23 := by simp [ubp]
@[simp] theorem edgeAtom_val : edgeAtom = 34 := by simp [edgeAtom]

@[simp] theorem rbp_add : rbp .add = 20 := by decide +kernel
@[simp] theorem rbp_sub : rbp .sub = 20 := by decide +kernel
@[simp] theorem rbp_mul : rbp .mul = 22 := by decide +kernel
@[simp] theorem rbp_div : rbp .div = 22 := by decide +kernel
@[simp] theorem rbp_pow : rbp .pow = 27 := by decide +kernel
@[simp] theorem rbp_eq : rbp .eq = 8 := by decide +kernel
@[simp] theorem rbp_gt : rbp .gt = 10 := by decide +kernel
@[simp] theorem rbp_lt : rbp .lt = 12 := by decide +kernel
@[simp] theorem rbp_ne : rbp .ne = 14 := by decide +kernel
@[simp] theorem rbp_le : rbp .le = 16 := by decide +kernel
@[simp] theorem rbp_ge' : rbp .ge = 18 := by decide +kernel

/-- lower bound on the syntactic level that the C++ precedence class promises -/
def need : Nat → Nat
  | 0 => 4
  | 1 => 10
  | 2 => 11
  | 3 => 14
  | _ => 17

theorem need_mono {a b : Nat} (h : a ≤ b) : need a ≤ need b := by
  rcases a with _ | _ | _ | _ | _ | a <;> rcases b with _ | _ | _ | _ | _ | b <;> simp [need] <;> omega

theorem need_le_17 (a : Nat) : need a ≤ 17 := by
  rcases a with _ | _ | _ | _ | _ | a <;> simp [need]

/-! ### lower bounds on the right edge -/

theorem edge10 (t : PExpr) (h : 10 ≤ lv t) : 20 ≤ edge t := by
  cases t with
  | bin o a b => cases o <;> simp [lv, edge] at h ⊢
  | neg c => simp [edge]
  | num s => simp [edge]
  | id s => simp [edge]
  | call f args => simp [edge]
  | paren c => simp [edge]

theorem edge11 (t : PExpr) (h : 11 ≤ lv t) : 22 ≤ edge t := by
  cases t with
  | bin o a b => cases o <;> simp [lv, edge] at h ⊢
  | neg c => simp [edge]
  | num s => simp [edge]
  | id s => simp [edge]
  | call f args => simp [edge]
  | paren c => simp [edge]

theorem edge12 (t : PExpr) (h : 12 ≤ lv t) : 23 ≤ edge t := by
  cases t with
  | bin o a b => cases o <;> simp [lv, edge] at h ⊢
  | neg c => simp [edge]
  | num s => simp [edge]
  | id s => simp [edge]
  | call f args => simp [edge]
  | paren c => simp [edge]

/-- a tree whose root is not a `+ - * /` or relational node has level ≥ 12 -/
theorem lv_ge12_of_not_low (t : PExpr) (h : ∀ o a b, t = .bin o a b → ¬ level o < levelNeg) : 12 ≤ lv t := by
  cases t with
  | bin o a b => have := h o a b rfl; simp [lv] at this ⊢; omega
  | neg c => simp [lv]
  | num s => simp [lv]
  | id s => simp [lv]
  | call f args => simp [lv]
  | paren c => simp [lv]

theorem lbp_le22_of_low (o : BinOp) (h : level o < levelNeg) : lbp o ≤ 22 := by
  simp [lbp] at h ⊢; omega

/-! ### `WP` unfolded -/

theorem wp_bin {o : BinOp} {a b : PExpr} :
    WP (.bin o a b) = true ↔ WP a = true ∧ WP b = true ∧ lbp o ≤ 2 * lv a ∧ lbp o ≤ edge a ∧ rbp o < 2 * lv b := by
  simp only [WP, Bool.and_eq_true, decide_eq_true_eq]
  constructor
  · rintro ⟨⟨⟨⟨h1, h2⟩, h3⟩, h4⟩, h5⟩; exact ⟨h1, h2, h3, h4, h5⟩
  · rintro ⟨h1, h2, h3, h4, h5⟩; exact ⟨⟨⟨⟨h1, h2⟩, h3⟩, h4⟩, h5⟩

theorem wp_neg {c : PExpr} : WP (.neg c) = true ↔ WP c = true ∧ ubp < 2 * lv c := by
  simp only [WP, Bool.and_eq_true, decide_eq_true_eq]

theorem wp_paren {c : PExpr} : WP (.paren c) = WP c := by simp only [WP]

/-! ### the tree combinators of the printer -/

/-- `'-' t`: stays well-parenthesised; the root keeps its level and edge, or becomes a prefix minus -/
theorem negLeft_wp : ∀ t : PExpr, WP t = true →
    WP (negLeft t) = true ∧ ((lv (negLeft t) = lv t ∧ edge (negLeft t) = edge t) ∨ (lv (negLeft t) = 12 ∧ edge (negLeft t) = 23))
  | .bin o a b, h => by
    rw [wp_bin] at h
    obtain ⟨ha, hb, h1, h2, h3⟩ := h
    unfold negLeft
    by_cases hl : level o < levelNeg
    · simp only [hl, if_true]
      obtain ⟨iw, il⟩ := negLeft_wp a ha
      refine ⟨?_, Or.inl ⟨rfl, rfl⟩⟩
      rw [wp_bin]
      have := lbp_le22_of_low o hl
      rcases il with ⟨e1, e2⟩ | ⟨e1, e2⟩
      · exact ⟨iw, hb, by omega, by omega, h3⟩
      · exact ⟨iw, hb, by omega, by omega, h3⟩
    · simp only [hl, if_false]
      refine ⟨?_, Or.inr ⟨by simp [lv], by simp [edge]⟩⟩
      rw [wp_neg]
      refine ⟨by rw [wp_bin]; exact ⟨ha, hb, h1, h2, h3⟩, ?_⟩
      simp [lv] at hl ⊢; omega
  | .neg c, h => by
    unfold negLeft
    exact ⟨by rw [wp_neg]; exact ⟨h, by simp [lv]⟩, Or.inr ⟨by simp [lv], by simp [edge]⟩⟩
  | .num s, h => by
    unfold negLeft
    exact ⟨by rw [wp_neg]; exact ⟨h, by simp [lv]⟩, Or.inr ⟨by simp [lv], by simp [edge]⟩⟩
  | .id s, h => by
    unfold negLeft
    exact ⟨by rw [wp_neg]; exact ⟨h, by simp [lv]⟩, Or.inr ⟨by simp [lv], by simp [edge]⟩⟩
  | .call f args, h => by
    unfold negLeft
    exact ⟨by rw [wp_neg]; exact ⟨h, by simp [lv]⟩, Or.inr ⟨by simp [lv], by simp [edge]⟩⟩
  | .paren c, h => by
    unfold negLeft
    exact ⟨by rw [wp_neg]; exact ⟨h, by simp [lv]⟩, Or.inr ⟨by simp [lv], by simp [edge]⟩⟩

theorem negLeft_lv (t : PExpr) (h : WP t = true) {k : Nat} (hk : k ≤ lv t) (hk' : k ≤ 12) : k ≤ lv (negLeft t) := by
  rcases (negLeft_wp t h).2 with ⟨e, _⟩ | ⟨e, _⟩ <;> omega

/-- `c '*' t` -/
theorem mulLeft_wp (c : PExpr) (hc : WP c = true) (hcl : 11 ≤ lv c) : ∀ t : PExpr, WP t = true →
    WP (mulLeft c t) = true ∧ ((lv (mulLeft c t) = lv t ∧ edge (mulLeft c t) = edge t) ∨ (lv (mulLeft c t) = 11 ∧ edge (mulLeft c t) = 22))
  | .bin o a b, h => by
    have h' := h
    rw [wp_bin] at h
    obtain ⟨ha, hb, h1, h2, h3⟩ := h
    unfold mulLeft
    by_cases hl : level o < levelNeg
    · simp only [hl, if_true]
      obtain ⟨iw, il⟩ := mulLeft_wp c hc hcl a ha
      refine ⟨?_, Or.inl ⟨rfl, rfl⟩⟩
      rw [wp_bin]
      have := lbp_le22_of_low o hl
      rcases il with ⟨e1, e2⟩ | ⟨e1, e2⟩
      · exact ⟨iw, hb, by omega, by omega, h3⟩
      · exact ⟨iw, hb, by omega, by omega, h3⟩
    · simp only [hl, if_false]
      refine ⟨?_, Or.inr ⟨by simp [lv], by simp [edge]⟩⟩
      rw [wp_bin]
      have e := edge11 c hcl
      refine ⟨hc, h', by simp [lbp]; omega, by simp [lbp]; omega, ?_⟩
      simp [lv] at hl ⊢; omega
  | .neg x, h => by
    unfold mulLeft
    have e := edge11 c hcl
    exact ⟨by rw [wp_bin]; exact ⟨hc, h, by simp [lbp]; omega, by simp [lbp]; omega, by simp [lv]⟩,
      Or.inr ⟨by simp [lv], by simp [edge]⟩⟩
  | .num s, h => by
    unfold mulLeft
    have e := edge11 c hcl
    exact ⟨by rw [wp_bin]; exact ⟨hc, h, by simp [lbp]; omega, by simp [lbp]; omega, by simp [lv]⟩,
      Or.inr ⟨by simp [lv], by simp [edge]⟩⟩
  | .id s, h => by
    unfold mulLeft
    have e := edge11 c hcl
    exact ⟨by rw [wp_bin]; exact ⟨hc, h, by simp [lbp]; omega, by simp [lbp]; omega, by simp [lv]⟩,
      Or.inr ⟨by simp [lv], by simp [edge]⟩⟩
  | .call f args, h => by
    unfold mulLeft
    have e := edge11 c hcl
    exact ⟨by rw [wp_bin]; exact ⟨hc, h, by simp [lbp]; omega, by simp [lbp]; omega, by simp [lv]⟩,
      Or.inr ⟨by simp [lv], by simp [edge]⟩⟩
  | .paren x, h => by
    unfold mulLeft
    have e := edge11 c hcl
    exact ⟨by rw [wp_bin]; exact ⟨hc, h, by simp [lbp]; omega, by simp [lbp]; omega, by simp [lv]⟩,
      Or.inr ⟨by simp [lv], by simp [edge]⟩⟩

theorem mulLeft_lv (c : PExpr) (hc : WP c = true) (hcl : 11 ≤ lv c) (t : PExpr) (h : WP t = true)
    (hk : 11 ≤ lv t) : 11 ≤ lv (mulLeft c t) := by
  rcases (mulLeft_wp c hc hcl t h).2 with ⟨e, _⟩ | ⟨e, _⟩ <;> omega

/-- dropping a leading minus -/
theorem stripNeg_wp : ∀ (u u' : PExpr), stripNeg u = some u' → WP u = true →
    WP u' = true ∧ lv u ≤ lv u' ∧ edge u ≤ edge u'
  | .neg c, u', hs, h => by
    simp only [stripNeg, Option.some.injEq] at hs
    subst hs
    rw [wp_neg] at h
    have hl : 12 ≤ lv c := by have := h.2; simp at this; omega
    have e1 : lv (PExpr.neg c) = 12 := by simp [lv]
    have e2 : edge (PExpr.neg c) = 23 := by simp [edge]
    have e3 := edge12 c hl
    exact ⟨h.1, by omega, by omega⟩
  | .bin o a b, u', hs, h => by
    simp only [stripNeg, Option.map_eq_some_iff] at hs
    obtain ⟨a', ha', rfl⟩ := hs
    rw [wp_bin] at h
    obtain ⟨ha, hb, h1, h2, h3⟩ := h
    obtain ⟨iw, il, ie⟩ := stripNeg_wp a a' ha' ha
    refine ⟨?_, Nat.le_refl _, Nat.le_refl _⟩
    rw [wp_bin]
    exact ⟨iw, hb, by omega, by omega, h3⟩
  | .num s, _, hs, _ => by simp [stripNeg] at hs
  | .id s, _, hs, _ => by simp [stripNeg] at hs
  | .call f args, _, hs, _ => by simp [stripNeg] at hs
  | .paren c, _, hs, _ => by simp [stripNeg] at hs

theorem foldl_mul_wp : ∀ (rest : List PExpr) (t : PExpr), WP t = true → 11 ≤ lv t →
    (∀ u ∈ rest, WP u = true ∧ 12 ≤ lv u) →
    WP (rest.foldl (fun acc u => .bin .mul acc u) t) = true ∧ 11 ≤ lv (rest.foldl (fun acc u => .bin .mul acc u) t)
  | [], t, h, hl, _ => ⟨h, hl⟩
  | u :: rest, t, h, hl, hr => by
    simp only [List.foldl]
    have hu := hr u (by simp)
    have e := edge11 t hl
    apply foldl_mul_wp rest
    · rw [wp_bin]; exact ⟨h, hu.1, by simp [lbp]; omega, by simp [lbp]; omega, by simp; omega⟩
    · simp [lv]
    · intro v hv; exact hr v (by simp [hv])

theorem chainMul_wp (l : List PExpr) (h1 : ∀ t, l.head? = some t → WP t = true ∧ 11 ≤ lv t)
    (hr : ∀ u ∈ l.tail, WP u = true ∧ 12 ≤ lv u) : WP (chainMul l) = true ∧ 11 ≤ lv (chainMul l) := by
  cases l with
  | nil => simp [chainMul, WP, lv]
  | cons t rest =>
    simp only [chainMul]
    have := h1 t rfl
    exact foldl_mul_wp rest t this.1 this.2 hr

theorem foldl_add_wp : ∀ (rest : List PExpr) (t : PExpr), WP t = true → 10 ≤ lv t →
    (∀ u ∈ rest, WP u = true ∧ 11 ≤ lv u) →
    WP (rest.foldl (fun acc u => match stripNeg u with
      | some u' => PExpr.bin .sub acc u'
      | none => PExpr.bin .add acc u) t) = true ∧
    10 ≤ lv (rest.foldl (fun acc u => match stripNeg u with
      | some u' => PExpr.bin .sub acc u'
      | none => PExpr.bin .add acc u) t)
  | [], t, h, hl, _ => ⟨h, hl⟩
  | u :: rest, t, h, hl, hr => by
    simp only [List.foldl]
    have hu := hr u (by simp)
    have e := edge10 t hl
    apply foldl_add_wp rest
    · cases hs : stripNeg u with
      | none =>
        simp only
        rw [wp_bin]; exact ⟨h, hu.1, by simp [lbp]; omega, by simp [lbp]; omega, by simp; omega⟩
      | some u' =>
        simp only
        obtain ⟨w, l', _⟩ := stripNeg_wp u u' hs hu.1
        rw [wp_bin]; exact ⟨h, w, by simp [lbp]; omega, by simp [lbp]; omega, by simp; omega⟩
    · cases hs : stripNeg u <;> simp [lv]
    · intro v hv; exact hr v (by simp [hv])

theorem chainAdd_wp (l : List PExpr) (h1 : ∀ t, l.head? = some t → WP t = true ∧ 10 ≤ lv t)
    (hr : ∀ u ∈ l.tail, WP u = true ∧ 11 ≤ lv u) : WP (chainAdd l) = true ∧ 10 ≤ lv (chainAdd l) := by
  cases l with
  | nil => simp [chainAdd, WP, lv]
  | cons t rest =>
    simp only [chainAdd]
    have := h1 t rfl
    exact foldl_add_wp rest t this.1 this.2 hr

end SymVerif.StrP
