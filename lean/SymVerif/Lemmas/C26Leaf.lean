import SymVerif.Lemmas.C26Pred2
import SymVerif.Lemmas.C26Had
/-!
Value preservation of the leaf constructors `diagonal_matrix` and `immutable_dense_matrix`
(conversion of zero / identity / diagonal valued containers to ZeroMatrix / IdentityMatrix /
DiagonalMatrix).
-/
namespace SymVerif.MatExpr
open MExpr

theorem diagonalMatrix_value (env : Env) (d : List GQ) (r : MExpr) (h : diagonalMatrix d = .ok r) :
    okOf env r ∧ valOf env r ≃ valOf env (diag d) := by
  simp only [diagonalMatrix] at h
  split at h
  · rename_i hz
    simp at h; subst h
    simp only [isZeroVec, List.all_eq_true, GQ.isZero_iff] at hz
    refine ⟨trivial, rfl, rfl, fun i j _ _ => ?_⟩
    simp only [valOf]
    split
    · rcases getD_mem_or_default d i with hm | hm
      · exact (hz _ hm).symm
      · exact hm.symm
    · rfl
  · split at h
    · rename_i _ hid
      simp at h; subst h
      simp only [isIdentityVec, List.all_eq_true, GQ.isOne_iff] at hid
      refine ⟨trivial, rfl, rfl, fun i j hi _ => ?_⟩
      simp only [valOf, Dim.eval] at hi ⊢
      split
      · have : d.getD i 0 ∈ d := by
          rw [List.getD_eq_getElem?_getD, List.getElem?_eq_getElem hi]; exact List.getElem_mem hi
        exact (hid _ this).symm
      · rfl
    · have := mkDiag_ok h; subst this
      exact ⟨trivial, Val.Eqv.refl _⟩

theorem immutableDenseMatrix_value (env : Env) (r c : Nat) (v : List GQ) (e : MExpr)
    (h : immutableDenseMatrix r c v = .ok e) :
    okOf env e ∧ okOf env (dense r c v) ∧ valOf env e ≃ valOf env (dense r c v) := by
  simp only [immutableDenseMatrix] at h
  split at h
  · simp at h
  · rename_i hlen
    have hlen' : v.length = r * c := by simpa using hlen
    split at h
    · rename_i hz
      simp at h; subst h
      simp only [isZeroVec, List.all_eq_true, GQ.isZero_iff] at hz
      refine ⟨trivial, hlen', rfl, rfl, fun i j _ _ => ?_⟩
      simp only [valOf]
      rcases ent_mem_or_zero v c i j with hm | hm
      · exact (hz _ hm).symm
      · exact hm.symm
    · split at h
      · rename_i _ hid
        simp at h; subst h
        simp only [Bool.and_eq_true, beq_iff_eq] at hid
        obtain ⟨hrc, hid⟩ := hid
        subst hrc
        simp only [isIdentityDense, List.all_eq_true, List.mem_range] at hid
        refine ⟨trivial, hlen', rfl, rfl, fun i j hi hj => ?_⟩
        simp only [valOf, Dim.eval] at hi hj ⊢
        have := hid i hi j hj
        split at this
        · rename_i hij; simp only [GQ.isOne_iff] at this; rw [if_pos hij, this]
        · rename_i hij; simp only [GQ.isZero_iff] at this; rw [if_neg hij, this]
      · split at h
        · rename_i _ _ hdg
          have := mkDiag_ok h; subst this
          simp only [Bool.and_eq_true, beq_iff_eq] at hdg
          obtain ⟨hrc, hdg⟩ := hdg
          subst hrc
          simp only [isDiagonalDense, List.all_eq_true, List.mem_range] at hdg
          have hl : (extractDiagonal r v).length = r := by simp [extractDiagonal]
          refine ⟨trivial, hlen', by simp [valOf, hl], by simp [valOf, hl], fun i j hi hj => ?_⟩
          simp only [valOf, hl] at hi hj ⊢
          split
          · rename_i hij
            subst hij
            simp only [extractDiagonal]
            exact getD_map_range r _ hi
          · rename_i hij
            have := hdg i hi j hj
            rw [if_neg hij] at this
            simp only [GQ.isZero_iff] at this
            exact this.symm
        · have := mkDense_ok h; subst this
          exact ⟨hlen', hlen', Val.Eqv.refl _⟩

end SymVerif.MatExpr
