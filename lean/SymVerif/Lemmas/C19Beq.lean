/-
A sound boolean equality on object graphs, to *check* address consistency of concrete graphs by evaluation.
-/
import SymVerif.Lemmas.C19Top

namespace SymVerif.Codec

mutual
  def beqT : T → T → Bool
    | .mk a tc fs, .mk a' tc' fs' => a == a' && tc == tc' && beqFlds fs fs'
  termination_by structural x => x
  def beqFlds : List Fld → List Fld → Bool
    | [], [] => true
    | f :: fs, g :: gs => beqFld f g && beqFlds fs gs
    | _, _ => false
  termination_by structural x => x
  def beqFld : Fld → Fld → Bool
    | .str s, .str s' => s == s'
    | .u64 v, .u64 v' => v == v'
    | .f64 v, .f64 v' => v == v'
    | .byte b, .byte b' => b == b'
    | .ptr t, .ptr t' => beqT t t'
    | .seq n l, .seq n' l' => n == n' && beqTs l l'
    | _, _ => false
  termination_by structural x => x
  def beqTs : List T → List T → Bool
    | [], [] => true
    | t :: ts, u :: us => beqT t u && beqTs ts us
    | _, _ => false
  termination_by structural x => x
end

mutual
  theorem beqT_sound : ∀ x y : T, beqT x y = true → x = y
    | .mk a tc fs, .mk a' tc' fs', h => by
      simp only [beqT, Bool.and_eq_true, beq_iff_eq] at h
      obtain ⟨⟨h1, h2⟩, h3⟩ := h
      rw [h1, h2, beqFlds_sound fs fs' h3]
  theorem beqFlds_sound : ∀ x y : List Fld, beqFlds x y = true → x = y
    | [], [], _ => rfl
    | f :: fs, g :: gs, h => by
      simp only [beqFlds, Bool.and_eq_true] at h
      rw [beqFld_sound f g h.1, beqFlds_sound fs gs h.2]
    | [], _ :: _, h => by simp [beqFlds] at h
    | _ :: _, [], h => by simp [beqFlds] at h
  theorem beqFld_sound : ∀ x y : Fld, beqFld x y = true → x = y
    | .str s, .str s', h => by simp only [beqFld, beq_iff_eq] at h; rw [h]
    | .u64 v, .u64 v', h => by simp only [beqFld, beq_iff_eq] at h; rw [h]
    | .f64 v, .f64 v', h => by simp only [beqFld, beq_iff_eq] at h; rw [h]
    | .byte b, .byte b', h => by simp only [beqFld, beq_iff_eq] at h; rw [h]
    | .ptr t, .ptr t', h => by simp only [beqFld] at h; rw [beqT_sound t t' h]
    | .seq n l, .seq n' l', h => by
      simp only [beqFld, Bool.and_eq_true, beq_iff_eq] at h
      rw [h.1, beqTs_sound l l' h.2]
    | .str _, .u64 _, h | .str _, .f64 _, h | .str _, .byte _, h | .str _, .ptr _, h | .str _, .seq _ _, h
    | .u64 _, .str _, h | .u64 _, .f64 _, h | .u64 _, .byte _, h | .u64 _, .ptr _, h | .u64 _, .seq _ _, h
    | .f64 _, .str _, h | .f64 _, .u64 _, h | .f64 _, .byte _, h | .f64 _, .ptr _, h | .f64 _, .seq _ _, h
    | .byte _, .str _, h | .byte _, .u64 _, h | .byte _, .f64 _, h | .byte _, .ptr _, h | .byte _, .seq _ _, h
    | .ptr _, .str _, h | .ptr _, .u64 _, h | .ptr _, .f64 _, h | .ptr _, .byte _, h | .ptr _, .seq _ _, h
    | .seq _ _, .str _, h | .seq _ _, .u64 _, h | .seq _ _, .f64 _, h | .seq _ _, .byte _, h | .seq _ _, .ptr _, h => by
      simp [beqFld] at h
  theorem beqTs_sound : ∀ x y : List T, beqTs x y = true → x = y
    | [], [], _ => rfl
    | t :: ts, u :: us, h => by
      simp only [beqTs, Bool.and_eq_true] at h
      rw [beqT_sound t u h.1, beqTs_sound ts us h.2]
    | [], _ :: _, h => by simp [beqTs] at h
    | _ :: _, [], h => by simp [beqTs] at h
end

/-- executable check of `Consistent` -/
def consistentB (l : List T) : Bool := l.all fun x => l.all fun y => x.addr != y.addr || beqT x y

theorem consistent_of_check (l : List T) (h : consistentB l = true) : Consistent l := by
  intro x hx y hy hxy
  simp only [consistentB, List.all_eq_true, Bool.or_eq_true, bne_iff_ne, ne_eq] at h
  rcases h x hx y hy with h1 | h1
  · exact absurd hxy h1
  · exact beqT_sound x y h1

end SymVerif.Codec
