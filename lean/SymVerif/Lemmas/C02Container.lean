/-
C02, part 5: `RCPBasicKeyLess` is a strict total order on well-formed NaN-free `-0.0`-free expressions,
and an ordered container (`set_basic`) built from the same keys in any insertion order is the same sequence.
-/
import SymVerif.Lemmas.C02Trans

namespace SymVerif
namespace Expr

theorem cmp_eq_zero_iff {a b : Expr} (oa : OK a) (ob : OK b) : cmp a b = 0 ↔ beq' a b = true := by
  constructor
  · intro h
    have := (J_all a b oa ob).z h
    subst this
    exact beq'_refl oa
  · intro h
    have := (J_all a b oa ob).eq1 h
    subst this
    exact cmp_refl oa

theorem keyLess_of_hash_eq {x y : Expr} (e : hash x = hash y) :
    keyLess x y = (if beq' x y = true then false else cmp x y == -1) := by
  unfold keyLess
  have : (hash x != hash y) = false := by simp [e]
  rw [this]; simp

theorem keyLess_of_hash_ne {x y : Expr} (e : hash x ≠ hash y) :
    keyLess x y = decide (hash x < hash y) := by
  unfold keyLess
  have : (hash x != hash y) = true := by simpa using e
  rw [if_pos this]

theorem keyLess_trans {x y z : Expr} (ox : OK x) (oy : OK y) (oz : OK z)
    (h1 : keyLess x y = true) (h2 : keyLess y z = true) : keyLess x z = true := by
  by_cases e1 : hash x = hash y <;> by_cases e2 : hash y = hash z
  · rw [keyLess_of_hash_eq e1] at h1
    rw [keyLess_of_hash_eq e2] at h2
    rw [keyLess_of_hash_eq (e1.trans e2)]
    split at h1
    · cases h1
    · split at h2
      · cases h2
      · have c1 : cmp x y = -1 := by simpa using h1
        have c2 : cmp y z = -1 := by simpa using h2
        have t := T_all x y z ox oy oz c1 c2
        have b3 : ¬ (beq' x z = true) := by
          intro hb
          have := (cmp_eq_zero_iff ox oz).mpr hb
          omega
        rw [if_neg b3]; simp [t]
  · rw [keyLess_of_hash_ne e2] at h2
    rw [keyLess_of_hash_ne (by rw [e1]; exact e2), e1]; exact h2
  · rw [keyLess_of_hash_ne e1] at h1
    rw [keyLess_of_hash_ne (by rw [← e2]; exact e1), ← e2]; exact h1
  · rw [keyLess_of_hash_ne e1] at h1
    rw [keyLess_of_hash_ne e2] at h2
    have l1 := of_decide_eq_true h1
    have l2 := of_decide_eq_true h2
    have l3 := UInt64.lt_trans l1 l2
    have n3 : hash x ≠ hash z := by
      intro e; rw [e] at l3; exact UInt64.lt_irrefl _ l3
    rw [keyLess_of_hash_ne n3]; exact decide_eq_true l3

theorem keyLess_total {x y : Expr} (ox : OK x) (oy : OK y)
    (h1 : keyLess x y = false) (h2 : keyLess y x = false) : x = y := by
  have j := J_all x y ox oy
  unfold keyLess at h1 h2
  by_cases e : hash x = hash y
  · rw [e] at h1 h2
    simp only [bne_self_eq_false, Bool.false_eq_true, ↓reduceIte] at h1 h2
    cases b1 : beq' x y
    · cases b2 : beq' y x
      · rw [b1] at h1; rw [b2] at h2
        simp only [Bool.false_eq_true, ↓reduceIte, beq_eq_false_iff_ne, ne_eq] at h1 h2
        rcases cmp_rng x y ox.1 oy.1 with r | r | r
        · exact absurd r h1
        · exact j.z r
        · have := j.anti; omega
      · exact j.eq2 b2
    · exact j.eq1 b1
  · have n1 : (hash x != hash y) = true := by simpa using e
    have n2 : (hash y != hash x) = true := by simpa using (Ne.symm e)
    rw [if_pos n1] at h1
    rw [if_pos n2] at h2
    have l1 : ¬ hash x < hash y := of_decide_eq_false h1
    have l2 : ¬ hash y < hash x := of_decide_eq_false h2
    exfalso; apply e
    exact UInt64.le_antisymm (UInt64.not_lt.mp l2) (UInt64.not_lt.mp l1)

/-! ### insertion into the ordered container -/

theorem mem_insertKey_sub {x y : Expr} : ∀ {l : List Expr}, y ∈ insertKey x l → y = x ∨ y ∈ l
  | [] => by simp [insertKey]
  | z :: t => by
    unfold insertKey
    split
    · simp only [List.mem_cons]; exact fun h => h
    · split
      · simp only [List.mem_cons]
        rintro (h | h)
        · exact Or.inr (Or.inl h)
        · rcases mem_insertKey_sub h with h | h
          · exact Or.inl h
          · exact Or.inr (Or.inr h)
      · exact fun h => Or.inr h

theorem mem_insertKey_of_mem {x y : Expr} : ∀ {l : List Expr}, y ∈ l → y ∈ insertKey x l
  | [] => by simp
  | z :: t => by
    unfold insertKey
    split
    · exact fun h => List.mem_cons_of_mem _ h
    · split
      · simp only [List.mem_cons]
        rintro (h | h)
        · exact Or.inl h
        · exact Or.inr (mem_insertKey_of_mem h)
      · exact fun h => h

theorem self_mem_insertKey {x : Expr} (ox : OK x) : ∀ {l : List Expr}, (∀ y ∈ l, OK y) → x ∈ insertKey x l
  | [], _ => by simp [insertKey]
  | z :: t, ol => by
    unfold insertKey
    split
    · exact List.mem_cons_self ..
    · rename_i h1
      split
      · exact List.mem_cons_of_mem _ (self_mem_insertKey ox (fun y hy => ol y (List.mem_cons_of_mem _ hy)))
      · rename_i h2
        have := keyLess_total ox (ol z (List.mem_cons_self ..)) (by simpa using h1) (by simpa using h2)
        rw [this]; exact List.mem_cons_self ..

theorem sorted_insertKey {x : Expr} (ox : OK x) : ∀ {l : List Expr}, (∀ y ∈ l, OK y) →
    List.Pairwise (fun a b => keyLess a b = true) l →
    List.Pairwise (fun a b => keyLess a b = true) (insertKey x l)
  | [], _, _ => by simp [insertKey]
  | z :: t, ol, hs => by
    have oz := ol z (List.mem_cons_self ..)
    have ot : ∀ y ∈ t, OK y := fun y hy => ol y (List.mem_cons_of_mem _ hy)
    rw [List.pairwise_cons] at hs
    unfold insertKey
    split
    · rename_i h1
      rw [List.pairwise_cons]
      refine ⟨?_, List.pairwise_cons.mpr hs⟩
      intro y hy
      rcases List.mem_cons.mp hy with rfl | hy
      · exact h1
      · exact keyLess_trans ox oz (ot y hy) h1 (hs.1 y hy)
    · split
      · rename_i h2
        rw [List.pairwise_cons]
        refine ⟨?_, sorted_insertKey ox ot hs.2⟩
        intro y hy
        rcases mem_insertKey_sub hy with rfl | hy
        · exact h2
        · exact hs.1 y hy
      · exact List.pairwise_cons.mpr hs

theorem sortKeys_aux (l : List Expr) (ol : ∀ y ∈ l, OK y) : ∀ (acc : List Expr), (∀ y ∈ acc, OK y) →
    List.Pairwise (fun a b => keyLess a b = true) acc →
    (∀ y ∈ l.foldl (fun acc x => insertKey x acc) acc, OK y) ∧
    List.Pairwise (fun a b => keyLess a b = true) (l.foldl (fun acc x => insertKey x acc) acc) ∧
    (∀ y, y ∈ l.foldl (fun acc x => insertKey x acc) acc ↔ y ∈ acc ∨ y ∈ l) := by
  induction l with
  | nil => intro acc oacc hs; exact ⟨oacc, hs, by simp⟩
  | cons x t ih =>
    intro acc oacc hs
    have ox := ol x (List.mem_cons_self ..)
    have ot : ∀ y ∈ t, OK y := fun y hy => ol y (List.mem_cons_of_mem _ hy)
    have oacc' : ∀ y ∈ insertKey x acc, OK y := by
      intro y hy
      rcases mem_insertKey_sub hy with rfl | hy
      · exact ox
      · exact oacc y hy
    obtain ⟨h1, h2, h3⟩ := ih ot (insertKey x acc) oacc' (sorted_insertKey ox oacc hs)
    refine ⟨h1, h2, ?_⟩
    intro y
    rw [List.foldl_cons, h3 y]
    constructor
    · rintro (h | h)
      · rcases mem_insertKey_sub h with rfl | h
        · exact Or.inr (List.mem_cons_self ..)
        · exact Or.inl h
      · exact Or.inr (List.mem_cons_of_mem _ h)
    · rintro (h | h)
      · exact Or.inl (mem_insertKey_of_mem h)
      · rcases List.mem_cons.mp h with rfl | h
        · exact Or.inl (self_mem_insertKey ox oacc)
        · exact Or.inr h

theorem sortKeys_sorted {l : List Expr} (ol : ∀ y ∈ l, OK y) :
    List.Pairwise (fun a b => keyLess a b = true) (sortKeys l) :=
  (sortKeys_aux l ol [] (by simp) List.Pairwise.nil).2.1

theorem mem_sortKeys {l : List Expr} (ol : ∀ y ∈ l, OK y) (y : Expr) : y ∈ sortKeys l ↔ y ∈ l := by
  have := (sortKeys_aux l ol [] (by simp) List.Pairwise.nil).2.2 y
  simpa [sortKeys] using this

/-- two strictly `keyLess`-sorted sequences with the same members are the same sequence -/
theorem sorted_unique {l1 l2 : List Expr} (o1 : ∀ y ∈ l1, OK y) (o2 : ∀ y ∈ l2, OK y)
    (s1 : List.Pairwise (fun a b => keyLess a b = true) l1)
    (s2 : List.Pairwise (fun a b => keyLess a b = true) l2)
    (hm : ∀ y, y ∈ l1 ↔ y ∈ l2) : l1 = l2 := by
  have nd : ∀ {l : List Expr}, (∀ y ∈ l, OK y) → List.Pairwise (fun a b => keyLess a b = true) l → l.Nodup := by
    intro l ol hs
    refine List.Pairwise.imp_of_mem ?_ hs
    intro a b ha _ hk e
    subst e
    rw [keyLess_irrefl (ol a ha)] at hk; cases hk
  have perm : l1.Perm l2 := (List.perm_ext_iff_of_nodup (nd o1 s1) (nd o2 s2)).mpr hm
  exact List.Perm.eq_of_pairwise
    (fun a b ha hb h1 h2 => (keyLess_asymm (J_all a b (o1 a ha) (o2 b hb)) h1 h2).elim) s1 s2 perm

/-- a `set_basic` filled with the same keys in any order iterates in the same order -/
theorem sortKeys_perm_invariant {l1 l2 : List Expr} (o1 : ∀ y ∈ l1, OK y) (h : l1.Perm l2) :
    sortKeys l1 = sortKeys l2 := by
  have o2 : ∀ y ∈ l2, OK y := fun y hy => o1 y (h.mem_iff.mpr hy)
  refine sorted_unique ?_ ?_ (sortKeys_sorted o1) (sortKeys_sorted o2) ?_
  · intro y hy; exact o1 y ((mem_sortKeys o1 y).mp hy)
  · intro y hy; exact o2 y ((mem_sortKeys o2 y).mp hy)
  · intro y; rw [mem_sortKeys o1, mem_sortKeys o2]; exact h.mem_iff

end Expr
end SymVerif
