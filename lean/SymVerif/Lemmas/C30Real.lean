import Mathlib.Data.Complex.Basic
import Mathlib.Tactic.Linarith
import SymVerif.Lemmas.C30Alg
/-!
C30 — realness decisions of the checker over ℂ: if the square roots of non-negative rationals are real
(true for the principal root), `isRealRP p` implies that `p` denotes a real number and `isNonRealRP p` implies
that it does not.
-/
namespace SymVerif.C30
open SymVerif.Solve SymVerif.Solve.RP

variable (sq : ℚ → ℂ) (hsq : ∀ r : ℚ, sq r * sq r = (r : ℂ))
  (hreal : ∀ r : ℚ, 0 ≤ r → (sq r).im = 0)

include hreal in
theorem monoVal_im_zero (m : Mono) (h : m.all (fun a => decide (0 ≤ a)) = true) : (monoVal sq m).im = 0 := by
  induction m with
  | nil => simp
  | cons a as ih =>
    simp only [List.all_cons, Bool.and_eq_true, decide_eq_true_eq] at h
    rw [monoVal_cons, Complex.mul_im, ih h.2, hreal a h.1]
    ring

include hreal in
theorem ev_im_zero_of_all (p : RP)
    (h : p.all (fun t => t.2.all (fun a => decide (0 ≤ a))) = true) : (ev sq p).im = 0 := by
  induction p with
  | nil => simp
  | cons t p ih =>
    simp only [List.all_cons, Bool.and_eq_true] at h
    rw [ev_cons, Complex.add_im, ih h.2]
    simp only [termVal, Complex.mul_im, Complex.ratCast_im, monoVal_im_zero sq hreal t.2 h.1]
    ring

include hsq hreal in
/-- accepted as real ⇒ the denoted number is real -/
theorem isRealRP_sound (p : RP) (h : isRealRP p = true) : (ev sq p).im = 0 := by
  rw [← ev_norm sq hsq p]
  exact ev_im_zero_of_all sq hreal (norm p) h

theorem monoVal_erase (s : ℚ) (m : Mono) (h : s ∈ m) : sq s * monoVal sq (m.erase s) = monoVal sq m := by
  induction m with
  | nil => simp at h
  | cons a as ih =>
    by_cases ha : a = s
    · subst ha
      simp [List.erase_cons_head]
    · have hs : s ∈ as := by
        rcases List.mem_cons.mp h with h | h
        · exact absurd h.symm ha
        · exact h
      have : (a :: as).erase s = a :: as.erase s := by
        rw [List.erase_cons_tail]
        simpa using ha
      rw [this, monoVal_cons, monoVal_cons, ← ih hs]
      ring

theorem ev_splitAtom (s : ℚ) (p : RP) :
    ev sq p = ev sq (splitAtom s p).1 + sq s * ev sq (splitAtom s p).2 := by
  induction p with
  | nil => simp [splitAtom]
  | cons t p ih =>
    have hfold : splitAtom s (t :: p) =
        (if t.2.contains s then ((splitAtom s p).1, (t.1, t.2.erase s) :: (splitAtom s p).2)
         else (t :: (splitAtom s p).1, (splitAtom s p).2)) := rfl
    rw [hfold, ev_cons, ih]
    split_ifs with hc
    · have hmem : s ∈ t.2 := by simpa using hc
      simp only [ev_cons, termVal]
      rw [← monoVal_erase sq s t.2 hmem]
      ring
    · simp only [ev_cons]
      ring

include hsq hreal in
/-- accepted as non-real ⇒ the denoted number is not real -/
theorem isNonRealRP_sound (p : RP) (h : isNonRealRP p = true) : (ev sq p).im ≠ 0 := by
  unfold isNonRealRP at h
  simp only [Bool.and_eq_true] at h
  obtain ⟨⟨hu, hw⟩, hnz⟩ := h
  have hsplit := ev_splitAtom sq (-1) (norm p)
  rw [ev_norm sq hsq] at hsplit
  set u := ev sq (splitAtom (-1) (norm p)).1 with hu'
  set w := ev sq (splitAtom (-1) (norm p)).2 with hw'
  have hu0 : u.im = 0 := isRealRP_sound sq hsq hreal _ hu
  have hw0 : w.im = 0 := isRealRP_sound sq hsq hreal _ hw
  have hwne : w ≠ 0 := isNonZero_sound sq hsq _ hnz
  have hwre : w.re ≠ 0 := by
    intro h0
    exact hwne (Complex.ext h0 hw0)
  -- sq (-1) = ± I
  have hi := hsq (-1)
  have hi2 : (sq (-1)).re * (sq (-1)).re - (sq (-1)).im * (sq (-1)).im = -1
      ∧ (sq (-1)).re * (sq (-1)).im + (sq (-1)).im * (sq (-1)).re = 0 := by
    have h1 := congrArg Complex.re hi
    have h2 := congrArg Complex.im hi
    simp only [Complex.mul_re, Complex.mul_im] at h1 h2
    constructor
    · rw [h1]; simp
    · rw [h2]; simp
  have him : (sq (-1)).im ≠ 0 := by
    intro h0
    have := hi2.1
    rw [h0] at this
    have hnn := mul_self_nonneg (sq (-1)).re
    simp only [mul_zero, sub_zero] at this
    linarith
  rw [hsplit, Complex.add_im, Complex.mul_im, hu0, hw0]
  simp only [mul_zero, zero_add, add_zero]
  exact mul_ne_zero him hwre

end SymVerif.C30
