/-
C03: `PowerExpOK` is a theorem: an invariant exponent that is not a Number stays a non-Number when
multiplied by a non-zero Integer (numeric radicals in the invariant are fixed points of rpowrat).
-/
import SymVerif.Lemmas.C03MulG

namespace SymVerif.Arith

theorem isIntLit_one_eq {e : Expr} (h : isIntLit e 1 = true) : e = .int 1 := by
  cases e <;> simp [isIntLit] at h
  subst h; rfl

theorem factor_one_key {b : Expr} (h : factorOK b (.int 1) = true) : b.isNum = false := by
  unfold factorOK at h
  cases b <;> simp_all [isInteger, Expr.isNum]

theorem mulFromDict_nonnum {c : Expr} {d : Dict} (hz : numIsZero c = false) (hne : d ≠ [])
    (h1 : ∀ b, (b, Expr.int 1) ∈ d → b.isNum = false) : (mulFromDict c d).isNum = false := by
  unfold mulFromDict
  simp only [hz, Bool.false_eq_true, ↓reduceIte]
  match d, hne, h1 with
  | [(b, e)], _, h1 =>
    simp only
    split
    · split
      · rename_i he
        have := isIntLit_one_eq he
        subst this
        exact h1 b (by simp)
      · rfl
    · rfl
  | _ :: _ :: _, _, _ => rfl

/-- `b ** (n/d)` with `radOK` is returned unchanged by `Rational::rpowrat` -/
theorem rpowrat_fix {f : Nat} {rv : Bool} {b n' : Int} {d : Nat} (hb1 : b ≠ 1)
    (hrad : radOK b d = true) (h0 : 0 < n') (hlt : n' < d) (hd1 : d ≠ 1) :
    rpowrat (f + 1) rv n' d b = .ok (.pow (.int b) (.rat n' d)) := by
  simp only [radOK, Bool.and_eq_true, bne_iff_ne, ne_eq, Bool.not_eq_true', Bool.and_eq_false_iff,
    decide_eq_false_iff_not, Bool.or_eq_true, beq_iff_eq] at hrad
  obtain ⟨⟨hb0, hsq⟩, hroot⟩ := hrad
  have hroot : ¬ d < 2 ^ 64 ∨ (if b < 0 then (b = -1 ∨ (exactRoot b.natAbs d).isNone = true)
      else (exactRoot b.toNat d).isNone = true) := by
    rcases hroot with h | h
    · exact Or.inl (by simpa using h)
    · refine Or.inr ?_
      split <;> simp_all
  have c1 : (b == 1) = false := by simpa using hb1
  have c0 : (b == 0) = false := by simpa using hb0
  have hq : fdivmod n' d = (0, n') := by
    simp only [fdivmod, Int.fdiv_eq_zero_of_lt (by omega : 0 ≤ n') hlt, Prod.mk.injEq, true_and]
    rw [Int.fmod_eq_emod_of_nonneg n' (by omega : (0 : Int) ≤ (d : Int))]
    exact Int.emod_eq_of_lt (by omega) hlt
  have hp : numPowInt (.int b) 0 = .ok (.int 1) := by
    simp [numPowInt, expCap]
  have hnsq : (decide (b < 0) && d == 2) = false := by
    rcases hsq with h | h
    · simp [h]
    · simp [h]
  have hof : ofQ ⟨n', d⟩ = .rat n' d := by simp [ofQ, hd1]
  have hd2 : b < 0 → (d == 2) = false := by
    intro hneg
    rcases hsq with h | h
    · exact absurd hneg h
    · exact h
  simp only [rpowrat, c1, c0, bind, Except.bind, pure, Except.pure, Bool.false_eq_true, ↓reduceIte]
  by_cases hd : d < 2 ^ 64
  · have hr := hroot.resolve_left (by simpa using hd)
    simp only [hd, if_true]
    by_cases hneg : b < 0
    · simp only [hneg, if_true] at hr ⊢
      by_cases hm1 : b = -1
      · subst hm1
        simp [hq, hp, hd2 hneg, hof, mulFromDict, dinsert, numIsZero, numIsOne, isIntLit]
      · have hbne : (b != -1) = true := by simpa using hm1
        have hn := hr.resolve_left hm1
        rw [Option.isNone_iff_eq_none] at hn
        simp [hbne, hn, hq, hp, hd2 hneg, hof, mulFromDict, dinsert, numIsZero, numIsOne, isIntLit]
    · simp only [hneg, if_false] at hr ⊢
      rw [Option.isNone_iff_eq_none] at hr
      simp [hr, hq, hp, hof, mulFromDict, dinsert, numIsZero, numIsOne, isIntLit]
  · simp [hd, hq, hp, hnsq, hof, mulFromDict, dinsert, numIsZero, numIsOne, isIntLit]

theorem factor_num3_notInt {b e : Expr} (hf : factorOK b e = true)
    (h3 : (isInteger b || isRational b || isComplex b) = true) : isInteger e = false := by
  unfold factorOK at hf
  cases b <;> simp_all [isInteger, isRational, isComplex]
  rename_i n
  by_cases h0 : n = 0
  · cases e <;> simp_all [isInteger, Expr.isNum]
  · simp_all

/-- a fresh factor of an invariant term enters an empty dictionary unchanged -/
theorem datNew_fresh {f : Nat} {rv : Bool} {v e t c1 : Expr} {d1 : Dict} (hv : inv v = true)
    (hvn : v.isNum = false) (hvm : isMul v = false) (ha : asBaseExp v = .ok (e, t))
    (h : datNew f rv one [] e t = .ok (c1, d1)) : c1 = one ∧ d1 = [(t, e)] := by
  cases f with
  | zero => simp [datNew] at h
  | succ f =>
  simp only [datNew, dfind] at h
  unfold asBaseExp at ha
  split at ha
  · simp [Expr.isNum] at hvn
  · rename_i b e'
    simp at ha
    obtain ⟨rfl, rfl⟩ := ha
    obtain ⟨hb, he, _, hfac⟩ := inv_pow_iff.mp hv
    split at h
    · rename_i h3
      have hni := factor_num3_notInt hfac h3
      simp only [hni, Bool.false_eq_true, ↓reduceIte] at h
      split at h
      · rename_i hr
        simp only [Bool.and_eq_true, Bool.not_eq_true'] at hr
        -- Integer base, Rational exponent: a fixed point of rpowrat
        cases b with
        | int bn =>
          cases e' with
          | rat n' d' =>
            have hfac' := hfac
            unfold factorOK at hfac'
            simp only [isNumZero, Expr.isNum, numIsZero, isInteger, ratIn01, Bool.and_eq_true,
              Bool.not_eq_true', bne_iff_ne, ne_eq, decide_eq_true_eq] at hfac'
            obtain ⟨_, hb1, hrest⟩ := hfac'
            have hb0 : bn ≠ 0 := by
              intro e0; subst e0; simp [Expr.isNum] at hrest
            simp only [hb0, if_false, Bool.and_eq_true, decide_eq_true_eq, beq_iff_eq] at hrest
            obtain ⟨⟨_, h0, hlt⟩, hrad⟩ := hrest
            have hd1 : d' ≠ 1 := by
              have := inv_canon he
              rw [canon_rat] at this
              simp [ratCanon] at this
              exact this.1.2
            cases f with
            | zero => simp [powNumRat, bind, Except.bind] at h
            | succ f =>
              cases f with
              | zero => simp [powNumRat, rpowrat, bind, Except.bind] at h
              | succ f =>
                simp only [powNumRat, rpowrat_fix hb1 hrad h0 hlt hd1, bind, Except.bind, absorb,
                  Expr.isNum, pure, Except.pure, Bool.false_eq_true, ↓reduceIte] at h
                simp [eqE] at h
                exact ⟨h.1.symm, by rw [← h.2]; rfl⟩
          | _ => simp [isRational] at hr
        | rat p q =>
          unfold factorOK at hfac
          simp_all [isRational]
        | _ => simp_all [isInteger, isRational, isComplex]
      · simp at h
        exact ⟨h.1.symm, by rw [← h.2]; rfl⟩
    · rename_i h3
      split at h
      · rename_i hpi
        simp only [Bool.and_eq_true] at hpi
        unfold factorOK at hfac
        cases b <;> simp_all [isPow]
      · simp at h
        exact ⟨h.1.symm, by rw [← h.2]; rfl⟩
  · simp at ha
  · rename_i h1 h2 h3
    simp at ha
    obtain ⟨rfl, rfl⟩ := ha
    have hn3 : (isInteger v || isRational v || isComplex v) = false := by
      cases v <;> simp_all [isInteger, isRational, isComplex, Expr.isNum]
    have hnp : isPow v = false := by
      cases v <;> simp_all [isPow]
    simp [hn3, hnp] at h
    exact ⟨h.1.symm, by rw [← h.2]; rfl⟩

theorem asBaseExp_one_key {v e t : Expr} (hv : inv v = true) (hvn : v.isNum = false)
    (ha : asBaseExp v = .ok (e, t)) (he : e = .int 1) : t.isNum = false := by
  unfold asBaseExp at ha
  split at ha
  · simp [Expr.isNum] at hvn
  · rename_i b e'
    simp at ha
    obtain ⟨rfl, rfl⟩ := ha
    obtain ⟨_, _, hc, _⟩ := inv_pow_iff.mp hv
    subst he
    unfold powCanonTop at hc
    split at hc <;> simp_all [isIntLit, Expr.isNum]
  · simp at ha
  · simp at ha
    obtain ⟨_, rfl⟩ := ha
    exact hvn

/-- an invariant term that is not a Number stays a non-Number when multiplied by a non-zero Integer -/
theorem mulF_int_nonnum {f : Nat} {rv : Bool} {v r : Expr} {n : Int} (hv : inv v = true)
    (hvn : v.isNum = false) (hn : n ≠ 0) (h : mulF f rv v (.int n) = .ok r) : r.isNum = false := by
  cases f with
  | zero => simp [mulF] at h
  | succ f =>
  by_cases hvm : isMul v = true
  · -- v = ac * ad
    cases v <;> simp [isMul] at hvm
    rename_i ac ad
    simp only [mulF] at h
    cases f with
    | zero => simp [mulOnto] at h
    | succ f =>
      simp only [mulOnto, bind, Except.bind] at h
      cases f with
      | zero => simp [mulStep] at h
      | succ f =>
        have hin : (Expr.int n).isNum = true := rfl
        simp only [mulStep, hin, if_true, bind, Except.bind] at h
        cases hm : numMul ac (.int n) with
        | error e => simp [hm] at h
        | ok c =>
          simp [hm, pure, Except.pure] at h
          subst h
          have hac := inv_mul_coef hv
          obtain ⟨_, _, hct, _, hfac⟩ := inv_mul_iff.mp hv
          have hz : numIsZero ac = false := by
            unfold mulCanonTop at hct
            simp only [Bool.and_eq_true, Bool.not_eq_true'] at hct
            exact hct.1.1.1.2
          refine mulFromDict_nonnum (numMul_int_nonzero hac hz hn hm) (inv_mul_ne_nil hv) ?_
          intro b hb
          exact factor_one_key (hfac (b, .int 1) hb)
  · have hvm : isMul v = false := by simpa using hvm
    have hunf : mulF (f + 1) rv v (.int n) = (do
        let (c, d) ← mulStep f rv one [] v
        let (c, d) ← mulStep f rv c d (.int n)
        pure (mulFromDict c d)) := by
      cases v <;> simp_all [mulF, isMul]
    rw [hunf] at h
    simp only [bind, Except.bind] at h
    cases f with
    | zero => simp [mulStep] at h
    | succ f =>
      have hin : (Expr.int n).isNum = true := rfl
      simp only [mulStep, hvn, hin, Bool.false_eq_true, if_false, if_true, bind, Except.bind] at h
      cases ha : asBaseExp v with
      | error e => simp [ha] at h
      | ok et =>
        obtain ⟨e, t⟩ := et
        simp only [ha] at h
        cases hd : datNew f rv one [] e t with
        | error e => simp [hd] at h
        | ok cd =>
          obtain ⟨c1, d1⟩ := cd
          obtain ⟨rfl, rfl⟩ := datNew_fresh hv hvn hvm ha hd
          simp only [hd] at h
          cases hm : numMul one (.int n) with
          | error e => simp [hm] at h
          | ok c =>
            simp [hm, pure, Except.pure] at h
            subst h
            refine mulFromDict_nonnum (numMul_int_nonzero numOK_one rfl hn hm) (by simp) ?_
            intro b hb
            simp at hb
            exact hb.1 ▸ asBaseExp_one_key hv hvn ha hb.2.symm

/-- `Number * Integer` through `mul` is `mulnum` -/
theorem mulF_num_int {f : Nat} {rv : Bool} {v r : Expr} {n : Int} (hvn : v.isNum = true)
    (h : mulF f rv v (.int n) = .ok r) :
    ∃ c1 c2, numMul one v = .ok c1 ∧ numMul c1 (.int n) = .ok c2 ∧ r = mulFromDict c2 [] := by
  cases f with
  | zero => simp [mulF] at h
  | succ f =>
    have hunf : mulF (f + 1) rv v (.int n) = (do
        let (c, d) ← mulStep f rv one [] v
        let (c, d) ← mulStep f rv c d (.int n)
        pure (mulFromDict c d)) := by
      cases v <;> simp_all [mulF, Expr.isNum]
    rw [hunf] at h
    simp only [bind, Except.bind] at h
    cases f with
    | zero => simp [mulStep] at h
    | succ f =>
      have hin : (Expr.int n).isNum = true := rfl
      simp only [mulStep, hvn, hin, if_true, bind, Except.bind] at h
      cases h1 : numMul one v with
      | error e => simp [h1] at h
      | ok c1 =>
        simp only [h1, pure, Except.pure] at h
        cases h2 : numMul c1 (.int n) with
        | error e => simp [h2] at h
        | ok c2 =>
          simp [h2] at h
          exact ⟨c1, c2, rfl, h2, h.symm⟩

/-- `PowerExpOK` holds -/
theorem powerExpOK : PowerExpOK := by
  intro f rv k v n r hk hv hf hn h
  by_cases hvn : v.isNum = true
  · -- a numeric exponent
    obtain ⟨c1, c2, h1, h2, rfl⟩ := mulF_num_int hvn h
    have hvN : NumOK v := ⟨hvn, inv_canon hv⟩
    have hvz : numIsZero v = false := by
      unfold factorOK at hf
      simp only [Bool.and_eq_true, Bool.not_eq_true', isNumZero, Bool.and_eq_false_iff] at hf
      rcases hf.1 with h | h
      · simp [hvn] at h
      · exact h
    have hc1 := numMul_ok numOK_one hvN h1
    have hz1 := numMul_one_nonzero hvN hvz h1
    have hc2 := numMul_ok hc1 (exOK_int n).numOK h2
    have hz2 := numMul_int_nonzero hc1 hz1 hn h2
    have hr : mulFromDict c2 [] = c2 := by simp [mulFromDict]
    rw [hr]
    refine ⟨by simp [isNumZero, hz2], ?_⟩
    intro hcond
    unfold factorOK at hf
    unfold preOK
    cases k with
    | int kn => by_cases h0 : kn = 0 <;> simp_all [isMul]
    | mul kc kfs =>
      simp_all [isMul]
      rcases hf.2.2 with (h | h) | h
      · exact Or.inl (Or.inl (Or.inr h))
      · exact Or.inl (Or.inr h)
      · exact Or.inr h
    | _ => simp_all [isMul]
  · have hvn : v.isNum = false := by simpa using hvn
    have hrn := mulF_int_nonnum hv hvn hn h
    refine ⟨by simp [isNumZero, hrn], ?_⟩
    intro _
    have hri : isInteger r = false := by cases r <;> simp_all [isInteger, Expr.isNum]
    unfold factorOK at hf
    unfold preOK
    cases k with
    | int kn => by_cases h0 : kn = 0 <;> simp_all
    | _ => simp_all

end SymVerif.Arith
