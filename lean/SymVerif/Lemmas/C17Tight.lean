/-
A printed form never *needs* whitespace: between any two adjacent tokens of `Doc.toks` (and before END_OF_FILE)
the first byte of the second token cannot extend the first (`sepOK_tight`).  Core Lean only.
-/
import SymVerif.Lemmas.C17Pratt
import SymVerif.Lemmas.C17Lex

namespace SymVerif
namespace Parser

/-- adjacent tokens do not run into each other when written without whitespace -/
def Adj : List Tok → Prop
  | t1 :: t2 :: r => Follow t1 (firstByte t2) ∧ Adj (t2 :: r)
  | _ => True

theorem sepOK_of_adj : ∀ (L : List Tok) (i : Nat), Adj L → SepOK (fun _ => []) i L
  | [], _, _ => trivial
  | [_], _, _ => trivial
  | t1 :: t2 :: r, i, h => ⟨fun _ => h.1, sepOK_of_adj (t2 :: r) (i + 1) h.2⟩

def lastTok : List Tok → Option Tok
  | [] => none
  | [a] => some a
  | _ :: b :: r => lastTok (b :: r)

theorem lastTok_append_cons : ∀ (A : List Tok) (b : Tok) (B : List Tok), lastTok (A ++ b :: B) = lastTok (b :: B)
  | [], _, _ => rfl
  | [a], b, B => by simp [lastTok]
  | a :: a2 :: A, b, B => by
    have := lastTok_append_cons (a2 :: A) b B
    simpa [lastTok] using this

theorem adj_append : ∀ (A : List Tok) (b : Tok) (B : List Tok), Adj A → Adj (b :: B) →
    (∀ a, lastTok A = some a → Follow a (firstByte b)) → Adj (A ++ b :: B)
  | [], _, _, _, hB, _ => hB
  | [a], b, B, _, hB, h => ⟨h a rfl, hB⟩
  | a1 :: a2 :: A, b, B, hA, hB, h => by
    refine ⟨hA.1, ?_⟩
    exact adj_append (a2 :: A) b B hA.2 hB (fun a ha => h a (by simpa [lastTok] using ha))

/-- tokens an operand can start with / end with -/
def IsStart : Tok → Prop
  | .num _ => True
  | .ident _ => True
  | .imul _ => True
  | .op c => c = 40 ∨ c = 45 ∨ c = 43 ∨ c = 126
  | _ => False

def IsEnd : Tok → Prop
  | .num _ => True
  | .ident _ => True
  | .imul _ => True
  | .op c => c = 41
  | _ => False

/-- first bytes of the tokens that can follow an operand: binary operators, `)`, `,`, `(`, END_OF_FILE -/
def AfterByte (h : UInt8) : Prop := isIdCont h = false ∧ isDig h = false ∧ h ≠ 46 ∧ isAlpha h = false

theorem afterByte_bin (o : BinOp) : AfterByte (firstByte (tokOfBin o)) := by
  cases o <;> (unfold AfterByte; decide)

theorem afterByte_misc : AfterByte (firstByte (.op 41)) ∧ AfterByte (firstByte (.op 44)) ∧ AfterByte (firstByte (.op 40))
    ∧ AfterByte (firstByte .eof) ∧ AfterByte (firstByte .pow) := by
  refine ⟨?_, ?_, ?_, ?_, ?_⟩ <;> (unfold AfterByte; decide)

theorem follow_end {t : Tok} (he : IsEnd t) {h : UInt8} (ha : AfterByte h) : Follow t h := by
  obtain ⟨h1, h2, h3, h4⟩ := ha
  cases t with
  | num s => exact ⟨h2, h3, h4⟩
  | ident s => exact h1
  | imul s => exact h1
  | op c =>
    simp only [IsEnd] at he
    subst he
    exact ⟨fun h0 => absurd h0 (by decide), fun h0 => absurd h0 (by decide)⟩
  | eof => exact absurd he id
  | pow => exact absurd he id
  | le => exact absurd he id
  | ge => exact absurd he id
  | ne => exact absurd he id
  | eq => exact absurd he id
  | pwise => exact absurd he id

/-- the first byte of an operand-start token is neither `*` nor `=` -/
theorem start_byte {t : Tok} (hs : IsStart t) (hv : ValidTok t) : firstByte t ≠ 42 ∧ firstByte t ≠ 61 := by
  have numhead : ∀ {x : Bytes} (tl : Bytes), IsNumeral x → (x ++ tl).headD 0 ≠ 42 ∧ (x ++ tl).headD 0 ≠ 61 := by
    intro x tl hx
    obtain ⟨c, r, rfl, hc, _⟩ := numeral_head hx
    simp only [List.cons_append, List.headD_cons]
    constructor <;> (intro h; subst h; revert hc; decide)
  cases t with
  | num s =>
    have := numhead [] hv
    simpa [firstByte, tokText] using this
  | ident s =>
    obtain ⟨⟨c, tl, rfl, hc, _⟩, _⟩ := hv
    simp only [firstByte, tokText, List.headD_cons]
    constructor <;> (intro h; subst h; revert hc; decide)
  | imul s =>
    obtain ⟨n, id, hn, _, _, rfl⟩ := hv
    exact numhead id hn
  | op c =>
    simp only [IsStart] at hs
    simp only [firstByte, tokText, List.headD_cons]
    rcases hs with rfl | rfl | rfl | rfl <;> decide
  | eof => exact absurd hs id
  | pow => exact absurd hs id
  | le => exact absurd hs id
  | ge => exact absurd hs id
  | ne => exact absurd hs id
  | eq => exact absurd hs id
  | pwise => exact absurd hs id

/-- an operator-like token followed by an operand start -/
theorem follow_start (t1 : Tok) (hnot : ∀ s, t1 ≠ .ident s ∧ t1 ≠ .imul s ∧ t1 ≠ .num s)
    {t2 : Tok} (hs : IsStart t2) (hv : ValidTok t2) : Follow t1 (firstByte t2) := by
  obtain ⟨h42, h61⟩ := start_byte hs hv
  cases t1 with
  | num s => exact absurd rfl (hnot s).2.2
  | ident s => exact absurd rfl (hnot s).1
  | imul s => exact absurd rfl (hnot s).2.1
  | op c => exact ⟨fun _ => h42, fun _ => h61⟩
  | eof => trivial
  | pow => trivial
  | le => trivial
  | ge => trivial
  | ne => trivial
  | eq => trivial
  | pwise => trivial

theorem tokOfBin_not_leaf (o : BinOp) : ∀ s, tokOfBin o ≠ .ident s ∧ tokOfBin o ≠ .imul s ∧ tokOfBin o ≠ .num s := by
  intro s; cases o <;> simp [tokOfBin]

theorem tokOfUn_not_leaf (u : UnOp) : ∀ s, tokOfUn u ≠ .ident s ∧ tokOfUn u ≠ .imul s ∧ tokOfUn u ≠ .num s := by
  intro s; cases u <;> simp [tokOfUn]

theorem sepTok_props (t : List Doc) :
    (∀ s, sepTok t ≠ .ident s ∧ sepTok t ≠ .imul s ∧ sepTok t ≠ .num s) ∧ AfterByte (firstByte (sepTok t)) := by
  unfold sepTok
  split
  · exact ⟨fun s => by simp, afterByte_misc.1⟩
  · exact ⟨fun s => by simp, afterByte_misc.2.1⟩

section Shape
variable (bp : BP)

def Shape (L : List Tok) : Prop :=
  (∃ t r, L = t :: r ∧ IsStart t) ∧ (∃ t, lastTok L = some t ∧ IsEnd t) ∧ Adj L

mutual
  theorem doc_shape : ∀ d : Doc, OK bp d → (∀ t ∈ d.toks, ValidTok t) → Shape d.toks
    | .num s, _, _ => ⟨⟨_, _, rfl, trivial⟩, ⟨_, rfl, trivial⟩, trivial⟩
    | .ident s, _, _ => ⟨⟨_, _, rfl, trivial⟩, ⟨_, rfl, trivial⟩, trivial⟩
    | .imul s, _, _ => ⟨⟨_, _, rfl, trivial⟩, ⟨_, rfl, trivial⟩, trivial⟩
    | .imulPow s e, hok, hv => by
      have hve : ∀ t ∈ e.toks, ValidTok t := fun t ht => hv t (by simp [Doc.toks, ht])
      obtain ⟨⟨t', r', he, hs⟩, ⟨tl, hl, hle⟩, ha⟩ := doc_shape e hok.1 hve
      refine ⟨⟨_, _, rfl, trivial⟩, ⟨tl, ?_, hle⟩, ?_⟩
      · simp only [Doc.toks, he, lastTok]; rw [← he]; exact hl
      · simp only [Doc.toks, he]
        refine ⟨follow_end (t := .imul s) trivial afterByte_misc.2.2.2.2, trivial, ?_⟩
        rw [← he]; exact ha
    | .paren d, hok, hv => by
      have hvd : ∀ t ∈ d.toks, ValidTok t := fun t ht => hv t (by simp [Doc.toks, ht])
      obtain ⟨⟨t', r', hd, hs⟩, ⟨tl, hl, hle⟩, ha⟩ := doc_shape d hok.1 hvd
      have hA : Adj (.op 40 :: d.toks) := by
        rw [hd]
        exact ⟨follow_start (.op 40) (fun s => by simp) hs (hvd t' (by simp [hd])), by rw [← hd]; exact ha⟩
      have hlast : lastTok (.op 40 :: d.toks) = some tl := by
        rw [hd]; simp only [lastTok]; rw [← hd]; exact hl
      refine ⟨⟨_, _, rfl, Or.inl rfl⟩, ⟨.op 41, ?_, rfl⟩, ?_⟩
      · have := lastTok_append_cons (.op 40 :: d.toks) (.op 41) []
        simpa [Doc.toks, lastTok] using this
      · have := adj_append (.op 40 :: d.toks) (.op 41) [] hA trivial
          (fun a ha' => by
            rw [hlast] at ha'; cases ha'
            exact follow_end hle afterByte_misc.1)
        simpa [Doc.toks] using this
    | .un u x, hok, hv => by
      have hvx : ∀ t ∈ x.toks, ValidTok t := fun t ht => hv t (by simp [Doc.toks, ht])
      obtain ⟨⟨t', r', hx, hs⟩, ⟨tl, hl, hle⟩, ha⟩ := doc_shape x hok.1 hvx
      refine ⟨⟨tokOfUn u, x.toks, rfl, by cases u <;> simp [tokOfUn, IsStart]⟩, ⟨tl, ?_, hle⟩, ?_⟩
      · simp only [Doc.toks, hx, lastTok]; rw [← hx]; exact hl
      · simp only [Doc.toks, hx]
        exact ⟨follow_start (tokOfUn u) (tokOfUn_not_leaf u) hs (hvx t' (by simp [hx])), by rw [← hx]; exact ha⟩
    | .bin o l r, hok, hv => by
      have hvl : ∀ t ∈ l.toks, ValidTok t := fun t ht => hv t (by simp [Doc.toks, ht])
      have hvr : ∀ t ∈ r.toks, ValidTok t := fun t ht => hv t (by simp [Doc.toks, ht])
      obtain ⟨⟨tl', rl', hl, hsl⟩, ⟨ll, hll, hlle⟩, hal⟩ := doc_shape l hok.1 hvl
      obtain ⟨⟨tr', rr', hr, hsr⟩, ⟨lr, hlr, hlre⟩, har⟩ := doc_shape r hok.2.1 hvr
      have hB : Adj (tokOfBin o :: r.toks) := by
        rw [hr]
        exact ⟨follow_start (tokOfBin o) (tokOfBin_not_leaf o) hsr (hvr tr' (by simp [hr])), by rw [← hr]; exact har⟩
      refine ⟨⟨tl', rl' ++ tokOfBin o :: r.toks, by simp [Doc.toks, hl], hsl⟩, ⟨lr, ?_, hlre⟩, ?_⟩
      · simp only [Doc.toks]
        rw [lastTok_append_cons, hr]; simp only [lastTok]; rw [← hr]; exact hlr
      · simp only [Doc.toks]
        exact adj_append l.toks (tokOfBin o) r.toks hal hB
          (fun a ha' => by
            rw [hll] at ha'; cases ha'
            exact follow_end hlle (afterByte_bin o))
    | .call f args, hok, hv => by
      have hva : ∀ t ∈ Doc.argToks args, ValidTok t := fun t ht => hv t (by simp [Doc.toks, ht])
      obtain ⟨⟨t', r', ha, hs⟩, hlast, hadj⟩ := args_shape args hok.1 hok.2 hva
      refine ⟨⟨_, _, rfl, trivial⟩, ⟨.op 41, ?_, rfl⟩, ?_⟩
      · simp only [Doc.toks, ha, lastTok]; rw [← ha]; exact hlast
      · simp only [Doc.toks, ha]
        refine ⟨follow_end (t := .ident f) trivial afterByte_misc.2.2.1, ?_, ?_⟩
        · exact follow_start (.op 40) (fun s => by simp) hs (hva t' (by simp [ha]))
        · rw [← ha]; exact hadj
  theorem args_shape : ∀ args : List Doc, args ≠ [] → OKs bp args → (∀ t ∈ Doc.argToks args, ValidTok t) →
      (∃ t r, Doc.argToks args = t :: r ∧ IsStart t) ∧ lastTok (Doc.argToks args) = some (.op 41)
        ∧ Adj (Doc.argToks args)
    | [], h, _, _ => absurd rfl h
    | a :: t, _, hok, hv => by
      have hva : ∀ x ∈ a.toks, ValidTok x := fun x hx => hv x (by simp [Doc.argToks, hx])
      obtain ⟨⟨ta, ra, ha, hsa⟩, ⟨la, hla, hlae⟩, haa⟩ := doc_shape a hok.1 hva
      obtain ⟨hsep1, hsep2⟩ := sepTok_props t
      cases t with
      | nil =>
        refine ⟨⟨ta, ra ++ [.op 41], by simp [Doc.argToks, sepTok, ha], hsa⟩, ?_, ?_⟩
        · have := lastTok_append_cons a.toks (.op 41) []
          simpa [Doc.argToks, sepTok, lastTok] using this
        · have := adj_append a.toks (.op 41) [] haa trivial
            (fun x hx => by rw [hla] at hx; cases hx; exact follow_end hlae afterByte_misc.1)
          simpa [Doc.argToks, sepTok] using this
      | cons b t' =>
        have hvt : ∀ x ∈ Doc.argToks (b :: t'), ValidTok x := fun x hx => hv x (by
          simp only [Doc.argToks, List.mem_append, List.mem_cons] at hx ⊢
          exact Or.inr (Or.inr hx))
        obtain ⟨⟨tb, rb, hb, hsb⟩, hlb, hab⟩ := args_shape (b :: t') (by simp) hok.2.2 hvt
        have hsepE : sepTok (b :: t') = .op 44 := by simp [sepTok]
        have hB : Adj (.op 44 :: Doc.argToks (b :: t')) := by
          rw [hb]
          exact ⟨follow_start (.op 44) (fun s => by simp) hsb (hvt tb (by simp [hb])), by rw [← hb]; exact hab⟩
        refine ⟨⟨ta, ra ++ .op 44 :: Doc.argToks (b :: t'), ?_, hsa⟩, ?_, ?_⟩
        · simp only [Doc.argToks, hsepE, ha, List.cons_append]
        · show lastTok (a.toks ++ sepTok (b :: t') :: Doc.argToks (b :: t')) = _
          rw [hsepE, lastTok_append_cons, hb]; simp only [lastTok]; rw [← hb]; exact hlb
        · show Adj (a.toks ++ sepTok (b :: t') :: Doc.argToks (b :: t'))
          rw [hsepE]
          exact adj_append a.toks (.op 44) _ haa hB
            (fun x hx => by rw [hla] at hx; cases hx; exact follow_end hlae afterByte_misc.2.1)
end

/-- **No whitespace is ever required**: the tokens of a printed form, written tightly and followed by the
terminator, satisfy the separation condition of `lexAll_render`. -/
theorem sepOK_tight (d : Doc) (hok : OK bp d) (hv : ∀ t ∈ d.toks, ValidTok t) :
    SepOK (fun _ => []) 0 (d.toks ++ [.eof]) := by
  obtain ⟨_, ⟨tl, hl, hle⟩, ha⟩ := doc_shape bp d hok hv
  apply sepOK_of_adj
  exact adj_append d.toks .eof [] ha trivial
    (fun x hx => by rw [hl] at hx; cases hx; exact follow_end hle afterByte_misc.2.2.2.1)

end Shape

end Parser
end SymVerif
