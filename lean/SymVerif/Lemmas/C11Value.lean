/-
C11, the substitution lemma over ℝ:   ⟦subsE σ e⟧ρ = ⟦e⟧(ρ ∘ σ)   for symbol-keyed σ with arbitrary images.
`evalR` is the real semantics of C10 (`Lemmas/C10Real.lean`); function applications are interpreted, so the
lemma really says that substituting inside `sin(…)`, under powers etc. preserves the value.
-/
import SymVerif.Lemmas.C10Real
import SymVerif.Lemmas.C11Struct

namespace SymVerif
namespace C11
open SymVerif Expr Diff Subs C10

/-- the assignment `ρ ∘ σ`: a key gets the value of its image, every other symbol keeps its value -/
noncomputable def comp (ρ : String → ℝ) (σ : Sigma) : String → ℝ :=
  fun s => match lookup σ (.sym s) with
    | some v => evalR ρ v
    | none => ρ s

/-- `powV` is `Real.rpow` at the value of the exponent, also for integer literals -/
theorem powV_rpow (ρ : String → ℝ) (bv : ℝ) (e : Expr) : powV bv e (evalR ρ e) = bv ^ (evalR ρ e) := by
  cases e <;> simp [powV, evalR, Real.rpow_intCast]

section
variable (pp : Bool) (ρ : String → ℝ) (σ : Sigma) (hs : symKeyed σ = true)
include hs

mutual
  theorem subsE_value : ∀ (e : Expr), evalR ρ (subsE pp σ e) = evalR (comp ρ σ) e
    | .add c ts => by
      have hl : lookup σ (.add c ts) = none := lookup_none_of_not_sym hs (by intro n; simp)
      simp only [subsE, hl, evalR]
      rw [subsE_value c, subsTerms_value ts]
    | .mul c fs => by
      have hl : lookup σ (.mul c fs) = none := lookup_none_of_not_sym hs (by intro n; simp)
      simp only [subsE, hl, evalR]
      rw [subsE_value c, subsFacs_value fs]
    | .pow b e => by
      have hl : lookup σ (.pow b e) = none := lookup_none_of_not_sym hs (by intro n; simp)
      simp only [subsE, hl, powNode_symKeyed hs, evalR]
      rw [powV_rpow, powV_rpow, subsE_value b, subsE_value e]
    | .fsym f args => by
      have hl : lookup σ (.fsym f args) = none := lookup_none_of_not_sym hs (by intro n; simp)
      simp [subsE, hl, evalR]
    | .app h [] => by
      have hl : lookup σ (.app h []) = none := lookup_none_of_not_sym hs (by intro n; simp)
      simp [subsE, hl, evalR, subsList]
    | .app h [a] => by
      have hl : lookup σ (.app h [a]) = none := lookup_none_of_not_sym hs (by intro n; simp)
      simp only [subsE, hl, subsList, evalR]
      rw [subsE_value a]
    | .app h (a :: b :: t) => by
      have hl : lookup σ (.app h (a :: b :: t)) = none := lookup_none_of_not_sym hs (by intro n; simp)
      simp [subsE, hl, evalR, subsList]
    | .sym n => by
      simp only [subsE, evalR, comp]
      cases lookup σ (.sym n) <;> simp [evalR]
    | .int _ => by simp [subsE, lookup_none_of_not_sym hs, evalR]
    | .rat _ _ => by simp [subsE, lookup_none_of_not_sym hs, evalR]
    | .cplx _ _ => by simp [subsE, lookup_none_of_not_sym hs, evalR]
    | .dbl _ => by simp [subsE, lookup_none_of_not_sym hs, evalR]
    | .cdbl _ _ => by simp [subsE, lookup_none_of_not_sym hs, evalR]
    | .infty _ => by simp [subsE, lookup_none_of_not_sym hs, evalR]
    | .nan => by simp [subsE, lookup_none_of_not_sym hs, evalR]
    | .dummy _ _ => by simp [subsE, lookup_none_of_not_sym hs, evalR]
    | .const _ => by simp [subsE, lookup_none_of_not_sym hs, evalR]
    | .bool _ => by simp [subsE, lookup_none_of_not_sym hs, evalR]
  theorem subsTerms_value : ∀ (l : List (Expr × Expr)),
      evalTermsR ρ (subsTerms pp σ l) = evalTermsR (comp ρ σ) l
    | [] => by simp [subsTerms, evalTermsR]
    | (k, c) :: t => by
      simp only [subsTerms, evalTermsR]
      rw [subsTerms_value t]
      congr 1
      cases hl : lookup σ (termKey k c) with
      | none =>
        simp only
        rw [subsE_value k, subsE_value c]
      | some w =>
        obtain ⟨n, hn⟩ := lookup_sym hs hl
        obtain ⟨hc1, hk1⟩ := termKey_sym hn
        subst hc1; subst hk1
        rw [hn] at hl
        simp [evalR, comp, hl]
  theorem subsFacs_value : ∀ (l : List (Expr × Expr)),
      evalFacsR ρ (subsFacs pp σ l) = evalFacsR (comp ρ σ) l
    | [] => by simp [subsFacs, evalFacsR]
    | (b, e) :: t => by
      simp only [subsFacs]
      have hl : lookup σ (.pow b e) = none := lookup_none_of_not_sym hs (by intro n; simp)
      split
      · simp only [evalFacsR, powV_int]
        rw [subsFacs_value t, subsE_value b]
      · simp only [hl, powNode_symKeyed hs, asBaseExp, evalFacsR]
        rw [subsFacs_value t, powV_rpow, powV_rpow, subsE_value b, subsE_value e]
end

end

/-- **Substitution lemma (model, over ℝ).**  For a symbol-keyed map σ (images arbitrary trees) the value of
the substituted tree at `ρ` is the value of the original tree at `ρ ∘ σ` — for `subs` and for
`xreplace`/`msubs`/`ssubs` (`pp = false`) alike. -/
theorem subs_value (pp : Bool) (ρ : String → ℝ) (σ : Sigma) (hs : symKeyed σ = true) (e : Expr) :
    evalR ρ (subsE pp σ e) = evalR (comp ρ σ) e := subsE_value pp ρ σ hs e

end C11
end SymVerif
