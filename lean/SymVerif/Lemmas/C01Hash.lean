/-
C01 lemmas: the XOR fold of `Add::__hash__` does not depend on the iteration order of the unordered
dictionary; an insert-only hash set keyed by (hash, eq) holds no two `eq` elements.
-/
import SymVerif.Lemmas.C02Container

namespace SymVerif
namespace Expr

def entryHash (p : Expr × Expr) : UInt64 := hashCombine (hash p.1) (hash p.2)

theorem hashAddTerms_foldl : ∀ (ts : List (Expr × Expr)) (s : UInt64),
    hashAddTerms s ts = ts.foldl (fun acc p => acc ^^^ entryHash p) s
  | [], s => by simp [hashAddTerms]
  | (k, v) :: t, s => by
    rw [hashAddTerms, hashAddTerms_foldl t]; rfl

theorem hashAddTerms_perm {ts ts' : List (Expr × Expr)} (h : ts.Perm ts') (s : UInt64) :
    hashAddTerms s ts = hashAddTerms s ts' := by
  rw [hashAddTerms_foldl, hashAddTerms_foldl]
  refine List.Perm.foldl_eq' h ?_ s
  intro x _ y _ z
  rw [UInt64.xor_assoc, UInt64.xor_comm (entryHash x), ← UInt64.xor_assoc]

/-- `std::unordered_set<…, RCPBasicHash, RCPBasicKeyEq>::insert`: an element is rejected iff some stored
element has the same hash and is `eq` -/
def usetInsert (s : List Expr) (x : Expr) : List Expr :=
  if s.any (fun y => hash y == hash x && beq' x y) then s else x :: s

def usetOf (l : List Expr) : List Expr := l.foldl usetInsert []

theorem usetInsert_mem {s : List Expr} {x y : Expr} (h : y ∈ usetInsert s x) : y = x ∨ y ∈ s := by
  unfold usetInsert at h
  split at h
  · exact Or.inr h
  · exact List.mem_cons.mp h

theorem uset_aux (l : List Expr) (ol : ∀ x ∈ l, OK x) : ∀ (acc : List Expr), (∀ x ∈ acc, OK x) →
    List.Pairwise (fun a b => beq' a b = false ∧ beq' b a = false) acc →
    List.Pairwise (fun a b => beq' a b = false ∧ beq' b a = false) (l.foldl usetInsert acc) := by
  induction l with
  | nil => intro acc _ h; exact h
  | cons x t ih =>
    intro acc oacc hp
    have ox := ol x (List.mem_cons_self ..)
    rw [List.foldl_cons]
    refine ih (fun y hy => ol y (List.mem_cons_of_mem _ hy)) _ ?_ ?_
    · intro y hy
      rcases usetInsert_mem hy with rfl | hy
      · exact ox
      · exact oacc y hy
    · unfold usetInsert
      split
      · exact hp
      · rename_i hany
        rw [List.pairwise_cons]
        refine ⟨?_, hp⟩
        intro y hy
        have oy := oacc y hy
        have j := J_all x y ox oy
        have key : beq' x y = false := by
          cases hb : beq' x y
          · rfl
          · exfalso; apply hany
            rw [List.any_eq_true]
            have := j.eq1 hb
            subst this
            exact ⟨x, hy, by simp [hb]⟩
        refine ⟨key, ?_⟩
        cases hb : beq' y x
        · rfl
        · have := j.eq2 hb
          subst this
          rw [beq'_refl ox] at key; cases key

end Expr
end SymVerif
