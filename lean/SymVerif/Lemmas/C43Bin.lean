import Mathlib.Data.Nat.Factorial.BigOperators
import Mathlib.Tactic.Ring
import Mathlib.Tactic.Linarith
import SymVerif.Model.MpSpec
import SymVerif.Model.MpBoost
/-! C43, `mp_bin_ui` of mp_boost.cpp: the multiply-then-divide loop is exact at every step. -/
namespace SymVerif.C43
open SymVerif

/-- `(x+1)(x+2)⋯(x+j)` -/
def prodUp (x : Int) : Nat → Int
  | 0 => 1
  | j + 1 => prodUp x j * (x + ((j + 1 : Nat) : Int))

theorem prodUp_eq_finset (x : Int) (j : Nat) : prodUp x j = ∏ i ∈ Finset.range j, ((x + 1) + (i : Int)) := by
  induction j with
  | zero => simp [prodUp]
  | succ j ih => rw [Finset.prod_range_succ, ← ih, prodUp]; push_cast; ring

theorem fac_eq_factorial (n : Nat) : MpSpec.fac n = n.factorial := by
  induction n with
  | zero => rfl
  | succ n ih => simp [MpSpec.fac, ih, Nat.factorial]

theorem fac_dvd_prodUp (x : Int) (j : Nat) : ((MpSpec.fac j : Nat) : Int) ∣ prodUp x j := by
  rw [prodUp_eq_finset, fac_eq_factorial]
  exact Nat.factorial_coe_dvd_prod j (x + 1)

theorem prodUp_shift (y : Int) (k : Nat) : prodUp (y - 1) (k + 1) = y * prodUp y k := by
  induction k with
  | zero => simp [prodUp]
  | succ k ih =>
    rw [prodUp, ih, prodUp]
    push_cast; ring

theorem fallingProd_eq (n : Int) (k : Nat) : MpSpec.fallingProd n k = prodUp (n - (k : Int)) k := by
  induction k with
  | zero => simp [MpSpec.fallingProd, prodUp]
  | succ k ih =>
    rw [MpSpec.fallingProd, ih]
    have : n - ((k + 1 : Nat) : Int) = (n - (k : Int)) - 1 := by push_cast; ring
    rw [this, prodUp_shift]
    ring

/-- loop invariant of `mp_bin_ui`: before iteration `i`, `res · (i-1)! = (x+1)⋯(x+i-1)` -/
theorem binLoop_spec (x : Int) (r : Nat) : ∀ (fuel i : Nat) (res : Int), 1 ≤ i → i ≤ r + 1 → r + 1 - i ≤ fuel →
    res * ((MpSpec.fac (i - 1) : Nat) : Int) = prodUp x (i - 1) →
    MpBoost.binLoop x r fuel i res * ((MpSpec.fac r : Nat) : Int) = prodUp x r := by
  intro fuel
  induction fuel with
  | zero =>
    intro i res h1 h2 h3 hinv
    have : i = r + 1 := by omega
    subst this
    simpa [MpBoost.binLoop] using hinv
  | succ f ih =>
    intro i res h1 h2 h3 hinv
    unfold MpBoost.binLoop
    by_cases hle : i ≤ r
    · rw [if_pos hle]
      apply ih (i + 1) _ (by omega) (by omega) (by omega)
      simp only [Nat.add_sub_cancel]
      obtain ⟨j, rfl⟩ : ∃ j, i = j + 1 := ⟨i - 1, by omega⟩
      simp only [Nat.add_sub_cancel] at hinv
      -- exact division
      obtain ⟨c, hc⟩ := fac_dvd_prodUp x (j + 1)
      have hfj : ((MpSpec.fac j : Nat) : Int) ≠ 0 := by
        rw [fac_eq_factorial]; exact_mod_cast Nat.factorial_ne_zero j
      have hstep : res * (x + ((j + 1 : Nat) : Int)) = c * ((j + 1 : Nat) : Int) := by
        have h1 : prodUp x (j + 1) = res * ((MpSpec.fac j : Nat) : Int) * (x + ((j + 1 : Nat) : Int)) := by
          rw [prodUp, hinv]
        have h2 : ((MpSpec.fac (j + 1) : Nat) : Int) = ((j + 1 : Nat) : Int) * ((MpSpec.fac j : Nat) : Int) := by
          simp [MpSpec.fac]
        rw [h2] at hc
        have : ((MpSpec.fac j : Nat) : Int) * (res * (x + ((j + 1 : Nat) : Int)))
            = ((MpSpec.fac j : Nat) : Int) * (c * ((j + 1 : Nat) : Int)) := by
          rw [h1] at hc; linarith
        exact mul_left_cancel₀ hfj this
      rw [hstep, Int.mul_tdiv_cancel _ (by exact_mod_cast (show (j + 1) ≠ 0 by omega))]
      rw [hc]; ring
    · rw [if_neg hle]
      have : i = r + 1 := by omega
      subst this
      simpa using hinv

/-- **`mp_bin_ui` = specification** `n(n-1)⋯(n-k+1)/k!` for every integer `n` (negative too) -/
theorem boost_bin_spec (n : Int) (k : Nat) : MpBoost.bin n k = MpSpec.bin n k := by
  unfold MpBoost.bin MpSpec.bin
  have h := binLoop_spec (n - (k : Int)) k k 1 1 (by omega) (by omega) (by omega) (by simp [MpSpec.fac, prodUp])
  rw [fallingProd_eq, ← h]
  have hfk : ((MpSpec.fac k : Nat) : Int) ≠ 0 := by
    rw [fac_eq_factorial]; exact_mod_cast Nat.factorial_ne_zero k
  rw [Int.mul_tdiv_cancel _ hfk]

end SymVerif.C43
