/-
C31 helper lemmas, part 5: composition `Σ a_d S^d` of a coefficient sequence with a power series
without constant term, and the power sums `_series_sin` / `_series_cos`.
-/
import Mathlib.Data.Nat.Factorial.Basic
import SymVerif.Lemmas.C31More

namespace SymVerif.C31
open SymVerif.Series PowerSeries

/-- partial sums of the composition `Σ_d a_d S^d` -/
noncomputable def psum (a : ℕ → ℚ) (S : ℚ⟦X⟧) (N : ℕ) : ℚ⟦X⟧ :=
  ∑ d ∈ Finset.range N, C (a d) * S ^ d

theorem psum_succ (a : ℕ → ℚ) (S : ℚ⟦X⟧) (N : ℕ) :
    psum a S (N + 1) = psum a S N + C (a N) * S ^ N := by
  unfold psum; rw [Finset.sum_range_succ]

@[simp] theorem psum_zero (a : ℕ → ℚ) (S : ℚ⟦X⟧) : psum a S 0 = 0 := by simp [psum]

theorem coeff_pow_of_lt {S : ℚ⟦X⟧} (hS : constantCoeff S = 0) {e d : ℕ} (h : e < d) :
    coeff e (S ^ d) = 0 := by
  have hX : X ∣ S := PowerSeries.X_dvd_iff.mpr hS
  have : X ^ d ∣ S ^ d := pow_dvd_pow_of_dvd hX d
  exact (PowerSeries.X_pow_dvd_iff.mp this) e h

theorem eqMod_pow_zero {S : ℚ⟦X⟧} (hS : constantCoeff S = 0) {n d : ℕ} (h : n ≤ d) :
    EqMod n (S ^ d) 0 := fun e he => by
  rw [coeff_pow_of_lt hS (lt_of_lt_of_le he h)]; simp

/-- the composition of the series `Σ a_d Y^d` with `S` (meaningful when `S(0) = 0`) -/
noncomputable def comp (a : ℕ → ℚ) (S : ℚ⟦X⟧) : ℚ⟦X⟧ :=
  PowerSeries.mk fun e => coeff e (psum a S (e + 1))

theorem coeff_psum_stable (a : ℕ → ℚ) {S : ℚ⟦X⟧} (hS : constantCoeff S = 0) (e N : ℕ) (h : e < N) :
    coeff e (psum a S N) = coeff e (psum a S (e + 1)) := by
  induction N with
  | zero => omega
  | succ N ih =>
    by_cases hN : e < N
    · rw [psum_succ, map_add, ih hN, coeff_C_mul, coeff_pow_of_lt hS hN]; simp
    · have : N = e := by omega
      subst this; rfl

theorem eqMod_comp_psum (a : ℕ → ℚ) {S : ℚ⟦X⟧} (hS : constantCoeff S = 0) (n N : ℕ) (h : n ≤ N) :
    EqMod n (comp a S) (psum a S N) := by
  intro e he
  rw [comp, coeff_mk, coeff_psum_stable a hS e N (by omega)]

theorem psum_congr (a : ℕ → ℚ) {S S' : ℚ⟦X⟧} {n : ℕ} (h : EqMod n S S') (N : ℕ) :
    EqMod n (psum a S N) (psum a S' N) := by
  induction N with
  | zero => simp [EqMod.refl]
  | succ N ih => rw [psum_succ, psum_succ]; exact ih.add (EqMod.mul_left _ (h.pow N))

theorem comp_congr (a : ℕ → ℚ) {S S' : ℚ⟦X⟧} (hS : constantCoeff S = 0) (hS' : constantCoeff S' = 0)
    {n : ℕ} (h : EqMod n S S') : EqMod n (comp a S) (comp a S') :=
  ((eqMod_comp_psum a hS n n le_rfl).trans (psum_congr a h n)).trans
    (eqMod_comp_psum a hS' n n le_rfl).symm

/-- Taylor coefficients of sine and cosine -/
def sinC (d : ℕ) : ℚ := if d % 2 = 1 then (-1) ^ (d / 2) / (d.factorial : ℚ) else 0
def cosC (d : ℕ) : ℚ := if d % 2 = 0 then (-1) ^ (d / 2) / (d.factorial : ℚ) else 0

theorem sinC_even (i : ℕ) : sinC (2 * i) = 0 := by
  unfold sinC; rw [if_neg (by omega)]
theorem sinC_odd (i : ℕ) : sinC (2 * i + 1) = (-1) ^ i / ((2 * i + 1).factorial : ℚ) := by
  unfold sinC; rw [if_pos (by omega)]; congr 2; omega
theorem cosC_odd (i : ℕ) : cosC (2 * i + 1) = 0 := by
  unfold cosC; rw [if_neg (by omega)]
theorem cosC_even (i : ℕ) : cosC (2 * i) = (-1) ^ i / ((2 * i).factorial : ℚ) := by
  unfold cosC; rw [if_pos (by omega)]; congr 2; omega

theorem foldl_range_succ {α : Type} (f : α → ℕ → α) (a : α) (n : ℕ) :
    (List.range (n + 1)).foldl f a = f ((List.range n).foldl f a) n := by
  rw [List.range_succ, List.foldl_append]; rfl

/-! ### `_series_sin` -/

/-- loop body of `_series_sin` -/
def sinBody (ssq : Poly) (prec : ℕ) (st : ℚ × Poly × Poly) (i : ℕ) : ℚ × Poly × Poly :=
  let j : Int := 2 * (i : Int) + 1
  let prod := if i != 0 then st.1 / (((1 - j : Int)) : ℚ) else st.1
  let prod := prod / ((j : Int) : ℚ)
  (prod, mulTrunc st.2.1 ssq prec, padd st.2.2 (mulTrunc st.2.1 [prod] prec))

theorem sinCore_eq (s : Poly) (prec : ℕ) :
    sinCore s prec = ((List.range (prec / 2)).foldl (sinBody (mulTrunc s s prec) prec) (1, s, [])).2.2 := rfl

theorem sin_prod_step (i : ℕ) (p : ℚ) (hp : p = if i = 0 then 1 else sinC (2 * i - 1)) :
    (if i != 0 then p / (((1 - (2 * (i : Int) + 1) : Int)) : ℚ) else p) / (((2 * (i : Int) + 1 : Int)) : ℚ)
      = sinC (2 * i + 1) := by
  cases i with
  | zero =>
    subst hp
    simp [sinC]
  | succ k =>
    have h1 : (k + 1 != 0) = true := by simp
    have h2 : ¬ (k + 1 = 0) := by omega
    rw [hp, if_neg h2]
    simp only [h1, if_true]
    have e1 : 2 * (k + 1) - 1 = 2 * k + 1 := by omega
    rw [e1, sinC_odd, sinC_odd]
    have f1 : (2 * (k + 1) + 1).factorial = (2 * k + 3) * ((2 * k + 2) * (2 * k + 1).factorial) := by
      have : 2 * (k + 1) + 1 = (2 * k + 1 + 1) + 1 := by ring
      rw [this, Nat.factorial_succ, Nat.factorial_succ]
    rw [f1]
    have hf : ((2 * k + 1).factorial : ℚ) ≠ 0 := by positivity
    push_cast
    field_simp
    ring

theorem sinCore_spec (s : Poly) (prec : ℕ) (hS : constantCoeff (toPS s) = 0) :
    EqMod prec (toPS (sinCore s prec)) (comp sinC (toPS s)) := by
  set S := toPS s
  set ssq := mulTrunc s s prec
  have hssq : EqMod prec (toPS ssq) (S * S) := toPS_mulTrunc s s prec
  -- loop invariant
  have inv : ∀ i, let st := (List.range i).foldl (sinBody ssq prec) (1, s, [])
      st.1 = (if i = 0 then 1 else sinC (2 * i - 1)) ∧
      EqMod prec (toPS st.2.1) (S ^ (2 * i + 1)) ∧
      EqMod prec (toPS st.2.2) (psum sinC S (2 * i)) := by
    intro i
    induction i with
    | zero =>
      simp only [List.range_zero, List.foldl_nil]
      refine ⟨by simp, ?_, ?_⟩
      · simpa using EqMod.refl prec S
      · simp [EqMod.refl]
    | succ i ih =>
      rw [foldl_range_succ]
      obtain ⟨h1, h2, h3⟩ := ih
      set st := (List.range i).foldl (sinBody ssq prec) (1, s, [])
      have hprod := sin_prod_step i st.1 h1
      refine ⟨?_, ?_, ?_⟩
      · have : 2 * (i + 1) - 1 = 2 * i + 1 := by omega
        rw [if_neg (by omega), this]
        exact hprod
      · show EqMod prec (toPS (mulTrunc st.2.1 ssq prec)) _
        refine (toPS_mulTrunc _ _ _).trans ?_
        have : S ^ (2 * (i + 1) + 1) = S ^ (2 * i + 1) * (S * S) := by ring
        rw [this]
        exact h2.mul hssq
      · show EqMod prec (toPS (padd st.2.2 (mulTrunc st.2.1 [_] prec))) _
        have e2 : 2 * (i + 1) = (2 * i + 1) + 1 := by ring
        rw [e2, psum_succ, psum_succ, sinC_even, map_zero, zero_mul, add_zero, toPS_padd]
        apply h3.add
        refine (toPS_mulTrunc _ _ _).trans ?_
        rw [toPS_singleton, mul_comm]
        have : (sinBody ssq prec st i).1 = sinC (2 * i + 1) := hprod
        exact EqMod.mul (EqMod.of_eq (by rw [← this]; rfl)) h2
  have hfin := (inv (prec / 2)).2.2
  rw [sinCore_eq]
  refine hfin.trans ?_
  -- psum up to 2*(prec/2) versus up to prec
  have hps : psum sinC S (2 * (prec / 2)) = psum sinC S prec ∨
      psum sinC S prec = psum sinC S (2 * (prec / 2)) + C (sinC (2 * (prec / 2))) * S ^ (2 * (prec / 2)) := by
    rcases Nat.even_or_odd' prec with ⟨q, hq | hq⟩
    · left; congr 1; omega
    · right
      have : 2 * (prec / 2) = 2 * q := by omega
      rw [this, hq, psum_succ]
  have h2 : psum sinC S (2 * (prec / 2)) = psum sinC S prec := by
    rcases hps with h | h
    · exact h
    · rw [h, sinC_even]; simp
  rw [h2]
  exact (eqMod_comp_psum sinC hS prec prec le_rfl).symm

/-! ### `_series_cos` -/

def cosBody (ssq : Poly) (prec : ℕ) (st : ℚ × Poly × Poly) (i0 : ℕ) : ℚ × Poly × Poly :=
  let j : Int := 2 * ((i0 : Int) + 1)
  let prod := st.1 / (((1 - j : Int)) : ℚ)
  let prod := prod / ((j : Int) : ℚ)
  (prod, mulTrunc st.2.1 ssq prec, padd st.2.2 (mulTrunc st.2.1 [prod] prec))

theorem cosCore_eq (s : Poly) (prec : ℕ) :
    cosCore s prec = ((List.range (prec / 2)).foldl (cosBody (mulTrunc s s prec) prec)
      (1, mulTrunc s s prec, [1])).2.2 := rfl

theorem cos_prod_step (i : ℕ) :
    cosC (2 * i) / (((1 - (2 * ((i : Int) + 1)) : Int)) : ℚ) / (((2 * ((i : Int) + 1) : Int)) : ℚ)
      = cosC (2 * (i + 1)) := by
  rw [cosC_even, cosC_even]
  have f1 : (2 * (i + 1)).factorial = (2 * i + 2) * ((2 * i + 1) * (2 * i).factorial) := by
    have : 2 * (i + 1) = (2 * i + 1) + 1 := by ring
    rw [this, Nat.factorial_succ, Nat.factorial_succ]
  rw [f1]
  have hf : ((2 * i).factorial : ℚ) ≠ 0 := by positivity
  have h1 : ((2 : ℚ) * i + 1) ≠ 0 := by positivity
  have h3 : ((1 : ℚ) - 2 * (i + 1)) ≠ 0 := by
    have : (0 : ℚ) ≤ i := by positivity
    intro h; linarith
  push_cast
  field_simp
  ring

theorem cosCore_spec (s : Poly) (prec : ℕ) (hS : constantCoeff (toPS s) = 0) :
    EqMod prec (toPS (cosCore s prec)) (comp cosC (toPS s)) := by
  set S := toPS s
  set ssq := mulTrunc s s prec
  have hssq : EqMod prec (toPS ssq) (S * S) := toPS_mulTrunc s s prec
  have inv : ∀ i, let st := (List.range i).foldl (cosBody ssq prec) (1, ssq, [1])
      st.1 = cosC (2 * i) ∧
      EqMod prec (toPS st.2.1) (S ^ (2 * i + 2)) ∧
      EqMod prec (toPS st.2.2) (psum cosC S (2 * i + 1)) := by
    intro i
    induction i with
    | zero =>
      simp only [List.range_zero, List.foldl_nil]
      refine ⟨by simp [cosC], ?_, ?_⟩
      · simpa [pow_two] using hssq
      · rw [psum_succ, psum_zero, toPS_one]
        simp [cosC, EqMod.refl]
    | succ i ih =>
      rw [foldl_range_succ]
      obtain ⟨h1, h2, h3⟩ := ih
      set st := (List.range i).foldl (cosBody ssq prec) (1, ssq, [1])
      have hprod : (cosBody ssq prec st i).1 = cosC (2 * (i + 1)) := by
        show st.1 / _ / _ = _
        rw [h1]; exact cos_prod_step i
      refine ⟨hprod, ?_, ?_⟩
      · show EqMod prec (toPS (mulTrunc st.2.1 ssq prec)) _
        refine (toPS_mulTrunc _ _ _).trans ?_
        have : S ^ (2 * (i + 1) + 2) = S ^ (2 * i + 2) * (S * S) := by ring
        rw [this]
        exact h2.mul hssq
      · show EqMod prec (toPS (padd st.2.2 (mulTrunc st.2.1 [_] prec))) _
        have e2 : 2 * (i + 1) + 1 = ((2 * i + 1) + 1) + 1 := by ring
        have e3 : 2 * i + 1 + 1 = 2 * (i + 1) := by ring
        rw [e2, psum_succ, psum_succ, cosC_odd, map_zero, zero_mul, add_zero, toPS_padd]
        apply h3.add
        refine (toPS_mulTrunc _ _ _).trans ?_
        rw [toPS_singleton, mul_comm, e3]
        have e4 : 2 * (i + 1) = 2 * i + 2 := by ring
        refine EqMod.mul (EqMod.of_eq (by rw [← hprod]; rfl)) ?_
        rw [e4]; exact h2
  have hfin := (inv (prec / 2)).2.2
  rw [cosCore_eq]
  refine hfin.trans ?_
  exact (eqMod_comp_psum cosC hS prec _ (by omega)).symm

theorem sin_spec (s g : Poly) (prec : ℕ) (h : seriesSin s prec = .ok g) :
    constantCoeff (toPS s) = 0 ∧ EqMod prec (toPS g) (comp sinC (toPS s)) := by
  unfold seriesSin at h
  split at h
  · cases h
  · next hc =>
    cases h
    have hc0 : Series.coeff s 0 = 0 := by simpa using hc
    have hS : constantCoeff (toPS s) = 0 := by rw [constantCoeff_toPS, hc0]
    exact ⟨hS, sinCore_spec s prec hS⟩

theorem cos_spec (s g : Poly) (prec : ℕ) (h : seriesCos s prec = .ok g) :
    constantCoeff (toPS s) = 0 ∧ EqMod prec (toPS g) (comp cosC (toPS s)) := by
  unfold seriesCos at h
  split at h
  · cases h
  · next hc =>
    cases h
    have hc0 : Series.coeff s 0 = 0 := by simpa using hc
    have hS : constantCoeff (toPS s) = 0 := by rw [constantCoeff_toPS, hc0]
    exact ⟨hS, cosCore_spec s prec hS⟩

end SymVerif.C31
