import SymVerif.Lemmas.C26Pred
/-!
Soundness of the predicate visitors on `ImmutableDenseMatrix`.
-/
namespace SymVerif.MatExpr
open MExpr

theorem ent_mem_or_zero (v : List GQ) (c i j : Nat) : ent v c i j ∈ v ∨ ent v c i j = 0 :=
  getD_mem_or_default v (i * c + j)

theorem exists_ij_of_mem {r c : Nat} {v : List GQ} (hlen : v.length = r * c) {x : GQ} (hx : x ∈ v) :
    ∃ i j, i < r ∧ j < c ∧ ent v c i j = x := by
  obtain ⟨k, hk, hkx⟩ := exists_idx_of_mem hx
  have hc : 0 < c := by
    rcases Nat.eq_zero_or_pos c with h | h
    · subst h; rw [Nat.mul_zero] at hlen; omega
    · exact h
  refine ⟨k / c, k % c, ?_, Nat.mod_lt _ hc, ?_⟩
  · rw [hlen] at hk
    exact Nat.div_lt_of_lt_mul (by rw [Nat.mul_comm]; exact hk)
  · unfold ent
    rw [Nat.div_add_mod' k c]; exact hkx

theorem diagOk_true {r c : Nat} {v : List GQ} {i0 j0 : Nat} (h : toeplitzDiagOk r c v i0 j0 = true)
    (k : Nat) (hi : i0 + 1 + k < r) (hj : j0 + 1 + k < c) :
    ent v c i0 j0 = ent v c (i0 + 1 + k) (j0 + 1 + k) := by
  simp only [toeplitzDiagOk, List.all_eq_true, List.mem_range, GQ.isZero_iff] at h
  exact sub_eq_zero.1 (h k (by omega))

theorem diagOk_false {r c : Nat} {v : List GQ} {i0 j0 : Nat} (h : toeplitzDiagOk r c v i0 j0 = false) :
    ¬ (Val.mk r c (fun i j => ent v c i j)).IsToeplitz := by
  intro ht
  have : ¬ (toeplitzDiagOk r c v i0 j0 = true) := by simp [h]
  apply this
  simp only [toeplitzDiagOk, List.all_eq_true, List.mem_range, GQ.isZero_iff]
  intro k hk
  have := toeplitz_diag ht i0 j0 (k + 1) (by simp; omega) (by simp; omega)
  simp only at this
  rw [sub_eq_zero, this]
  congr 1 <;> omega

theorem toeplitzDense_true {r c : Nat} {v : List GQ} (h : toeplitzDense r c v = true) :
    (Val.mk r c (fun i j => ent v c i j)).IsToeplitz := by
  simp only [toeplitzDense, List.all_eq_true, List.mem_range, Bool.and_eq_true] at h
  intro i j hi hj
  simp only at hi hj ⊢
  by_cases hij : i ≤ j
  · -- diagonal starting in the first row at column w = j - i
    have hw := (h (j - i) (by omega)).1
    rw [if_pos (by omega)] at hw
    have e2 := diagOk_true hw i (by omega) (by omega)
    have a1 : 0 + 1 + i = i + 1 := by omega
    have a2 : j - i + 1 + i = j + 1 := by omega
    rw [a1, a2] at e2
    rcases Nat.eq_zero_or_pos i with hi0 | hi0
    · subst hi0; simpa using e2
    · have e1 := diagOk_true hw (i - 1) (by omega) (by omega)
      have b1 : 0 + 1 + (i - 1) = i := by omega
      have b2 : j - i + 1 + (i - 1) = j := by omega
      rw [b1, b2] at e1
      rw [← e1, e2]
  · have hw := (h (i - j) (by omega)).2
    rw [if_pos (by omega)] at hw
    have e2 := diagOk_true hw j (by omega) (by omega)
    have a1 : i - j + 1 + j = i + 1 := by omega
    have a2 : 0 + 1 + j = j + 1 := by omega
    rw [a1, a2] at e2
    rcases Nat.eq_zero_or_pos j with hj0 | hj0
    · subst hj0; simpa using e2
    · have e1 := diagOk_true hw (j - 1) (by omega) (by omega)
      have b1 : i - j + 1 + (j - 1) = i := by omega
      have b2 : 0 + 1 + (j - 1) = j := by omega
      rw [b1, b2] at e1
      rw [← e1, e2]

theorem toeplitzDense_false {r c : Nat} {v : List GQ} (h : toeplitzDense r c v = false) :
    ¬ (Val.mk r c (fun i j => ent v c i j)).IsToeplitz := by
  have h' : ¬ (toeplitzDense r c v = true) := by simp [h]
  simp only [toeplitzDense, List.all_eq_true, List.mem_range, Bool.and_eq_true, not_forall] at h'
  obtain ⟨w, _, hw⟩ := h'
  rw [not_and_or] at hw
  rcases hw with hw | hw
  · split at hw
    · exact diagOk_false (by simpa using hw)
    · simp at hw
  · split at hw
    · exact diagOk_false (by simpa using hw)
    · simp at hw

theorem sound_dense (env : Env) (p : Pred) (r c : Nat) (v : List GQ) (hlen : v.length = r * c) :
    Sound env p (dense r c v) := by
  constructor
  · intro h
    cases p <;> simp only [evalPred, leafPred, Tri.ofBool_t] at h <;>
      simp only [valOf, Val.Holds, Val.IsZero, Val.IsDiagonal, Val.IsSymmetric, Val.IsLower,
        Val.IsUpper, Val.IsReal, Val.IsSquare, Val.IsToeplitz]
    · simp only [List.all_eq_true, GQ.isZero_iff] at h
      intro i j _ _
      rcases ent_mem_or_zero v c i j with hm | hm
      · exact h _ hm
      · exact hm
    · simp only [Bool.and_eq_true, beq_iff_eq, List.all_eq_true, List.mem_range] at h
      obtain ⟨hrc, h⟩ := h
      refine ⟨hrc, fun i j hi hj hij => ?_⟩
      have := h i (by omega) j hj
      rw [if_neg (by omega)] at this
      simpa using this
    · simp only [Bool.and_eq_true, beq_iff_eq, List.all_eq_true, List.mem_range, GQ.isZero_iff] at h
      obtain ⟨hrc, h⟩ := h
      refine ⟨hrc, fun i j hi hj => ?_⟩
      rcases Nat.lt_trichotomy i j with hij | hij | hij
      · exact (sub_eq_zero.1 (h j hj i hij)).symm
      · rw [hij]
      · exact sub_eq_zero.1 (h i (by omega) j hij)
    · simp only [Bool.and_eq_true, beq_iff_eq, List.all_eq_true, List.mem_range] at h
      obtain ⟨hrc, h⟩ := h
      refine ⟨hrc, fun i j hi hj hij => ?_⟩
      have := h i hi j (by omega)
      rw [if_pos hij] at this
      simpa using this
    · simp only [Bool.and_eq_true, beq_iff_eq, List.all_eq_true, List.mem_range, GQ.isZero_iff] at h
      obtain ⟨hrc, h⟩ := h
      exact ⟨hrc, fun i j hi hj hij => h i hi j hij⟩
    · simp only [List.all_eq_true] at h
      intro i j _ _
      rcases ent_mem_or_zero v c i j with hm | hm
      · simpa [GQ.isReal] using h _ hm
      · rw [hm]; rfl
    · simpa using h
    · exact toeplitzDense_true h
  · intro h
    cases p <;> simp only [evalPred, leafPred, Tri.ofBool_f] at h <;>
      simp only [valOf, Val.Holds, Val.IsZero, Val.IsDiagonal, Val.IsSymmetric, Val.IsLower,
        Val.IsUpper, Val.IsReal, Val.IsSquare]
    · -- zero
      have h' : ¬ (v.all GQ.isZero = true) := by simp [h]
      simp only [List.all_eq_true, GQ.isZero_iff, not_forall] at h'
      obtain ⟨x, hx, hx0⟩ := h'
      obtain ⟨i, j, hi, hj, hij⟩ := exists_ij_of_mem hlen hx
      intro hz
      exact hx0 (hij ▸ hz i j hi hj)
    · -- diagonal
      intro hd
      have h' : ¬ ((r == c && (List.range c).all fun i => (List.range c).all fun j =>
          if j = i then true else (ent v c i j).isZero) = true) := by rw [h]; exact Bool.false_ne_true
      apply h'
      simp only [Bool.and_eq_true, beq_iff_eq, List.all_eq_true, List.mem_range]
      refine ⟨hd.1, fun i hi j hj => ?_⟩
      split
      · rfl
      · have := hd.2 i j (by have := hd.1; omega) hj (by omega)
        simpa using this
    · -- symmetric
      intro hd
      have h' : ¬ ((r == c && (List.range c).all fun i => (List.range i).all fun j =>
          ((ent v c i j - ent v c j i : GQ)).isZero) = true) := by rw [h]; exact Bool.false_ne_true
      apply h'
      simp only [Bool.and_eq_true, beq_iff_eq, List.all_eq_true, List.mem_range, GQ.isZero_iff]
      refine ⟨hd.1, fun i hi j hj => ?_⟩
      have := hd.2 i j (by have := hd.1; omega) (by omega)
      rw [this]; ring
    · -- lower
      intro hd
      have h' : ¬ ((r == c && (List.range r).all fun i => (List.range r).all fun j =>
          if i < j then (ent v c i j).isZero else true) = true) := by rw [h]; exact Bool.false_ne_true
      apply h'
      simp only [Bool.and_eq_true, beq_iff_eq, List.all_eq_true, List.mem_range]
      refine ⟨hd.1, fun i hi j hj => ?_⟩
      split
      · have := hd.2 i j hi (by have := hd.1; omega) (by assumption)
        simpa using this
      · rfl
    · -- upper
      intro hd
      have h' : ¬ ((r == c && (List.range r).all fun i => (List.range i).all fun j =>
          (ent v c i j).isZero) = true) := by rw [h]; exact Bool.false_ne_true
      apply h'
      simp only [Bool.and_eq_true, beq_iff_eq, List.all_eq_true, List.mem_range, GQ.isZero_iff]
      refine ⟨hd.1, fun i hi j hj => ?_⟩
      exact hd.2 i j hi (by have := hd.1; omega) hj
    · -- real
      have h' : ¬ (v.all GQ.isReal = true) := by simp [h]
      simp only [List.all_eq_true, not_forall] at h'
      obtain ⟨x, hx, hx0⟩ := h'
      obtain ⟨i, j, hi, hj, hij⟩ := exists_ij_of_mem hlen hx
      intro hz
      apply hx0
      have := hz i j hi hj
      rw [hij] at this
      simp [GQ.isReal, this]
    · -- square
      simpa using h
    · exact toeplitzDense_false h

end SymVerif.MatExpr
