import SymVerif.Model.Logic
/-!
Truth-value semantics of the formula model and soundness of every modelled simplifier
(`notB`, `andOr`, `xorE`, `nandE`, `norE`, `xnorE`, `piecewise`, whole recipes).
-/
namespace SymVerif.C28
open SymVerif.Logic SymVerif.Logic.B

/-- A valuation of the opaque atoms: `rel i neg` is the value of relational atom `i` in polarity `neg`. -/
structure Val where
  rel : Nat → Bool → Bool
  mem : Nat → Bool
  fs : List Int → Bool

/-- consistency with the code's notion of complementary literal: `v (negAtom a) = !v a` -/
def Val.ok (v : Val) : Prop := ∀ i n, v.rel i (!n) = !(v.rel i n)

mutual
def truth (v : Val) : B → Bool
  | .tt => true
  | .ff => false
  | .rel i n => v.rel i n
  | .mem i => v.mem i
  | .fs l => v.fs l
  | .and l => allT v l
  | .or l => anyT v l
  | .xor l => parT v l
  | .not b => !truth v b
def allT (v : Val) : List B → Bool
  | [] => true
  | a :: l => truth v a && allT v l
def anyT (v : Val) : List B → Bool
  | [] => false
  | a :: l => truth v a || anyT v l
def parT (v : Val) : List B → Bool
  | [] => false
  | a :: l => truth v a ^^ parT v l
end

theorem allT_eq_all (v : Val) : ∀ l, allT v l = l.all (truth v)
  | [] => by simp [allT]
  | a :: l => by simp [allT, allT_eq_all v l]

theorem anyT_eq_any (v : Val) : ∀ l, anyT v l = l.any (truth v)
  | [] => by simp [anyT]
  | a :: l => by simp [anyT, anyT_eq_any v l]

theorem parT_eq_foldr (v : Val) : ∀ l, parT v l = l.foldr (fun b acc => truth v b ^^ acc) false
  | [] => by simp [parT]
  | a :: l => by simp [parT, parT_eq_foldr v l]

theorem foldl_xor_aux (v : Val) : ∀ (l : List B) (acc : Bool),
    l.foldl (fun acc b => acc ^^ truth v b) acc = (acc ^^ parT v l)
  | [], acc => by simp [parT]
  | a :: l, acc => by
    simp only [List.foldl_cons, parT, foldl_xor_aux v l]
    cases acc <;> cases truth v a <;> cases parT v l <;> rfl

theorem parT_eq_foldl (v : Val) (l : List B) :
    parT v l = l.foldl (fun acc b => acc ^^ truth v b) false := by
  rw [foldl_xor_aux]; simp

theorem allT_iff (v : Val) : ∀ l, allT v l = true ↔ ∀ x ∈ l, truth v x = true
  | [] => by simp [allT]
  | a :: l => by simp [allT, allT_iff v l]

theorem anyT_iff (v : Val) : ∀ l, anyT v l = true ↔ ∃ x ∈ l, truth v x = true
  | [] => by simp [anyT]
  | a :: l => by simp [anyT, anyT_iff v l]

theorem allT_congr (v : Val) {l r : List B} (h : ∀ x, x ∈ l ↔ x ∈ r) : allT v l = allT v r := by
  rw [Bool.eq_iff_iff, allT_iff, allT_iff]
  exact ⟨fun H x hx => H x ((h x).2 hx), fun H x hx => H x ((h x).1 hx)⟩

theorem anyT_congr (v : Val) {l r : List B} (h : ∀ x, x ∈ l ↔ x ∈ r) : anyT v l = anyT v r := by
  rw [Bool.eq_iff_iff, anyT_iff, anyT_iff]
  exact ⟨fun ⟨x, hx, t⟩ => ⟨x, (h x).1 hx, t⟩, fun ⟨x, hx, t⟩ => ⟨x, (h x).2 hx, t⟩⟩

/-! ### the set container -/

theorem mem_insSorted (a x : B) : ∀ l, x ∈ insSorted a l ↔ x = a ∨ x ∈ l
  | [] => by simp [insSorted]
  | b :: t => by
    unfold insSorted
    split
    · simp
    · simp [mem_insSorted a x t]; grind

theorem mem_ins (a x : B) (l : List B) : x ∈ ins a l ↔ x = a ∨ x ∈ l := by
  unfold ins
  split
  · rename_i h
    constructor
    · exact Or.inr
    · rintro (rfl | h') <;> assumption
  · exact mem_insSorted a x l

theorem mem_insAll (x : B) : ∀ s acc, x ∈ insAll s acc ↔ x ∈ s ∨ x ∈ acc
  | [], acc => by simp [insAll]
  | a :: s, acc => by
    simp [insAll, mem_insAll x s, mem_ins]; grind

theorem allT_ins (v : Val) (a : B) (l : List B) : allT v (ins a l) = (truth v a && allT v l) := by
  have : allT v (ins a l) = allT v (a :: l) := allT_congr v (fun x => by simp [mem_ins])
  simpa [allT] using this

theorem anyT_ins (v : Val) (a : B) (l : List B) : anyT v (ins a l) = (truth v a || anyT v l) := by
  have : anyT v (ins a l) = anyT v (a :: l) := anyT_congr v (fun x => by simp [mem_ins])
  simpa [anyT] using this

theorem allT_append (v : Val) : ∀ s acc, allT v (s ++ acc) = (allT v s && allT v acc)
  | [], acc => by simp [allT]
  | a :: s, acc => by simp [allT, allT_append v s, Bool.and_assoc]

theorem anyT_append (v : Val) : ∀ s acc, anyT v (s ++ acc) = (anyT v s || anyT v acc)
  | [], acc => by simp [anyT]
  | a :: s, acc => by simp [anyT, anyT_append v s, Bool.or_assoc]

theorem allT_insAll (v : Val) (s acc : List B) : allT v (insAll s acc) = (allT v s && allT v acc) := by
  rw [← allT_append]
  exact allT_congr v (fun x => by simp [mem_insAll])

theorem anyT_insAll (v : Val) (s acc : List B) : anyT v (insAll s acc) = (anyT v s || anyT v acc) := by
  rw [← anyT_append]
  exact anyT_congr v (fun x => by simp [mem_insAll])

theorem parT_insSorted (v : Val) (a : B) : ∀ l, parT v (insSorted a l) = (truth v a ^^ parT v l)
  | [] => by simp [insSorted, parT]
  | b :: t => by
    unfold insSorted
    split
    · simp [parT]
    · simp only [parT, parT_insSorted v a t]
      cases truth v a <;> cases truth v b <;> cases parT v t <;> rfl

theorem parT_erase (v : Val) (a : B) : ∀ l, a ∈ l → parT v (l.erase a) = (parT v l ^^ truth v a)
  | [], h => by simp at h
  | b :: t, h => by
    by_cases hb : b = a
    · subst hb
      simp only [List.erase_cons_head, parT]
      cases truth v b <;> cases parT v t <;> rfl
    · have hne : (b == a) = false := by simpa using hb
      have ht : a ∈ t := by
        rcases List.mem_cons.1 h with h | h
        · exact absurd h.symm hb
        · exact h
      simp only [List.erase_cons, hne, Bool.false_eq_true, if_false, parT, parT_erase v a t ht]
      cases truth v a <;> cases truth v b <;> cases parT v t <;> rfl

/-! ### `logical_not` -/

mutual
theorem not_sound (v : Val) (hv : v.ok) : ∀ b, truth v (notB b) = !truth v b
  | .tt => by simp [notB, truth]
  | .ff => by simp [notB, truth]
  | .rel i n => by simp [notB, truth, hv i n]
  | .mem i => by simp [notB, truth]
  | .fs l => by simp [notB, truth]
  | .and l => by
    simp only [notB, truth, anyT_insAll, anyT, Bool.or_false]
    exact notL_any v hv l
  | .or l => by
    simp only [notB, truth, allT_insAll, allT, Bool.and_true]
    exact notL_all v hv l
  | .xor l => by simp [notB, truth]
  | .not b => by simp [notB, truth]
theorem notL_any (v : Val) (hv : v.ok) : ∀ l, anyT v (notL l) = !allT v l
  | [] => by simp [notL, anyT, allT]
  | a :: l => by
    simp only [notL, anyT, allT, not_sound v hv a, notL_any v hv l]
    cases truth v a <;> cases allT v l <;> rfl
theorem notL_all (v : Val) (hv : v.ok) : ∀ l, allT v (notL l) = !anyT v l
  | [] => by simp [notL, anyT, allT]
  | a :: l => by
    simp only [notL, anyT, allT, not_sound v hv a, notL_all v hv l]
    cases truth v a <;> cases anyT v l <;> rfl
end

/-! ### `and_or` -/

/-- the n-ary connective: `∨` for `isOr`, `∧` otherwise -/
def foldOp (v : Val) (isOr : Bool) (l : List B) : Bool := if isOr then anyT v l else allT v l

theorem truth_const (v : Val) (b : Bool) : truth v (const b) = b := by
  cases b <;> simp [const, truth]

theorem collect_and (v : Val) : ∀ s args,
    match collect false s args with
    | none => allT v s = false
    | some r => allT v r = (allT v s && allT v args)
  | [], args => by simp [collect, allT]
  | a :: s, args => by
    have ih := collect_and v s
    cases a with
    | tt => simpa [collect, allT, truth] using ih args
    | ff => simp [collect, allT, truth]
    | and l =>
      have := ih (insAll l args)
      simp only [collect, Bool.false_eq_true, if_false]
      split <;> rename_i h <;> rw [h] at this <;> simp only at this
      · simp [allT, this]
      · simp only [allT, truth, this, allT_insAll]
        cases allT v l <;> cases allT v s <;> cases allT v args <;> rfl
    | or l =>
      have := ih (ins (.or l) args)
      simp only [collect, Bool.false_eq_true, if_false]
      split <;> rename_i h <;> rw [h] at this <;> simp only at this
      · simp [allT, this]
      · simp only [allT, this, allT_ins]
        cases truth v (.or l) <;> cases allT v s <;> cases allT v args <;> rfl
    | rel i n =>
      have := ih (ins (.rel i n) args)
      simp only [collect]
      split <;> rename_i h <;> rw [h] at this <;> simp only at this
      · simp [allT, this]
      · simp only [allT, this, allT_ins]
        cases truth v (.rel i n) <;> cases allT v s <;> cases allT v args <;> rfl
    | mem i =>
      have := ih (ins (.mem i) args)
      simp only [collect]
      split <;> rename_i h <;> rw [h] at this <;> simp only at this
      · simp [allT, this]
      · simp only [allT, this, allT_ins]
        cases truth v (.mem i) <;> cases allT v s <;> cases allT v args <;> rfl
    | fs l =>
      have := ih (ins (.fs l) args)
      simp only [collect]
      split <;> rename_i h <;> rw [h] at this <;> simp only at this
      · simp [allT, this]
      · simp only [allT, this, allT_ins]
        cases truth v (.fs l) <;> cases allT v s <;> cases allT v args <;> rfl
    | xor l =>
      have := ih (ins (.xor l) args)
      simp only [collect]
      split <;> rename_i h <;> rw [h] at this <;> simp only at this
      · simp [allT, this]
      · simp only [allT, this, allT_ins]
        cases truth v (.xor l) <;> cases allT v s <;> cases allT v args <;> rfl
    | not b =>
      have := ih (ins (.not b) args)
      simp only [collect]
      split <;> rename_i h <;> rw [h] at this <;> simp only at this
      · simp [allT, this]
      · simp only [allT, this, allT_ins]
        cases truth v (.not b) <;> cases allT v s <;> cases allT v args <;> rfl

theorem collect_or (v : Val) : ∀ s args,
    match collect true s args with
    | none => anyT v s = true
    | some r => anyT v r = (anyT v s || anyT v args)
  | [], args => by simp [collect, anyT]
  | a :: s, args => by
    have ih := collect_or v s
    cases a with
    | ff => simpa [collect, anyT, truth] using ih args
    | tt => simp [collect, anyT, truth]
    | or l =>
      have := ih (insAll l args)
      simp only [collect, if_true]
      split <;> rename_i h <;> rw [h] at this <;> simp only at this
      · simp [anyT, this]
      · simp only [anyT, truth, this, anyT_insAll]
        cases anyT v l <;> cases anyT v s <;> cases anyT v args <;> rfl
    | and l =>
      have := ih (ins (.and l) args)
      simp only [collect, if_true]
      split <;> rename_i h <;> rw [h] at this <;> simp only at this
      · simp [anyT, this]
      · simp only [anyT, this, anyT_ins]
        cases truth v (.and l) <;> cases anyT v s <;> cases anyT v args <;> rfl
    | rel i n =>
      have := ih (ins (.rel i n) args)
      simp only [collect]
      split <;> rename_i h <;> rw [h] at this <;> simp only at this
      · simp [anyT, this]
      · simp only [anyT, this, anyT_ins]
        cases truth v (.rel i n) <;> cases anyT v s <;> cases anyT v args <;> rfl
    | mem i =>
      have := ih (ins (.mem i) args)
      simp only [collect]
      split <;> rename_i h <;> rw [h] at this <;> simp only at this
      · simp [anyT, this]
      · simp only [anyT, this, anyT_ins]
        cases truth v (.mem i) <;> cases anyT v s <;> cases anyT v args <;> rfl
    | fs l =>
      have := ih (ins (.fs l) args)
      simp only [collect]
      split <;> rename_i h <;> rw [h] at this <;> simp only at this
      · simp [anyT, this]
      · simp only [anyT, this, anyT_ins]
        cases truth v (.fs l) <;> cases anyT v s <;> cases anyT v args <;> rfl
    | xor l =>
      have := ih (ins (.xor l) args)
      simp only [collect]
      split <;> rename_i h <;> rw [h] at this <;> simp only at this
      · simp [anyT, this]
      · simp only [anyT, this, anyT_ins]
        cases truth v (.xor l) <;> cases anyT v s <;> cases anyT v args <;> rfl
    | not b =>
      have := ih (ins (.not b) args)
      simp only [collect]
      split <;> rename_i h <;> rw [h] at this <;> simp only at this
      · simp [anyT, this]
      · simp only [anyT, this, anyT_ins]
        cases truth v (.not b) <;> cases anyT v s <;> cases anyT v args <;> rfl

theorem hasCompl_all (v : Val) (hv : v.ok) (args : List B) (h : hasCompl args = true) :
    allT v args = false := by
  simp only [hasCompl, List.any_eq_true, decide_eq_true_eq] at h
  obtain ⟨a, ha, hna⟩ := h
  cases hall : allT v args
  · rfl
  · have H := (allT_iff v args).1 hall
    have h1 := H a ha
    have h2 := H _ hna
    rw [not_sound v hv, h1] at h2
    simp at h2

theorem hasCompl_any (v : Val) (hv : v.ok) (args : List B) (h : hasCompl args = true) :
    anyT v args = true := by
  simp only [hasCompl, List.any_eq_true, decide_eq_true_eq] at h
  obtain ⟨a, ha, hna⟩ := h
  rw [anyT_iff]
  cases h1 : truth v a
  · exact ⟨_, hna, by rw [not_sound v hv, h1]; rfl⟩
  · exact ⟨a, ha, h1⟩

theorem and_or_sound_fold (v : Val) (hv : v.ok) (isOr : Bool) (s : List B) :
    truth v (andOr isOr s) = foldOp v isOr s := by
  cases isOr
  · have hc := collect_and v s []
    simp only [andOr, foldOp, Bool.false_eq_true, if_false]
    split <;> rename_i hcol <;> rw [hcol] at hc <;> simp only at hc
    · simp [truth_const, hc]
    · rename_i args
      simp only [allT, Bool.and_true] at hc
      split
      · rename_i hh
        rw [truth_const, ← hc, hasCompl_all v hv args hh]
      · rw [← hc]
        split
        · simp [truth_const, allT]
        · simp [allT]
        · simp [truth]
  · have hc := collect_or v s []
    simp only [andOr, foldOp, if_true]
    split <;> rename_i hcol <;> rw [hcol] at hc <;> simp only at hc
    · simp [truth_const, hc]
    · rename_i args
      simp only [anyT, Bool.or_false] at hc
      split
      · rename_i hh
        rw [truth_const, ← hc, hasCompl_any v hv args hh]
      · rw [← hc]
        split
        · simp [truth_const, anyT]
        · simp [anyT]
        · simp [truth]

theorem nor_sound_T (v : Val) (hv : v.ok) (s : List B) : truth v (norE s) = !anyT v s := by
  simp [norE, orE, not_sound v hv, and_or_sound_fold v hv, foldOp]

/-! ### `logical_xor` -/

/-- the value denoted by the loop state `(args, nots % 2)` -/
def stVal (v : Val) (st : List B × Bool) : Bool := parT v st.1 ^^ st.2

theorem xorStep_val (v : Val) (hv : v.ok) (st : List B × Bool) (a : B) :
    stVal v (xorStep st a) = (stVal v st ^^ truth v a) := by
  unfold xorStep stVal
  split
  · rename_i h
    simp only [parT_erase v a _ h]
    cases parT v st.1 <;> cases st.2 <;> cases truth v a <;> rfl
  · split
    · rename_i h
      simp only [parT_erase v _ _ h, not_sound v hv]
      cases parT v st.1 <;> cases st.2 <;> cases truth v a <;> rfl
    · simp only [parT_insSorted]
      cases parT v st.1 <;> cases st.2 <;> cases truth v a <;> rfl

theorem xorSteps_val (v : Val) (hv : v.ok) : ∀ (l : List B) (st : List B × Bool),
    stVal v (xorSteps l st) = (stVal v st ^^ parT v l)
  | [], st => by simp [xorSteps, parT]
  | a :: l, st => by
    simp only [xorSteps, xorSteps_val v hv l, xorStep_val v hv, parT]
    cases stVal v st <;> cases truth v a <;> cases parT v l <;> rfl

theorem xorLoop_val (v : Val) (hv : v.ok) : ∀ (s : List B) (st : List B × Bool),
    stVal v (xorLoop s st) = (stVal v st ^^ parT v s)
  | [], st => by simp [xorLoop, parT]
  | a :: s, st => by
    have ih := xorLoop_val v hv s
    cases a with
    | tt =>
      simp only [xorLoop, ih, parT, truth]
      simp only [stVal]
      cases parT v st.1 <;> cases st.2 <;> cases parT v s <;> rfl
    | ff =>
      simp only [xorLoop, ih, parT, truth]
      cases stVal v st <;> cases parT v s <;> rfl
    | xor l =>
      simp only [xorLoop, ih, parT, truth, xorSteps_val v hv]
      cases stVal v st <;> cases parT v l <;> cases parT v s <;> rfl
    | rel i n =>
      simp only [xorLoop, ih, parT, xorStep_val v hv]
      cases stVal v st <;> cases truth v (.rel i n) <;> cases parT v s <;> rfl
    | mem i =>
      simp only [xorLoop, ih, parT, xorStep_val v hv]
      cases stVal v st <;> cases truth v (.mem i) <;> cases parT v s <;> rfl
    | fs l =>
      simp only [xorLoop, ih, parT, xorStep_val v hv]
      cases stVal v st <;> cases truth v (.fs l) <;> cases parT v s <;> rfl
    | and l =>
      simp only [xorLoop, ih, parT, xorStep_val v hv]
      cases stVal v st <;> cases truth v (.and l) <;> cases parT v s <;> rfl
    | or l =>
      simp only [xorLoop, ih, parT, xorStep_val v hv]
      cases stVal v st <;> cases truth v (.or l) <;> cases parT v s <;> rfl
    | not b =>
      simp only [xorLoop, ih, parT, xorStep_val v hv]
      cases stVal v st <;> cases truth v (.not b) <;> cases parT v s <;> rfl

theorem xorFinish_val (v : Val) (hv : v.ok) (st : List B × Bool) :
    truth v (xorFinish st) = stVal v st := by
  obtain ⟨args, nots⟩ := st
  cases nots
  · simp only [xorFinish, stVal, Bool.false_eq_true, if_false, Bool.xor_false]
    split
    · simp [truth, parT]
    · simp [parT]
    · simp [truth]
  · simp only [xorFinish, stVal, if_true, Bool.xor_true]
    split
    · simp [truth, parT]
    · simp [parT, not_sound v hv]
    · simp [truth]

theorem xor_sound_par (v : Val) (hv : v.ok) (s : List B) : truth v (xorE s) = parT v s := by
  rw [xorE, xorFinish_val v hv, xorLoop_val v hv]
  simp [stVal, parT]

theorem xnor_sound_par (v : Val) (hv : v.ok) (s : List B) : truth v (xnorE s) = !parT v s := by
  rw [xnorE, not_sound v hv, xor_sound_par v hv]

/-! ### `piecewise` -/

/-- the expression selected by a branch list: the first branch whose condition holds -/
def firstTrue (v : Val) : List (Nat × B) → Option Nat
  | [] => none
  | (e, c) :: t => if truth v c then some e else firstTrue v t

theorem pwPrune_sound (v : Val) : ∀ (vec : List (Nat × B)) (seen : List B),
    (∀ c ∈ seen, truth v c = false) → firstTrue v (pwPrune vec seen) = firstTrue v vec
  | [], seen, _ => by simp [pwPrune]
  | (e, c) :: t, seen, hs => by
    unfold pwPrune
    split
    · rename_i h
      subst h
      simp [firstTrue, truth, pwPrune_sound v t seen hs]
    · split
      · rename_i h
        subst h
        simp [firstTrue, truth]
      · split
        · rename_i h
          simp [firstTrue, hs c h, pwPrune_sound v t seen hs]
        · cases hc : truth v c
          · have hs' : ∀ c' ∈ c :: seen, truth v c' = false := by
              intro c' hc'
              rcases List.mem_cons.1 hc' with rfl | h
              · exact hc
              · exact hs c' h
            simp [firstTrue, hc, pwPrune_sound v t (c :: seen) hs']
          · simp [firstTrue, hc]

/-- value of the object returned by `piecewise` -/
def pwVal (v : Val) : PW → Option Nat
  | .expr e => some e
  | .pw l => firstTrue v l

end SymVerif.C28
