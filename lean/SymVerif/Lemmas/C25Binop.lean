import SymVerif.Lemmas.C25FromCoo
/-!
C25 — `csr_binop_csr_canonical`: the row-wise merge of two canonical matrices.
-/
namespace SymVerif.C25
open SymVerif.CSR Finset

theorem push_get! {α : Type} [Inhabited α] (a : Array α) (v : α) (k : Nat) (hk : k ≤ a.size) :
    (a.push v)[k]! = if k < a.size then a[k]! else v := by
  grind

/-- effect of `pushNZ` on the row under construction (which starts at position `s0`) -/
theorem pushNZ_spec (cj : Array Nat) (cx : Array Q) (m : Nat) (r : Q) (s0 : Nat)
    (hs : cj.size = cx.size) (h0 : s0 ≤ cj.size) (hsorted : SortedOn cj s0 cj.size)
    (hlt : ∀ k, s0 ≤ k → k < cj.size → cj[k]! < m) :
    (pushNZ cj cx m r).1.size = (pushNZ cj cx m r).2.size ∧
    cj.size ≤ (pushNZ cj cx m r).1.size ∧
    (∀ k, k < cj.size → (pushNZ cj cx m r).1[k]! = cj[k]! ∧ (pushNZ cj cx m r).2[k]! = cx[k]!) ∧
    SortedOn (pushNZ cj cx m r).1 s0 (pushNZ cj cx m r).1.size ∧
    (∀ k, cj.size ≤ k → k < (pushNZ cj cx m r).1.size → (pushNZ cj cx m r).1[k]! = m) ∧
    ∀ c, ∑ k ∈ Ico s0 (pushNZ cj cx m r).1.size, cellOf (pushNZ cj cx m r).1 (pushNZ cj cx m r).2 c k
       = ∑ k ∈ Ico s0 cj.size, cellOf cj cx c k + (if m = c then r else 0) := by
  by_cases hr : r = 0
  · have hp : pushNZ cj cx m r = (cj, cx) := by simp [pushNZ, hr]
    rw [hp]
    refine ⟨hs, Nat.le_refl _, fun _ _ => ⟨rfl, rfl⟩, hsorted, fun k a b => ?_, fun c => ?_⟩
    · exact absurd b (by show ¬ k < cj.size; omega)
    · subst hr; simp
  · have hp : pushNZ cj cx m r = (cj.push m, cx.push r) := by simp [pushNZ, hr]
    rw [hp]
    dsimp only
    have e1 : (cj.push m).size = cj.size + 1 := by simp
    have e2 : (cx.push r).size = cx.size + 1 := by simp
    refine ⟨by omega, by omega, ?_, ?_, ?_, ?_⟩
    · intro k hk
      rw [push_get! cj m k (by omega), push_get! cx r k (by omega), if_pos hk, if_pos (by omega)]
      exact ⟨rfl, rfl⟩
    · intro a b ha hab hb
      rw [e1] at hb
      rw [push_get! cj m a (by omega), push_get! cj m b (by omega), if_pos (by omega)]
      by_cases hbl : b < cj.size
      · rw [if_pos hbl]; exact hsorted a b ha hab hbl
      · rw [if_neg hbl]; exact hlt a ha (by omega)
    · intro k hk1 hk2
      rw [e1] at hk2
      rw [push_get! cj m k (by omega), if_neg (by omega)]
    · intro c
      rw [e1, Finset.sum_Ico_succ_top h0]
      congr 1
      · apply sum_Ico_congr
        intro k _ hk
        unfold cellOf
        rw [push_get! cj m k (by omega), push_get! cx r k (by omega), if_pos hk,
            if_pos (show k < cx.size by omega)]
      · unfold cellOf
        rw [push_get! cj m cj.size (Nat.le_refl _), push_get! cx r cj.size (by omega),
            if_neg (show ¬ cj.size < cj.size by omega), if_neg (show ¬ cj.size < cx.size by omega)]

theorem sum_peel (j : Array Nat) (x : Array Q) (a aEnd c : Nat) (h : a < aEnd) :
    ∑ k ∈ Ico a aEnd, cellOf j x c k
      = (if j[a]! = c then x[a]! else 0) + ∑ k ∈ Ico (a + 1) aEnd, cellOf j x c k := by
  rw [Finset.sum_eq_sum_Ico_succ_bot h]
  rfl

theorem mergeRow_spec (op : Q → Q → Q) (hop : op 0 0 = 0) (A B : Mat) (aEnd bEnd col s0 : Nat)
    (hAj : aEnd ≤ A.j.size) (hAx : aEnd ≤ A.x.size) (hBj : bEnd ≤ B.j.size) (hBx : bEnd ≤ B.x.size) :
    ∀ f a b (cj : Array Nat) (cx : Array Q), (aEnd - a) + (bEnd - b) < f → a ≤ aEnd → b ≤ bEnd →
      SortedOn A.j a aEnd → SortedOn B.j b bEnd →
      (∀ k, a ≤ k → k < aEnd → A.j[k]! < col) → (∀ k, b ≤ k → k < bEnd → B.j[k]! < col) →
      cj.size = cx.size → s0 ≤ cj.size → SortedOn cj s0 cj.size →
      (∀ k a', s0 ≤ k → k < cj.size → a ≤ a' → a' < aEnd → cj[k]! < A.j[a']!) →
      (∀ k b', s0 ≤ k → k < cj.size → b ≤ b' → b' < bEnd → cj[k]! < B.j[b']!) →
      ∃ cj' cx', mergeRow op A B aEnd bEnd f a b cj cx = .ok (cj', cx') ∧ cj'.size = cx'.size ∧
        cj.size ≤ cj'.size ∧ (∀ k, k < cj.size → cj'[k]! = cj[k]! ∧ cx'[k]! = cx[k]!) ∧
        SortedOn cj' s0 cj'.size ∧ (∀ k, cj.size ≤ k → k < cj'.size → cj'[k]! < col) ∧
        ∀ c, ∑ k ∈ Ico s0 cj'.size, cellOf cj' cx' c k
           = ∑ k ∈ Ico s0 cj.size, cellOf cj cx c k
             + op (∑ k ∈ Ico a aEnd, cellOf A.j A.x c k) (∑ k ∈ Ico b bEnd, cellOf B.j B.x c k) := by
  intro f
  induction f with
  | zero => intro a b cj cx h; omega
  | succ f ih =>
    intro a b cj cx hf ha hb hsA hsB hcA hcB hsz h0 hsC hxA hxB
    -- one generic step: emit column `m` with value `op u w` and continue at `(a', b')`
    have step : ∀ (m : Nat) (u w : Q) (a' b' : Nat), (aEnd - a') + (bEnd - b') < f →
        a ≤ a' → a' ≤ aEnd → b ≤ b' → b' ≤ bEnd → m < col →
        (∀ k, a' ≤ k → k < aEnd → m < A.j[k]!) → (∀ k, b' ≤ k → k < bEnd → m < B.j[k]!) →
        (∀ k, s0 ≤ k → k < cj.size → cj[k]! < m) →
        (∀ c, ∑ k ∈ Ico a aEnd, cellOf A.j A.x c k
            = (if m = c then u else 0) + ∑ k ∈ Ico a' aEnd, cellOf A.j A.x c k) →
        (∀ c, ∑ k ∈ Ico b bEnd, cellOf B.j B.x c k
            = (if m = c then w else 0) + ∑ k ∈ Ico b' bEnd, cellOf B.j B.x c k) →
        ∃ cj' cx', mergeRow op A B aEnd bEnd f a' b' (pushNZ cj cx m (op u w)).1
            (pushNZ cj cx m (op u w)).2 = .ok (cj', cx') ∧ cj'.size = cx'.size ∧
          cj.size ≤ cj'.size ∧ (∀ k, k < cj.size → cj'[k]! = cj[k]! ∧ cx'[k]! = cx[k]!) ∧
          SortedOn cj' s0 cj'.size ∧ (∀ k, cj.size ≤ k → k < cj'.size → cj'[k]! < col) ∧
          ∀ c, ∑ k ∈ Ico s0 cj'.size, cellOf cj' cx' c k
             = ∑ k ∈ Ico s0 cj.size, cellOf cj cx c k
               + op (∑ k ∈ Ico a aEnd, cellOf A.j A.x c k)
                    (∑ k ∈ Ico b bEnd, cellOf B.j B.x c k) := by
      intro m u w a' b' hf' ha1 ha2 hb1 hb2 hmcol hmA hmB hmlow hrA hrB
      obtain ⟨q1, q2, q3, q4, q5, q6⟩ := pushNZ_spec cj cx m (op u w) s0 hsz h0 hsC hmlow
      generalize (pushNZ cj cx m (op u w)).1 = dj at *
      generalize (pushNZ cj cx m (op u w)).2 = dx at *
      have hdlow : ∀ k, s0 ≤ k → k < dj.size → dj[k]! ≤ m := by
        intro k hk1 hk2
        by_cases hk : k < cj.size
        · rw [(q3 k hk).1]; exact Nat.le_of_lt (hmlow k hk1 hk)
        · rw [q5 k (by omega) hk2]
      obtain ⟨cj', cx', e, r1, r2, r3, r4, r5, r6⟩ :=
        ih a' b' dj dx hf' ha2 hb2 (fun x y h1 h2 h3 => hsA x y (by omega) h2 h3)
          (fun x y h1 h2 h3 => hsB x y (by omega) h2 h3)
          (fun k h1 h2 => hcA k (by omega) h2) (fun k h1 h2 => hcB k (by omega) h2) q1 (by omega) q4
          (fun k x h1 h2 h3 h4 => by have := hdlow k h1 h2; have := hmA x h3 h4; omega)
          (fun k x h1 h2 h3 h4 => by have := hdlow k h1 h2; have := hmB x h3 h4; omega)
      refine ⟨cj', cx', e, r1, by omega, ?_, r4, ?_, ?_⟩
      · intro k hk
        obtain ⟨c1, c2⟩ := r3 k (by omega)
        obtain ⟨d1, d2⟩ := q3 k hk
        exact ⟨c1.trans d1, c2.trans d2⟩
      · intro k hk1 hk2
        by_cases hk : k < dj.size
        · rw [(r3 k hk).1, q5 k hk1 hk]; exact hmcol
        · exact r5 k (by omega) hk2
      · intro c
        rw [r6 c, q6 c, hrA c, hrB c]
        by_cases hmc : m = c
        · subst hmc
          rw [sum_cell_miss (j := A.j) (x := A.x) (lo := a') (hi := aEnd)
                (fun k h1 h2 => by have := hmA k h1 h2; omega),
              sum_cell_miss (j := B.j) (x := B.x) (lo := b') (hi := bEnd)
                (fun k h1 h2 => by have := hmB k h1 h2; omega)]
          simp [hop]
        · simp [hmc]
    unfold mergeRow
    by_cases hboth : a < aEnd ∧ b < bEnd
    · obtain ⟨hla, hlb⟩ := hboth
      have i1 : a < A.j.size := by omega
      have i2 : b < B.j.size := by omega
      have i3 : a < A.x.size := by omega
      have i4 : b < B.x.size := by omega
      simp only [hla, hlb, and_self, if_true, rd_lt i1, rd_lt i2, ok_bind]
      by_cases heq : A.j[a]! = B.j[b]!
      · simp only [heq, if_true, rd_lt i3, rd_lt i4, ok_bind]
        rw [← heq]
        exact step A.j[a]! A.x[a]! B.x[b]! (a + 1) (b + 1) (by omega) (by omega) (by omega) (by omega)
          (by omega) (hcA a (Nat.le_refl _) hla)
          (fun k h1 h2 => hsA a k (Nat.le_refl _) (by omega) h2)
          (fun k h1 h2 => by rw [heq]; exact hsB b k (Nat.le_refl _) (by omega) h2)
          (fun k h1 h2 => hxA k a h1 h2 (Nat.le_refl _) hla)
          (fun c => sum_peel A.j A.x a aEnd c hla)
          (fun c => by rw [heq]; exact sum_peel B.j B.x b bEnd c hlb)
      · simp only [heq, if_false]
        by_cases hlt : A.j[a]! < B.j[b]!
        · simp only [hlt, if_true, rd_lt i3, ok_bind]
          exact step A.j[a]! A.x[a]! 0 (a + 1) b (by omega) (by omega) (by omega) (Nat.le_refl _) hb
            (hcA a (Nat.le_refl _) hla)
            (fun k h1 h2 => hsA a k (Nat.le_refl _) (by omega) h2)
            (fun k h1 h2 => by
              by_cases hk : k = b
              · subst hk; exact hlt
              · have := hsB b k (Nat.le_refl _) (by omega) h2; omega)
            (fun k h1 h2 => hxA k a h1 h2 (Nat.le_refl _) hla)
            (fun c => sum_peel A.j A.x a aEnd c hla)
            (fun c => by simp)
        · simp only [hlt, if_false, rd_lt i4, ok_bind]
          have hgt : B.j[b]! < A.j[a]! := by omega
          exact step B.j[b]! 0 B.x[b]! a (b + 1) (by omega) (Nat.le_refl _) ha (by omega) (by omega)
            (hcB b (Nat.le_refl _) hlb)
            (fun k h1 h2 => by
              by_cases hk : k = a
              · subst hk; exact hgt
              · have := hsA a k (Nat.le_refl _) (by omega) h2; omega)
            (fun k h1 h2 => hsB b k (Nat.le_refl _) (by omega) h2)
            (fun k h1 h2 => hxB k b h1 h2 (Nat.le_refl _) hlb)
            (fun c => by simp)
            (fun c => sum_peel B.j B.x b bEnd c hlb)
    · simp only [hboth, if_false]
      by_cases hla : a < aEnd
      · have hbe : b = bEnd := by omega
        have i1 : a < A.j.size := by omega
        have i3 : a < A.x.size := by omega
        simp only [hla, if_true, rd_lt i1, rd_lt i3, ok_bind]
        exact step A.j[a]! A.x[a]! 0 (a + 1) b (by omega) (by omega) (by omega) (Nat.le_refl _) hb
          (hcA a (Nat.le_refl _) hla)
          (fun k h1 h2 => hsA a k (Nat.le_refl _) (by omega) h2)
          (fun k h1 h2 => by omega)
          (fun k h1 h2 => hxA k a h1 h2 (Nat.le_refl _) hla)
          (fun c => sum_peel A.j A.x a aEnd c hla)
          (fun c => by simp)
      · simp only [hla, if_false]
        by_cases hlb : b < bEnd
        · have i2 : b < B.j.size := by omega
          have i4 : b < B.x.size := by omega
          simp only [hlb, if_true, rd_lt i2, rd_lt i4, ok_bind]
          exact step B.j[b]! 0 B.x[b]! a (b + 1) (by omega) (Nat.le_refl _) ha (by omega) (by omega)
            (hcB b (Nat.le_refl _) hlb)
            (fun k h1 h2 => by omega)
            (fun k h1 h2 => hsB b k (Nat.le_refl _) (by omega) h2)
            (fun k h1 h2 => hxB k b h1 h2 (Nat.le_refl _) hlb)
            (fun c => by simp)
            (fun c => sum_peel B.j B.x b bEnd c hlb)
        · simp only [hlb, if_false, pure_ok]
          have hae : a = aEnd := by omega
          have hbe : b = bEnd := by omega
          subst hae hbe
          refine ⟨cj, cx, rfl, hsz, Nat.le_refl _, fun _ _ => ⟨rfl, rfl⟩, hsC, fun k h1 h2 => by omega,
            fun c => by simp [hop]⟩


theorem mergeRows_spec (op : Q → Q → Q) (hop : op 0 0 = 0) {A B : Mat} (hA : CanonCSR A)
    (hB : CanonCSR B) (hrow : A.row = B.row) (hcol : A.col = B.col) :
    ∀ n i (cp cj : Array Nat) (cx : Array Q), i + n = A.row → cp.size = A.row + 1 →
      cj.size = cx.size → cp[i]! = cj.size →
      ∃ cp' cj' cx', mergeRows op A B n i cp cj cx = .ok (cp', cj', cx') ∧ cp'.size = A.row + 1 ∧
        cj'.size = cx'.size ∧ (∀ r, r ≤ i → cp'[r]! = cp[r]!) ∧
        (∀ k, k < cj.size → cj'[k]! = cj[k]! ∧ cx'[k]! = cx[k]!) ∧
        cp'[A.row]! = cj'.size ∧ cj.size ≤ cj'.size ∧
        (∀ a b, i ≤ a → a ≤ b → b ≤ A.row → cp'[a]! ≤ cp'[b]!) ∧
        (∀ k, cj.size ≤ k → k < cj'.size → cj'[k]! < A.col) ∧
        ∀ r, i ≤ r → r < A.row → SortedOn cj' cp'[r]! cp'[r + 1]! ∧
          ∀ c, ∑ k ∈ Ico cp'[r]! cp'[r + 1]!, cellOf cj' cx' c k = op (dense A r c) (dense B r c) := by
  intro n
  induction n with
  | zero =>
    intro i cp cj cx hin hps hsz hpi
    have : i = A.row := by omega
    subst this
    refine ⟨cp, cj, cx, rfl, hps, hsz, fun _ _ => rfl, fun _ _ => ⟨rfl, rfl⟩, hpi, Nat.le_refl _,
      fun a b h1 h2 h3 => by
        have : a = b := by omega
        subst this; exact Nat.le_refl _,
      fun k a b => by omega, fun r a b => by omega⟩
  | succ n ih =>
    intro i cp cj cx hin hps hsz hpi
    have hi : i < A.row := by omega
    have hiB : i < B.row := by omega
    have hpA := hA.psize
    have hpB := hB.psize
    have a1 : i < A.p.size := by omega
    have a2 : i + 1 < A.p.size := by omega
    have b1 : i < B.p.size := by omega
    have b2 : i + 1 < B.p.size := by omega
    have c2 : i + 1 < cp.size := by omega
    have hrA := hA.row_le hi
    have hrB := hB.row_le hiB
    unfold mergeRows
    simp only [rd_lt a1, rd_lt a2, rd_lt b1, rd_lt b2, ok_bind]
    obtain ⟨cj1, cx1, e1, r1, r2, r3, r4, r5, r6⟩ :=
      mergeRow_spec op hop A B A.p[i + 1]! B.p[i + 1]! A.col cj.size hrA.2
        (by rw [hA.xsize]; exact hrA.2) hrB.2 (by rw [hB.xsize]; exact hrB.2)
        ((A.p[i + 1]! - A.p[i]!) + (B.p[i + 1]! - B.p[i]!) + 1) A.p[i]! B.p[i]! cj cx (by omega)
        hrA.1 hrB.1 (hA.sorted i hi) (hB.sorted i hiB)
        (fun k _ h2 => hA.jlt k (by omega))
        (fun k _ h2 => by rw [hcol]; exact hB.jlt k (by omega))
        hsz (Nat.le_refl _) (fun a b h1 h2 h3 => by omega) (fun k a' h1 h2 => by omega)
        (fun k a' h1 h2 => by omega)
    simp only [e1, ok_bind, wr_lt _ c2]
    obtain ⟨cp', cj', cx', e2, t1, t2, t3, t4, t5, t6, t7, t8, t9⟩ :=
      ih (i + 1) (cp.set (i + 1) cj1.size c2) cj1 cx1 (by omega) (by simpa using hps) r1
        (by rw [set_get!, if_pos rfl])
    have hpi' : cp'[i]! = cj.size := by
      rw [t3 i (by omega), set_get!]
      have : ¬ i = i + 1 := by omega
      rw [if_neg this, hpi]
    have hpi1' : cp'[i + 1]! = cj1.size := by
      rw [t3 (i + 1) (Nat.le_refl _), set_get!, if_pos rfl]
    refine ⟨cp', cj', cx', e2, t1, t2, ?_, ?_, t5, by omega, ?_, ?_, ?_⟩
    · intro r hr
      rw [t3 r (by omega), set_get!]
      have : ¬ r = i + 1 := by omega
      rw [if_neg this]
    · intro k hk
      obtain ⟨u1, u2⟩ := t4 k (by omega)
      obtain ⟨v1, v2⟩ := r3 k hk
      exact ⟨u1.trans v1, u2.trans v2⟩
    · intro a b ha hab hb
      by_cases hai : a = i
      · subst hai
        by_cases hba : b = a
        · subst hba; exact Nat.le_refl _
        · have := t7 (a + 1) b (Nat.le_refl _) (by omega) hb
          omega
      · exact t7 a b (by omega) hab hb
    · intro k hk1 hk2
      by_cases hk : k < cj1.size
      · rw [(t4 k hk).1]; exact r5 k hk1 hk
      · exact t8 k (by omega) hk2
    · intro r hr1 hr2
      by_cases hri : r = i
      · subst hri
        rw [hpi', hpi1']
        refine ⟨?_, fun c => ?_⟩
        · intro a b ha hab hb
          rw [(t4 a (by omega)).1, (t4 b hb).1]
          exact r4 a b ha hab hb
        · have : ∑ k ∈ Ico cj.size cj1.size, cellOf cj' cx' c k
              = ∑ k ∈ Ico cj.size cj1.size, cellOf cj1 cx1 c k := by
            apply sum_Ico_congr
            intro k _ hk
            unfold cellOf
            rw [(t4 k hk).1, (t4 k hk).2]
          rw [this, r6 c]
          simp [dense]
      · exact t9 r (by omega) hr2

/-- `csr_binop_csr_canonical` for an operation with `op 0 0 = 0` (add, sub, mul): canonical
result, dense image computed entry-wise; no out-of-range access -/
theorem binop_spec (op : Q → Q → Q) (hop : op 0 0 = 0) {A B : Mat} (hA : CanonCSR A)
    (hB : CanonCSR B) (hrow : A.row = B.row) (hcol : A.col = B.col) :
    ∃ C, binop op A B = .ok C ∧ CanonCSR C ∧ C.row = A.row ∧ C.col = A.col ∧
      ∀ i c, i < A.row → dense C i c = op (dense A i c) (dense B i c) := by
  have h0 : 0 < (Array.replicate (A.row + 1) 0).size := by simp
  obtain ⟨cp, cj, cx, e, t1, t2, t3, _, t5, _, t7, t8, t9⟩ :=
    mergeRows_spec op hop hA hB hrow hcol A.row 0
      ((Array.replicate (A.row + 1) 0).set 0 0 h0) #[] #[] (by omega) (by simp) rfl
      (by rw [set_get!, if_pos rfl]; rfl)
  have hdup : hasDuplicates cp cj A.row = .ok false := by
    unfold hasDuplicates
    apply rowsAny_false _ cp cj A.row 0 (by omega)
    intro r _ hr
    have hr' : r < A.row := by omega
    have := t7 (r + 1) A.row (by omega) (by omega) (Nat.le_refl _)
    refine ⟨by omega, fun k hk1 hk2 => ?_⟩
    have := (t9 r (Nat.zero_le _) hr').1 k (k + 1) hk1 (by omega) hk2
    simp; omega
  unfold binop
  have hdim : ¬ ¬ (A.row = B.row ∧ A.col = B.col) := by simp [hrow, hcol]
  simp only [hdim, if_false, wr_lt _ h0, ok_bind, e, hdup, Bool.false_eq_true, pure_ok]
  refine ⟨_, rfl, ?_, rfl, rfl, fun i c hi => (t9 i (Nat.zero_le _) hi).2 c⟩
  refine { psize := t1, xsize := t2.symm, p0 := ?_, plast := t5, pmono := ?_, sorted := ?_, jlt := ?_ }
  · show cp[0]! = 0
    rw [t3 0 (Nat.le_refl _), set_get!, if_pos rfl]
  · intro a b hab hb
    exact t7 a b (Nat.zero_le _) hab hb
  · intro r hr
    exact (t9 r (Nat.zero_le _) hr).1
  · intro k hk
    exact t8 k (Nat.zero_le _) hk

end SymVerif.C25
