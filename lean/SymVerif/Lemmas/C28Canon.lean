import SymVerif.Lemmas.C28Truth
import SymVerif.Lemmas.C28Order
/-!
Canonical-form invariants.  `cppCanonical` restates `And/Or/Xor/Not::is_canonical` of logic.cpp on one node;
`wf` is the inductive invariant of everything the API can return: every node satisfies its `is_canonical`,
argument lists are sets (strictly sorted), and a `Not` node wraps only a class whose `logical_not` is the
default one (`Contains`, `Xor`).  On `wf` formulas `logical_not` is an involution, which is what makes the
complementary-literal tests of `and_or` / `logical_xor` and the `make_rcp` in `And::logical_not` canonical.
-/
namespace SymVerif.C28
open SymVerif.Logic SymVerif.Logic.B

def isConst : B → Bool
  | .tt | .ff => true
  | _ => false
def isAnd : B → Bool
  | .and _ => true
  | _ => false
def isOr : B → Bool
  | .or _ => true
  | _ => false
def isXor : B → Bool
  | .xor _ => true
  | _ => false
def isNot : B → Bool
  | .not _ => true
  | _ => false

/-- `is_canonical` of the node's class, literally as in logic.cpp -/
def cppCanonical : B → Bool
  | .and l => decide (2 ≤ l.length) && l.all (fun a => !isConst a && !isAnd a && !decide (notB a ∈ l))
  | .or l => decide (2 ≤ l.length) && l.all (fun a => !isConst a && !isOr a && !decide (notB a ∈ l))
  | .xor l => decide (2 ≤ l.length) && decide l.Nodup
      && l.all (fun a => !isConst a && !isXor a && !decide (notB a ∈ l))
  | .not b => !isConst b && !isNot b
  | _ => true

/-- strictly sorted, as a Bool -/
def sortedB : List B → Bool
  | [] => true
  | [_] => true
  | a :: b :: t => B.lt a b && sortedB (b :: t)

/-- the shallow demands on an argument set of kind `same` (a recogniser of the enclosing class) -/
def argsOk (same : B → Bool) (l : List B) : Bool :=
  decide (2 ≤ l.length) && sortedB l && l.all (fun a => !isConst a && !same a && !decide (notB a ∈ l))

def notArgOk : B → Bool
  | .mem _ => true
  | .fs _ => true
  | .xor _ => true
  | _ => false

mutual
def wf : B → Bool
  | .and l => argsOk isAnd l && wfL l
  | .or l => argsOk isOr l && wfL l
  | .xor l => argsOk isXor l && wfL l
  | .not b => notArgOk b && wf b
  | _ => true
def wfL : List B → Bool
  | [] => true
  | a :: l => wf a && wfL l
end

theorem wfL_iff : ∀ l, wfL l = true ↔ ∀ a ∈ l, wf a = true
  | [] => by simp [wfL]
  | a :: l => by simp [wfL, wfL_iff l]

theorem sortedB_iff : ∀ l, sortedB l = true ↔ Sorted l
  | [] => by simp [sortedB, Sorted]
  | [a] => by simp [sortedB, Sorted]
  | a :: b :: t => by
    have ih := sortedB_iff (b :: t)
    unfold Sorted at ih ⊢
    simp only [sortedB, Bool.and_eq_true, ih]
    constructor
    · rintro ⟨h1, h2⟩
      refine List.pairwise_cons.2 ⟨?_, h2⟩
      intro x hx
      rcases List.mem_cons.1 hx with rfl | hx
      · exact h1
      · exact lt_trans' h1 ((List.pairwise_cons.1 h2).1 x hx)
    · intro h
      have := List.pairwise_cons.1 h
      exact ⟨this.1 b List.mem_cons_self, this.2⟩

theorem argsOk_iff (same : B → Bool) (l : List B) :
    argsOk same l = true ↔
      2 ≤ l.length ∧ Sorted l ∧ ∀ a ∈ l, isConst a = false ∧ same a = false ∧ notB a ∉ l := by
  simp [argsOk, sortedB_iff, and_assoc]

theorem sorted_nodup {l : List B} (h : Sorted l) : l.Nodup := by
  unfold Sorted at h
  exact List.Pairwise.imp (fun hab => lt_ne hab) h

theorem wf_cppCanonical (b : B) (h : wf b = true) : cppCanonical b = true := by
  cases b with
  | and l =>
    simp only [wf, Bool.and_eq_true, argsOk_iff] at h
    simp only [cppCanonical, Bool.and_eq_true, decide_eq_true_eq, List.all_eq_true, Bool.not_eq_true']
    exact ⟨h.1.1, fun a ha => by have := h.1.2.2 a ha; simp [this]⟩
  | or l =>
    simp only [wf, Bool.and_eq_true, argsOk_iff] at h
    simp only [cppCanonical, Bool.and_eq_true, decide_eq_true_eq, List.all_eq_true, Bool.not_eq_true']
    exact ⟨h.1.1, fun a ha => by have := h.1.2.2 a ha; simp [this]⟩
  | xor l =>
    simp only [wf, Bool.and_eq_true, argsOk_iff] at h
    simp only [cppCanonical, Bool.and_eq_true, decide_eq_true_eq, List.all_eq_true, Bool.not_eq_true']
    exact ⟨⟨h.1.1, sorted_nodup h.1.2.1⟩, fun a ha => by have := h.1.2.2 a ha; simp [this]⟩
  | not b =>
    simp only [wf, Bool.and_eq_true] at h
    cases b <;> simp_all [notArgOk, cppCanonical, isConst, isNot]
  | tt => rfl
  | ff => rfl
  | rel i n => rfl
  | mem i => rfl
  | fs l => rfl

/-! ### `notL` is `map notB` -/

theorem notL_eq_map : ∀ l, notL l = l.map notB
  | [] => by simp [notL]
  | a :: l => by simp [notL, notL_eq_map l]

theorem mem_notL {x : B} {l : List B} : x ∈ notL l ↔ ∃ a ∈ l, notB a = x := by
  rw [notL_eq_map, List.mem_map]

theorem mem_mkSet {x : B} {l : List B} : x ∈ insAll l [] ↔ x ∈ l := by
  simp [mem_insAll]

theorem isConst_notB (a : B) (h : wf a = true) : isConst (notB a) = true → isConst a = true := by
  cases a with
  | not b =>
    simp only [wf, Bool.and_eq_true] at h
    cases b <;> simp_all [notArgOk, notB, isConst]
  | _ => simp [notB, isConst]

/-! ### `logical_not` is an involution on well-formed formulas -/

mutual
theorem notB_invol : ∀ b, wf b = true → notB (notB b) = b
  | .tt, _ => by simp [notB]
  | .ff, _ => by simp [notB]
  | .rel i n, _ => by simp [notB]
  | .mem i, _ => by simp [notB]
  | .fs l, _ => by simp [notB]
  | .xor l, _ => by simp [notB]
  | .not b, h => by
    simp only [wf, Bool.and_eq_true] at h
    cases b <;> simp_all [notArgOk, notB]
  | .and l, h => by
    simp only [wf, Bool.and_eq_true, argsOk_iff] at h
    have ih := notL_invol l h.2
    simp only [notB, B.and.injEq]
    apply sorted_ext _ _ (sorted_insAll _ _ sorted_nil) h.1.2.1
    intro x
    simp only [mem_mkSet, mem_notL]
    constructor
    · rintro ⟨y, ⟨a, ha, rfl⟩, rfl⟩
      rw [ih a ha]; exact ha
    · intro hx
      exact ⟨notB x, ⟨x, hx, rfl⟩, ih x hx⟩
  | .or l, h => by
    simp only [wf, Bool.and_eq_true, argsOk_iff] at h
    have ih := notL_invol l h.2
    simp only [notB, B.or.injEq]
    apply sorted_ext _ _ (sorted_insAll _ _ sorted_nil) h.1.2.1
    intro x
    simp only [mem_mkSet, mem_notL]
    constructor
    · rintro ⟨y, ⟨a, ha, rfl⟩, rfl⟩
      rw [ih a ha]; exact ha
    · intro hx
      exact ⟨notB x, ⟨x, hx, rfl⟩, ih x hx⟩
theorem notL_invol : ∀ l, wfL l = true → ∀ a ∈ l, notB (notB a) = a
  | [], _ => by simp
  | b :: l, h => by
    simp only [wfL, Bool.and_eq_true] at h
    intro a ha
    rcases List.mem_cons.1 ha with hab | ha
    · rw [hab]; exact notB_invol b h.1
    · exact notL_invol l h.2 a ha
end

theorem notB_inj {a b : B} (ha : wf a = true) (hb : wf b = true) (h : notB a = notB b) : a = b := by
  rw [← notB_invol a ha, ← notB_invol b hb, h]

theorem notB_ne_self (a : B) (h : wf a = true) : notB a ≠ a := by
  cases a with
  | not b =>
    simp only [wf, Bool.and_eq_true] at h
    cases b <;> simp_all [notArgOk, notB]
  | rel i n => cases n <;> simp [notB]
  | _ => simp [notB]

theorem isOr_notB (a : B) (h : wf a = true) : isOr (notB a) = isAnd a := by
  cases a with
  | not b =>
    simp only [wf, Bool.and_eq_true] at h
    cases b <;> simp_all [notArgOk, notB, isOr, isAnd]
  | _ => simp [notB, isOr, isAnd]

theorem isAnd_notB (a : B) (h : wf a = true) : isAnd (notB a) = isOr a := by
  cases a with
  | not b =>
    simp only [wf, Bool.and_eq_true] at h
    cases b <;> simp_all [notArgOk, notB, isOr, isAnd]
  | _ => simp [notB, isOr, isAnd]

theorem length_ge_two_of_two_mem {l : List B} {a b : B} (ha : a ∈ l) (hb : b ∈ l) (hne : a ≠ b) :
    2 ≤ l.length := by
  match l, ha, hb with
  | [], ha, _ => simp at ha
  | [c], ha, hb =>
    simp only [List.mem_singleton] at ha hb
    exact absurd (ha.trans hb.symm) hne
  | _ :: _ :: _, _, _ => simp

/-- De Morgan image of a canonical argument set is a canonical argument set of the dual kind -/
theorem argsOk_notL (same dual : B → Bool) (l : List B)
    (hdual : ∀ a, wf a = true → dual (notB a) = same a)
    (h : argsOk same l = true) (hw : wfL l = true) (hwn : ∀ a ∈ l, wf (notB a) = true) :
    argsOk dual (insAll (notL l) []) = true := by
  rw [argsOk_iff] at h ⊢
  rw [wfL_iff] at hw
  obtain ⟨hlen, hsort, hall⟩ := h
  refine ⟨?_, sorted_insAll _ _ sorted_nil, ?_⟩
  · match l, hlen, hsort, hw with
    | a :: b :: t, _, hsort, hw =>
      have hab : a ≠ b := lt_ne ((List.pairwise_cons.1 hsort).1 b List.mem_cons_self)
      have h1 : notB a ∈ insAll (notL (a :: b :: t)) [] := mem_mkSet.2 (mem_notL.2 ⟨a, by simp, rfl⟩)
      have h2 : notB b ∈ insAll (notL (a :: b :: t)) [] := mem_mkSet.2 (mem_notL.2 ⟨b, by simp, rfl⟩)
      refine length_ge_two_of_two_mem h1 h2 ?_
      intro hh
      exact hab (notB_inj (hw a (by simp)) (hw b (by simp)) hh)
  · intro x hx
    obtain ⟨a, ha, rfl⟩ := mem_notL.1 (mem_mkSet.1 hx)
    have ha' := hall a ha
    refine ⟨?_, ?_, ?_⟩
    · cases hc : isConst (notB a)
      · rfl
      · rw [isConst_notB a (hw a ha) hc] at ha'; cases ha'.1
    · rw [hdual a (hw a ha)]; exact ha'.2.1
    · rw [notB_invol a (hw a ha)]
      intro hmem
      obtain ⟨a', ha'', heq⟩ := mem_notL.1 (mem_mkSet.1 hmem)
      exact (hall a' ha'').2.2 (heq ▸ ha)

mutual
theorem wf_notB : ∀ b, wf b = true → wf (notB b) = true
  | .tt, _ => by simp [notB, wf]
  | .ff, _ => by simp [notB, wf]
  | .rel i n, _ => by simp [notB, wf]
  | .mem i, _ => by simp [notB, wf, notArgOk]
  | .fs l, _ => by simp [notB, wf, notArgOk]
  | .xor l, h => by
    simp only [notB, wf, notArgOk, Bool.true_and]
    simpa [wf] using h
  | .not b, h => by
    simp only [wf, Bool.and_eq_true] at h
    simpa [notB] using h.2
  | .and l, h => by
    have h' := h
    simp only [wf, Bool.and_eq_true] at h'
    have ih := wf_notL l h'.2
    simp only [notB, wf, Bool.and_eq_true]
    refine ⟨argsOk_notL isAnd isOr l isOr_notB h'.1 h'.2 ih, ?_⟩
    rw [wfL_iff]
    intro x hx
    obtain ⟨a, ha, rfl⟩ := mem_notL.1 (mem_mkSet.1 hx)
    exact ih a ha
  | .or l, h => by
    have h' := h
    simp only [wf, Bool.and_eq_true] at h'
    have ih := wf_notL l h'.2
    simp only [notB, wf, Bool.and_eq_true]
    refine ⟨argsOk_notL isOr isAnd l isAnd_notB h'.1 h'.2 ih, ?_⟩
    rw [wfL_iff]
    intro x hx
    obtain ⟨a, ha, rfl⟩ := mem_notL.1 (mem_mkSet.1 hx)
    exact ih a ha
theorem wf_notL : ∀ l, wfL l = true → ∀ a ∈ l, wf (notB a) = true
  | [], _ => by simp
  | b :: l, h => by
    simp only [wfL, Bool.and_eq_true] at h
    intro a ha
    rcases List.mem_cons.1 ha with hab | ha
    · rw [hab]; exact wf_notB b h.1
    · exact wf_notL l h.2 a ha
end

end SymVerif.C28
