import SymVerif.Lemmas.C33Ops
import Mathlib.NumberTheory.Bertrand
/-! Specification of `Sieve::iterator::next_prime`. -/
namespace SymVerif.C33
open SymVerif.Sieve

theorem idx_lt_cnt {i m : Nat} : i < cnt m ↔ np i < m := by
  constructor
  · intro h
    apply Nat.lt_of_count_lt_count (p := Nat.Prime)
    show cnt (np i) < cnt m
    rw [cnt_np]; exact h
  · intro h
    have := cnt_lt_of_prime_lt (prime_np i) h
    rwa [cnt_np] at this

/-- Bertrand's postulate for the enumeration: doubling the last prime reaches the next one. -/
theorem np_succ_le_two_mul (i : Nat) : np (i + 1) ≤ 2 * np i := by
  obtain ⟨p, hp, h1, h2⟩ := Nat.exists_prime_lt_and_le_two_mul (np i) (prime_np i).ne_zero
  have : i + 1 ≤ cnt p := by
    have := cnt_lt_of_prime_lt (prime_np i) h1
    rw [cnt_np] at this; omega
  calc np (i + 1) ≤ np (cnt p) := np_le_np this
    _ = p := np_cnt hp
    _ ≤ 2 * np i := h2

/-- the limit `next_prime` passes to `_extend` when the iterator has run past the cache -/
noncomputable def extendTarget (it : Iter) : Nat :=
  if 0 < it.limit ∧ it.limit < 2 * np (it.index - 1) then it.limit else 2 * np (it.index - 1)

theorem nextPrime_spec (s : State) (it : Iter) (hinv : Inv s) (hidx : it.index ≤ s.buf.size) :
    ∃ s', Inv s' ∧ s.buf.size ≤ s'.buf.size ∧ s'.sieveBits = s.sieveBits ∧
      s'.clearFlag = s.clearFlag ∧
      ((nextPrime s it = .ok (s', { it with index := it.index + 1 }, np it.index) ∧
          it.index + 1 ≤ s'.buf.size ∧
          (it.index < s.size ∨ it.limit = 0 ∨ np it.index ≤ it.limit)) ∨
       (nextPrime s it = .ok (s', it, it.limit + 1) ∧ 0 < it.limit ∧ it.limit < np it.index ∧
          s.size ≤ it.index) ∨
       (nextPrime s it = .error .range ∧ s.size ≤ it.index ∧ maxLimit ≤ extendTarget it)) := by
  have hsl := hinv.size_le
  have h10 := hinv.ten_le
  unfold nextPrime
  by_cases hge : it.index ≥ s.size
  · rw [if_pos hge]
    rw [if_neg (by omega)]
    have hp : s.buf.getD (it.index - 1) 0 = np (it.index - 1) := by
      simp [hinv.nth (it.index - 1) (by omega)]
    simp only [hp]
    have htgt : (if (decide (it.limit > 0) && decide (it.limit < np (it.index - 1) * 2)) = true
        then it.limit else np (it.index - 1) * 2) = extendTarget it := by
      unfold extendTarget
      simp only [Bool.and_eq_true, decide_eq_true_eq, Nat.mul_comm _ 2]
    rw [htgt]
    by_cases hr : extendTarget it ≥ maxLimit
    · rw [if_pos hr]
      exact ⟨s, hinv, le_refl _, rfl, rfl, Or.inr (Or.inr ⟨rfl, hge, hr⟩)⟩
    · rw [if_neg hr]
      obtain ⟨s1, e, i1, sz, b, c, g⟩ := extend_spec s (extendTarget it) hinv (by omega)
      rw [e]
      simp only []
      refine ⟨s1, i1, g, b, c, ?_⟩
      have hkey : it.index < s1.size ↔ np it.index ≤ extendTarget it := by
        rw [sz, lt_max_iff, idx_lt_cnt]
        constructor
        · rintro (h | h)
          · omega
          · omega
        · intro h; right; omega
      have hbert : np it.index ≤ 2 * np (it.index - 1) := by
        have := np_succ_le_two_mul (it.index - 1)
        rwa [show it.index - 1 + 1 = it.index by omega] at this
      by_cases hlt : it.index < s1.size
      · rw [if_neg (by omega)]
        left
        refine ⟨by rw [i1.get (lt_of_lt_of_le hlt i1.size_le)], ?_, ?_⟩
        · have := i1.size_le; omega
        · right
          have h := hkey.1 hlt
          unfold extendTarget at h
          split at h
          · right; exact h
          · rename_i hn
            by_cases h0 : it.limit = 0
            · left; exact h0
            · right; omega
      · rw [if_pos (by omega)]
        right; left
        have h : ¬ np it.index ≤ extendTarget it := fun h => hlt (hkey.2 h)
        unfold extendTarget at h
        split at h
        · rename_i hc
          exact ⟨rfl, hc.1, by omega, hge⟩
        · exact absurd hbert h
  · rw [if_neg hge]
    refine ⟨s, hinv, le_refl _, rfl, rfl, Or.inl ⟨?_, by omega, Or.inl (by omega)⟩⟩
    rw [hinv.get (by omega)]

/-- `IterRun L i out j`: the values `out` returned by successive `next_prime` calls of an iterator
with limit `L` (0 = none) standing at position `i` and ending at position `j`: every value is
either the next prime in sequence (the position advances), or the end marker `L + 1`, which is
only produced when the next prime exceeds the non-zero limit (the position stays). -/
inductive IterRun (L : Nat) : Nat → List Nat → Nat → Prop
  | nil (i : Nat) : IterRun L i [] i
  | prime {i j : Nat} {out : List Nat} : IterRun L (i + 1) out j → IterRun L i (np i :: out) j
  | stop {i j : Nat} {out : List Nat} : 0 < L → L < np i → IterRun L i out j →
      IterRun L i ((L + 1) :: out) j

theorem IterRun.append {L i j k : Nat} {o1 o2 : List Nat} (h1 : IterRun L i o1 j)
    (h2 : IterRun L j o2 k) : IterRun L i (o1 ++ o2) k := by
  induction h1 with
  | nil => simpa using h2
  | prime _ ih => exact IterRun.prime (ih h2)
  | stop a b _ ih => exact IterRun.stop a b (ih h2)

theorem nextMany_spec (k : Nat) (s : State) (it : Iter) (acc : List Nat) (hinv : Inv s)
    (hidx : it.index ≤ s.buf.size) :
    (∃ s' it' out, nextMany k s it acc = .ok (s', it', acc.reverse ++ out) ∧ Inv s' ∧
        s.buf.size ≤ s'.buf.size ∧ s'.sieveBits = s.sieveBits ∧ s'.clearFlag = s.clearFlag ∧
        out.length = k ∧ it'.limit = it.limit ∧ it'.index ≤ s'.buf.size ∧
        IterRun it.limit it.index out it'.index) ∨
    nextMany k s it acc = .error .range := by
  induction k generalizing s it acc with
  | zero =>
    left
    exact ⟨s, it, [], by simp [nextMany], hinv, le_refl _, rfl, rfl, rfl, rfl, hidx, IterRun.nil _⟩
  | succ k ih =>
    unfold nextMany
    obtain ⟨s1, i1, g1, b1, c1, h⟩ := nextPrime_spec s it hinv hidx
    rcases h with ⟨e, hi, _⟩ | ⟨e, h0, hl, _⟩ | ⟨e, _, _⟩
    · rw [e]; simp only []
      rcases ih s1 { it with index := it.index + 1 } (np it.index :: acc) i1 hi with
        ⟨s', it', out, e', i', g', b', c', len, lim, idx, run⟩ | e'
      · left
        refine ⟨s', it', np it.index :: out, ?_, i', le_trans g1 g', by rw [b', b1], by rw [c', c1],
          by simp [len], lim, idx, IterRun.prime run⟩
        rw [e']; simp
      · right; exact e'
    · rw [e]; simp only []
      rcases ih s1 it ((it.limit + 1) :: acc) i1 (le_trans hidx g1) with
        ⟨s', it', out, e', i', g', b', c', len, lim, idx, run⟩ | e'
      · left
        refine ⟨s', it', (it.limit + 1) :: out, ?_, i', le_trans g1 g', by rw [b', b1],
          by rw [c', c1], by simp [len], lim, idx, IterRun.stop h0 hl run⟩
        rw [e']; simp
      · right; exact e'
    · right; rw [e]

theorem lookup_setIter (l : List (Nat × Iter)) (k k' : Nat) (v : Iter) :
    lookupIter (setIter l k v) k' = if k' = k then some v else lookupIter (l.filter (fun p => p.1 != k)) k' := by
  unfold setIter
  simp [lookupIter]

theorem lookup_filter (l : List (Nat × Iter)) (k k' : Nat) :
    lookupIter (l.filter (fun p => p.1 != k)) k' = if k' = k then none else lookupIter l k' := by
  induction l with
  | nil => simp [lookupIter]
  | cons hd tl ih =>
    obtain ⟨a, b⟩ := hd
    by_cases ha : a = k
    · subst ha
      simp only [List.filter_cons, bne_self_eq_false, Bool.false_eq_true, if_false, ih, lookupIter]
      by_cases hk : k' = a
      · simp [hk]
      · simp [hk]
    · simp only [List.filter_cons, lookupIter]
      have : (a != k) = true := by simp [ha]
      simp only [this, if_true, lookupIter, ih]
      by_cases hk : k' = k
      · subst hk
        have : (k' == a) = false := by simp; exact fun h => ha h.symm
        simp [this]
      · simp [hk]

end SymVerif.C33
