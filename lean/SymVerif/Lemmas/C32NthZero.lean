import Mathlib.Data.Nat.Factorization.Basic
import Mathlib.Tactic.Ring
import Mathlib.Tactic.Linarith
import SymVerif.Model.NTheory
/-! The `a ≡ 0 (mod p^k)` branch of `_nthroot_mod_prime_power` (all roots). -/
namespace SymVerif.C32
open SymVerif.NTheory

theorem spreadLoop_mem (pkm : Int) : ∀ (f : Nat) (root : Int) (acc : List Int) (x : Int),
    x ∈ spreadLoop pkm f root acc ↔ x ∈ acc ∨ ∃ i : Nat, i < f ∧ x = root + i * pkm := by
  intro f
  induction f with
  | zero => intro root acc x; simp [spreadLoop]
  | succ f ih =>
    intro root acc x
    unfold spreadLoop
    rw [ih]
    constructor
    · rintro (h | ⟨i, hi, rfl⟩)
      · rcases List.mem_cons.mp h with rfl | h
        · exact Or.inr ⟨0, by omega, by simp⟩
        · exact Or.inl h
      · exact Or.inr ⟨i + 1, by omega, by push_cast; ring⟩
    · rintro (h | ⟨i, hi, rfl⟩)
      · exact Or.inl (List.mem_cons_of_mem _ h)
      · cases i with
        | zero => exact Or.inl (by simp)
        | succ j => exact Or.inr ⟨j, by omega, by push_cast; ring⟩

theorem spreadRoots_zero_mem (pm : Nat) (pkm x : Int) :
    x ∈ spreadRoots [0] pm pkm ↔ ∃ i : Nat, i < pm ∧ x = i * pkm := by
  unfold spreadRoots
  simp only [List.foldl_cons, List.foldl_nil, List.mem_reverse]
  rw [spreadLoop_mem]
  simp

/-- the exponent `c = k - m` chosen by the code is `⌈k/n⌉` -/
theorem zero_branch_exponent (k N : Nat) (hk : 1 ≤ k) (hN : 1 ≤ N) :
    let m := if N ≥ k then k - 1 else k - 1 - (k - 1) / N
    m < k ∧ k ≤ N * (k - m) ∧ N * (k - m - 1) < k := by
  intro m
  obtain ⟨k', rfl⟩ : ∃ k', k = k' + 1 := ⟨k - 1, by omega⟩
  by_cases h : N ≥ k' + 1
  · have hm : m = k' := by simp [m, h]
    rw [hm]
    refine ⟨by omega, ?_, ?_⟩
    · have : k' + 1 - k' = 1 := by omega
      rw [this]; omega
    · have : k' + 1 - k' - 1 = 0 := by omega
      rw [this]; omega
  · have hm : m = k' - k' / N := by simp [m, h]
    have hq : k' / N ≤ k' := Nat.div_le_self _ _
    have hdm := Nat.div_add_mod k' N
    have hmod : k' % N < N := Nat.mod_lt _ (by omega)
    rw [hm]
    generalize k' / N = q at *
    generalize k' % N = r at *
    have e1 : k' + 1 - (k' - q) = 1 + q := by omega
    have e2 : k' + 1 - (k' - q) - 1 = q := by omega
    refine ⟨by omega, ?_, ?_⟩
    · rw [e1, Nat.mul_add, Nat.mul_one]; linarith
    · rw [e2]; linarith

/-- `x^N ≡ 0 (mod p^k)` for `0 ≤ x < p^k` iff `x` is a multiple of `p^c`, `c = ⌈k/N⌉` -/
theorem pow_dvd_pow_iff_mul {p : Nat} (hp : p.Prime) (k N c : Nat) (hN : 1 ≤ N) (hck : c ≤ k)
    (h1 : k ≤ N * c) (h2 : N * (c - 1) < k) (y : Nat) (hy : y < p ^ k) :
    p ^ k ∣ y ^ N ↔ ∃ i, i < p ^ (k - c) ∧ y = i * p ^ c := by
  constructor
  · intro hd
    rcases Nat.eq_zero_or_pos y with h0 | hpos
    · exact ⟨0, Nat.pow_pos hp.pos, by simp [h0]⟩
    · have hyN : y ^ N ≠ 0 := (Nat.pow_pos hpos).ne'
      have hle : k ≤ (y ^ N).factorization p := (hp.pow_dvd_iff_le_factorization hyN).mp hd
      rw [Nat.factorization_pow] at hle
      simp only [Finsupp.smul_apply, smul_eq_mul] at hle
      have hcv : c ≤ y.factorization p := by
        by_contra hlt
        have : y.factorization p ≤ c - 1 := by omega
        have := Nat.mul_le_mul_left N this
        omega
      have hdvd : p ^ c ∣ y := (hp.pow_dvd_iff_le_factorization hpos.ne').mpr hcv
      obtain ⟨i, hi⟩ := hdvd
      refine ⟨i, ?_, by rw [hi]; ring⟩
      have hpk : p ^ k = p ^ (k - c) * p ^ c := by rw [← pow_add]; congr 1; omega
      rw [hpk, hi, mul_comm] at hy
      exact Nat.lt_of_mul_lt_mul_right hy
  · rintro ⟨i, _, rfl⟩
    rw [mul_pow, ← pow_mul]
    exact Dvd.dvd.mul_left (pow_dvd_pow p (by rw [mul_comm]; exact h1)) _

/-- `_nthroot_mod_prime_power(a, n, p, k, all_roots = true)` for `a ≡ 0 (mod p^k)`: the listed values are
    exactly the `x ∈ [0, p^k)` with `x^n ≡ 0 (mod p^k)`. -/
theorem nthroot_zero_branch {p : Nat} (hp : p.Prime) (a n : Int) (k f : Nat) (hk : 1 ≤ k) (hn : 1 ≤ n)
    (ha : ((p ^ k : Nat) : Int) ∣ a) :
    ∃ l, nthrootModPrimePower a n p true (f + 1) k = .ok (some l) ∧
      ∀ x : Int, x ∈ l ↔ 0 ≤ x ∧ x < ((p ^ k : Nat) : Int) ∧ ((p ^ k : Nat) : Int) ∣ x ^ n.toNat := by
  have hpk : (p : Int) ∣ ((p ^ k : Nat) : Int) := by
    exact_mod_cast dvd_pow_self p (by omega : k ≠ 0)
  have h1 : Int.tmod a p = 0 := Int.tmod_eq_zero_of_dvd (hpk.trans ha)
  have h2 : Int.tmod a ((p ^ k : Nat) : Int) = 0 := Int.tmod_eq_zero_of_dvd ha
  unfold nthrootModPrimePower
  simp only [h1, h2, bne_self_eq_false, Bool.false_eq_true, if_false, beq_self_eq_true, if_true,
    Bool.not_true]
  set N := n.toNat with hN
  have hN1 : 1 ≤ N := by omega
  have hmeq : (if n ≥ (k : Int) then k - 1 else k - 1 - (k - 1) / n.toNat) =
      (if N ≥ k then k - 1 else k - 1 - (k - 1) / N) := by
    by_cases h : n ≥ (k : Int)
    · have : N ≥ k := by omega
      rw [if_pos h, if_pos this]
    · have : ¬ N ≥ k := by omega
      rw [if_neg h, if_neg this]
  rw [hmeq]
  obtain ⟨e1, e2, e3⟩ := zero_branch_exponent k N hk hN1
  set m := (if N ≥ k then k - 1 else k - 1 - (k - 1) / N) with hm
  refine ⟨_, rfl, ?_⟩
  intro x
  rw [spreadRoots_zero_mem]
  have hkm : k - (k - m) = m := by omega
  constructor
  · rintro ⟨i, hi, rfl⟩
    have key := (pow_dvd_pow_iff_mul hp k N (k - m) hN1 (by omega) e2 e3 (i * p ^ (k - m)) ?_).mpr
      ⟨i, by rw [hkm]; exact hi, rfl⟩
    · refine ⟨by positivity, ?_, ?_⟩
      · have : i * p ^ (k - m) < p ^ m * p ^ (k - m) :=
          Nat.mul_lt_mul_of_lt_of_le hi (le_refl _) (Nat.pow_pos hp.pos)
        rw [← pow_add, show m + (k - m) = k by omega] at this
        exact_mod_cast this
      · have : ((i : Int) * ((p ^ (k - m) : Nat) : Int)) ^ N = (((i * p ^ (k - m)) ^ N : Nat) : Int) := by
          push_cast; ring
        rw [this]; exact_mod_cast key
    · have : i * p ^ (k - m) < p ^ m * p ^ (k - m) :=
        Nat.mul_lt_mul_of_lt_of_le hi (le_refl _) (Nat.pow_pos hp.pos)
      rwa [← pow_add, show m + (k - m) = k by omega] at this
  · rintro ⟨hx0, hxlt, hxd⟩
    obtain ⟨y, rfl⟩ := Int.eq_ofNat_of_zero_le hx0
    have hy : y < p ^ k := by exact_mod_cast hxlt
    have hd : p ^ k ∣ y ^ N := by exact_mod_cast hxd
    obtain ⟨i, hi, rfl⟩ := (pow_dvd_pow_iff_mul hp k N (k - m) hN1 (by omega) e2 e3 y hy).mp hd
    exact ⟨i, by rwa [hkm] at hi, by push_cast; ring⟩

end SymVerif.C32
