/-
Value lemmas for the rules of RefineVisitor / SimplifyVisitor (Model/Refine.lean) over the real semantics of
Lemmas/C34Sem.lean.
-/
import SymVerif.Model.Refine
import SymVerif.Lemmas.C34Dom
import Mathlib.Analysis.SpecialFunctions.Log.Basic

namespace SymVerif.C35
open SymVerif SymVerif.Queries SymVerif.Refine SymVerif.C34

/-! ## raw constructors -/

theorem evalR_negRaw (ρ : String → ℝ) (a : Expr) : evalR ρ (negRaw a) = (evalR ρ a).map fun v => -v := by
  simp only [negRaw, evalR, evalFacs, powSem_one]
  cases evalR ρ a <;> simp

theorem evalTerms_ones (ρ : String → ℝ) (l : List Expr) :
    evalTerms ρ (l.map fun a => (a, Expr.int 1)) = (evalArgs ρ l).map List.sum := by
  induction l with
  | nil => simp [evalTerms, evalArgs]
  | cons a t ih =>
    simp only [List.map_cons, evalTerms, evalArgs, ih, evalR]
    cases evalR ρ a <;> cases evalArgs ρ t <;> simp

theorem evalFacs_ones (ρ : String → ℝ) (l : List Expr) :
    evalFacs ρ (l.map fun a => (a, Expr.int 1)) = (evalArgs ρ l).map List.prod := by
  induction l with
  | nil => simp [evalFacs, evalArgs]
  | cons a t ih =>
    simp only [List.map_cons, evalFacs, evalArgs, ih, powSem_one]
    cases evalR ρ a <;> cases evalArgs ρ t <;> simp

theorem evalR_sumRaw (ρ : String → ℝ) (l : List Expr) : evalR ρ (sumRaw l) = (evalArgs ρ l).map List.sum := by
  simp only [sumRaw, evalR, evalTerms_ones]
  cases evalArgs ρ l <;> simp

theorem evalR_prodRaw (ρ : String → ℝ) (l : List Expr) : evalR ρ (prodRaw l) = (evalArgs ρ l).map List.prod := by
  simp only [prodRaw, evalR, evalFacs_ones]
  cases evalArgs ρ l <;> simp

/-! ## powers of a positive base are real powers -/

theorem powSem_pos_eq {ρ : String → ℝ} {vb vx : ℝ} (hb : 0 < vb) {x : Expr} (hx : evalR ρ x = some vx) :
    powSem (some vb) x (evalR ρ x) = some (vb ^ vx) := by
  cases x with
  | int n =>
    simp [evalR] at hx
    subst hx
    simp only [powSem]
    split
    · rename_i hn
      congr 1
      have : ((n.toNat : ℕ) : ℝ) = (n : ℝ) := by
        have := Int.toNat_of_nonneg hn
        exact_mod_cast this
      rw [← this, Real.rpow_natCast]
    · rename_i hn
      have hne : vb ≠ 0 := ne_of_gt hb
      simp only [hne, if_false]
      congr 1
      have hcast : (n : ℝ) = -((n.natAbs : ℕ) : ℝ) := by
        have : (n : ℤ) = -(n.natAbs : ℤ) := by omega
        exact_mod_cast this
      rw [hcast, Real.rpow_neg hb.le, Real.rpow_natCast]
  | _ => simp_all [powSem, evalR]

theorem powSem_pos {ρ : String → ℝ} {vb y : ℝ} (hb : 0 < vb) {x : Expr}
    (h : powSem (some vb) x (evalR ρ x) = some y) : ∃ vx, evalR ρ x = some vx ∧ y = vb ^ vx := by
  cases hx : evalR ρ x with
  | none =>
    rw [powSem_exp_none (some vb) hx] at h
    cases h
  | some vx =>
    rw [hx] at h
    have := powSem_pos_eq (ρ := ρ) hb hx
    rw [hx] at this
    rw [this] at h
    exact ⟨vx, rfl, by cases h; rfl⟩

/-! ## the one-argument rules -/

theorem abs_rule_nonneg {x : ℝ} (h : 0 ≤ x) : |x| = x := abs_of_nonneg h
theorem abs_rule_nonpos {x : ℝ} (h : x ≤ 0) : |x| = -x := abs_of_nonpos h
theorem sign_rule_pos {x : ℝ} (h : 0 < x) : Real.sign x = 1 := Real.sign_of_pos h
theorem sign_rule_neg {x : ℝ} (h : x < 0) : Real.sign x = -1 := Real.sign_of_neg h
theorem floor_rule_int (n : ℤ) : ((⌊(n : ℝ)⌋ : ℤ) : ℝ) = n := by simp
theorem ceil_rule_int (n : ℤ) : ((⌈(n : ℝ)⌉ : ℤ) : ℝ) = n := by simp
/-- `log(b**x) = x*log(b)` for positive `b` -/
theorem log_rule_pow {b x : ℝ} (hb : 0 < b) : Real.log (b ^ x) = x * Real.log b := Real.log_rpow hb x
/-- `log(b**k) = k*log(b)` for a perfect power -/
theorem log_rule_perfect_power (b k : ℕ) : Real.log (((b ^ k : ℕ) : ℝ)) = (k : ℝ) * Real.log (b : ℝ) := by
  rw [Nat.cast_pow]
  exact Real.log_pow _ _
/-- `(x**k)**n = x**(k*n)` for positive `x` -/
theorem pow_rule_pos {x k n : ℝ} (hx : 0 < x) : (x ^ k) ^ n = x ^ (k * n) := (Real.rpow_mul hx.le k n).symm
/-- `(x**k)**n = abs(x)**(k*n)` for an **even** integer `k` and `x ≠ 0` -/
theorem pow_rule_even {x n : ℝ} {k : ℕ} (hk : Even k) (hx : x ≠ 0) : ((x ^ k : ℝ)) ^ n = |x| ^ ((k : ℝ) * n) := by
  have h1 : x ^ k = |x| ^ k := (Even.pow_abs hk x).symm
  rw [h1, ← Real.rpow_natCast |x| k, ← Real.rpow_mul (abs_nonneg x)]


/-! ## `ruleOne`: the rules of Abs, Sign, Floor, Ceiling, Conjugate, Log preserve the value -/

theorem wf_app_single {h : String} {a : Expr} (hw : wf (.app h [a]) = true) : wf a = true := by
  simp only [wf, wfList, Bool.and_eq_true] at hw
  exact hw.1

theorem ruleOne_value {ρ : String → ℝ} {A : Assumptions} (hA : FactsSat ρ A) {h : String} {a r : Expr} {v : ℝ}
    (hw : wf a = true) (hr : ruleOne A h a = some r) (hv : evalR ρ (.app h [a]) = some v) :
    evalR ρ r = some v := by
  obtain ⟨x, hx, hs⟩ := evalR_app_single hv
  unfold ruleOne at hr
  split at hr
  · -- Abs
    rename_i hh
    have : h = "Abs" := by simpa using hh
    subst this
    simp [appSem] at hs
    subst hs
    split at hr
    · rename_i hq
      cases hr
      rw [hx, abs_of_nonneg ((isNonnegative_sound hA hx).1 (by simpa using hq))]
    · split at hr
      · rename_i _ hq
        cases hr
        rw [evalR_negRaw, hx, abs_of_nonpos ((isNonpositive_sound hA hx).1 (by simpa using hq))]
        rfl
      · split at hr
        · rename_i u
          cases hr
          obtain ⟨y, hy, hys⟩ := evalR_app_single hx
          simp [appSem] at hys
          subst hys
          simp [evalR, evalArgs, hy, appSem]
        · cases hr
  · split at hr
    · -- Sign
      rename_i _ hh
      have : h = "Sign" := by simpa using hh
      subst this
      simp [appSem] at hs
      subst hs
      split at hr
      · rename_i hq
        cases hr
        have := (isPositiveF_sound hA _ a x hw hx).1 (by simpa [isPositive] using hq)
        simp [evalR, Real.sign_of_pos this]
      · split at hr
        · rename_i _ hq
          cases hr
          have := (isNegative_sound hA hx).1 (by simpa using hq)
          simp [evalR, Real.sign_of_neg this]
        · split at hr
          · rename_i _ _ hq
            cases hr
            have := (isZeroF_sound hA _ a x hx).1 (by simpa [isZero] using hq)
            subst this
            simp [evalR]
          · cases hr
    · split at hr
      · -- Floor / Ceiling
        rename_i _ _ hh
        split at hr
        · rename_i hq
          cases hr
          obtain ⟨n, hn⟩ := (isIntegerF_sound hA _ a x hw hx).1 (by simpa [isInteger] using hq)
          subst hn
          have hh' : h = "Floor" ∨ h = "Ceiling" := by simpa using hh
          rcases hh' with rfl | rfl
          · simp [appSem] at hs; rw [hx, ← hs]
          · simp [appSem] at hs; rw [hx, ← hs]
        · cases hr
      · split at hr
        · -- Conjugate
          rename_i _ _ _ hh
          have : h = "Conjugate" := by simpa using hh
          subst this
          simp [appSem] at hs
          subst hs
          split at hr
          · cases hr; exact hx
          · cases hr
        · split at hr
          · -- Log
            rename_i _ _ _ _ hh
            have : h = "Log" := by simpa using hh
            subst this
            simp only [appSem, String.reduceEq, if_false, if_true] at hs
            split at hs
            · rename_i hxpos
              cases hs
              split at hr
              · -- log(b**x')
                rename_i b x'
                split at hr
                · rename_i hq
                  cases hr
                  simp only [Bool.and_eq_true, beq_iff_eq] at hq
                  simp only [wf, Bool.and_eq_true] at hw
                  simp only [evalR] at hx
                  cases hb : evalR ρ b with
                  | none => rw [hb, powSem_base_none] at hx; cases hx
                  | some vb =>
                    have hbpos : 0 < vb := (isPositiveF_sound hA _ b vb hw.1 hb).1 (by simpa [isPositive] using hq.1)
                    rw [hb] at hx
                    obtain ⟨vx, hvx, hxe⟩ := powSem_pos hbpos hx
                    subst hxe
                    simp [evalR, evalFacs, powSem_one, evalArgs, hvx, hb, appSem, hbpos, Real.log_rpow hbpos]
                · cases hr
              · -- log(n), n a perfect power
                rename_i n
                split at hr
                · rename_i hn2
                  simp only at hr
                  split at hr
                  · rename_i hq
                    cases hr
                    simp only [Bool.and_eq_true, bne_iff_ne, ne_eq, beq_iff_eq] at hq
                    simp [evalR] at hx
                    subst hx
                    have hnat : (n : ℝ) = (((perfectPower n.toNat).1 ^ (perfectPower n.toNat).2 : ℕ) : ℝ) := by
                      rw [hq.2]
                      have : ((n.toNat : ℕ) : ℤ) = n := Int.toNat_of_nonneg (by omega)
                      exact_mod_cast this.symm
                    have hbpos : 0 < ((perfectPower n.toNat).1 : ℝ) := by
                      rcases Nat.eq_zero_or_pos (perfectPower n.toNat).1 with h0 | hp
                      · exfalso
                        rw [h0] at hq
                        have h2 := hq.2
                        rcases Nat.eq_zero_or_pos (perfectPower n.toNat).2 with hk0 | hkp
                        · rw [hk0] at h2; simp at h2; omega
                        · rw [Nat.zero_pow hkp] at h2; omega
                      · exact_mod_cast hp
                    rw [hnat, log_rule_perfect_power]
                    simp [evalR, evalFacs, powSem_one, evalArgs, appSem, hbpos]
                  · cases hr
                · cases hr
              · cases hr
            · cases hs
          · cases hr

end SymVerif.C35
