/-
C03 helper lemmas: unfolding of `inv` on Add / Mul / Pow nodes, `factorOK` implies the per-factor
clauses of both `is_canonical` functions, and `Mul::from_dict` re-establishes the invariant.
-/
import SymVerif.Lemmas.C03Num

namespace SymVerif.Arith

theorem canonPairs_iff : ∀ ts : List (Expr × Expr),
    canonPairs ts = true ↔ ∀ p ∈ ts, canon p.1 = true ∧ canon p.2 = true
  | [] => by simp [canonPairs]
  | (k, v) :: t => by
    simp [canonPairs, canonPairs_iff t, and_assoc]

theorem strongPairs_iff : ∀ ts : List (Expr × Expr),
    strongPairs ts = true ↔ ∀ p ∈ ts, strong p.1 = true ∧ strong p.2 = true
  | [] => by simp [strongPairs]
  | (k, v) :: t => by
    simp [strongPairs, strongPairs_iff t, and_assoc]

theorem canonList_iff : ∀ l : List Expr, canonList l = true ↔ ∀ a ∈ l, canon a = true
  | [] => by simp [canonList]
  | a :: t => by simp [canonList, canonList_iff t]

theorem strongList_iff : ∀ l : List Expr, strongList l = true ↔ ∀ a ∈ l, strong a = true
  | [] => by simp [strongList]
  | a :: t => by simp [strongList, strongList_iff t]

theorem inv_iff {e : Expr} : inv e = true ↔ canon e = true ∧ strong e = true := by
  simp [inv]

/-- all entries of a dictionary satisfy the invariant -/
def EntInv (d : Dict) : Prop := ∀ p ∈ d, inv p.1 = true ∧ inv p.2 = true

theorem inv_add_iff {c : Expr} {ts : Dict} :
    inv (.add c ts) = true ↔
      inv c = true ∧ EntInv ts ∧ addCanonTop c ts = true ∧ Sorted ts := by
  simp only [inv_iff, canon, strong, Bool.and_eq_true, canonPairs_iff, strongPairs_iff,
    keysSorted_iff, EntInv]
  constructor
  · rintro ⟨⟨⟨⟨h1, h2⟩, h3⟩, h4⟩, h5, h6⟩
    exact ⟨⟨h1, h5⟩, fun p hp => ⟨⟨(h2 p hp).1, (h6 p hp).1⟩, ⟨(h2 p hp).2, (h6 p hp).2⟩⟩, h3, h4⟩
  · rintro ⟨⟨h1, h5⟩, h2, h3, h4⟩
    exact ⟨⟨⟨⟨h1, fun p hp => ⟨(h2 p hp).1.1, (h2 p hp).2.1⟩⟩, h3⟩, h4⟩, h5,
      fun p hp => ⟨(h2 p hp).1.2, (h2 p hp).2.2⟩⟩

/-- every entry is a normal-form factor -/
def FacOK (d : Dict) : Prop := ∀ p ∈ d, factorOK p.1 p.2 = true

theorem inv_mul_iff {c : Expr} {fs : Dict} :
    inv (.mul c fs) = true ↔
      inv c = true ∧ EntInv fs ∧ mulCanonTop c fs = true ∧ Sorted fs ∧ FacOK fs := by
  simp only [inv_iff, canon, strong, Bool.and_eq_true, canonPairs_iff, strongPairs_iff,
    keysSorted_iff, EntInv, FacOK, List.all_eq_true]
  constructor
  · rintro ⟨⟨⟨⟨h1, h2⟩, h3⟩, h4⟩, ⟨h5, h6⟩, h7⟩
    exact ⟨⟨h1, h5⟩, fun p hp => ⟨⟨(h2 p hp).1, (h6 p hp).1⟩, ⟨(h2 p hp).2, (h6 p hp).2⟩⟩, h3, h4, h7⟩
  · rintro ⟨⟨h1, h5⟩, h2, h3, h4, h7⟩
    exact ⟨⟨⟨⟨h1, fun p hp => ⟨(h2 p hp).1.1, (h2 p hp).2.1⟩⟩, h3⟩, h4⟩,
      ⟨h5, fun p hp => ⟨(h2 p hp).1.2, (h2 p hp).2.2⟩⟩, h7⟩

theorem inv_pow_iff {b e : Expr} :
    inv (.pow b e) = true ↔
      inv b = true ∧ inv e = true ∧ powCanonTop b e = true ∧ factorOK b e = true := by
  simp only [inv_iff, canon, strong, Bool.and_eq_true]
  constructor
  · rintro ⟨⟨⟨h1, h2⟩, h3⟩, ⟨h4, h5⟩, h6⟩
    exact ⟨⟨h1, h4⟩, ⟨h2, h5⟩, h3, h6⟩
  · rintro ⟨⟨h1, h4⟩, ⟨h2, h5⟩, h3, h6⟩
    exact ⟨⟨⟨h1, h2⟩, h3⟩, ⟨h4, h5⟩, h6⟩

theorem inv_canon {e : Expr} (h : inv e = true) : canon e = true := (inv_iff.mp h).1

/-! ### `factorOK` implies the per-factor clauses of `Pow::is_canonical` and `Mul::is_canonical` -/

theorem factorOK_powCanonTop {b e : Expr} (h : factorOK b e = true) (h1 : isIntLit e 1 = false) :
    powCanonTop b e = true := by
  unfold factorOK at h
  unfold powCanonTop
  cases b <;> cases e <;>
    simp_all [isIntLit, isInteger, isRational, isMul, isPow, isNumZero, Expr.isNum, ratIn01,
      numIsZero] <;> omega

theorem factorOK_mulEntryCanon {k v : Expr} (h : factorOK k v = true) :
    mulEntryCanon (k, v) = true := by
  unfold factorOK at h
  unfold mulEntryCanon
  cases k <;> cases v <;>
    simp_all [isIntLit, isInteger, isRational, isMul, isPow, isNumZero, Expr.isNum, ratIn01,
      numIsZero]

/-- the dictionary part of the invariant of a Mul under construction -/
structure MulDictOK (d : Dict) : Prop where
  sorted : Sorted d
  ent : EntInv d
  fac : FacOK d

theorem MulDictOK.nil : MulDictOK [] :=
  ⟨by simp [Sorted], by simp [EntInv], by simp [FacOK]⟩

theorem inv_mul_dict {c : Expr} {fs : Dict} (h : inv (.mul c fs) = true) : MulDictOK fs := by
  obtain ⟨_, h2, _, h4, h5⟩ := inv_mul_iff.mp h
  exact ⟨h4, h2, h5⟩

theorem mulCanonTop_of {coef : Expr} {d : Dict} (hc : NumOK coef) (hz : numIsZero coef = false)
    (hne : d ≠ []) (h1 : d.length ≠ 1 ∨ numIsOne coef = false) (hf : FacOK d) :
    mulCanonTop coef d = true := by
  unfold mulCanonTop
  simp only [Bool.and_eq_true, List.all_eq_true]
  refine ⟨⟨⟨⟨hc.1, by simp [hz]⟩, ?_⟩, ?_⟩, ?_⟩
  · cases d with
    | nil => exact absurd rfl hne
    | cons p r => simp
  · rcases h1 with h1 | h1
    · simp [h1]
    · simp [h1]
  · intro p hp
    exact factorOK_mulEntryCanon (hf p hp)

/-- `Mul::from_dict` re-establishes the invariant -/
theorem mulFromDict_inv {coef : Expr} {d : Dict} (hc : NumOK coef) (hd : MulDictOK d) :
    inv (mulFromDict coef d) = true := by
  unfold mulFromDict
  split
  · exact hc.inv
  · rename_i hz
    have hz : numIsZero coef = false := by simpa using hz
    split
    · exact hc.inv
    · rename_i b e
      have hb := hd.ent (b, e) (by simp)
      have hf := hd.fac (b, e) (by simp)
      split
      · split
        · exact hb.1
        · rename_i h1
          exact inv_pow_iff.mpr ⟨hb.1, hb.2, factorOK_powCanonTop hf (by simpa using h1), hf⟩
      · rename_i h1
        exact inv_mul_iff.mpr ⟨hc.inv, hd.ent,
          mulCanonTop_of hc hz (by simp) (Or.inr (by simpa using h1)) hd.fac, hd.sorted, hd.fac⟩
    · rename_i hne1 hne2
      refine inv_mul_iff.mpr ⟨hc.inv, hd.ent, mulCanonTop_of hc hz ?_ (Or.inl ?_) hd.fac,
        hd.sorted, hd.fac⟩
      · intro e; exact hne1 e
      · intro hl
        match d, hl with
        | [(b, e)], _ => exact hne2 b e rfl

end SymVerif.Arith
