/-
C02, part 4: range of `cmp` (under `WF` alone) and transitivity (under `OK`).
-/
import SymVerif.Lemmas.C02AntiMain

namespace SymVerif
namespace Expr
open TC (Kind)

/-! ### range -/

def Rng (v : Int) : Prop := v = -1 ∨ v = 0 ∨ v = 1

theorem Rng_guard {n m : Nat} {X : Int} (h : n = m → Rng X) :
    Rng (if (n != m) = true then (if n < m then (-1 : Int) else 1) else X) := by
  by_cases e : n = m
  · subst e; simpa using h rfl
  · have : (n != m) = true := by simpa using e
    rw [if_pos this]; unfold Rng; split <;> simp

theorem Rng_tc_ne {a b : Expr} (h : typeCode a ≠ typeCode b) : Rng (cmp a b) := by
  rw [cmp_tc_ne h]; unfold Rng; split <;> simp

theorem cmpArgs_rng : ∀ {as bs : List Expr}, (∀ x ∈ as, ∀ y, WF x = true → WF y = true → Rng (cmp x y)) →
    (∀ x ∈ as, WF x = true) → (∀ y ∈ bs, WF y = true) → as.length = bs.length → Rng (cmpArgs as bs)
  | [], [], _, _, _, _ => by simp [cmpArgs, Rng]
  | [], _ :: _, _, _, _, h => by simp at h
  | _ :: _, [], _, _, _, h => by simp at h
  | a :: t, b :: t', ih, wa, wb, h => by
    rw [cmpArgs_cons]
    split
    · exact ih a (List.mem_cons_self ..) b (wa a (List.mem_cons_self ..)) (wb b (List.mem_cons_self ..))
    · exact cmpArgs_rng (fun x hx => ih x (List.mem_cons_of_mem _ hx))
        (fun x hx => wa x (List.mem_cons_of_mem _ hx)) (fun x hx => wb x (List.mem_cons_of_mem _ hx))
        (by simpa using h)

theorem cmp_rng : ∀ a b, WF a = true → WF b = true → Rng (cmp a b) := by
  intro a
  refine induct_children (fun a => ∀ b, WF a = true → WF b = true → Rng (cmp a b)) ?_ a
  clear a
  intro a ih b wa wb
  by_cases hc : typeCode a = typeCode b
  swap
  · exact Rng_tc_ne hc
  have hx := tc_eq_ctor wa wb hc
  have wca := WF_children wa
  have wcb := WF_children wb
  cases a <;> cases b <;> simp [cix] at hx
  case int.int x y => rw [cmp_int, cmpInt_eq]; exact cmpLin_range _ _
  case rat.rat n d n' d' => rw [cmp_rat]; exact cmpQ_range _ _ _ _
  case cplx.cplx r i r' i' =>
    rw [cmp_cplx]
    split
    · split
      · simp [Rng]
      · exact cmpQ_range _ _ _ _
    · exact cmpQ_range _ _ _ _
  case dbl.dbl x y => rw [cmp_dbl]; unfold cmpDbl Rng; split <;> [simp; (split <;> simp)]
  case cdbl.cdbl r i r' i' =>
    rw [cmp_cdbl]; unfold Rng
    split <;> [simp; (split <;> split <;> simp)]
  case infty.infty x y => rw [cmp_infty, cmpInt_eq]; exact cmpLin_range _ _
  case nan.nan => simp [cmp_nan, Rng]
  case sym.sym x y => rw [cmp_sym, cmpStr_eq]; exact cmpLin_range _ _
  case dummy.dummy n i m j =>
    rw [cmp_dummy]
    split
    · rw [cmpNat_eq]; exact cmpLin_range _ _
    · unfold Rng; split <;> simp
  case const.const x y => rw [cmp_const, cmpStr_eq]; exact cmpLin_range _ _
  case bool.bool x y => cases x <;> cases y <;> simp [cmp_bool, Rng]
  case pow.pow b e b' e' =>
    rw [cmp_pow]; simp only [children] at ih wca wcb
    exact cmpArgs_rng ih wca wcb rfl
  case mul.mul c fs c' fs' =>
    rw [cmp_mul]; simp only [children] at ih wca wcb
    exact Rng_guard (fun hl => cmpArgs_rng ih wca wcb (by simp [flat_length, hl]))
  case add.add c fs c' fs' =>
    rw [cmp_add]; simp only [children] at ih wca wcb
    exact Rng_guard (fun hl => cmpArgs_rng ih wca wcb (by simp [flat_length, hl]))
  case fsym.fsym n as m bs =>
    rw [cmp_fsym]; simp only [children] at ih wca wcb
    split
    · exact Rng_guard (fun hl => cmpArgs_rng ih wca wcb hl)
    · unfold Rng; split <;> simp
  case app.app h as h' bs =>
    simp only [children] at ih wca wcb
    obtain ⟨k, hk, har⟩ := WF_app wa
    obtain ⟨k', hk', har'⟩ := WF_app wb
    have hkk : k' = k := by
      rw [← hc, hk] at hk'; exact (Option.some.inj hk').symm
    subst hkk
    rw [cmp_app hc, hk]
    cases k' with
    | one =>
      obtain ⟨x, rfl⟩ := arityOK_one har
      obtain ⟨y, rfl⟩ := arityOK_one har'
      simp only [appCmp, List.length_cons, List.length_nil, beq_self_eq_true, Bool.and_self, ↓reduceIte]
      exact cmpArgs_rng ih wca wcb rfl
    | two =>
      obtain ⟨x1, x2, rfl⟩ := arityOK_two har
      obtain ⟨y1, y2, rfl⟩ := arityOK_two har'
      simp only [appCmp, List.length_cons, List.length_nil, beq_self_eq_true, Bool.and_self, ↓reduceIte]
      rw [cmpTwo]
      split
      · exact ih x1 (by simp) y1 (wca x1 (by simp)) (wcb y1 (by simp))
      · exact cmpArgs_rng (fun x hx => ih x (List.mem_cons_of_mem _ hx))
          (fun x hx => wca x (List.mem_cons_of_mem _ hx)) (fun x hx => wcb x (List.mem_cons_of_mem _ hx)) rfl
    | multi => simp only [appCmp]; exact Rng_guard (fun hl => cmpArgs_rng ih wca wcb hl)
    | set => simp only [appCmp]; exact Rng_guard (fun hl => cmpArgs_rng ih wca wcb hl)
    | lex n =>
      have l1 := arityOK_lex har
      have l2 := arityOK_lex har'
      simp only [appCmp, l1, l2, beq_self_eq_true, Bool.and_self, ↓reduceIte]
      exact cmpArgs_rng ih wca wcb (by rw [l1, l2])
    | interval =>
      obtain ⟨s, e, lo, ro, rfl⟩ := arityOK_ivFlags har
      obtain ⟨s', e', lo', ro', rfl⟩ := arityOK_ivFlags har'
      have := cmpArgs_rng ih wca wcb rfl
      cases lo <;> cases lo' <;> cases ro <;> cases ro' <;> simp [appCmp, ivFlags, Rng] <;> exact this

/-! ### transitivity -/

/-- the "size / name first" guard is transitive when its tail is -/
theorem guard_trans {n m k : Nat} {X Y Z : Int}
    (h1 : (if (n != m) = true then (if n < m then (-1 : Int) else 1) else X) = -1)
    (h2 : (if (m != k) = true then (if m < k then (-1 : Int) else 1) else Y) = -1)
    (t : n = m → m = k → X = -1 → Y = -1 → Z = -1) :
    (if (n != k) = true then (if n < k then (-1 : Int) else 1) else Z) = -1 := by
  by_cases e1 : n = m <;> by_cases e2 : m = k
  · subst e1; subst e2
    simp only [bne_self_eq_false, Bool.false_eq_true, ↓reduceIte] at h1 h2 ⊢
    exact t rfl rfl h1 h2
  · subst e1
    have a2 : (n != k) = true := by simpa using e2
    rw [if_pos a2] at h2 ⊢; exact h2
  · subst e2
    have a1 : (n != m) = true := by simpa using e1
    rw [if_pos a1] at h1 ⊢; exact h1
  · have a1 : (n != m) = true := by simpa using e1
    have a2 : (m != k) = true := by simpa using e2
    rw [if_pos a1] at h1
    rw [if_pos a2] at h2
    have l1 : n < m := by
      by_contra hh; rw [if_neg hh] at h1; simp at h1
    have l2 : m < k := by
      by_contra hh; rw [if_neg hh] at h2; simp at h2
    have a3 : (n != k) = true := by simp; omega
    rw [if_pos a3, if_pos (by omega)]

theorem tc_le_of_neg {a b : Expr} (h : cmp a b = -1) : typeCode a ≤ typeCode b := by
  by_cases hc : typeCode a = typeCode b
  · omega
  · rw [cmp_tc_ne hc] at h
    by_contra hh
    rw [if_neg (by omega)] at h
    simp at h

theorem cmp_neg_of_tc_lt {a b : Expr} (h : typeCode a < typeCode b) : cmp a b = -1 := by
  rw [cmp_tc_ne (by omega), if_pos h]

/-- hypothesis for the elements of a list: transitivity through arbitrary middle/right elements -/
def TL (l : List Expr) : Prop :=
  ∀ x ∈ l, ∀ y z, OK x → OK y → OK z → cmp x y = -1 → cmp y z = -1 → cmp x z = -1

theorem cmpArgs_trans : ∀ {as bs cs : List Expr}, TL as →
    (∀ x ∈ as, OK x) → (∀ y ∈ bs, OK y) → (∀ z ∈ cs, OK z) →
    cmpArgs as bs = -1 → cmpArgs bs cs = -1 → cmpArgs as cs = -1
  | [], [], _, _, _, _, _, h, _ => by simp [cmpArgs] at h
  | [], _ :: _, _, _, _, _, _, h, _ => by simp [cmpArgs, cmpBad] at h
  | _ :: _, [], _, _, _, _, _, h, _ => by simp [cmpArgs, cmpBad] at h
  | _ :: _, _ :: _, [], _, _, _, _, _, h => by simp [cmpArgs, cmpBad] at h
  | a :: t, b :: t', c :: t'', ih, oa, ob, oc, h1, h2 => by
    have oa0 := oa a (List.mem_cons_self ..)
    have ob0 := ob b (List.mem_cons_self ..)
    have oc0 := oc c (List.mem_cons_self ..)
    have tail := fun (g1 : cmpArgs t t' = -1) (g2 : cmpArgs t' t'' = -1) =>
      cmpArgs_trans (fun x hx => ih x (List.mem_cons_of_mem _ hx))
        (fun x hx => oa x (List.mem_cons_of_mem _ hx)) (fun x hx => ob x (List.mem_cons_of_mem _ hx))
        (fun x hx => oc x (List.mem_cons_of_mem _ hx)) g1 g2
    rw [cmpArgs_cons] at h1 h2 ⊢
    by_cases e1 : cmp a b = 0
    · have ab := (J_all a b oa0 ob0).z e1
      subst ab
      rw [e1] at h1
      simp only [bne_self_eq_false, Bool.false_eq_true, ↓reduceIte] at h1
      by_cases e2 : cmp a c = 0
      · rw [e2] at h2 ⊢
        simp only [bne_self_eq_false, Bool.false_eq_true, ↓reduceIte] at h2 ⊢
        exact tail h1 h2
      · have : (cmp a c != 0) = true := by simpa using e2
        rw [if_pos this] at h2 ⊢
        exact h2
    · have n1 : (cmp a b != 0) = true := by simpa using e1
      rw [if_pos n1] at h1
      by_cases e2 : cmp b c = 0
      · have bc := (J_all b c ob0 oc0).z e2
        subst bc
        rw [if_pos n1]; exact h1
      · have n2 : (cmp b c != 0) = true := by simpa using e2
        rw [if_pos n2] at h2
        have ac := ih a (List.mem_cons_self ..) b c oa0 ob0 oc0 h1 h2
        rw [ac]; rfl

/-! leaves -/

theorem cmpQ_self_of_canon (n : Int) (d : Nat) : cmpQ n d n d = 0 := by simp [cmpQ]

theorem T_cplx {r1 i1 r2 i2 r3 i3 : Q}
    (c1 : qCanon r1.num r1.den = true ∧ qCanon i1.num i1.den = true)
    (c2 : qCanon r2.num r2.den = true ∧ qCanon i2.num i2.den = true)
    (c3 : qCanon r3.num r3.den = true ∧ qCanon i3.num i3.den = true)
    (h1 : cmp (cplx r1 i1) (cplx r2 i2) = -1) (h2 : cmp (cplx r2 i2) (cplx r3 i3) = -1) :
    cmp (cplx r1 i1) (cplx r3 i3) = -1 := by
  rw [cmp_cplx] at h1 h2 ⊢
  have qne : ∀ {a b : Q}, cmpQ a.num a.den b.num b.den = -1 → (a == b) = false := by
    intro a b h
    rw [Bool.eq_false_iff]; intro e
    have : a = b := by simpa using e
    subst this
    rw [cmpQ_self_of_canon] at h; cases h
  by_cases e1 : r1 = r2 <;> by_cases e2 : r2 = r3
  · subst e1; subst e2
    simp only [beq_self_eq_true, ↓reduceIte] at h1 h2 ⊢
    by_cases f1 : i1 = i2
    · subst f1; simp at h1
    · have g1 : (i1 == i2) = false := by simpa using f1
      rw [g1] at h1; simp only [Bool.false_eq_true, ↓reduceIte] at h1
      by_cases f2 : i2 = i3
      · subst f2; simp at h2
      · have g2 : (i2 == i3) = false := by simpa using f2
        rw [g2] at h2; simp only [Bool.false_eq_true, ↓reduceIte] at h2
        have t := cmpQ_trans c1.2 c2.2 c3.2 h1 h2
        rw [qne t]; simpa using t
  · subst e1
    have g2 : (r1 == r3) = false := by simpa using e2
    rw [g2] at h2 ⊢; exact h2
  · subst e2
    have g1 : (r1 == r2) = false := by simpa using e1
    rw [g1] at h1 ⊢; exact h1
  · have g1 : (r1 == r2) = false := by simpa using e1
    have g2 : (r2 == r3) = false := by simpa using e2
    rw [g1] at h1; rw [g2] at h2
    simp only [Bool.false_eq_true, ↓reduceIte] at h1 h2
    have t := cmpQ_trans c1.1 c2.1 c3.1 h1 h2
    rw [qne t]; simpa using t

theorem T_dummy {n1 n2 n3 : String} {i1 i2 i3 : Nat}
    (h1 : cmp (dummy n1 i1) (dummy n2 i2) = -1) (h2 : cmp (dummy n2 i2) (dummy n3 i3) = -1) :
    cmp (dummy n1 i1) (dummy n3 i3) = -1 := by
  rw [cmp_dummy] at h1 h2 ⊢
  by_cases e1 : n1 = n2 <;> by_cases e2 : n2 = n3
  · subst e1; subst e2
    simp only [beq_self_eq_true, ↓reduceIte, cmpNat_eq] at h1 h2 ⊢
    exact cmpLin_trans _ _ _ h1 h2
  · subst e1
    have g2 : (n1 == n3) = false := by simpa using e2
    rw [g2] at h2 ⊢; exact h2
  · subst e2
    have g1 : (n1 == n2) = false := by simpa using e1
    rw [g1] at h1 ⊢; exact h1
  · have g1 : (n1 == n2) = false := by simpa using e1
    have g2 : (n2 == n3) = false := by simpa using e2
    rw [g1] at h1; rw [g2] at h2
    simp only [Bool.false_eq_true, ↓reduceIte] at h1 h2
    have l1 : n1 < n2 := by
      by_contra hh; rw [if_neg hh] at h1; simp at h1
    have l2 : n2 < n3 := by
      by_contra hh; rw [if_neg hh] at h2; simp at h2
    have l3 := lt_trans l1 l2
    have g3 : (n1 == n3) = false := by simpa using (ne_of_lt l3)
    rw [g3]; simp only [Bool.false_eq_true, ↓reduceIte]
    rw [if_pos l3]

theorem T_cdbl {r1 i1 r2 i2 r3 i3 : UInt64}
    (n1 : dblIsNaN r1 = false ∧ dblIsNaN i1 = false) (n2 : dblIsNaN r2 = false ∧ dblIsNaN i2 = false)
    (n3 : dblIsNaN r3 = false ∧ dblIsNaN i3 = false)
    (h1 : cmp (cdbl r1 i1) (cdbl r2 i2) = -1) (h2 : cmp (cdbl r2 i2) (cdbl r3 i3) = -1) :
    cmp (cdbl r1 i1) (cdbl r3 i3) = -1 := by
  rw [cmp_cdbl] at h1 h2 ⊢
  have qe : ∀ {x y : UInt64}, dblIsNaN x = false → dblIsNaN y = false →
      dblEq x y = decide (dblKey x = dblKey y) := by
    intro x y hx hy; rw [Bool.eq_iff_iff]; simp [dblEq_iff hx hy]
  have ql : ∀ {x y : UInt64}, dblIsNaN x = false → dblIsNaN y = false →
      dblLt x y = decide (dblKey x < dblKey y) := by
    intro x y hx hy; rw [Bool.eq_iff_iff]; simp [dblLt_iff hx hy]
  rw [qe n1.1 n2.1, qe n1.2 n2.2, ql n1.1 n2.1, ql n1.2 n2.2] at h1
  rw [qe n2.1 n3.1, qe n2.2 n3.2, ql n2.1 n3.1, ql n2.2 n3.2] at h2
  rw [qe n1.1 n3.1, qe n1.2 n3.2, ql n1.1 n3.1, ql n1.2 n3.2]
  simp only [Bool.and_eq_true, decide_eq_true_eq] at h1 h2 ⊢
  split_ifs at h1 h2 ⊢ <;> omega

/-- the four flag tests of `Interval::compare` order the intervals by a rank -/
def ivRank (lo ro : Bool) : Nat := (if lo then 0 else 2) + (if ro then 1 else 0)

theorem appCmp_interval {s e s' e' : Expr} {lo ro lo' ro' : Bool} {X Y : Int} :
    appCmp (some Kind.interval) [s, e, bool lo, bool ro] [s', e', bool lo', bool ro'] X Y =
      (if (ivRank lo ro != ivRank lo' ro') = true then (if ivRank lo ro < ivRank lo' ro' then (-1 : Int) else 1)
       else X) := by
  cases lo <;> cases lo' <;> cases ro <;> cases ro' <;> simp [appCmp, ivFlags, ivRank]

theorem T_all : ∀ a b c, OK a → OK b → OK c → cmp a b = -1 → cmp b c = -1 → cmp a c = -1 := by
  intro a
  refine induct_children
    (fun a => ∀ b c, OK a → OK b → OK c → cmp a b = -1 → cmp b c = -1 → cmp a c = -1) ?_ a
  clear a
  intro a ih b c oa ob oc h1 h2
  have le1 := tc_le_of_neg h1
  have le2 := tc_le_of_neg h2
  by_cases hlt : typeCode a < typeCode c
  · exact cmp_neg_of_tc_lt hlt
  have hc1 : typeCode a = typeCode b := by omega
  have hc2 : typeCode b = typeCode c := by omega
  have hx1 := tc_eq_ctor oa.1 ob.1 hc1
  have hx2 := tc_eq_ctor ob.1 oc.1 hc2
  have tl : TL (children a) := fun x hx y z ox oy oz => ih x hx y z ox oy oz
  have oca := oa.children
  have ocb := ob.children
  have occ := oc.children
  cases a <;> cases b <;> simp [cix] at hx1 <;> cases c <;> simp [cix] at hx2
  case int.int.int x y z =>
    rw [cmp_int, cmpInt_eq] at h1 h2 ⊢; exact cmpLin_trans _ _ _ h1 h2
  case rat.rat.rat n d n' d' n'' d'' =>
    rw [cmp_rat] at h1 h2 ⊢
    exact cmpQ_trans (by simpa [WF] using oa.1) (by simpa [WF] using ob.1) (by simpa [WF] using oc.1) h1 h2
  case cplx.cplx.cplx r1 i1 r2 i2 r3 i3 =>
    exact T_cplx (by simpa [WF] using oa.1) (by simpa [WF] using ob.1) (by simpa [WF] using oc.1) h1 h2
  case dbl.dbl.dbl x y z =>
    rw [cmp_dbl, cmpDbl_eq (OK_dbl oa).1 (OK_dbl ob).1] at h1
    rw [cmp_dbl, cmpDbl_eq (OK_dbl ob).1 (OK_dbl oc).1] at h2
    rw [cmp_dbl, cmpDbl_eq (OK_dbl oa).1 (OK_dbl oc).1]
    exact cmpLin_trans _ _ _ h1 h2
  case cdbl.cdbl.cdbl r1 i1 r2 i2 r3 i3 =>
    exact T_cdbl (OK_cdbl oa).1 (OK_cdbl ob).1 (OK_cdbl oc).1 h1 h2
  case infty.infty.infty x y z =>
    rw [cmp_infty, cmpInt_eq] at h1 h2 ⊢; exact cmpLin_trans _ _ _ h1 h2
  case nan.nan.nan => simp [cmp_nan] at h1
  case sym.sym.sym x y z =>
    rw [cmp_sym, cmpStr_eq] at h1 h2 ⊢; exact cmpLin_trans _ _ _ h1 h2
  case dummy.dummy.dummy n1 i1 n2 i2 n3 i3 => exact T_dummy h1 h2
  case const.const.const x y z =>
    rw [cmp_const, cmpStr_eq] at h1 h2 ⊢; exact cmpLin_trans _ _ _ h1 h2
  case bool.bool.bool x y z =>
    cases x <;> cases y <;> cases z <;> simp [cmp_bool] at h1 h2 ⊢
  case pow.pow.pow b1 e1 b2 e2 b3 e3 =>
    simp only [children] at tl oca ocb occ
    rw [cmp_pow] at h1 h2 ⊢
    exact cmpArgs_trans tl oca ocb occ h1 h2
  case mul.mul.mul c1 f1 c2 f2 c3 f3 =>
    simp only [children] at tl oca ocb occ
    rw [cmp_mul] at h1 h2 ⊢
    exact guard_trans h1 h2 (fun _ _ g1 g2 => cmpArgs_trans tl oca ocb occ g1 g2)
  case add.add.add c1 f1 c2 f2 c3 f3 =>
    simp only [children] at tl oca ocb occ
    rw [cmp_add] at h1 h2 ⊢
    exact guard_trans h1 h2 (fun _ _ g1 g2 => cmpArgs_trans tl oca ocb occ g1 g2)
  case fsym.fsym.fsym n1 a1 n2 a2 n3 a3 =>
    simp only [children] at tl oca ocb occ
    rw [cmp_fsym] at h1 h2 ⊢
    by_cases e1 : n1 = n2 <;> by_cases e2 : n2 = n3
    · subst e1; subst e2
      simp only [beq_self_eq_true, ↓reduceIte] at h1 h2 ⊢
      exact guard_trans h1 h2 (fun _ _ g1 g2 => cmpArgs_trans tl oca ocb occ g1 g2)
    · subst e1
      have g2 : (n1 == n3) = false := by simpa using e2
      rw [g2] at h2 ⊢; exact h2
    · subst e2
      have g1 : (n1 == n2) = false := by simpa using e1
      rw [g1] at h1 ⊢; exact h1
    · have g1 : (n1 == n2) = false := by simpa using e1
      have g2 : (n2 == n3) = false := by simpa using e2
      rw [g1] at h1; rw [g2] at h2
      simp only [Bool.false_eq_true, ↓reduceIte] at h1 h2
      have l1 : n1 < n2 := by
        by_contra hh; rw [if_neg hh] at h1; simp at h1
      have l2 : n2 < n3 := by
        by_contra hh; rw [if_neg hh] at h2; simp at h2
      have l3 := lt_trans l1 l2
      have g3 : (n1 == n3) = false := by simpa using (ne_of_lt l3)
      rw [g3]; simp only [Bool.false_eq_true, ↓reduceIte]
      rw [if_pos l3]
  case app.app.app hd1 a1 hd2 a2 hd3 a3 =>
    simp only [children] at tl oca ocb occ
    obtain ⟨k, hk, har1⟩ := WF_app oa.1
    obtain ⟨k2, hk2, har2⟩ := WF_app ob.1
    obtain ⟨k3, hk3, har3⟩ := WF_app oc.1
    have e2 : k2 = k := by
      rw [← hc1, hk] at hk2; exact (Option.some.inj hk2).symm
    subst e2
    have e3 : k3 = k2 := by
      rw [← hc2, hk2] at hk3; exact (Option.some.inj hk3).symm
    subst e3
    rw [cmp_app hc1, hk] at h1
    rw [cmp_app hc2, hk2] at h2
    rw [cmp_app (hc1.trans hc2), hk]
    cases k3 with
    | one =>
      obtain ⟨x, rfl⟩ := arityOK_one har1
      obtain ⟨y, rfl⟩ := arityOK_one har2
      obtain ⟨z, rfl⟩ := arityOK_one har3
      simp only [appCmp, List.length_cons, List.length_nil, beq_self_eq_true, Bool.and_self, ↓reduceIte]
        at h1 h2 ⊢
      exact cmpArgs_trans tl oca ocb occ h1 h2
    | two =>
      obtain ⟨x1, x2, rfl⟩ := arityOK_two har1
      obtain ⟨y1, y2, rfl⟩ := arityOK_two har2
      obtain ⟨z1, z2, rfl⟩ := arityOK_two har3
      simp only [appCmp, List.length_cons, List.length_nil, beq_self_eq_true, Bool.and_self, ↓reduceIte]
        at h1 h2 ⊢
      have ox := oca x1 (by simp)
      have oy := ocb y1 (by simp)
      have oz := occ z1 (by simp)
      rw [cmpTwo_eq (J_all x1 y1 ox oy) ox] at h1
      rw [cmpTwo_eq (J_all y1 z1 oy oz) oy] at h2
      rw [cmpTwo_eq (J_all x1 z1 ox oz) ox]
      exact cmpArgs_trans tl oca ocb occ h1 h2
    | multi =>
      simp only [appCmp] at h1 h2 ⊢
      exact guard_trans h1 h2 (fun _ _ g1 g2 => cmpArgs_trans tl oca ocb occ g1 g2)
    | set =>
      simp only [appCmp] at h1 h2 ⊢
      exact guard_trans h1 h2 (fun _ _ g1 g2 => cmpArgs_trans tl oca ocb occ g1 g2)
    | lex n =>
      have l1 := arityOK_lex har1
      have l2 := arityOK_lex har2
      have l3 := arityOK_lex har3
      simp only [appCmp, l1, l2, l3, beq_self_eq_true, Bool.and_self, ↓reduceIte] at h1 h2 ⊢
      exact cmpArgs_trans tl oca ocb occ h1 h2
    | interval =>
      obtain ⟨s1, e1, lo1, ro1, rfl⟩ := arityOK_ivFlags har1
      obtain ⟨s2, e2, lo2, ro2, rfl⟩ := arityOK_ivFlags har2
      obtain ⟨s3, e3, lo3, ro3, rfl⟩ := arityOK_ivFlags har3
      rw [appCmp_interval] at h1 h2 ⊢
      exact guard_trans h1 h2 (fun _ _ g1 g2 => cmpArgs_trans tl oca ocb occ g1 g2)

end Expr
end SymVerif
