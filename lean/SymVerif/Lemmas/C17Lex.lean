/-
Tokenizer round trip for `Model/Parser.lean`: the text of a token, followed by a byte that cannot extend it, is
read back as that token (`lexTok_text`); a rendered token sequence with arbitrary whitespace between the tokens is
read back as the sequence (`lexAll_render`).  Core Lean only.
-/
import SymVerif.Model.Parser

namespace SymVerif
namespace Parser

/-! ### byte classes -/

theorem alpha_not_dig {c : UInt8} (h : isAlpha c = true) : isDig c = false := by
  simp only [isAlpha, Bool.or_eq_true, Bool.and_eq_true, decide_eq_true_eq, beq_iff_eq] at h
  simp only [isDig, Bool.and_eq_false_iff, decide_eq_false_iff_not]
  simp only [UInt8.le_iff_toNat_le, ← UInt8.toNat_inj] at h ⊢
  simp at h ⊢
  omega

theorem alpha_ne {c : UInt8} (h : isAlpha c = true) : c ≠ 0 ∧ c ≠ 46 := by
  simp only [isAlpha, Bool.or_eq_true, Bool.and_eq_true, decide_eq_true_eq, beq_iff_eq] at h
  simp only [UInt8.le_iff_toNat_le, ← UInt8.toNat_inj] at h
  constructor <;> (intro hc; subst hc; simp at h)

theorem dig_ne {c : UInt8} (h : isDig c = true) : c ≠ 0 ∧ c ≠ 46 ∧ isAlpha c = false := by
  refine ⟨?_, ?_, ?_⟩
  · intro hc; subst hc; revert h; decide
  · intro hc; subst hc; revert h; decide
  · cases ha : isAlpha c
    · rfl
    · rw [alpha_not_dig ha] at h; cases h

theorem ws_props {c : UInt8} (h : isWs c = true) :
    isIdCont c = false ∧ isDig c = false ∧ isAlpha c = false ∧ c ≠ 46 ∧ c ≠ 42 ∧ c ≠ 61 ∧ c ≠ 0 := by
  simp only [isWs, Bool.or_eq_true, beq_iff_eq] at h
  rcases h with (((h | h) | h) | h) | h <;> subst h <;> decide

/-! ### scanning a run -/

theorem scanWhile_append (p : UInt8 → Bool) : ∀ (xs : Bytes) (c : UInt8) (rest : Bytes),
    (∀ x ∈ xs, p x = true) → p c = false → scanWhile p (xs ++ c :: rest) = .ok (xs, c :: rest)
  | [], c, rest, _, hc => by
    simp only [List.nil_append]
    unfold scanWhile
    simp [hc]
  | x :: xs, c, rest, hx, hc => by
    simp only [List.cons_append]
    unfold scanWhile
    rw [if_pos (hx x (by simp))]
    rw [scanWhile_append p xs c rest (fun y hy => hx y (by simp [hy])) hc]

/-! ### token texts -/

def tokText : Tok → Bytes
  | .eof => [0]
  | .op c => [c]
  | .pow => [42, 42]
  | .le => [60, 61]
  | .ge => [62, 61]
  | .ne => [33, 61]
  | .eq => [61, 61]
  | .pwise => pwiseText
  | .ident s => s
  | .num s => s
  | .imul s => s

def AllDig (l : Bytes) : Prop := ∀ x ∈ l, isDig x = true

/-- `([eE][-+]?dig+)?` -/
def IsExp (ex : Bytes) : Prop :=
  ex = [] ∨ ∃ e ds, (e = 101 ∨ e = 69) ∧ ds ≠ [] ∧ AllDig ds ∧
    (ex = e :: ds ∨ ∃ sg, (sg = 43 ∨ sg = 45) ∧ ex = e :: sg :: ds)

/-- the texts of the `numeric` rule -/
inductive IsNumeral : Bytes → Prop
  | int (a ex : Bytes) : a ≠ [] → AllDig a → IsExp ex → IsNumeral (a ++ ex)
  | frac (a b ex : Bytes) : AllDig a → AllDig b → b ≠ [] → IsExp ex → IsNumeral (a ++ 46 :: b ++ ex)
  | dot (a : Bytes) : a ≠ [] → AllDig a → IsNumeral (a ++ [46])

/-- `char (char | dig)*` -/
def IsIdText (s : Bytes) : Prop := ∃ c t, s = c :: t ∧ isAlpha c = true ∧ ∀ x ∈ t, isIdCont x = true

theorem lexExp_text {ex : Bytes} (hex : IsExp ex) (h : UInt8) (rest : Bytes) (hd : isDig h = false)
    (he : ex = [] → h ≠ 101 ∧ h ≠ 69) : lexExp (ex ++ h :: rest) = .ok (ex, h :: rest) := by
  rcases hex with rfl | ⟨e, ds, hE, hne, hds, hx⟩
  · obtain ⟨h1, h2⟩ := he rfl
    simp only [List.nil_append]
    unfold lexExp
    have : (h == 101 || h == 69) = false := by simp [h1, h2]
    simp [this]
  · have heE : (e == 101 || e == 69) = true := by rcases hE with rfl | rfl <;> decide
    obtain ⟨d0, ds', rfl⟩ := List.exists_cons_of_ne_nil hne
    have hd0 : isDig d0 = true := hds d0 (by simp)
    rcases hx with rfl | ⟨sg, hsg, rfl⟩
    · -- no sign: the first exponent digit is not a sign
      have hns : (d0 == 43 || d0 == 45) = false := by
        cases h43 : (d0 == 43 || d0 == 45)
        · rfl
        · simp only [Bool.or_eq_true, beq_iff_eq] at h43
          rcases h43 with rfl | rfl <;> revert hd0 <;> decide
      simp only [List.cons_append]
      unfold lexExp
      simp only [heE, if_true, hns, Bool.false_eq_true, if_false]
      have := scanWhile_append isDig (d0 :: ds') h rest hds hd
      simp only [List.cons_append] at this
      rw [this]
      simp
    · have hs : (sg == 43 || sg == 45) = true := by rcases hsg with rfl | rfl <;> decide
      simp only [List.cons_append]
      unfold lexExp
      simp only [heE, if_true, hs]
      have := scanWhile_append isDig (d0 :: ds') h rest hds hd
      simp only [List.cons_append] at this
      rw [this]
      simp

theorem lexNumTail_num (text : Bytes) (h : UInt8) (rest : Bytes) (ha : isAlpha h = false) :
    lexNumTail text (h :: rest) = .ok (.num text, h :: rest) := by
  unfold lexNumTail
  simp [ha]

theorem lexNumTail_imul (text id : Bytes) (hid : IsIdText id) (h : UInt8) (rest : Bytes)
    (hh : isIdCont h = false) :
    lexNumTail text (id ++ h :: rest) = .ok (.imul (text ++ id), h :: rest) := by
  obtain ⟨c, t, rfl, hc, ht⟩ := hid
  have hall : ∀ x ∈ c :: t, isIdCont x = true := by
    intro x hx
    rcases List.mem_cons.mp hx with rfl | hx
    · simp [isIdCont, hc]
    · exact ht x hx
  have := scanWhile_append isIdCont (c :: t) h rest hall hh
  simp only [List.cons_append] at this ⊢
  unfold lexNumTail
  simp only [hc, if_true, this]

/-- the exponent-or-tail part of a numeral followed by `T` starts with a non-digit that is not `.` -/
theorem exp_head {ex : Bytes} (hex : IsExp ex) (h : UInt8) (T : Bytes) (hd : isDig h = false) (h46 : h ≠ 46) :
    ∃ d L, ex ++ h :: T = d :: L ∧ isDig d = false ∧ d ≠ 46 := by
  rcases hex with rfl | ⟨e, ds, hE, _, _, hx⟩
  · exact ⟨h, T, rfl, hd, h46⟩
  · have : isDig e = false ∧ e ≠ 46 := by rcases hE with rfl | rfl <;> decide
    rcases hx with rfl | ⟨sg, _, rfl⟩
    · exact ⟨e, _, rfl, this.1, this.2⟩
    · exact ⟨e, _, rfl, this.1, this.2⟩

/-- `lexNumber` on a numeral followed by a tail whose first byte cannot extend the numeral -/
theorem lexNumber_text {x : Bytes} (hx : IsNumeral x) (h : UInt8) (T : Bytes)
    (hd : isDig h = false) (h46 : h ≠ 46) (he : h ≠ 101 ∧ h ≠ 69) :
    lexNumber (x ++ h :: T) = lexNumTail x (h :: T) := by
  cases hx with
  | int a ex hne ha hex =>
    obtain ⟨d, L, hL, hdd, hd46⟩ := exp_head hex h T hd h46
    have hs : scanWhile isDig (a ++ ex ++ h :: T) = .ok (a, ex ++ h :: T) := by
      rw [List.append_assoc, hL]
      exact scanWhile_append isDig a d L ha hdd
    unfold lexNumber
    rw [hs]
    simp only
    rw [hL]
    simp only
    have : (d == 46) = false := by simp [hd46]
    rw [← hL]
    simp only [this, Bool.false_eq_true, if_false]
    rw [lexExp_text hex h T hd (fun _ => he)]
  | frac a b ex ha hb hbne hex =>
    obtain ⟨d, L, hL, hdd, hd46⟩ := exp_head hex h T hd h46
    have hs : scanWhile isDig (a ++ 46 :: b ++ ex ++ h :: T) = .ok (a, 46 :: (b ++ (ex ++ h :: T))) := by
      have : a ++ 46 :: b ++ ex ++ h :: T = a ++ 46 :: (b ++ (ex ++ h :: T)) := by simp
      rw [this]
      exact scanWhile_append isDig a 46 _ ha (by decide)
    have hs2 : scanWhile isDig (b ++ (ex ++ h :: T)) = .ok (b, ex ++ h :: T) := by
      rw [hL]; exact scanWhile_append isDig b d L hb hdd
    unfold lexNumber
    rw [hs]
    simp only [beq_self_eq_true, if_true, hs2]
    have hbe : b.isEmpty = false := by cases b <;> simp_all
    simp only [hbe, Bool.false_eq_true, if_false]
    rw [lexExp_text hex h T hd (fun _ => he)]
  | dot a hne ha =>
    have hs : scanWhile isDig (a ++ [46] ++ h :: T) = .ok (a, 46 :: h :: T) := by
      have : a ++ [46] ++ h :: T = a ++ 46 :: (h :: T) := by simp
      rw [this]
      exact scanWhile_append isDig a 46 _ ha (by decide)
    have hs2 : scanWhile isDig (h :: T) = .ok ([], h :: T) := by
      unfold scanWhile; simp [hd]
    unfold lexNumber
    rw [hs]
    simp only [beq_self_eq_true, if_true, hs2, List.isEmpty_nil]
    have hae : a.isEmpty = false := by cases a <;> simp_all
    simp only [hae, Bool.false_eq_true, if_false]

theorem numeral_head {x : Bytes} (hx : IsNumeral x) :
    ∃ c r, x = c :: r ∧ (isDig c || c == 46) = true ∧ c ≠ 0 := by
  have dig : ∀ (a : Bytes) (tl : Bytes), a ≠ [] → AllDig a →
      ∃ c r, a ++ tl = c :: r ∧ (isDig c || c == 46) = true ∧ c ≠ 0 := by
    intro a tl hne ha
    obtain ⟨c, t, rfl⟩ := List.exists_cons_of_ne_nil hne
    have hc := ha c (by simp)
    exact ⟨c, t ++ tl, rfl, by simp [hc], (dig_ne hc).1⟩
  cases hx with
  | int a ex hne ha _ => exact dig a ex hne ha
  | frac a b ex ha _ _ _ =>
    cases a with
    | nil => exact ⟨46, _, rfl, by decide, by decide⟩
    | cons c t =>
      have := dig (c :: t) (46 :: b ++ ex) (by simp) ha
      simpa using this
  | dot a hne ha => exact dig a [46] hne ha

/-! ### one token -/

/-- tokens the printer emits, with well-formed texts -/
def ValidTok : Tok → Prop
  | .ident s => IsIdText s ∧ s ≠ pwiseText
  | .num s => IsNumeral s
  | .imul s => ∃ n id, IsNumeral n ∧ IsIdText id ∧ (∀ c t, id = c :: t → c ≠ 101 ∧ c ≠ 69) ∧ s = n ++ id
  | .op c => isOp1 c = true ∨ c = 42 ∨ c = 60 ∨ c = 62
  | .eof => False
  | .pwise => False
  | _ => True

/-- the byte after the token text does not extend the token -/
def Follow : Tok → UInt8 → Prop
  | .ident _, h => isIdCont h = false
  | .imul _, h => isIdCont h = false
  | .num _, h => isDig h = false ∧ h ≠ 46 ∧ isAlpha h = false
  | .op c, h => (c = 42 → h ≠ 42) ∧ ((c = 60 ∨ c = 62) → h ≠ 61)
  | _, _ => True

theorem idCont_of_alpha {c : UInt8} (h : isAlpha c = true) : isIdCont c = true := by simp [isIdCont, h]

theorem not_alpha_of_not_idCont {c : UInt8} (h : isIdCont c = false) : isAlpha c = false ∧ isDig c = false := by
  simp only [isIdCont, Bool.or_eq_false_iff] at h; exact h

theorem lexTok_text {t : Tok} (hv : ValidTok t) (h : UInt8) (rest : Bytes) (hf : Follow t h) :
    lexTok (tokText t ++ h :: rest) = .ok (t, h :: rest) := by
  cases t with
  | eof => exact absurd hv id
  | pwise => exact absurd hv id
  | ident s =>
    obtain ⟨⟨c, tl, rfl, hc, htl⟩, hne⟩ := hv
    have hs := scanWhile_append isIdCont tl h rest htl hf
    simp only [tokText, List.cons_append]
    unfold lexTok
    have h0 : (c == 0) = false := by simp [(alpha_ne hc).1]
    have hnum : (isDig c || c == 46) = false := by simp [alpha_not_dig hc, (alpha_ne hc).2]
    simp only [h0, Bool.false_eq_true, if_false, hnum, hc, if_true, hs, if_neg hne]
  | num s =>
    obtain ⟨hd, h46, ha⟩ := hf
    obtain ⟨c, r, rfl, hc, hc0⟩ := numeral_head hv
    have he : h ≠ 101 ∧ h ≠ 69 := by
      constructor <;> (intro hh; subst hh; revert ha; decide)
    have hl := lexNumber_text hv h rest hd h46 he
    simp only [tokText] at hl ⊢
    simp only [List.cons_append] at hl ⊢
    unfold lexTok
    have h0 : (c == 0) = false := by simp [hc0]
    simp only [h0, Bool.false_eq_true, if_false, hc, if_true]
    rw [hl]
    exact lexNumTail_num _ h rest ha
  | imul s =>
    obtain ⟨n, id, hn, hid, hne, rfl⟩ := hv
    obtain ⟨c, r, rfl, hc, hc0⟩ := numeral_head hn
    obtain ⟨ic, it, rfl, hic, hit⟩ := hid
    have hicE := hne ic it rfl
    have hl := lexNumber_text hn ic (it ++ h :: rest) (alpha_not_dig hic) (alpha_ne hic).2 hicE
    have ht := lexNumTail_imul (c :: r) (ic :: it) ⟨ic, it, rfl, hic, hit⟩ h rest hf
    simp only [tokText, List.cons_append, List.append_assoc] at hl ht ⊢
    unfold lexTok
    have h0 : (c == 0) = false := by simp [hc0]
    simp only [h0, Bool.false_eq_true, if_false, hc, if_true]
    rw [hl]
    exact ht
  | pow =>
    simp only [tokText, List.cons_append, List.nil_append]
    unfold lexTok
    simp [isDig, isAlpha]
  | le => simp only [tokText, List.cons_append, List.nil_append]; unfold lexTok; simp [isDig, isAlpha]
  | ge => simp only [tokText, List.cons_append, List.nil_append]; unfold lexTok; simp [isDig, isAlpha]
  | ne => simp only [tokText, List.cons_append, List.nil_append]; unfold lexTok; simp [isDig, isAlpha]
  | eq => simp only [tokText, List.cons_append, List.nil_append]; unfold lexTok; simp [isDig, isAlpha]
  | op c =>
    obtain ⟨hf1, hf2⟩ := hf
    simp only [tokText, List.cons_append, List.nil_append]
    rcases hv with hv | rfl | rfl | rfl
    · simp only [isOp1, Bool.or_eq_true, beq_iff_eq] at hv
      rcases hv with ((((((((rfl | rfl) | rfl) | rfl) | rfl) | rfl) | rfl) | rfl) | rfl) | rfl <;>
        (unfold lexTok; simp [isDig, isAlpha, isOp1])
    · have : (h == 42) = false := by simp [hf1 rfl]
      unfold lexTok
      simp [isDig, isAlpha, this]
    · have : (h == 61) = false := by simp [hf2 (Or.inl rfl)]
      unfold lexTok
      simp [isDig, isAlpha, this]
    · have : (h == 61) = false := by simp [hf2 (Or.inr rfl)]
      unfold lexTok
      simp [isDig, isAlpha, this]

/-! ### a rendered token sequence -/

def AllWs (l : Bytes) : Prop := ∀ x ∈ l, isWs x = true

/-- the bytes of a token sequence with the whitespace `ws i` in front of the i-th token -/
def render (ws : Nat → Bytes) : Nat → List Tok → Bytes
  | _, [] => []
  | i, t :: r => ws i ++ (tokText t ++ render ws (i + 1) r)

def firstByte (t : Tok) : UInt8 := (tokText t).headD 0

/-- wherever no whitespace separates two tokens, the first byte of the second does not extend the first -/
def SepOK (ws : Nat → Bytes) : Nat → List Tok → Prop
  | i, t1 :: t2 :: r => (ws (i + 1) = [] → Follow t1 (firstByte t2)) ∧ SepOK ws (i + 1) (t2 :: r)
  | _, _ => True

theorem follow_of_ws {c : UInt8} (h : isWs c = true) (t : Tok) : Follow t c := by
  obtain ⟨h1, h2, h3, h4, h5, h6, _⟩ := ws_props h
  cases t <;> simp only [Follow] <;> first | trivial | exact h1 | exact ⟨h2, h4, h3⟩ | exact ⟨fun _ => h5, fun _ => h6⟩

theorem tok_head {t : Tok} (hv : ValidTok t ∨ t = .eof) :
    ∃ c tl, tokText t = c :: tl ∧ isWs c = false := by
  rcases hv with hv | rfl
  · cases t with
    | eof => exact absurd hv id
    | pwise => exact absurd hv id
    | ident s =>
      obtain ⟨⟨c, tl, rfl, hc, _⟩, _⟩ := hv
      refine ⟨c, tl, rfl, ?_⟩
      cases hw : isWs c
      · rfl
      · rw [(ws_props hw).2.2.1] at hc; cases hc
    | num s =>
      obtain ⟨c, r, rfl, hc, _⟩ := numeral_head hv
      refine ⟨c, r, rfl, ?_⟩
      cases hw : isWs c
      · rfl
      · obtain ⟨_, h2, _, h4, _⟩ := ws_props hw
        simp [h2, h4] at hc
    | imul s =>
      obtain ⟨n, id, hn, _, _, rfl⟩ := hv
      obtain ⟨c, r, rfl, hc, _⟩ := numeral_head hn
      refine ⟨c, r ++ id, rfl, ?_⟩
      cases hw : isWs c
      · rfl
      · obtain ⟨_, h2, _, h4, _⟩ := ws_props hw
        simp [h2, h4] at hc
    | pow => exact ⟨42, [42], rfl, by decide⟩
    | le => exact ⟨60, [61], rfl, by decide⟩
    | ge => exact ⟨62, [61], rfl, by decide⟩
    | ne => exact ⟨33, [61], rfl, by decide⟩
    | eq => exact ⟨61, [61], rfl, by decide⟩
    | op c =>
      refine ⟨c, [], rfl, ?_⟩
      rcases hv with hv | rfl | rfl | rfl
      · simp only [isOp1, Bool.or_eq_true, beq_iff_eq] at hv
        rcases hv with ((((((((rfl | rfl) | rfl) | rfl) | rfl) | rfl) | rfl) | rfl) | rfl) | rfl <;> decide
      · decide
      · decide
      · decide
  · exact ⟨0, [], rfl, by decide⟩

/-- the first byte of a rendered non-empty sequence: a whitespace byte, or the first byte of the first token -/
theorem render_head (ws : Nat → Bytes) (hws : ∀ i, AllWs (ws i)) (j : Nat) (t : Tok) (r : List Tok)
    (hv : ValidTok t ∨ t = .eof) :
    ∃ h R, render ws j (t :: r) = h :: R ∧ ((ws j ≠ [] ∧ isWs h = true) ∨ (ws j = [] ∧ h = firstByte t)) := by
  obtain ⟨c, tl, hc, _⟩ := tok_head hv
  cases hw : ws j with
  | nil =>
    refine ⟨c, tl ++ render ws (j + 1) r, ?_, Or.inr ⟨rfl, ?_⟩⟩
    · simp [render, hw, hc]
    · simp [firstByte, hc]
  | cons w wt =>
    refine ⟨w, wt ++ (tokText t ++ render ws (j + 1) r), ?_, Or.inl ⟨by simp, ?_⟩⟩
    · simp [render, hw]
    · exact hws j w (by simp [hw])

/-- **Tokenizer round trip**: a sequence of valid tokens, rendered with arbitrary whitespace (possibly none) between
them - none only where the next byte cannot extend the previous token - and terminated by NUL, is read back as
exactly that sequence followed by END_OF_FILE. -/
theorem lexAll_render (ws : Nat → Bytes) (hws : ∀ i, AllWs (ws i)) :
    ∀ (L : List Tok) (i f : Nat), (∀ t ∈ L, ValidTok t) → SepOK ws i (L ++ [.eof]) → L.length + 1 ≤ f →
      lexAll f (render ws i (L ++ [.eof])) = .ok (L ++ [.eof])
  | [], i, f, _, _, hf => by
    obtain ⟨f', rfl⟩ : ∃ f', f = f' + 1 := ⟨f - 1, by simp at hf; omega⟩
    have hs : scanWhile isWs (ws i ++ 0 :: []) = .ok (ws i, [0]) :=
      scanWhile_append isWs (ws i) 0 [] (hws i) (by decide)
    simp only [List.nil_append, render, tokText, List.append_nil]
    unfold lexAll lex
    rw [hs]
    simp [lexTok]
  | t :: r, i, f, hv, hsep, hf => by
    obtain ⟨f', rfl⟩ : ∃ f', f = f' + 1 := ⟨f - 1, by simp at hf; omega⟩
    have hvt : ValidTok t := hv t (by simp)
    obtain ⟨c, tl, hc, hcw⟩ := tok_head (Or.inl hvt)
    -- what follows the token
    have hnext : ∃ t2 r2, r ++ [Tok.eof] = t2 :: r2 ∧ (ValidTok t2 ∨ t2 = .eof) := by
      cases r with
      | nil => exact ⟨.eof, [], rfl, Or.inr rfl⟩
      | cons t2 r2 => exact ⟨t2, r2 ++ [.eof], rfl, Or.inl (hv t2 (by simp))⟩
    obtain ⟨t2, r2, hr, hv2⟩ := hnext
    obtain ⟨h, R, hR, hh⟩ := render_head ws hws (i + 1) t2 r2 hv2
    have hfollow : Follow t h := by
      rcases hh with ⟨_, hw⟩ | ⟨hw, rfl⟩
      · exact follow_of_ws hw t
      · have : SepOK ws i (t :: t2 :: r2) := by
          have := hsep
          simp only [List.cons_append, hr] at this
          exact this
        exact this.1 hw
    have hs : scanWhile isWs (ws i ++ c :: (tl ++ render ws (i + 1) (r ++ [.eof])))
        = .ok (ws i, c :: (tl ++ render ws (i + 1) (r ++ [.eof]))) :=
      scanWhile_append isWs (ws i) c _ (hws i) hcw
    have ht := lexTok_text hvt h R hfollow
    have hne : t ≠ .eof := by intro h0; subst h0; exact hvt
    have hsep' : SepOK ws (i + 1) (r ++ [.eof]) := by
      have := hsep
      simp only [List.cons_append, hr] at this
      rw [hr]
      exact this.2
    have ih := lexAll_render ws hws r (i + 1) f' (fun t ht => hv t (by simp [ht])) hsep'
      (by simp at hf; omega)
    simp only [List.cons_append, render, hc]
    unfold lexAll lex
    rw [hs]
    simp only
    have ht' : lexTok (c :: (tl ++ render ws (i + 1) (r ++ [Tok.eof]))) = .ok (t, render ws (i + 1) (r ++ [Tok.eof])) := by
      rw [hr, hR]
      have := ht
      rw [hc] at this
      simpa using this
    rw [ht']
    simp only [hne, if_false]
    rw [ih]

theorem render_snoc_eof (ws : Nat → Bytes) : ∀ (L : List Tok) (i : Nat),
    render ws i (L ++ [.eof]) = render ws i L ++ (ws (i + L.length) ++ [0])
  | [], i => by simp [render, tokText]
  | t :: r, i => by
    simp only [List.cons_append, render, List.length_cons]
    rw [render_snoc_eof ws r (i + 1)]
    have : i + 1 + r.length = i + (r.length + 1) := by omega
    rw [this]
    simp only [List.append_assoc]

theorem render_length (ws : Nat → Bytes) : ∀ (L : List Tok) (i : Nat), (∀ t ∈ L, ValidTok t) →
    L.length ≤ (render ws i L).length
  | [], _, _ => by simp [render]
  | t :: r, i, hv => by
    obtain ⟨c, tl, hc, _⟩ := tok_head (Or.inl (hv t (by simp)))
    have := render_length ws r (i + 1) (fun t ht => hv t (by simp [ht]))
    simp only [render, hc, List.length_append, List.length_cons]
    omega

/-- the string handed to `parse`: the rendered tokens and trailing whitespace (the terminator is the string's own) -/
def renderInput (ws : Nat → Bytes) (L : List Tok) : Bytes := render ws 0 L ++ ws L.length

/-- the model tokenizer applied to the rendered string, as `Parser::parse` applies it -/
theorem lexAll_renderInput (ws : Nat → Bytes) (hws : ∀ i, AllWs (ws i)) (L : List Tok)
    (hv : ∀ t ∈ L, ValidTok t) (hsep : SepOK ws 0 (L ++ [.eof])) :
    lexAll ((renderInput ws L).length + 2) (renderInput ws L ++ [0]) = .ok (L ++ [.eof]) := by
  have h1 : renderInput ws L ++ [0] = render ws 0 (L ++ [.eof]) := by
    rw [render_snoc_eof]; simp [renderInput]
  rw [h1]
  apply lexAll_render ws hws L 0 _ hv hsep
  have := render_length ws L 0 hv
  simp only [renderInput, List.length_append]
  omega

end Parser
end SymVerif
