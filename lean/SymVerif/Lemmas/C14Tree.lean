/-
C14, simulation for operator trees: `run ∘ compileT = evalT`, and SSA well-formedness.
-/
import SymVerif.Lemmas.C14Sim

namespace SymVerif.LLVMD
open SymVerif.EvalG

variable {α : Type}

/-- the value a bound symbol must denote -/
def symVal (venv : String → Option α) (name : String) : RV α :=
  match venv name with
  | some x => .f x
  | none => .err .runtime

/-- the compile-time environment agrees with the value environment in register file `regs` -/
def EnvOK (env : String → Option (Val α)) (venv : String → Option α) (regs : List (RV α)) : Prop :=
  ∀ name v, env name = some v → Holds regs v (symVal venv name)

theorem EnvOK.exec {env : String → Option (Val α)} {venv : String → Option α} {regs : List (RV α)}
    (h : EnvOK env venv regs) (L : LOps α) (xs : List α) (A : Prog α) : EnvOK env venv (exec L xs regs A) :=
  fun name v hv => (h name v hv).exec L xs A

theorem all2_exec {regs : List (RV α)} {vs : List (Val α)} {rs : List (RV α)}
    (h : All2 (Holds regs) vs rs) (L : LOps α) (xs : List α) (A : Prog α) :
    All2 (Holds (exec L xs regs A)) vs rs := forall2_exec h L xs A

mutual
  /-- **Simulation.**  Whatever `compileT` appends to a program computes, in every register file
  in which the environment is right, the reference value of the tree. -/
  theorem compileT_sim (L : LOps α) (xs : List α) (env : String → Option (Val α)) (venv : String → Option α) :
      ∀ (t : T α) (P : Prog α) (v : Val α) (P' : Prog α), compileT L env t P = .ok (v, P') →
        ∃ ext, P' = P ++ ext ∧ ∀ regs, regs.length = P.length → EnvOK env venv regs →
          Holds (exec L xs regs ext) v (evalT L venv t)
    | .cst x, P, v, P', h => by
      simp only [compileT] at h
      cases h
      exact ⟨[], by simp, fun regs _ _ => by simpa [exec, evalT] using Holds.cf regs x⟩
    | .sym n, P, v, P', h => by
      simp only [compileT] at h
      cases hn : env n with
      | none => rw [hn] at h; cases h
      | some w =>
        rw [hn] at h
        cases h
        refine ⟨[], by simp, fun regs _ he => ?_⟩
        have := he n v hn
        simp only [exec]
        refine ⟨this.1, ?_⟩
        rw [this.2]
        cases hvn : venv n <;> simp [symVal, evalT, hvn]
    | .op k args, P, v, P', h => by
      simp only [compileT] at h
      cases hc : compileTs L env args P with
      | error e => rw [hc] at h; cases h
      | ok r =>
        obtain ⟨vs, P1⟩ := r
        rw [hc] at h
        simp only at h
        obtain ⟨e1, he1, hs1⟩ := compileTs_sim L xs env venv args P vs P1 hc
        obtain ⟨e2, he2, hs2⟩ := emitOp_ok L xs k vs P1 (v, P') h
        refine ⟨e1 ++ e2, by simp only at he2; rw [he2, he1, List.append_assoc], ?_⟩
        intro regs hlen henv
        have h1 := hs1 regs hlen henv
        have hl1 : (exec L xs regs e1).length = P1.length := by
          rw [exec_length, he1, hlen, List.length_append]
        have h2 := hs2 (exec L xs regs e1) _ hl1 h1
        rw [exec_append]
        simpa [evalT] using h2
    | .pw c a b, P, v, P', h => by
      simp only [compileT] at h
      cases hc : compileT L env c P with
      | error e => rw [hc] at h; cases h
      | ok r =>
        obtain ⟨vc, P1⟩ := r
        rw [hc] at h
        simp only at h
        obtain ⟨e1, he1, hs1⟩ := compileT_sim L xs env venv c P vc P1 hc
        obtain ⟨e2, he2, hs2⟩ := mkFCmp_ok L xs .one vc (.cf (zeroF L)) P1
        generalize hic : mkFCmp L .one vc (.cf (zeroF L)) P1 = icP at h he2 hs2
        obtain ⟨ic, P2⟩ := icP
        simp only [emit] at h
        cases ha : compileT L env a (P2 ++ [.condbr ic]) with
        | error e => rw [ha] at h; cases h
        | ok ra =>
          obtain ⟨va, P4⟩ := ra
          rw [ha] at h
          simp only at h
          cases hb : compileT L env b P4 with
          | error e => rw [hb] at h; cases h
          | ok rb =>
            obtain ⟨vb, P5⟩ := rb
            rw [hb] at h
            simp only [Except.ok.injEq, Prod.mk.injEq] at h
            obtain ⟨hv, hP'⟩ := h
            obtain ⟨e4, he4, hs4⟩ := compileT_sim L xs env venv a _ va P4 ha
            obtain ⟨e5, he5, hs5⟩ := compileT_sim L xs env venv b P4 vb P5 hb
            simp only at he2
            refine ⟨e1 ++ (e2 ++ ([.condbr ic] ++ (e4 ++ (e5 ++ [.phi ic va vb])))), ?_, ?_⟩
            · rw [← hP', he5, he4, he2, he1]; simp [List.append_assoc]
            · intro regs hlen henv
              have h1 := hs1 regs hlen henv
              have hl1 : (exec L xs regs e1).length = P1.length := by
                rw [exec_length, he1, hlen, List.length_append]
              have h2 := hs2 (exec L xs regs e1) [_, _] hl1 (.cons h1 (.cons (Holds.cf _ _) .nil))
              simp only at h2
              have hl2 : (exec L xs (exec L xs regs e1) e2).length = P2.length := by
                rw [exec_length, he2, hl1, List.length_append]
              have hl3 : (exec L xs (exec L xs (exec L xs regs e1) e2) [.condbr ic]).length = (P2 ++ [Instr.condbr ic]).length := by
                rw [exec_length, hl2, List.length_append]
              have henv3 : EnvOK env venv (exec L xs (exec L xs (exec L xs regs e1) e2) [.condbr ic]) :=
                ((henv.exec L xs e1).exec L xs e2).exec L xs _
              have h4 := hs4 _ hl3 henv3
              have hl4 : (exec L xs (exec L xs (exec L xs (exec L xs regs e1) e2) [.condbr ic]) e4).length = P4.length := by
                rw [exec_length, he4, hl3]; simp [List.length_append]; omega
              have h5 := hs5 _ hl4 (henv3.exec L xs e4)
              have hl5 : (exec L xs (exec L xs (exec L xs (exec L xs (exec L xs regs e1) e2) [.condbr ic]) e4) e5).length = P5.length := by
                rw [exec_length, he5, hl4, List.length_append]
              have hic5 := (((h2.exec L xs [.condbr ic]).exec L xs e4).exec L xs e5)
              have ha5 := h4.exec L xs e5
              have hphi := Holds.emit L xs _ P5 (.phi ic va vb) hl5
              rw [exec_append, exec_append, exec_append, exec_append, exec_append]
              rw [← hv]
              have hphi2 := hphi.2
              simp only [emit] at hphi2
              refine ⟨by simpa [emit] using hphi.1, ?_⟩
              rw [hphi2]
              simp [stepVal, hic5.2, ha5.2, h5.2, evalT]

  theorem compileTs_sim (L : LOps α) (xs : List α) (env : String → Option (Val α)) (venv : String → Option α) :
      ∀ (ts : List (T α)) (P : Prog α) (vs : List (Val α)) (P' : Prog α), compileTs L env ts P = .ok (vs, P') →
        ∃ ext, P' = P ++ ext ∧ ∀ regs, regs.length = P.length → EnvOK env venv regs →
          All2 (Holds (exec L xs regs ext)) vs (evalTs L venv ts)
    | [], P, vs, P', h => by
      simp only [compileTs] at h
      cases h
      exact ⟨[], by simp, fun regs _ _ => by simpa [exec, evalTs] using All2.nil⟩
    | t :: ts, P, vs, P', h => by
      simp only [compileTs] at h
      cases ht : compileT L env t P with
      | error e => rw [ht] at h; cases h
      | ok r =>
        obtain ⟨v, P1⟩ := r
        rw [ht] at h
        simp only at h
        cases hts : compileTs L env ts P1 with
        | error e => rw [hts] at h; cases h
        | ok r2 =>
          obtain ⟨vs2, P2⟩ := r2
          rw [hts] at h
          simp only [Except.ok.injEq, Prod.mk.injEq] at h
          obtain ⟨hvs, hP'⟩ := h
          obtain ⟨e1, he1, hs1⟩ := compileT_sim L xs env venv t P v P1 ht
          obtain ⟨e2, he2, hs2⟩ := compileTs_sim L xs env venv ts P1 vs2 P2 hts
          refine ⟨e1 ++ e2, by rw [← hP', he2, he1, List.append_assoc], ?_⟩
          intro regs hlen henv
          have h1 := hs1 regs hlen henv
          have hl1 : (exec L xs regs e1).length = P1.length := by
            rw [exec_length, he1, hlen, List.length_append]
          have h2 := hs2 _ hl1 (henv.exec L xs e1)
          rw [exec_append, ← hvs]
          simpa [evalTs] using All2.cons (h1.exec L xs e2) h2
end

end SymVerif.LLVMD
