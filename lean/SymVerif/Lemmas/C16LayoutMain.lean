/-
C16 — `layout e` is well-parenthesised for every printable expression `e` (the precedence argument).
-/
import SymVerif.Lemmas.C16Layout

namespace SymVerif.StrP
open Expr

/-- `t` is a well-parenthesised tree whose level is at least what the C++ precedence class of `e` promises -/
def GE (e : Expr) (t : PExpr) : Prop := WP t = true ∧ need (cprec e) ≤ lv t

theorem edge17 (t : PExpr) (h : 17 ≤ lv t) : 34 ≤ edge t := by
  cases t with
  | bin o a b => cases o <;> simp [lv, edge] at h ⊢
  | neg c => simp [lv] at h
  | num s => simp [edge]
  | id s => simp [edge]
  | call f args => simp [edge]
  | paren c => simp [edge]

theorem mk_bin {o : BinOp} {a b : PExpr} (ha : WP a = true) (hb : WP b = true) (h1 : lbp o ≤ 2 * lv a)
    (h2 : lbp o ≤ edge a) (h3 : rbp o < 2 * lv b) : WP (.bin o a b) = true := wp_bin.2 ⟨ha, hb, h1, h2, h3⟩

/-! ### parenthesizeLT / parenthesizeLE -/

theorem parLT_wp {e : Expr} {t : PExpr} {p : Nat} (h : GE e t) : WP (parLT e t p) = true := by
  unfold parLT; split
  · rw [wp_paren]; exact h.1
  · exact h.1

theorem parLT_lv {e : Expr} {t : PExpr} {p : Nat} (h : GE e t) : need p ≤ lv (parLT e t p) := by
  unfold parLT; split
  · simp only [lv, levelAtom_val]; exact need_le_17 p
  · have : p ≤ cprec e := by omega
    exact Nat.le_trans (need_mono this) h.2

theorem parLT_lv_ne {e : Expr} {t : PExpr} {p : Nat} (h : GE e t) (hne : cprec e ≠ p) :
    need (p + 1) ≤ lv (parLT e t p) := by
  unfold parLT; split
  · simp only [lv, levelAtom_val]; exact need_le_17 _
  · have : p + 1 ≤ cprec e := by omega
    exact Nat.le_trans (need_mono this) h.2

theorem parLE_wp {e : Expr} {t : PExpr} {p : Nat} (h : GE e t) : WP (parLE e t p) = true := by
  unfold parLE; split
  · rw [wp_paren]; exact h.1
  · exact h.1

theorem parLE_lv {e : Expr} {t : PExpr} {p : Nat} (h : GE e t) : need (p + 1) ≤ lv (parLE e t p) := by
  unfold parLE; split
  · simp only [lv, levelAtom_val]; exact need_le_17 _
  · have : p + 1 ≤ cprec e := by omega
    exact Nat.le_trans (need_mono this) h.2

/-- `StrPrinter::_print_pow` -/
theorem powP_ok {b e : Expr} {tb te : PExpr} (hb : GE b tb) (he : GE e te) :
    WP (powP b e tb te) = true ∧ 14 ≤ lv (powP b e tb te) := by
  unfold powP
  split
  · simp [WP, WPs, lv, he.1]
  · split
    · simp [WP, WPs, lv, hb.1]
    · have l1 : 17 ≤ lv (parLE b tb 3) := parLE_lv (p := 3) hb
      have l2 : 17 ≤ lv (parLE e te 3) := parLE_lv (p := 3) he
      have e1 := edge17 _ l1
      refine ⟨mk_bin (parLE_wp hb) (parLE_wp he) ?_ ?_ ?_, by simp [lv]⟩
      · simp [lbp]; omega
      · simp [lbp]; omega
      · simp; omega

/-! ### number leaves -/

theorem natP_ok (n : Nat) : WP (natP n) = true ∧ lv (natP n) = 17 := by simp [natP, WP, lv]

theorem intP_ok (n : Int) : WP (intP n) = true ∧ 12 ≤ lv (intP n) ∧ (¬ n < 0 → lv (intP n) = 17) := by
  unfold intP
  split
  · rename_i h
    exact ⟨by rw [wp_neg]; simp [natP, WP, lv], by simp [lv], fun h' => absurd h h'⟩
  · simp [natP, WP, lv]

theorem ratP_ok (n : Int) (d : Nat) : WP (ratP n d) = true ∧ 11 ≤ lv (ratP n d) := by
  unfold ratP
  obtain ⟨w, l, _⟩ := intP_ok n
  split
  · exact ⟨w, by omega⟩
  · have e := edge12 _ l
    exact ⟨mk_bin w (natP_ok d).1 (by simp [lbp]; omega) (by simp [lbp]; omega) (by simp [(natP_ok d).2]), by simp [lv]⟩

theorem ratAbsP_ok (n d : Nat) : WP (ratAbsP n d) = true ∧ 11 ≤ lv (ratAbsP n d) := by
  unfold ratAbsP
  split
  · simp [natP, WP, lv]
  · exact ⟨mk_bin (natP_ok n).1 (natP_ok d).1 (by simp [lbp, (natP_ok n).2]) (by simp [lbp, natP, edge])
      (by simp [(natP_ok d).2]), by simp [lv]⟩

theorem imagP_ok : WP imagP = true ∧ lv imagP = 17 ∧ edge imagP = 34 := by simp [imagP, WP, lv, edge]

theorem mulI_ok (t : PExpr) (h : WP t = true) (hl : 11 ≤ lv t) :
    WP (.bin .mul t imagP) = true ∧ lv (.bin .mul t imagP) = 11 := by
  have e := edge11 t hl
  exact ⟨mk_bin h imagP_ok.1 (by simp [lbp]; omega) (by simp [lbp]; omega) (by simp [imagP_ok.2.1]), by simp [lv]⟩

theorem int_GE (n : Int) : GE (int n) (intP n) := by
  obtain ⟨w, l, l'⟩ := intP_ok n
  refine ⟨w, ?_⟩
  simp only [cprec]
  split
  · simp [need]; omega
  · rename_i h; simp [need, l' h]

theorem rat_GE (n : Int) (d : Nat) : GE (rat n d) (ratP n d) := by
  obtain ⟨w, l⟩ := ratP_ok n d
  exact ⟨w, by simp [cprec, need]; omega⟩

theorem cplx_GE (re im : Q) : GE (cplx re im) (cplxP re im) := by
  unfold GE cplxP cprec
  by_cases hre : re.num = 0
  · -- purely imaginary
    simp only [hre, bne_self_eq_false, Bool.false_eq_true, if_false, beq_self_eq_true, if_true]
    by_cases hu : (im.den == 1 && (im.num == 1 || im.num == -1)) = true
    · simp only [hu, if_true]
      by_cases hp : im.num > 0
      · simp only [hp, if_true]
        refine ⟨imagP_ok.1, ?_⟩
        rw [imagP_ok.2.1]; exact need_le_17 _
      · simp only [hp, if_false]
        have hq : qIsOne im = false := by
          simp only [qIsOne, Bool.and_eq_false_iff, beq_eq_false_iff_ne]
          left; omega
        simp only [hq, Bool.false_eq_true, if_false]
        refine ⟨by rw [wp_neg]; simp [imagP_ok.1, imagP_ok.2.1], by simp [need, lv]⟩
    · simp only [hu, Bool.false_eq_true, if_false]
      have hq : qIsOne im = false := by
        cases h : qIsOne im with
        | false => rfl
        | true =>
          exfalso; apply hu
          simp only [qIsOne, Bool.and_eq_true, beq_iff_eq] at h
          simp [h.1, h.2]
      simp only [hq, Bool.false_eq_true, if_false]
      obtain ⟨w, l⟩ := ratP_ok im.num im.den
      obtain ⟨w', l'⟩ := mulI_ok _ w l
      exact ⟨w', by simp [need, l']⟩
  · -- non-zero real part: a sum
    have hre' : (re.num != 0) = true := by simp [hre]
    have hre'' : (re.num == 0) = false := by simp [hre]
    simp only [hre', if_true, hre'', Bool.false_eq_true, if_false]
    obtain ⟨wr, lr⟩ := ratP_ok re.num re.den
    have er := edge11 _ lr
    have hi : ∀ (p : Prop) [Decidable p], WP (if p then imagP else .bin .mul (ratAbsP im.num.natAbs im.den) imagP) = true ∧
        11 ≤ lv (if p then imagP else .bin .mul (ratAbsP im.num.natAbs im.den) imagP) := by
      intro p _
      split
      · exact ⟨imagP_ok.1, by rw [imagP_ok.2.1]; omega⟩
      · obtain ⟨w, l⟩ := ratAbsP_ok im.num.natAbs im.den
        obtain ⟨w', l'⟩ := mulI_ok _ w l
        exact ⟨w', by omega⟩
    have hh := hi ((im.den == 1 && (im.num == 1 || im.num == -1)) = true)
    split
    · exact ⟨mk_bin wr hh.1 (by simp [lbp]; omega) (by simp [lbp]; omega) (by rw [rbp_add]; have := hh.2; omega),
        by simp [need, lv]⟩
    · exact ⟨mk_bin wr hh.1 (by simp [lbp]; omega) (by simp [lbp]; omega) (by rw [rbp_sub]; have := hh.2; omega),
        by simp [need, lv]⟩

theorem dblP_ok (b : UInt64) : WP (dblP b) = true ∧ 12 ≤ lv (dblP b) ∧ (dblSign b = false → lv (dblP b) = 17) := by
  unfold dblP
  split
  · rename_i h
    exact ⟨by rw [wp_neg]; simp [WP, lv], by simp [lv], fun h' => by simp [h] at h'⟩
  · simp [WP, lv]

theorem dbl_GE (b : UInt64) (hp : (!dblSign b || dblIsNeg b) = true) : GE (dbl b) (dblP b) := by
  obtain ⟨w, l, l'⟩ := dblP_ok b
  refine ⟨w, ?_⟩
  simp only [cprec]
  split
  · simp [need]; omega
  · rename_i h
    have : dblSign b = false := by
      cases hs : dblSign b with
      | false => rfl
      | true => simp [hs] at hp; exact absurd hp h
    simp [need, l' this]

theorem cdbl_GE (r i : UInt64) : GE (cdbl r i) (cdblP r i) := by
  unfold GE cdblP
  obtain ⟨wr, lr, _⟩ := dblP_ok r
  have er := edge12 _ lr
  have hm : ∀ x : UInt64, WP (.bin .mul (dblP x) imagP) = true ∧ lv (.bin .mul (dblP x) imagP) = 11 := by
    intro x
    obtain ⟨w, l, _⟩ := dblP_ok x
    exact mulI_ok _ w (by omega)
  split
  · obtain ⟨w, l⟩ := hm (i ^^^ negZeroBits)
    exact ⟨mk_bin wr w (by simp [lbp]; omega) (by simp [lbp]; omega) (by simp [l]), by simp [cprec, need, lv]⟩
  · obtain ⟨w, l⟩ := hm i
    exact ⟨mk_bin wr w (by simp [lbp]; omega) (by simp [lbp]; omega) (by simp [l]), by simp [cprec, need, lv]⟩

theorem isNum_cprec {c : Expr} (h : isNum c = true) : 1 ≤ cprec c := by
  cases c <;> simp [isNum] at h <;> simp [cprec] <;> (repeat' split) <;> omega

theorem negNum_GE {e : Expr} (h : isNegRat e = true) : GE (negNum e) (numP (negNum e)) := by
  cases e <;> simp [isNegRat] at h
  · exact int_GE _
  · exact rat_GE _ _

/-! ### sums -/

theorem mem_insertTerm {x y : Item} : ∀ {l : List Item}, y ∈ insertTerm x l → y = x ∨ y ∈ l
  | [], h => by simp [insertTerm] at h; exact Or.inl h
  | z :: t, h => by
    unfold insertTerm at h
    split at h
    · simp at h; rcases h with h | h | h <;> simp [h]
    · split at h
      · simp at h
        rcases h with h | h
        · simp [h]
        · rcases mem_insertTerm h with h | h <;> simp [h]
      · exact Or.inr h

theorem mem_foldl_insertTerm {y : Item} : ∀ (l acc : List Item),
    y ∈ l.foldl (fun acc x => insertTerm x acc) acc → y ∈ acc ∨ y ∈ l
  | [], acc, h => Or.inl h
  | x :: l, acc, h => by
    simp only [List.foldl] at h
    rcases mem_foldl_insertTerm l _ h with h | h
    · rcases mem_insertTerm h with h | h
      · exact Or.inr (by simp [h])
      · exact Or.inl h
    · exact Or.inr (by simp [h])

theorem mem_sortTerms {y : Item} {l : List Item} (h : y ∈ sortTerms l) : y ∈ l := by
  rcases mem_foldl_insertTerm l [] h with h | h
  · simp at h
  · exact h

theorem chainAdd_all (l : List PExpr) (h : ∀ u ∈ l, WP u = true ∧ 11 ≤ lv u) :
    WP (chainAdd l) = true ∧ 10 ≤ lv (chainAdd l) := by
  cases l with
  | nil => simp [chainAdd, WP, lv]
  | cons t rest =>
    have ht := h t (by simp)
    exact foldl_add_wp rest t ht.1 (by omega) (fun u hu => h u (by simp [hu]))

theorem chainMul_all (l : List PExpr) (h : ∀ u ∈ l, WP u = true ∧ 12 ≤ lv u) :
    WP (chainMul l) = true ∧ 11 ≤ lv (chainMul l) := by
  cases l with
  | nil => simp [chainMul, WP, lv]
  | cons t rest =>
    have ht := h t (by simp)
    exact foldl_mul_wp rest t ht.1 (by omega) (fun u hu => h u (by simp [hu]))

/-- what the induction knows about one dictionary entry with its two sub-layouts -/
def ItemOK (x : Item) : Prop := GE x.1 x.2.2.1 ∧ GE x.2.1 x.2.2.2

theorem termP_ok {k v : Expr} {tk tv : PExpr} (hk : GE k tk) (hv : GE v tv)
    (hkey : isInt v 1 = true → cprec k ≠ 1) : WP (termP k v tk tv) = true ∧ 11 ≤ lv (termP k v tk tv) := by
  unfold termP
  split
  · rename_i h1
    exact ⟨parLT_wp hk, parLT_lv_ne (p := 1) hk (hkey h1)⟩
  · split
    · have w := parLT_wp (p := 2) hk
      have l : 11 ≤ lv (parLT k tk 2) := parLT_lv (p := 2) hk
      exact ⟨(negLeft_wp _ w).1, negLeft_lv _ w l (by omega)⟩
    · have w := parLT_wp (p := 2) hk
      have l : 11 ≤ lv (parLT k tk 2) := parLT_lv (p := 2) hk
      have wc := parLT_wp (p := 2) hv
      have lc : 11 ≤ lv (parLT v tv 2) := parLT_lv (p := 2) hv
      exact ⟨(mulLeft_wp _ wc lc _ w).1, mulLeft_lv _ wc lc _ w l⟩

theorem addP_ok (c : Expr) (tc : PExpr) (items : List Item) (hc : GE c tc) (hnum : 1 ≤ cprec c)
    (hi : ∀ x ∈ items, ItemOK x ∧ (isInt x.2.1 1 = true → cprec x.1 ≠ 1)) :
    WP (addP c tc items) = true ∧ 10 ≤ lv (addP c tc items) := by
  unfold addP
  have hts : ∀ u ∈ (sortTerms items).map (fun (x : Item) => match x with
      | (k, v, tk, tv) => termP k v tk tv), WP u = true ∧ 11 ≤ lv u := by
    intro u hu
    rw [List.mem_map] at hu
    obtain ⟨x, hx, rfl⟩ := hu
    obtain ⟨k, v, tk, tv⟩ := x
    obtain ⟨⟨hk, hv⟩, hkey⟩ := hi _ (mem_sortTerms hx)
    exact termP_ok hk hv hkey
  simp only
  split
  · exact chainAdd_all _ hts
  · cases hl : (sortTerms items).map (fun (x : Item) => match x with
      | (k, v, tk, tv) => termP k v tk tv) with
    | nil =>
      simp only [chainAdd, List.foldl]
      exact ⟨hc.1, Nat.le_trans (need_mono hnum) hc.2⟩
    | cons t rest =>
      rw [hl] at hts
      simp only [chainAdd]
      exact foldl_add_wp (t :: rest) tc hc.1 (Nat.le_trans (need_mono hnum) hc.2) hts

/-! ### products -/

theorem mulP_ok (c : Expr) (tc : PExpr) (fs : List Item) (hc : GE c tc)
    (hi : ∀ x ∈ fs, ItemOK x ∧ ((isInt x.2.1 1 || isInt x.2.1 (-1)) = true → cprec x.1 ≠ 2)) :
    WP (mulP c tc fs) = true ∧ 11 ≤ lv (mulP c tc fs) := by
  unfold mulP
  simp only
  -- numerator factors
  have hnum : ∀ u ∈ (fs.filter fun (x : Item) => match x with
        | (b, e, _, _) => !(isNegRat e && !(isE b))).map (fun (x : Item) => match x with
        | (b, e, tb, te) => if isInt e 1 = true then parLT b tb 2 else powP b e tb te),
      WP u = true ∧ 12 ≤ lv u := by
    intro u hu
    rw [List.mem_map] at hu
    obtain ⟨x, hx, rfl⟩ := hu
    obtain ⟨b, e, tb, te⟩ := x
    obtain ⟨⟨hb, he⟩, hkey⟩ := hi _ (List.mem_filter.1 hx).1
    have hb : GE b tb := hb
    have he : GE e te := he
    have hkey : (isInt e 1 || isInt e (-1)) = true → cprec b ≠ 2 := hkey
    simp only
    split
    · rename_i h1
      have : 14 ≤ lv (parLT b tb 2) := parLT_lv_ne (p := 2) hb (hkey (by simp [h1]))
      exact ⟨parLT_wp hb, by omega⟩
    · obtain ⟨w, l⟩ := powP_ok hb he
      exact ⟨w, by omega⟩
  -- denominator factors
  have hden : ∀ u ∈ (fs.filter fun (x : Item) => match x with
        | (b, e, _, _) => (isNegRat e && !(isE b))).map (fun (x : Item) => match x with
        | (b, e, tb, _) => if isInt e (-1) = true then parLT b tb 2 else powP b (negNum e) tb (numP (negNum e))),
      WP u = true ∧ 12 ≤ lv u := by
    intro u hu
    rw [List.mem_map] at hu
    obtain ⟨x, hx, rfl⟩ := hu
    obtain ⟨b, e, tb, te⟩ := x
    have hx' := List.mem_filter.1 hx
    obtain ⟨⟨hb, he⟩, hkey⟩ := hi _ hx'.1
    have hb : GE b tb := hb
    have hkey : (isInt e 1 || isInt e (-1)) = true → cprec b ≠ 2 := hkey
    have hneg : isNegRat e = true := by
      have := hx'.2
      simp only [Bool.and_eq_true] at this
      exact this.1
    simp only
    split
    · rename_i h1
      have : 14 ≤ lv (parLT b tb 2) := parLT_lv_ne (p := 2) hb (hkey (by simp [h1]))
      exact ⟨parLT_wp hb, by omega⟩
    · obtain ⟨w, l⟩ := powP_ok hb (negNum_GE hneg)
      exact ⟨w, by omega⟩
  -- the numerator chain
  have hnumT : ∀ (ci : List PExpr), (ci = [] ∨ ci = [parLT c tc 2]) →
      ∀ nf : List PExpr, (∀ u ∈ nf, WP u = true ∧ 12 ≤ lv u) →
      WP (chainMul (ci ++ nf)) = true ∧ 11 ≤ lv (chainMul (ci ++ nf)) := by
    intro ci hci nf hnf
    rcases hci with rfl | rfl
    · simpa using chainMul_all nf hnf
    · simp only [List.singleton_append, chainMul]
      exact foldl_mul_wp nf _ (parLT_wp hc) (parLT_lv (p := 2) hc) hnf
  have hci : (if (isInt c (-1) || isInt c 1) = true then ([] : List PExpr) else [parLT c tc 2]) = [] ∨
      (if (isInt c (-1) || isInt c 1) = true then ([] : List PExpr) else [parLT c tc 2]) = [parLT c tc 2] := by
    split <;> simp
  obtain ⟨wn, ln⟩ := hnumT _ hci _ hnum
  have en := edge11 _ ln
  -- numerator / denominator
  have hwhole : ∀ ds : List PExpr, (∀ u ∈ ds, WP u = true ∧ 12 ≤ lv u) → ∀ nT : PExpr, WP nT = true → 11 ≤ lv nT →
      WP (match ds with
        | [] => nT
        | [d] => PExpr.bin .div nT d
        | ds => PExpr.bin .div nT (.paren (chainMul ds))) = true ∧
      11 ≤ lv (match ds with
        | [] => nT
        | [d] => PExpr.bin .div nT d
        | ds => PExpr.bin .div nT (.paren (chainMul ds))) := by
    intro ds hds nT wT lT
    have eT := edge11 _ lT
    split
    · exact ⟨wT, lT⟩
    · rename_i d
      have hd := hds d (by simp)
      exact ⟨mk_bin wT hd.1 (by simp [lbp]; omega) (by simp [lbp]; omega) (by simp; omega), by simp [lv]⟩
    · have := chainMul_all _ hds
      exact ⟨mk_bin wT (by rw [wp_paren]; exact this.1) (by simp [lbp]; omega) (by simp [lbp]; omega) (by simp [lv]),
        by simp [lv]⟩
  obtain ⟨ww, lw⟩ := hwhole _ hden _ wn ln
  split
  · exact ⟨(negLeft_wp _ ww).1, negLeft_lv _ ww lw (by omega)⟩
  · exact ⟨ww, lw⟩

/-! ### function applications and relationals -/

theorem relOp_cases {h : String} {o : BinOp} (hr : relOp? h = some o) : o = .eq ∨ o = .ne ∨ o = .le ∨ o = .lt := by
  unfold relOp? at hr
  split at hr
  · simp at hr; simp [← hr]
  · split at hr
    · simp at hr; simp [← hr]
    · split at hr
      · simp at hr; simp [← hr]
      · split at hr
        · simp at hr; simp [← hr]
        · simp at hr

theorem appP_ok (h : String) (args : List Expr) (targs : List PExpr) (hw : WPs targs = true) (hne : targs ≠ [])
    (hrel : ∀ o, relOp? h = some o → ∃ a b, targs = [a, b] ∧ 10 ≤ lv a ∧ 10 ≤ lv b) :
    GE (app h args) (appP h targs) := by
  have hc : cprec (app h args) = if (relOp? h).isSome = true then 0 else 4 := by simp only [cprec]
  unfold GE appP
  rw [hc]
  cases hr : relOp? h with
  | none =>
    simp only [Option.isSome_none, Bool.false_eq_true, if_false]
    have hcall : ∀ nm : String, WP (.call nm targs) = true := by
      intro nm
      simp only [WP, Bool.and_eq_true, hw, and_true]
      cases targs with
      | nil => exact absurd rfl hne
      | cons a t => rfl
    split
    · exact ⟨hcall _, by simp [need, lv]⟩
    · split
      · exact ⟨hcall _, by simp [need, lv]⟩
      · simp [WP, need, lv]
  | some o =>
    obtain ⟨a, b, rfl, la, lb⟩ := hrel o hr
    simp only [Option.isSome_some, if_true]
    simp only [WPs, Bool.and_eq_true, and_true] at hw
    have ea := edge10 a la
    rcases relOp_cases hr with rfl | rfl | rfl | rfl
    · exact ⟨mk_bin hw.1 hw.2 (by simp [lbp]; omega) (by simp [lbp]; omega) (by simp; omega), by simp [need, lv]⟩
    · exact ⟨mk_bin hw.1 hw.2 (by simp [lbp]; omega) (by simp [lbp]; omega) (by simp; omega), by simp [need, lv]⟩
    · exact ⟨mk_bin hw.1 hw.2 (by simp [lbp]; omega) (by simp [lbp]; omega) (by simp; omega), by simp [need, lv]⟩
    · exact ⟨mk_bin hw.1 hw.2 (by simp [lbp]; omega) (by simp [lbp]; omega) (by simp; omega), by simp [need, lv]⟩

end SymVerif.StrP
