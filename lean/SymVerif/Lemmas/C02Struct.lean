/-
Structural lemmas about the C01/C02 model (`Model/ExprHash.lean`): a children-based induction
principle, unfolding equations of `hash`/`beq'`/`cmp` per constructor in terms of the list
functions on the children, and the consequences of `WF`.
-/
import SymVerif.Model.ExprHash

namespace SymVerif

theorem Q.beq_iff_eq (a b : Q) : (a == b) = true ↔ a = b := by
  cases a; cases b
  constructor
  · intro h
    have : (_ == _ && _ == _) = true := h
    simp at this
    simp [this]
  · intro h
    cases h
    show (_ == _ && _ == _) = true
    simp

instance : LawfulBEq Q where
  eq_of_beq := fun h => (Q.beq_iff_eq _ _).mp h
  rfl := (Q.beq_iff_eq _ _).mpr rfl

namespace Expr
open TC (Kind)

/-! ### children -/

def flat : List (Expr × Expr) → List Expr
  | [] => []
  | (k, v) :: t => k :: v :: flat t

/-- the stored sub-expressions, in the order `cmp` visits them -/
def children : Expr → List Expr
  | add c ts => c :: flat ts
  | mul c fs => c :: flat fs
  | pow b e => [b, e]
  | fsym _ args => args
  | app _ args => args
  | _ => []

theorem mem_flat {x : Expr} : ∀ {l : List (Expr × Expr)}, x ∈ flat l ↔ ∃ p ∈ l, x = p.1 ∨ x = p.2
  | [] => by simp [flat]
  | (k, v) :: t => by
    simp only [flat, List.mem_cons, mem_flat (l := t)]
    constructor
    · rintro (h | h | ⟨p, hp, h⟩)
      · exact ⟨(k, v), Or.inl rfl, Or.inl h⟩
      · exact ⟨(k, v), Or.inl rfl, Or.inr h⟩
      · exact ⟨p, Or.inr hp, h⟩
    · rintro ⟨p, (rfl | hp), h⟩
      · rcases h with h | h
        · exact Or.inl h
        · exact Or.inr (Or.inl h)
      · exact Or.inr (Or.inr ⟨p, hp, h⟩)

theorem flat_length (l : List (Expr × Expr)) : (flat l).length = 2 * l.length := by
  induction l with
  | nil => rfl
  | cons p t ih => obtain ⟨k, v⟩ := p; simp [flat, ih]; omega

theorem flat_inj : ∀ {l l' : List (Expr × Expr)}, flat l = flat l' → l = l'
  | [], [] => fun _ => rfl
  | [], (k, v) :: t => by simp [flat]
  | (k, v) :: t, [] => by simp [flat]
  | (k, v) :: t, (k', v') :: t' => by
    simp only [flat, List.cons.injEq, Prod.mk.injEq]
    rintro ⟨rfl, rfl, h⟩
    exact ⟨⟨rfl, rfl⟩, flat_inj h⟩

/-! ### induction over children -/

section induct
set_option linter.unusedSectionVars false
variable (P : Expr → Prop) (step : ∀ a, (∀ x ∈ children a, P x) → P a)
include step

mutual
  private theorem ind_all : (a : Expr) → P a
    | int n => step _ (by simp [children])
    | rat n d => step _ (by simp [children])
    | cplx r i => step _ (by simp [children])
    | dbl b => step _ (by simp [children])
    | cdbl r i => step _ (by simp [children])
    | infty d => step _ (by simp [children])
    | nan => step _ (by simp [children])
    | sym n => step _ (by simp [children])
    | dummy n i => step _ (by simp [children])
    | const n => step _ (by simp [children])
    | bool b => step _ (by simp [children])
    | add c ts => step _ (fun x hx =>
        (List.mem_cons.mp hx).elim (fun h => h ▸ ind_all c) (fun h => ind_pairs ts x h))
    | mul c fs => step _ (fun x hx =>
        (List.mem_cons.mp hx).elim (fun h => h ▸ ind_all c) (fun h => ind_pairs fs x h))
    | pow b e => step _ (fun x hx =>
        (List.mem_cons.mp hx).elim (fun h => h ▸ ind_all b)
          (fun h => (List.mem_cons.mp h).elim (fun h => h ▸ ind_all e) (fun h => absurd h List.not_mem_nil)))
    | fsym n args => step _ (fun x hx => ind_args args x hx)
    | app h args => step _ (fun x hx => ind_args args x hx)
  private theorem ind_args : (l : List Expr) → ∀ x ∈ l, P x
    | [] => fun _ h => absurd h List.not_mem_nil
    | a :: t => fun x hx =>
      (List.mem_cons.mp hx).elim (fun h => h ▸ ind_all a) (fun h => ind_args t x h)
  private theorem ind_pairs : (l : List (Expr × Expr)) → ∀ x ∈ flat l, P x
    | [] => fun _ h => absurd h List.not_mem_nil
    | (k, v) :: t => fun x hx =>
      (List.mem_cons.mp hx).elim (fun h => h ▸ ind_all k)
        (fun h => (List.mem_cons.mp h).elim (fun h => h ▸ ind_all v) (fun h => ind_pairs t x h))
end

/-- structural induction: to prove `P a` one may assume `P` for every stored sub-expression of `a` -/
theorem induct_children : ∀ a, P a := ind_all P step
end induct

/-! ### list functions on pairs = list functions on the flattened list -/

theorem cmpPairs_flat : ∀ (l l' : List (Expr × Expr)), l.length = l'.length →
    cmpPairs l l' = cmpArgs (flat l) (flat l')
  | [], [] => by intro _; simp [cmpPairs, cmpArgs, flat]
  | [], _ :: _ => by simp
  | _ :: _, [] => by simp
  | (k, v) :: t, (k', v') :: t' => by
    intro h
    have ih := cmpPairs_flat t t' (by simpa using h)
    simp only [cmpPairs, cmpArgs, flat, ih]

theorem beqPairs_flat : ∀ (l l' : List (Expr × Expr)),
    beqPairs l l' = beqArgs (flat l) (flat l')
  | [], [] => by simp [beqPairs, beqArgs, flat]
  | [], (k, v) :: _ => by simp [beqPairs, beqArgs, flat]
  | (k, v) :: _, [] => by simp [beqPairs, beqArgs, flat]
  | (k, v) :: t, (k', v') :: t' => by
    have ih := beqPairs_flat t t'
    simp only [beqPairs, beqArgs, flat, ih, Bool.and_assoc]

theorem hashPairs_flat : ∀ (l : List (Expr × Expr)) (s : UInt64), hashPairs s l = hashArgs s (flat l)
  | [], s => by simp [hashPairs, hashArgs, flat]
  | (k, v) :: t, s => by simp only [hashPairs, hashArgs, flat, hashPairs_flat t]

/-! ### unfolding equations -/

set_option linter.unusedSectionVars false in
theorem cmp_tc_ne {a b : Expr} (h : typeCode a ≠ typeCode b) :
    cmp a b = if typeCode a < typeCode b then -1 else 1 := by
  rw [cmp.eq_def]
  have : (typeCode a != typeCode b) = true := by simpa using h
  rw [if_pos this]

theorem cmp_int (x y : Int) : cmp (int x) (int y) = cmpInt x y := by rw [cmp]; simp [typeCode]
theorem cmp_rat (n : Int) (d : Nat) (n' : Int) (d' : Nat) : cmp (rat n d) (rat n' d') = cmpQ n d n' d' := by
  rw [cmp]; simp [typeCode]
theorem cmp_cplx (r i r' i' : Q) : cmp (cplx r i) (cplx r' i') =
    if r == r' then (if i == i' then 0 else cmpQ i.num i.den i'.num i'.den)
    else cmpQ r.num r.den r'.num r'.den := by rw [cmp]; simp [typeCode]
theorem cmp_dbl (x y : UInt64) : cmp (dbl x) (dbl y) = cmpDbl x y := by rw [cmp]; simp [typeCode]
theorem cmp_cdbl (r i r' i' : UInt64) : cmp (cdbl r i) (cdbl r' i') =
    if dblEq r r' && dblEq i i' then 0
    else if dblEq r r' then (if dblLt i i' then -1 else 1)
    else (if dblLt r r' then -1 else 1) := by rw [cmp]; simp [typeCode]
theorem cmp_infty (d d' : Int) : cmp (infty d) (infty d') = cmpInt d d' := by rw [cmp]; simp [typeCode]
theorem cmp_nan : cmp nan nan = 0 := by rw [cmp]; simp [typeCode]
theorem cmp_sym (n m : String) : cmp (sym n) (sym m) = cmpStr n m := by rw [cmp]; simp [typeCode]
theorem cmp_dummy (n : String) (i : Nat) (m : String) (j : Nat) : cmp (dummy n i) (dummy m j) =
    if n == m then cmpNat i j else (if n < m then -1 else 1) := by rw [cmp]; simp [typeCode]
theorem cmp_const (n m : String) : cmp (const n) (const m) = cmpStr n m := by rw [cmp]; simp [typeCode]
theorem cmp_bool (x y : Bool) : cmp (bool x) (bool y) =
    if x then (if y then 0 else 1) else (if y then -1 else 0) := by rw [cmp]; simp [typeCode]

theorem cmpArgs_cons (a b : Expr) (as bs : List Expr) :
    cmpArgs (a :: as) (b :: bs) = if cmp a b != 0 then cmp a b else cmpArgs as bs := by
  simp [cmpArgs]

/-- `cmp` of two nodes of the same built-in composite class = guard, then `cmpArgs` on the children -/
theorem cmp_add (c c' : Expr) (ts ts' : List (Expr × Expr)) : cmp (add c ts) (add c' ts') =
    if ts.length != ts'.length then (if ts.length < ts'.length then -1 else 1)
    else cmpArgs (c :: flat ts) (c' :: flat ts') := by
  rw [cmp]; simp only [typeCode, bne_self_eq_false, Bool.false_eq_true, ↓reduceIte]
  by_cases h : ts.length = ts'.length
  · simp [h, cmpArgs_cons, cmpPairs_flat ts ts' h]
  · simp [h]

theorem cmp_mul (c c' : Expr) (ts ts' : List (Expr × Expr)) : cmp (mul c ts) (mul c' ts') =
    if ts.length != ts'.length then (if ts.length < ts'.length then -1 else 1)
    else cmpArgs (c :: flat ts) (c' :: flat ts') := by
  rw [cmp]; simp only [typeCode, bne_self_eq_false, Bool.false_eq_true, ↓reduceIte]
  by_cases h : ts.length = ts'.length
  · simp [h, cmpArgs_cons, cmpPairs_flat ts ts' h]
  · simp [h]

theorem cmp_pow (b e b' e' : Expr) : cmp (pow b e) (pow b' e') = cmpArgs [b, e] [b', e'] := by
  rw [cmp]; simp only [typeCode, bne_self_eq_false, Bool.false_eq_true, ↓reduceIte, cmpArgs_cons, cmpArgs]
  by_cases h : cmp b b' = 0 <;> by_cases h2 : cmp e e' = 0 <;> simp [h, h2]

theorem cmp_fsym (n m : String) (as bs : List Expr) : cmp (fsym n as) (fsym m bs) =
    if n == m then
      (if as.length != bs.length then (if as.length < bs.length then -1 else 1) else cmpArgs as bs)
    else (if n < m then -1 else 1) := by
  rw [cmp]; simp [typeCode]

theorem cmp_app {h h' : String} {as bs : List Expr} (hc : typeCode (app h as) = typeCode (app h' bs)) :
    cmp (app h as) (app h' bs) =
      appCmp (kindOfCode (typeCode (app h as))) as bs (cmpArgs as bs) (cmpTwo as bs) := by
  rw [cmp]; simp [hc]

theorem beq'_add (c c' : Expr) (ts ts' : List (Expr × Expr)) : beq' (add c ts) (add c' ts') =
    (beq' c c' && ts.length == ts'.length && allFind ts ts') := by rw [beq']
theorem beq'_mul (c c' : Expr) (fs fs' : List (Expr × Expr)) : beq' (mul c fs) (mul c' fs') =
    beqArgs (c :: flat fs) (c' :: flat fs') := by rw [beq', beqArgs, beqPairs_flat]
theorem beq'_pow (b e b' e' : Expr) : beq' (pow b e) (pow b' e') = beqArgs [b, e] [b', e'] := by
  rw [beq']; simp [beqArgs]
theorem beq'_fsym (n m : String) (as bs : List Expr) : beq' (fsym n as) (fsym m bs) =
    (n == m && beqArgs as bs) := by rw [beq']
theorem beq'_app (h h' : String) (as bs : List Expr) : beq' (app h as) (app h' bs) =
    ((ofName h).getD TC.count == (ofName h').getD TC.count && beqArgs as bs) := by rw [beq']

/-- `eq` holds only between objects of the same class -/
theorem beq'_tc {a b : Expr} (h : beq' a b = true) : typeCode a = typeCode b := by
  cases a <;> cases b <;> simp_all [beq', typeCode]

/-! ### list forms of the recursive predicates -/

theorem wfArgs_iff : ∀ {l : List Expr}, wfArgs l = true ↔ ∀ x ∈ l, WF x = true
  | [] => by simp [wfArgs]
  | a :: t => by simp [wfArgs, wfArgs_iff (l := t)]

theorem wfPairs_iff : ∀ {l : List (Expr × Expr)}, wfPairs l = true ↔ ∀ x ∈ flat l, WF x = true
  | [] => by simp [wfPairs, flat]
  | (k, v) :: t => by simp [wfPairs, flat, wfPairs_iff (l := t), and_assoc]

theorem allArgs_iff (p : Expr → Bool) : ∀ {l : List Expr}, allArgs p l = true ↔ ∀ x ∈ l, allNodes p x = true
  | [] => by simp [allArgs]
  | a :: t => by simp [allArgs, allArgs_iff p (l := t)]

theorem allPairs_iff (p : Expr → Bool) :
    ∀ {l : List (Expr × Expr)}, allPairs p l = true ↔ ∀ x ∈ flat l, allNodes p x = true
  | [] => by simp [allPairs, flat]
  | (k, v) :: t => by simp [allPairs, flat, allPairs_iff p (l := t), and_assoc]

theorem allNodes_children (p : Expr → Bool) {a : Expr} (h : allNodes p a = true) :
    ∀ x ∈ children a, allNodes p x = true := by
  cases a <;> simp only [children, List.not_mem_nil, false_imp_iff, implies_true]
  case add c ts =>
    simp only [allNodes, Bool.and_eq_true] at h
    intro x hx
    rcases List.mem_cons.mp hx with rfl | hx
    · exact h.1.2
    · exact (allPairs_iff p).mp h.2 x hx
  case mul c ts =>
    simp only [allNodes, Bool.and_eq_true] at h
    intro x hx
    rcases List.mem_cons.mp hx with rfl | hx
    · exact h.1.2
    · exact (allPairs_iff p).mp h.2 x hx
  case pow b e =>
    simp only [allNodes, Bool.and_eq_true] at h
    intro x hx
    simp only [List.mem_cons, List.not_mem_nil, or_false] at hx
    rcases hx with rfl | rfl
    · exact h.1.2
    · exact h.2
  case fsym n args =>
    simp only [allNodes, Bool.and_eq_true] at h
    exact (allArgs_iff p).mp h.2
  case app hd args =>
    simp only [allNodes, Bool.and_eq_true] at h
    exact (allArgs_iff p).mp h.2

theorem allNodes_self (p : Expr → Bool) {a : Expr} (h : allNodes p a = true) : p a = true := by
  cases a <;> simp_all [allNodes]

theorem WF_children {a : Expr} (h : WF a = true) : ∀ x ∈ children a, WF x = true := by
  cases a <;> simp only [children, List.not_mem_nil, false_imp_iff, implies_true]
  case add c ts =>
    simp only [WF, Bool.and_eq_true] at h
    intro x hx
    rcases List.mem_cons.mp hx with rfl | hx
    · exact h.1.1
    · exact wfPairs_iff.mp h.1.2 x hx
  case mul c ts =>
    simp only [WF, Bool.and_eq_true] at h
    intro x hx
    rcases List.mem_cons.mp hx with rfl | hx
    · exact h.1.1
    · exact wfPairs_iff.mp h.1.2 x hx
  case pow b e =>
    simp only [WF, Bool.and_eq_true] at h
    intro x hx
    simp only [List.mem_cons, List.not_mem_nil, or_false] at hx
    rcases hx with rfl | rfl
    · exact h.1
    · exact h.2
  case fsym n args =>
    simp only [WF] at h
    exact wfArgs_iff.mp h
  case app hd args =>
    simp only [WF] at h
    split at h
    · simp at h
    · simp only [Bool.and_eq_true] at h
      exact wfArgs_iff.mp h.1.2

/-- what `WF` says about an `app` node -/
theorem WF_app {h : String} {args : List Expr} (hw : WF (app h args) = true) :
    ∃ k, kindOfCode (typeCode (app h args)) = some k ∧ arityOK k args = true := by
  simp only [WF] at hw
  split at hw
  · simp at hw
  · rename_i k hk
    simp only [Bool.and_eq_true] at hw
    exact ⟨k, by simpa [typeCode] using hk, hw.1.1⟩

end Expr
end SymVerif
