import Mathlib.Tactic.Ring
import Mathlib.Tactic.Linarith
import SymVerif.Model.MpSpec
import SymVerif.Model.MpBoost
/-! C43, sequences of mp_boost.cpp: factorial loop, Fibonacci / Lucas numbers by 2×2 matrix powers. -/
namespace SymVerif.C43
open SymVerif

/-! ### factorial -/

theorem facLoop_spec (n : Nat) : ∀ (fuel i : Nat), 1 ≤ i → i ≤ n + 1 → n + 1 - i ≤ fuel →
    MpBoost.facLoop n fuel i ((MpSpec.fac (i - 1) : Nat) : Int) = ((MpSpec.fac n : Nat) : Int) := by
  intro fuel
  induction fuel with
  | zero =>
    intro i h1 h2 h3
    have : i = n + 1 := by omega
    subst this
    simp [MpBoost.facLoop]
  | succ f ih =>
    intro i h1 h2 h3
    unfold MpBoost.facLoop
    by_cases hle : i ≤ n
    · simp only [hle, if_true]
      have := ih (i + 1) (by omega) (by omega) (by omega)
      simp only [Nat.add_sub_cancel] at this
      rw [← this]
      congr 1
      obtain ⟨j, rfl⟩ : ∃ j, i = j + 1 := ⟨i - 1, by omega⟩
      simp only [Nat.add_sub_cancel, MpSpec.fac]
      push_cast
      ring
    · simp only [hle, if_false]
      have : i = n + 1 := by omega
      subst this
      simp

/-- `mp_fac_ui` = `n!` -/
theorem boost_fac_spec (n : Nat) : MpBoost.fac n = ((MpSpec.fac n : Nat) : Int) := by
  unfold MpBoost.fac
  by_cases h : n = 0
  · subst h; simp [MpBoost.facLoop, MpSpec.fac]
  · have := facLoop_spec n n 2 (by omega) (by omega) (by omega)
    simpa [MpSpec.fac] using this

/-! ### 2×2 matrix powers -/

theorem M22.mul_assoc (x y z : MpBoost.M22) : (x.mul y).mul z = x.mul (y.mul z) := by
  cases x; cases y; cases z
  simp only [MpBoost.M22.mul, MpBoost.M22.mk.injEq]
  refine ⟨?_, ?_, ?_, ?_⟩ <;> ring

theorem M22.one_mul (x : MpBoost.M22) : MpBoost.M22.identity.mul x = x := by
  cases x; simp [MpBoost.M22.mul, MpBoost.M22.identity]

theorem M22.mul_one (x : MpBoost.M22) : x.mul MpBoost.M22.identity = x := by
  cases x; simp [MpBoost.M22.mul, MpBoost.M22.identity]

/-- plain repeated multiplication -/
def mpow (x : MpBoost.M22) : Nat → MpBoost.M22
  | 0 => MpBoost.M22.identity
  | n + 1 => (mpow x n).mul x

theorem mpow_add (x : MpBoost.M22) (a b : Nat) : mpow x (a + b) = (mpow x a).mul (mpow x b) := by
  induction b with
  | zero => simp [mpow, M22.mul_one]
  | succ b ih => rw [← Nat.add_assoc]; simp only [mpow]; rw [ih, M22.mul_assoc]

/-- the recursive repeated squaring of `two_by_two_matrix::pow` computes the power -/
theorem M22.pow_eq (x : MpBoost.M22) (n : Nat) : x.pow n = mpow x n := by
  fun_induction MpBoost.M22.pow x n with
  | case1 => rfl
  | case2 => simp [mpow, M22.one_mul]
  | case3 => simp [mpow, M22.one_mul]
  | case4 n h0 h1 h2 hev h ih =>
    show h.mul h = mpow x n
    have hh : h = mpow x (n / 2) := ih
    rw [hh, ← mpow_add]
    congr 1; omega
  | case5 n h0 h1 h2 hodd h ih =>
    show (h.mul h).mul x = mpow x n
    have hh : h = mpow x ((n - 1) / 2) := ih
    rw [hh, ← mpow_add]
    have : n = ((n - 1) / 2 + (n - 1) / 2) + 1 := by omega
    conv_rhs => rw [this]
    rfl

/-! ### Fibonacci and Lucas numbers -/

/-- `F(n-1)` with `F(-1) = 1` -/
def fibPred (n : Nat) : Int := if n = 0 then 1 else ((MpSpec.fib (n - 1) : Nat) : Int)

theorem fib_succ_succ (n : Nat) : MpSpec.fib (n + 2) = MpSpec.fib n + MpSpec.fib (n + 1) := by
  simp [MpSpec.fib, MpSpec.fibPair]

theorem fibMatrix_eq (n : Nat) :
    mpow ⟨1, 1, 1, 0⟩ n = ⟨(MpSpec.fib (n + 1) : Nat), (MpSpec.fib n : Nat), (MpSpec.fib n : Nat), fibPred n⟩ := by
  induction n with
  | zero => simp [mpow, MpBoost.M22.identity, MpSpec.fib, MpSpec.fibPair, fibPred]
  | succ n ih =>
    simp only [mpow, ih, MpBoost.M22.mul, MpBoost.M22.mk.injEq]
    refine ⟨?_, ?_, ?_, ?_⟩
    · rw [fib_succ_succ]; push_cast; ring
    · ring
    · by_cases h : n = 0
      · subst h; simp [fibPred, MpSpec.fib, MpSpec.fibPair]
      · obtain ⟨m, rfl⟩ : ∃ m, n = m + 1 := ⟨n - 1, by omega⟩
        simp only [fibPred, Nat.add_sub_cancel]
        rw [fib_succ_succ]
        simp; ring
    · simp [fibPred]

/-- `mp_fib_ui` = `F(n)` -/
theorem boost_fib_spec (n : Nat) : MpBoost.fib n = ((MpSpec.fib n : Nat) : Int) := by
  unfold MpBoost.fib MpBoost.fibMatrix
  rw [M22.pow_eq, fibMatrix_eq]

/-- `mp_fib2_ui` = `(F(n), F(n-1))` -/
theorem boost_fib2_spec (n : Nat) : MpBoost.fib2 n = MpSpec.fib2 n := by
  unfold MpBoost.fib2 MpBoost.fibMatrix MpSpec.fib2
  rw [M22.pow_eq, fibMatrix_eq]
  by_cases h : n = 0
  · subst h; simp [fibPred, MpSpec.fib, MpSpec.fibPair]
  · simp [h, fibPred]

theorem fibPred_succ (m : Nat) : fibPred (m + 1) = ((MpSpec.fib m : Nat) : Int) := by
  simp [fibPred]

theorem fibPred_add (n : Nat) : fibPred n + ((MpSpec.fib n : Nat) : Int) = ((MpSpec.fib (n + 1) : Nat) : Int) := by
  cases n with
  | zero => simp [fibPred, MpSpec.fib, MpSpec.fibPair]
  | succ m => rw [fibPred_succ, fib_succ_succ]; push_cast; ring

theorem lucPair_eq (n : Nat) :
    MpSpec.lucPair n = (((MpSpec.fib n : Nat) : Int) + 2 * fibPred n,
                        ((MpSpec.fib (n + 1) : Nat) : Int) + 2 * ((MpSpec.fib n : Nat) : Int)) := by
  induction n with
  | zero => simp [MpSpec.lucPair, MpSpec.fib, MpSpec.fibPair, fibPred]
  | succ n ih =>
    simp only [MpSpec.lucPair, ih]
    refine Prod.ext ?_ ?_
    · simp only [fibPred, Nat.add_sub_cancel]; simp
    · simp only
      rw [fib_succ_succ]; push_cast
      have := fibPred_add n
      linarith

/-- `mp_lucnum_ui` = `L(n)` -/
theorem boost_lucnum_spec (n : Nat) : MpBoost.lucnum n = MpSpec.lucnum n := by
  unfold MpBoost.lucnum MpBoost.lucMatrix MpSpec.lucnum
  rw [M22.pow_eq, fibMatrix_eq, lucPair_eq]
  simp [MpBoost.M22.mul]; ring

/-- `mp_lucnum2_ui` (with the `n = 0` repair) = `(L(n), L(n-1))` -/
theorem boost_lucnum2_spec (n : Nat) : MpBoost.lucnum2 n = some (MpSpec.lucnum2 n) := by
  unfold MpBoost.lucnum2 MpSpec.lucnum2
  by_cases h : n = 0
  · simp [h]
  · obtain ⟨m, rfl⟩ : ∃ m, n = m + 1 := ⟨n - 1, by omega⟩
    simp only [h, if_false, Nat.add_sub_cancel]
    unfold MpBoost.lucMatrix MpSpec.lucnum
    rw [M22.pow_eq, fibMatrix_eq, lucPair_eq, lucPair_eq, fibPred_succ]
    simp [MpBoost.M22.mul]
    constructor <;> ring

end SymVerif.C43
