/-
C31 helper lemmas, part 11: the implicitly characterised functions against *any* solution of their
defining equation: tan / tanh (`atan T = A`), lambertw (`W e^W = A`), asin / asinh (`R²(1 ∓ A²) = 1`),
rational powers (`D^den = B^num`, positive constant term).
-/
import SymVerif.Lemmas.C31Inj

namespace SymVerif.C31
open SymVerif.Series PowerSeries

theorem powTrunc_pos_spec' (p : Poly) (n prec : ℕ) (hn : 1 ≤ n) (r : Poly) (h : powTrunc p n prec = .ok r) :
    EqMod prec (toPS r) (toPS p ^ n) := by
  unfold powTrunc at h
  have : (n == 0) = false := by simpa using (by omega : n ≠ 0)
  simp only [this] at h
  cases h
  exact toPS_powPos p n prec hn

theorem tan_sound (q g : Poly) (prec : ℕ) (hp : 1 ≤ prec) (h : seriesTan q prec = .ok g) {A T : ℚ⟦X⟧}
    (hq : EqMod prec (toPS q) A) (hT0 : constantCoeff T = 0) (hT : fatan T = A) :
    EqMod prec (toPS g) T := by
  obtain ⟨_, hg0, hg⟩ := tan_spec q g prec hp h
  have : EqMod prec (fat 1 (toPS g)) (fat 1 T) := by
    rw [← fatan_eq_fat, ← fatan_eq_fat, hT]; exact hg.trans hq
  exact fat_inj 1 prec hg0 hT0 this

theorem tanh_sound (q g : Poly) (prec : ℕ) (hp : 1 ≤ prec) (h : seriesTanh q prec = .ok g) {A T : ℚ⟦X⟧}
    (hq : EqMod prec (toPS q) A) (hT0 : constantCoeff T = 0) (hT : fatanh T = A) :
    EqMod prec (toPS g) T := by
  obtain ⟨_, hg0, hg⟩ := tanh_spec q g prec hp h
  have : EqMod prec (fat (-1) (toPS g)) (fat (-1) T) := by
    rw [← fatanh_eq_fat, ← fatanh_eq_fat, hT]; exact hg.trans hq
  exact fat_inj (-1) prec hg0 hT0 this

theorem lambertw_sound (q g : Poly) (prec : ℕ) (hp : 1 ≤ prec) (h : seriesLambertw q prec = .ok g)
    {A W : ℚ⟦X⟧} (hq : EqMod prec (toPS q) A) (hW0 : constantCoeff W = 0) (hW : W * fexp W = A) :
    EqMod prec (toPS g) W := by
  obtain ⟨_, hg0, hg⟩ := lambertw_spec q g prec hp h
  exact lambert_inj prec hg0 hW0 (by rw [hW]; exact hg.trans hq)

/-- two positive-constant-term square roots of congruent inverses agree -/
theorem sq_root_unique {n : ℕ} {r R Q : ℚ⟦X⟧} (hQ : constantCoeff Q = 1)
    (hr : EqMod n (r ^ 2 * Q) 1) (hR : R * R * Q = 1) (hr0 : 1 ≤ n → 0 < constantCoeff r)
    (hR0 : constantCoeff R = 1) : EqMod n r R := by
  by_cases hn : n = 0
  · subst hn; exact eqMod_zero _ _
  have hn1 : 1 ≤ n := by omega
  have hQc : constantCoeff Q ≠ 0 := by rw [hQ]; exact one_ne_zero
  have h2 : EqMod n (r ^ 2) (R ^ 2) := by
    have a := hr.mul_right Q⁻¹
    have b : R ^ 2 = Q⁻¹ := by
      have := congrArg (· * Q⁻¹) hR
      simp only [one_mul] at this
      rw [mul_assoc, PowerSeries.mul_inv_cancel Q hQc, mul_one] at this
      rw [pow_two]; exact this
    rw [mul_assoc, PowerSeries.mul_inv_cancel Q hQc, mul_one, one_mul] at a
    rw [b]; exact a
  have hc : constantCoeff r = constantCoeff R := by
    have := constantCoeff_eq_of_eqMod hn1 h2
    rw [map_pow, map_pow, hR0] at this
    rw [hR0]
    exact pos_pow_inj (m := 2) (by omega) (hr0 hn1) one_pos this
  exact pow_inj_mod (m := 2) (by omega) hc (by rw [hR0]; exact one_ne_zero) h2

theorem asin_sound (q g : Poly) (prec : ℕ) (hp : 1 ≤ prec) (h : seriesAsin q prec = .ok g)
    {A R : ℚ⟦X⟧} (hq : EqMod prec (toPS q) A) (hA0 : constantCoeff A = 0)
    (hR : R * R * (1 - A * A) = 1) (hR0 : constantCoeff R = 1) :
    EqMod prec (toPS g) (integ (d⁄dX ℚ A * R)) := by
  unfold seriesAsin at h
  split at h
  · cases h
  · simp only [bind, Except.bind] at h
    split at h
    · cases h
    · next r hr =>
      split at h
      · simp only [pure, Except.pure, Except.ok.injEq] at h
        subst h
        obtain ⟨n, rfl⟩ : ∃ n, prec = n + 1 := ⟨prec - 1, by omega⟩
        simp only [Nat.add_sub_cancel] at hr
        obtain ⟨_, hneg, _, hpos⟩ := nthroot_spec _ r (-2) n (by decide) hr
        have h2 := hneg (by decide)
        have hT : EqMod n (toPS (psub [1] (powPos q 2 n))) (1 - A * A) := by
          rw [toPS_psub, toPS_one]
          have := (toPS_powPos q 2 n (by omega)).trans ((hq.mono (by omega)).pow 2)
          rw [pow_two] at this
          exact (EqMod.refl _ _).sub this
        have h3 : EqMod n (toPS r ^ 2 * (1 - A * A)) 1 :=
          ((EqMod.mul_left _ hT).symm).trans (by simpa using h2)
        have hrR : EqMod n (toPS r) R :=
          sq_root_unique (by rw [map_sub, map_mul, hA0]; simp) h3 hR hpos hR0
        rw [toPS_integrate, toPS_mulFull, toPS_diff]
        exact ((hq.derivative).mul hrR).integ
      · cases h

theorem asinh_sound (q g : Poly) (prec : ℕ) (hp : 1 ≤ prec) (h : seriesAsinh q prec = .ok g)
    {A R : ℚ⟦X⟧} (hq : EqMod prec (toPS q) A) (hA0 : constantCoeff A = 0)
    (hR : R * R * (1 + A * A) = 1) (hR0 : constantCoeff R = 1) :
    EqMod prec (toPS g) (integ (d⁄dX ℚ A * R)) := by
  unfold seriesAsinh at h
  split at h
  · cases h
  · simp only [bind, Except.bind] at h
    split at h
    · cases h
    · next p hpr =>
      split at h
      · cases h
      · next ip hip =>
        split at h
        · simp only [pure, Except.pure, Except.ok.injEq] at h
          subst h
          obtain ⟨n, rfl⟩ : ∃ n, prec = n + 1 := ⟨prec - 1, by omega⟩
          simp only [Nat.add_sub_cancel] at hpr hip
          obtain ⟨hpos2, _, _, hppos⟩ := nthroot_spec _ p 2 n (by decide) hpr
          have h2 := hpos2 (by decide)
          have hT : EqMod n (toPS (padd (powPos q 2 n) [1])) (1 + A * A) := by
            rw [toPS_padd, toPS_one, add_comm]
            have := (toPS_powPos q 2 n (by omega)).trans ((hq.mono (by omega)).pow 2)
            rw [pow_two] at this
            exact (EqMod.refl _ _).add this
          have hi := invert_spec p ip n hip
          have h3 : EqMod n (toPS ip ^ 2 * (1 + A * A)) 1 := by
            have a1 : EqMod n (toPS ip ^ 2 * toPS p ^ 2) 1 := by
              have := hi.pow 2
              rwa [mul_pow, one_pow] at this
            have a2 : EqMod n (toPS p ^ 2) (1 + A * A) := by
              have : Int.natAbs 2 = 2 := rfl
              rw [this] at h2
              exact h2.trans hT
            exact ((EqMod.mul_left _ a2).symm).trans a1
          have hippos : 1 ≤ n → 0 < constantCoeff (toPS ip) := fun h1 => by
            have hc := constantCoeff_eq_of_eqMod h1 hi
            rw [map_mul, map_one] at hc
            have hp0 := hppos h1
            have : constantCoeff (toPS ip) = 1 / constantCoeff (toPS p) := by
              field_simp; exact hc
            rw [this]; positivity
          have hrR : EqMod n (toPS ip) R :=
            sq_root_unique (by rw [map_add, map_mul, hA0]; simp) h3 hR hippos hR0
          rw [toPS_integrate, toPS_mulFull, toPS_diff]
          exact ((hq.derivative).mul hrR).integ
        · cases h

/-- the root computed by `powRat` (common first step) -/
theorem powRat_root (p proot : Poly) (den prec : ℕ) (hden : 2 ≤ den) (hp : 1 ≤ prec)
    (h : nthroot p (den : Int) prec = .ok proot) {B : ℚ⟦X⟧} (hpB : EqMod prec (toPS p) B) :
    EqMod prec (toPS proot ^ den) B ∧ 0 < constantCoeff (toPS proot) := by
  obtain ⟨hpos, _, _, hc⟩ := nthroot_spec p proot (den : Int) prec (by simpa using hden) h
  have := hpos (by omega)
  rw [Int.natAbs_natCast] at this
  exact ⟨this.trans hpB, hc hp⟩

/-- positive rational exponent `n/den` -/
theorem powRat_sound_pos (p g : Poly) (n den prec : ℕ) (hn : 1 ≤ n) (hden : 2 ≤ den) (hp : 1 ≤ prec)
    (h : powRat p (n : Int) den prec = .ok g) {B D : ℚ⟦X⟧} (hpB : EqMod prec (toPS p) B)
    (hD : D ^ den = B ^ n) (hD0 : 0 < constantCoeff D) : EqMod prec (toPS g) D := by
  unfold powRat at h
  simp only [bind, Except.bind] at h
  split at h
  · cases h
  · next proot hroot =>
    obtain ⟨hr, hr0⟩ := powRat_root p proot den prec hden hp hroot hpB
    -- in both branches g ≡ proot^n
    have hg : EqMod prec (toPS g) (toPS proot ^ n) := by
      split at h
      · next h1 =>
        have : (n : Int) = 1 := by simpa using h1
        have hn1 : n = 1 := by omega
        simp only [pure, Except.pure, Except.ok.injEq] at h
        subst h; subst hn1; simp [EqMod.refl]
      · split at h
        · rw [Int.toNat_natCast] at h
          exact powTrunc_pos_spec' proot n prec hn g h
        · next _ hneg => exact absurd (by omega : (n : Int) > 0) hneg
    have hpow : EqMod prec ((toPS proot ^ n) ^ den) (D ^ den) := by
      rw [hD, ← pow_mul, mul_comm, pow_mul]
      exact hr.pow n
    have hc : constantCoeff (toPS proot ^ n) = constantCoeff D := by
      have := constantCoeff_eq_of_eqMod hp hpow
      rw [map_pow, map_pow (constantCoeff) D den] at this
      exact pos_pow_inj (m := den) (by omega) (by rw [map_pow]; positivity) hD0 this
    exact hg.trans (pow_inj_mod (by omega) hc (ne_of_gt hD0) hpow)

/-- negative rational exponent `-n/den` -/
theorem powRat_sound_neg (p g : Poly) (n den prec : ℕ) (hn : 1 ≤ n) (hden : 2 ≤ den) (hp : 1 ≤ prec)
    (h : powRat p (-(n : Int)) den prec = .ok g) {B D : ℚ⟦X⟧} (hpB : EqMod prec (toPS p) B)
    (hB0 : constantCoeff B ≠ 0) (hD : D ^ den * B ^ n = 1) (hD0 : 0 < constantCoeff D) :
    EqMod prec (toPS g) D := by
  unfold powRat at h
  simp only [bind, Except.bind] at h
  split at h
  · cases h
  · next proot hroot =>
    obtain ⟨hr, hr0⟩ := powRat_root p proot den prec hden hp hroot hpB
    -- in both branches g·proot^n ≡ 1
    have hg : EqMod prec (toPS g * toPS proot ^ n) 1 := by
      split at h
      · next h1 =>
        have : -(n : Int) = 1 := by simpa using h1
        omega
      · split at h
        · next _ hpos => exact absurd hpos (by omega)
        · split at h
          · next h1 =>
            have : -(n : Int) = -1 := by simpa using h1
            have hn1 : n = 1 := by omega
            subst hn1
            simpa using invert_spec proot g prec h
          · split at h
            · cases h
            · next q hq =>
              have : (- -(n : Int)).toNat = n := by simp
              rw [this] at hq
              have hq' := powTrunc_pos_spec' proot n prec hn q hq
              exact ((EqMod.mul_left _ hq').symm).trans (invert_spec q g prec h)
    have hBn : constantCoeff (B ^ n) ≠ 0 := by rw [map_pow]; exact pow_ne_zero _ hB0
    -- g^den ≡ D^den
    have hpow : EqMod prec (toPS g ^ den) (D ^ den) := by
      have a1 : EqMod prec (toPS g ^ den * B ^ n) 1 := by
        have e1 : EqMod prec (toPS g ^ den * B ^ n) (toPS g ^ den * (toPS proot ^ den) ^ n) :=
          EqMod.mul_left _ ((hr.pow n).symm)
        refine e1.trans ?_
        have : toPS g ^ den * (toPS proot ^ den) ^ n = (toPS g * toPS proot ^ n) ^ den := by
          rw [mul_pow, ← pow_mul, ← pow_mul, mul_comm den n]
        rw [this]
        simpa using hg.pow den
      have a2 := a1.mul_right (B ^ n)⁻¹
      have a3 : D ^ den = (B ^ n)⁻¹ := by
        have := congrArg (· * (B ^ n)⁻¹) hD
        simp only [one_mul] at this
        rwa [mul_assoc, PowerSeries.mul_inv_cancel _ hBn, mul_one] at this
      rw [mul_assoc, PowerSeries.mul_inv_cancel _ hBn, mul_one, one_mul] at a2
      rw [a3]; exact a2
    have hg0 : 0 < constantCoeff (toPS g) := by
      have hc := constantCoeff_eq_of_eqMod hp hg
      rw [map_mul, map_pow, map_one] at hc
      have hpn : 0 < constantCoeff (toPS proot) ^ n := by positivity
      have : constantCoeff (toPS g) = 1 / constantCoeff (toPS proot) ^ n := by
        field_simp; exact hc
      rw [this]; positivity
    have hc : constantCoeff (toPS g) = constantCoeff D := by
      have := constantCoeff_eq_of_eqMod hp hpow
      rw [map_pow, map_pow] at this
      exact pos_pow_inj (by omega) hg0 hD0 this
    exact pow_inj_mod (by omega) hc (ne_of_gt hD0) hpow

end SymVerif.C31
