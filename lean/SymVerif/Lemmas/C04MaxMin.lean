/-
C04, max / min: the result of `max(vec)` only depends on the multiset of the operands.
The loop state is (running extremum of the numbers, `set_basic` of the other arguments); after
flattening (`items`) the two components are folds over the numbers resp. the non-numbers:
the first is characterised as *the* best element (`IsBest`, unique among canonical reals), the
second as the sorted list with the same members (`ssorted_ext`).
-/
import Mathlib.Tactic.Linarith
import SymVerif.Lemmas.C04Add

namespace SymVerif.AC
open SymVerif SymVerif.Arith

/-! ### `set_basic` -/

def SSorted (l : List Expr) : Prop := l.Pairwise (fun a b => lexLt (key a) (key b) = true)

theorem mem_setInsert : ∀ {l : List Expr} {a x : Expr}, x ∈ setInsert l a ↔ x = a ∨ x ∈ l
  | [], a, x => by simp [setInsert]
  | b :: r, a, x => by
    simp only [setInsert]
    split
    · simp
    · split
      · rename_i h
        have e : b = a := key_beq_iff.mp h
        subst e
        simp
      · simp only [List.mem_cons, mem_setInsert (l := r)]
        constructor
        · rintro (h | h | h)
          · exact Or.inr (Or.inl h)
          · exact Or.inl h
          · exact Or.inr (Or.inr h)
        · rintro (h | h | h)
          · exact Or.inr (Or.inl h)
          · exact Or.inl h
          · exact Or.inr (Or.inr h)

theorem ssorted_setInsert : ∀ {l : List Expr} {a : Expr}, SSorted l → SSorted (setInsert l a)
  | [], a, _ => by simp [setInsert, SSorted]
  | b :: r, a, h => by
    simp only [setInsert]
    split
    · rename_i hlt
      refine List.pairwise_cons.mpr ⟨?_, h⟩
      intro q hq
      rcases List.mem_cons.mp hq with rfl | hq
      · exact hlt
      · exact lexLt_trans hlt ((List.pairwise_cons.mp h).1 q hq)
    · split
      · exact h
      · rename_i hlt hne
        refine List.pairwise_cons.mpr ⟨?_, ssorted_setInsert (List.pairwise_cons.mp h).2⟩
        intro q hq
        rcases mem_setInsert.mp hq with rfl | hq
        · cases hkt : lexLt (key b) (key q) with
          | true => rfl
          | false =>
            have := lexLt_total hkt (by simpa using hlt)
            exact absurd (by simp [this]) hne
        · exact (List.pairwise_cons.mp h).1 q hq

theorem ssorted_ext : ∀ {l₁ l₂ : List Expr}, SSorted l₁ → SSorted l₂ → (∀ x, x ∈ l₁ ↔ x ∈ l₂) → l₁ = l₂
  | [], [], _, _, _ => rfl
  | [], b :: r, _, _, h => by have := (h b).mpr List.mem_cons_self; simp at this
  | a :: r, [], _, _, h => by have := (h a).mp List.mem_cons_self; simp at this
  | a₁ :: r₁, a₂ :: r₂, h1, h2, h => by
    have hd1 := (List.pairwise_cons.mp h1)
    have hd2 := (List.pairwise_cons.mp h2)
    have e : a₁ = a₂ := by
      rcases List.mem_cons.mp ((h a₁).mp List.mem_cons_self) with e | m1
      · exact e
      · rcases List.mem_cons.mp ((h a₂).mpr List.mem_cons_self) with e | m2
        · exact e.symm
        · have l1 := hd2.1 a₁ m1
          have l2 := hd1.1 a₂ m2
          rw [lexLt_asymm l1] at l2
          cases l2
    subst e
    have : r₁ = r₂ := by
      apply ssorted_ext hd1.2 hd2.2
      intro x
      constructor
      · intro hx
        rcases List.mem_cons.mp ((h x).mp (List.mem_cons_of_mem _ hx)) with e | m
        · subst e
          have := hd1.1 x hx
          simp [lexLt_irrefl] at this
        · exact m
      · intro hx
        rcases List.mem_cons.mp ((h x).mpr (List.mem_cons_of_mem _ hx)) with e | m
        · subst e
          have := hd2.1 x hx
          simp [lexLt_irrefl] at this
        · exact m
    rw [this]

def setFold (s : List Expr) (l : List Expr) : List Expr := l.foldl setInsert s

theorem mem_setFold : ∀ (l : List Expr) {s : List Expr} {x : Expr}, x ∈ setFold s l ↔ x ∈ s ∨ x ∈ l
  | [], s, x => by simp [setFold]
  | a :: r, s, x => by
    show x ∈ setFold (setInsert s a) r ↔ _
    rw [mem_setFold r, mem_setInsert]
    simp only [List.mem_cons]
    tauto

theorem ssorted_setFold : ∀ (l : List Expr) {s : List Expr}, SSorted s → SSorted (setFold s l)
  | [], _, h => h
  | a :: r, _, h => ssorted_setFold r (ssorted_setInsert h)

theorem setFold_perm {l₁ l₂ s : List Expr} (hs : SSorted s) (hp : l₁.Perm l₂) :
    setFold s l₁ = setFold s l₂ := by
  apply ssorted_ext (ssorted_setFold _ hs) (ssorted_setFold _ hs)
  intro x
  rw [mem_setFold, mem_setFold, hp.mem_iff]

/-! ### the running extremum -/

/-- value of a real Number leaf -/
def rv (e : Expr) : ℚ := (gq e).1

theorem realNum_exOK {e : Expr} (h : realNumB e = true) : ExOK e ∧ (gq e).2 = 0 := by
  cases e <;> simp [realNumB] at h
  · exact ⟨exOK_int _, by simp [gq_int]⟩
  · rename_i n d
    refine ⟨⟨rfl, by rw [canon_rat]; exact h⟩, ?_⟩
    simp [gq, toGQ, qr_zero]

theorem realNum_inj {a b : Expr} (ha : realNumB a = true) (hb : realNumB b = true) (h : rv a = rv b) :
    a = b := by
  obtain ⟨ha1, ha2⟩ := realNum_exOK ha
  obtain ⟨hb1, hb2⟩ := realNum_exOK hb
  exact gq_inj ha1 hb1 (Prod.ext h (by rw [ha2, hb2]))

theorem numIsPositive_ofG_real (v : ℚ) : numIsPositive (ofG (v, 0)) = decide (0 < v) := by
  unfold ofG ofGQ
  have h0 : ((ofR (0 : ℚ)).num == 0) = true := by simp [ofR]
  simp only [h0, if_true]
  unfold ofQ
  split
  · simp only [numIsPositive, ofR]
    rw [Bool.eq_iff_iff]
    simp [Rat.num_pos]
  · simp only [numIsPositive, ofR]
    rw [Bool.eq_iff_iff]
    simp [Rat.num_pos]

theorem gq_minusOne : gq minusOne = (-1, 0) := by
  simp [minusOne, gq_int]

/-- is `p` strictly better than `m` -/
def betterP (isMax : Bool) (m p : Expr) : Prop := if isMax then rv m < rv p else rv p < rv m

instance (isMax : Bool) (m p : Expr) : Decidable (betterP isMax m p) := by
  unfold betterP; split <;> infer_instance

noncomputable def better (isMax : Bool) (m p : Expr) : Expr := if betterP isMax m p then p else m

theorem mmNum_some {isMax : Bool} {m p : Expr} (hm : realNumB m = true) (hp : realNumB p = true) :
    mmNum isMax (some m) p = .ok (some (better isMax m p)) := by
  obtain ⟨hm1, hm2⟩ := realNum_exOK hm
  obtain ⟨hp1, hp2⟩ := realNum_exOK hp
  have hone : ExOK minusOne := exOK_int (-1)
  have key : ∀ (a b : Expr), ExOK a → (gq a).2 = 0 → ExOK b → (gq b).2 = 0 →
      (do let nb ← numMul b minusOne; numAdd a nb) = (.ok (ofG (rv a - rv b, 0)) : R Expr) := by
    intro a b ha ha2 hb hb2
    rw [numMul_eq hb hone]
    simp only [ok_bind]
    rw [numAdd_eq ha (exOK_ofG _), gq_ofG, gq_minusOne]
    congr 2
    ext
    · simp [cmul, rv]; ring
    · simp [cmul, ha2, hb2]
  have hpm : p = .int 0 ∨ True := Or.inr trivial
  cases isMax with
  | true =>
    have : mmNum true (some m) p = (do
        let diff ← (do let nm ← numMul m minusOne; numAdd p nm)
        pure (if numIsPositive diff then some p else some m)) := by
      cases p <;> simp_all [mmNum, realNumB]
    rw [this, key p m hp1 hp2 hm1 hm2]
    simp only [ok_bind, numIsPositive_ofG_real, pure, Except.pure, better, betterP, if_true]
    congr 1
    by_cases h : rv m < rv p
    · simp [h]
    · simp [h]
  | false =>
    have : mmNum false (some m) p = (do
        let diff ← (do let np ← numMul p minusOne; numAdd m np)
        pure (if numIsPositive diff then some p else some m)) := by
      cases p <;> simp_all [mmNum, realNumB]
    rw [this, key m p hm1 hm2 hp1 hp2]
    simp only [ok_bind, numIsPositive_ofG_real, pure, Except.pure, better, betterP, Bool.false_eq_true, if_false]
    congr 1
    by_cases h : rv p < rv m
    · simp [h]
    · simp [h]

theorem mmNum_none {isMax : Bool} {p : Expr} (hp : realNumB p = true) :
    mmNum isMax none p = .ok (some p) := by
  cases p <;> simp_all [mmNum, realNumB]

noncomputable def numStep (isMax : Bool) (c : Option Expr) (p : Expr) : Option Expr :=
  match c with
  | none => some p
  | some m => some (better isMax m p)

noncomputable def numFold (isMax : Bool) (c : Option Expr) (l : List Expr) : Option Expr :=
  l.foldl (numStep isMax) c

/-- `y` is at most as good as `x` -/
def leP (isMax : Bool) (y x : Expr) : Prop := if isMax then rv y ≤ rv x else rv x ≤ rv y

/-- `x` is a best element of `N` -/
def IsBest (isMax : Bool) (N : List Expr) (x : Expr) : Prop := x ∈ N ∧ ∀ y ∈ N, leP isMax y x

theorem better_spec (isMax : Bool) (m p : Expr) :
    (better isMax m p = m ∨ better isMax m p = p) ∧ leP isMax m (better isMax m p)
      ∧ leP isMax p (better isMax m p) := by
  unfold better betterP leP
  cases isMax <;> simp only [if_true, Bool.false_eq_true, if_false]
  · by_cases h : rv p < rv m
    · simp [h]; exact le_of_lt h
    · simp [h]; exact not_lt.mp h
  · by_cases h : rv m < rv p
    · simp [h]; exact le_of_lt h
    · simp [h]; exact not_lt.mp h

theorem leP_trans {isMax : Bool} {a b c : Expr} (h1 : leP isMax a b) (h2 : leP isMax b c) : leP isMax a c := by
  unfold leP at *
  cases isMax <;> simp only [if_true, Bool.false_eq_true, if_false] at * <;> linarith

theorem leP_refl (isMax : Bool) (a : Expr) : leP isMax a a := by
  unfold leP; cases isMax <;> simp

theorem numFold_some (isMax : Bool) : ∀ (l : List Expr) (m : Expr) (seen : List Expr),
    IsBest isMax seen m → ∃ x, numFold isMax (some m) l = some x ∧ IsBest isMax (seen ++ l) x
  | [], m, seen, h => ⟨m, rfl, by simpa using h⟩
  | p :: r, m, seen, h => by
    obtain ⟨hc, h1, h2⟩ := better_spec isMax m p
    have hb : IsBest isMax (seen ++ [p]) (better isMax m p) := by
      constructor
      · rcases hc with e | e
        · rw [e]; exact List.mem_append_left _ h.1
        · rw [e]; simp
      · intro y hy
        rcases List.mem_append.mp hy with hy | hy
        · exact leP_trans (h.2 y hy) h1
        · simp at hy; subst hy; exact h2
    obtain ⟨x, hx1, hx2⟩ := numFold_some isMax r (better isMax m p) (seen ++ [p]) hb
    exact ⟨x, hx1, by simpa using hx2⟩

theorem numFold_none (isMax : Bool) : ∀ (l : List Expr),
    (l = [] ∧ numFold isMax none l = none) ∨ (∃ x, numFold isMax none l = some x ∧ IsBest isMax l x)
  | [] => Or.inl ⟨rfl, rfl⟩
  | p :: r => by
    right
    have hb : IsBest isMax [p] p := ⟨by simp, fun y hy => by simp at hy; subst hy; exact leP_refl _ _⟩
    obtain ⟨x, hx1, hx2⟩ := numFold_some isMax r p [p] hb
    exact ⟨x, hx1, by simpa using hx2⟩

theorem isBest_unique {isMax : Bool} {N : List Expr} {x y : Expr} (hN : ∀ a ∈ N, realNumB a = true)
    (hx : IsBest isMax N x) (hy : IsBest isMax N y) : x = y := by
  apply realNum_inj (hN x hx.1) (hN y hy.1)
  have h1 := hx.2 y hy.1
  have h2 := hy.2 x hx.1
  unfold leP at h1 h2
  cases isMax <;> simp only [if_true, Bool.false_eq_true, if_false] at h1 h2 <;> linarith

theorem isBest_perm {isMax : Bool} {N₁ N₂ : List Expr} (hp : N₁.Perm N₂) {x : Expr}
    (h : IsBest isMax N₁ x) : IsBest isMax N₂ x :=
  ⟨hp.mem_iff.mp h.1, fun y hy => h.2 y (hp.mem_iff.mpr hy)⟩

theorem numFold_perm {isMax : Bool} {N₁ N₂ : List Expr} (hp : N₁.Perm N₂)
    (hN : ∀ a ∈ N₁, realNumB a = true) : numFold isMax none N₁ = numFold isMax none N₂ := by
  rcases numFold_none isMax N₁ with ⟨e, h1⟩ | ⟨x, hx1, hx2⟩
  · subst e
    have : N₂ = [] := List.Perm.eq_nil (hp.symm) |> fun h => h
    subst this
    rfl
  · rcases numFold_none isMax N₂ with ⟨e, _⟩ | ⟨y, hy1, hy2⟩
    · subst e
      have := hp.eq_nil
      subst this
      simp [IsBest] at hx2
    · rw [hx1, hy1, isBest_unique hN hx2 (isBest_perm hp.symm hy2)]

/-! ### the loops -/

/-- the flattened argument list -/
def items (isMax : Bool) (l : List Expr) : List Expr :=
  l.flatMap (fun a => match isMaxMin isMax a with | some args => args | none => [a])

theorem mmInner_append (isMax : Bool) : ∀ (l₁ l₂ : List Expr) (cur : Option Expr) (set : List Expr),
    mmInner isMax cur set (l₁ ++ l₂) = (do
      let (c, s) ← mmInner isMax cur set l₁
      mmInner isMax c s l₂)
  | [], l₂, cur, set => rfl
  | x :: r, l₂, cur, set => by
    simp only [List.cons_append, mmInner]
    split
    · cases h : mmNum isMax cur x with
      | error e => rfl
      | ok c => simp only [ok_bind, bind, Except.bind]; exact mmInner_append isMax r l₂ c set
    · exact mmInner_append isMax r l₂ cur (setInsert set x)

/-- the inner loop on flattened items: numbers update the extremum, the rest goes into the set -/
theorem mmInner_eq (isMax : Bool) : ∀ (L : List Expr) (cur : Option Expr) (set : List Expr),
    (∀ x ∈ L, itemOK isMax x = true) → (∀ m, cur = some m → realNumB m = true) →
    mmInner isMax cur set L = .ok (numFold isMax cur (L.filter (·.isNum)),
      setFold set (L.filter (fun x => !x.isNum))) ∧
    (∀ m, numFold isMax cur (L.filter (·.isNum)) = some m → realNumB m = true)
  | [], cur, set, _, hc => ⟨rfl, hc⟩
  | x :: r, cur, set, hL, hc => by
    have hx := hL x List.mem_cons_self
    have hr : ∀ y ∈ r, itemOK isMax y = true := fun y hy => hL y (List.mem_cons_of_mem _ hy)
    unfold itemOK at hx
    by_cases hn : x.isNum = true
    · have hreal : realNumB x = true := by
        rcases Bool.or_eq_true _ _ |>.mp hx with h | h
        · exact h
        · simp [hn] at h
      have hstep : mmNum isMax cur x = .ok (numStep isMax cur x) := by
        cases cur with
        | none => exact mmNum_none hreal
        | some m => exact mmNum_some (hc m rfl) hreal
      have hc' : ∀ m, numStep isMax cur x = some m → realNumB m = true := by
        intro m hm
        cases cur with
        | none => simp [numStep] at hm; subst hm; exact hreal
        | some m0 =>
          simp [numStep] at hm
          subst hm
          rcases (better_spec isMax m0 x).1 with e | e
          · rw [e]; exact hc m0 rfl
          · rw [e]; exact hreal
      obtain ⟨ih1, ih2⟩ := mmInner_eq isMax r (numStep isMax cur x) set hr hc'
      constructor
      · simp only [mmInner, hn, if_true, hstep, ok_bind, ih1, List.filter_cons, Bool.not_true,
          Bool.false_eq_true, if_false]
        rfl
      · simpa [List.filter_cons, hn, numFold] using ih2
    · have hn' : x.isNum = false := by simpa using hn
      obtain ⟨ih1, ih2⟩ := mmInner_eq isMax r cur (setInsert set x) hr hc
      constructor
      · simp only [mmInner, hn', Bool.false_eq_true, if_false, ih1, List.filter_cons, Bool.not_false,
          if_true]
        rfl
      · simpa [List.filter_cons, hn'] using ih2

theorem itemOK_not_cplx {isMax : Bool} {x : Expr} (h : itemOK isMax x = true) : isComplex x = false := by
  cases x <;> simp_all [itemOK, realNumB, isComplex, Expr.isNum]

/-- the outer loop is the inner loop on the flattened list -/
theorem mmLoop_eq (isMax : Bool) : ∀ (l : List Expr) (cur : Option Expr) (set : List Expr),
    (∀ a ∈ l, mmOperandOK isMax a = true) →
    mmLoop isMax cur set l = mmInner isMax cur set (items isMax l)
  | [], cur, set, _ => rfl
  | p :: r, cur, set, hl => by
    have hp := hl p List.mem_cons_self
    have hr : ∀ a ∈ r, mmOperandOK isMax a = true := fun a ha => hl a (List.mem_cons_of_mem _ ha)
    unfold mmOperandOK at hp
    simp only [items, List.flatMap_cons]
    cases hmm : isMaxMin isMax p with
    | some args =>
      have hnc : isComplex p = false := by cases p <;> simp_all [isMaxMin, isComplex]
      have hnn : p.isNum = false := by cases p <;> simp_all [isMaxMin, Expr.isNum]
      rw [mmInner_append]
      simp only [mmLoop, hnc, hnn, hmm, Bool.false_eq_true, if_false]
      cases h : mmInner isMax cur set args with
      | error e => rfl
      | ok cs =>
        obtain ⟨c, s⟩ := cs
        simp only [ok_bind, bind, Except.bind]
        exact mmLoop_eq isMax r c s hr
    | none =>
      rw [hmm] at hp
      have hnc := itemOK_not_cplx hp
      rw [mmInner_append]
      by_cases hn : p.isNum = true
      · simp only [mmLoop, hnc, hn, Bool.false_eq_true, if_false, if_true, mmInner]
        cases h : mmNum isMax cur p with
        | error e => rfl
        | ok c =>
          simp only [ok_bind, bind, Except.bind]
          exact mmLoop_eq isMax r c set hr
      · have hn' : p.isNum = false := by simpa using hn
        simp only [mmLoop, hnc, hn', hmm, Bool.false_eq_true, if_false, mmInner, ok_bind,
          bind, Except.bind]
        exact mmLoop_eq isMax r cur (setInsert set p) hr

theorem items_ok {isMax : Bool} {l : List Expr} (hl : ∀ a ∈ l, mmOperandOK isMax a = true) :
    ∀ x ∈ items isMax l, itemOK isMax x = true := by
  intro x hx
  simp only [items, List.mem_flatMap] at hx
  obtain ⟨a, ha, hxa⟩ := hx
  have := hl a ha
  unfold mmOperandOK at this
  cases hmm : isMaxMin isMax a with
  | some args =>
    rw [hmm] at this hxa
    exact List.all_eq_true.mp this x hxa
  | none =>
    rw [hmm] at this hxa
    simp at hxa
    subst hxa
    exact this

theorem items_perm {isMax : Bool} {l₁ l₂ : List Expr} (hp : l₁.Perm l₂) :
    (items isMax l₁).Perm (items isMax l₂) := by
  induction hp with
  | nil => exact List.Perm.refl _
  | cons x _ ih => simp only [items, List.flatMap_cons] at *; exact List.Perm.append_left _ ih
  | swap x y l =>
    simp only [items, List.flatMap_cons]
    rw [← List.append_assoc, ← List.append_assoc]
    exact List.Perm.append_right _ List.perm_append_comm
  | trans _ _ ih1 ih2 => exact ih1.trans ih2

/-- the result of `max(vec)` / `min(vec)` only depends on the multiset of the operands -/
theorem maxMinE_perm_aux {isMax : Bool} {l₁ l₂ : List Expr} (hp : l₁.Perm l₂)
    (h : ∀ a ∈ l₁, mmOperandOK isMax a = true) : maxMinE isMax l₁ = maxMinE isMax l₂ := by
  have h2 : ∀ a ∈ l₂, mmOperandOK isMax a = true := fun a ha => h a (hp.mem_iff.mpr ha)
  have hI := items_perm (isMax := isMax) hp
  obtain ⟨e1, _⟩ := mmInner_eq isMax (items isMax l₁) none [] (items_ok h) (by simp)
  obtain ⟨e2, _⟩ := mmInner_eq isMax (items isMax l₂) none [] (items_ok h2) (by simp)
  unfold maxMinE
  rw [mmLoop_eq isMax l₁ none [] h, mmLoop_eq isMax l₂ none [] h2, e1, e2]
  have hnum : numFold isMax none ((items isMax l₁).filter (·.isNum))
      = numFold isMax none ((items isMax l₂).filter (·.isNum)) := by
    apply numFold_perm (hI.filter _)
    intro a ha
    have ha' := List.mem_filter.mp ha
    have hok := items_ok h a ha'.1
    unfold itemOK at hok
    rcases Bool.or_eq_true _ _ |>.mp hok with hh | hh
    · exact hh
    · have hnum' : a.isNum = true := by simpa using ha'.2
      rw [hnum'] at hh
      simp at hh
  have hset : setFold [] ((items isMax l₁).filter (fun x => !x.isNum))
      = setFold [] ((items isMax l₂).filter (fun x => !x.isNum)) :=
    setFold_perm List.Pairwise.nil (hI.filter _)
  rw [hnum, hset]

end SymVerif.AC
