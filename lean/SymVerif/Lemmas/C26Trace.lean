import SymVerif.Lemmas.C26Add
/-!
Value of `trace`.
-/
namespace SymVerif.MatExpr
open MExpr

/-- trace of a (square) value -/
def trV (v : Val) : GQ := ∑ i ∈ Finset.range v.r, v.f i i

/-- the value a trace result stands for (`other` = a symbolic sum the model does not spell out) -/
def TraceRes.eval (env : Env) : TraceRes → Option GQ
  | .num q => some q
  | .dim s => some ((env.dim s : ℕ) : GQ)
  | .unev e => some (trV (valOf env e))
  | .other => none

def evalAll (env : Env) : List TraceRes → Option GQ
  | [] => some 0
  | x :: xs =>
    match x.eval env, evalAll env xs with
    | some a, some b => some (a + b)
    | _, _ => none

def accVal (env : Env) (acc : GQ × List TraceRes) : Option GQ := (evalAll env acc.2).map (acc.1 + ·)

theorem natCast_eq (n : ℕ) : (⟨(n : ℚ), 0⟩ : GQ) = (n : GQ) := by
  induction n with
  | zero => ext <;> simp
  | succ m ih =>
    have h1 : ((m + 1 : ℕ) : GQ) = (m : GQ) + 1 := Nat.cast_succ m
    rw [h1, ← ih]
    ext <;> simp

theorem evalAll_snoc_eq (env : Env) (xs : List TraceRes) (x : TraceRes) :
    evalAll env (xs ++ [x]) =
      match evalAll env xs, x.eval env with
      | some a, some b => some (a + b)
      | _, _ => none := by
  induction xs with
  | nil =>
    simp only [List.nil_append, evalAll]
    cases x.eval env <;> simp
  | cons y ys ih =>
    simp only [List.cons_append, evalAll]
    rw [ih]
    cases y.eval env <;> cases evalAll env ys <;> cases x.eval env <;> simp [add_assoc]

theorem evalAll_snoc (env : Env) (xs : List TraceRes) (x : TraceRes) (s : GQ) :
    evalAll env (xs ++ [x]) = some s ↔
      ∃ a b, evalAll env xs = some a ∧ x.eval env = some b ∧ s = a + b := by
  rw [evalAll_snoc_eq]
  cases evalAll env xs <;> cases x.eval env <;> simp [eq_comm]

theorem accVal_step (env : Env) (acc : GQ × List TraceRes) (x : TraceRes) (a : GQ)
    (h : accVal env (traceAcc acc x) = some a) :
    ∃ a0 b, accVal env acc = some a0 ∧ x.eval env = some b ∧ a = a0 + b := by
  cases x with
  | num q =>
    simp only [traceAcc, accVal, Option.map_eq_some_iff] at h ⊢
    obtain ⟨s, hs, rfl⟩ := h
    exact ⟨acc.1 + s, q, ⟨s, hs, rfl⟩, rfl, by ring⟩
  | dim n =>
    simp only [traceAcc, accVal, Option.map_eq_some_iff] at h ⊢
    obtain ⟨s, hs, rfl⟩ := h
    obtain ⟨a0, b, h1, h2, rfl⟩ := (evalAll_snoc env _ _ _).1 hs
    exact ⟨acc.1 + a0, b, ⟨a0, h1, rfl⟩, h2, by ring⟩
  | unev e =>
    simp only [traceAcc, accVal, Option.map_eq_some_iff] at h ⊢
    obtain ⟨s, hs, rfl⟩ := h
    obtain ⟨a0, b, h1, h2, rfl⟩ := (evalAll_snoc env _ _ _).1 hs
    exact ⟨acc.1 + a0, b, ⟨a0, h1, rfl⟩, h2, by ring⟩
  | other =>
    simp only [traceAcc, accVal, Option.map_eq_some_iff] at h ⊢
    obtain ⟨s, hs, rfl⟩ := h
    obtain ⟨a0, b, h1, h2, rfl⟩ := (evalAll_snoc env _ _ _).1 hs
    exact ⟨acc.1 + a0, b, ⟨a0, h1, rfl⟩, h2, by ring⟩

theorem traceOfAcc_eval (env : Env) (acc : GQ × List TraceRes) (q : GQ)
    (h : (traceOfAcc acc).eval env = some q) : accVal env acc = some q := by
  obtain ⟨a, l⟩ := acc
  rcases l with _ | ⟨x, _ | ⟨y, t⟩⟩
  · simp [traceOfAcc, TraceRes.eval] at h
    simp [accVal, evalAll, h]
  · simp only [traceOfAcc] at h
    split at h
    · rename_i h0
      simp at h0; subst h0
      simp [accVal, evalAll, h]
    · simp [TraceRes.eval] at h
  · simp [traceOfAcc, TraceRes.eval] at h

theorem listSum_eq_range_sum (l : List GQ) : l.sum = ∑ i ∈ Finset.range l.length, l.getD i 0 := by
  induction l with
  | nil => simp
  | cons a t ih =>
    rw [List.length_cons, Finset.sum_range_succ', List.sum_cons, ih]
    simp [add_comm]

theorem foldl_add_eq_sum (l : List GQ) : l.foldl (· + ·) 0 = l.sum := by
  rw [List.sum_eq_foldl]

theorem map_range_sum (n : Nat) (g : Nat → GQ) :
    ((List.range n).map g).sum = ∑ i ∈ Finset.range n, g i := by
  induction n with
  | zero => simp
  | succ m ih => rw [List.range_succ, List.map_append, List.sum_append, ih, Finset.sum_range_succ]; simp

theorem trV_add_node {env : Env} {R : Nat} {l : List MExpr} (hne : l ≠ []) (hok : okAll env l)
    (hd : AllDims R R (valsOf env l)) :
    trV (valOf env (add l)) = ∑ i ∈ Finset.range R, S env l i i := by
  obtain ⟨_, a2, _, a4⟩ := add_node hne hok hd
  simp only [trV, a2, a4]

mutual
  theorem trace_value_aux (env : Env) : ∀ (e : MExpr) (t : TraceRes), traceM e = .ok t →
      okOf env e → (valOf env e).r = (valOf env e).c → ∀ q, t.eval env = some q →
      q = trV (valOf env e)
    | ident (.nat n), t, h, _, _, q, hq => by
      simp [traceM] at h; subst h
      simp only [TraceRes.eval, Option.some.injEq] at hq; subst hq
      have := natCast_eq n
      simp only [trV, valOf, Dim.eval, if_true, Finset.sum_const, Finset.card_range, nsmul_eq_mul,
        mul_one]
      exact this
    | ident (.sym s), t, h, _, _, q, hq => by
      simp [traceM] at h; subst h
      simp only [TraceRes.eval, Option.some.injEq] at hq; subst hq
      simp [trV, valOf, Dim.eval]
    | zero a b, t, h, _, _, q, hq => by
      simp only [traceM] at h
      split at h
      · simp at h; subst h
        simp only [TraceRes.eval, Option.some.injEq] at hq; subst hq
        simp [trV, valOf]
      · simp at h
      · simp at h; subst h
        simpa [TraceRes.eval, eq_comm] using hq
    | diag d, t, h, _, _, q, hq => by
      simp [traceM] at h; subst h
      simp only [TraceRes.eval, Option.some.injEq] at hq; subst hq
      rw [foldl_add_eq_sum, listSum_eq_range_sum]
      simp [trV, valOf]
    | dense r c v, t, h, _, hsq, q, hq => by
      simp only [traceM] at h
      split at h
      · simp at h
      · simp at h; subst h
        simp only [TraceRes.eval, Option.some.injEq] at hq; subst hq
        rw [foldl_add_eq_sum, map_range_sum]
        simp [trV, valOf]
    | add ts, t, h, hok, hsq, q, hq => by
      simp only [traceM, bind_ok] at h
      obtain ⟨l, hl, h⟩ := h
      simp [pure, Except.pure] at h; subst h
      obtain ⟨hne, hoks, hd⟩ := add_node_inv hok
      rw [← hsq] at hd
      have hacc := traceOfAcc_eval env _ q hq
      obtain ⟨a0, ha0, hqa⟩ := trace_list_aux env (valOf env (add ts)).r ts l hl hoks hd (0, []) q hacc
      simp [accVal, evalAll] at ha0
      rw [trV_add_node hne hoks hd, hqa, ← ha0]; ring
    | sym n, t, h, _, _, q, hq => by
      simp [traceM] at h; subst h; simpa [TraceRes.eval, eq_comm] using hq
    | mul s fs, t, h, _, _, q, hq => by
      simp [traceM] at h; subst h; simpa [TraceRes.eval, eq_comm] using hq
    | had fs, t, h, _, _, q, hq => by
      simp [traceM] at h; subst h; simpa [TraceRes.eval, eq_comm] using hq
    | transpose e, t, h, _, _, q, hq => by
      simp [traceM] at h; subst h; simpa [TraceRes.eval, eq_comm] using hq
    | conj e, t, h, _, _, q, hq => by
      simp [traceM] at h; subst h; simpa [TraceRes.eval, eq_comm] using hq
  theorem trace_list_aux (env : Env) (R : Nat) : ∀ (ts : List MExpr) (l : List TraceRes),
      traceList ts = .ok l → okAll env ts → AllDims R R (valsOf env ts) →
      ∀ (acc : GQ × List TraceRes) (a : GQ), accVal env (l.foldl traceAcc acc) = some a →
      ∃ a0, accVal env acc = some a0 ∧ a = a0 + ∑ i ∈ Finset.range R, S env ts i i
    | [], l, h, _, _, acc, a, ha => by
      simp [traceList] at h; subst h
      exact ⟨a, by simpa using ha, by simp [S_nil]⟩
    | t :: rest, l, h, hok, hd, acc, a, ha => by
      simp only [traceList, bind_ok] at h
      obtain ⟨x, hx, l', hl', h⟩ := h
      simp [pure, Except.pure] at h; subst h
      have hd' : ((valOf env t).r = R ∧ (valOf env t).c = R) ∧ AllDims R R (valsOf env rest) := by
        simpa [valsOf, allDims_cons] using hd
      simp only [List.foldl_cons] at ha
      obtain ⟨a1, h1, h2⟩ := trace_list_aux env R rest l' hl' hok.2 hd'.2 _ a ha
      obtain ⟨a0, b, h3, h4, h5⟩ := accVal_step env acc x a1 h1
      have hb := trace_value_aux env t x hx hok.1 (hd'.1.1.trans hd'.1.2.symm) b h4
      refine ⟨a0, h3, ?_⟩
      rw [h2, h5, hb]
      simp only [S_cons, Finset.sum_add_distrib, trV, hd'.1.1]
      ring
end

/-- a DomainError of `trace` means that the value is not square -/
theorem trace_domain_zero_dense (env : Env) :
    (∀ a b, traceM (zero a b) = .error .domain → (valOf env (zero a b)).r ≠ (valOf env (zero a b)).c) ∧
    (∀ r c v, traceM (dense r c v) = .error .domain →
      (valOf env (dense r c v)).r ≠ (valOf env (dense r c v)).c) := by
  constructor
  · intro a b h
    simp only [traceM] at h
    split at h
    · simp at h
    · rename_i hf
      simp only [valOf]
      cases a <;> cases b <;> simp only [squareZero, dimMatch] at hf <;> (try split at hf) <;>
        simp_all [Dim.eval]
    · simp at h
  · intro r c v h
    simp only [traceM] at h
    split at h
    · simpa [valOf] using ‹r ≠ c›
    · simp at h

end SymVerif.MatExpr
