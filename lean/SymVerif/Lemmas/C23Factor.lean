import SymVerif.Lemmas.C23Euclid

/-!
C23 helper lemmas, part 4: lcm, and soundness of the executable certificate checks
(`checkMulBack`, `irreducibleBrute`).
-/
namespace SymVerif.C23
open Polynomial SymVerif.GF

variable {p : ℕ} [Fact p.Prime]

/-! ### lcm -/

theorem lcm_spec' {a o : Poly} (ha : WF p a) (ho : WF p o) (ha0 : a ≠ []) (ho0 : o ≠ []) :
    WF p (GF.lcm p a o) ∧ (toPoly p (GF.lcm p a o)).Monic ∧
    toPoly p a ∣ toPoly p (GF.lcm p a o) ∧ toPoly p o ∣ toPoly p (GF.lcm p a o) ∧
    ∃ k : ZMod p, k ≠ 0 ∧
      toPoly p (GF.gcd p a o) * toPoly p (GF.lcm p a o) = C k * (toPoly p a * toPoly p o) := by
  obtain ⟨gw, gda, gdo, _, gm, _⟩ := gcd_spec' ha ho
  obtain ⟨gmonic, g0⟩ := gm (Or.inl ha0)
  have hG0 : toPoly p (GF.gcd p a o) ≠ 0 := gmonic.ne_zero
  have hA0 : toPoly p a ≠ 0 := fun e => ha0 ((toPoly_eq_zero_iff ha).mp e)
  have hO0 : toPoly p o ≠ 0 := fun e => ho0 ((toPoly_eq_zero_iff ho).mp e)
  have hmw : WF p (mul p o a) := wf_mul prime_pos ho ha
  have hdvd : toPoly p (GF.gcd p a o) ∣ toPoly p (mul p o a) := by
    rw [toPoly_mul]; exact dvd_mul_of_dvd_right gda _
  have hQ := quo_mul_of_dvd hmw gw g0 hdvd
  rw [toPoly_mul] at hQ
  have hqw := wf_quo hmw gw g0
  have hq0 : quo p (mul p o a) (GF.gcd p a o) ≠ [] := by
    intro e
    rw [e] at hQ
    simp at hQ
    rcases hQ with h | h
    · exact hO0 h
    · exact hA0 h
  obtain ⟨_, m2, m3, m4, _⟩ := monic_spec' hqw hq0
  have hu : ((((quo p (mul p o a) (GF.gcd p a o)).getLastD 0 : ℕ) : ZMod p))⁻¹ ≠ 0 :=
    inv_ne_zero (getLastD_cast_ne_zero hqw hq0)
  have ea : a.isEmpty = false := by cases a <;> simp_all
  have eo : o.isEmpty = false := by cases o <;> simp_all
  have hl : GF.lcm p a o = (monic p (quo p (mul p o a) (GF.gcd p a o))).2 := by
    unfold GF.lcm; simp [ea, eo]
  rw [hl]
  obtain ⟨a', ha'⟩ := gda
  obtain ⟨o', ho'⟩ := gdo
  -- Q = o * a' = a * o'
  have hQa : toPoly p (quo p (mul p o a) (GF.gcd p a o)) = toPoly p o * a' := by
    apply mul_right_cancel₀ hG0
    rw [hQ]; conv_lhs => rw [ha']
    ring
  have hQo : toPoly p (quo p (mul p o a) (GF.gcd p a o)) = toPoly p a * o' := by
    apply mul_right_cancel₀ hG0
    rw [hQ]; conv_lhs => rw [ho']
    ring
  refine ⟨m3, m4, ?_, ?_, _, hu, ?_⟩
  · rw [m2]; exact (dvd_C_mul hu).mpr ⟨o', hQo⟩
  · rw [m2]; exact (dvd_C_mul hu).mpr ⟨a', hQa⟩
  · rw [m2]
    have e : ∀ u : (ZMod p)[X], toPoly p (GF.gcd p a o) * (u * toPoly p (quo p (mul p o a) (GF.gcd p a o)))
        = u * (toPoly p a * toPoly p o) := by
      intro u; linear_combination u * hQ
    exact e _

/-! ### the multiply-back certificate -/

theorem foldl_mul_pow (fs : List (Poly × ℕ)) (acc : Poly) (hacc : WF p acc) (hfs : ∀ x ∈ fs, WF p x.1) :
    toPoly p (fs.foldl (fun acc x => mul p acc (GF.pow p x.1 x.2)) acc)
      = toPoly p acc * (fs.map (fun x => toPoly p x.1 ^ x.2)).prod := by
  induction fs generalizing acc with
  | nil => simp
  | cons x fs ih =>
    simp only [List.foldl_cons, List.map_cons, List.prod_cons]
    obtain ⟨e, w⟩ := pow_spec' (hfs x (by simp)) x.2
    rw [ih _ (wf_mul prime_pos hacc w) (fun y hy => hfs y (List.mem_cons_of_mem _ hy)), toPoly_mul, e]
    ring

theorem monic_of_last_one {g : Poly} (hw : WF p g) (h1 : g.getLast? = some 1) : (toPoly p g).Monic := by
  have g0 : g ≠ [] := by intro e; simp [e] at h1
  rw [Monic, leadingCoeff_toPoly hw g0, List.getLastD_eq_getLast?, h1]
  simp

/-- soundness of `checkMulBack` -/
theorem checkMulBack_sound' (a : Poly) (lc : ℕ) (fs : List (Poly × ℕ)) (h : checkMulBack p a lc fs = true) :
    toPoly p a = C (lc : ZMod p) * (fs.map (fun x => toPoly p x.1 ^ x.2)).prod ∧
      ∀ x ∈ fs, (toPoly p x.1).Monic ∧ WF p x.1 := by
  unfold checkMulBack at h
  rw [Bool.and_eq_true, List.all_eq_true] at h
  obtain ⟨hall, heq⟩ := h
  have hall' : ∀ x ∈ fs, WF p x.1 ∧ x.1.getLast? = some 1 := by
    intro x hx
    have := hall x hx
    rw [Bool.and_eq_true, decide_eq_true_eq, beq_iff_eq] at this
    exact this
  have heq' := beq_iff_eq.mp heq
  refine ⟨?_, fun x hx => ⟨monic_of_last_one (hall' x hx).1 (hall' x hx).2, (hall' x hx).1⟩⟩
  rw [← heq', foldl_mul_pow fs _ (wf_fromVec prime_pos _) (fun x hx => (hall' x hx).1), toPoly_fromVec prime_pos]
  simp

/-! ### the brute-force irreducibility certificate -/

omit [Fact p.Prime] in
theorem mem_allVecs (k : ℕ) (l : Poly) : l ∈ allVecs p k ↔ l.length = k ∧ ∀ x ∈ l, x < p := by
  induction k generalizing l with
  | zero =>
    simp only [allVecs, List.mem_singleton]
    constructor
    · rintro rfl; simp
    · rintro ⟨h, _⟩; exact List.length_eq_zero_iff.mp h
  | succ k ih =>
    simp only [allVecs, List.mem_flatMap, List.mem_map, List.mem_range]
    constructor
    · rintro ⟨t, ht, c, hc, rfl⟩
      obtain ⟨h1, h2⟩ := (ih t).mp ht
      refine ⟨by simp [h1], ?_⟩
      intro x hx
      rcases List.mem_cons.mp hx with rfl | hx
      · exact hc
      · exact h2 x hx
    · rintro ⟨h1, h2⟩
      match l, h1 with
      | c :: t, h1 =>
        refine ⟨t, (ih t).mpr ⟨by simpa using h1, fun x hx => h2 x (List.mem_cons_of_mem _ hx)⟩, c, h2 c (by simp), rfl⟩

/-- coefficient vector of a monic polynomial of degree `k` : the `k` low coefficients, then 1 -/
noncomputable def lowCoeffs (q : (ZMod p)[X]) (k : ℕ) : Poly :=
  (List.range k).map (fun i => (q.coeff i).val)

theorem toPoly_lowCoeffs {q : (ZMod p)[X]} (hq : q.Monic) :
    toPoly p (lowCoeffs q q.natDegree ++ [1]) = q := by
  have : NeZero p := ⟨(Fact.out : p.Prime).ne_zero⟩
  ext i
  rw [coeff_toPoly]
  have hlen : (lowCoeffs q q.natDegree).length = q.natDegree := by simp [lowCoeffs]
  rcases Nat.lt_trichotomy i q.natDegree with hi | hi | hi
  · rw [getD_append_left' _ _ _ (by omega)]
    simp [lowCoeffs, List.getD, hi]
  · rw [getD_append_right' _ _ _ (by omega), hlen, hi]
    simp only [Nat.sub_self, List.getD_cons_zero, Nat.cast_one]
    exact hq.coeff_natDegree.symm
  · rw [getD_of_le _ _ (by simp [hlen]; omega), coeff_eq_zero_of_natDegree_lt hi]; simp

theorem wf_lowCoeffs (q : (ZMod p)[X]) (k : ℕ) : WF p (lowCoeffs q k ++ [1]) := by
  have : NeZero p := ⟨(Fact.out : p.Prime).ne_zero⟩
  refine ⟨?_, by simp⟩
  intro x hx
  rcases List.mem_append.mp hx with hx | hx
  · simp only [lowCoeffs, List.mem_map] at hx
    obtain ⟨i, _, rfl⟩ := hx
    exact ZMod.val_lt _
  · simp at hx; subst hx; exact prime_one_lt

/-- soundness of `irreducibleBrute` -/
theorem irreducibleBrute_sound' {g : Poly} (hw : WF p g) (h : irreducibleBrute p g = true) :
    Irreducible (toPoly p g) := by
  have : NeZero p := ⟨(Fact.out : p.Prime).ne_zero⟩
  unfold irreducibleBrute at h
  rw [Bool.and_eq_true, decide_eq_true_eq, List.all_eq_true] at h
  obtain ⟨hdeg, hall⟩ := h
  have g0 : g ≠ [] := by intro e; subst e; simp [GF.degree] at hdeg
  have hG0 : toPoly p g ≠ 0 := fun e => g0 ((toPoly_eq_zero_iff hw).mp e)
  have hnd : (toPoly p g).natDegree = GF.degree g := natDegree_toPoly hw
  have hnu : ¬ IsUnit (toPoly p g) := by
    intro hu
    have := natDegree_eq_zero_of_isUnit hu
    omega
  rw [irreducible_iff_lt_natDegree_lt hG0 hnu]
  intro q hq hmem hdvd
  rw [Finset.mem_Ioc, hnd] at hmem
  have hk := hall (q.natDegree - 1) (List.mem_range.mpr (by omega))
  rw [List.all_eq_true] at hk
  have hc := hk (lowCoeffs q q.natDegree) ((mem_allVecs _ _).mpr ⟨by simp [lowCoeffs]; omega, by
    intro x hx
    simp only [lowCoeffs, List.mem_map] at hx
    obtain ⟨i, _, rfl⟩ := hx
    exact ZMod.val_lt _⟩)
  have hrem : rem p g (lowCoeffs q q.natDegree ++ [1]) = [] :=
    rem_eq_nil_of_dvd hw (wf_lowCoeffs q _) (by simp) (by rw [toPoly_lowCoeffs hq]; exact hdvd)
  rw [hrem] at hc
  simp at hc

end SymVerif.C23
