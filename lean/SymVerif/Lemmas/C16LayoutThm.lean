/-
C16 — the induction over expressions: `layout e` is well-parenthesised for every printable `e`.
-/
import SymVerif.Lemmas.C16LayoutMain

namespace SymVerif.StrP
open Expr

theorem atom_GE (e : Expr) (s : String) (h : cprec e ≤ 4) : GE e (.id s) :=
  ⟨by simp [WP], by simp only [lv, levelAtom_val]; exact need_le_17 _⟩

mutual
  theorem layout_ok : (e : Expr) → allNodes printableNode e = true → GE e (layout e)
    | int n, _ => by simp only [layout]; exact int_GE n
    | rat n d, _ => by simp only [layout]; exact rat_GE n d
    | cplx re im, _ => by simp only [layout]; exact cplx_GE re im
    | dbl b, h => by
      simp only [allNodes, printableNode] at h
      simp only [layout]
      exact dbl_GE b h
    | cdbl r i, _ => by simp only [layout]; exact cdbl_GE r i
    | infty d, _ => by
      simp only [layout, GE, cprec]
      split
      · exact ⟨by rw [wp_neg]; simp [WP, lv], by simp [need, lv]⟩
      · split <;> simp [WP, need, lv]
    | nan, _ => by simp [layout, GE, WP, cprec, need, lv]
    | sym n, _ => by simp [layout, GE, WP, cprec, need, lv]
    | dummy n i, _ => by simp [layout, GE, WP, cprec, need, lv]
    | const n, _ => by simp [layout, GE, WP, cprec, need, lv]
    | Expr.bool b, _ => by simp [layout, GE, WP, cprec, need, lv]
    | add c ts, h => by
      simp only [allNodes, Bool.and_eq_true] at h
      obtain ⟨⟨hn, hc⟩, hts⟩ := h
      simp only [printableNode, Bool.and_eq_true] at hn
      obtain ⟨⟨hnum, _⟩, hkeys⟩ := hn
      have ihc := layout_ok c hc
      have ihp := layoutPairs_ok ts hts
      simp only [layout]
      have := addP_ok c (layout c) (layoutPairs ts) ihc (isNum_cprec hnum) (fun x hx => by
        obtain ⟨h1, h2, h3⟩ := ihp x hx
        refine ⟨⟨h1, h2⟩, fun h1' => ?_⟩
        have := List.all_eq_true.1 hkeys _ h3
        simpa [h1'] using this)
      exact ⟨this.1, by simp only [cprec, need]; exact this.2⟩
    | mul c fs, h => by
      simp only [allNodes, Bool.and_eq_true] at h
      obtain ⟨⟨hn, hc⟩, hfs⟩ := h
      simp only [printableNode, Bool.and_eq_true] at hn
      obtain ⟨_, hkeys⟩ := hn
      have ihc := layout_ok c hc
      have ihp := layoutPairs_ok fs hfs
      simp only [layout]
      have := mulP_ok c (layout c) (layoutPairs fs) ihc (fun x hx => by
        obtain ⟨h1, h2, h3⟩ := ihp x hx
        refine ⟨⟨h1, h2⟩, fun h1' => ?_⟩
        have := List.all_eq_true.1 hkeys _ h3
        simpa [h1'] using this)
      exact ⟨this.1, by simp only [cprec, need]; exact this.2⟩
    | pow b e, h => by
      simp only [allNodes, Bool.and_eq_true] at h
      obtain ⟨⟨_, hb⟩, he⟩ := h
      simp only [layout]
      obtain ⟨w, l⟩ := powP_ok (layout_ok b hb) (layout_ok e he)
      exact ⟨w, by simp only [cprec, need]; exact l⟩
    | fsym n args, h => by
      simp only [allNodes, Bool.and_eq_true] at h
      obtain ⟨hn, ha⟩ := h
      simp only [printableNode] at hn
      simp only [layout]
      have hw := (layoutArgs_ok args ha).1
      refine ⟨?_, by simp [cprec, need, lv]⟩
      cases args with
      | nil => simp at hn
      | cons a t =>
        simp only [layoutArgs] at hw ⊢
        simp only [WP, Bool.and_eq_true]
        exact ⟨rfl, hw⟩
    | app h args, hp => by
      simp only [allNodes, Bool.and_eq_true] at hp
      obtain ⟨hn, ha⟩ := hp
      obtain ⟨hw, hge⟩ := layoutArgs_ok args ha
      simp only [layout]
      apply appP_ok h args (layoutArgs args) hw
      · cases args with
        | nil =>
          simp only [printableNode] at hn
          split at hn <;> simp at hn
        | cons a t => simp [layoutArgs]
      · intro o ho
        simp only [printableNode, ho, Option.isSome_some, if_true] at hn
        split at hn
        · rename_i a b
          simp only [Bool.and_eq_true, bne_iff_ne, ne_eq] at hn
          have ga := hge a (by simp)
          have gb := hge b (by simp)
          refine ⟨layout a, layout b, by simp [layoutArgs], ?_, ?_⟩
          · have : 1 ≤ cprec a := by omega
            exact Nat.le_trans (need_mono this) ga.2
          · have : 1 ≤ cprec b := by omega
            exact Nat.le_trans (need_mono this) gb.2
        · simp at hn
  theorem layoutArgs_ok : (l : List Expr) → allArgs printableNode l = true →
      WPs (layoutArgs l) = true ∧ ∀ x ∈ l, GE x (layout x)
    | [], _ => by simp [layoutArgs, WPs]
    | a :: t, h => by
      simp only [allArgs, Bool.and_eq_true] at h
      have ha := layout_ok a h.1
      have ht := layoutArgs_ok t h.2
      simp only [layoutArgs, WPs, Bool.and_eq_true]
      refine ⟨⟨ha.1, ht.1⟩, ?_⟩
      intro x hx
      simp only [List.mem_cons] at hx
      rcases hx with rfl | hx
      · exact ha
      · exact ht.2 x hx
  theorem layoutPairs_ok : (l : List (Expr × Expr)) → allPairs printableNode l = true →
      ∀ x ∈ layoutPairs l, GE x.1 x.2.2.1 ∧ GE x.2.1 x.2.2.2 ∧ (x.1, x.2.1) ∈ l
    | [], _ => by simp [layoutPairs]
    | (k, v) :: t, h => by
      simp only [allPairs, Bool.and_eq_true] at h
      obtain ⟨⟨hk, hv⟩, ht⟩ := h
      intro x hx
      simp only [layoutPairs, List.mem_cons] at hx
      rcases hx with rfl | hx
      · exact ⟨layout_ok k hk, layout_ok v hv, by simp⟩
      · obtain ⟨h1, h2, h3⟩ := layoutPairs_ok t ht x hx
        exact ⟨h1, h2, by simp [h3]⟩
end

/-- **paren_sound**: the parenthesisation decisions of the printer never drop a needed parenthesis -/
theorem layout_wp (e : Expr) (h : printable e = true) : WP (layout e) = true := (layout_ok e h).1

end SymVerif.StrP
