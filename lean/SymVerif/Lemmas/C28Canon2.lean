import SymVerif.Lemmas.C28Canon
import SymVerif.Lemmas.C28Dom
/-!
`and_or`, `logical_xor`, whole recipes and `piecewise` return well-formed (hence `is_canonical`) objects;
recipes are sound.
-/
namespace SymVerif.C28
open SymVerif.Logic SymVerif.Logic.B

/-- recogniser of the class built by `and_or<caller>` -/
def sameKind (o : Bool) : B → Bool := if o then isOr else isAnd

/-- loop invariant of the first loop of `and_or` -/
def Inv (same : B → Bool) (args : List B) : Prop :=
  Sorted args ∧ ∀ x ∈ args, wf x = true ∧ isConst x = false ∧ same x = false

theorem inv_ins {same : B → Bool} {args : List B} {a : B} (h : Inv same args)
    (h1 : wf a = true) (h2 : isConst a = false) (h3 : same a = false) : Inv same (ins a args) := by
  refine ⟨sorted_ins a args h.1, ?_⟩
  intro x hx
  rcases (mem_ins a x args).1 hx with rfl | hx
  · exact ⟨h1, h2, h3⟩
  · exact h.2 x hx

theorem inv_insAll {same : B → Bool} : ∀ (l args : List B), Inv same args →
    (∀ a ∈ l, wf a = true ∧ isConst a = false ∧ same a = false) → Inv same (insAll l args)
  | [], args, h, _ => by simpa [insAll] using h
  | a :: l, args, h, hl => by
    simp only [insAll]
    have ha := hl a List.mem_cons_self
    exact inv_insAll l _ (inv_ins h ha.1 ha.2.1 ha.2.2) (fun x hx => hl x (List.mem_cons_of_mem _ hx))

theorem wf_children {same : B → Bool} {l : List B} (h1 : argsOk same l = true) (h2 : wfL l = true) :
    ∀ a ∈ l, wf a = true ∧ isConst a = false ∧ same a = false := by
  intro a ha
  have := ((argsOk_iff same l).1 h1).2.2 a ha
  exact ⟨(wfL_iff l).1 h2 a ha, this.1, this.2.1⟩

theorem collect_inv (o : Bool) : ∀ (s args : List B), (∀ a ∈ s, wf a = true) → Inv (sameKind o) args →
    ∀ r, collect o s args = some r → Inv (sameKind o) r
  | [], args, _, h, r, hr => by
    simp only [collect, Option.some.injEq] at hr
    exact hr ▸ h
  | a :: s, args, hs, h, r, hr => by
    have hwa : wf a = true := hs a List.mem_cons_self
    have hs' : ∀ x ∈ s, wf x = true := fun x hx => hs x (List.mem_cons_of_mem _ hx)
    have ih := collect_inv o s
    cases a with
    | tt =>
      cases o
      · simp only [collect, Bool.false_eq_true, if_false] at hr
        exact ih args hs' h r hr
      · simp [collect] at hr
    | ff =>
      cases o
      · simp [collect] at hr
      · simp only [collect, if_true] at hr
        exact ih args hs' h r hr
    | and l =>
      cases o
      · simp only [collect, Bool.false_eq_true, if_false] at hr
        simp only [wf, Bool.and_eq_true] at hwa
        refine ih _ hs' (inv_insAll l args h ?_) r hr
        simpa [sameKind] using wf_children hwa.1 hwa.2
      · simp only [collect, if_true] at hr
        exact ih _ hs' (inv_ins h hwa (by simp [isConst]) (by simp [sameKind, isOr])) r hr
    | or l =>
      cases o
      · simp only [collect, Bool.false_eq_true, if_false] at hr
        exact ih _ hs' (inv_ins h hwa (by simp [isConst]) (by simp [sameKind, isAnd])) r hr
      · simp only [collect, if_true] at hr
        simp only [wf, Bool.and_eq_true] at hwa
        refine ih _ hs' (inv_insAll l args h ?_) r hr
        simpa [sameKind] using wf_children hwa.1 hwa.2
    | rel i n =>
      simp only [collect] at hr
      exact ih _ hs' (inv_ins h hwa (by simp [isConst]) (by cases o <;> simp [sameKind, isAnd, isOr])) r hr
    | mem i =>
      simp only [collect] at hr
      exact ih _ hs' (inv_ins h hwa (by simp [isConst]) (by cases o <;> simp [sameKind, isAnd, isOr])) r hr
    | fs l =>
      simp only [collect] at hr
      exact ih _ hs' (inv_ins h hwa (by simp [isConst]) (by cases o <;> simp [sameKind, isAnd, isOr])) r hr
    | xor l =>
      simp only [collect] at hr
      exact ih _ hs' (inv_ins h hwa (by simp [isConst]) (by cases o <;> simp [sameKind, isAnd, isOr])) r hr
    | not b =>
      simp only [collect] at hr
      exact ih _ hs' (inv_ins h hwa (by simp [isConst]) (by cases o <;> simp [sameKind, isAnd, isOr])) r hr

theorem wf_const (b : Bool) : wf (const b) = true := by cases b <;> simp [const, wf]

theorem wf_andOr (o : Bool) (s : List B) (hs : ∀ a ∈ s, wf a = true) : wf (andOr o s) = true := by
  unfold andOr
  split
  · exact wf_const o
  · rename_i args hcol
    have hinv := collect_inv o s [] hs ⟨sorted_nil, by simp⟩ args hcol
    split
    · exact wf_const o
    · rename_i hcompl
      have hnc : ∀ a ∈ args, notB a ∉ args := by
        have : hasCompl args = false := by simpa using hcompl
        simpa [hasCompl] using this
      match args, hinv, hnc with
      | [], _, _ => exact wf_const _
      | [a], hinv, _ => exact (hinv.2 a List.mem_cons_self).1
      | a :: b :: t, hinv, hnc =>
        have hargs : argsOk (sameKind o) (a :: b :: t) = true := by
          rw [argsOk_iff]
          refine ⟨by simp, hinv.1, ?_⟩
          intro x hx
          exact ⟨(hinv.2 x hx).2.1, (hinv.2 x hx).2.2, hnc x hx⟩
        have hw : wfL (a :: b :: t) = true := (wfL_iff _).2 (fun x hx => (hinv.2 x hx).1)
        cases o
        · simp only [Bool.false_eq_true, if_false, wf, Bool.and_eq_true]
          exact ⟨by simpa [sameKind] using hargs, hw⟩
        · simp only [if_true, wf, Bool.and_eq_true]
          exact ⟨by simpa [sameKind] using hargs, hw⟩

theorem wf_finishAnd (args : List B) (hinv : Inv isAnd args) (hnc : ∀ a ∈ args, notB a ∉ args) :
    wf (finishAnd args) = true := by
  unfold finishAnd
  match args, hinv, hnc with
  | [], _, _ => simp [wf]
  | [a], hinv, _ => exact (hinv.2 a List.mem_cons_self).1
  | a :: b :: t, hinv, hnc =>
    have hargs : argsOk isAnd (a :: b :: t) = true := by
      rw [argsOk_iff]
      refine ⟨by simp, hinv.1, ?_⟩
      intro x hx
      exact ⟨(hinv.2 x hx).2.1, (hinv.2 x hx).2.2, hnc x hx⟩
    have hw : wfL (a :: b :: t) = true := (wfL_iff _).2 (fun x hx => (hinv.2 x hx).1)
    simp only [wf, Bool.and_eq_true]
    exact ⟨hargs, hw⟩

theorem wf_fsContains (l : List Int) : wf (fsContains l) = true := by
  unfold fsContains; split <;> simp [wf]

/-- `and_or<And>` with the FiniteSet-domain rule returns canonical objects -/
theorem wf_andD : ∀ (fuel : Nat) (s : List B) (b : B), (∀ a ∈ s, wf a = true) → andD fuel s = some b →
    wf b = true
  | 0, s, b, _, h => by simp [andD] at h
  | fuel + 1, s, b, hs, h => by
    unfold andD at h
    split at h
    · simp only [Option.some.injEq] at h
      rw [← h]; simp [wf]
    · rename_i args hcol
      have hinv : Inv isAnd args := by
        have := collect_inv false s [] hs ⟨sorted_nil, by simp⟩ args hcol
        simpa [sameKind] using this
      split at h
      · simp only [Option.some.injEq] at h
        rw [← h]; simp [wf]
      · rename_i hcompl
        have hnc : ∀ a ∈ args, notB a ∉ args := by
          have : hasCompl args = false := by simpa using hcompl
          simpa [hasCompl] using this
        split at h
        · simp only [Option.some.injEq] at h
          rw [← h]; exact wf_finishAnd args hinv hnc
        · rename_i fset hfil
          split at h
          · simp only [Option.some.injEq] at h
            rw [← h]; exact wf_finishAnd args hinv hnc
          · simp only at h
            split at h
            · simp only [Option.some.injEq] at h
              rw [← h]; exact wf_fsContains _
            · split at h
              · refine wf_andD fuel _ b ?_ h
                intro a ha
                rcases List.mem_cons.1 ha with ha | ha
                · rw [ha]; exact wf_fsContains _
                · have : a = andOr false (args.erase (.fs fset)) := by simpa using ha
                  rw [this]
                  exact wf_andOr false _ (fun y hy => (hinv.2 y (List.mem_of_mem_erase hy)).1)
              · simp only [Option.some.injEq] at h
                rw [← h]; exact wf_finishAnd args hinv hnc
        · cases h

/-! ### `logical_xor` -/

def XInv (args : List B) : Prop :=
  Sorted args ∧ ∀ x ∈ args, wf x = true ∧ isConst x = false ∧ isXor x = false ∧ notB x ∉ args

theorem xinv_erase {args : List B} (h : XInv args) (a : B) : XInv (args.erase a) := by
  refine ⟨sorted_erase a args h.1, ?_⟩
  intro x hx
  have hx' := List.mem_of_mem_erase hx
  obtain ⟨h1, h2, h3, h4⟩ := h.2 x hx'
  exact ⟨h1, h2, h3, fun hm => h4 (List.mem_of_mem_erase hm)⟩

theorem xorStep_inv (st : List B × Bool) (a : B) (h : XInv st.1)
    (h1 : wf a = true) (h2 : isConst a = false) (h3 : isXor a = false) : XInv (xorStep st a).1 := by
  unfold xorStep
  split
  · exact xinv_erase h a
  · rename_i hna
    split
    · exact xinv_erase h _
    · rename_i hnn
      refine ⟨sorted_insSorted a _ h.1 hna, ?_⟩
      intro x hx
      rcases (mem_insSorted a x st.1).1 hx with rfl | hx
      · refine ⟨h1, h2, h3, ?_⟩
        intro hm
        rcases (mem_insSorted _ _ st.1).1 hm with hm | hm
        · exact notB_ne_self _ h1 hm
        · exact hnn hm
      · obtain ⟨g1, g2, g3, g4⟩ := h.2 x hx
        refine ⟨g1, g2, g3, ?_⟩
        intro hm
        rcases (mem_insSorted _ _ st.1).1 hm with hm | hm
        · apply hnn
          rw [← hm, notB_invol x g1]
          exact hx
        · exact g4 hm

theorem xorSteps_inv : ∀ (l : List B) (st : List B × Bool), XInv st.1 →
    (∀ a ∈ l, wf a = true ∧ isConst a = false ∧ isXor a = false) → XInv (xorSteps l st).1
  | [], st, h, _ => by simpa [xorSteps] using h
  | a :: l, st, h, hl => by
    simp only [xorSteps]
    have ha := hl a List.mem_cons_self
    exact xorSteps_inv l _ (xorStep_inv st a h ha.1 ha.2.1 ha.2.2)
      (fun x hx => hl x (List.mem_cons_of_mem _ hx))

theorem xorLoop_inv : ∀ (s : List B) (st : List B × Bool), (∀ a ∈ s, wf a = true) → XInv st.1 →
    XInv (xorLoop s st).1
  | [], st, _, h => by simpa [xorLoop] using h
  | a :: s, st, hs, h => by
    have hwa : wf a = true := hs a List.mem_cons_self
    have hs' : ∀ x ∈ s, wf x = true := fun x hx => hs x (List.mem_cons_of_mem _ hx)
    have ih := xorLoop_inv s
    cases a with
    | tt => simp only [xorLoop]; exact ih _ hs' h
    | ff => simp only [xorLoop]; exact ih _ hs' h
    | xor l =>
      simp only [xorLoop]
      simp only [wf, Bool.and_eq_true] at hwa
      exact ih _ hs' (xorSteps_inv l st h (wf_children hwa.1 hwa.2))
    | rel i n => simp only [xorLoop]; exact ih _ hs' (xorStep_inv st _ h hwa (by simp [isConst]) (by simp [isXor]))
    | mem i => simp only [xorLoop]; exact ih _ hs' (xorStep_inv st _ h hwa (by simp [isConst]) (by simp [isXor]))
    | fs l => simp only [xorLoop]; exact ih _ hs' (xorStep_inv st _ h hwa (by simp [isConst]) (by simp [isXor]))
    | and l => simp only [xorLoop]; exact ih _ hs' (xorStep_inv st _ h hwa (by simp [isConst]) (by simp [isXor]))
    | or l => simp only [xorLoop]; exact ih _ hs' (xorStep_inv st _ h hwa (by simp [isConst]) (by simp [isXor]))
    | not b => simp only [xorLoop]; exact ih _ hs' (xorStep_inv st _ h hwa (by simp [isConst]) (by simp [isXor]))

theorem wf_xor_of_inv : ∀ (args : List B), XInv args → 2 ≤ args.length → wf (.xor args) = true := by
  intro args h hlen
  simp only [wf, Bool.and_eq_true]
  refine ⟨?_, (wfL_iff _).2 (fun x hx => (h.2 x hx).1)⟩
  rw [argsOk_iff]
  exact ⟨hlen, h.1, fun x hx => ⟨(h.2 x hx).2.1, (h.2 x hx).2.2.1, (h.2 x hx).2.2.2⟩⟩

theorem wf_xorFinish (st : List B × Bool) (h : XInv st.1) : wf (xorFinish st) = true := by
  obtain ⟨args, nots⟩ := st
  cases nots
  · simp only [xorFinish, Bool.false_eq_true, if_false]
    match args, h with
    | [], _ => simp [wf]
    | [a], h => exact (h.2 a List.mem_cons_self).1
    | a :: b :: t, h => exact wf_xor_of_inv _ h (by simp)
  · simp only [xorFinish, if_true]
    match args, h with
    | [], _ => simp [wf]
    | [a], h => exact wf_notB a (h.2 a List.mem_cons_self).1
    | a :: b :: t, h =>
      simp only [wf, notArgOk, Bool.true_and]
      have := wf_xor_of_inv _ h (by simp : 2 ≤ (a :: b :: t).length)
      simpa [wf] using this

theorem wf_xorE (s : List B) (hs : ∀ a ∈ s, wf a = true) : wf (xorE s) = true :=
  wf_xorFinish _ (xorLoop_inv s ([], false) hs ⟨sorted_nil, by simp⟩)

/-! ### recipes -/

def opSem : Op → List Bool → Bool
  | .and, l => l.all id
  | .or, l => l.any id
  | .xor, l => l.foldl (· ^^ ·) false
  | .nand, l => !l.all id
  | .nor, l => !l.any id
  | .xnor, l => !l.foldl (· ^^ ·) false
  | .not, l => match l with
    | [b] => !b
    | _ => false

mutual
/-- textbook semantics of a recipe -/
def rTruth (v : Val) : R → Bool
  | .leaf b => truth v b
  | .node op ch => opSem op (rTruthL v ch)
def rTruthL (v : Val) : List R → List Bool
  | [] => []
  | r :: rs => rTruth v r :: rTruthL v rs
end

mutual
def leavesWf : R → Bool
  | .leaf b => wf b
  | .node _ ch => leavesWfL ch
def leavesWfL : List R → Bool
  | [] => true
  | r :: rs => leavesWf r && leavesWfL rs
end

theorem apply_sound (x : Int) (v : Val) (hv : v.ok) (op : Op) (args : List B) (b : B)
    (h : apply op args = some b) :
    truth (nv x v) b = opSem op (args.map (truth (nv x v))) := by
  have hV := nv_ok x v hv
  cases op with
  | and =>
    simp only [apply, andE] at h
    simp [andD_sound x v hv _ _ _ h, opSem, allT_eq_all, List.all_map]
  | or =>
    simp only [apply, Option.some.injEq] at h
    simp [← h, orE, and_or_sound_fold _ hV, foldOp, opSem, anyT_eq_any, List.any_map]
  | nand =>
    simp only [apply, nandE, andE, Option.map_eq_some_iff] at h
    obtain ⟨b', hb', rfl⟩ := h
    simp [not_sound _ hV, andD_sound x v hv _ _ _ hb', opSem, allT_eq_all, List.all_map]
  | nor =>
    simp only [apply, Option.some.injEq] at h
    simp [← h, nor_sound_T _ hV, opSem, anyT_eq_any, List.any_map]
  | xor =>
    simp only [apply, Option.some.injEq] at h
    simp [← h, xor_sound_par _ hV, opSem, parT_eq_foldl, List.foldl_map]
  | xnor =>
    simp only [apply, Option.some.injEq] at h
    simp [← h, xnor_sound_par _ hV, opSem, parT_eq_foldl, List.foldl_map]
  | not =>
    match args, h with
    | [a], h =>
      simp only [apply, Option.some.injEq] at h
      simp [← h, not_sound _ hV, opSem]

theorem apply_wf (op : Op) (args : List B) (b : B) (hargs : ∀ a ∈ args, wf a = true)
    (h : apply op args = some b) : wf b = true := by
  cases op with
  | and => simp only [apply, andE] at h; exact wf_andD _ args b hargs h
  | or => simp only [apply, Option.some.injEq] at h; exact h ▸ wf_andOr true args hargs
  | nand =>
    simp only [apply, nandE, andE, Option.map_eq_some_iff] at h
    obtain ⟨b', hb', rfl⟩ := h
    exact wf_notB _ (wf_andD _ args b' hargs hb')
  | nor => simp only [apply, Option.some.injEq] at h; exact h ▸ wf_notB _ (wf_andOr true args hargs)
  | xor => simp only [apply, Option.some.injEq] at h; exact h ▸ wf_xorE args hargs
  | xnor => simp only [apply, Option.some.injEq] at h; exact h ▸ wf_notB _ (wf_xorE args hargs)
  | not =>
    match args, h, hargs with
    | [a], h, hargs =>
      simp only [apply, Option.some.injEq] at h
      exact h ▸ wf_notB a (hargs a List.mem_cons_self)

mutual
theorem build_sound (x : Int) (v : Val) (hv : v.ok) :
    ∀ (r : R) (b : B), build r = some b → truth (nv x v) b = rTruth (nv x v) r
  | .leaf y, b, h => by
    simp only [build, Option.some.injEq] at h
    simp [rTruth, h]
  | .node op ch, b, h => by
    simp only [build] at h
    split at h
    · cases h
    · rename_i args hargs
      rw [rTruth, apply_sound x v hv op args b h, buildL_sound x v hv ch args hargs]
theorem buildL_sound (x : Int) (v : Val) (hv : v.ok) : ∀ (rs : List R) (bs : List B), buildL rs = some bs →
    bs.map (truth (nv x v)) = rTruthL (nv x v) rs
  | [], bs, h => by
    simp only [buildL, Option.some.injEq] at h
    simp [← h, rTruthL]
  | r :: rs, bs, h => by
    simp only [buildL] at h
    split at h
    · rename_i b bs' hb hbs
      simp only [Option.some.injEq] at h
      simp [← h, rTruthL, build_sound x v hv r b hb, buildL_sound x v hv rs bs' hbs]
    · cases h
end

mutual
theorem build_wf : ∀ (r : R) (b : B), leavesWf r = true → build r = some b → wf b = true
  | .leaf x, b, hl, h => by
    simp only [build, Option.some.injEq] at h
    simpa [leavesWf, h] using hl
  | .node op ch, b, hl, h => by
    simp only [build] at h
    simp only [leavesWf] at hl
    split at h
    · cases h
    · rename_i args hargs
      exact apply_wf op args b (buildL_wf ch args hl hargs) h
theorem buildL_wf : ∀ (rs : List R) (bs : List B), leavesWfL rs = true → buildL rs = some bs →
    ∀ b ∈ bs, wf b = true
  | [], bs, _, h => by
    simp only [buildL, Option.some.injEq] at h
    simp [← h]
  | r :: rs, bs, hl, h => by
    simp only [buildL] at h
    simp only [leavesWfL, Bool.and_eq_true] at hl
    split at h
    · rename_i b bs' hb hbs
      simp only [Option.some.injEq] at h
      intro x hx
      rw [← h] at hx
      rcases List.mem_cons.1 hx with hxb | hx
      · rw [hxb]; exact build_wf r b hl.1 hb
      · exact buildL_wf rs bs' hl.2 hbs x hx
    · cases h
end

/-! ### `piecewise` -/

/-- `Piecewise::is_canonical`, the loop with its `conditions` set -/
def pwCanonAux : List (Nat × B) → List B → Bool
  | [], _ => true
  | (_, c) :: t, seen =>
    if c = .ff then false
    else if c = .tt then t.isEmpty
    else if c ∈ seen then false
    else pwCanonAux t (c :: seen)

def pwCanonical (l : List (Nat × B)) : Bool :=
  pwCanonAux l [] && !l.isEmpty &&
    (match l with
     | [(_, .tt)] => false
     | _ => true)

theorem pwPrune_canon : ∀ (vec : List (Nat × B)) (seen : List B), pwCanonAux (pwPrune vec seen) seen = true
  | [], seen => by simp [pwPrune, pwCanonAux]
  | (e, c) :: t, seen => by
    unfold pwPrune
    split
    · exact pwPrune_canon t seen
    · split
      · rename_i h1 h2
        simp [pwCanonAux, h2]
      · split
        · exact pwPrune_canon t seen
        · rename_i h1 h2 h3
          simp [pwCanonAux, h1, h2, h3, pwPrune_canon t (c :: seen)]

theorem pwPrune_conds : ∀ (vec : List (Nat × B)) (seen : List B) (p : Nat × B),
    p ∈ pwPrune vec seen → p ∈ vec
  | [], seen, p, h => by simp [pwPrune] at h
  | (e, c) :: t, seen, p, h => by
    unfold pwPrune at h
    split at h
    · exact List.mem_cons_of_mem _ (pwPrune_conds t seen p h)
    · split at h
      · simp only [List.mem_singleton] at h
        rw [h]; exact List.mem_cons_self
      · split at h
        · exact List.mem_cons_of_mem _ (pwPrune_conds t seen p h)
        · rcases List.mem_cons.1 h with h | h
          · rw [h]; exact List.mem_cons_self
          · exact List.mem_cons_of_mem _ (pwPrune_conds t _ p h)

end SymVerif.C28
