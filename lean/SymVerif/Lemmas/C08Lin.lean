import SymVerif.Model.Funcs
import Mathlib.Data.Rat.Cast.CharZero
import Mathlib.Algebra.BigOperators.Group.List.Basic
import Mathlib.Tactic.Ring
import Mathlib.Tactic.FieldSimp
import Mathlib.Tactic.Linarith
import Mathlib.Tactic.NormNum
/-!
C08: value of a linear form under a valuation of its atoms, and the value-level meaning of the
operations `neg`, `dropPi`, `addPi`, `getPiShift`, `handleMinus` of `Model/Funcs.lean`.
Everything is stated over an arbitrary field `K` of characteristic 0 with a distinguished element
`pi` (instantiated at ℂ and ℝ in `Props/C08.lean`).
-/
set_option linter.unusedSectionVars false
set_option linter.unusedSimpArgs false
namespace SymVerif.Funcs
open SymVerif

variable {K : Type} [Field K] [CharZero K]

/-- value of an atom: `pi` is the distinguished element, every other atom is looked up -/
def atomVal (ρ : Expr → K) (pi : K) (k : Expr) : K := if isPi k then pi else ρ k

def termVal (ρ : Expr → K) (pi : K) (p : Expr × Rat) : K := (p.2 : K) * atomVal ρ pi p.1

def sumTs (ρ : Expr → K) (pi : K) (ts : List (Expr × Rat)) : K := (ts.map (termVal ρ pi)).sum

/-- value of a linear form -/
def Lin.eval (ρ : Expr → K) (pi : K) (l : Lin) : K := (l.c : K) + sumTs ρ pi l.ts

@[simp] theorem sumTs_nil (ρ : Expr → K) (pi : K) : sumTs ρ pi [] = 0 := by simp [sumTs]
@[simp] theorem sumTs_cons (ρ : Expr → K) (pi : K) (a) (t) :
    sumTs ρ pi (a :: t) = termVal ρ pi a + sumTs ρ pi t := by simp [sumTs]
theorem sumTs_append (ρ : Expr → K) (pi : K) (s t) :
    sumTs ρ pi (s ++ t) = sumTs ρ pi s + sumTs ρ pi t := by simp [sumTs]

theorem isPi_piE : isPi piE = true := by decide

theorem Lin.eval_zero (ρ : Expr → K) (pi : K) : Lin.zero.eval ρ pi = 0 := by
  simp [Lin.eval, Lin.zero]

theorem Lin.eval_of_isZero {ρ : Expr → K} {pi : K} {l : Lin} (h : l.isZero = true) : l.eval ρ pi = 0 := by
  simp only [Lin.isZero, Bool.and_eq_true, beq_iff_eq, List.isEmpty_iff] at h
  simp [Lin.eval, h.1, h.2]

theorem sumTs_neg (ρ : Expr → K) (pi : K) (ts : List (Expr × Rat)) :
    sumTs ρ pi (ts.map fun p => (p.1, -p.2)) = - sumTs ρ pi ts := by
  induction ts with
  | nil => simp
  | cons a t ih => simp [ih, termVal]; ring

theorem Lin.eval_neg (ρ : Expr → K) (pi : K) (l : Lin) : l.neg.eval ρ pi = - l.eval ρ pi := by
  simp only [Lin.eval, Lin.neg, sumTs_neg]; push_cast; ring

theorem Lin.isZero_neg (l : Lin) : l.neg.isZero = l.isZero := by
  have h : (-l.c == 0) = (l.c == 0) := by
    rw [Bool.eq_iff_iff]; simp [neg_eq_zero]
  simp [Lin.isZero, Lin.neg, h]

/-! ### the `pi` entry -/

abbrev isPiP : Expr × Rat → Bool := fun p => isPi p.1

theorem sumTs_split (ρ : Expr → K) (pi : K) (ts : List (Expr × Rat)) :
    sumTs ρ pi ts = sumTs ρ pi (ts.filter isPiP) + sumTs ρ pi (ts.filter (fun p => !isPi p.1)) := by
  induction ts with
  | nil => simp
  | cons a t ih =>
    by_cases h : isPi a.1 = true
    · simp [List.filter_cons, h, ih]; ring
    · simp [List.filter_cons, h, ih]; ring

theorem filter_of_find_none {α} (P : α → Bool) (ts : List α) (h : ts.find? P = none) : ts.filter P = [] := by
  rw [List.filter_eq_nil_iff]
  intro a ha hp
  rw [List.find?_eq_none] at h
  exact h a ha hp

theorem filter_of_find_some {α} (P : α → Bool) (ts : List α) (x : α) (h : ts.find? P = some x)
    (hl : (ts.filter P).length ≤ 1) : ts.filter P = [x] := by
  induction ts with
  | nil => simp at h
  | cons a t ih =>
    by_cases hp : P a = true
    · simp only [List.find?_cons, hp] at h
      cases h
      simp only [List.filter_cons, hp, if_true, List.length_cons] at hl ⊢
      have : (t.filter P).length = 0 := by omega
      rw [List.length_eq_zero_iff] at this
      rw [this]
    · have hp' : P a = false := by simpa using hp
      simp only [List.find?_cons, hp'] at h
      simp only [List.filter_cons, hp'] at hl ⊢
      exact ih h hl

theorem wf_iff (l : Lin) : l.wf = true ↔ (l.ts.filter isPiP).length ≤ 1 := by
  simp [Lin.wf, isPiP]

theorem piCoef_some {l : Lin} {n : Rat} (h : l.piCoef = some n) (hw : l.wf = true) :
    ∃ k, isPi k = true ∧ l.ts.filter isPiP = [(k, n)] := by
  simp only [Lin.piCoef, Option.map_eq_some_iff] at h
  obtain ⟨⟨k, n'⟩, hf, hn⟩ := h
  simp at hn; subst hn
  refine ⟨k, ?_, filter_of_find_some isPiP l.ts (k, n') hf ((wf_iff l).mp hw)⟩
  have := List.find?_some hf
  simpa using this

theorem piCoef_none {l : Lin} (h : l.piCoef = none) : l.ts.filter isPiP = [] := by
  simp only [Lin.piCoef, Option.map_eq_none_iff] at h
  exact filter_of_find_none _ _ h

theorem dropPi_filter (l : Lin) : l.dropPi.ts.filter isPiP = [] := by
  rw [List.filter_eq_nil_iff]
  intro a ha
  simp only [Lin.dropPi, List.mem_filter] at ha
  simpa using ha.2

theorem dropPi_wf (l : Lin) : l.dropPi.wf = true := by
  rw [wf_iff, dropPi_filter]; simp

theorem eval_dropPi_of_some (ρ : Expr → K) (pi : K) {l : Lin} {n : Rat} (h : l.piCoef = some n)
    (hw : l.wf = true) : l.eval ρ pi = l.dropPi.eval ρ pi + (n : K) * pi := by
  obtain ⟨k, hk, hf⟩ := piCoef_some h hw
  simp only [Lin.eval, Lin.dropPi]
  rw [sumTs_split ρ pi l.ts, hf]
  simp [termVal, atomVal, hk]; ring

theorem eval_dropPi_of_none (ρ : Expr → K) (pi : K) {l : Lin} (h : l.piCoef = none) :
    l.dropPi.eval ρ pi = l.eval ρ pi := by
  simp only [Lin.eval, Lin.dropPi]
  rw [sumTs_split ρ pi l.ts, piCoef_none h]
  simp

/-- `get_pi_shift`: `arg = x + n·pi` -/
theorem getPiShift_sound (ρ : Expr → K) (pi : K) {l r : Lin} {n : Rat} (h : getPiShift l = some (n, r))
    (hw : l.wf = true) : l.eval ρ pi = r.eval ρ pi + (n : K) * pi ∧ r.wf = true := by
  unfold getPiShift at h
  cases hp : l.piCoef with
  | some m =>
    simp only [hp] at h
    cases h
    exact ⟨eval_dropPi_of_some ρ pi hp hw, dropPi_wf l⟩
  | none =>
    simp only [hp] at h
    split at h
    · cases h
      simp [hw]
    · cases h

theorem getPiShift_isZero {l r : Lin} {n : Rat} (h : getPiShift l = some (n, r)) (hz : l.isZero = true) :
    n = 0 ∧ r = l := by
  unfold getPiShift at h
  have : l.piCoef = none := by
    simp only [Lin.isZero, Bool.and_eq_true, beq_iff_eq, List.isEmpty_iff] at hz
    simp [Lin.piCoef, hz.2]
  simp only [this, hz, if_true] at h
  cases h
  exact ⟨rfl, rfl⟩

/-! ### addPi -/

theorem sumTs_mapPi (ρ : Expr → K) (pi : K) (q : Rat) (ts : List (Expr × Rat)) :
    sumTs ρ pi (ts.map fun kv => if isPi kv.1 then (kv.1, kv.2 + q) else kv)
      = sumTs ρ pi ts + ((ts.filter isPiP).length : K) * ((q : K) * pi) := by
  induction ts with
  | nil => simp
  | cons a t ih =>
    by_cases h : isPi a.1 = true
    · simp [List.filter_cons, h, ih, termVal, atomVal]; ring
    · simp [List.filter_cons, h, ih]; try ring

theorem filter_mapPi_length (q : Rat) (ts : List (Expr × Rat)) :
    ((ts.map fun kv => if isPi kv.1 then (kv.1, kv.2 + q) else kv).filter isPiP).length
      = (ts.filter isPiP).length := by
  induction ts with
  | nil => simp
  | cons a t ih =>
    by_cases h : isPi a.1 = true
    · simp [List.filter_cons, h, ih]
    · simp [List.filter_cons, h, ih]

/-- `add(l, mul(pi, q))` adds `q·pi` to the value -/
theorem addPi_sound (ρ : Expr → K) (pi : K) (l : Lin) (q : Rat) (hw : l.wf = true) :
    (l.addPi q).eval ρ pi = l.eval ρ pi + (q : K) * pi ∧ (l.addPi q).wf = true := by
  unfold Lin.addPi
  split
  · rename_i hq
    have : q = 0 := by simpa using hq
    subst this
    simp [hw]
  · split
    · rename_i hp
      have hf := piCoef_none hp
      constructor
      · simp only [Lin.eval, sumTs_append, sumTs_cons, sumTs_nil, termVal, atomVal, isPi_piE, if_true]
        ring
      · rw [wf_iff]
        simp only [List.filter_append, hf, List.nil_append]
        exact (List.length_filter_le _ _).trans (by simp)
    · rename_i p hp
      split
      · rename_i hpq
        refine ⟨?_, dropPi_wf l⟩
        have e := eval_dropPi_of_some ρ pi hp hw
        have hq' : (q : K) = -(p : K) := by
          have h0 : p + q = 0 := by simpa using hpq
          have h1 : q = -p := by linarith
          rw [h1]; push_cast; ring
        rw [e, hq']; ring
      · obtain ⟨k, hk, hf⟩ := piCoef_some hp hw
        constructor
        · simp only [Lin.eval]
          rw [sumTs_mapPi, hf]
          simp only [List.length_singleton, Nat.cast_one, one_mul]
          ring
        · rw [wf_iff]
          simp only []
          rw [filter_mapPi_length]
          exact (wf_iff l).mp hw

/-! ### handle_minus -/

/-- the valuation gives an `Add` atom the value of the sum it stores -/
def Compositional (ρ : Expr → K) (pi : K) : Prop :=
  ∀ c ts inner, toLin (.add c ts) = some inner → ρ (.add c ts) = inner.eval ρ pi

theorem neg_wf (l : Lin) (hw : l.wf = true) : l.neg.wf = true := by
  rw [wf_iff] at hw ⊢
  have : (l.neg.ts.filter isPiP).length = (l.ts.filter isPiP).length := by
    simp only [Lin.neg]
    induction l.ts with
    | nil => simp
    | cons a t ih =>
      by_cases h : isPi a.1 = true
      · simp [List.filter_cons, h, ih]
      · simp [List.filter_cons, h, ih]
  omega

/-- `handle_minus(arg, rarg)`: `rarg = -arg` when it returns true, `rarg = arg` otherwise -
for *every* dictionary order -/
theorem handleMinus_sound (ρ : Expr → K) (pi : K) (hρ : Compositional ρ pi) (order : List Expr) :
    ∀ (fuel : Nat) (l : Lin) (b : Bool) (r : Lin), l.wf = true → handleMinus order fuel l = .ok (b, r) →
      r.eval ρ pi = (if b then -1 else 1) * l.eval ρ pi ∧ r.wf = true ∧ (l.isZero = false → r.isZero = false ∨ True) := by
  intro fuel
  induction fuel with
  | zero => intro l b r _ h; simp [handleMinus] at h
  | succ fuel ih =>
    intro l b r hw h
    have generic : ∀ (b : Bool) (r : Lin), (do
          let b ← leadNeg order l
          pure (if b then (true, l.neg) else (false, l)) : Except Err (Bool × Lin)) = .ok (b, r) →
        r.eval ρ pi = (if b then -1 else 1) * l.eval ρ pi ∧ r.wf = true ∧ (l.isZero = false → r.isZero = false ∨ True) := by
      intro b r hg
      cases hl : leadNeg order l with
      | error e => simp [hl, bind, Except.bind] at hg
      | ok bb =>
        simp only [hl, bind, Except.bind, pure, Except.pure] at hg
        cases bb with
        | true =>
          simp at hg
          obtain ⟨hb, hr⟩ := hg
          subst hb; subst hr
          exact ⟨by simp [Lin.eval_neg], neg_wf l hw, fun _ => Or.inr trivial⟩
        | false =>
          simp at hg
          obtain ⟨hb, hr⟩ := hg
          subst hb; subst hr
          exact ⟨by simp, hw, fun _ => Or.inr trivial⟩
    unfold handleMinus at h
    split at h
    · rename_i c ts q hc hts
      split at h
      · rename_i hq
        have hq' : q = -1 := by simpa using hq
        split at h
        · cases h
        · rename_i inner hin
          split at h
          · cases h
          · rename_i hwf
            have hwf' : inner.wf = true := by simpa using hwf
            cases hrec : handleMinus order fuel inner with
            | error e => simp [hrec, bind, Except.bind] at h
            | ok pr =>
              obtain ⟨b', r'⟩ := pr
              simp only [hrec, bind, Except.bind, pure, Except.pure] at h
              have hpr := Except.ok.inj h
              have hb : (!b') = b := (Prod.mk.inj hpr).1
              have hr : r' = r := (Prod.mk.inj hpr).2
              subst hr; subst hb
              obtain ⟨e1, w1, _⟩ := ih inner b' r' hwf' hrec
              refine ⟨?_, w1, fun _ => Or.inr trivial⟩
              have hl : l.eval ρ pi = - inner.eval ρ pi := by
                have hc' : l.c = 0 := by simpa using hc
                simp only [Lin.eval, hc', hts]
                simp [termVal, atomVal, isPi, hq', hρ c ts inner hin, Lin.eval]
              rw [e1, hl]
              cases b' <;> simp
      · exact generic b r h
    · exact generic b r h

end SymVerif.Funcs
