import SymVerif.Lemmas.C33Iter
/-! World (sieve state + iterator table) invariant and the specification of one API call. -/
namespace SymVerif.C33
open SymVerif.Sieve

/-- World invariant: the sieve state invariant, and no iterator stands beyond the storage. -/
structure WInv (w : World) : Prop where
  inv : Inv w.s
  idx : ∀ k it, lookupIter w.iters k = some it → it.index ≤ w.s.buf.size

theorem winv_init : WInv World.init := ⟨inv_init, by intro k it h; simp [World.init, lookupIter] at h⟩

/-- What a successful call must have returned (`out`) and done to the iterator table. -/
def OutOk (w : World) (op : Op) (out : List Nat) (w' : World) : Prop :=
  match op with
  | .gen limit => out = primesUpTo limit ∧ w'.iters = w.iters
  | .iterNew slot limit => out = [] ∧ lookupIter w'.iters slot = some { index := 0, limit := limit } ∧
      ∀ k, k ≠ slot → lookupIter w'.iters k = lookupIter w.iters k
  | .iterNext slot count =>
      (∀ k, k ≠ slot → lookupIter w'.iters k = lookupIter w.iters k) ∧
      match lookupIter w.iters slot with
      | none => out = [] ∧ lookupIter w'.iters slot = none
      | some it => out.length = count ∧ ∃ it', lookupIter w'.iters slot = some it' ∧
          it'.limit = it.limit ∧ IterRun it.limit it.index out it'.index
  | .iterDel slot => out = [] ∧ lookupIter w'.iters slot = none ∧
      ∀ k, k ≠ slot → lookupIter w'.iters k = lookupIter w.iters k
  | _ => out = [] ∧ w'.iters = w.iters

theorem inv_iterDestroy {s : State} (h : Inv s) :
    Inv (iterDestroy s) ∧ (iterDestroy s).buf.size = s.buf.size := by
  unfold iterDestroy
  split
  · exact ⟨inv_clear h, rfl⟩
  · exact ⟨h, rfl⟩

theorem step_spec (w : World) (op : Op) (hw : WInv w) (hop : opOk op = true) :
    (∃ w' out, step w op = .ok (w', out) ∧ WInv w' ∧ OutOk w op out w') ∨
    (step w op = .error .range ∧ ∃ slot count, op = .iterNext slot count) := by
  cases op with
  | gen limit =>
    left
    have hl : limit < maxLimit := by simpa [opOk] using hop
    obtain ⟨s', e, i', b, c, g⟩ := generatePrimes_spec w.s limit hw.inv hl
    refine ⟨{ w with s := s' }, primesUpTo limit, by simp [step, e], ⟨i', ?_⟩, rfl, rfl⟩
    intro k it h
    exact le_trans (hw.idx k it h) g
  | clear =>
    left
    exact ⟨_, [], rfl, ⟨inv_clear hw.inv, hw.idx⟩, rfl, rfl⟩
  | setClear b =>
    left
    exact ⟨_, [], rfl, ⟨⟨hw.inv.size_le, hw.inv.ten_le, hw.inv.nth, hw.inv.bits⟩, hw.idx⟩, rfl, rfl⟩
  | setSize kib =>
    left
    have hk : 0 < kib := by
      have : 0 < kib ∧ kib < 2 ^ 17 := by simpa [opOk] using hop
      exact this.1
    refine ⟨_, [], rfl, ⟨⟨hw.inv.size_le, hw.inv.ten_le, hw.inv.nth, ?_⟩, hw.idx⟩, rfl, rfl⟩
    show 0 < kib * 1024 * 8
    omega
  | setBits bits =>
    left
    have hk : 0 < bits := by
      have : 0 < bits ∧ bits < 2 ^ 30 := by simpa [opOk] using hop
      exact this.1
    exact ⟨_, [], rfl, ⟨⟨hw.inv.size_le, hw.inv.ten_le, hw.inv.nth, hk⟩, hw.idx⟩, rfl, rfl⟩
  | iterNew slot limit =>
    left
    have hd := inv_iterDestroy hw.inv
    cases hlk : lookupIter w.iters slot with
    | none =>
      refine ⟨{ s := w.s, iters := setIter w.iters slot { index := 0, limit := limit } }, [],
        by simp only [step, hlk], ⟨hw.inv, ?_⟩, rfl, ?_, ?_⟩
      · intro k it h
        simp only [lookup_setIter, lookup_filter] at h
        by_cases hk : k = slot
        · simp [hk] at h; subst h; exact Nat.zero_le _
        · simp [hk] at h; exact hw.idx k it h
      · simp [lookup_setIter]
      · intro k hk
        simp [lookup_setIter, lookup_filter, hk]
    | some it0 =>
      refine ⟨{ s := iterDestroy w.s, iters := setIter w.iters slot { index := 0, limit := limit } }, [],
        by simp only [step, hlk], ⟨hd.1, ?_⟩, rfl, ?_, ?_⟩
      · intro k it h
        simp only [lookup_setIter, lookup_filter] at h
        by_cases hk : k = slot
        · simp [hk] at h; subst h; exact Nat.zero_le _
        · simp [hk] at h; rw [hd.2]; exact hw.idx k it h
      · simp [lookup_setIter]
      · intro k hk
        simp [lookup_setIter, lookup_filter, hk]
  | iterNext slot count =>
    cases hlk : lookupIter w.iters slot with
    | none =>
      left
      refine ⟨w, [], by simp only [step, hlk], hw, fun _ _ => rfl, ?_⟩
      rw [hlk]; exact ⟨rfl, rfl⟩
    | some it =>
      rcases nextMany_spec count w.s it [] hw.inv (hw.idx slot it hlk) with
        ⟨s', it', out, e, i', g, b, c, len, lim, idx, run⟩ | e
      · left
        simp only [List.reverse_nil, List.nil_append] at e
        refine ⟨{ s := s', iters := setIter w.iters slot it' }, out, by simp only [step, hlk, e], ⟨i', ?_⟩, ?_, ?_⟩
        · intro k it2 h
          simp only [lookup_setIter, lookup_filter] at h
          by_cases hk : k = slot
          · simp [hk] at h; subst h; exact idx
          · simp [hk] at h; exact le_trans (hw.idx k it2 h) g
        · intro k hk
          simp [lookup_setIter, lookup_filter, hk]
        · rw [hlk]
          exact ⟨len, it', by simp [lookup_setIter], lim, run⟩
      · right
        exact ⟨by simp only [step, hlk, e], slot, count, rfl⟩
  | iterDel slot =>
    left
    cases hlk : lookupIter w.iters slot with
    | none =>
      exact ⟨w, [], by simp only [step, hlk], hw, rfl, hlk, fun _ _ => rfl⟩
    | some it =>
      refine ⟨{ s := iterDestroy w.s, iters := w.iters.filter (fun p => p.1 != slot) }, [],
        by simp only [step, hlk], ⟨?_, ?_⟩, rfl, ?_, ?_⟩
      · unfold iterDestroy
        split
        · exact inv_clear hw.inv
        · exact hw.inv
      · intro k it2 h
        simp only [lookup_filter] at h
        by_cases hk : k = slot
        · simp [hk] at h
        · simp [hk] at h
          have := hw.idx k it2 h
          unfold iterDestroy
          split <;> exact this
      · simp [lookup_filter]
      · intro k hk
        simp [lookup_filter, hk]

end SymVerif.C33
