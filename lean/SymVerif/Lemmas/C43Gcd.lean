import Mathlib.Tactic.Ring
import Mathlib.Tactic.Linarith
import Mathlib.Tactic.LinearCombination
import SymVerif.Lemmas.C43Div
/-! C43, extended gcd and modular inverse of mp_boost.cpp. -/
namespace SymVerif.C43
open SymVerif

/-- loop invariant of `mp_gcdext`: both remainders are integer combinations of `a` and `b`, and the gcd
of the two remainders never changes -/
theorem gcdextLoop_spec (a b : Int) (thisS thisT nextS nextT thisR nextR : Int)
    (h1 : thisR = a * thisS + b * thisT) (h2 : nextR = a * nextS + b * nextT) :
    (MpBoost.gcdextLoop thisS thisT nextS nextT thisR nextR).1
      = a * (MpBoost.gcdextLoop thisS thisT nextS nextT thisR nextR).2.1
        + b * (MpBoost.gcdextLoop thisS thisT nextS nextT thisR nextR).2.2 ∧
    (MpBoost.gcdextLoop thisS thisT nextS nextT thisR nextR).1.natAbs = Int.gcd thisR nextR := by
  fun_induction MpBoost.gcdextLoop thisS thisT nextS nextT thisR nextR with
  | case1 thisS thisT nextS nextT thisR =>
    exact ⟨h1, by simp⟩
  | case2 thisS thisT nextS nextT thisR nextR h qr ih =>
    have hq : qr = (thisR.tdiv nextR, thisR.tmod nextR) := rfl
    have key : thisR.tmod nextR = a * (thisS - qr.1 * nextS) + b * (thisT - qr.1 * nextT) := by
      have := Int.tmod_add_tdiv_mul thisR nextR
      rw [hq]
      simp only
      have e : thisR.tmod nextR = thisR - thisR.tdiv nextR * nextR := by omega
      rw [e, h1, h2]; ring
    obtain ⟨i1, i2⟩ := ih h2 (by rw [hq] at key ⊢; exact key)
    refine ⟨i1, ?_⟩
    rw [i2, hq]
    simp only [Int.gcd, Int.natAbs_tmod]
    rw [Nat.gcd_comm thisR.natAbs, Nat.gcd_rec nextR.natAbs thisR.natAbs, Nat.gcd_comm]

/-- `mp_gcdext` : `g = gcd(a, b) ≥ 0` and `a*s + b*t = g` (Bézout) -/
theorem boost_gcdext_bezout (a b : Int) :
    (MpBoost.gcdext a b).1 = (Int.gcd a b : Int) ∧
    a * (MpBoost.gcdext a b).2.1 + b * (MpBoost.gcdext a b).2.2 = (MpBoost.gcdext a b).1 := by
  obtain ⟨h1, h2⟩ := gcdextLoop_spec a b 1 0 0 1 a b (by ring) (by ring)
  unfold MpBoost.gcdext
  generalize MpBoost.gcdextLoop 1 0 0 1 a b = r at h1 h2
  obtain ⟨g, s, t⟩ := r
  simp only at h1 h2
  by_cases hneg : g < 0
  · have hg0 : ¬ (g * -1 = 0) := by omega
    simp only [hneg, if_true, hg0, if_false]
    refine ⟨by omega, ?_⟩
    rw [h1]; ring
  · simp only [hneg, if_false]
    by_cases hz : g = 0
    · simp only [hz, if_true]
      have : Int.gcd a b = 0 := by rw [← h2, hz]; rfl
      have ha : a = 0 := (Int.gcd_eq_zero_iff.mp this).1
      have hb : b = 0 := (Int.gcd_eq_zero_iff.mp this).2
      simp [ha, hb]
    · simp only [hz, if_false]
      exact ⟨by omega, h1.symm⟩


/-! ### the specification's `gcdext` is a Bézout pair too -/

theorem natXgcd_spec (a b : Nat) :
    (MpSpec.natXgcd a b).1 = Nat.gcd a b ∧
    (a : Int) * (MpSpec.natXgcd a b).2.1 + (b : Int) * (MpSpec.natXgcd a b).2.2 = (MpSpec.natXgcd a b).1 := by
  fun_induction MpSpec.natXgcd a b with
  | case1 a => simp
  | case2 a b h r ih =>
    obtain ⟨i1, i2⟩ := ih
    refine ⟨?_, ?_⟩
    · show r.1 = Nat.gcd a b
      rw [i1, Nat.gcd_comm a b, Nat.gcd_rec b a, Nat.gcd_comm]
    · show (a : Int) * r.2.2 + (b : Int) * (r.2.1 - ((a / b : Nat) : Int) * r.2.2) = r.1
      have hdm : (a : Int) = (b : Int) * ((a / b : Nat) : Int) + ((a % b : Nat) : Int) := by
        have := Nat.div_add_mod a b
        exact_mod_cast this.symm
      linear_combination i2 + r.2.2 * hdm


theorem mul_sign_natAbs (a : Int) : a * a.sign = (a.natAbs : Int) := by
  rw [Int.mul_sign_self]

/-- the specification's `gcdext` returns the gcd and a Bézout pair -/
theorem spec_gcdext_bezout (a b : Int) :
    (MpSpec.gcdext a b).1 = (Int.gcd a b : Int) ∧
    a * (MpSpec.gcdext a b).2.1 + b * (MpSpec.gcdext a b).2.2 = (MpSpec.gcdext a b).1 := by
  unfold MpSpec.gcdext
  by_cases hb : b = 0
  · subst hb
    simp
  · simp only [hb, if_false]
    obtain ⟨x1, x2⟩ := natXgcd_spec a.natAbs b.natAbs
    generalize MpSpec.natXgcd a.natAbs b.natAbs = r at x1 x2
    obtain ⟨g, x, y⟩ := r
    simp only at x1 x2 ⊢
    have hg : (g : Int) = (Int.gcd a b : Int) := by rw [x1]; rfl
    refine ⟨hg, ?_⟩
    -- |b| = g * bg,  a = g * a'
    have hgb : (g : Int) ∣ (b.natAbs : Int) := by
      rw [x1]; exact_mod_cast Nat.gcd_dvd_right a.natAbs b.natAbs
    have hga : (g : Int) ∣ a := by
      rw [hg]; exact Int.gcd_dvd_left a b
    obtain ⟨a', ha'⟩ := hga
    have hbg : (b.natAbs : Int) = (g : Int) * ((b.natAbs : Int) / (g : Int)) := (Int.mul_ediv_cancel' hgb).symm
    generalize hBG : (b.natAbs : Int) / (g : Int) = bg at hbg
    -- every candidate s is congruent to sign a * x modulo bg
    have hs0 : ∃ k, (a.sign * x) % bg = a.sign * x + bg * k := ⟨-((a.sign * x) / bg), by
      have := Int.emod_add_mul_ediv (a.sign * x) bg
      linarith⟩
    obtain ⟨k0, hk0⟩ := hs0
    have key : ∀ s k, s = a.sign * x + bg * k → a * s + b * (((g : Int) - a * s) / b) = (g : Int) := by
      intro s k hs
      have hbb : b ∣ (b.natAbs : Int) := Int.dvd_natAbs_self
      have hdiv : b ∣ ((g : Int) - a * s) := by
        have e : (g : Int) - a * s = (b.natAbs : Int) * (y - a' * k) := by
          have hx : a * a.sign = (a.natAbs : Int) := mul_sign_natAbs a
          have : a * s = (a.natAbs : Int) * x + a' * ((g : Int) * bg) * k := by
            rw [hs]; rw [← hx]; rw [ha']; ring
          rw [this, ← hbg]
          linear_combination (-1 : Int) * x2
        rw [e]
        exact Dvd.dvd.mul_right hbb _
      rw [Int.mul_ediv_cancel' hdiv]; ring
    split
    · exact key _ k0 hk0
    · exact key _ (k0 - 1) (by rw [hk0]; ring)

/-- the specification's `invert`: the result lies in `[0,|m|)` and is an inverse of `a` modulo `m` -/
theorem spec_invert_some (a m r : Int) (hm : m ≠ 0) (h : MpSpec.invert a m = some r) :
    0 ≤ r ∧ r < (m.natAbs : Int) ∧ m ∣ (a * r - 1) := by
  unfold MpSpec.invert at h
  split at h
  · rename_i hg
    injection h with h
    obtain ⟨x1, x2⟩ := natXgcd_spec a.natAbs m.natAbs
    have hg1 : (MpSpec.natXgcd a.natAbs m.natAbs).1 = 1 := by rw [x1]; exact hg
    rw [hg1] at x2
    refine ⟨?_, ?_, ?_⟩
    · rw [← h]; exact Int.emod_nonneg _ hm
    · rw [← h]
      exact Int.emod_lt _ hm
    · rw [← h]
      set x := (MpSpec.natXgcd a.natAbs m.natAbs).2.1
      set y := (MpSpec.natXgcd a.natAbs m.natAbs).2.2
      have hx : a * a.sign = (a.natAbs : Int) := mul_sign_natAbs a
      have e1 : a * ((a.sign * x) % m) - 1 = a * (a.sign * x) - 1 - m * (a * ((a.sign * x) / m)) := by
        have := Int.emod_add_mul_ediv (a.sign * x) m
        linear_combination a * this
      have hmm : m ∣ (m.natAbs : Int) := Int.dvd_natAbs_self
      obtain ⟨c, hc⟩ := hmm
      have e2 : a * (a.sign * x) - 1 = m * (-(c * y)) := by
        have : a * (a.sign * x) = (a.natAbs : Int) * x := by rw [← hx]; ring
        rw [this]
        have x2' : (a.natAbs : Int) * x + (m.natAbs : Int) * y = 1 := by exact_mod_cast x2
        rw [hc] at x2'
        linear_combination x2'
      rw [e1, e2]
      exact ⟨-(c * y) - a * ((a.sign * x) / m), by ring⟩
  · exact absurd h (by simp)

theorem spec_invert_none (a m : Int) : MpSpec.invert a m = none ↔ Int.gcd a m ≠ 1 := by
  unfold MpSpec.invert
  split <;> simp_all


theorem bezout_emod_unique {a m s1 t1 s2 t2 : Int} (h1 : a * s1 + m * t1 = 1) (h2 : a * s2 + m * t2 = 1) :
    s1 % m = s2 % m := by
  rw [Int.emod_eq_emod_iff_emod_sub_eq_zero]
  have : s1 - s2 = m * (t2 * s1 - t1 * s2) := by linear_combination s2 * h1 - s1 * h2
  rw [this]
  exact Int.mul_emod_right m _

/-- the sign fix-up in `mp_invert` after `mp_fdiv_r` yields the representative in `[0,|m|)` -/
theorem invert_normalise (s m : Int) (hm : m ≠ 0) :
    (if MpBoost.fdivR s m < 0 then MpBoost.fdivR s m + (m.natAbs : Int) else MpBoost.fdivR s m) = s % m := by
  rw [boost_fdivR_spec s m hm]
  unfold MpSpec.fdivR
  rw [Int.fmod_eq_emod]
  have h0 := Int.emod_nonneg s hm
  have h1 := Int.emod_lt s hm
  by_cases hpos : 0 ≤ m
  · simp only [hpos, true_or, if_true]
    have : ¬ (s % m + 0 < 0) := by omega
    simp only [this, if_false]
    omega
  · by_cases hd : m ∣ s
    · have : s % m = 0 := Int.emod_eq_zero_of_dvd hd
      simp [hd, this]
    · have hne : s % m ≠ 0 := fun h => hd (Int.dvd_of_emod_eq_zero h)
      have : ¬ (0 ≤ m ∨ m ∣ s) := by
        rintro (h | h)
        · exact hpos h
        · exact hd h
      simp only [this, if_false]
      have hlt : s % m + m < 0 := by omega
      simp only [hlt, if_true]
      omega

/-- `mp_invert` (mp_boost.cpp) agrees with the specification: it fails exactly when `gcd(a,m) ≠ 1`, and
otherwise returns the inverse of `a` modulo `m` in `[0,|m|)` -/
theorem boost_invert_spec (a m : Int) (hm : m ≠ 0) : MpBoost.invert a m = MpSpec.invert a m := by
  obtain ⟨g1, g2⟩ := boost_gcdext_bezout a m
  unfold MpBoost.invert MpSpec.invert
  simp only [g1]
  by_cases hg : Int.gcd a m = 1
  · simp only [hg, Nat.cast_one, bne_self_eq_false, Bool.false_eq_true, if_false, if_true]
    rw [invert_normalise _ m hm]
    congr 1
    obtain ⟨x1, x2⟩ := natXgcd_spec a.natAbs m.natAbs
    have hg1 : (MpSpec.natXgcd a.natAbs m.natAbs).1 = 1 := by rw [x1]; exact hg
    rw [hg1] at x2
    obtain ⟨c, hc⟩ : m ∣ (m.natAbs : Int) := Int.dvd_natAbs_self
    have hb : a * (MpBoost.gcdext a m).2.1 + m * (MpBoost.gcdext a m).2.2 = 1 := by
      rw [g2, g1, hg]; rfl
    have hs : a * (a.sign * (MpSpec.natXgcd a.natAbs m.natAbs).2.1)
        + m * (c * (MpSpec.natXgcd a.natAbs m.natAbs).2.2) = 1 := by
      have hx : a * a.sign = (a.natAbs : Int) := mul_sign_natAbs a
      have x2' : (a.natAbs : Int) * (MpSpec.natXgcd a.natAbs m.natAbs).2.1
          + (m.natAbs : Int) * (MpSpec.natXgcd a.natAbs m.natAbs).2.2 = 1 := by exact_mod_cast x2
      rw [hc, ← hx] at x2'
      linear_combination x2'
    exact bezout_emod_unique hb hs
  · have : ((Int.gcd a m : Int) != 1) = true := by
      simp only [bne_iff_ne, ne_eq]
      exact_mod_cast hg
    simp [this, hg]

end SymVerif.C43
