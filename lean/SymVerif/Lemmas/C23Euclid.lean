import SymVerif.Lemmas.C23Div

/-!
C23 helper lemmas, part 3: quotient / remainder / divmod, monic, gcd, lcm, powers,
modular powers and modular composition.
-/
namespace SymVerif.C23
open Polynomial SymVerif.GF

variable {p : ℕ} [Fact p.Prime]

theorem prime_pos : 0 < p := (Fact.out : p.Prime).pos
theorem prime_one_lt : 1 < p := (Fact.out : p.Prime).one_lt

/-! ### leading coefficient of a well-formed vector -/

theorem getLastD_mem {l : Poly} (hne : l ≠ []) : l.getLastD 0 ∈ l := by
  cases hl : l.getLast? with
  | none => simp at hl; exact absurd hl hne
  | some x =>
    rw [List.getLastD_eq_getLast?, hl]
    exact List.mem_of_getLast? hl

theorem getLastD_cast_ne_zero {l : Poly} (h : WF p l) (hne : l ≠ []) : ((l.getLastD 0 : ℕ) : ZMod p) ≠ 0 := by
  intro h0
  have hx := cast_eq_zero_of_lt (h.1 _ (getLastD_mem hne)) h0
  cases hl : l.getLast? with
  | none => simp at hl; exact absurd hl hne
  | some x =>
    rw [List.getLastD_eq_getLast?, hl] at hx
    simp at hx
    exact h.2 (hx ▸ hl)

theorem getD_degree_eq_getLastD (l : Poly) : l.getD (GF.degree l) 0 = l.getLastD 0 := by
  unfold GF.degree
  rw [List.getLastD_eq_getLast?, List.getLast?_eq_getElem?]
  simp [List.getD]

theorem invMod_mul_lc {l : Poly} (h : WF p l) (hne : l ≠ []) :
    ((invMod p (l.getLastD 0) : ℕ) : ZMod p) * ((l.getLastD 0 : ℕ) : ZMod p) = 1 := by
  rw [invMod_cast (getLastD_cast_ne_zero h hne)]
  exact inv_mul_cancel₀ (getLastD_cast_ne_zero h hne)

/-- multiplying all coefficients by a unit keeps the invariant -/
theorem wf_map_mul_right {a : Poly} (ha : WF p a) (u : ℕ) (hu : (u : ZMod p) ≠ 0) :
    WF p (a.map (fun x => x * u % p)) := by
  refine ⟨red_map_mod prime_pos _ a, ?_⟩
  rw [List.getLast?_map]
  cases hl : a.getLast? with
  | none => simp
  | some x =>
    simp only [Option.map_some, ne_eq, Option.some.injEq]
    intro h0
    have hx : (x : ZMod p) ≠ 0 := fun hz =>
      ha.2 ((cast_eq_zero_of_lt (ha.1 x (List.mem_of_getLast? hl)) hz) ▸ hl)
    have : ((x * u % p : ℕ) : ZMod p) = 0 := by rw [h0]; simp
    rw [ZMod.natCast_mod, Nat.cast_mul] at this
    exact (mul_ne_zero hx hu) this

theorem wf_map_mul_left {a : Poly} (ha : WF p a) (u : ℕ) (hu : (u : ZMod p) ≠ 0) :
    WF p (a.map (fun x => u * x % p)) := by
  have : (fun x => u * x % p) = (fun x => x * u % p) := by funext x; rw [Nat.mul_comm]
  rw [this]; exact wf_map_mul_right ha u hu

theorem map_mod_of_red {l : Poly} (h : Red p l) : l.map (· % p) = l := by
  induction l with
  | nil => rfl
  | cons x l ih =>
    simp only [List.map_cons]
    rw [Nat.mod_eq_of_lt (h x (by simp)), ih (fun y hy => h y (List.mem_cons_of_mem _ hy))]

/-! ### the division loop on well-formed operands -/

theorem divOut_spec {a b : Poly} (ha : WF p a) (hb : WF p b) (ha0 : a ≠ []) (hb0 : b ≠ [])
    (hdeg : GF.degree b ≤ GF.degree a) :
    ∃ rs qs : List ℕ, divOut p a b = rs ++ qs ∧ rs.length = GF.degree b ∧
      Red p rs ∧ Red p qs ∧ toPoly p a = toPoly p qs * toPoly p b + toPoly p rs := by
  have hal : a.length = GF.degree a + 1 := by
    have := List.length_pos_iff.mpr ha0; unfold GF.degree; omega
  have hbl : b.length = GF.degree b + 1 := by
    have := List.length_pos_iff.mpr hb0; unfold GF.degree; omega
  have hinv : ((invMod p (b.getLastD 0) : ℕ) : ZMod p) * ((b.getD (GF.degree b) 0 : ℕ) : ZMod p) = 1 := by
    rw [getD_degree_eq_getLastD]; exact invMod_mul_lc hb hb0
  obtain ⟨rs, qs, h, hrl, hrr, hqr, hspec⟩ :=
    divLoopL_spec (p := p) a b (invMod p (b.getLastD 0)) (GF.degree a) (GF.degree b) hbl hal hdeg hinv
  refine ⟨rs, qs, ?_, hrl, hrr, hqr, hspec⟩
  unfold divOut
  have := divLoop_eq (p := p) a b (invMod p (b.getLastD 0)) (GF.degree a) (GF.degree b) hal (GF.degree a + 1) []
    (by omega) (by simp)
  rw [List.append_nil, List.take_of_length_le (by omega)] at this
  simp only []
  rw [this, h]

/-- `operator/=` and `operator%=` together: `a = quo * b + rem`, invariant kept, `rem` shorter than `b` -/
theorem quo_rem_spec {a b : Poly} (ha : WF p a) (hb : WF p b) (hb0 : b ≠ []) :
    toPoly p a = toPoly p (quo p a b) * toPoly p b + toPoly p (rem p a b) ∧
      WF p (quo p a b) ∧ WF p (rem p a b) := by
  have e : b.isEmpty = false := by cases b <;> simp_all
  unfold quo rem
  simp only [e, Bool.false_eq_true, if_false]
  by_cases h1 : a.isEmpty
  · simp only [h1, if_true]
    have : a = [] := List.isEmpty_iff.mp h1
    subst this
    exact ⟨by simp, wf_nil, wf_nil⟩
  · simp only [h1, Bool.false_eq_true, if_false]
    have ha0 : a ≠ [] := by intro h; simp [h] at h1
    by_cases h2 : b.length == 1
    · simp only [h2, if_true]
      obtain ⟨c, rfl⟩ : ∃ c, b = [c] := by
        match b, h2 with
        | [c], _ => exact ⟨c, rfl⟩
      have hi := invMod_mul_lc hb hb0
      simp only [List.getLastD_cons, List.getLastD_nil] at hi ⊢
      have hu : ((invMod p c : ℕ) : ZMod p) ≠ 0 := by
        intro h0; rw [h0, zero_mul] at hi; exact zero_ne_one hi
      refine ⟨?_, wf_map_mul_right ha _ hu, wf_nil⟩
      rw [toPoly_map_mul_right]
      simp only [toPoly_cons, toPoly_nil, mul_zero, add_zero]
      rw [mul_comm (C _) (toPoly p a), mul_assoc, ← C_mul, hi]; simp
    · simp only [h2, Bool.false_eq_true, if_false]
      by_cases h3 : GF.degree a < GF.degree b
      · simp only [h3, if_true]
        exact ⟨by simp, wf_nil, ha⟩
      · simp only [h3, if_false]
        obtain ⟨rs, qs, h, hrl, hrr, hqr, hspec⟩ := divOut_spec ha hb ha0 hb0 (by omega)
        rw [h, ← hrl, List.take_left' rfl, List.drop_left' rfl, toPoly_strip, toPoly_strip]
        exact ⟨hspec, wf_strip hqr, wf_strip hrr⟩

theorem toPoly_quo_rem {a b : Poly} (ha : WF p a) (hb : WF p b) (hb0 : b ≠ []) :
    toPoly p a = toPoly p (quo p a b) * toPoly p b + toPoly p (rem p a b) := (quo_rem_spec ha hb hb0).1
theorem wf_quo {a b : Poly} (ha : WF p a) (hb : WF p b) (hb0 : b ≠ []) : WF p (quo p a b) :=
  (quo_rem_spec ha hb hb0).2.1
theorem wf_rem {a b : Poly} (ha : WF p a) (hb : WF p b) (hb0 : b ≠ []) : WF p (rem p a b) :=
  (quo_rem_spec ha hb hb0).2.2

/-- GF.degree form of "the remainder is shorter than the divisor" -/
theorem degree_lt_of_length_lt {r b : Poly} (hr : WF p r) (hb : WF p b) (h : r.length < b.length) :
    (toPoly p r).degree < (toPoly p b).degree := by
  have hb0 : b ≠ [] := by intro e; simp [e] at h
  have hB : toPoly p b ≠ 0 := fun e => hb0 ((toPoly_eq_zero_iff hb).mp e)
  by_cases hr0 : r = []
  · subst hr0
    simp only [toPoly_nil, degree_zero]
    exact bot_lt_iff_ne_bot.mpr (fun e => hB (degree_eq_bot.mp e))
  · have hR : toPoly p r ≠ 0 := fun e => hr0 ((toPoly_eq_zero_iff hr).mp e)
    rw [degree_eq_natDegree hR, degree_eq_natDegree hB, natDegree_toPoly hr, natDegree_toPoly hb]
    have := List.length_pos_iff.mpr hr0
    exact_mod_cast (by omega : r.length - 1 < b.length - 1)

theorem degree_rem_lt {a b : Poly} (ha : WF p a) (hb : WF p b) (hb0 : b ≠ []) :
    (toPoly p (rem p a b)).degree < (toPoly p b).degree :=
  degree_lt_of_length_lt (wf_rem ha hb hb0) hb (rem_length_lt p a b hb0)

/-- `gf_div` -/
theorem divmod_spec' {a b : Poly} (ha : WF p a) (hb : WF p b) (hb0 : b ≠ []) :
    toPoly p a = toPoly p (divmod p a b).1 * toPoly p b + toPoly p (divmod p a b).2 ∧
      WF p (divmod p a b).1 ∧ WF p (divmod p a b).2 ∧ (divmod p a b).2.length < b.length := by
  have hbl := List.length_pos_iff.mpr hb0
  unfold divmod
  by_cases h1 : a.isEmpty
  · simp only [h1, if_true]
    have : a = [] := List.isEmpty_iff.mp h1
    subst this
    exact ⟨by simp, wf_nil, wf_nil, hbl⟩
  · simp only [h1, Bool.false_eq_true, if_false]
    have ha0 : a ≠ [] := by intro h; simp [h] at h1
    by_cases h3 : GF.degree a < GF.degree b
    · simp only [h3, if_true]
      rw [map_mod_of_red ha.1, strip_of_wf ha]
      refine ⟨by simp, wf_nil, ha, ?_⟩
      have := List.length_pos_iff.mpr ha0
      unfold GF.degree at h3; omega
    · simp only [h3, if_false]
      obtain ⟨rs, qs, h, hrl, hrr, hqr, hspec⟩ := divOut_spec ha hb ha0 hb0 (by omega)
      rw [h, ← hrl, List.take_left' rfl, List.drop_left' rfl, map_mod_of_red hrr, map_mod_of_red hqr,
        toPoly_strip, toPoly_strip]
      refine ⟨hspec, wf_strip hqr, wf_strip hrr, ?_⟩
      have := strip_length_le rs
      unfold GF.degree at hrl; omega

/-- exact division: if `b ∣ a` the remainder vanishes -/
theorem rem_eq_nil_of_dvd {a b : Poly} (ha : WF p a) (hb : WF p b) (hb0 : b ≠ [])
    (hdvd : toPoly p b ∣ toPoly p a) : rem p a b = [] := by
  have hspec := toPoly_quo_rem ha hb hb0
  have hdeg := degree_rem_lt ha hb hb0
  have hR : toPoly p b ∣ toPoly p (rem p a b) := by
    have : toPoly p (rem p a b) = toPoly p a - toPoly p (quo p a b) * toPoly p b := by
      rw [hspec]; ring
    rw [this]
    exact dvd_sub hdvd (dvd_mul_left _ _)
  have := eq_zero_of_dvd_of_degree_lt hR hdeg
  exact (toPoly_eq_zero_iff (wf_rem ha hb hb0)).mp this

theorem quo_mul_of_dvd {a b : Poly} (ha : WF p a) (hb : WF p b) (hb0 : b ≠ [])
    (hdvd : toPoly p b ∣ toPoly p a) : toPoly p (quo p a b) * toPoly p b = toPoly p a := by
  have hspec := toPoly_quo_rem ha hb hb0
  rw [rem_eq_nil_of_dvd ha hb hb0 hdvd] at hspec
  simp at hspec
  exact hspec.symm

/-! ### monic -/

theorem monic_nil : monic p [] = (0, []) := by simp [monic]

theorem monic_spec' {a : Poly} (ha : WF p a) (ha0 : a ≠ []) :
    (monic p a).1 = a.getLastD 0 ∧
    toPoly p (monic p a).2 = C (((a.getLastD 0 : ℕ) : ZMod p)⁻¹) * toPoly p a ∧
    WF p (monic p a).2 ∧ (toPoly p (monic p a).2).Monic ∧ (monic p a).2 ≠ [] := by
  have hlc := getLastD_cast_ne_zero ha ha0
  have hmonic : (C (((a.getLastD 0 : ℕ) : ZMod p)⁻¹) * toPoly p a).Monic := by
    rw [Monic, leadingCoeff_mul, leadingCoeff_C, leadingCoeff_toPoly ha ha0]
    exact inv_mul_cancel₀ hlc
  unfold monic
  cases hl : a.getLast? with
  | none => simp at hl; exact absurd hl ha0
  | some lc =>
    have hlast : a.getLastD 0 = lc := by rw [List.getLastD_eq_getLast?, hl]; rfl
    rw [hlast] at hlc hmonic ⊢
    simp only []
    by_cases h1 : lc = 1
    · subst h1
      simp only [bne_self_eq_false, Bool.false_eq_true, if_false]
      refine ⟨by simp, by simp, ha, by simpa using hmonic, ha0⟩
    · have : (lc != 1) = true := by simpa using h1
      simp only [this, if_true]
      have hu : ((invMod p lc : ℕ) : ZMod p) ≠ 0 := by
        rw [invMod_cast hlc]; exact inv_ne_zero hlc
      refine ⟨by simp, ?_, wf_map_mul_left ha _ hu, ?_, by simpa using ha0⟩
      · rw [toPoly_map_mul_left, invMod_cast hlc]
      · rw [toPoly_map_mul_left, invMod_cast hlc]; exact hmonic

theorem wf_monic {a : Poly} (ha : WF p a) : WF p (monic p a).2 := by
  by_cases ha0 : a = []
  · subst ha0; simp [monic_nil, wf_nil]
  · exact (monic_spec' ha ha0).2.2.1

/-! ### gcd -/

theorem gcdLoop_spec : ∀ (N : ℕ) (f g : Poly), g.length ≤ N → WF p f → WF p g →
    WF p (gcdLoop p f g) ∧ toPoly p (gcdLoop p f g) ∣ toPoly p f ∧ toPoly p (gcdLoop p f g) ∣ toPoly p g ∧
    (∀ c, c ∣ toPoly p f → c ∣ toPoly p g → c ∣ toPoly p (gcdLoop p f g)) ∧
    (gcdLoop p f g = [] → f = [] ∧ g = []) := by
  intro N
  induction N with
  | zero =>
    intro f g hN hf _
    have : g = [] := List.length_eq_zero_iff.mp (by omega)
    subst this
    rw [gcdLoop]
    simp only [dite_true]
    exact ⟨hf, dvd_refl _, by simp, fun c h _ => h, fun h => by simpa using h⟩
  | succ N ih =>
    intro f g hN hf hg
    by_cases hg0 : g = []
    · subst hg0
      rw [gcdLoop]
      simp only [dite_true]
      exact ⟨hf, dvd_refl _, by simp, fun c h _ => h, fun h => by simpa using h⟩
    · rw [gcdLoop]
      simp only [hg0, dite_false]
      have hlt := rem_length_lt p f g hg0
      obtain ⟨h1, h2, h3, h4, h5⟩ := ih g (rem p f g) (by omega) hg (wf_rem hf hg hg0)
      have hspec := toPoly_quo_rem hf hg hg0
      refine ⟨h1, ?_, h2, ?_, ?_⟩
      · rw [hspec]; exact dvd_add (dvd_mul_of_dvd_right h2 _) h3
      · intro c hcf hcg
        apply h4 c hcg
        have : toPoly p (rem p f g) = toPoly p f - toPoly p (quo p f g) * toPoly p g := by
          rw [hspec]; ring
        rw [this]; exact dvd_sub hcf (dvd_mul_of_dvd_right hcg _)
      · intro h; exact absurd (h5 h).1 hg0

/-- `gf_gcd`: well-formed, divides both, is divisible by every common divisor, monic unless both are zero -/
theorem gcd_spec' {f g : Poly} (hf : WF p f) (hg : WF p g) :
    WF p (GF.gcd p f g) ∧ toPoly p (GF.gcd p f g) ∣ toPoly p f ∧ toPoly p (GF.gcd p f g) ∣ toPoly p g ∧
    (∀ c, c ∣ toPoly p f → c ∣ toPoly p g → c ∣ toPoly p (GF.gcd p f g)) ∧
    ((f ≠ [] ∨ g ≠ []) → (toPoly p (GF.gcd p f g)).Monic ∧ GF.gcd p f g ≠ []) ∧
    (f = [] → g = [] → GF.gcd p f g = []) := by
  obtain ⟨h1, h2, h3, h4, h5⟩ := gcdLoop_spec (p := p) g.length f g le_rfl hf hg
  unfold GF.gcd
  by_cases h0 : gcdLoop p f g = []
  · obtain ⟨rfl, rfl⟩ := h5 h0
    rw [h0]
    simp [monic_nil, wf_nil]
  · obtain ⟨_, m2, m3, m4, m5⟩ := monic_spec' h1 h0
    have hu : ((((gcdLoop p f g).getLastD 0 : ℕ) : ZMod p))⁻¹ ≠ 0 := inv_ne_zero (getLastD_cast_ne_zero h1 h0)
    refine ⟨m3, ?_, ?_, ?_, fun _ => ⟨m4, m5⟩, ?_⟩
    · rw [m2]; exact (C_mul_dvd hu).mpr h2
    · rw [m2]; exact (C_mul_dvd hu).mpr h3
    · intro c hcf hcg; rw [m2]; exact (dvd_C_mul hu).mpr (h4 c hcf hcg)
    · intro hf0 hg0
      subst hf0 hg0
      exact absurd (by rw [gcdLoop]; simp) h0

/-! ### powers -/

theorem powLoop_spec : ∀ (N num : ℕ) (sq ret : Poly), num ≤ N → 1 ≤ num → WF p sq → WF p ret →
    toPoly p (powLoop p num sq ret) = toPoly p ret * toPoly p sq ^ num ∧ WF p (powLoop p num sq ret) := by
  intro N
  induction N with
  | zero => intro num _ _ h1 h2; omega
  | succ N ih =>
    intro num sq ret hN h1 hsq hret
    rw [powLoop]
    have hret' : WF p (if num % 2 == 1 then mulAssign p ret sq else ret) := by
      split
      · exact wf_mulAssign prime_pos hret hsq
      · exact hret
    have hval : toPoly p (if num % 2 == 1 then mulAssign p ret sq else ret)
        = toPoly p ret * toPoly p sq ^ (num % 2) := by
      split
      · rename_i h; have : num % 2 = 1 := by simpa using h
        rw [toPoly_mulAssign, this, pow_one]
      · rename_i h
        have : num % 2 = 0 := by
          have : num % 2 ≠ 1 := by simpa using h
          omega
        rw [this, pow_zero, mul_one]
    by_cases h0 : num / 2 = 0
    · simp only [h0, dite_true]
      have : num = 1 := by omega
      subst this
      exact ⟨by simpa using hval, hret'⟩
    · simp only [h0, dite_false]
      obtain ⟨e, w⟩ := ih (num / 2) (sqr p sq) _ (by omega) (by omega) (wf_sqr prime_pos hsq) hret'
      refine ⟨?_, w⟩
      rw [e, hval, toPoly_sqr, ← pow_two, ← pow_mul, mul_assoc, ← pow_add]
      congr 2; omega

theorem pow_spec' {a : Poly} (ha : WF p a) (n : ℕ) :
    toPoly p (GF.pow p a n) = toPoly p a ^ n ∧ WF p (GF.pow p a n) := by
  unfold GF.pow
  split
  · rename_i h; have : n = 0 := by simpa using h
    subst this
    exact ⟨by rw [toPoly_one' prime_one_lt, pow_zero], wf_one' prime_one_lt⟩
  · split
    · rename_i h; have : n = 1 := by simpa using h
      subst this; exact ⟨by simp, ha⟩
    · split
      · rename_i h; have : n = 2 := by simpa using h
        subst this; exact ⟨by rw [toPoly_sqr, pow_two], wf_sqr prime_pos ha⟩
      · rename_i h0 _ _
        have : n ≠ 0 := by simpa using h0
        obtain ⟨e, w⟩ := powLoop_spec (p := p) n n a (one p) le_rfl (by omega) ha (wf_one' prime_one_lt)
        exact ⟨by rw [e, toPoly_one' prime_one_lt, one_mul], w⟩

/-! ### congruences modulo a polynomial -/

/-- `A ≡ B (mod M)` -/
def PModEq (M A B : (ZMod p)[X]) : Prop := M ∣ A - B

theorem PModEq.refl (M A : (ZMod p)[X]) : PModEq M A A := by simp [PModEq]

theorem PModEq.trans {M A B D : (ZMod p)[X]} (h1 : PModEq M A B) (h2 : PModEq M B D) : PModEq M A D := by
  unfold PModEq at *
  have : A - D = (A - B) + (B - D) := by ring
  rw [this]; exact dvd_add h1 h2

theorem PModEq.mul {M A B A' B' : (ZMod p)[X]} (h1 : PModEq M A A') (h2 : PModEq M B B') :
    PModEq M (A * B) (A' * B') := by
  unfold PModEq at *
  have : A * B - A' * B' = (A - A') * B + A' * (B - B') := by ring
  rw [this]; exact dvd_add (dvd_mul_of_dvd_left h1 _) (dvd_mul_of_dvd_right h2 _)

theorem PModEq.add {M A B A' B' : (ZMod p)[X]} (h1 : PModEq M A A') (h2 : PModEq M B B') :
    PModEq M (A + B) (A' + B') := by
  unfold PModEq at *
  have : A + B - (A' + B') = (A - A') + (B - B') := by ring
  rw [this]; exact dvd_add h1 h2

theorem PModEq.pow {M A A' : (ZMod p)[X]} (h : PModEq M A A') (n : ℕ) : PModEq M (A ^ n) (A' ^ n) := by
  induction n with
  | zero => simp [PModEq.refl]
  | succ n ih => rw [pow_succ, pow_succ]; exact ih.mul h

theorem rem_modEq {a m : Poly} (ha : WF p a) (hm : WF p m) (hm0 : m ≠ []) :
    PModEq (toPoly p m) (toPoly p (rem p a m)) (toPoly p a) := by
  unfold PModEq
  have := toPoly_quo_rem ha hm hm0
  have e : toPoly p (rem p a m) - toPoly p a = -(toPoly p (quo p a m)) * toPoly p m := by
    rw [this]; ring
  rw [e]; exact dvd_mul_left _ _

/-! ### modular powers -/

theorem powModLoop_spec {m : Poly} (hm : WF p m) (hm0 : m ≠ []) :
    ∀ (N num : ℕ) (inp h : Poly), num ≤ N → 1 ≤ num → WF p inp → WF p h →
      PModEq (toPoly p m) (toPoly p (powModLoop p m num inp h)) (toPoly p h * toPoly p inp ^ num) ∧
      WF p (powModLoop p m num inp h) ∧ (powModLoop p m num inp h).length < m.length := by
  intro N
  induction N with
  | zero => intro num _ _ h1 h2; omega
  | succ N ih =>
    intro num inp h hN h1 hinp hh
    rw [powModLoop]
    by_cases h0 : num / 2 = 0
    · simp only [h0, dite_true]
      have h1' : num = 1 := by omega
      subst h1'
      simp only [show (1 % 2 == 1) = true from rfl, if_true, pow_one]
      have hw := wf_mulAssign prime_pos hh hinp
      refine ⟨?_, wf_rem hw hm hm0, rem_length_lt p _ m hm0⟩
      have := rem_modEq hw hm hm0
      rwa [toPoly_mulAssign] at this
    · simp only [h0, dite_false]
      have hh' : WF p (if num % 2 == 1 then rem p (mulAssign p h inp) m else h) := by
        split
        · exact wf_rem (wf_mulAssign prime_pos hh hinp) hm hm0
        · exact hh
      have hval : PModEq (toPoly p m) (toPoly p (if num % 2 == 1 then rem p (mulAssign p h inp) m else h))
          (toPoly p h * toPoly p inp ^ (num % 2)) := by
        split
        · rename_i hb; have : num % 2 = 1 := by simpa using hb
          rw [this, pow_one]
          have := rem_modEq (wf_mulAssign prime_pos hh hinp) hm hm0
          rwa [toPoly_mulAssign] at this
        · rename_i hb
          have : num % 2 = 0 := by
            have : num % 2 ≠ 1 := by simpa using hb
            omega
          rw [this, pow_zero, mul_one]; exact PModEq.refl _ _
      have hsq := wf_rem (wf_sqr prime_pos hinp) hm hm0
      obtain ⟨e, w, l⟩ := ih (num / 2) (rem p (sqr p inp) m) _ (by omega) (by omega) hsq hh'
      refine ⟨?_, w, l⟩
      apply e.trans
      have hsqeq : PModEq (toPoly p m) (toPoly p (rem p (sqr p inp) m)) (toPoly p inp ^ 2) := by
        have := rem_modEq (wf_sqr prime_pos hinp) hm hm0
        rwa [toPoly_sqr, ← pow_two] at this
      have := hval.mul (hsqeq.pow (num / 2))
      have e2 : toPoly p h * toPoly p inp ^ (num % 2) * (toPoly p inp ^ 2) ^ (num / 2)
          = toPoly p h * toPoly p inp ^ num := by
        rw [← pow_mul, mul_assoc, ← pow_add]
        congr 2; omega
      rwa [e2] at this

/-- `gf_pow_mod` : congruent to `f^n` modulo `m`, reduced for `n ≥ 1` -/
theorem powMod_spec' {m f : Poly} (hm : WF p m) (hm0 : m ≠ []) (hf : WF p f) (n : ℕ) :
    PModEq (toPoly p m) (toPoly p (powMod p m f n)) (toPoly p f ^ n) ∧ WF p (powMod p m f n) ∧
      (1 ≤ n → (powMod p m f n).length < m.length) := by
  unfold powMod
  split
  · rename_i h; have : n = 0 := by simpa using h
    subst this
    refine ⟨by rw [toPoly_one prime_one_lt, pow_zero]; exact PModEq.refl _ _, wf_fromVec prime_pos _, by omega⟩
  · split
    · rename_i h; have : n = 1 := by simpa using h
      subst this
      exact ⟨by simpa using rem_modEq hf hm hm0, wf_rem hf hm hm0, fun _ => rem_length_lt p _ m hm0⟩
    · split
      · rename_i h; have : n = 2 := by simpa using h
        subst this
        refine ⟨?_, wf_rem (wf_sqr prime_pos hf) hm hm0, fun _ => rem_length_lt p _ m hm0⟩
        have := rem_modEq (wf_sqr prime_pos hf) hm hm0
        rwa [toPoly_sqr, ← pow_two] at this
      · rename_i h0 _ _
        have : n ≠ 0 := by simpa using h0
        obtain ⟨e, w, l⟩ := powModLoop_spec (p := p) hm hm0 n n f (fromVec p [1]) le_rfl (by omega) hf
          (wf_fromVec prime_pos _)
        refine ⟨?_, w, fun _ => l⟩
        rwa [toPoly_one prime_one_lt, one_mul] at e

/-! ### modular composition -/

theorem composeLoop_spec {f : Poly} (hf : WF p f) (hf0 : f ≠ []) {h : Poly} (hh : WF p h) :
    ∀ (gs : List ℕ) (out : Poly) (O : (ZMod p)[X]), WF p out → PModEq (toPoly p f) (toPoly p out) O →
      PModEq (toPoly p f) (toPoly p (composeLoop p f h gs out))
        (gs.foldl (fun acc (c : ℕ) => acc * toPoly p h + C (c : ZMod p)) O) ∧
      WF p (composeLoop p f h gs out) := by
  intro gs
  induction gs with
  | nil => intro out O hw he; exact ⟨he, hw⟩
  | cons c gs ih =>
    intro out O hw he
    simp only [composeLoop, List.foldl_cons]
    have hw1 := wf_addConst prime_pos (wf_mulAssign prime_pos hw hh) (c : ℤ)
    apply ih _ _ (wf_rem hw1 hf hf0)
    apply (rem_modEq hw1 hf hf0).trans
    rw [toPoly_addConst prime_pos, toPoly_mulAssign]
    simp only [Int.cast_natCast]
    exact (he.mul (PModEq.refl _ _)).add (PModEq.refl _ _)

theorem comp_toPoly (l : Poly) (H : (ZMod p)[X]) :
    (toPoly p l).comp H = l.foldr (fun (c : ℕ) acc => acc * H + C (c : ZMod p)) 0 := by
  induction l with
  | nil => simp
  | cons c l ih => simp [ih]; ring

theorem comp_toPoly_rev (l : Poly) (H : (ZMod p)[X]) :
    (toPoly p l).comp H = l.reverse.foldl (fun acc (c : ℕ) => acc * H + C (c : ZMod p)) 0 := by
  rw [comp_toPoly, List.foldl_reverse]

/-- `gf_compose_mod` : congruent to `g(h)` modulo `f` -/
theorem composeMod_spec' {f g h : Poly} (hf : WF p f) (hf0 : f ≠ []) (hg : WF p g) (hh : WF p h) :
    PModEq (toPoly p f) (toPoly p (composeMod p f g h)) ((toPoly p g).comp (toPoly p h)) ∧
      WF p (composeMod p f g h) := by
  unfold composeMod
  rw [comp_toPoly_rev]
  cases hr : g.reverse with
  | nil =>
    have : g = [] := by simpa using hr
    subst this
    exact ⟨by simp [PModEq.refl], wf_nil⟩
  | cons lc gs =>
    have := composeLoop_spec hf hf0 hh gs (fromVec p [(lc : ℤ)]) (0 * toPoly p h + C (lc : ZMod p))
      (wf_fromVec prime_pos _) (by rw [toPoly_fromVec prime_pos]; simp [PModEq.refl])
    exact this

end SymVerif.C23
