/-
The Max / Min rules of RefineVisitor preserve the value: the arguments that are dropped are dominated by an
argument that is kept.
-/
import SymVerif.Lemmas.C35Pow
import Mathlib.Tactic.Tauto

namespace SymVerif.C35
open SymVerif SymVerif.Queries SymVerif.Refine SymVerif.C34

/-! ## maximum / minimum of a non-empty list as computed by `appSem` -/

theorem foldl_max_ge_init (l : List ℝ) (x : ℝ) : x ≤ l.foldl max x := by
  induction l generalizing x with
  | nil => simp
  | cons a t ih => exact le_trans (le_max_left x a) (ih (max x a))

theorem foldl_max_ge_mem (l : List ℝ) (x y : ℝ) (hy : y ∈ l) : y ≤ l.foldl max x := by
  induction l generalizing x with
  | nil => cases hy
  | cons a t ih =>
    rcases List.mem_cons.mp hy with rfl | h
    · exact le_trans (le_max_right x y) (foldl_max_ge_init t (max x y))
    · exact ih (max x a) h

theorem foldl_max_mem (l : List ℝ) (x : ℝ) : l.foldl max x = x ∨ l.foldl max x ∈ l := by
  induction l generalizing x with
  | nil => simp
  | cons a t ih =>
    rcases ih (max x a) with h | h
    · rcases max_choice x a with hm | hm
      · left; simp only [List.foldl_cons]; rw [h, hm]
      · right; simp only [List.foldl_cons]; rw [h, hm]; simp
    · right; exact List.mem_cons_of_mem _ h

theorem foldl_min_le_init (l : List ℝ) (x : ℝ) : l.foldl min x ≤ x := by
  induction l generalizing x with
  | nil => simp
  | cons a t ih => exact le_trans (ih (min x a)) (min_le_left x a)

theorem foldl_min_le_mem (l : List ℝ) (x y : ℝ) (hy : y ∈ l) : l.foldl min x ≤ y := by
  induction l generalizing x with
  | nil => cases hy
  | cons a t ih =>
    rcases List.mem_cons.mp hy with rfl | h
    · exact le_trans (foldl_min_le_init t (min x y)) (min_le_right x y)
    · exact ih (min x a) h

theorem foldl_min_mem (l : List ℝ) (x : ℝ) : l.foldl min x = x ∨ l.foldl min x ∈ l := by
  induction l generalizing x with
  | nil => simp
  | cons a t ih =>
    rcases ih (min x a) with h | h
    · rcases min_choice x a with hm | hm
      · left; simp only [List.foldl_cons]; rw [h, hm]
      · right; simp only [List.foldl_cons]; rw [h, hm]; simp
    · right; exact List.mem_cons_of_mem _ h

/-- two non-empty value lists with the same elements up to domination have the same maximum -/
theorem max_eq_of_dominated {x y : ℝ} {l m : List ℝ}
    (hsub : ∀ z ∈ x :: l, z ∈ y :: m) (hdom : ∀ z ∈ y :: m, ∃ w ∈ x :: l, z ≤ w) :
    l.foldl max x = m.foldl max y := by
  apply le_antisymm
  · have hmem : l.foldl max x ∈ x :: l := by
      rcases foldl_max_mem l x with h | h
      · rw [h]; simp
      · exact List.mem_cons_of_mem _ h
    rcases List.mem_cons.mp (hsub _ hmem) with h | h
    · rw [h]; exact foldl_max_ge_init m y
    · exact foldl_max_ge_mem m y _ h
  · have hmem : m.foldl max y ∈ y :: m := by
      rcases foldl_max_mem m y with h | h
      · rw [h]; simp
      · exact List.mem_cons_of_mem _ h
    obtain ⟨w, hw, hle⟩ := hdom _ hmem
    refine le_trans hle ?_
    rcases List.mem_cons.mp hw with h | h
    · rw [h]; exact foldl_max_ge_init l x
    · exact foldl_max_ge_mem l x _ h

theorem min_eq_of_dominated {x y : ℝ} {l m : List ℝ}
    (hsub : ∀ z ∈ x :: l, z ∈ y :: m) (hdom : ∀ z ∈ y :: m, ∃ w ∈ x :: l, w ≤ z) :
    l.foldl min x = m.foldl min y := by
  apply le_antisymm
  · have hmem : m.foldl min y ∈ y :: m := by
      rcases foldl_min_mem m y with h | h
      · rw [h]; simp
      · exact List.mem_cons_of_mem _ h
    obtain ⟨w, hw, hle⟩ := hdom _ hmem
    refine le_trans ?_ hle
    rcases List.mem_cons.mp hw with h | h
    · rw [h]; exact foldl_min_le_init l x
    · exact foldl_min_le_mem l x _ h
  · have hmem : l.foldl min x ∈ x :: l := by
      rcases foldl_min_mem l x with h | h
      · rw [h]; simp
      · exact List.mem_cons_of_mem _ h
    rcases List.mem_cons.mp (hsub _ hmem) with h | h
    · rw [h]; exact foldl_min_le_init m y
    · exact foldl_min_le_mem m y _ h

/-! ## evaluation of argument lists, element-wise -/

theorem evalArgs_mem_some {ρ : String → ℝ} : ∀ {l : List Expr} {vs : List ℝ}, evalArgs ρ l = some vs →
    ∀ a ∈ l, ∃ v ∈ vs, evalR ρ a = some v := by
  intro l
  induction l with
  | nil => intro vs _ a ha; cases ha
  | cons b t ih =>
    intro vs h a ha
    simp only [evalArgs] at h
    cases hb : evalR ρ b with
    | none => simp [hb] at h
    | some vb =>
      cases ht : evalArgs ρ t with
      | none => simp [hb, ht] at h
      | some vt =>
        simp [hb, ht] at h
        subst h
        rcases List.mem_cons.mp ha with rfl | ha
        · exact ⟨vb, by simp, hb⟩
        · obtain ⟨v, hv, hva⟩ := ih ht a ha
          exact ⟨v, List.mem_cons_of_mem _ hv, hva⟩

/-- a list all of whose elements evaluate: its value list, with the element-wise correspondence -/
theorem evalArgs_of_forall {ρ : String → ℝ} : ∀ (l : List Expr), (∀ a ∈ l, ∃ v, evalR ρ a = some v) →
    ∃ ks, evalArgs ρ l = some ks ∧ ks.length = l.length ∧
      (∀ k ∈ ks, ∃ a ∈ l, evalR ρ a = some k) ∧ (∀ a ∈ l, ∀ v, evalR ρ a = some v → v ∈ ks) := by
  intro l
  induction l with
  | nil => intro _; exact ⟨[], by simp [evalArgs], rfl, by simp, by simp⟩
  | cons b t ih =>
    intro h
    obtain ⟨vb, hvb⟩ := h b (by simp)
    obtain ⟨ks, hks, hlen, h1, h2⟩ := ih (fun a ha => h a (List.mem_cons_of_mem _ ha))
    refine ⟨vb :: ks, by simp [evalArgs, hvb, hks], by simp [hlen], ?_, ?_⟩
    · intro k hk
      rcases List.mem_cons.mp hk with rfl | hk
      · exact ⟨b, by simp, hvb⟩
      · obtain ⟨a, ha, hak⟩ := h1 k hk
        exact ⟨a, List.mem_cons_of_mem _ ha, hak⟩
    · intro a ha v hv
      rcases List.mem_cons.mp ha with rfl | ha
      · rw [hvb] at hv; cases hv; simp
      · exact List.mem_cons_of_mem _ (h2 a ha v hv)


/-! ## the classification loop of `RefineVisitor::bvisit(const Max &)` -/

abbrev ExtState := List Expr × List Expr × List Expr × Bool × Bool

structure MaxInv (A : Assumptions) (processed : List Expr) (st : ExtState) : Prop where
  sub : ∀ a, (a ∈ st.1 ∨ a ∈ st.2.1 ∨ a ∈ st.2.2.1) → a ∈ processed
  sup : ∀ a ∈ processed, a ∈ st.1 ∨ a ∈ st.2.1 ∨ a ∈ st.2.2.1
  nonpos : ∀ a ∈ st.2.1, isNonpositive A a = .t
  neg : ∀ a ∈ st.2.2.1, isNegative A a = .t
  hp : st.2.2.2.1 = true → ∃ a ∈ st.1, isPositive A a = .t
  hn : st.2.2.2.2 = true → ∃ a ∈ st.1, isNonnegative A a = .t

theorem maxStep_inv {A : Assumptions} {processed : List Expr} {st : ExtState} (a : Expr)
    (h : MaxInv A processed st) : MaxInv A (processed ++ [a]) (maxStep A a st) := by
  obtain ⟨keep, nonpos, neg, hp, hn⟩ := st
  obtain ⟨hsub, hsup, hnp, hng, hhp, hhn⟩ := h
  simp only at hsub hsup hnp hng hhp hhn
  unfold maxStep
  simp only
  split_ifs with h1 h2 h3 h4
  · refine ⟨?_, ?_, hnp, hng, ?_, ?_⟩
    · intro b hb; simp only [List.mem_append, List.mem_singleton] at hb ⊢
      rcases hb with (hb | hb) | hb | hb
      · left; exact hsub b (Or.inl hb)
      · right; exact hb
      · left; exact hsub b (Or.inr (Or.inl hb))
      · left; exact hsub b (Or.inr (Or.inr hb))
    · intro b hb; simp only [List.mem_append, List.mem_singleton] at hb ⊢
      rcases hb with hb | hb
      · rcases hsup b hb with h | h | h
        · exact Or.inl (Or.inl h)
        · exact Or.inr (Or.inl h)
        · exact Or.inr (Or.inr h)
      · exact Or.inl (Or.inr hb)
    · intro _; exact ⟨a, by simp, by simpa using h1⟩
    · intro hh
      obtain ⟨b, hb, hbq⟩ := hhn hh
      exact ⟨b, by simp [hb], hbq⟩
  · refine ⟨?_, ?_, hnp, hng, ?_, ?_⟩
    · intro b hb; simp only [List.mem_append, List.mem_singleton] at hb ⊢
      rcases hb with (hb | hb) | hb | hb
      · left; exact hsub b (Or.inl hb)
      · right; exact hb
      · left; exact hsub b (Or.inr (Or.inl hb))
      · left; exact hsub b (Or.inr (Or.inr hb))
    · intro b hb; simp only [List.mem_append, List.mem_singleton] at hb ⊢
      rcases hb with hb | hb
      · rcases hsup b hb with h | h | h
        · exact Or.inl (Or.inl h)
        · exact Or.inr (Or.inl h)
        · exact Or.inr (Or.inr h)
      · exact Or.inl (Or.inr hb)
    · intro hh
      obtain ⟨b, hb, hbq⟩ := hhp hh
      exact ⟨b, by simp [hb], hbq⟩
    · intro _; exact ⟨a, by simp, by simpa using h2⟩
  · refine ⟨?_, ?_, hnp, ?_, hhp, hhn⟩
    · intro b hb; simp only [List.mem_append, List.mem_singleton] at hb ⊢
      rcases hb with hb | hb | hb | hb
      · left; exact hsub b (Or.inl hb)
      · left; exact hsub b (Or.inr (Or.inl hb))
      · left; exact hsub b (Or.inr (Or.inr hb))
      · right; exact hb
    · intro b hb; simp only [List.mem_append, List.mem_singleton] at hb ⊢
      rcases hb with hb | hb
      · rcases hsup b hb with h | h | h
        · exact Or.inl h
        · exact Or.inr (Or.inl h)
        · exact Or.inr (Or.inr (Or.inl h))
      · exact Or.inr (Or.inr (Or.inr hb))
    · intro b hb; simp only [List.mem_append, List.mem_singleton] at hb
      rcases hb with hb | hb
      · exact hng b hb
      · subst hb; simpa using h3
  · refine ⟨?_, ?_, ?_, hng, hhp, hhn⟩
    · intro b hb; simp only [List.mem_append, List.mem_singleton] at hb ⊢
      rcases hb with hb | (hb | hb) | hb
      · left; exact hsub b (Or.inl hb)
      · left; exact hsub b (Or.inr (Or.inl hb))
      · right; exact hb
      · left; exact hsub b (Or.inr (Or.inr hb))
    · intro b hb; simp only [List.mem_append, List.mem_singleton] at hb ⊢
      rcases hb with hb | hb
      · rcases hsup b hb with h | h | h
        · exact Or.inl h
        · exact Or.inr (Or.inl (Or.inl h))
        · exact Or.inr (Or.inr h)
      · exact Or.inr (Or.inl (Or.inr hb))
    · intro b hb; simp only [List.mem_append, List.mem_singleton] at hb
      rcases hb with hb | hb
      · exact hnp b hb
      · subst hb; simpa using h4
  · refine ⟨?_, ?_, hnp, hng, ?_, ?_⟩
    · intro b hb; simp only [List.mem_append, List.mem_singleton] at hb ⊢
      rcases hb with (hb | hb) | hb | hb
      · left; exact hsub b (Or.inl hb)
      · right; exact hb
      · left; exact hsub b (Or.inr (Or.inl hb))
      · left; exact hsub b (Or.inr (Or.inr hb))
    · intro b hb; simp only [List.mem_append, List.mem_singleton] at hb ⊢
      rcases hb with hb | hb
      · rcases hsup b hb with h | h | h
        · exact Or.inl (Or.inl h)
        · exact Or.inr (Or.inl h)
        · exact Or.inr (Or.inr h)
      · exact Or.inl (Or.inr hb)
    · intro hh
      obtain ⟨b, hb, hbq⟩ := hhp hh
      exact ⟨b, by simp [hb], hbq⟩
    · intro hh
      obtain ⟨b, hb, hbq⟩ := hhn hh
      exact ⟨b, by simp [hb], hbq⟩

theorem maxFold_inv {A : Assumptions} : ∀ (args processed : List Expr) (st : ExtState),
    MaxInv A processed st → MaxInv A (processed ++ args) (args.foldl (fun st a => maxStep A a st) st) := by
  intro args
  induction args with
  | nil => intro processed st h; simpa using h
  | cons a t ih =>
    intro processed st h
    have := ih (processed ++ [a]) (maxStep A a st) (maxStep_inv a h)
    simpa [List.append_assoc] using this

theorem maxInv_init (A : Assumptions) : MaxInv A [] ([], [], [], false, false) :=
  ⟨by simp, by simp, by simp, by simp, by simp, by simp⟩


/-- what the kept list of the Max rule satisfies: it consists of arguments, and every argument is kept or
    dominated (in value) by a kept one -/
theorem maxKeep_spec {ρ : String → ℝ} {A : Assumptions} (hA : FactsSat ρ A) {args : List Expr}
    (hwf : ∀ a ∈ args, wf a = true) (hne : args ≠ []) :
    (∀ a ∈ maxKeep A args, a ∈ args) ∧ maxKeep A args ≠ [] ∧
    (∀ a ∈ args, a ∈ maxKeep A args ∨
      ∃ b ∈ maxKeep A args, ∀ va vb, evalR ρ a = some va → evalR ρ b = some vb → va ≤ vb) := by
  have hinv := maxFold_inv (A := A) args [] _ (maxInv_init A)
  simp only [List.nil_append] at hinv
  unfold maxKeep
  generalize args.foldl (fun st a => maxStep A a st) ([], [], [], false, false) = st at hinv
  obtain ⟨keep, nonpos, neg, hp, hn⟩ := st
  obtain ⟨hsub, hsup, hnp, hng, hhp, hhn⟩ := hinv
  simp only at hsub hsup hnp hng hhp hhn ⊢
  -- semantic facts about the three classes
  have hposv : ∀ b ∈ args, isPositive A b = .t → ∀ vb, evalR ρ b = some vb → 0 < vb :=
    fun b hb hq vb hvb => (isPositiveF_sound hA _ b vb (hwf b hb) hvb).1 (by simpa [isPositive] using hq)
  have hnnv : ∀ b, isNonnegative A b = .t → ∀ vb, evalR ρ b = some vb → 0 ≤ vb :=
    fun b hq vb hvb => (isNonnegative_sound hA hvb).1 hq
  have hnpv : ∀ b, isNonpositive A b = .t → ∀ vb, evalR ρ b = some vb → vb ≤ 0 :=
    fun b hq vb hvb => (isNonpositive_sound hA hvb).1 hq
  have hngv : ∀ b, isNegative A b = .t → ∀ vb, evalR ρ b = some vb → vb < 0 :=
    fun b hq vb hvb => (isNegative_sound hA hvb).1 hq
  obtain ⟨a0, ha0⟩ := List.exists_mem_of_ne_nil args hne
  cases hp <;> cases hn <;> simp only [Bool.not_false, Bool.not_true, Bool.true_and, Bool.false_and, Bool.and_true,
    Bool.and_false, if_false, Bool.false_eq_true] at hhp hhn ⊢
  · -- no positive, no non-negative kept: everything is kept
    refine ⟨?_, ?_, ?_⟩
    · intro a ha
      have : a ∈ keep ∨ a ∈ nonpos ∨ a ∈ neg := by
        split_ifs at ha <;> (try simp only [List.mem_append] at ha) <;> tauto
      exact hsub a this
    · intro hnil
      rcases hsup a0 ha0 with h | h | h
      · split_ifs at hnil <;> simp_all
      · split_ifs at hnil <;> simp_all
      · split_ifs at hnil <;> simp_all
    · intro a ha
      left
      rcases hsup a ha with h | h | h
      · split_ifs <;> simp [h]
      · split_ifs <;> simp_all
      · split_ifs <;> simp_all
  · -- a non-negative argument is kept: the negative ones are dropped
    obtain ⟨b, hbk, hbq⟩ := hhn trivial
    refine ⟨?_, ?_, ?_⟩
    · intro a ha
      have : a ∈ keep ∨ a ∈ nonpos ∨ a ∈ neg := by
        split_ifs at ha <;> (try simp only [List.mem_append] at ha) <;> tauto
      exact hsub a this
    · intro hnil
      split_ifs at hnil <;> simp_all
    · intro a ha
      rcases hsup a ha with h | h | h
      · left; split_ifs <;> simp [h]
      · left; split_ifs <;> simp_all
      · right
        refine ⟨b, by split_ifs <;> simp [hbk], ?_⟩
        intro va vb hva hvb
        have := hngv a (hng a h) va hva
        have := hnnv b hbq vb hvb
        linarith
  · -- a positive argument is kept: non-positive and negative ones are dropped
    obtain ⟨b, hbk, hbq⟩ := hhp trivial
    have hbargs : b ∈ args := hsub b (Or.inl hbk)
    refine ⟨fun a ha => hsub a (Or.inl ha), fun hnil => by simp_all, ?_⟩
    intro a ha
    rcases hsup a ha with h | h | h
    · left; exact h
    · right
      refine ⟨b, hbk, ?_⟩
      intro va vb hva hvb
      have := hnpv a (hnp a h) va hva
      have := hposv b hbargs hbq vb hvb
      linarith
    · right
      refine ⟨b, hbk, ?_⟩
      intro va vb hva hvb
      have := hngv a (hng a h) va hva
      have := hposv b hbargs hbq vb hvb
      linarith
  · obtain ⟨b, hbk, hbq⟩ := hhp trivial
    have hbargs : b ∈ args := hsub b (Or.inl hbk)
    refine ⟨fun a ha => hsub a (Or.inl ha), fun hnil => by simp_all, ?_⟩
    intro a ha
    rcases hsup a ha with h | h | h
    · left; exact h
    · right
      refine ⟨b, hbk, ?_⟩
      intro va vb hva hvb
      have := hnpv a (hnp a h) va hva
      have := hposv b hbargs hbq vb hvb
      linarith
    · right
      refine ⟨b, hbk, ?_⟩
      intro va vb hva hvb
      have := hngv a (hng a h) va hva
      have := hposv b hbargs hbq vb hvb
      linarith


/-! ## the same for Min -/

structure MinInv (A : Assumptions) (processed : List Expr) (st : ExtState) : Prop where
  sub : ∀ a, (a ∈ st.1 ∨ a ∈ st.2.1 ∨ a ∈ st.2.2.1) → a ∈ processed
  sup : ∀ a ∈ processed, a ∈ st.1 ∨ a ∈ st.2.1 ∨ a ∈ st.2.2.1
  nonpos : ∀ a ∈ st.2.1, isNonnegative A a = .t
  neg : ∀ a ∈ st.2.2.1, isPositive A a = .t
  hp : st.2.2.2.1 = true → ∃ a ∈ st.1, isNegative A a = .t
  hn : st.2.2.2.2 = true → ∃ a ∈ st.1, isNonpositive A a = .t

theorem minStep_inv {A : Assumptions} {processed : List Expr} {st : ExtState} (a : Expr)
    (h : MinInv A processed st) : MinInv A (processed ++ [a]) (minStep A a st) := by
  obtain ⟨keep, nonpos, neg, hp, hn⟩ := st
  obtain ⟨hsub, hsup, hnp, hng, hhp, hhn⟩ := h
  simp only at hsub hsup hnp hng hhp hhn
  unfold minStep
  simp only
  split_ifs with h1 h2 h3 h4
  · refine ⟨?_, ?_, hnp, hng, ?_, ?_⟩
    · intro b hb; simp only [List.mem_append, List.mem_singleton] at hb ⊢
      rcases hb with (hb | hb) | hb | hb
      · left; exact hsub b (Or.inl hb)
      · right; exact hb
      · left; exact hsub b (Or.inr (Or.inl hb))
      · left; exact hsub b (Or.inr (Or.inr hb))
    · intro b hb; simp only [List.mem_append, List.mem_singleton] at hb ⊢
      rcases hb with hb | hb
      · rcases hsup b hb with h | h | h
        · exact Or.inl (Or.inl h)
        · exact Or.inr (Or.inl h)
        · exact Or.inr (Or.inr h)
      · exact Or.inl (Or.inr hb)
    · intro _; exact ⟨a, by simp, by simpa using h1⟩
    · intro hh
      obtain ⟨b, hb, hbq⟩ := hhn hh
      exact ⟨b, by simp [hb], hbq⟩
  · refine ⟨?_, ?_, hnp, hng, ?_, ?_⟩
    · intro b hb; simp only [List.mem_append, List.mem_singleton] at hb ⊢
      rcases hb with (hb | hb) | hb | hb
      · left; exact hsub b (Or.inl hb)
      · right; exact hb
      · left; exact hsub b (Or.inr (Or.inl hb))
      · left; exact hsub b (Or.inr (Or.inr hb))
    · intro b hb; simp only [List.mem_append, List.mem_singleton] at hb ⊢
      rcases hb with hb | hb
      · rcases hsup b hb with h | h | h
        · exact Or.inl (Or.inl h)
        · exact Or.inr (Or.inl h)
        · exact Or.inr (Or.inr h)
      · exact Or.inl (Or.inr hb)
    · intro hh
      obtain ⟨b, hb, hbq⟩ := hhp hh
      exact ⟨b, by simp [hb], hbq⟩
    · intro _; exact ⟨a, by simp, by simpa using h2⟩
  · refine ⟨?_, ?_, hnp, ?_, hhp, hhn⟩
    · intro b hb; simp only [List.mem_append, List.mem_singleton] at hb ⊢
      rcases hb with hb | hb | hb | hb
      · left; exact hsub b (Or.inl hb)
      · left; exact hsub b (Or.inr (Or.inl hb))
      · left; exact hsub b (Or.inr (Or.inr hb))
      · right; exact hb
    · intro b hb; simp only [List.mem_append, List.mem_singleton] at hb ⊢
      rcases hb with hb | hb
      · rcases hsup b hb with h | h | h
        · exact Or.inl h
        · exact Or.inr (Or.inl h)
        · exact Or.inr (Or.inr (Or.inl h))
      · exact Or.inr (Or.inr (Or.inr hb))
    · intro b hb; simp only [List.mem_append, List.mem_singleton] at hb
      rcases hb with hb | hb
      · exact hng b hb
      · subst hb; simpa using h3
  · refine ⟨?_, ?_, ?_, hng, hhp, hhn⟩
    · intro b hb; simp only [List.mem_append, List.mem_singleton] at hb ⊢
      rcases hb with hb | (hb | hb) | hb
      · left; exact hsub b (Or.inl hb)
      · left; exact hsub b (Or.inr (Or.inl hb))
      · right; exact hb
      · left; exact hsub b (Or.inr (Or.inr hb))
    · intro b hb; simp only [List.mem_append, List.mem_singleton] at hb ⊢
      rcases hb with hb | hb
      · rcases hsup b hb with h | h | h
        · exact Or.inl h
        · exact Or.inr (Or.inl (Or.inl h))
        · exact Or.inr (Or.inr h)
      · exact Or.inr (Or.inl (Or.inr hb))
    · intro b hb; simp only [List.mem_append, List.mem_singleton] at hb
      rcases hb with hb | hb
      · exact hnp b hb
      · subst hb; simpa using h4
  · refine ⟨?_, ?_, hnp, hng, ?_, ?_⟩
    · intro b hb; simp only [List.mem_append, List.mem_singleton] at hb ⊢
      rcases hb with (hb | hb) | hb | hb
      · left; exact hsub b (Or.inl hb)
      · right; exact hb
      · left; exact hsub b (Or.inr (Or.inl hb))
      · left; exact hsub b (Or.inr (Or.inr hb))
    · intro b hb; simp only [List.mem_append, List.mem_singleton] at hb ⊢
      rcases hb with hb | hb
      · rcases hsup b hb with h | h | h
        · exact Or.inl (Or.inl h)
        · exact Or.inr (Or.inl h)
        · exact Or.inr (Or.inr h)
      · exact Or.inl (Or.inr hb)
    · intro hh
      obtain ⟨b, hb, hbq⟩ := hhp hh
      exact ⟨b, by simp [hb], hbq⟩
    · intro hh
      obtain ⟨b, hb, hbq⟩ := hhn hh
      exact ⟨b, by simp [hb], hbq⟩

theorem minFold_inv {A : Assumptions} : ∀ (args processed : List Expr) (st : ExtState),
    MinInv A processed st → MinInv A (processed ++ args) (args.foldl (fun st a => minStep A a st) st) := by
  intro args
  induction args with
  | nil => intro processed st h; simpa using h
  | cons a t ih =>
    intro processed st h
    have := ih (processed ++ [a]) (minStep A a st) (minStep_inv a h)
    simpa [List.append_assoc] using this

theorem minInv_init (A : Assumptions) : MinInv A [] ([], [], [], false, false) :=
  ⟨by simp, by simp, by simp, by simp, by simp, by simp⟩


/-- what the kept list of the Min rule satisfies: it consists of arguments, and every argument is kept or
    dominated (in value) by a kept one -/
theorem minKeep_spec {ρ : String → ℝ} {A : Assumptions} (hA : FactsSat ρ A) {args : List Expr}
    (hwf : ∀ a ∈ args, wf a = true) (hne : args ≠ []) :
    (∀ a ∈ minKeep A args, a ∈ args) ∧ minKeep A args ≠ [] ∧
    (∀ a ∈ args, a ∈ minKeep A args ∨
      ∃ b ∈ minKeep A args, ∀ va vb, evalR ρ a = some va → evalR ρ b = some vb → vb ≤ va) := by
  have hinv := minFold_inv (A := A) args [] _ (minInv_init A)
  simp only [List.nil_append] at hinv
  unfold minKeep
  generalize args.foldl (fun st a => minStep A a st) ([], [], [], false, false) = st at hinv
  obtain ⟨keep, nonpos, neg, hp, hn⟩ := st
  obtain ⟨hsub, hsup, hnp, hng, hhp, hhn⟩ := hinv
  simp only at hsub hsup hnp hng hhp hhn ⊢
  -- semantic facts about the three classes
  have hposv : ∀ b, isNegative A b = .t → ∀ vb, evalR ρ b = some vb → vb < 0 :=
    fun b hq vb hvb => (isNegative_sound hA hvb).1 hq
  have hnnv : ∀ b, isNonpositive A b = .t → ∀ vb, evalR ρ b = some vb → vb ≤ 0 :=
    fun b hq vb hvb => (isNonpositive_sound hA hvb).1 hq
  have hnpv : ∀ b, isNonnegative A b = .t → ∀ vb, evalR ρ b = some vb → 0 ≤ vb :=
    fun b hq vb hvb => (isNonnegative_sound hA hvb).1 hq
  have hngv : ∀ b ∈ args, isPositive A b = .t → ∀ vb, evalR ρ b = some vb → 0 < vb :=
    fun b hb hq vb hvb => (isPositiveF_sound hA _ b vb (hwf b hb) hvb).1 (by simpa [isPositive] using hq)
  obtain ⟨a0, ha0⟩ := List.exists_mem_of_ne_nil args hne
  cases hp <;> cases hn <;> simp only [Bool.not_false, Bool.not_true, Bool.true_and, Bool.false_and, Bool.and_true,
    Bool.and_false, if_false, Bool.false_eq_true] at hhp hhn ⊢
  · -- no positive, no non-negative kept: everything is kept
    refine ⟨?_, ?_, ?_⟩
    · intro a ha
      have : a ∈ keep ∨ a ∈ nonpos ∨ a ∈ neg := by
        split_ifs at ha <;> (try simp only [List.mem_append] at ha) <;> tauto
      exact hsub a this
    · intro hnil
      rcases hsup a0 ha0 with h | h | h
      · split_ifs at hnil <;> simp_all
      · split_ifs at hnil <;> simp_all
      · split_ifs at hnil <;> simp_all
    · intro a ha
      left
      rcases hsup a ha with h | h | h
      · split_ifs <;> simp [h]
      · split_ifs <;> simp_all
      · split_ifs <;> simp_all
  · -- a non-negative argument is kept: the negative ones are dropped
    obtain ⟨b, hbk, hbq⟩ := hhn trivial
    refine ⟨?_, ?_, ?_⟩
    · intro a ha
      have : a ∈ keep ∨ a ∈ nonpos ∨ a ∈ neg := by
        split_ifs at ha <;> (try simp only [List.mem_append] at ha) <;> tauto
      exact hsub a this
    · intro hnil
      split_ifs at hnil <;> simp_all
    · intro a ha
      rcases hsup a ha with h | h | h
      · left; split_ifs <;> simp [h]
      · left; split_ifs <;> simp_all
      · right
        refine ⟨b, by split_ifs <;> simp [hbk], ?_⟩
        intro va vb hva hvb
        have := hngv a ha (hng a h) va hva
        have := hnnv b hbq vb hvb
        linarith
  · -- a positive argument is kept: non-positive and negative ones are dropped
    obtain ⟨b, hbk, hbq⟩ := hhp trivial
    have hbargs : b ∈ args := hsub b (Or.inl hbk)
    refine ⟨fun a ha => hsub a (Or.inl ha), fun hnil => by simp_all, ?_⟩
    intro a ha
    rcases hsup a ha with h | h | h
    · left; exact h
    · right
      refine ⟨b, hbk, ?_⟩
      intro va vb hva hvb
      have := hnpv a (hnp a h) va hva
      have := hposv b hbq vb hvb
      linarith
    · right
      refine ⟨b, hbk, ?_⟩
      intro va vb hva hvb
      have := hngv a ha (hng a h) va hva
      have := hposv b hbq vb hvb
      linarith
  · obtain ⟨b, hbk, hbq⟩ := hhp trivial
    have hbargs : b ∈ args := hsub b (Or.inl hbk)
    refine ⟨fun a ha => hsub a (Or.inl ha), fun hnil => by simp_all, ?_⟩
    intro a ha
    rcases hsup a ha with h | h | h
    · left; exact h
    · right
      refine ⟨b, hbk, ?_⟩
      intro va vb hva hvb
      have := hnpv a (hnp a h) va hva
      have := hposv b hbq vb hvb
      linarith
    · right
      refine ⟨b, hbk, ?_⟩
      intro va vb hva hvb
      have := hngv a ha (hng a h) va hva
      have := hposv b hbq vb hvb
      linarith



/-! ## the value of the rebuilt Max / Min -/

theorem wfList_mem : ∀ {l : List Expr}, wfList l = true → ∀ a ∈ l, wf a = true := by
  intro l
  induction l with
  | nil => intro _ a ha; cases ha
  | cons b t ih =>
    intro h a ha
    simp only [wfList, Bool.and_eq_true] at h
    rcases List.mem_cons.mp ha with rfl | ha
    · exact h.1
    · exact ih h.2 a ha

/-- common part: a kept list `K` of arguments that dominates all arguments has the same extremum -/
theorem ext_value_aux {ρ : String → ℝ} {args K : List Expr} {vs : List ℝ} (hvs : evalArgs ρ args = some vs)
    (hsubK : ∀ a ∈ K, a ∈ args) :
    ∃ ks, evalArgs ρ K = some ks ∧ ks.length = K.length ∧ (∀ z ∈ ks, z ∈ vs) ∧
      (∀ a ∈ K, ∀ va, evalR ρ a = some va → va ∈ ks) ∧
      (∀ z ∈ vs, ∃ a ∈ args, evalR ρ a = some z) := by
  have hall : ∀ a ∈ args, ∃ v, evalR ρ a = some v := fun a ha => by
    obtain ⟨v, _, hv⟩ := evalArgs_mem_some hvs a ha
    exact ⟨v, hv⟩
  obtain ⟨ks, hks, hlen, h1, h2⟩ := evalArgs_of_forall (ρ := ρ) K (fun a ha => hall a (hsubK a ha))
  obtain ⟨vs2, hvs2, _, g1, _⟩ := evalArgs_of_forall (ρ := ρ) args hall
  rw [hvs] at hvs2
  cases hvs2
  refine ⟨ks, hks, hlen, ?_, h2, g1⟩
  intro z hz
  obtain ⟨a, ha, haz⟩ := h1 z hz
  obtain ⟨v', hv', hav'⟩ := evalArgs_mem_some hvs a (hsubK a ha)
  rw [haz] at hav'
  cases hav'
  exact hv'

theorem maxRule_value {ρ : String → ℝ} {A : Assumptions} (hA : FactsSat ρ A) {args : List Expr} {v : ℝ}
    (hwf : ∀ a ∈ args, wf a = true) (hv : evalR ρ (.app "Max" args) = some v) :
    evalR ρ (mkExt "Max" (maxKeep A args)) = some v := by
  simp only [evalR] at hv
  cases hvs : evalArgs ρ args with
  | none => rw [hvs] at hv; simp [appSem] at hv
  | some vs =>
    rw [hvs] at hv
    match vs, hvs, hv with
    | [], _, hv => simp [appSem] at hv
    | [x], _, hv => simp [appSem] at hv
    | x :: y :: rest, hvs, hv =>
      simp [appSem] at hv
      have hne : args ≠ [] := by
        intro h0; subst h0; simp [evalArgs] at hvs
      obtain ⟨hsubK, hneK, hdom⟩ := maxKeep_spec hA hwf hne
      obtain ⟨ks, hks, hlen, hin, h2, g1⟩ := ext_value_aux hvs hsubK
      match ks, hks, hlen, hin, h2 with
      | [], _, hlen, _, _ =>
        exfalso; apply hneK; exact List.length_eq_zero_iff.mp hlen.symm
      | k :: ks', hks, hlen, hin, h2 =>
        have hmax : ks'.foldl max k = (y :: rest).foldl max x := by
          apply max_eq_of_dominated
          · exact hin
          · intro z hz
            obtain ⟨a, ha, haz⟩ := g1 z hz
            rcases hdom a ha with hk | ⟨b, hb, hle⟩
            · exact ⟨z, h2 a hk z haz, le_refl z⟩
            · obtain ⟨vb, _, hvb⟩ := evalArgs_mem_some hvs b (hsubK b hb)
              exact ⟨vb, h2 b hb vb hvb, hle z vb haz hvb⟩
        simp only [List.foldl_cons] at hmax hv
        match hK : maxKeep A args, hks, hlen with
        | [], _, hlen => simp at hlen
        | [a], hks, hlen =>
          simp only [mkExt]
          simp only [evalArgs] at hks
          cases ha : evalR ρ a with
          | none => simp [ha] at hks
          | some va =>
            simp [ha] at hks
            obtain ⟨rfl, rfl⟩ := hks
            rw [← hv, ← hmax]; rfl
        | a :: b :: t, hks, hlen =>
          simp only [mkExt, evalR, hks]
          match ks', hlen, hmax with
          | [], hlen, _ => simp at hlen
          | k2 :: ks'', _, hmax =>
            simp [appSem]
            rw [← hv, ← hmax]; rfl

theorem minRule_value {ρ : String → ℝ} {A : Assumptions} (hA : FactsSat ρ A) {args : List Expr} {v : ℝ}
    (hwf : ∀ a ∈ args, wf a = true) (hv : evalR ρ (.app "Min" args) = some v) :
    evalR ρ (mkExt "Min" (minKeep A args)) = some v := by
  simp only [evalR] at hv
  cases hvs : evalArgs ρ args with
  | none => rw [hvs] at hv; simp [appSem] at hv
  | some vs =>
    rw [hvs] at hv
    match vs, hvs, hv with
    | [], _, hv => simp [appSem] at hv
    | [x], _, hv => simp [appSem] at hv
    | x :: y :: rest, hvs, hv =>
      simp [appSem] at hv
      have hne : args ≠ [] := by
        intro h0; subst h0; simp [evalArgs] at hvs
      obtain ⟨hsubK, hneK, hdom⟩ := minKeep_spec hA hwf hne
      obtain ⟨ks, hks, hlen, hin, h2, g1⟩ := ext_value_aux hvs hsubK
      match ks, hks, hlen, hin, h2 with
      | [], _, hlen, _, _ =>
        exfalso; apply hneK; exact List.length_eq_zero_iff.mp hlen.symm
      | k :: ks', hks, hlen, hin, h2 =>
        have hmin : ks'.foldl min k = (y :: rest).foldl min x := by
          apply min_eq_of_dominated
          · exact hin
          · intro z hz
            obtain ⟨a, ha, haz⟩ := g1 z hz
            rcases hdom a ha with hk | ⟨b, hb, hle⟩
            · exact ⟨z, h2 a hk z haz, le_refl z⟩
            · obtain ⟨vb, _, hvb⟩ := evalArgs_mem_some hvs b (hsubK b hb)
              exact ⟨vb, h2 b hb vb hvb, hle z vb haz hvb⟩
        simp only [List.foldl_cons] at hmin hv
        match hK : minKeep A args, hks, hlen with
        | [], _, hlen => simp at hlen
        | [a], hks, hlen =>
          simp only [mkExt]
          simp only [evalArgs] at hks
          cases ha : evalR ρ a with
          | none => simp [ha] at hks
          | some va =>
            simp [ha] at hks
            obtain ⟨rfl, rfl⟩ := hks
            rw [← hv, ← hmin]; rfl
        | a :: b :: t, hks, hlen =>
          simp only [mkExt, evalR, hks]
          match ks', hlen, hmin with
          | [], hlen, _ => simp at hlen
          | k2 :: ks'', _, hmin =>
            simp [appSem]
            rw [← hv, ← hmin]; rfl

end SymVerif.C35
